package sqlhist

// C31 — cherry-pick, revert and rebase obey their merge definitions.
//
// Generated histories of row edits over one table (main with 2..4 commits, a second branch
// forked from a drawn main commit with 2..4 commits). For drawn (commit C, HEAD) pairs:
//   cherry-pick: data == vsql.Merge3(base parent(C), ours HEAD, theirs C)   (+ conflict rows, --abort)
//   revert:      data == vsql.Merge3(base C, ours HEAD, theirs parent(C))  (+ conflict rows, --abort)
//   corollaries: cherry-pick of C onto parent(C) gives C's data; revert of HEAD gives parent(HEAD)'s data
//   rebase:      an interactive plan (pick/drop/squash/fixup/reword + reordering through the
//                dolt_rebase table) whose model replay is conflict-free produces, commit by commit,
//                the data of cherry-picking the kept commits in plan order onto the upstream
//                (by the model, and by dolt_cherry_pick itself on a scratch branch).

import (
	"fmt"
	"sort"
	"strconv"
	"strings"
	"testing"

	"pgregory.net/rapid"

	"github.com/dolthub/dolt/go/zzverif/vh"
	"github.com/dolthub/dolt/go/zzverif/vsql"
)

const c31Rule = "rapid-generated histories over one table t(pk INT PRIMARY KEY, c0 INT, c1 INT, c2 VARCHAR): an initial commit with 2..5 rows, main with 2..4 further commits and a branch forked at a drawn main commit with 2..4 commits, each commit 1..4 INSERT/UPDATE(1-2 columns)/DELETE over keys 0..7, or (1 in 3-4 commits after a branch's first) an exact undo of the previous commit's edits, whole or for one key (a third of the cases: both branches edit anything; a third: the branches edit disjoint key halves/columns; a third: additionally every commit of the branch touches its own key, so reordered plans replay without conflict); per case 2 drawn cherry-picks and 2 drawn reverts of any non-initial commit onto a scratch branch at any commit, the two corollaries, and one interactive rebase of the branch onto a drawn main commit at/after the fork with a drawn plan (actions pick/drop/squash/fixup/reword, drawn order; in 3 of 4 cases that have an undo commit it is squashed/fixed-up into the commit it undoes, kept adjacent wherever the pair lands, so net-zero folds are common). Oracle: vsql.Merge3 with the bases the property states; merged rows, conflict rows (base/ours/theirs), data after --abort; rebase: number of new commits == picks+rewords, every new commit's data == the model replay prefix, final data == dolt_cherry_pick replay of the kept commits. Non-trivial: a cherry-pick or revert of a commit that is not the scratch HEAD whose rows overlap rows changed by other commits between base and HEAD (cell-wise merge or conflict), and an executed rebase plan that is not a plain in-order replay (has a squash/fixup, a reorder or a drop; see the class histogram for each); distinct by edit sequence + choices."

var c31Cols = []string{"pk", "c0", "c1", "c2"}

type c31Commit struct {
	Hash   string
	Parent int
	State  *vsql.Table
	Name   string
}

type c31Case struct {
	rt      *rapid.T
	w       *vsql.Session
	commits []*c31Commit
	work    *vsql.Table
	ops     []string
	nScr    int
	classes map[string]bool
	evals   int
}

func (c *c31Case) op(format string, a ...any) { c.ops = append(c.ops, fmt.Sprintf(format, a...)) }

func (c *c31Case) fail(format string, a ...any) {
	c.rt.Helper()
	c.rt.Fatalf("%s\nhistory: %s", fmt.Sprintf(format, a...), strings.Join(c.ops, " ; "))
}

func (c *c31Case) exec(q string) {
	c.rt.Helper()
	if err := c.w.Exec(q); err != nil {
		c.fail("statement failed: %s: %v", q, err)
	}
}

// edits applies n random row edits to the working set. side: 0 = anything, 1 = "main" half
// (keys 0..3, column c0), 2 = "other" half (keys 4..7, columns c1/c2); updates of a side touch
// only its columns but any row.
func (c *c31Case) edits(label string, n, side int) {
	rt := c.rt
	for i := 0; i < n; i++ {
		l := fmt.Sprintf("%s.e%d", label, i)
		lo, hi := 0, 7
		if side == 1 {
			hi = 3
		} else if side == 2 {
			lo = 4
		}
		kind := rapid.IntRange(0, 9).Draw(rt, l+".kind")
		keys := c.work.Keys()
		switch {
		case kind < 4 || len(keys) == 0: // insert (or update when the key exists)
			pk := strconv.Itoa(rapid.IntRange(lo, hi).Draw(rt, l+".pk"))
			if _, ok := c.work.Rows[pk]; ok {
				c.update(l, pk, side)
				continue
			}
			row := vsql.Row{pk, strconv.Itoa(rapid.IntRange(0, 9).Draw(rt, l+".c0")), strconv.Itoa(rapid.IntRange(0, 9).Draw(rt, l+".c1")),
				rapid.SampledFrom([]string{"a", "b", "c", ""}).Draw(rt, l+".c2")}
			c.exec(fmt.Sprintf("INSERT INTO t VALUES (%s,%s,%s,'%s')", row[0], row[1], row[2], row[3]))
			c.work.Put(row)
			c.op("ins(%s)", strings.Join(row, ","))
		case kind < 8:
			c.update(l, rapid.SampledFrom(keys).Draw(rt, l+".key"), side)
		default:
			if side != 0 && rapid.IntRange(0, 2).Draw(rt, l+".delok") != 0 {
				continue
			}
			pk := rapid.SampledFrom(keys).Draw(rt, l+".dkey")
			c.exec("DELETE FROM t WHERE pk = " + pk)
			c.work.Delete(pk)
			c.op("del(%s)", pk)
		}
	}
}

// editKey makes n edits that touch only the row with key pk (insert when absent).
func (c *c31Case) editKey(label, pk string, n int) {
	for i := 0; i < n; i++ {
		l := fmt.Sprintf("%s.k%d", label, i)
		if _, ok := c.work.Rows[pk]; ok {
			c.update(l, pk, 0)
			continue
		}
		row := vsql.Row{pk, strconv.Itoa(rapid.IntRange(0, 9).Draw(c.rt, l+".c0")), strconv.Itoa(rapid.IntRange(0, 9).Draw(c.rt, l+".c1")), "k"}
		c.exec(fmt.Sprintf("INSERT INTO t VALUES (%s,%s,%s,'%s')", row[0], row[1], row[2], row[3]))
		c.work.Put(row)
		c.op("ins(%s)", strings.Join(row, ","))
	}
}

func c31Lit(v string, str bool) string {
	if v == vsql.Null {
		return "NULL"
	}
	if str {
		return "'" + v + "'"
	}
	return v
}

// undo edits the working set (which holds commit x's data) so that the rows commit x changed
// — all of them, or one drawn key — are exactly as they were in x's parent.
func (c *c31Case) undo(label string, x int, oneKey bool) {
	before, after := c.commits[c.commits[x].Parent].State, c.commits[x].State
	var keys []string
	seen := map[string]bool{}
	for _, k := range append(before.Keys(), after.Keys()...) {
		if seen[k] {
			continue
		}
		seen[k] = true
		b, hb := before.Rows[k]
		a, ha := after.Rows[k]
		if hb != ha || (hb && !b.Equal(a)) {
			keys = append(keys, k)
		}
	}
	sort.Strings(keys)
	if len(keys) == 0 {
		return
	}
	if oneKey {
		keys = []string{rapid.SampledFrom(keys).Draw(c.rt, label+".undokey")}
	}
	for _, k := range keys {
		b, hb := before.Rows[k]
		switch {
		case !hb:
			c.exec("DELETE FROM t WHERE pk = " + k)
			c.work.Delete(k)
		default:
			if _, ok := c.work.Rows[k]; ok {
				c.exec(fmt.Sprintf("UPDATE t SET c0 = %s, c1 = %s, c2 = %s WHERE pk = %s", c31Lit(b[1], false), c31Lit(b[2], false), c31Lit(b[3], true), k))
			} else {
				c.exec(fmt.Sprintf("INSERT INTO t VALUES (%s,%s,%s,%s)", k, c31Lit(b[1], false), c31Lit(b[2], false), c31Lit(b[3], true)))
			}
			c.work.Put(b)
		}
	}
	c.op("undo(#%d keys %s)", x, strings.Join(keys, ","))
}

func (c *c31Case) update(l, pk string, side int) {
	rt := c.rt
	row := c.work.Rows[pk].Clone()
	cols := []int{1, 2, 3}
	if side == 1 {
		cols = []int{1}
	} else if side == 2 {
		cols = []int{2, 3}
	}
	var sets []string
	for _, ci := range cols {
		if len(cols) > 1 && rapid.IntRange(0, 1).Draw(rt, fmt.Sprintf("%s.u%d", l, ci)) == 0 {
			continue
		}
		if ci == 3 {
			v := rapid.SampledFrom([]string{"a", "b", "c", "x", vsql.Null}).Draw(rt, l+".v3")
			row[3] = v
			if v == vsql.Null {
				sets = append(sets, "c2 = NULL")
			} else {
				sets = append(sets, "c2 = '"+v+"'")
			}
		} else {
			v := strconv.Itoa(rapid.IntRange(0, 9).Draw(rt, fmt.Sprintf("%s.v%d", l, ci)))
			row[ci] = v
			sets = append(sets, fmt.Sprintf("c%d = %s", ci-1, v))
		}
	}
	if len(sets) == 0 {
		return
	}
	c.exec(fmt.Sprintf("UPDATE t SET %s WHERE pk = %s", strings.Join(sets, ", "), pk))
	c.work.Put(row)
	c.op("upd(%s: %s)", pk, strings.Join(sets, ","))
}

// commit commits the working set if it differs from the parent's state.
func (c *c31Case) commit(parent int, name string) int {
	if parent >= 0 && c.work.Equal(c.commits[parent].State) {
		// force a change so that every commit is non-empty
		pk := "0"
		for i := 0; i < 8; i++ {
			if _, ok := c.work.Rows[strconv.Itoa(i)]; !ok {
				pk = strconv.Itoa(i)
				break
			}
		}
		if _, ok := c.work.Rows[pk]; ok {
			c.exec("DELETE FROM t WHERE pk = " + pk)
			c.work.Delete(pk)
			c.op("del(%s)", pk)
		} else {
			c.exec(fmt.Sprintf("INSERT INTO t VALUES (%s,0,0,'f')", pk))
			c.work.Put(vsql.Row{pk, "0", "0", "f"})
			c.op("ins(%s,0,0,f)", pk)
		}
	}
	n := len(c.commits)
	r := c.w.MustQuery(c.rt, fmt.Sprintf("CALL dolt_commit('-A','-m','%s','--date','2021-03-04T05:06:%02d')", name, n%60))
	c.commits = append(c.commits, &c31Commit{Hash: r.Data[0][0], Parent: parent, State: c.work.Clone(), Name: name})
	c.op("commit %s#%d", name, n)
	return n
}

func (c *c31Case) readTable(q string) []string {
	c.rt.Helper()
	r, err := c.w.Query(q)
	if err != nil {
		c.fail("%s: %v", q, err)
	}
	return r.Sorted()
}

func c31Row(r vsql.Row) string {
	if r == nil {
		return strings.Join([]string{vsql.Null, vsql.Null, vsql.Null, vsql.Null}, "\x1f")
	}
	return r.Join()
}

// scratch puts the writer on a fresh branch at commit head.
func (c *c31Case) scratch(head int) string {
	c.nScr++
	name := fmt.Sprintf("s%d", c.nScr)
	c.exec(fmt.Sprintf("CALL dolt_checkout('-b','%s','%s')", name, c.commits[head].Hash))
	return name
}

// applyMerge runs `CALL proc(arg)` on the current scratch branch whose HEAD data is ours and
// checks it against Merge3(base, ours, theirs). Returns whether the model had conflicts.
func (c *c31Case) applyMerge(what, proc, arg string, base, ours, theirs *vsql.Table) bool {
	merged, conflicts := vsql.Merge3(base, ours, theirs)
	c.evals++
	r, err := c.w.Query(fmt.Sprintf("CALL %s('%s')", proc, arg))
	if len(conflicts) == 0 && merged.Equal(ours) {
		// nothing to apply: dolt refuses ("no changes were made, nothing to commit") or makes an
		// empty commit; either way the data must stay
		c.classes[what+"_noop"] = true
		if got := c.readTable("SELECT * FROM t"); !vsql.EqualStrings(got, ours.Sorted()) {
			c.fail("C31 %s: the model merge changes nothing, but after %s('%s') (err=%v) t holds %s, before %s", what, proc, arg, err, vsql.Show(got), vsql.Show(ours.Sorted()))
		}
		return false
	}
	if err != nil {
		c.fail("C31 %s: %s('%s') failed: %v\n base   %s\n ours   %s\n theirs %s", what, proc, arg, err, vsql.Show(base.Sorted()), vsql.Show(ours.Sorted()), vsql.Show(theirs.Sorted()))
	}
	nconf := "?"
	if len(r.Data) == 1 && len(r.Data[0]) >= 2 {
		nconf = r.Data[0][1]
	}
	got := c.readTable("SELECT * FROM t")
	if !vsql.EqualStrings(got, merged.Sorted()) {
		c.fail("C31 %s: after %s('%s') t holds\n got    %s\n model  %s\n base   %s\n ours   %s\n theirs %s\n model conflicts: %d, dolt data_conflicts: %s", what, proc, arg,
			vsql.Show(got), vsql.Show(merged.Sorted()), vsql.Show(base.Sorted()), vsql.Show(ours.Sorted()), vsql.Show(theirs.Sorted()), len(conflicts), nconf)
	}
	if len(conflicts) == 0 {
		if nconf != "0" {
			c.fail("C31 %s: %s('%s') reports %s data conflicts, the model merge has none\n base   %s\n ours   %s\n theirs %s", what, proc, arg, nconf, vsql.Show(base.Sorted()), vsql.Show(ours.Sorted()), vsql.Show(theirs.Sorted()))
		}
		// it must have committed: HEAD data == merged, working set clean
		if got := c.readTable("SELECT * FROM t AS OF 'HEAD'"); !vsql.EqualStrings(got, merged.Sorted()) {
			c.fail("C31 %s: %s('%s') without conflicts did not commit the merged data: HEAD holds %s, model %s", what, proc, arg, vsql.Show(got), vsql.Show(merged.Sorted()))
		}
		c.classes[what+"_clean"] = true
		return false
	}
	// conflicts: compare the conflict rows, then abort
	c.classes[what+"_conflict"] = true
	// data_conflicts counts the tables with conflicts; dolt_conflicts has the row count
	nrows, _ := c.w.Scalar(c.rt, "SELECT num_conflicts FROM dolt_conflicts WHERE `table` = 't'")
	if nconf != "1" || nrows != strconv.Itoa(len(conflicts)) {
		c.fail("C31 %s: %s('%s') reports %s tables with data conflicts and %q conflicting rows, the model merge has %d\n base   %s\n ours   %s\n theirs %s", what, proc, arg, nconf, nrows, len(conflicts), vsql.Show(base.Sorted()), vsql.Show(ours.Sorted()), vsql.Show(theirs.Sorted()))
	}
	cr, err := c.w.Query("SELECT base_pk,base_c0,base_c1,base_c2,our_pk,our_c0,our_c1,our_c2,their_pk,their_c0,their_c1,their_c2 FROM dolt_conflicts_t")
	if err != nil {
		c.fail("C31 %s: reading dolt_conflicts_t: %v", what, err)
	}
	var want []string
	for _, cf := range conflicts {
		want = append(want, c31Row(cf.Base)+"\x1f"+c31Row(cf.Ours)+"\x1f"+c31Row(cf.Theirs))
	}
	sort.Strings(want)
	if got := cr.Sorted(); !vsql.EqualStrings(got, want) {
		c.fail("C31 %s: conflict rows after %s('%s') (base|ours|theirs)\n got   %s\n model %s", what, proc, arg, vsql.Show(got), vsql.Show(want))
	}
	c.exec(fmt.Sprintf("CALL %s('--abort')", proc))
	if got := c.readTable("SELECT * FROM t"); !vsql.EqualStrings(got, ours.Sorted()) {
		c.fail("C31 %s: after %s('--abort') t holds %s, before the operation %s", what, proc, vsql.Show(got), vsql.Show(ours.Sorted()))
	}
	if n, _ := c.w.Scalar(c.rt, "SELECT COUNT(*) FROM dolt_conflicts"); n != "0" {
		c.fail("C31 %s: conflicts remain after %s('--abort')", what, proc)
	}
	return true
}

func (c *c31Case) empty() *vsql.Table { return vsql.NewTable(c31Cols, 1) }

// overlap: the rows changed by commit x (vs its parent) intersect the rows in which head
// differs from the merge base.
func c31Overlap(base, ours, theirs *vsql.Table) bool {
	changed := func(a, b *vsql.Table) map[string]bool {
		m := map[string]bool{}
		for k, r := range a.Rows {
			if o, ok := b.Rows[k]; !ok || !o.Equal(r) {
				m[k] = true
			}
		}
		for k := range b.Rows {
			if _, ok := a.Rows[k]; !ok {
				m[k] = true
			}
		}
		return m
	}
	x, y := changed(base, theirs), changed(base, ours)
	for k := range x {
		if y[k] {
			return true
		}
	}
	return false
}

func TestVerif_C31(t *testing.T) {
	rec := vh.NewRecorder("C31", "pick_revert_rebase", "exploration", c31Rule,
		"sessions run with @@dolt_allow_commit_conflicts=1 so that a conflicting cherry-pick/revert leaves its conflicts for inspection instead of rolling the autocommit transaction back (documented)",
		"when the model merge changes nothing (the commit's change is already present / already absent) dolt may refuse with 'no changes were made'; only the unchanged data is asserted",
		"rebase plans are compared only when the model replay (cherry-pick by cherry-pick) has no conflict and no empty step; the first kept action is pick or reword (dolt rejects other plans as invalid)",
		"single table, fixed schema, keyed; the initial commit (which creates the table) is never picked or reverted",
	)
	defer rec.Write(t)
	dir, cleanup := vh.ScratchDir(t, "c31")
	defer cleanup()
	srv, err := vsql.StartServer(dir)
	if err != nil {
		vh.Inconclusive(t, "start server: %v", err)
	}
	defer srv.Stop()
	admin := srv.Session(t, "admin", "")
	defer admin.Close()
	vh.Check(t, "histories", 150, 350, func(rt *rapid.T) {
		db := srv.NewDBName()
		admin.MustExec(rt, "CREATE DATABASE "+db)
		defer admin.Exec("DROP DATABASE " + db)
		w := srv.Session(rt, "w", db)
		defer w.Close()
		w.MustExec(rt, "SET @@dolt_allow_commit_conflicts = 1")
		c := &c31Case{rt: rt, w: w, work: vsql.NewTable(c31Cols, 1), classes: map[string]bool{}}
		c.exec("CREATE TABLE t (pk INT PRIMARY KEY, c0 INT, c1 INT, c2 VARCHAR(20))")
		// mode 0: both branches edit anything; 1: disjoint halves (main: keys 0..3 / column c0,
		// other: keys 4..7 / columns c1,c2); 2: like 1 and the i-th commit of other touches only key
		// 4+i, so the branch's commits commute and any reordered plan replays without conflict
		mode := rapid.IntRange(0, 2).Draw(rt, "mode")
		sideM, sideO := 0, 0
		if mode >= 1 {
			sideM, sideO = 1, 2
		}
		c.classes[fmt.Sprintf("mode%d", mode)] = true
		c.op("mode=%d", mode)
		// initial rows over the whole key range
		for i, n := 0, rapid.IntRange(2, 5).Draw(rt, "init.n"); i < n; i++ {
			pk := strconv.Itoa(rapid.IntRange(0, 7).Draw(rt, fmt.Sprintf("init.pk%d", i)))
			if _, ok := c.work.Rows[pk]; ok {
				continue
			}
			row := vsql.Row{pk, strconv.Itoa(i), strconv.Itoa(i), "i"}
			c.exec(fmt.Sprintf("INSERT INTO t VALUES (%s,%s,%s,'%s')", row[0], row[1], row[2], row[3]))
			c.work.Put(row)
			c.op("ins(%s)", strings.Join(row, ","))
		}
		c.commits = append(c.commits, nil) // index 0 reserved below
		c.commits = c.commits[:0]
		init := c.commit(-1, "init")
		// main
		mainIdx := []int{init}
		nm := rapid.IntRange(2, 4).Draw(rt, "main.n")
		// undoOf[x] = p: commit x exactly reverts what its parent commit p did (wholeUndo: for every
		// key p changed; otherwise for one of them)
		undoOf, wholeUndo := map[int]int{}, map[int]bool{}
		for i := 0; i < nm; i++ {
			last := mainIdx[len(mainIdx)-1]
			if i >= 1 && rapid.IntRange(0, 3).Draw(rt, fmt.Sprintf("m%d.undo", i)) == 0 {
				one := rapid.IntRange(0, 2).Draw(rt, fmt.Sprintf("m%d.undo1", i)) == 0
				c.undo(fmt.Sprintf("m%d", i), last, one)
				x := c.commit(last, fmt.Sprintf("m%d", i+1))
				undoOf[x], wholeUndo[x] = last, c.commits[x].State.Equal(c.commits[c.commits[last].Parent].State)
				mainIdx = append(mainIdx, x)
				c.classes["undo_commit"] = true
				continue
			}
			c.edits(fmt.Sprintf("m%d", i), rapid.IntRange(1, 4).Draw(rt, fmt.Sprintf("m%d.n", i)), sideM)
			mainIdx = append(mainIdx, c.commit(last, fmt.Sprintf("m%d", i+1)))
		}
		// other, forked at a main commit
		forkPos := rapid.IntRange(0, len(mainIdx)-1).Draw(rt, "fork")
		fork := mainIdx[forkPos]
		c.exec(fmt.Sprintf("CALL dolt_checkout('-b','other','%s')", c.commits[fork].Hash))
		c.work = c.commits[fork].State.Clone()
		c.op("branch other@#%d", fork)
		otherIdx := []int{}
		no := rapid.IntRange(2, 4).Draw(rt, "other.n")
		prev := fork
		for i := 0; i < no; i++ {
			if i >= 1 && rapid.IntRange(0, 2).Draw(rt, fmt.Sprintf("o%d.undo", i)) == 0 {
				one := rapid.IntRange(0, 2).Draw(rt, fmt.Sprintf("o%d.undo1", i)) == 0
				c.undo(fmt.Sprintf("o%d", i), prev, one)
				x := c.commit(prev, fmt.Sprintf("o%d", i+1))
				undoOf[x], wholeUndo[x] = prev, c.commits[x].State.Equal(c.commits[c.commits[prev].Parent].State)
				prev = x
				otherIdx = append(otherIdx, prev)
				c.classes["undo_commit"] = true
				continue
			}
			if mode == 2 {
				c.editKey(fmt.Sprintf("o%d", i), strconv.Itoa(4+i), rapid.IntRange(1, 3).Draw(rt, fmt.Sprintf("o%d.n", i)))
			} else {
				c.edits(fmt.Sprintf("o%d", i), rapid.IntRange(1, 4).Draw(rt, fmt.Sprintf("o%d.n", i)), sideO)
			}
			prev = c.commit(prev, fmt.Sprintf("o%d", i+1))
			otherIdx = append(otherIdx, prev)
		}
		parentState := func(x int) *vsql.Table { return c.commits[c.commits[x].Parent].State }
		nonInit := append(append([]int{}, mainIdx[1:]...), otherIdx...)
		all := append([]int{init}, nonInit...)
		nontrivialPick := false

		// (1) cherry-picks
		for i := 0; i < 2; i++ {
			x := rapid.SampledFrom(nonInit).Draw(rt, fmt.Sprintf("pick%d.commit", i))
			head := rapid.SampledFrom(all).Draw(rt, fmt.Sprintf("pick%d.head", i))
			c.scratch(head)
			c.op("cherry_pick(#%d onto #%d)", x, head)
			c.applyMerge("cherry_pick", "dolt_cherry_pick", c.commits[x].Hash, parentState(x), c.commits[head].State, c.commits[x].State)
			if x != head && c.commits[x].Parent != head && c31Overlap(parentState(x), c.commits[head].State, c.commits[x].State) {
				nontrivialPick = true
			}
		}
		// corollary: cherry-pick of C onto parent(C) reproduces C's data
		{
			x := rapid.SampledFrom(nonInit).Draw(rt, "cor.pick")
			c.scratch(c.commits[x].Parent)
			c.op("cherry_pick(#%d onto its parent)", x)
			c.evals++
			if err := c.w.Exec(fmt.Sprintf("CALL dolt_cherry_pick('%s')", c.commits[x].Hash)); err != nil {
				c.fail("C31 corollary: cherry-pick of #%d onto its own parent failed: %v", x, err)
			}
			if got := c.readTable("SELECT * FROM t AS OF 'HEAD'"); !vsql.EqualStrings(got, c.commits[x].State.Sorted()) {
				c.fail("C31 corollary: cherry-pick of #%d onto its own parent gives %s, the commit holds %s", x, vsql.Show(got), vsql.Show(c.commits[x].State.Sorted()))
			}
		}
		// (2) reverts: HEAD is a descendant-or-self of C (reverting a commit of one's own history)
		descendants := func(x int) []int {
			var out []int
			for _, y := range all {
				for a := y; a >= 0; a = c.commits[a].Parent {
					if a == x {
						out = append(out, y)
						break
					}
				}
			}
			return out
		}
		for i := 0; i < 2; i++ {
			x := rapid.SampledFrom(nonInit).Draw(rt, fmt.Sprintf("revert%d.commit", i))
			head := rapid.SampledFrom(descendants(x)).Draw(rt, fmt.Sprintf("revert%d.head", i))
			c.scratch(head)
			c.op("revert(#%d at #%d)", x, head)
			c.applyMerge("revert", "dolt_revert", c.commits[x].Hash, c.commits[x].State, c.commits[head].State, parentState(x))
			if x != head && c31Overlap(c.commits[x].State, c.commits[head].State, parentState(x)) {
				nontrivialPick = true
			}
		}
		// corollary: revert of HEAD restores parent(HEAD)'s data
		{
			x := rapid.SampledFrom(nonInit).Draw(rt, "cor.revert")
			c.scratch(x)
			c.op("revert(HEAD=#%d)", x)
			c.evals++
			if err := c.w.Exec("CALL dolt_revert('HEAD')"); err != nil {
				c.fail("C31 corollary: revert of HEAD (#%d) failed: %v", x, err)
			}
			if got := c.readTable("SELECT * FROM t AS OF 'HEAD'"); !vsql.EqualStrings(got, parentState(x).Sorted()) {
				c.fail("C31 corollary: revert of HEAD (#%d) gives %s, its parent holds %s", x, vsql.Show(got), vsql.Show(parentState(x).Sorted()))
			}
		}

		// (3) interactive rebase of `other` onto a main commit at/after the fork
		type step struct {
			commit int
			action string
		}
		upPos := rapid.IntRange(forkPos, len(mainIdx)-1).Draw(rt, "rebase.upstream")
		upstream := mainIdx[upPos]
		perm := rapid.Permutation(otherIdx).Draw(rt, "rebase.order")
		if rapid.IntRange(0, 2).Draw(rt, "rebase.keeporder") == 0 {
			perm = append([]int{}, otherIdx...)
		}
		plan := make([]step, len(perm))
		firstKept := true
		for i, x := range perm {
			a := rapid.SampledFrom([]string{"pick", "pick", "drop", "squash", "fixup", "reword"}).Draw(rt, fmt.Sprintf("rebase.a%d", i))
			if firstKept && (a == "squash" || a == "fixup") {
				a = "pick" // dolt rejects a plan whose first kept action folds into nothing
			}
			if a != "drop" {
				firstKept = false
			}
			plan[i] = step{x, a}
		}
		// fold an undo commit into the commit it undoes (kept adjacent, wherever the pair lands in
		// the drawn order), so that net-zero squash/fixup steps are common
		var undoPairs []int
		for _, x := range otherIdx {
			if p, ok := undoOf[x]; ok && p != fork {
				undoPairs = append(undoPairs, x)
			}
		}
		if len(undoPairs) > 0 && rapid.IntRange(0, 3).Draw(rt, "rebase.foldundo") != 0 {
			u := rapid.SampledFrom(undoPairs).Draw(rt, "rebase.foldwhich")
			act := rapid.SampledFrom([]string{"fixup", "squash"}).Draw(rt, "rebase.foldact")
			var np []step
			for _, st := range plan {
				if st.commit == u {
					continue
				}
				if st.commit == undoOf[u] {
					if st.action == "drop" {
						st.action = "pick"
					}
					np = append(np, st, step{u, act})
					continue
				}
				np = append(np, st)
			}
			plan = np
			// the first kept action must still be pick/reword
			for i := range plan {
				if plan[i].action == "drop" {
					continue
				}
				if plan[i].action == "squash" || plan[i].action == "fixup" {
					plan[i].action = "pick"
				}
				break
			}
		}
		replay := func(plan []step) (states []*vsql.Table, ok bool, why string) {
			state := c.commits[upstream].State
			first := true
			for _, s := range plan {
				if s.action == "drop" {
					continue
				}
				if first && (s.action == "squash" || s.action == "fixup") {
					return nil, false, "invalid_first_action"
				}
				first = false
				m, cf := vsql.Merge3(parentState(s.commit), state, c.commits[s.commit].State)
				if len(cf) > 0 {
					return nil, false, "conflict"
				}
				if m.Equal(state) {
					return nil, false, "empty_step"
				}
				state = m
				if s.action == "squash" || s.action == "fixup" {
					states[len(states)-1] = m
				} else {
					states = append(states, m)
				}
			}
			if first {
				return nil, false, "all_dropped"
			}
			return states, true, ""
		}
		states, ok, why := replay(plan)
		if !ok {
			c.classes["rebase_plan_unusable:"+why] = true
			// fall back to replaying onto the fork point in the original order without drops
			upstream = fork
			for i, x := range otherIdx {
				a := plan[i].action
				if a == "drop" || (i == 0 && (a == "squash" || a == "fixup")) {
					a = "pick"
				}
				plan[i] = step{x, a}
			}
			states, ok, why = replay(plan)
		}
		reordered, folded, dropped := false, false, false
		if ok {
			var desc []string
			pos := map[int]int{}
			for i, x := range otherIdx {
				pos[x] = i
			}
			last := -1
			prevKept, prevAct := -1, ""
			for _, s := range plan {
				desc = append(desc, fmt.Sprintf("%s #%d", s.action, s.commit))
				if s.action == "squash" || s.action == "fixup" {
					folded = true
					if p, isUndo := undoOf[s.commit]; isUndo && p == prevKept {
						c.classes["rebase_fold_of_undo_commit"] = true
						if wholeUndo[s.commit] && (prevAct == "pick" || prevAct == "reword") {
							c.classes["rebase_netzero_fold"] = true // the amended commit ends up equal to its parent
						}
					}
				}
				if s.action == "drop" {
					dropped = true
					continue
				}
				prevKept, prevAct = s.commit, s.action
				if pos[s.commit] < last {
					reordered = true
				}
				last = pos[s.commit]
			}
			c.op("rebase other onto #%d: %s", upstream, strings.Join(desc, ", "))
			c.exec("CALL dolt_checkout('other')")
			c.exec(fmt.Sprintf("CALL dolt_rebase('-i','%s')", c.commits[upstream].Hash))
			pr := c.w.MustQuery(rt, "SELECT commit_hash FROM dolt_rebase ORDER BY rebase_order")
			var planned []string
			for _, r := range pr.Data {
				planned = append(planned, r[0])
			}
			var wantPlanned []string
			for _, x := range otherIdx {
				wantPlanned = append(wantPlanned, c.commits[x].Hash)
			}
			if !vsql.EqualStrings(planned, wantPlanned) {
				c.fail("C31 rebase: default plan lists %v, the branch's commits since the upstream are %v", planned, wantPlanned)
			}
			c.exec("UPDATE dolt_rebase SET rebase_order = rebase_order + 100")
			for i, s := range plan {
				msg := ""
				if s.action == "reword" {
					msg = fmt.Sprintf(", commit_message = 'reworded %d'", i)
				}
				c.exec(fmt.Sprintf("UPDATE dolt_rebase SET rebase_order = %d, action = '%s'%s WHERE commit_hash = '%s'", i+1, s.action, msg, c.commits[s.commit].Hash))
			}
			c.evals++
			if err := c.w.Exec("CALL dolt_rebase('--continue')"); err != nil {
				c.fail("C31 rebase: --continue failed although the model replay is conflict-free: %v", err)
			}
			if b, _ := c.w.Scalar(rt, "SELECT active_branch()"); b != "other" {
				c.fail("C31 rebase: after --continue the session is on branch %q, want other", b)
			}
			lg := c.w.MustQuery(rt, "SELECT commit_hash FROM dolt_log")
			var newCommits []string
			found := false
			for _, r := range lg.Data {
				if r[0] == c.commits[upstream].Hash {
					found = true
					break
				}
				newCommits = append(newCommits, r[0])
			}
			if !found {
				c.fail("C31 rebase: the upstream commit #%d is not in the rebased branch's log", upstream)
			}
			if len(newCommits) != len(states) {
				c.fail("C31 rebase: %d commits on top of the upstream, the plan has %d pick/reword entries", len(newCommits), len(states))
			}
			for i, st := range states {
				hsh := newCommits[len(newCommits)-1-i]
				c.evals++
				if got := c.readTable(fmt.Sprintf("SELECT * FROM t AS OF '%s'", hsh)); !vsql.EqualStrings(got, st.Sorted()) {
					c.fail("C31 rebase: rebased commit %d of %d holds\n got   %s\n model %s (cherry-picking the plan's commits in order onto the upstream)", i+1, len(states), vsql.Show(got), vsql.Show(st.Sorted()))
				}
			}
			final := c.readTable("SELECT * FROM t")
			// differential: the same plan by dolt_cherry_pick on a scratch branch
			c.scratch(upstream)
			for _, s := range plan {
				if s.action == "drop" {
					continue
				}
				if err := c.w.Exec(fmt.Sprintf("CALL dolt_cherry_pick('%s')", c.commits[s.commit].Hash)); err != nil {
					c.fail("C31 rebase: cherry-picking #%d while replaying the plan by hand failed: %v", s.commit, err)
				}
			}
			if got := c.readTable("SELECT * FROM t"); !vsql.EqualStrings(got, final) {
				c.fail("C31 rebase: rebase result %s differs from cherry-picking the kept commits in plan order %s", vsql.Show(final), vsql.Show(got))
			}
			c.classes["rebase_done"] = true
			if folded {
				c.classes["rebase_squash_fixup"] = true
			}
			if reordered {
				c.classes["rebase_reordered"] = true
			}
			if dropped {
				c.classes["rebase_drop"] = true
			}
		} else {
			c.classes["rebase_skipped:"+why] = true
		}
		var classes []string
		for k := range c.classes {
			classes = append(classes, k)
		}
		sort.Strings(classes)
		rec.Evals(c.evals)
		rec.Case(strings.Join(c.ops, " ; "), nontrivialPick && ok && (folded || reordered || dropped), classes...)
	})
}
