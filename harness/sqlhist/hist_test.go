package sqlhist

// Shared history generator of the sqlhist suite (C33, C32): a rapid-driven sequence of
// DDL / DML / commit / branch / tag operations executed against a fresh database of the
// in-process sql-server, with a reference model of every table (columns, types, rows as the
// strings the wire protocol must return) recorded at every commit.

import (
	"fmt"
	"sort"
	"strconv"
	"strings"

	"pgregory.net/rapid"

	"github.com/dolthub/dolt/go/zzverif/vsql"
)

// ---------------------------------------------------------------------------------------
// model

type hKind int

const (
	hkInt hKind = iota
	hkBig
	hkStr
	hkBin
	hkDec
	hkDate
	hkDT
	hkJSON
	hkText
)

// hCol is one column of a model table. Type is the SQL type exactly as the harness declared
// it (two columns have "the same type" iff these strings are equal).
type hCol struct {
	Name string
	Kind hKind
	Type string
	PK   bool
	Ord  int    // 1-based position in the PRIMARY KEY clause (0 for non-key columns)
	Def  string // DEFAULT literal ("" = none)
	Tag  int    // dolt's likely tag lineage: a column created while the HEAD commit's table of the same name has a column of that name takes over that column's tag (observed), else its own UID
	UID  int    // identity of the column: assigned by CREATE TABLE / ADD COLUMN, kept by RENAME / MODIFY
}

// hTable is the model of one table: columns in schema order and rows keyed by the joined
// wire values of the primary-key columns; a row holds one wire string per column.
type hTable struct {
	Cols []hCol
	Rows map[string][]string
	Idx  map[string]string // secondary index name -> column name (schema only)
}

func (t *hTable) clone() *hTable {
	c := &hTable{Cols: append([]hCol(nil), t.Cols...), Rows: make(map[string][]string, len(t.Rows)), Idx: map[string]string{}}
	for k, r := range t.Rows {
		c.Rows[k] = append([]string(nil), r...)
	}
	for k, v := range t.Idx {
		c.Idx[k] = v
	}
	return c
}

func (t *hTable) colNames() []string {
	out := make([]string, len(t.Cols))
	for i, c := range t.Cols {
		out[i] = c.Name
	}
	return out
}

func (t *hTable) colIndex(name string) int {
	for i, c := range t.Cols {
		if c.Name == name {
			return i
		}
	}
	return -1
}

func (t *hTable) key(row []string) string {
	var p []string
	for i, c := range t.Cols {
		if c.PK {
			p = append(p, row[i])
		}
	}
	return strings.Join(p, "\x1f")
}

func (t *hTable) keys() []string {
	ks := make([]string, 0, len(t.Rows))
	for k := range t.Rows {
		ks = append(ks, k)
	}
	sort.Strings(ks)
	return ks
}

// rekey rebuilds the row map (after a change that may alter key positions).
func (t *hTable) rekey() {
	n := make(map[string][]string, len(t.Rows))
	for _, r := range t.Rows {
		n[t.key(r)] = r
	}
	t.Rows = n
}

// sorted renders the rows like vsql.Rows.Sorted does for SELECT * FROM t.
func (t *hTable) sorted() []string {
	out := make([]string, 0, len(t.Rows))
	for _, r := range t.Rows {
		out = append(out, strings.Join(r, "\x1f"))
	}
	sort.Strings(out)
	return out
}

func (t *hTable) schemaString() string {
	var p []string
	for _, c := range t.Cols {
		s := c.Name + " " + c.Type
		if c.PK {
			s += fmt.Sprintf(" PK%d", c.Ord)
		}
		p = append(p, s)
	}
	return strings.Join(p, ",")
}

type hState map[string]*hTable

func (s hState) clone() hState {
	c := hState{}
	for k, t := range s {
		c[k] = t.clone()
	}
	return c
}

func (s hState) names() []string {
	var out []string
	for k := range s {
		out = append(out, k)
	}
	sort.Strings(out)
	return out
}

type hCommit struct {
	Hash   string
	Parent int // index into hHist.Commits, -1 for the initial commit
	State  hState
}

// ---------------------------------------------------------------------------------------
// values: every generated value is a pair (SQL literal, expected wire string)

func hQuote(s string) string {
	var b strings.Builder
	b.WriteByte('\'')
	for i := 0; i < len(s); i++ {
		switch c := s[i]; c {
		case '\'':
			b.WriteString("''")
		case '\\':
			b.WriteString("\\\\")
		case 0:
			b.WriteString("\\0")
		default:
			b.WriteByte(c)
		}
	}
	b.WriteByte('\'')
	return b.String()
}

var hStrAlphabet = []string{"a", "b", "B", "'", "\"", "\\", "\x00", "%", "_", "\n", "é", " ", ";", "-", "#", "`", "0"}
var hBinAlphabet = []byte{0x00, 0xff, 0x27, 0x5c, 'a', 0x0a, 0x22, 0x80}
var hJSONStr = []string{"", "a", "b c", "x'y", "é"}
var hJSONKeys = []string{"a", "b", "c", "d"}

func hGenString(rt *rapid.T, label string, maxLen int) string {
	n := rapid.IntRange(0, maxLen).Draw(rt, label+".len")
	var b strings.Builder
	for i := 0; i < n; i++ {
		b.WriteString(rapid.SampledFrom(hStrAlphabet).Draw(rt, label+".ch"))
	}
	return b.String()
}

func hGenJSON(rt *rapid.T, label string, depth int) string {
	max := 6
	if depth >= 2 {
		max = 4
	}
	switch rapid.IntRange(0, max).Draw(rt, label+".jk") {
	case 0:
		return strconv.Itoa(rapid.IntRange(-3, 12).Draw(rt, label+".ji"))
	case 1:
		return strconv.Itoa(rapid.IntRange(-3, 12).Draw(rt, label+".jf")) + ".5"
	case 2:
		s := rapid.SampledFrom(hJSONStr).Draw(rt, label+".js")
		return "\"" + s + "\""
	case 3:
		return rapid.SampledFrom([]string{"true", "false", "null"}).Draw(rt, label+".jl")
	case 4:
		return rapid.SampledFrom([]string{"[]", "{}"}).Draw(rt, label+".je")
	case 5:
		n := rapid.IntRange(1, 3).Draw(rt, label+".jn")
		var p []string
		for i := 0; i < n; i++ {
			p = append(p, hGenJSON(rt, fmt.Sprintf("%s[%d]", label, i), depth+1))
		}
		return "[" + strings.Join(p, ",") + "]"
	default:
		mask := rapid.IntRange(1, 15).Draw(rt, label+".jm")
		var p []string
		for i, k := range hJSONKeys { // keys in sorted order, all of length 1
			if mask&(1<<i) != 0 {
				p = append(p, "\""+k+"\":"+hGenJSON(rt, label+"."+k, depth+1))
			}
		}
		return "{" + strings.Join(p, ",") + "}"
	}
}

// hGenValue draws a non-NULL value of the kind: (SQL literal, wire string).
func hGenValue(rt *rapid.T, label string, k hKind) (string, string) {
	switch k {
	case hkInt:
		v := rapid.OneOf(rapid.IntRange(-3, 20), rapid.IntRange(-3, 20), rapid.SampledFrom([]int{-2147483648, 2147483647, 0, 65536})).Draw(rt, label+".int")
		s := strconv.Itoa(v)
		return s, s
	case hkBig:
		v := rapid.OneOf(rapid.Int64Range(-3, 20), rapid.SampledFrom([]int64{-9223372036854775808, 9223372036854775807, 1 << 53, -(1 << 31) - 1, 4294967296})).Draw(rt, label+".big")
		s := strconv.FormatInt(v, 10)
		return s, s
	case hkStr, hkText:
		s := hGenString(rt, label+".str", 6)
		return hQuote(s), s
	case hkBin:
		bs := rapid.SliceOfN(rapid.SampledFrom(hBinAlphabet), 0, 5).Draw(rt, label+".bin")
		return fmt.Sprintf("X'%x'", bs), string(bs)
	case hkDec:
		c := rapid.OneOf(rapid.Int64Range(-500, 2000), rapid.Int64Range(-9999999999, 9999999999)).Draw(rt, label+".dec")
		neg := c < 0
		if neg {
			c = -c
		}
		s := fmt.Sprintf("%d.%02d", c/100, c%100)
		if neg {
			s = "-" + s
		}
		return s, s
	case hkDate:
		s := fmt.Sprintf("%04d-%02d-%02d", rapid.SampledFrom([]int{1000, 1969, 1970, 2000, 2024, 2038, 9999}).Draw(rt, label+".y"),
			rapid.IntRange(1, 12).Draw(rt, label+".m"), rapid.IntRange(1, 28).Draw(rt, label+".d"))
		return "'" + s + "'", s
	case hkDT:
		s := fmt.Sprintf("%04d-%02d-%02d %02d:%02d:%02d.%06d", rapid.SampledFrom([]int{1000, 1969, 1970, 2000, 2024, 2038, 9999}).Draw(rt, label+".y"),
			rapid.IntRange(1, 12).Draw(rt, label+".m"), rapid.IntRange(1, 28).Draw(rt, label+".d"),
			rapid.IntRange(0, 23).Draw(rt, label+".hh"), rapid.IntRange(0, 59).Draw(rt, label+".mm"), rapid.IntRange(0, 59).Draw(rt, label+".ss"),
			rapid.SampledFrom([]int{0, 1, 500000, 999999, 123456}).Draw(rt, label+".us"))
		return "'" + s + "'", s
	case hkJSON:
		s := hGenJSON(rt, label+".json", 0)
		return hQuote(s), s
	}
	panic("kind")
}

// hGenNullable draws NULL with probability 1/6, else a value.
func hGenNullable(rt *rapid.T, label string, k hKind) (string, string) {
	if rapid.IntRange(0, 5).Draw(rt, label+".null") == 0 {
		return "NULL", vsql.Null
	}
	return hGenValue(rt, label, k)
}

type hTypeChoice struct {
	Kind hKind
	Type string
}

var hAllTypes = []hTypeChoice{
	{hkInt, "INT"}, {hkInt, "INT"}, {hkBig, "BIGINT"}, {hkStr, "VARCHAR(40)"}, {hkStr, "VARCHAR(40)"}, {hkBin, "VARBINARY(20)"},
	{hkDec, "DECIMAL(12,2)"}, {hkDate, "DATE"}, {hkDT, "DATETIME(6)"}, {hkJSON, "JSON"}, {hkText, "TEXT"},
}

// hSimpleTypes is the pool for suites that only need row edits.
var hSimpleTypes = []hTypeChoice{{hkInt, "INT"}, {hkInt, "INT"}, {hkStr, "VARCHAR(40)"}}

// ---------------------------------------------------------------------------------------
// generator / executor

type hConfig struct {
	Types        []hTypeChoice
	TablePool    []string
	ColPool      []string
	MinCommits   int  // minimum number of generated commits (0 = 2)
	MaxCommits   int  // commits made by the generator (the initial commit of the database is extra)
	MaxEdits     int  // edit operations per commit
	Branches     bool // create / switch / move branches and tags along the way
	Indexes      bool // CREATE INDEX / DROP INDEX operations
	ColPositions bool // ADD COLUMN ... FIRST / AFTER (otherwise always appended)
	StrPK        bool // allow a second, VARCHAR primary-key column
	NoTableDDL   bool // never drop / rename tables
	NoSchema     bool // no schema changes after CREATE TABLE
	DDLBoost     int  // multiplies the weight of schema / table operations (0 = 1)
	Diverge      bool // end the history with two branches that diverged by two commits each
	RowBoost     bool // more row edits relative to schema operations
	NoPKIndex    bool // never create a secondary index on a primary-key column
	PKByName     bool // the primary key of a table is a function of its name (a re-created table has the same key columns) and key columns are never renamed
}

// hPKSpec is the key shape of a table: kind of k2 (-1 = none), presence of k3, and the order
// of the key columns in the PRIMARY KEY clause.
type hPKSpec struct {
	k2    int
	k3    bool
	order []int
}

type hHist struct {
	pkSpec  map[string]hPKSpec
	rt      *rapid.T
	cfg     hConfig
	srv     *vsql.Server
	db      string
	w       *vsql.Session // the writer: every generated statement runs here
	Commits []*hCommit
	Work    hState // model of the writer's working set
	Cur     string // writer's branch
	Branch  map[string]int
	Tag     map[string]int
	Ops     []string
	Class   map[string]bool
	nTag    int
	nBr     int
	nIdx    int
	nUID    int
	step    int
	// AfterCommit, when set, runs after every generated commit (clean working set).
	AfterCommit func(h *hHist, ci int)
}

func (h *hHist) op(format string, a ...any) {
	h.Ops = append(h.Ops, fmt.Sprintf(format, a...))
}

func (h *hHist) exec(q string) {
	h.rt.Helper()
	if err := h.w.Exec(q); err != nil {
		h.rt.Fatalf("generated statement failed (harness or dolt): %s: %v\nops: %s", q, err, strings.Join(h.Ops, " ; "))
	}
}

func (h *hHist) label(s string) string {
	return fmt.Sprintf("s%d.%s", h.step, s)
}

// newHist creates the database model: commit 0 is the commit CREATE DATABASE made (no tables).
func newHist(rt *rapid.T, srv *vsql.Server, db string, w *vsql.Session, cfg hConfig) *hHist {
	h := &hHist{rt: rt, cfg: cfg, srv: srv, db: db, w: w, Work: hState{}, Cur: "main", Branch: map[string]int{}, Tag: map[string]int{}, Class: map[string]bool{}}
	h0, ok := w.Scalar(rt, "SELECT dolt_hashof('HEAD')")
	if !ok {
		rt.Fatalf("no HEAD in fresh database")
	}
	h.Commits = append(h.Commits, &hCommit{Hash: h0, Parent: -1, State: hState{}})
	h.Branch["main"] = 0
	return h
}

func (h *hHist) head() int { return h.Branch[h.Cur] }

// ancestors returns the first-parent chain of commit ci, nearest first (ci itself at index 0).
func (h *hHist) ancestors(ci int) []int {
	var out []int
	for ci >= 0 {
		out = append(out, ci)
		ci = h.Commits[ci].Parent
	}
	return out
}

func (h *hHist) freeCol(t *hTable) (string, bool) {
	var free []string
	for _, c := range h.cfg.ColPool {
		if t.colIndex(c) < 0 {
			free = append(free, c)
		}
	}
	if len(free) == 0 {
		return "", false
	}
	return rapid.SampledFrom(free).Draw(h.rt, h.label("newcol")), true
}

func (h *hHist) pickTable(label string) (string, *hTable) {
	names := h.Work.names()
	n := rapid.SampledFrom(names).Draw(h.rt, h.label(label))
	return n, h.Work[n]
}

func (h *hHist) freeTableNames() []string {
	var free []string
	for _, n := range h.cfg.TablePool {
		if _, ok := h.Work[n]; !ok {
			free = append(free, n)
		}
	}
	return free
}

func (h *hHist) createTable() {
	rt := h.rt
	name := rapid.SampledFrom(h.freeTableNames()).Draw(rt, h.label("create.name"))
	t := &hTable{Rows: map[string][]string{}, Idx: map[string]string{}}
	t.Cols = append(t.Cols, hCol{Name: "pk", Kind: hkInt, Type: "INT", PK: true})
	// key shape: 1..3 key columns (pk INT [, k2 INT|VARCHAR [, k3 INT]]) and the order in which
	// the PRIMARY KEY clause lists them (any permutation; the declaration order is pk,k2,k3).
	// With PKByName the shape is drawn once per table name and case, so that a re-created table
	// has the same key.
	spec, have := h.pkSpec[name]
	if !have || !h.cfg.PKByName {
		pk2 := 0
		if h.cfg.PKByName {
			for i, n := range h.cfg.TablePool {
				if n == name {
					pk2 = []int{3, 0, 1}[i%3]
				}
			}
		} else {
			pk2 = rapid.IntRange(0, 3).Draw(rt, h.label("create.pk2"))
		}
		spec = hPKSpec{k2: -1}
		switch pk2 {
		case 0:
			spec.k2 = int(hkInt)
		case 1:
			if h.cfg.StrPK {
				spec.k2 = int(hkStr)
			}
		}
		if spec.k2 >= 0 && rapid.IntRange(0, 2).Draw(rt, h.label("create.k3")) == 0 {
			spec.k3 = true
		}
		n := 1
		if spec.k2 >= 0 {
			n++
		}
		if spec.k3 {
			n++
		}
		spec.order = make([]int, n)
		for i := range spec.order {
			spec.order[i] = i
		}
		if n > 1 && rapid.IntRange(0, 2).Draw(rt, h.label("create.pkperm")) != 0 {
			spec.order = rapid.Permutation(spec.order).Draw(rt, h.label("create.pkorder"))
		}
		if h.pkSpec == nil {
			h.pkSpec = map[string]hPKSpec{}
		}
		h.pkSpec[name] = spec
	}
	if spec.k2 == int(hkInt) {
		t.Cols = append(t.Cols, hCol{Name: "k2", Kind: hkInt, Type: "INT", PK: true})
	} else if spec.k2 == int(hkStr) {
		t.Cols = append(t.Cols, hCol{Name: "k2", Kind: hkStr, Type: "VARCHAR(12)", PK: true})
	}
	if spec.k3 {
		t.Cols = append(t.Cols, hCol{Name: "k3", Kind: hkInt, Type: "INT", PK: true})
	}
	permuted := false
	for pos, ci := range spec.order { // spec.order[pos] = index (declaration order) of the pos-th key column
		t.Cols[ci].Ord = pos + 1
		if ci != pos {
			permuted = true
		}
	}
	if permuted {
		h.Class["pk_order_differs_from_declaration"] = true
	}
	nv := rapid.IntRange(1, 3).Draw(rt, h.label("create.nval"))
	for i := 0; i < nv; i++ {
		cn, ok := h.freeCol(t)
		if !ok {
			break
		}
		ty := rapid.SampledFrom(h.cfg.Types).Draw(rt, h.label("create.type"))
		t.Cols = append(t.Cols, hCol{Name: cn, Kind: ty.Kind, Type: ty.Type})
	}
	var defs, pks []string
	for i := range t.Cols {
		h.nUID++
		t.Cols[i].UID = h.nUID
		t.Cols[i].Tag = h.nUID
		if ht := h.Commits[h.head()].State[name]; ht != nil {
			if j := ht.colIndex(t.Cols[i].Name); j >= 0 {
				t.Cols[i].Tag = ht.Cols[j].Tag
			}
		}
	}
	for _, c := range t.Cols {
		d := "`" + c.Name + "` " + c.Type
		if c.PK {
			d += " NOT NULL"
		}
		defs = append(defs, d)
	}
	for _, ci := range spec.order {
		pks = append(pks, "`"+t.Cols[ci].Name+"`")
	}
	h.exec(fmt.Sprintf("CREATE TABLE `%s` (%s, PRIMARY KEY (%s))", name, strings.Join(defs, ", "), strings.Join(pks, ",")))
	h.Work[name] = t
	h.op("create %s(%s)", name, t.schemaString())
	h.Class["create_table"] = true
}

func (h *hHist) genPK(t *hTable, label string) ([]string, []string) {
	var lits, wires []string
	if len(t.Rows) > 0 && rapid.IntRange(0, 2).Draw(h.rt, h.label(label+".existing")) == 0 {
		// an existing key (so that updates are frequent)
		row := t.Rows[rapid.SampledFrom(t.keys()).Draw(h.rt, h.label(label+".key"))]
		for i, c := range t.Cols {
			if !c.PK {
				continue
			}
			wires = append(wires, row[i])
			if c.Kind == hkInt {
				lits = append(lits, row[i])
			} else {
				lits = append(lits, hQuote(row[i]))
			}
		}
		return lits, wires
	}
	npk := 0
	for _, c := range t.Cols {
		if !c.PK {
			continue
		}
		npk++
		if c.Kind == hkInt {
			// 1st key column 0..5, 2nd 10..15, 3rd 20..22: values of different key columns never coincide
			lo, hi := 0, 5
			if npk == 2 {
				lo, hi = 10, 15
			} else if npk >= 3 {
				lo, hi = 20, 22
			}
			v := strconv.Itoa(rapid.IntRange(lo, hi).Draw(h.rt, h.label(label+"."+c.Name)))
			lits, wires = append(lits, v), append(wires, v)
		} else {
			s := rapid.SampledFrom([]string{"", "a", "A", "a'", "\\", "b\"", "a b", "%"}).Draw(h.rt, h.label(label+"."+c.Name))
			lits, wires = append(lits, hQuote(s)), append(wires, s)
		}
	}
	return lits, wires
}

func (h *hHist) pkWhere(t *hTable, lits []string) string {
	var p []string
	i := 0
	for _, c := range t.Cols {
		if c.PK {
			p = append(p, fmt.Sprintf("`%s` = %s", c.Name, lits[i]))
			i++
		}
	}
	return strings.Join(p, " AND ")
}

// upsert inserts a new row or (when the drawn key exists) updates some of its columns.
func (h *hHist) upsert() {
	rt := h.rt
	name, t := h.pickTable("row.table")
	lits, wires := h.genPK(t, "row.pk")
	key := strings.Join(wires, "\x1f")
	if old, ok := t.Rows[key]; ok {
		var sets []string
		row := append([]string(nil), old...)
		for i, c := range t.Cols {
			if c.PK {
				continue
			}
			if rapid.IntRange(0, 1).Draw(rt, h.label("upd.pick."+c.Name)) == 0 {
				continue
			}
			lit, wire := hGenNullable(rt, h.label("upd."+c.Name), c.Kind)
			sets = append(sets, fmt.Sprintf("`%s` = %s", c.Name, lit))
			row[i] = wire
		}
		if len(sets) == 0 {
			return
		}
		h.exec(fmt.Sprintf("UPDATE `%s` SET %s WHERE %s", name, strings.Join(sets, ", "), h.pkWhere(t, lits)))
		t.Rows[key] = row
		h.op("update %s[%s] %s", name, strings.Join(lits, ","), strings.Join(sets, ","))
		h.Class["row_update"] = true
		return
	}
	row := make([]string, len(t.Cols))
	vals := make([]string, len(t.Cols))
	pi := 0
	for i, c := range t.Cols {
		if c.PK {
			vals[i], row[i] = lits[pi], wires[pi]
			pi++
			continue
		}
		vals[i], row[i] = hGenNullable(rt, h.label("ins."+c.Name), c.Kind)
	}
	h.exec(fmt.Sprintf("INSERT INTO `%s` VALUES (%s)", name, strings.Join(vals, ", ")))
	t.Rows[key] = row
	h.op("insert %s(%s)", name, strings.Join(vals, ","))
	h.Class["row_insert"] = true
}

func (h *hHist) deleteRows() {
	rt := h.rt
	name, t := h.pickTable("del.table")
	if len(t.Rows) == 0 {
		return
	}
	if rapid.IntRange(0, 3).Draw(rt, h.label("del.range")) == 0 {
		// range delete on the first key column
		lim := rapid.IntRange(0, 5).Draw(rt, h.label("del.lim"))
		pkName := ""
		pkIdx := 0
		for i, c := range t.Cols {
			if c.PK {
				pkName, pkIdx = c.Name, i
				break
			}
		}
		h.exec(fmt.Sprintf("DELETE FROM `%s` WHERE `%s` >= %d", name, pkName, lim))
		for _, k := range t.keys() {
			v, _ := strconv.Atoi(t.Rows[k][pkIdx])
			if v >= lim {
				delete(t.Rows, k)
			}
		}
		h.op("delete %s where %s>=%d", name, pkName, lim)
		h.Class["row_delete"] = true
		return
	}
	keys := t.keys()
	k := rapid.SampledFrom(keys).Draw(rt, h.label("del.key"))
	row := t.Rows[k]
	var lits []string
	for i, c := range t.Cols {
		if c.PK {
			if c.Kind == hkInt {
				lits = append(lits, row[i])
			} else {
				lits = append(lits, hQuote(row[i]))
			}
		}
	}
	h.exec(fmt.Sprintf("DELETE FROM `%s` WHERE %s", name, h.pkWhere(t, lits)))
	delete(t.Rows, k)
	h.op("delete %s[%s]", name, strings.Join(lits, ","))
	h.Class["row_delete"] = true
}

func (h *hHist) dropTable() {
	name, _ := h.pickTable("drop.table")
	h.exec(fmt.Sprintf("DROP TABLE `%s`", name))
	delete(h.Work, name)
	h.op("droptable %s", name)
	h.Class["drop_table"] = true
}

func (h *hHist) renameTable() {
	free := h.freeTableNames()
	if len(free) == 0 {
		return
	}
	name, t := h.pickTable("rent.table")
	to := rapid.SampledFrom(free).Draw(h.rt, h.label("rent.to"))
	h.exec(fmt.Sprintf("RENAME TABLE `%s` TO `%s`", name, to))
	delete(h.Work, name)
	h.Work[to] = t
	h.op("renametable %s->%s", name, to)
	h.Class["rename_table"] = true
}

func (h *hHist) addColumn() {
	rt := h.rt
	name, t := h.pickTable("addc.table")
	cn, ok := h.freeCol(t)
	if !ok {
		return
	}
	ty := rapid.SampledFrom(h.cfg.Types).Draw(rt, h.label("addc.type"))
	h.nUID++
	col := hCol{Name: cn, Kind: ty.Kind, Type: ty.Type, UID: h.nUID, Tag: h.nUID}
	if ht := h.Commits[h.head()].State[name]; ht != nil {
		if j := ht.colIndex(cn); j >= 0 {
			col.Tag = ht.Cols[j].Tag
		}
	}
	def := "`" + cn + "` " + ty.Type
	fill := vsql.Null
	if (ty.Kind == hkInt || ty.Kind == hkStr || ty.Kind == hkDec) && rapid.IntRange(0, 2).Draw(rt, h.label("addc.hasdef")) == 0 {
		lit, wire := hGenValue(rt, h.label("addc.def"), ty.Kind)
		def += " DEFAULT " + lit
		fill = wire
		col.Def = lit
	}
	pos := len(t.Cols)
	if h.cfg.ColPositions {
		switch rapid.IntRange(0, 3).Draw(rt, h.label("addc.pos")) {
		case 0:
			pos = 0
			def += " FIRST"
		case 1:
			after := rapid.IntRange(0, len(t.Cols)-1).Draw(rt, h.label("addc.after"))
			pos = after + 1
			def += " AFTER `" + t.Cols[after].Name + "`"
		}
	}
	h.exec(fmt.Sprintf("ALTER TABLE `%s` ADD COLUMN %s", name, def))
	t.Cols = append(t.Cols[:pos:pos], append([]hCol{col}, t.Cols[pos:]...)...)
	for k, r := range t.Rows {
		t.Rows[k] = append(r[:pos:pos], append([]string{fill}, r[pos:]...)...)
	}
	h.op("addcol %s %s", name, def)
	h.Class["add_column"] = true
}

func (h *hHist) nonPKCols(t *hTable) []int {
	var out []int
	for i, c := range t.Cols {
		if !c.PK {
			out = append(out, i)
		}
	}
	return out
}

func (h *hHist) dropColumn() {
	name, t := h.pickTable("dropc.table")
	cand := h.nonPKCols(t)
	if len(cand) == 0 {
		return
	}
	ci := rapid.SampledFrom(cand).Draw(h.rt, h.label("dropc.col"))
	cn := t.Cols[ci].Name
	h.exec(fmt.Sprintf("ALTER TABLE `%s` DROP COLUMN `%s`", name, cn))
	t.Cols = append(t.Cols[:ci:ci], t.Cols[ci+1:]...)
	for k, r := range t.Rows {
		t.Rows[k] = append(r[:ci:ci], r[ci+1:]...)
	}
	for in, ic := range t.Idx { // dolt drops an index with its only column
		if ic == cn {
			delete(t.Idx, in)
		}
	}
	h.op("dropcol %s.%s", name, cn)
	h.Class["drop_column"] = true
}

func (h *hHist) renameColumn() {
	name, t := h.pickTable("renc.table")
	to, ok := h.freeCol(t)
	if !ok {
		return
	}
	ci := rapid.IntRange(0, len(t.Cols)-1).Draw(h.rt, h.label("renc.col"))
	if t.Cols[ci].PK && (h.cfg.PKByName || rapid.IntRange(0, 2).Draw(h.rt, h.label("renc.pkok")) != 0) {
		return
	}
	from := t.Cols[ci].Name
	h.exec(fmt.Sprintf("ALTER TABLE `%s` RENAME COLUMN `%s` TO `%s`", name, from, to))
	t.Cols[ci].Name = to
	for in, ic := range t.Idx {
		if ic == from {
			t.Idx[in] = to
		}
	}
	h.op("renamecol %s.%s->%s", name, from, to)
	h.Class["rename_column"] = true
}

// modifyColumn widens a column: INT -> BIGINT, VARCHAR(40) -> VARCHAR(60). Values keep their
// wire strings.
func (h *hHist) modifyColumn() {
	name, t := h.pickTable("modc.table")
	var cand []int
	for i, c := range t.Cols {
		if !c.PK && (c.Type == "INT" || c.Type == "VARCHAR(40)") {
			cand = append(cand, i)
		}
	}
	if len(cand) == 0 {
		return
	}
	ci := rapid.SampledFrom(cand).Draw(h.rt, h.label("modc.col"))
	nt := "BIGINT"
	nk := hkBig
	if t.Cols[ci].Type == "VARCHAR(40)" {
		nt, nk = "VARCHAR(60)", hkStr
	}
	h.exec(fmt.Sprintf("ALTER TABLE `%s` MODIFY COLUMN `%s` %s", name, t.Cols[ci].Name, nt))
	t.Cols[ci].Type, t.Cols[ci].Kind = nt, nk
	h.op("modcol %s.%s %s", name, t.Cols[ci].Name, nt)
	h.Class["modify_column"] = true
}

func (h *hHist) indexOp() {
	rt := h.rt
	name, t := h.pickTable("idx.table")
	if len(t.Idx) > 0 && rapid.IntRange(0, 1).Draw(rt, h.label("idx.drop")) == 0 {
		var names []string
		for n := range t.Idx {
			names = append(names, n)
		}
		sort.Strings(names)
		in := rapid.SampledFrom(names).Draw(rt, h.label("idx.which"))
		h.exec(fmt.Sprintf("ALTER TABLE `%s` DROP INDEX `%s`", name, in))
		delete(t.Idx, in)
		h.op("dropindex %s.%s", name, in)
		h.Class["drop_index"] = true
		return
	}
	var cand []int
	for i, c := range t.Cols {
		if c.PK && h.cfg.NoPKIndex {
			continue
		}
		dup := false
		for _, ic := range t.Idx { // never two indexes over the same column
			if ic == c.Name {
				dup = true
			}
		}
		if dup {
			continue
		}
		switch c.Kind {
		case hkInt, hkBig, hkStr, hkDec, hkDate, hkDT:
			cand = append(cand, i)
		}
	}
	if len(cand) == 0 {
		return
	}
	ci := rapid.SampledFrom(cand).Draw(rt, h.label("idx.col"))
	h.nIdx++
	in := fmt.Sprintf("ix%d", h.nIdx)
	h.exec(fmt.Sprintf("CREATE INDEX `%s` ON `%s` (`%s`)", in, name, t.Cols[ci].Name))
	t.Idx[in] = t.Cols[ci].Name
	h.op("createindex %s.%s(%s)", name, in, t.Cols[ci].Name)
	h.Class["create_index"] = true
}

// edit performs one random working-set operation.
func (h *hHist) edit() {
	rt := h.rt
	h.step++
	if len(h.Work) == 0 {
		h.createTable()
		return
	}
	type choice struct {
		w  int
		fn func()
	}
	b := h.cfg.DDLBoost
	if b < 1 {
		b = 1
	}
	cs := []choice{{10, h.upsert}, {10, h.upsert}, {5, h.deleteRows}}
	if h.cfg.RowBoost {
		cs = append(cs, choice{15, h.upsert})
	}
	if len(h.freeTableNames()) > 0 {
		cs = append(cs, choice{3, h.createTable})
	}
	if !h.cfg.NoTableDDL {
		cs = append(cs, choice{2 * b, h.dropTable}, choice{2 * b, h.renameTable})
	}
	if !h.cfg.NoSchema {
		cs = append(cs, choice{3 * b, h.addColumn}, choice{2 * b, h.dropColumn}, choice{2 * b, h.renameColumn}, choice{2 * b, h.modifyColumn})
		if h.cfg.Indexes {
			cs = append(cs, choice{2 * b, h.indexOp})
		}
	}
	total := 0
	for _, c := range cs {
		total += c.w
	}
	x := rapid.IntRange(0, total-1).Draw(rt, h.label("op"))
	for _, c := range cs {
		if x < c.w {
			c.fn()
			return
		}
		x -= c.w
	}
}

// commit commits the working set on the writer's branch and records the model.
func (h *hHist) commit() int {
	n := len(h.Commits)
	r := h.w.MustQuery(h.rt, fmt.Sprintf("CALL dolt_commit('-A','--allow-empty','-m','c%d','--date','2021-03-04T05:06:%02d')", n, n%60))
	if len(r.Data) != 1 || len(r.Data[0]) < 1 || len(r.Data[0][0]) != 32 {
		h.rt.Fatalf("dolt_commit returned %v", r)
	}
	h.Commits = append(h.Commits, &hCommit{Hash: r.Data[0][0], Parent: h.head(), State: h.Work.clone()})
	h.Branch[h.Cur] = n
	h.op("commit#%d@%s", n, h.Cur)
	return n
}

// refOps creates / moves / deletes branches and tags and may switch the writer's branch
// (only called with a clean working set).
func (h *hHist) refOps() {
	rt := h.rt
	h.step++
	nops := rapid.IntRange(0, 2).Draw(rt, h.label("ref.n"))
	for i := 0; i < nops; i++ {
		h.step++
		target := rapid.IntRange(0, len(h.Commits)-1).Draw(rt, h.label("ref.target"))
		spec := h.Commits[target].Hash
		if target == h.head() && rapid.IntRange(0, 1).Draw(rt, h.label("ref.viahead")) == 0 {
			spec = "HEAD"
		}
		switch rapid.IntRange(0, 5).Draw(rt, h.label("ref.kind")) {
		case 0, 1: // new tag
			h.nTag++
			name := fmt.Sprintf("v%d", h.nTag)
			h.exec(fmt.Sprintf("CALL dolt_tag('%s','%s')", name, spec))
			h.Tag[name] = target
			h.op("tag %s=#%d", name, target)
		case 2: // new branch
			h.nBr++
			name := fmt.Sprintf("b%d", h.nBr)
			h.exec(fmt.Sprintf("CALL dolt_branch('%s','%s')", name, spec))
			h.Branch[name] = target
			h.op("branch %s=#%d", name, target)
		case 3: // move an existing branch other than the current one
			var others []string
			for b := range h.Branch {
				if b != h.Cur {
					others = append(others, b)
				}
			}
			if len(others) == 0 {
				continue
			}
			sort.Strings(others)
			name := rapid.SampledFrom(others).Draw(rt, h.label("ref.move"))
			h.exec(fmt.Sprintf("CALL dolt_branch('-f','%s','%s')", name, spec))
			h.Branch[name] = target
			h.op("movebranch %s=#%d", name, target)
			h.Class["branch_moved"] = true
		case 4: // delete a tag and re-create it elsewhere
			if len(h.Tag) == 0 {
				continue
			}
			var tags []string
			for tg := range h.Tag {
				tags = append(tags, tg)
			}
			sort.Strings(tags)
			name := rapid.SampledFrom(tags).Draw(rt, h.label("ref.retag"))
			h.exec(fmt.Sprintf("CALL dolt_tag('-d','%s')", name))
			h.exec(fmt.Sprintf("CALL dolt_tag('%s','%s')", name, spec))
			h.Tag[name] = target
			h.op("retag %s=#%d", name, target)
			h.Class["tag_moved"] = true
		case 5: // switch the writer to another branch (new from target, or an existing one)
			var others []string
			for b := range h.Branch {
				if b != h.Cur {
					others = append(others, b)
				}
			}
			sort.Strings(others)
			if len(others) > 0 && rapid.IntRange(0, 1).Draw(rt, h.label("ref.coexisting")) == 0 {
				name := rapid.SampledFrom(others).Draw(rt, h.label("ref.co"))
				h.exec(fmt.Sprintf("CALL dolt_checkout('%s')", name))
				h.Cur = name
				h.op("checkout %s", name)
			} else {
				h.nBr++
				name := fmt.Sprintf("b%d", h.nBr)
				h.exec(fmt.Sprintf("CALL dolt_checkout('-b','%s','%s')", name, h.Commits[target].Hash))
				h.Branch[name] = target
				h.Cur = name
				h.op("checkout -b %s #%d", name, target)
			}
			h.Work = h.Commits[h.head()].State.clone()
			h.Class["checkout"] = true
		}
	}
}

// build generates the whole history.
func (h *hHist) build() {
	rt := h.rt
	minC := 2
	if h.cfg.MinCommits > 0 {
		minC = h.cfg.MinCommits
	}
	nc := rapid.IntRange(minC, h.cfg.MaxCommits).Draw(rt, "ncommits")
	for c := 0; c < nc; c++ {
		ne := rapid.IntRange(0, h.cfg.MaxEdits).Draw(rt, fmt.Sprintf("c%d.nedits", c))
		for e := 0; e < ne; e++ {
			h.edit()
		}
		ci := h.commit()
		if h.cfg.Branches {
			h.refOps()
		}
		if h.AfterCommit != nil {
			h.AfterCommit(h, ci)
		}
	}
	if h.cfg.Diverge {
		h.diverge()
	}
}

// diverge makes sure the history has two branches that have diverged by two commits each:
// the writer's branch gets commits until its head has two generated ancestors, then a new
// branch is forked two commits below the head and gets two commits of its own.
func (h *hHist) diverge() {
	rt := h.rt
	one := func(tag string) {
		ne := rapid.IntRange(1, 3).Draw(rt, tag+".nedits")
		for e := 0; e < ne; e++ {
			h.edit()
		}
		ci := h.commit()
		if h.AfterCommit != nil {
			h.AfterCommit(h, ci)
		}
	}
	for i := 0; len(h.ancestors(h.head())) < 3; i++ {
		one(fmt.Sprintf("div.pre%d", i))
	}
	fork := h.ancestors(h.head())[2]
	h.nBr++
	name := fmt.Sprintf("b%d", h.nBr)
	h.exec(fmt.Sprintf("CALL dolt_checkout('-b','%s','%s')", name, h.Commits[fork].Hash))
	h.Branch[name] = fork
	h.Cur = name
	h.Work = h.Commits[fork].State.clone()
	h.op("checkout -b %s #%d", name, fork)
	h.Class["diverged_branches"] = true
	one("div.a")
	one("div.b")
}

// commitDate is the --date the generator gave commit n (n >= 1).
func hCommitDate(n int) string { return fmt.Sprintf("2021-03-04 05:06:%02d", n%60) }

func (h *hHist) classes() []string {
	var out []string
	for c := range h.Class {
		out = append(out, c)
	}
	sort.Strings(out)
	return out
}

func hShowRows(rows []string) string { return vsql.Show(rows) }
