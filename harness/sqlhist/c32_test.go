package sqlhist

// C32 — diffs and patches describe exactly the change between two commits.
//
// For every ordered pair of commits of a generated history: dolt_diff(from,to,t),
// dolt_diff_stat, dolt_diff_summary (and dolt_diff_<t> for parent/child pairs) are compared
// with the diff of the two recorded models; the statements of dolt_patch(from,to) are executed
// on a scratch branch created at `from` and must reproduce `to`.

import (
	"encoding/json"
	"fmt"
	"os"
	"sort"
	"strconv"
	"strings"
	"testing"

	"pgregory.net/rapid"

	"github.com/dolthub/dolt/go/zzverif/vh"
	"github.com/dolthub/dolt/go/zzverif/vsql"
)

// Findings of this check (ids as they would appear in known_findings.json). A pair shape that
// reproduces a finding listed there as open is skipped (counted as excluded_known) so the rest
// of the space stays checked; its pinned reproduction then prints KNOWN-FINDING instead of
// failing.
const (
	c32FDropIdxCol    = "C32-patch-drop-column-before-index"    // DROP COLUMN is emitted before DROP INDEX of that column's index: the patch fails with error 1091
	c32FPKIndex       = "C32-patch-create-omits-pk-index"       // CREATE TABLE of a patch omits a secondary index whose columns are exactly the primary key
	c32FRenamedNull   = "C32-patch-renamed-column-set-null"     // a row whose value in a renamed column becomes NULL gets no UPDATE (from_ values are matched to the target schema by column name)
	c32FRenameDropIdx = "C32-patch-rename-table-drop-index"     // after RENAME TABLE the DROP INDEX statements still name the old table: error 1146
	c32FDefaultNull   = "C32-patch-added-default-column-null"   // a column added with a DEFAULT: rows holding NULL in it at `to` get no UPDATE and keep the default
	c32FDefaultChange = "C32-patch-default-change-ignored"      // a changed column DEFAULT produces no statement
	c32FSameName      = "C32-patch-same-name-other-column"      // a dropped column and a new column of the same name but another type: the old value is compared as the new column's old value (query error or missing UPDATE)
	c32FMultiRename   = "C32-diff-table-matched-to-two-renames" // diff.matchTableDeltas pairs one `from` table with every `to` table that shares a column tag (no break): a table is reported renamed to two tables
	c32FRenameOnto    = "C32-patch-rename-onto-dropped-column"  // RENAME COLUMN x TO y is emitted before DROP y: error "column already exists"
	c32FColOrder      = "C32-patch-column-position"             // ADD COLUMN is emitted without FIRST/AFTER: the patched table has another column order than `to`
)

// c32Excluded: the shape is switched off because the finding is listed open (or named in
// VERIF_C32_EXCLUDE, a development aid).
func c32Excluded(id string) bool {
	if vh.OpenFinding("C32", id) {
		return true
	}
	for _, x := range strings.Split(os.Getenv("VERIF_C32_EXCLUDE"), ",") {
		if x == id || x == "all" {
			return true
		}
	}
	return false
}

// c32Same says whether dolt identifies column a of `from` with column b of `to`. Dolt goes by
// column tags: a renamed/modified column keeps its tag (same UID here); a column that was dropped
// and re-added with the same name and type gets the same tag again only if the table still has
// the name under which the tag was first derived. The harness cannot know which, so the shape
// predicates are evaluated under both readings (see c32Either) and a pair is left out when
// either reading shows the finding's shape.
var c32NameIdent = true

func c32Same(a, b hCol) bool {
	return a.UID == b.UID || (c32NameIdent && ((a.Name == b.Name && a.Type == b.Type) || (a.Tag != 0 && a.Tag == b.Tag)))
}

func c32Either(f func(from, to *hTable) bool, from, to *hTable) bool {
	c32NameIdent = true
	x := f(from, to)
	c32NameIdent = false
	y := f(from, to)
	c32NameIdent = true
	return x || y
}

// c32ShapeDropIdxCol: some index of `from` is gone at `to` together with its column.
func c32ShapeDropIdxCol(from, to *hTable) bool {
	if from == nil || to == nil {
		return false
	}
	for in, col := range from.Idx {
		if _, still := to.Idx[in]; still {
			continue
		}
		fcol := from.Cols[from.colIndex(col)]
		gone := true
		for _, tc := range to.Cols {
			if c32Same(fcol, tc) {
				gone = false
			}
		}
		if gone {
			return true
		}
	}
	return false
}

// c32ShapeColOrder: the column order of `to` is not "the surviving columns of `from` in their
// order, then the new columns".
func c32ShapeColOrder(from, to *hTable) bool {
	if from == nil || to == nil {
		return false
	}
	match := c32Same
	var want []string
	for _, fc := range from.Cols {
		for _, tc := range to.Cols {
			if match(fc, tc) {
				want = append(want, tc.Name)
				break
			}
		}
	}
	for _, tc := range to.Cols {
		isNew := true
		for _, fc := range from.Cols {
			if match(fc, tc) {
				isNew = false
			}
		}
		if isNew {
			want = append(want, tc.Name)
		}
	}
	return !vsql.EqualStrings(want, to.colNames())
}

// c32ShapeRenamedNull: a column that dolt identifies across the pair (a rename, or a drop plus
// a re-add that takes over the dropped column's tag, possibly with another type and a later
// rename) has different names at the two commits and some row's value in it goes from non-NULL
// to NULL.
func c32ShapeRenamedNull(from, to *hTable) bool {
	if from == nil || to == nil {
		return false
	}
	for i, fc := range from.Cols {
		for j, tc := range to.Cols {
			if !c32Same(fc, tc) || fc.Name == tc.Name {
				continue
			}
			for k, fr := range from.Rows {
				if tr, ok := to.Rows[k]; ok && fr[i] != vsql.Null && tr[j] == vsql.Null {
					return true
				}
			}
		}
	}
	return false
}

// c32ShapeRenameOnto: a column takes over the name of another column of `from` that is gone
// (or itself renamed) at `to`.
func c32ShapeRenameOnto(from, to *hTable) bool {
	if from == nil || to == nil {
		return false
	}
	for _, tc := range to.Cols {
		for _, fc := range from.Cols {
			if fc.UID == tc.UID && fc.Name != tc.Name {
				if i := from.colIndex(tc.Name); i >= 0 && from.Cols[i].UID != tc.UID {
					return true
				}
			}
		}
	}
	return false
}

// c32ShapeDefaultNull: `to` has a new column with a DEFAULT and a row that also exists at
// `from` holds NULL in it.
func c32ShapeDefaultNull(from, to *hTable) bool {
	if from == nil || to == nil {
		return false
	}
	for j, tc := range to.Cols {
		if tc.Def == "" {
			continue
		}
		isNew := true
		for _, fc := range from.Cols {
			if c32Same(fc, tc) {
				isNew = false
			}
		}
		if !isNew {
			continue
		}
		for k, tr := range to.Rows {
			if _, ok := from.Rows[k]; ok && tr[j] == vsql.Null {
				return true
			}
		}
	}
	return false
}

// c32ShapeDefaultChange: a column that dolt identifies across the pair has another DEFAULT.
func c32ShapeDefaultChange(from, to *hTable) bool {
	if from == nil || to == nil {
		return false
	}
	for _, tc := range to.Cols {
		for _, fc := range from.Cols {
			if c32Same(fc, tc) && fc.Def != tc.Def {
				return true
			}
		}
	}
	return false
}

// c32ShapeSameName: `to` has a column that shares its name, but neither identity nor type,
// with a column of `from`.
func c32ShapeSameName(from, to *hTable) bool {
	if from == nil || to == nil {
		return false
	}
	for _, tc := range to.Cols {
		for _, fc := range from.Cols {
			if fc.Name == tc.Name && fc.UID != tc.UID && fc.Type != tc.Type {
				return true
			}
		}
	}
	return false
}

// c32Overlap mirrors dolt's rename detection (diff.schemasOverlap): the tables share a column.
func c32Overlap(a, b *hTable) bool {
	for _, x := range a.Cols {
		for _, y := range b.Cols {
			if x.Name == y.Name && (x.UID == y.UID || x.Type == y.Type) {
				return true
			}
		}
	}
	return false
}

// c32ShapeMultiRename: a table that exists only at `from` shares a column with two or more
// tables that exist only at `to`.
func c32ShapeMultiRename(fs, ts hState, pool []string) bool {
	for _, n := range pool {
		if fs[n] == nil || ts[n] != nil {
			continue
		}
		cnt := 0
		for _, m := range pool {
			if ts[m] != nil && fs[m] == nil && c32Overlap(fs[n], ts[m]) {
				cnt++
			}
		}
		if cnt >= 2 {
			return true
		}
	}
	return false
}

// c32ShapeRenameDropIdx: (for a possibly renamed table) an index of `from` is absent at `to`.
func c32ShapeRenameDropIdx(from, to *hTable) bool {
	if from == nil || to == nil {
		return false
	}
	for in := range from.Idx {
		if _, ok := to.Idx[in]; !ok {
			return true
		}
	}
	return false
}

// c32ShapePKIndex: the table is created by the patch and has an index on exactly its key columns.
func c32ShapePKIndex(from, to *hTable) bool {
	if from != nil || to == nil {
		return false
	}
	npk := 0
	for _, c := range to.Cols {
		if c.PK {
			npk++
		}
	}
	for _, col := range to.Idx {
		if npk == 1 && to.Cols[to.colIndex(col)].PK {
			return true
		}
	}
	return false
}

type c32Opts struct {
	patch bool
}

type c32Stats struct {
	pairs, evals                    int
	added, removed, modified        int
	schemaPairs, escaped, patchStmt int
	narrowSkipped, excluded         int
	renamePairs, unspecified        int
	excludedBy                      map[string]int
	patched, pkSkipped              int
}

type c32Checker struct {
	rt *rapid.T
	h  *hHist
	p  *vsql.Session // patch session
	st *c32Stats
	ns int
}

func (c *c32Checker) fail(format string, a ...any) {
	c.rt.Helper()
	c.rt.Fatalf("%s\nops: %s", fmt.Sprintf(format, a...), strings.Join(c.h.Ops, " ; "))
}

func c32SameSchema(a, b *hTable) bool {
	if a == nil || b == nil || len(a.Cols) != len(b.Cols) {
		return false
	}
	for i := range a.Cols {
		if a.Cols[i] != b.Cols[i] {
			return false
		}
	}
	return true
}

func c32KeyCols(t *hTable) string {
	var p []string
	for _, c := range t.Cols {
		if c.PK {
			p = append(p, fmt.Sprintf("%s#%d", c.Type, c.Ord))
		}
	}
	return strings.Join(p, ",")
}

// c32PKChanged: the key column types differ, or the table at `to` is another incarnation than
// the one at `from` (its key columns are different columns, e.g. the old table lives on under
// another name and this name was re-created): dolt then reports a primary key set change.
func c32PKChanged(from, to *hTable) bool {
	if c32KeyCols(from) != c32KeyCols(to) {
		return true
	}
	var a, b []int
	for _, c := range from.Cols {
		if c.PK {
			a = append(a, c.UID)
		}
	}
	for _, c := range to.Cols {
		if c.PK {
			b = append(b, c.UID)
		}
	}
	for i := range a {
		if a[i] != b[i] {
			return true
		}
	}
	return false
}

// c32RowDiffers says whether dolt must / may report a row present on both sides.
//   - must: a column present on both sides (same identity) holds different values, or a column
//     that exists only in `to` holds a non-NULL value;
//   - may (schemas differ only): the row's storage was possibly rewritten by the schema change,
//     any report is accepted as long as its values are right.
func c32RowDiffers(from, to *hTable, fr, tr []string) (must bool) {
	for j, tc := range to.Cols {
		if tc.PK {
			continue // the rows are paired by equal key values
		}
		found := false
		for i, fc := range from.Cols {
			if fc.UID == tc.UID {
				found = true
				if fr[i] != tr[j] {
					return true
				}
			}
		}
		if !found && tr[j] != vsql.Null {
			return true
		}
	}
	return false
}

func c32NeedsEscape(v string) bool {
	return strings.ContainsAny(v, "'\\\x00\"\n") && v != vsql.Null
}

type c32Expected struct {
	added, removed, mustMod, mayMod int
}

// rowDiff compares the rows of `SELECT * FROM dolt_diff(from,to,name)` (or of dolt_diff_<t>
// restricted to the pair) with the model. from / to may be nil (table absent on that side).
func (c *c32Checker) rowDiff(what, q string, rows *vsql.Rows, from, to *hTable, fromHash, toHash string) (exp c32Expected, problem string) {
	type bail struct{ msg string }
	defer func() {
		if r := recover(); r != nil {
			b, ok := r.(bail)
			if !ok {
				panic(r)
			}
			problem = b.msg
		}
	}()
	fail := func(format string, a ...any) { panic(bail{fmt.Sprintf(format, a...)}) }

	col := map[string]int{}
	for i, n := range rows.Cols {
		if _, dup := col[n]; dup {
			fail("C32 %s: duplicate result column %q: %s", what, n, q)
		}
		col[n] = i
	}
	idx := func(n string) int {
		i, ok := col[n]
		if !ok {
			fail("C32 %s: result has no column %q (columns %q): %s", what, n, rows.Cols, q)
		}
		return i
	}
	dti, fci, tci := idx("diff_type"), idx("from_commit"), idx("to_commit")
	var fIdx, tIdx []int
	if from != nil {
		for _, cc := range from.Cols {
			fIdx = append(fIdx, idx("from_"+cc.Name))
		}
	}
	if to != nil {
		for _, cc := range to.Cols {
			tIdx = append(tIdx, idx("to_"+cc.Name))
		}
	}
	pick := func(r []string, ix []int) []string {
		out := make([]string, len(ix))
		for i, j := range ix {
			out[i] = r[j]
		}
		return out
	}
	allNull := func(r []string) bool {
		for _, v := range r {
			if v != vsql.Null {
				return false
			}
		}
		return true
	}
	same := c32SameSchema(from, to)
	seen := map[string]bool{}
	for _, r := range rows.Data {
		if r[fci] != fromHash || r[tci] != toHash {
			fail("C32 %s: row with from_commit=%s to_commit=%s, asked for %s..%s: %s", what, r[fci], r[tci], fromHash, toHash, q)
		}
		var fr, tr []string
		if from != nil {
			fr = pick(r, fIdx)
		}
		if to != nil {
			tr = pick(r, tIdx)
		}
		var key string
		switch r[dti] {
		case "added":
			if to == nil {
				fail("C32 %s: 'added' row but the table is absent at `to`: %s", what, q)
			}
			key = to.key(tr)
			if from != nil {
				if _, ok := from.Rows[key]; ok {
					fail("C32 %s: key (%s) reported 'added' but the row exists at `from`: %s", what, hShowRows([]string{key}), q)
				}
				if !allNull(fr) {
					fail("C32 %s: 'added' row (%s) with non-NULL from_ values %q: %s", what, hShowRows([]string{key}), fr, q)
				}
			}
			want, ok := to.Rows[key]
			if !ok || strings.Join(want, "\x1f") != strings.Join(tr, "\x1f") {
				fail("C32 %s: 'added' row to_ values (%s); model row at `to`: (%s) present=%v: %s", what, hShowRows([]string{strings.Join(tr, "\x1f")}), hShowRows([]string{strings.Join(want, "\x1f")}), ok, q)
			}
		case "removed":
			if from == nil {
				fail("C32 %s: 'removed' row but the table is absent at `from`: %s", what, q)
			}
			key = from.key(fr)
			if to != nil {
				if _, ok := to.Rows[key]; ok {
					fail("C32 %s: key (%s) reported 'removed' but the row exists at `to`: %s", what, hShowRows([]string{key}), q)
				}
				if !allNull(tr) {
					fail("C32 %s: 'removed' row (%s) with non-NULL to_ values %q: %s", what, hShowRows([]string{key}), tr, q)
				}
			}
			want, ok := from.Rows[key]
			if !ok || strings.Join(want, "\x1f") != strings.Join(fr, "\x1f") {
				fail("C32 %s: 'removed' row from_ values (%s); model row at `from`: (%s) present=%v: %s", what, hShowRows([]string{strings.Join(fr, "\x1f")}), hShowRows([]string{strings.Join(want, "\x1f")}), ok, q)
			}
		case "modified":
			if from == nil || to == nil {
				fail("C32 %s: 'modified' row but the table is absent on one side: %s", what, q)
			}
			key = to.key(tr)
			if fk := from.key(fr); fk != key {
				fail("C32 %s: 'modified' row pairs different keys: from (%s) to (%s): %s", what, hShowRows([]string{fk}), hShowRows([]string{key}), q)
			}
			wf, okf := from.Rows[key]
			wt, okt := to.Rows[key]
			if !okf || !okt {
				fail("C32 %s: key (%s) reported 'modified'; in model: at from=%v at to=%v: %s", what, hShowRows([]string{key}), okf, okt, q)
			}
			if strings.Join(wf, "\x1f") != strings.Join(fr, "\x1f") || strings.Join(wt, "\x1f") != strings.Join(tr, "\x1f") {
				fail("C32 %s: 'modified' row (%s): from_ (%s) to_ (%s); model from (%s) to (%s): %s", what, hShowRows([]string{key}),
					hShowRows([]string{strings.Join(fr, "\x1f")}), hShowRows([]string{strings.Join(tr, "\x1f")}),
					hShowRows([]string{strings.Join(wf, "\x1f")}), hShowRows([]string{strings.Join(wt, "\x1f")}), q)
			}
			if same && strings.Join(wf, "\x1f") == strings.Join(wt, "\x1f") {
				fail("C32 %s: key (%s) reported 'modified' but the row is identical in both commits (same schema): %s", what, hShowRows([]string{key}), q)
			}
		default:
			fail("C32 %s: unknown diff_type %q: %s", what, r[dti], q)
		}
		if seen[r[dti][:1]+key] || seen["a"+key] || seen["r"+key] || seen["m"+key] {
			fail("C32 %s: key (%s) reported more than once: %s\n%v", what, hShowRows([]string{key}), q, rows)
		}
		seen[r[dti][:1]+key] = true
	}
	// completeness
	if to != nil {
		for _, k := range to.keys() {
			var fr []string
			if from != nil {
				fr = from.Rows[k]
			}
			if fr == nil {
				exp.added++
				if !seen["a"+k] {
					fail("C32 %s: row (%s) exists only at `to` but is not reported 'added': %s\n%v", what, hShowRows([]string{strings.Join(to.Rows[k], "\x1f")}), q, rows)
				}
				continue
			}
			if c32RowDiffers(from, to, fr, to.Rows[k]) {
				exp.mustMod++
				if !seen["m"+k] {
					fail("C32 %s: row (%s) -> (%s) differs between the commits but is not reported 'modified' (from schema %s; to schema %s): %s\n%v", what,
						hShowRows([]string{strings.Join(fr, "\x1f")}), hShowRows([]string{strings.Join(to.Rows[k], "\x1f")}), from.schemaString(), to.schemaString(), q, rows)
				}
			} else if seen["m"+k] {
				exp.mayMod++
			}
		}
	}
	if from != nil {
		for _, k := range from.keys() {
			if to != nil {
				if _, ok := to.Rows[k]; ok {
					continue
				}
			}
			exp.removed++
			if !seen["r"+k] {
				fail("C32 %s: row (%s) exists only at `from` but is not reported 'removed': %s\n%v", what, hShowRows([]string{strings.Join(from.Rows[k], "\x1f")}), q, rows)
			}
		}
	}
	return exp, ""
}

// pair checks one ordered pair of commits.
func (c *c32Checker) pair(fi, ti int, opts c32Opts) {
	h := c.h
	fc, tc := h.Commits[fi], h.Commits[ti]
	c.st.pairs++
	exp := map[string]c32Expected{}
	renamed := map[string]bool{}
	schemaChange := false
	for _, name := range h.cfg.TablePool {
		from, to := fc.State[name], tc.State[name]
		if from == nil && to == nil {
			continue
		}
		if from != nil && to != nil && c32KeyCols(from) != c32KeyCols(to) {
			continue // primary key set changed: dolt documents that no row diff is produced
		}
		if from != nil && to != nil && !c32SameSchemaText(from, to) {
			schemaChange = true
		}
		q := fmt.Sprintf("SELECT * FROM dolt_diff('%s','%s','%s')", fc.Hash, tc.Hash, name)
		rows, err := h.w.Query(q)
		c.st.evals++
		if err != nil {
			if (from == nil || to == nil) && c.renameCandidate(fi, ti, name) {
				// dolt pairs this table with one of another name (rename detection over shared column
				// tags; the choice among several candidates follows Go map order) and the two schemas
				// may be undiffable: an error here is not a statement about the data
				c.st.unspecified++
				renamed[name] = true
				continue
			}
			c.fail("C32 dolt_diff: %s failed: %v", q, err)
		}
		e, problem := c.rowDiff("dolt_diff()", q, rows, from, to, fc.Hash, tc.Hash)
		if problem != "" && (from == nil || to == nil) {
			// the table may have been renamed between the commits: dolt_diff then pairs the old and
			// the new name. Accept the diff against any table that exists only on the other side.
			for _, other := range h.cfg.TablePool {
				if other == name || (fc.State[other] != nil && tc.State[other] != nil) {
					continue
				}
				var e2 c32Expected
				p2 := "x"
				if from == nil && fc.State[other] != nil && c32KeyCols(fc.State[other]) == c32KeyCols(to) {
					e2, p2 = c.rowDiff("dolt_diff()", q, rows, fc.State[other], to, fc.Hash, tc.Hash)
				} else if to == nil && tc.State[other] != nil && c32KeyCols(tc.State[other]) == c32KeyCols(from) {
					e2, p2 = c.rowDiff("dolt_diff()", q, rows, from, tc.State[other], fc.Hash, tc.Hash)
				}
				if p2 == "" {
					e, problem = e2, ""
					renamed[name] = true
					c.st.renamePairs++
					break
				}
			}
		}
		if problem != "" && (from == nil || to == nil) {
			// a rename partner with another primary key: dolt pairs the tables (overlapping column
			// tags) but cannot diff them; what it renders then is not specified
			for _, other := range h.cfg.TablePool {
				if other == name || (fc.State[other] != nil && tc.State[other] != nil) {
					continue
				}
				if (from == nil && fc.State[other] != nil && c32PKChanged(fc.State[other], to)) || (to == nil && tc.State[other] != nil && c32PKChanged(from, tc.State[other])) {
					problem = ""
					renamed[name] = true
					c.st.unspecified++
				}
			}
		}
		if problem != "" {
			c.fail("%s", problem)
		}
		exp[name] = e
		c.st.added += e.added
		c.st.removed += e.removed
		c.st.modified += e.mustMod
		for _, t := range []*hTable{from, to} {
			if t == nil {
				continue
			}
			for _, r := range t.Rows {
				for _, v := range r {
					if c32NeedsEscape(v) {
						c.st.escaped++
					}
				}
			}
		}
	}
	if schemaChange {
		c.st.schemaPairs++
	}
	c.diffStat(fi, ti, exp, renamed)
	c.diffSummary(fi, ti)
	if opts.patch {
		c.patch(fi, ti)
	}
}

// diffStat: dolt_diff_stat(from,to) row counts per table.
func (c *c32Checker) diffStat(fi, ti int, exp map[string]c32Expected, renamed map[string]bool) {
	h := c.h
	fc, tc := h.Commits[fi], h.Commits[ti]
	q := fmt.Sprintf("SELECT table_name, rows_added, rows_deleted, rows_modified, rows_unmodified, old_row_count, new_row_count FROM dolt_diff_stat('%s','%s')", fc.Hash, tc.Hash)
	rows, err := h.w.Query(q)
	c.st.evals++
	if err != nil {
		// dolt_diff_stat refuses some schema changes (documented: primary key changes); accept an error only then
		for _, name := range h.cfg.TablePool {
			from, to := fc.State[name], tc.State[name]
			if from != nil && to != nil && c32KeyCols(from) != c32KeyCols(to) {
				return
			}
		}
		c.fail("C32 dolt_diff_stat: %s failed: %v", q, err)
	}
	got := map[string][]string{}
	for _, r := range rows.Data {
		if _, dup := got[r[0]]; dup {
			c.fail("C32 dolt_diff_stat: table %s listed twice: %s", r[0], q)
		}
		got[r[0]] = r
	}
	for _, name := range h.cfg.TablePool {
		from, to := fc.State[name], tc.State[name]
		e, ok := exp[name]
		r := got[name]
		delete(got, name)
		if !ok {
			continue
		}
		if (from == nil || to == nil) && c.renameCandidate(fi, ti, name) {
			continue // possibly one half of a rename: reported under either name
		}
		dataChange := e.added+e.removed+e.mustMod > 0
		if r == nil {
			if dataChange && !(from != nil && to != nil && c32PKChanged(from, to)) {
				c.fail("C32 dolt_diff_stat: table %s has %d added, %d removed, %d modified rows in the model but no row: %s -> %v", name, e.added, e.removed, e.mustMod, q, rows)
			}
			continue
		}
		n := func(i int) int { v, _ := strconv.Atoi(r[i]); return v }
		if from != nil && to != nil && c32PKChanged(from, to) && n(1)+n(2)+n(3)+n(4)+n(5)+n(6) == 0 {
			continue // "stat cannot be determined, primary key set changed": dolt reports an empty row with a warning
		}
		oldN, newN := 0, 0
		if from != nil {
			oldN = len(from.Rows)
		}
		if to != nil {
			newN = len(to.Rows)
		}
		if n(1) != e.added || n(2) != e.removed || n(3) < e.mustMod || n(3) > e.mustMod+e.mayMod || n(5) != oldN || n(6) != newN || n(4) != oldN-e.removed-n(3) {
			c.fail("C32 dolt_diff_stat: table %s: added=%s deleted=%s modified=%s unmodified=%s old=%s new=%s; model added=%d removed=%d modified=%d(+%d rewritten) old=%d new=%d: %s",
				name, r[1], r[2], r[3], r[4], r[5], r[6], e.added, e.removed, e.mustMod, e.mayMod, oldN, newN, q)
		}
	}
	for name := range got {
		if fc.State[name] == nil && tc.State[name] == nil {
			c.fail("C32 dolt_diff_stat: lists table %s which exists at neither commit: %s", name, q)
		}
	}
}

// renameCandidate: name exists on one side only and some other name exists only on the other.
func (c *c32Checker) renameCandidate(fi, ti int, name string) bool {
	fs, ts := c.h.Commits[fi].State, c.h.Commits[ti].State
	for _, other := range c.h.cfg.TablePool {
		if other == name {
			continue
		}
		if (fs[name] != nil && ts[name] == nil && fs[other] == nil && ts[other] != nil) ||
			(fs[name] == nil && ts[name] != nil && fs[other] != nil && ts[other] == nil) {
			return true
		}
	}
	return false
}

// pkChangedPartner: name exists on one side only and a table that exists only on the other
// side shares a column with it (dolt's rename detection) but has another primary key.
func (c *c32Checker) pkChangedPartner(fi, ti int, name string) bool {
	fs, ts := c.h.Commits[fi].State, c.h.Commits[ti].State
	for _, other := range c.h.cfg.TablePool {
		if other == name {
			continue
		}
		if fs[name] != nil && ts[name] == nil && fs[other] == nil && ts[other] != nil && c32Overlap(fs[name], ts[other]) && c32PKChanged(fs[name], ts[other]) {
			return true
		}
		if fs[name] == nil && ts[name] != nil && fs[other] != nil && ts[other] == nil && c32Overlap(fs[other], ts[name]) && c32PKChanged(fs[other], ts[name]) {
			return true
		}
	}
	return false
}

func c32TablesEqual(a, b *hTable) bool {
	if !c32SameSchema(a, b) {
		return false
	}
	return vsql.EqualStrings(a.sorted(), b.sorted())
}

// diffSummary: dolt_diff_summary(from,to) names exactly the tables that changed.
func (c *c32Checker) diffSummary(fi, ti int) {
	h := c.h
	fc, tc := h.Commits[fi], h.Commits[ti]
	q := fmt.Sprintf("SELECT from_table_name, to_table_name, diff_type, data_change, schema_change FROM dolt_diff_summary('%s','%s')", fc.Hash, tc.Hash)
	rows, err := h.w.Query(q)
	c.st.evals++
	if err != nil {
		c.fail("C32 dolt_diff_summary: %s failed: %v", q, err)
	}
	if c32ShapeMultiRename(fc.State, tc.State, h.cfg.TablePool) && c32Excluded(c32FMultiRename) {
		c.st.excluded++
		c.st.excludedBy[c32FMultiRename+"(summary)"]++
		return
	}
	fromSeen, toSeen := map[string][]string{}, map[string][]string{}
	for _, r := range rows.Data {
		if r[0] != "" {
			if fromSeen[r[0]] != nil {
				c.fail("C32 dolt_diff_summary: from table %s listed twice: %s -> %v", r[0], q, rows)
			}
			fromSeen[r[0]] = r
		}
		if r[1] != "" {
			if toSeen[r[1]] != nil {
				c.fail("C32 dolt_diff_summary: to table %s listed twice: %s -> %v", r[1], q, rows)
			}
			toSeen[r[1]] = r
		}
		switch r[2] {
		case "added":
			if fc.State[r[1]] != nil && r[0] == "" && tc.State[r[1]] != nil && c32TablesEqual(fc.State[r[1]], tc.State[r[1]]) {
				c.fail("C32 dolt_diff_summary: table %s reported added but is identical at both commits: %s", r[1], q)
			}
			if tc.State[r[1]] == nil {
				c.fail("C32 dolt_diff_summary: table %s reported added but is absent at `to`: %s", r[1], q)
			}
		case "dropped":
			if fc.State[r[0]] == nil {
				c.fail("C32 dolt_diff_summary: table %s reported dropped but is absent at `from`: %s", r[0], q)
			}
		case "modified", "renamed":
			if fc.State[r[0]] == nil || tc.State[r[1]] == nil {
				c.fail("C32 dolt_diff_summary: %s %s->%s but the table is absent on one side: %s", r[2], r[0], r[1], q)
			}
		default:
			c.fail("C32 dolt_diff_summary: unknown diff_type %q: %s", r[2], q)
		}
	}
	for _, name := range h.cfg.TablePool {
		from, to := fc.State[name], tc.State[name]
		switch {
		case from == nil && to == nil:
			if fromSeen[name] != nil || toSeen[name] != nil {
				c.fail("C32 dolt_diff_summary: lists table %s which exists at neither commit: %s -> %v", name, q, rows)
			}
		case from == nil:
			if toSeen[name] == nil && c.pkChangedPartner(fi, ti, name) {
				continue // paired with a table of another primary key (rename detection): dolt warns and renders no row
			}
			if r := toSeen[name]; r == nil || (r[2] != "added" && r[2] != "renamed") {
				c.fail("C32 dolt_diff_summary: table %s exists only at `to`; want an added/renamed row, got %q: %s -> %v", name, r, q, rows)
			}
		case to == nil:
			if fromSeen[name] == nil && c.pkChangedPartner(fi, ti, name) {
				continue
			}
			if r := fromSeen[name]; r == nil || (r[2] != "dropped" && r[2] != "renamed") {
				c.fail("C32 dolt_diff_summary: table %s exists only at `from`; want a dropped/renamed row, got %q: %s -> %v", name, r, q, rows)
			}
		default:
			if c32PKChanged(from, to) {
				continue // primary key set changed: dolt warns and renders no summary row
			}
			r := toSeen[name]
			if r != nil && r[0] != name {
				r = nil // a rename from another table onto this name; then this name must also appear as a from table
			}
			if c32TablesEqual(from, to) {
				// possibly a dropped and identically re-created table: dolt sees identical content either way
				if r != nil && (r[3] != "0" || r[4] != "0") && sameIndexes(from, to) {
					c.fail("C32 dolt_diff_summary: table %s is identical at both commits but reported %q: %s", name, r, q)
				}
				continue
			}
			if toSeen[name] == nil && fromSeen[name] == nil {
				c.fail("C32 dolt_diff_summary: table %s differs between the commits but is not listed: %s -> %v", name, q, rows)
			}
			if r == nil {
				continue
			}
			if c32SameSchema(from, to) && sameIndexes(from, to) {
				if r[3] != "1" {
					c.fail("C32 dolt_diff_summary: table %s has different rows (same schema) but data_change=%s: %s", name, r[3], q)
				}
			} else if !c32SameSchemaText(from, to) && r[4] != "1" {
				c.fail("C32 dolt_diff_summary: table %s has a different schema but schema_change=%s: %s", name, r[4], q)
			}
		}
	}
}

// c32Narrows reports whether some column is narrower at `to` than at `from`.
func c32Narrows(from, to *hTable) bool {
	for _, fc := range from.Cols {
		for _, tc := range to.Cols {
			if (fc.UID == tc.UID || fc.Name == tc.Name) && ((fc.Type == "BIGINT" && tc.Type == "INT") || (fc.Type == "VARCHAR(60)" && tc.Type == "VARCHAR(40)")) {
				return true
			}
		}
	}
	return false
}

func sameIndexes(a, b *hTable) bool {
	if len(a.Idx) != len(b.Idx) {
		return false
	}
	for k, v := range a.Idx {
		if b.Idx[k] != v {
			return false
		}
	}
	return true
}

func c32SameSchemaText(a, b *hTable) bool {
	return a.schemaString() == b.schemaString() && sameIndexes(a, b)
}

// patch executes dolt_patch(from,to) on a scratch branch created at `from`.
func (c *c32Checker) patch(fi, ti int) {
	h := c.h
	fc, tc := h.Commits[fi], h.Commits[ti]
	for _, name := range h.cfg.TablePool {
		from, to := fc.State[name], tc.State[name]
		if from != nil && to != nil && c32PKChanged(from, to) {
			c.st.pkSkipped++
			return // primary key change: dolt_patch documents that it cannot produce the data diff
		}
		if from != nil && to != nil && c32Narrows(from, to) {
			c.st.narrowSkipped++
			return // see the assumptions: schema statements come first, a narrowing MODIFY may not fit `from`'s rows
		}
	}
	if c32ShapeMultiRename(fc.State, tc.State, h.cfg.TablePool) && c32Excluded(c32FMultiRename) {
		c.st.excluded++
		c.st.excludedBy[c32FMultiRename]++
		return
	}
	// pairs of (table at `from`, table at `to`) that dolt may relate: the same name, or (a possible
	// rename) a name that exists only at `from` with a name that exists only at `to`
	type cand struct {
		from, to *hTable
		rename   bool
	}
	var cands []cand
	for _, name := range h.cfg.TablePool {
		from, to := fc.State[name], tc.State[name]
		if from != nil || to != nil {
			cands = append(cands, cand{from, to, false})
		}
		if from != nil && to == nil {
			for _, other := range h.cfg.TablePool {
				if o := tc.State[other]; o != nil && fc.State[other] == nil && c32Overlap(from, o) {
					cands = append(cands, cand{from, o, true})
				}
			}
		}
	}
	for _, cd := range cands {
		from, to := cd.from, cd.to
		if cd.rename && c32PKChanged(from, to) {
			c.st.pkSkipped++
			return
		}
		if cd.rename && c32Narrows(from, to) {
			c.st.narrowSkipped++
			return
		}
		shape := ""
		switch {
		case cd.rename && c32ShapeRenameDropIdx(from, to) && c32Excluded(c32FRenameDropIdx):
			shape = c32FRenameDropIdx
		case c32Either(c32ShapeDropIdxCol, from, to) && c32Excluded(c32FDropIdxCol):
			shape = c32FDropIdxCol
		case !cd.rename && c32ShapePKIndex(from, to) && c32Excluded(c32FPKIndex):
			shape = c32FPKIndex
		case c32Either(c32ShapeRenamedNull, from, to) && c32Excluded(c32FRenamedNull):
			shape = c32FRenamedNull
		case c32Either(c32ShapeRenameOnto, from, to) && c32Excluded(c32FRenameOnto):
			shape = c32FRenameOnto
		case c32Either(c32ShapeDefaultNull, from, to) && c32Excluded(c32FDefaultNull):
			shape = c32FDefaultNull
		case c32Either(c32ShapeDefaultChange, from, to) && c32Excluded(c32FDefaultChange):
			shape = c32FDefaultChange
		case c32Either(c32ShapeSameName, from, to) && c32Excluded(c32FSameName):
			shape = c32FSameName
		}
		if shape != "" {
			c.st.excluded++
			c.st.excludedBy[shape]++
			return
		}
	}
	q := fmt.Sprintf("SELECT statement_order, table_name, diff_type, statement FROM dolt_patch('%s','%s') ORDER BY statement_order", fc.Hash, tc.Hash)
	rows, err := h.w.Query(q)
	c.st.evals++
	if err != nil {
		c.fail("C32 dolt_patch: %s failed: %v", q, err)
	}
	c.ns++
	br := fmt.Sprintf("scr%d", c.ns)
	h.w.MustExec(c.rt, fmt.Sprintf("CALL dolt_branch('%s','%s')", br, fc.Hash))
	c.p.MustExec(c.rt, fmt.Sprintf("USE `%s/%s`", h.db, br))
	var stmts []string
	for _, r := range rows.Data {
		stmts = append(stmts, r[3])
	}
	for i, r := range rows.Data {
		if r[0] != strconv.Itoa(i+1) {
			c.fail("C32 dolt_patch: statement_order %s at position %d: %s", r[0], i+1, q)
		}
		c.st.patchStmt++
		if err := c.p.Exec(r[3]); err != nil {
			c.fail("C32 dolt_patch: statement %d of %s failed on a branch at `from` (#%d -> #%d): %q: %v\nall statements:\n%s", i+1, q, fi, ti, r[3], err, strings.Join(stmts, "\n"))
		}
	}
	st, err := c.p.Query("SHOW TABLES")
	if err != nil {
		c.fail("C32 dolt_patch: SHOW TABLES on scratch branch: %v", err)
	}
	var got []string
	for _, r := range st.Data {
		got = append(got, r[0])
	}
	sort.Strings(got)
	if want := tc.State.names(); !vsql.EqualStrings(got, want) {
		c.fail("C32 dolt_patch: after applying %s (#%d -> #%d) the tables are %q, at `to` %q\nstatements:\n%s", q, fi, ti, got, want, strings.Join(stmts, "\n"))
	}
	for _, name := range tc.State.names() {
		want := tc.State[name]
		data, err := c.p.Query(fmt.Sprintf("SELECT * FROM `%s`", name))
		if err != nil {
			c.fail("C32 dolt_patch: read %s after patch: %v", name, err)
		}
		// compare by column name: the model row reordered to the patched table's column order
		perm := make([]int, len(data.Cols))
		okCols := len(data.Cols) == len(want.Cols)
		for i, cn := range data.Cols {
			perm[i] = want.colIndex(cn)
			if perm[i] < 0 {
				okCols = false
			}
		}
		if !okCols {
			c.fail("C32 dolt_patch: after applying %s (#%d -> #%d) table %s has columns %q, at `to` %q\nstatements:\n%s", q, fi, ti, name, data.Cols, want.colNames(), strings.Join(stmts, "\n"))
		}
		exp := make([]string, 0, len(want.Rows))
		for _, r := range want.Rows {
			p := make([]string, len(perm))
			for i, j := range perm {
				p[i] = r[j]
			}
			exp = append(exp, strings.Join(p, "\x1f"))
		}
		sort.Strings(exp)
		if g := data.Sorted(); !vsql.EqualStrings(g, exp) {
			c.fail("C32 dolt_patch: after applying %s (#%d -> #%d) table %s holds\n got   %s\n at to %s\nstatements:\n%s", q, fi, ti, name, hShowRows(g), hShowRows(exp), strings.Join(stmts, "\n"))
		}
		sc, err1 := c.p.Query(fmt.Sprintf("SHOW CREATE TABLE `%s`", name))
		sw, err2 := h.w.Query(fmt.Sprintf("SHOW CREATE TABLE `%s` AS OF '%s'", name, tc.Hash))
		if err1 != nil || err2 != nil {
			c.fail("C32 dolt_patch: SHOW CREATE TABLE %s: %v / %v", name, err1, err2)
		}
		if c32Excluded(c32FColOrder) {
			shape := c32Either(c32ShapeColOrder, fc.State[name], want)
			if fc.State[name] == nil { // possibly renamed from a table that exists only at `from`
				for _, other := range h.cfg.TablePool {
					if tc.State[other] == nil && fc.State[other] != nil && c32Overlap(fc.State[other], want) && c32Either(c32ShapeColOrder, fc.State[other], want) {
						shape = true
					}
				}
			}
			if shape {
				c.st.excluded++
				c.st.excludedBy[c32FColOrder+"(schema text only)"]++
				continue
			}
		}
		if len(sc.Data) != 1 || len(sw.Data) != 1 || sc.Data[0][1] != sw.Data[0][1] {
			c.fail("C32 dolt_patch: after applying %s (#%d -> #%d) SHOW CREATE TABLE %s differs\n got   %v\n at to %v\nstatements:\n%s", q, fi, ti, name, sc.Data, sw.Data, strings.Join(stmts, "\n"))
		}
		c.st.evals++
	}
	c.st.patched++
	c.p.MustExec(c.rt, "USE `"+h.db+"`")
	_ = h.w.Exec(fmt.Sprintf("CALL dolt_branch('-D','%s')", br))
}

// diffTable checks dolt_diff_<t> for the parent/child pairs of the writer's HEAD ancestry on
// which the table has the schema it has now (dolt_diff_<t> uses the current schema).
func (c *c32Checker) diffTable() {
	h := c.h
	anc := h.ancestors(h.head())
	for _, name := range h.cfg.TablePool {
		cur := h.Work[name]
		if cur == nil {
			continue
		}
		q := fmt.Sprintf("SELECT * FROM `dolt_diff_%s`", name)
		all, err := h.w.Query(q)
		c.st.evals++
		if err != nil {
			schChanged := false
			for _, a := range anc {
				if old := h.Commits[a].State[name]; old != nil && !c32SameSchema(old, cur) {
					schChanged = true
				}
			}
			if schChanged {
				continue // an older table of this name had another schema: dolt_diff_<t> maps old rows onto the current schema and may refuse (dolt issue 11140)
			}
			c.fail("C32 dolt_diff_<t>: %s failed: %v", q, err)
		}
		tci := -1
		for i, n := range all.Cols {
			if n == "to_commit" {
				tci = i
			}
		}
		if tci < 0 {
			c.fail("C32 dolt_diff_<t>: no to_commit column: %s", q)
		}
		for k := 0; k+1 < len(anc); k++ {
			child, parent := h.Commits[anc[k]], h.Commits[anc[k+1]]
			from, to := parent.State[name], child.State[name]
			if to == nil {
				break // dolt_diff_<t> follows the table by name from HEAD back to where it first appears
			}
			if !c32SameSchema(to, cur) || !(from == nil || c32SameSchema(from, cur)) {
				continue
			}
			if from == nil {
				renameCand := false
				for _, other := range h.cfg.TablePool {
					if parent.State[other] != nil && child.State[other] == nil {
						renameCand = true
					}
				}
				if renameCand {
					break // the table may have arrived by a rename: what the first entry is diffed against is dolt's choice
				}
			}
			sub := &vsql.Rows{Cols: all.Cols}
			for _, r := range all.Data {
				if r[tci] == child.Hash {
					sub.Data = append(sub.Data, r)
				}
			}
			if _, problem := c.rowDiff("dolt_diff_"+name, q+" /* to_commit="+child.Hash+" */", sub, from, to, parent.Hash, child.Hash); problem != "" {
				c.fail("%s", problem)
			}
			c.st.evals++
		}
	}
}

// c32Pinned is one pinned reproduction: statements building commit A, statements building
// commit B; dolt_patch(A,B) applied to a branch at A must reproduce B.
type c32Pinned struct {
	id   string
	a, b []string
	pre  []string // optional: statements of an earlier commit
	rev  bool     // apply dolt_patch(B,A) at B instead
}

var c32PinnedCases = []c32Pinned{
	{c32FDropIdxCol, []string{"CREATE TABLE t (pk INT PRIMARY KEY, c INT, KEY ix (c))", "INSERT INTO t VALUES (1,1)"}, []string{"ALTER TABLE t DROP COLUMN c"}, nil, false},
	{c32FPKIndex, []string{"CREATE TABLE other (pk INT PRIMARY KEY)"}, []string{"CREATE TABLE t (pk INT PRIMARY KEY, c INT)", "CREATE INDEX ix ON t (pk)"}, nil, false},
	{c32FRenamedNull, []string{"CREATE TABLE t (pk INT PRIMARY KEY, c1 VARCHAR(20))", "INSERT INTO t VALUES (1,'x'),(2,'y')"}, []string{"ALTER TABLE t RENAME COLUMN c1 TO c4", "UPDATE t SET c4 = NULL WHERE pk = 1"}, nil, false},
	{c32FRenameDropIdx, []string{"CREATE TABLE t (pk INT PRIMARY KEY, c INT, KEY ix (c))", "INSERT INTO t VALUES (1,1)"}, []string{"RENAME TABLE t TO u", "ALTER TABLE u DROP INDEX ix"}, nil, false},
	{c32FColOrder, []string{"CREATE TABLE t (pk INT PRIMARY KEY, c INT)", "INSERT INTO t VALUES (1,1)"}, []string{"ALTER TABLE t ADD COLUMN d INT AFTER pk"}, nil, false},
	{c32FRenameOnto, []string{"CREATE TABLE t (pk INT PRIMARY KEY, c1 TEXT, c0 VARBINARY(20))", "INSERT INTO t VALUES (1,'x',X'00')"}, []string{"ALTER TABLE t DROP COLUMN c0", "ALTER TABLE t RENAME COLUMN c1 TO c0"}, nil, false},
	{c32FDefaultNull, []string{"CREATE TABLE t (pk INT PRIMARY KEY, c INT)", "INSERT INTO t VALUES (1,1),(2,2)"}, []string{"ALTER TABLE t ADD COLUMN d INT DEFAULT -3", "UPDATE t SET d = NULL WHERE pk = 1"}, nil, false},
	{c32FDefaultChange, []string{"CREATE TABLE t (pk INT PRIMARY KEY, c INT)", "INSERT INTO t VALUES (1,1)"}, []string{"ALTER TABLE t MODIFY COLUMN c INT DEFAULT 3"}, nil, false},
	{id: c32FMultiRename, rev: true, pre: []string{"CREATE TABLE t0 (pk INT PRIMARY KEY, c0 INT)", "INSERT INTO t0 VALUES (1,1)"}, a: []string{"RENAME TABLE t0 TO t2", "CREATE TABLE t0 (pk INT PRIMARY KEY, c2 INT)"}, b: []string{"DROP TABLE t0", "RENAME TABLE t2 TO t1"}},
	{c32FSameName, []string{"CREATE TABLE t (pk INT PRIMARY KEY, c3 DECIMAL(12,2))", "INSERT INTO t VALUES (0,-0.03)"}, []string{"ALTER TABLE t DROP COLUMN c3", "ALTER TABLE t ADD COLUMN c3 DATETIME(6)", "UPDATE t SET c3 = '2000-04-22 03:00:20'"}, nil, false},
}

// c32RunPinned returns "" when the patch round trip reproduces commit B, else what went wrong.
func c32RunPinned(t *testing.T, srv *vsql.Server, admin *vsql.Session, pc c32Pinned) string {
	db := srv.NewDBName()
	admin.MustExec(t, "CREATE DATABASE "+db)
	defer admin.Exec("DROP DATABASE " + db)
	w := srv.Session(t, "w", db)
	defer w.Close()
	if len(pc.pre) > 0 {
		for _, q := range pc.pre {
			w.MustExec(t, q)
		}
		w.MustExec(t, "CALL dolt_commit('-A','-m','pre')")
	}
	for _, q := range pc.a {
		w.MustExec(t, q)
	}
	ha := w.MustQuery(t, "CALL dolt_commit('-A','-m','A')").Data[0][0]
	for _, q := range pc.b {
		w.MustExec(t, q)
	}
	hb := w.MustQuery(t, "CALL dolt_commit('-A','-m','B')").Data[0][0]
	if pc.rev {
		ha, hb = hb, ha
	}
	rows, err := w.Query(fmt.Sprintf("SELECT statement FROM dolt_patch('%s','%s') ORDER BY statement_order", ha, hb))
	if err != nil {
		return fmt.Sprintf("dolt_patch(A,B) failed: %v", err)
	}
	w.MustExec(t, fmt.Sprintf("CALL dolt_branch('scr','%s')", ha))
	p := srv.Session(t, "p", db+"/scr")
	defer p.Close()
	var stmts []string
	for _, r := range rows.Data {
		stmts = append(stmts, r[0])
	}
	for _, st := range stmts {
		if err := p.Exec(st); err != nil {
			return fmt.Sprintf("patch statement %q fails on a branch at A: %v (patch: %s)", st, err, strings.Join(stmts, " "))
		}
	}
	tb, err1 := p.Query("SHOW TABLES")
	tw, err2 := w.Query("SHOW TABLES AS OF '" + hb + "'")
	if err1 != nil || err2 != nil {
		return fmt.Sprintf("SHOW TABLES: %v / %v", err1, err2)
	}
	if !vsql.EqualStrings(tb.Sorted(), tw.Sorted()) {
		return fmt.Sprintf("tables after patch %q, at B %q (patch: %s)", tb.Sorted(), tw.Sorted(), strings.Join(stmts, " "))
	}
	for _, r := range tw.Data {
		name := r[0]
		got, err1 := p.Query("SELECT * FROM `" + name + "`")
		want, err2 := w.Query("SELECT * FROM `" + name + "` AS OF '" + hb + "'")
		if err1 != nil || err2 != nil {
			return fmt.Sprintf("read %s: %v / %v", name, err1, err2)
		}
		if !vsql.EqualStrings(got.Cols, want.Cols) || !vsql.EqualStrings(got.Sorted(), want.Sorted()) {
			return fmt.Sprintf("table %s after patch: %v; at B: %v (patch: %s)", name, got, want, strings.Join(stmts, " "))
		}
		sc, err1 := p.Query("SHOW CREATE TABLE `" + name + "`")
		sw, err2 := w.Query("SHOW CREATE TABLE `" + name + "` AS OF '" + hb + "'")
		if err1 != nil || err2 != nil {
			return fmt.Sprintf("SHOW CREATE TABLE %s: %v / %v", name, err1, err2)
		}
		if sc.Data[0][1] != sw.Data[0][1] {
			return fmt.Sprintf("SHOW CREATE TABLE %s after patch: %q; at B: %q (patch: %s)", name, sc.Data[0][1], sw.Data[0][1], strings.Join(stmts, " "))
		}
	}
	return ""
}

// c32ColPool: hostile but legal column names — names that start with the diff tables' own
// from_/to_ prefixes (also doubled), names that collide once a prefix is stripped (c0 with
// from_c0 / to_c0), a reserved word in mixed case, a name of a diff-table column, a space and a
// non-ASCII letter in quoted identifiers (no two names equal ignoring case).
var c32ColPool = []string{"c0", "from_c0", "to_c0", "from_from_x", "to_to", "Select", "a b", "diff_type", "naïve"}

const c32Rule = "rapid-generated histories of 2..4 commits (+ the empty initial commit) of row edits over INT,BIGINT,VARCHAR,VARBINARY,DECIMAL,DATE,DATETIME(6),JSON,TEXT values (NULLs, quotes, backslashes, NUL bytes, newlines, binary) and schema changes over pools of hostile-but-legal names (tables t0, from_t1, `To t2`; columns c0, from_c0, to_c0, from_from_x, to_to, Select, `a b`, diff_type, naïve) (ADD/DROP/RENAME/MODIFY COLUMN, CREATE/DROP INDEX, CREATE/DROP/RENAME TABLE, tables re-created under an old name; tables have 1..3 key columns of INT/VARCHAR whose PRIMARY KEY clause lists them in a drawn order that in about a third of the cases differs from the declaration order, key values of different key columns never coincide); for every ordered pair of commits dolt_diff(from,to,t) is compared row by row with the diff of the recorded models (every reported row: right key, diff_type, from_/to_ values, once; every added/removed row and every row with a changed common column or a non-NULL value in an added column reported), dolt_diff_stat and dolt_diff_summary with the model's counts and changed-table set, dolt_diff_<t> for parent/child pairs, and the statements of dolt_patch(from,to) are executed in order on a scratch branch created at `from`, after which table set, rows and SHOW CREATE TABLE must equal `to`. Non-trivial: the pair set of the case contains added, removed and modified rows, a pair with a schema change, and a value that needs escaping; distinct by operation sequence."

func c32Run(t *testing.T, rec *vh.Recorder, part string, quick, thorough int, cfg hConfig, opts c32Opts) {
	dir, cleanup := vh.ScratchDir(t, "c32")
	defer cleanup()
	srv, err := vsql.StartServer(dir)
	if err != nil {
		vh.Inconclusive(t, "start server: %v", err)
	}
	defer srv.Stop()
	admin := srv.Session(t, "admin", "")
	defer admin.Close()
	for _, pc := range c32PinnedCases {
		pc := pc
		t.Run("pinned_"+pc.id, func(t *testing.T) {
			msg := c32RunPinned(t, srv, admin, pc)
			rec.Evals(1)
			if msg == "" {
				return
			}
			if vh.OpenFinding("C32", pc.id) {
				vh.ReportKnown("C32", pc.id, msg)
				return
			}
			detail, _ := json.Marshal(map[string]any{"finding": pc.id, "earlier_commit": pc.pre, "commit_A": pc.a, "commit_B": pc.b, "then": "apply the statements of dolt_patch(A,B) to a branch created at A", "observed": msg})
			vh.NoteViolation(t.Name(), "", string(detail))
			t.Errorf("%s: %s", pc.id, msg)
		})
	}
	vh.Check(t, part, quick, thorough, func(rt *rapid.T) {
		db := srv.NewDBName()
		admin.MustExec(rt, "CREATE DATABASE "+db)
		defer admin.Exec("DROP DATABASE " + db)
		w := srv.Session(rt, "w", db)
		defer w.Close()
		p := srv.Session(rt, "p", db)
		defer p.Close()
		c := cfg
		if vh.Thorough() {
			c.MaxCommits += 1
		}
		h := newHist(rt, srv, db, w, c)
		h.build()
		st := &c32Stats{excludedBy: map[string]int{}}
		chk := &c32Checker{rt: rt, h: h, p: p, st: st}
		for fi := range h.Commits {
			for ti := range h.Commits {
				if fi != ti {
					chk.pair(fi, ti, opts)
				}
			}
		}
		chk.diffTable()
		classes := h.classes()
		if st.schemaPairs > 0 {
			classes = append(classes, "pair_with_schema_change")
		}
		if st.escaped > 0 {
			classes = append(classes, "value_needs_escaping")
		}
		if st.modified > 0 {
			classes = append(classes, "rows_modified")
		}
		if st.added > 0 {
			classes = append(classes, "rows_added_removed")
		}
		if st.renamePairs > 0 {
			classes = append(classes, "diff_across_table_rename")
		}
		if st.patchStmt > 0 {
			classes = append(classes, "patch_applied")
		}
		for id, n := range st.excludedBy {
			rec.Class("pairs_excluded:"+id, n)
		}
		rec.Class("pairs", st.pairs)
		rec.Class("pairs_patch_applied", st.patched)
		rec.Class("pairs_patch_skipped_narrowing_or_pkchange", st.narrowSkipped+st.pkSkipped)
		rec.Evals(st.evals)
		rec.Excluded(st.excluded)
		nontrivial := st.added > 0 && st.removed > 0 && st.modified > 0 && st.schemaPairs > 0 && st.escaped > 0
		rec.Case(strings.Join(h.Ops, " ; "), nontrivial, classes...)
	})
}

func TestVerif_C32(t *testing.T) {
	rec := vh.NewRecorder("C32", "diff_and_patch", "exploration", c32Rule,
		"pairs in which a table's primary-key column set differs between the two commits (a table re-created with another key) are skipped for that table: dolt documents that it renders no row diff / data patch across a key change; the generator makes the key a function of the table name so this is rare",
		"a row present at both commits whose only difference lies in dropped columns or in a storage rewrite caused by a schema change may or may not be reported as modified (its values are checked when it is)",
		"dolt_diff_<t> is compared only for parent/child pairs on which the table has its current schema (dolt issue 11140 documents that the table assumes an unchanged schema), walking back from HEAD until the table is absent or may have arrived by a rename",
		"the patch round trip is skipped for pairs across a narrowing MODIFY COLUMN (BIGINT->INT, VARCHAR(60)->VARCHAR(40)): schema statements precede data statements by design, so `from` rows that `to` deleted may not fit; the generator never puts two indexes on the same column (dolt matches indexes by column list)",
		"a table that exists on one side only may be one half of a rename: dolt detects renames by shared column tags (the choice among several candidates follows Go map order), so for such names the row diff is accepted against any table that exists only on the other side, and is unspecified (not compared) when that partner has another primary key",
		"while a finding C32-* is listed open in known_findings.json exactly its pair shape is left out of the patch round trip (classes pairs_excluded:<id>, excluded_known); its pinned sub-test reports KNOWN-FINDING while it reproduces",
	)
	defer rec.Write(t)
	c32Run(t, rec, "pairs", 130, 220, hConfig{Types: hAllTypes, TablePool: []string{"t0", "from_t1", "To t2"}, ColPool: c32ColPool,
		MinCommits: 3, MaxCommits: 4, MaxEdits: 9, RowBoost: true, DDLBoost: 2, Indexes: true, StrPK: true, PKByName: true}, c32Opts{patch: true})
}
