package sqlhist

import (
	"testing"

	"github.com/dolthub/dolt/go/zzverif/vh"
	"github.com/dolthub/dolt/go/zzverif/vsql"
)

func TestProbe(t *testing.T) {
	dir, cleanup := vh.ScratchDir(t, "probe")
	defer cleanup()
	srv, err := vsql.StartServer(dir)
	if err != nil {
		vh.Inconclusive(t, "start: %v", err)
	}
	defer srv.Stop()
	admin := srv.Session(t, "admin", "")
	admin.MustExec(t, "CREATE DATABASE d1")
	a := srv.Session(t, "a", "d1")
	show := func(q string) string {
		r, err := a.Query(q)
		if err != nil {
			t.Logf("Q: %s\n   ERR(%d): %v", q, vsql.ErrCode(err), err)
			return ""
		}
		t.Logf("Q: %s\n   %q %q", q, r.Cols, r.Data)
		if len(r.Data) > 0 {
			return r.Data[0][0]
		}
		return ""
	}
	show("CREATE TABLE t (pk INT PRIMARY KEY, c0 INT, c1 INT, c2 VARCHAR(20))")
	show("INSERT INTO t VALUES (1,1,1,'a'),(2,2,2,'b'),(3,3,3,'c')")
	h0 := show("CALL dolt_commit('-Am','init')")
	show("CALL dolt_branch('other')")
	show("UPDATE t SET c0 = 10 WHERE pk = 1")
	h1 := show("CALL dolt_commit('-Am','m1')")
	show("UPDATE t SET c0 = 11 WHERE pk = 1")
	show("INSERT INTO t VALUES (4,4,4,'d')")
	h2 := show("CALL dolt_commit('-Am','m2')")
	show("DELETE FROM t WHERE pk = 2")
	h3 := show("CALL dolt_commit('-Am','m3')")
	_ = h0
	show("CALL dolt_checkout('other')")
	show("UPDATE t SET c1 = 20 WHERE pk = 1")
	o1 := show("CALL dolt_commit('-Am','o1')")
	show("UPDATE t SET c0 = 99 WHERE pk = 1")
	o2 := show("CALL dolt_commit('-Am','o2')")
	show("INSERT INTO t VALUES (5,5,5,'e')")
	o3 := show("CALL dolt_commit('-Am','o3')")
	show("UPDATE t SET c2 = 'zz' WHERE pk = 5")
	o4 := show("CALL dolt_commit('-Am','o4')")
	// clean cherry-pick
	show("CALL dolt_checkout('-b','cp1','" + h3 + "')")
	show("CALL dolt_cherry_pick('" + o1 + "')")
	show("SELECT * FROM t")
	// cherry-pick no-op (already applied)
	show("CALL dolt_cherry_pick('" + o1 + "')")
	// conflicting cherry-pick, autocommit on
	show("CALL dolt_cherry_pick('" + o2 + "')")
	show("SELECT * FROM dolt_conflicts")
	show("SET @@dolt_allow_commit_conflicts = 1")
	show("CALL dolt_cherry_pick('" + o2 + "')")
	show("SELECT * FROM dolt_conflicts")
	show("SELECT * FROM dolt_conflicts_t")
	show("SELECT * FROM t")
	show("CALL dolt_cherry_pick('--abort')")
	show("SELECT * FROM t")
	show("SELECT * FROM dolt_status")
	// cherry-pick o4 onto cp1: update of a missing row (delete/modify)
	show("CALL dolt_cherry_pick('" + o4 + "')")
	show("SELECT * FROM dolt_conflicts_t")
	show("CALL dolt_cherry_pick('--abort')")
	// revert
	show("CALL dolt_revert('" + h1 + "')")
	show("SELECT * FROM dolt_conflicts_t")
	show("SELECT * FROM dolt_status")
	show("CALL dolt_revert('--abort')")
	show("CALL dolt_merge('--abort')")
	show("SELECT * FROM t")
	show("CALL dolt_revert('" + h2 + "')")
	show("SELECT * FROM t")
	show("SELECT commit_hash, message FROM dolt_log LIMIT 3")
	show("CALL dolt_revert('HEAD')")
	show("SELECT * FROM t")
	// rebase
	show("CALL dolt_checkout('other')")
	show("CALL dolt_rebase('-i','" + h1 + "')")
	show("SELECT active_branch()")
	show("SELECT * FROM dolt_rebase")
	show("UPDATE dolt_rebase SET rebase_order = rebase_order + 100")
	show("UPDATE dolt_rebase SET rebase_order = 1, action='pick' WHERE commit_hash = '" + o3 + "'")
	show("UPDATE dolt_rebase SET rebase_order = 2, action='squash' WHERE commit_hash = '" + o4 + "'")
	show("UPDATE dolt_rebase SET rebase_order = 3, action='reword', commit_message='o1 reworded' WHERE commit_hash = '" + o1 + "'")
	show("UPDATE dolt_rebase SET rebase_order = 4, action='drop' WHERE commit_hash = '" + o2 + "'")
	show("SELECT * FROM dolt_rebase")
	show("CALL dolt_rebase('--continue')")
	show("SELECT active_branch()")
	show("SELECT commit_hash, message FROM dolt_log")
	show("SELECT * FROM t")
	// rebase with conflict
	show("CALL dolt_rebase('-i','" + h3 + "')")
	show("SELECT * FROM dolt_rebase")
	show("UPDATE dolt_rebase SET action='fixup' WHERE rebase_order = 1")
	show("CALL dolt_rebase('--continue')")
	show("CALL dolt_rebase('--abort')")
	show("SELECT active_branch()")
}
