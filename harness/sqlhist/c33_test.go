package sqlhist

// C33 — historical reads return the committed data.
//
// A generated history (tables created, dropped, renamed, re-created; columns added, dropped,
// renamed, widened; rows inserted/updated/deleted; branches and tags created, moved and
// switched along the way) is executed statement by statement while the harness records its
// own model of every table at every commit. Then every commit is read back through every
// addressing form and compared with the recorded model.

import (
	"fmt"
	"sort"
	"strings"
	"testing"

	"pgregory.net/rapid"

	"github.com/dolthub/dolt/go/zzverif/vh"
	"github.com/dolthub/dolt/go/zzverif/vsql"
)

const c33Rule = "rapid-generated histories of 2..6 commits (0..5 working-set operations each: CREATE/DROP/RENAME TABLE over a pool of 3 names with 1..3 key columns listed by PRIMARY KEY in a drawn order (often not the declaration order), ADD (FIRST/AFTER/last, with/without DEFAULT)/DROP/RENAME/MODIFY COLUMN over a pool of 5 column names, INSERT/UPDATE/DELETE over primary keys 0..5, value types INT,BIGINT,VARCHAR,VARBINARY,DECIMAL,DATE,DATETIME(6),JSON,TEXT with NULLs, quotes, backslashes, NUL bytes) with tags and branches created, moved, deleted/re-created and checked out between commits; the harness records a model of every table at every commit and afterwards (and for a drawn earlier commit after every commit) reads every commit x every table name of the pool through AS OF 'hash' / 'branch' / 'tag' / 'HEAD~n' / 'branch~n' / 'tag~n', `db/hash`.t, `db/branch`.t, USE `db/<hash|tag|branch>` + SELECT/SHOW TABLES, and dolt_history_<t> (filtered to the commit, projected, and unfiltered) and compares column names and the multiset of rows with the model; a table absent at the commit must give error 1146 (or no history rows). Every history ends with two branches that diverged by two commits each, and the forms are also composed: `db/<branch|tag|hash>`.t AS OF <HEAD | HEAD~n | HEAD^ | TIMESTAMP(commit date) | hash | branch | branch~1 | tag> read from a drawn session context (the writer on its branch, a reader on the default branch, a reader that USEs `db/<another branch>` or `db/<tag>`, a reader in another database), where HEAD and the timestamp walk are relative to the addressed revision database. Also AS OF 'hash' with an equality filter on the key and on integer columns indexed at the commit or at HEAD. Non-trivial: some commit other than the empty initial one differs from the writer's final HEAD in the presence of a table name or in that table's column list/types (so reading it with HEAD's schema or HEAD's table set would be wrong); distinct by the operation sequence."

type c33Stats struct {
	reads          int
	absent         int
	schemaDf       int
	crossBranchRel int // HEAD-relative / timestamp reads through `db/branch` from a session on another branch
	forms          map[string]int
}

type c33Checker struct {
	rt        *rapid.T
	h         *hHist
	r         *vsql.Session // reader session (separate connection, USE db)
	st        *c33Stats
	dirty     bool // the writer's working set has uncommitted changes
	nComposed int
}

func (c *c33Checker) fail(format string, a ...any) {
	c.rt.Helper()
	c.rt.Fatalf("%s\nops: %s", fmt.Sprintf(format, a...), strings.Join(c.h.Ops, " ; "))
}

// expect runs q on sess and compares with the model table (nil = the table is absent).
func (c *c33Checker) expect(sess *vsql.Session, form, q string, want *hTable, ci int) {
	c.rt.Helper()
	c.st.reads++
	c.st.forms[form]++
	rows, err := sess.Query(q)
	if want == nil {
		c.st.absent++
		if err == nil {
			c.fail("C33 %s: commit #%d: table is absent at that commit but the read succeeded: %s -> %v", form, ci, q, rows)
		}
		if vsql.ErrCode(err) != 1146 {
			c.fail("C33 %s: commit #%d: table is absent at that commit; want error 1146 (table not found), got: %s -> %v", form, ci, q, err)
		}
		return
	}
	if err != nil {
		c.fail("C33 %s: commit #%d: %s failed: %v (model has the table: %s)", form, ci, q, err, want.schemaString())
	}
	if !vsql.EqualStrings(rows.Cols, want.colNames()) {
		c.fail("C33 %s: commit #%d: %s: columns %q, model %q", form, ci, q, rows.Cols, want.colNames())
	}
	if got, exp := rows.Sorted(), want.sorted(); !vsql.EqualStrings(got, exp) {
		c.fail("C33 %s: commit #%d: %s:\n got   %s\n model %s", form, ci, q, hShowRows(got), hShowRows(exp))
	}
}

// historyRows is the model of dolt_history_<t> restricted to one commit: the rows the table
// held at that commit, projected onto the current (working) schema by column name; a current
// column missing at the commit, or present with a different type, reads as NULL.
func c33HistoryRows(cur, old *hTable) []string {
	if old == nil {
		return nil
	}
	m := make([]int, len(cur.Cols))
	for i, cc := range cur.Cols {
		m[i] = -1
		if j := old.colIndex(cc.Name); j >= 0 && old.Cols[j].Type == cc.Type {
			m[i] = j
		}
	}
	out := make([]string, 0, len(old.Rows))
	for _, r := range old.Rows {
		p := make([]string, len(cur.Cols))
		for i, j := range m {
			if j < 0 {
				p[i] = vsql.Null
			} else {
				p[i] = r[j]
			}
		}
		out = append(out, strings.Join(p, "\x1f"))
	}
	sort.Strings(out)
	return out
}

func c33Project(rows []string, idx []int) []string {
	out := make([]string, len(rows))
	for i, r := range rows {
		f := strings.Split(r, "\x1f")
		p := make([]string, len(idx))
		for k, j := range idx {
			p[k] = f[j]
		}
		out[i] = strings.Join(p, "\x1f")
	}
	sort.Strings(out)
	return out
}

func (c *c33Checker) history(name string, ci int) {
	h := c.h
	cur := h.Work[name]
	if cur == nil {
		return
	}
	cm := h.Commits[ci]
	want := c33HistoryRows(cur, cm.State[name])
	c.st.reads++
	c.st.forms["history"]++
	q := fmt.Sprintf("SELECT * FROM `dolt_history_%s` WHERE commit_hash = '%s'", name, cm.Hash)
	rows, err := h.w.Query(q)
	if err != nil {
		c.fail("C33 history: commit #%d: %s failed: %v", ci, q, err)
	}
	wantCols := append(cur.colNames(), "commit_hash", "committer", "commit_date")
	if !vsql.EqualStrings(rows.Cols, wantCols) {
		c.fail("C33 history: %s: columns %q, want %q", q, rows.Cols, wantCols)
	}
	n := len(cur.Cols)
	got := make([]string, 0, len(rows.Data))
	for _, r := range rows.Data {
		if r[n] != cm.Hash {
			c.fail("C33 history: %s returned a row of commit %s", q, r[n])
		}
		got = append(got, strings.Join(r[:n], "\x1f"))
	}
	sort.Strings(got)
	if !vsql.EqualStrings(got, want) {
		c.fail("C33 history: commit #%d (table at commit: %v; current: %s): %s:\n got   %s\n model %s", ci, c.schemaAt(ci, name), cur.schemaString(), q, hShowRows(got), hShowRows(want))
	}
	if cm.State[name] == nil {
		c.st.absent++
	}
	if n >= 2 {
		// projected and reordered: the columns in reverse order, commit_hash in the middle
		idx := make([]int, 0, n)
		var sel []string
		for i := n - 1; i >= 0; i-- {
			if i == n/2 {
				sel = append(sel, "commit_hash")
			}
			if i == 1 && n > 2 {
				continue // leave one column out
			}
			idx = append(idx, i)
			sel = append(sel, "`"+cur.Cols[i].Name+"`")
		}
		q := fmt.Sprintf("SELECT %s FROM `dolt_history_%s` WHERE commit_hash = '%s'", strings.Join(sel, ","), name, cm.Hash)
		c.st.reads++
		c.st.forms["history_projected"]++
		rows, err := h.w.Query(q)
		if err != nil {
			c.fail("C33 history: %s failed: %v", q, err)
		}
		hc := -1
		for i, cn := range rows.Cols {
			if cn == "commit_hash" {
				hc = i
			}
		}
		got := make([]string, 0, len(rows.Data))
		for _, r := range rows.Data {
			if r[hc] != cm.Hash {
				c.fail("C33 history: %s returned a row of commit %s", q, r[hc])
			}
			p := append(append([]string(nil), r[:hc]...), r[hc+1:]...)
			got = append(got, strings.Join(p, "\x1f"))
		}
		sort.Strings(got)
		if exp := c33Project(want, idx); !vsql.EqualStrings(got, exp) {
			c.fail("C33 history (projected): commit #%d (table at commit: %v; current: %s): %s:\n got   %s\n model %s", ci, c.schemaAt(ci, name), cur.schemaString(), q, hShowRows(got), hShowRows(exp))
		}
	}
}

// filtered reads the table AS OF the commit with an equality predicate on its first key
// column and on every integer column that carries a secondary index at the commit or in the
// writer's working set (so an index chosen from the wrong schema would show).
func (c *c33Checker) filtered(name string, ci int) {
	h := c.h
	want := h.Commits[ci].State[name]
	if want == nil {
		return
	}
	indexed := map[string]bool{}
	for _, col := range want.Idx {
		indexed[col] = true
	}
	if cur := h.Work[name]; cur != nil {
		for _, col := range cur.Idx {
			indexed[col] = true
		}
	}
	first := true
	for i, col := range want.Cols {
		if col.Kind != hkInt && col.Kind != hkBig {
			continue
		}
		if !(col.PK && first) && !indexed[col.Name] {
			continue
		}
		if col.PK {
			first = false
		}
		// the value of the smallest-keyed row that has one, else a constant
		val := "2"
		for _, k := range want.keys() {
			if v := want.Rows[k][i]; v != vsql.Null {
				val = v
				break
			}
		}
		sub := &hTable{Cols: want.Cols, Rows: map[string][]string{}}
		for k, r := range want.Rows {
			if r[i] == val {
				sub.Rows[k] = r
			}
		}
		form := "asof_filtered_pk"
		if !col.PK {
			form = "asof_filtered_indexed"
		}
		c.expect(c.r, form, fmt.Sprintf("SELECT * FROM `%s` AS OF '%s' WHERE `%s` = %s", name, h.Commits[ci].Hash, col.Name, val), sub, ci)
	}
}

func (c *c33Checker) schemaAt(ci int, name string) string {
	if t := c.h.Commits[ci].State[name]; t != nil {
		return t.schemaString()
	}
	return "<absent>"
}

// historyAll reads dolt_history_<t> unfiltered: exactly the rows of every ancestor commit of
// the writer's HEAD, nothing from any other commit.
func (c *c33Checker) historyAll(name string) {
	h := c.h
	cur := h.Work[name]
	if cur == nil {
		return
	}
	c.st.reads++
	c.st.forms["history_all"]++
	q := fmt.Sprintf("SELECT * FROM `dolt_history_%s`", name)
	rows, err := h.w.Query(q)
	if err != nil {
		c.fail("C33 history: %s failed: %v", q, err)
	}
	n := len(cur.Cols)
	by := map[string][]string{}
	for _, r := range rows.Data {
		by[r[n]] = append(by[r[n]], strings.Join(r[:n], "\x1f"))
	}
	for _, ci := range h.ancestors(h.head()) {
		cm := h.Commits[ci]
		got := by[cm.Hash]
		sort.Strings(got)
		delete(by, cm.Hash)
		if want := c33HistoryRows(cur, cm.State[name]); !vsql.EqualStrings(got, want) {
			c.fail("C33 history (unfiltered): commit #%d (table at commit: %v; current: %s): %s:\n got   %s\n model %s", ci, c.schemaAt(ci, name), cur.schemaString(), q, hShowRows(got), hShowRows(want))
		}
	}
	for hash := range by {
		c.fail("C33 history (unfiltered): %s returned rows of commit %s, which is not an ancestor of the session's HEAD", q, hash)
	}
}

func sortedKeysOf(m map[string]int) []string {
	out := make([]string, 0, len(m))
	for k := range m {
		out = append(out, k)
	}
	sort.Strings(out)
	return out
}

// verifyCommit reads commit ci through every addressing form that names it. full=false
// restricts to the forms that go through a movable name (branch, tag, HEAD~n).
func (c *c33Checker) verifyCommit(ci int, full bool) {
	h := c.h
	cm := h.Commits[ci]
	var branches, tags []string
	for _, b := range sortedKeysOf(h.Branch) {
		if h.Branch[b] == ci {
			branches = append(branches, b)
		}
	}
	for _, tg := range sortedKeysOf(h.Tag) {
		if h.Tag[tg] == ci {
			tags = append(tags, tg)
		}
	}
	// relative specs: name~k for every ref that has ci as k-th first-parent ancestor
	var rel []string
	depth := func(from int) int {
		for k, a := range h.ancestors(from) {
			if a == ci {
				return k
			}
		}
		return -1
	}
	if k := depth(h.head()); k >= 0 {
		rel = append(rel, fmt.Sprintf("HEAD~%d", k))
		if k == 1 {
			rel = append(rel, "HEAD^")
		}
	}
	for _, b := range sortedKeysOf(h.Branch) {
		if k := depth(h.Branch[b]); k > 0 {
			rel = append(rel, fmt.Sprintf("%s~%d", b, k))
		}
	}
	for _, tg := range sortedKeysOf(h.Tag) {
		if k := depth(h.Tag[tg]); k > 0 {
			rel = append(rel, fmt.Sprintf("%s~%d", tg, k))
		}
	}
	inHeadHistory := depth(h.head()) >= 0
	for _, name := range h.cfg.TablePool {
		want := cm.State[name]
		if full {
			c.expect(c.r, "asof_hash", fmt.Sprintf("SELECT * FROM `%s` AS OF '%s'", name, cm.Hash), want, ci)
			c.expect(h.w, "db/hash", fmt.Sprintf("SELECT * FROM `%s/%s`.`%s`", h.db, cm.Hash, name), want, ci)
			c.filtered(name, ci)
		}
		for _, b := range branches {
			c.expect(c.r, "asof_branch", fmt.Sprintf("SELECT * FROM `%s` AS OF '%s'", name, b), want, ci)
			if !(c.dirty && b == h.Cur) { // `db/branch` is the branch's working set: only compared while it is clean
				c.expect(c.r, "db/branch", fmt.Sprintf("SELECT * FROM `%s/%s`.`%s`", h.db, b, name), want, ci)
			}
		}
		for _, tg := range tags {
			c.expect(h.w, "asof_tag", fmt.Sprintf("SELECT * FROM `%s` AS OF '%s'", name, tg), want, ci)
			if full {
				c.expect(c.r, "db/tag", fmt.Sprintf("SELECT * FROM `%s/%s`.`%s`", h.db, tg, name), want, ci)
			}
		}
		for _, spec := range rel {
			form := "asof_ref~n"
			if strings.HasPrefix(spec, "HEAD") {
				form = "asof_HEAD~n"
			}
			c.expect(h.w, form, fmt.Sprintf("SELECT * FROM `%s` AS OF '%s'", name, spec), want, ci)
		}
		if full && inHeadHistory {
			c.history(name, ci)
		}
		if want != nil {
			if cur := h.Commits[h.head()].State[name]; cur == nil || cur.schemaString() != want.schemaString() {
				c.st.schemaDf++
			}
		}
	}
	if !full {
		return
	}
	// USE `db/<rev>`: hash always, plus every tag and (clean) branch naming the commit
	revs := []string{cm.Hash}
	revs = append(revs, tags...)
	for _, b := range branches {
		if !(c.dirty && b == h.Cur) {
			revs = append(revs, b)
		}
	}
	for i, rev := range revs {
		form := "use_hash"
		if i > 0 && i <= len(tags) {
			form = "use_tag"
		} else if i > len(tags) {
			form = "use_branch"
		}
		if err := c.r.Exec(fmt.Sprintf("USE `%s/%s`", h.db, rev)); err != nil {
			c.fail("C33 %s: USE `%s/%s`: %v", form, h.db, rev, err)
		}
		st, err := c.r.Query("SHOW TABLES")
		if err != nil {
			c.fail("C33 %s: SHOW TABLES in `%s/%s`: %v", form, h.db, rev, err)
		}
		var got []string
		for _, r := range st.Data {
			got = append(got, r[0])
		}
		sort.Strings(got)
		if want := cm.State.names(); !vsql.EqualStrings(got, want) {
			c.fail("C33 %s: commit #%d: SHOW TABLES in `%s/%s` = %q, model %q", form, ci, h.db, rev, got, want)
		}
		for _, name := range h.cfg.TablePool {
			c.expect(c.r, form, fmt.Sprintf("SELECT * FROM `%s`", name), cm.State[name], ci)
		}
		c.r.MustExec(c.rt, "USE `"+h.db+"`")
	}
}

// composed reads tables through compositions of the addressing forms: a revision database name
// (`db/branch`, `db/tag`, `db/hash`) x an AS OF spec on top of it (HEAD, HEAD~n, HEAD^, a timestamp,
// and the absolute specs hash / branch / branch~n / tag) x the session's context (the writer on its
// checked-out branch, a reader on the default branch, a reader that USEs `db/<another branch>` or
// `db/<tag>`, a reader in another database). What HEAD (and a timestamp) means is relative to
// the addressed revision database: the head of that branch, or the tagged / named commit; the
// session's own branch must not matter. Absolute specs name their commit whatever the revision
// database and the context are.
func (c *c33Checker) composed(tag string) {
	h, rt := c.h, c.rt
	type rev struct {
		name, kind string
		head       int
	}
	var revs []rev
	branches := sortedKeysOf(h.Branch)
	for _, b := range branches {
		revs = append(revs, rev{b, "branch", h.Branch[b]})
	}
	tags := sortedKeysOf(h.Tag)
	if len(tags) > 0 {
		tg := rapid.SampledFrom(tags).Draw(rt, tag+".revtag")
		revs = append(revs, rev{tg, "tag", h.Tag[tg]})
	}
	ch := rapid.IntRange(0, len(h.Commits)-1).Draw(rt, tag+".revhash")
	revs = append(revs, rev{h.Commits[ch].Hash, "hash", ch})
	type ctxT struct{ name, use string }
	ctxs := []ctxT{{"writer", ""}, {"reader_default_branch", h.db}, {"reader_other_database", "information_schema"}}
	for _, b := range branches {
		ctxs = append(ctxs, ctxT{"reader_use_branch", h.db + "/" + b})
	}
	if len(tags) > 0 {
		ctxs = append(ctxs, ctxT{"reader_use_tag", h.db + "/" + tags[0]})
	}
	for ri, rv := range revs {
		l := fmt.Sprintf("%s.r%d", tag, ri)
		cx := rapid.SampledFrom(ctxs).Draw(rt, l+".ctx")
		sess := c.r
		if cx.use == "" {
			sess = h.w
		} else if err := c.r.Exec("USE `" + cx.use + "`"); err != nil {
			c.fail("C33 composed: USE `%s`: %v", cx.use, err)
		}
		anc := h.ancestors(rv.head)
		type spec struct {
			text   string // the AS OF operand, already quoted / wrapped
			kind   string
			target int
		}
		var specs []spec
		// HEAD-relative specs and timestamps only on branch revision databases: for a tag / commit
		// revision database dolt resolves HEAD against a branch head (observed: the default branch),
		// not against the named commit, and documents neither reading
		if rv.kind == "branch" {
			specs = append(specs, spec{"'HEAD'", "HEAD", rv.head})
			for k := 1; k <= 3 && k < len(anc); k++ {
				specs = append(specs, spec{fmt.Sprintf("'HEAD~%d'", k), "HEAD~n", anc[k]})
			}
			if len(anc) > 1 {
				specs = append(specs, spec{"'HEAD^'", "HEAD^", anc[1]})
			}
		}
		for k := 0; k < 3 && k < len(anc) && rv.kind == "branch"; k++ { // (a tag / commit revision database has no branch head to walk from)
			if anc[k] >= 1 { // the initial commit carries the wall-clock date of CREATE DATABASE
				specs = append(specs, spec{"TIMESTAMP('" + hCommitDate(anc[k]) + "')", "timestamp", anc[k]})
			}
		}
		// absolute specs: they name their commit whatever the revision database is
		ac := rapid.IntRange(0, len(h.Commits)-1).Draw(rt, l+".abshash")
		specs = append(specs, spec{"'" + h.Commits[ac].Hash + "'", "hash", ac})
		ob := rapid.SampledFrom(branches).Draw(rt, l+".absbranch")
		specs = append(specs, spec{"'" + ob + "'", "branch", h.Branch[ob]})
		if oa := h.ancestors(h.Branch[ob]); len(oa) > 1 {
			specs = append(specs, spec{"'" + ob + "~1'", "branch~n", oa[1]})
		}
		if len(tags) > 0 {
			ot := rapid.SampledFrom(tags).Draw(rt, l+".abstag")
			specs = append(specs, spec{"'" + ot + "'", "tag", h.Tag[ot]})
		}
		for si, sp := range specs {
			name := rapid.SampledFrom(h.cfg.TablePool).Draw(rt, fmt.Sprintf("%s.s%d.table", l, si))
			tbl := fmt.Sprintf("`%s/%s`.`%s`", h.db, rv.name, name)
			if cx.use == h.db+"/"+rv.name && si%2 == 0 {
				tbl = "`" + name + "`" // the revision database is the one in use
			}
			form := fmt.Sprintf("composed:db/%s+asof_%s", rv.kind, sp.kind)
			c.st.forms["composed_from:"+cx.name]++
			c.expect(sess, form, fmt.Sprintf("SELECT * FROM %s AS OF %s", tbl, sp.text), h.Commits[sp.target].State[name], sp.target)
			if (sp.kind == "HEAD" || sp.kind == "HEAD~n" || sp.kind == "HEAD^" || sp.kind == "timestamp") && rv.kind == "branch" {
				// does the answer differ from what the session's own branch would give?
				own := -1
				switch {
				case cx.use == "":
					own = h.head()
				case cx.use == h.db:
					own = h.Branch["main"]
				case strings.HasPrefix(cx.use, h.db+"/"):
					if b, ok := h.Branch[strings.TrimPrefix(cx.use, h.db+"/")]; ok {
						own = b
					}
				}
				if own >= 0 && own != rv.head {
					c.st.crossBranchRel++
				}
			}
		}
		if cx.use != "" {
			c.r.MustExec(rt, "USE `"+h.db+"`")
		}
	}
}

func (c *c33Checker) verifyAll() {
	for ci := range c.h.Commits {
		c.verifyCommit(ci, true)
	}
	c.composed(fmt.Sprintf("composed%d", c.nComposed))
	c.nComposed++
	for _, name := range c.h.cfg.TablePool {
		c.historyAll(name)
	}
}

func TestVerif_C33(t *testing.T) {
	rec := vh.NewRecorder("C33", "historical_reads", "exploration", c33Rule,
		"`db/branch`.t and USE `db/branch` read the branch's working set (documented); they are compared with the branch head only while that working set is clean",
		"dolt_history_<t> is read from a session whose HEAD has the commit as a first-parent ancestor; its model is the documented one: rows of the commit projected on the table's current schema by column name, a column absent at the commit or of a different type reads NULL",
		"histories are trees (no merge commits), so HEAD~n is unambiguous",
		"value rendering (wire strings of DECIMAL, DATETIME(6), canonical JSON text) is the one observed for these types and is the same for current and historical reads",
	)
	defer rec.Write(t)
	dir, cleanup := vh.ScratchDir(t, "c33")
	defer cleanup()
	srv, err := vsql.StartServer(dir)
	if err != nil {
		vh.Inconclusive(t, "start server: %v", err)
	}
	defer srv.Stop()
	admin := srv.Session(t, "admin", "")
	defer admin.Close()
	vh.Check(t, "history", 150, 260, func(rt *rapid.T) {
		db := srv.NewDBName()
		admin.MustExec(rt, "CREATE DATABASE "+db)
		defer admin.Exec("DROP DATABASE " + db)
		w := srv.Session(rt, "w", db)
		defer w.Close()
		r := srv.Session(rt, "r", db)
		defer r.Close()
		maxCommits := 5
		if vh.Thorough() {
			maxCommits = 7
		}
		h := newHist(rt, srv, db, w, hConfig{Types: hAllTypes, TablePool: []string{"t0", "t1", "t2"}, ColPool: []string{"c0", "c1", "c2", "c3", "c4"},
			MaxCommits: maxCommits, MaxEdits: 5, Branches: true, Indexes: true, ColPositions: true, StrPK: true, DDLBoost: 2, Diverge: true})
		st := &c33Stats{forms: map[string]int{}}
		chk := &c33Checker{rt: rt, h: h, r: r, st: st}
		h.AfterCommit = func(h *hHist, ci int) {
			// re-read one earlier commit through the movable names, and the new one fully
			prev := rapid.IntRange(0, len(h.Commits)-1).Draw(rt, fmt.Sprintf("after%d.recheck", ci))
			chk.verifyCommit(prev, false)
			if rapid.IntRange(0, 2).Draw(rt, fmt.Sprintf("after%d.full", ci)) == 0 {
				chk.verifyCommit(ci, true)
			}
		}
		h.build()
		chk.verifyAll()
		// a dirty working set must not change any historical read
		nd := rapid.IntRange(0, 3).Draw(rt, "dirty.nedits")
		if nd > 0 {
			for i := 0; i < nd; i++ {
				h.edit()
			}
			h.op("(uncommitted)")
			chk.dirty = true
			chk.verifyAll()
		}
		// non-trivial rule
		// (commit 0, the empty initial commit, does not count)
		final := h.Commits[h.head()].State
		nontrivial := false
		for _, cm := range h.Commits[1:] {
			for _, name := range h.cfg.TablePool {
				ot, ft := cm.State[name], final[name]
				if (ot == nil) != (ft == nil) || (ot != nil && ot.schemaString() != ft.schemaString()) {
					nontrivial = true
				}
			}
		}
		classes := h.classes()
		if nd > 0 {
			classes = append(classes, "dirty_working_set")
		}
		if len(h.Branch) > 1 {
			classes = append(classes, "multi_branch")
		}
		for f := range st.forms {
			classes = append(classes, "form:"+f)
		}
		if st.crossBranchRel > 0 {
			classes = append(classes, "composed_HEAD_relative_through_another_branch_than_the_session's")
		}
		sort.Strings(classes)
		rec.Evals(st.reads)
		rec.Case(strings.Join(h.Ops, " ; "), nontrivial, classes...)
	})
}
