package sqlgc

// Shared helpers of the sqlgc engine: in-process access to a database's chunk store through
// srv.Engine, the physical closure check, directory sizes.

import (
	"context"
	"fmt"
	"os"
	"path/filepath"
	"sort"

	"github.com/dolthub/dolt/go/libraries/doltcore/doltdb"
	"github.com/dolthub/dolt/go/libraries/doltcore/sqle/dsess"
	"github.com/dolthub/dolt/go/store/chunks"
	"github.com/dolthub/dolt/go/store/datas"
	"github.com/dolthub/dolt/go/store/hash"
	"github.com/dolthub/dolt/go/store/types"
	"github.com/dolthub/dolt/go/zzverif/vsql"
)

// gcDoltDB returns the *doltdb.DoltDB the server uses for database db.
func gcDoltDB(srv *vsql.Server, db string) (*doltdb.DoltDB, context.Context, error) {
	if srv.Engine == nil {
		return nil, nil, fmt.Errorf("no engine handle")
	}
	sqlCtx, err := srv.Engine.NewLocalContext(context.Background())
	if err != nil {
		return nil, nil, err
	}
	sess := dsess.DSessFromSess(sqlCtx.Session)
	sdb, ok := sess.Provider().BaseDatabase(sqlCtx, db)
	if !ok {
		return nil, nil, fmt.Errorf("database %s not found in provider", db)
	}
	ddb := sdb.DbData().Ddb
	if ddb == nil {
		return nil, nil, fmt.Errorf("database %s has no DoltDB", db)
	}
	return ddb, sqlCtx, nil
}

// gcHeads lists the datasets (id -> head address) of a DoltDB.
func gcHeads(ctx context.Context, ddb *doltdb.DoltDB) (map[string]hash.Hash, error) {
	dsdb := doltdb.ExposeDatabaseFromDoltDB(ddb)
	dss, err := dsdb.Datasets(ctx)
	if err != nil {
		return nil, err
	}
	heads := map[string]hash.Hash{}
	err = dss.IterAll(ctx, func(id string, addr hash.Hash) error {
		heads[id] = addr
		return nil
	})
	return heads, err
}

// gcClosureDDB walks from every dataset head of ddb with the storage layer's own address
// walker and requires every address to be present in the chunk store. It returns the number
// of chunks visited and a description of every missing address ("<dataset>: <addr> (referenced
// from <parent>)").
func gcClosureDDB(ctx context.Context, ddb *doltdb.DoltDB) (int, []string, error) {
	heads, err := gcHeads(ctx, ddb)
	if err != nil {
		return 0, nil, err
	}
	cs := datas.ChunkStoreFromDatabase(doltdb.ExposeDatabaseFromDoltDB(ddb))
	return gcClosureCS(ctx, cs, heads)
}

func gcClosureCS(ctx context.Context, cs chunks.ChunkStore, heads map[string]hash.Hash) (int, []string, error) {
	nbf, err := types.GetFormatForVersionString(cs.Version())
	if err != nil {
		return 0, nil, err
	}
	ids := make([]string, 0, len(heads))
	for id := range heads {
		ids = append(ids, id)
	}
	sort.Strings(ids)
	seen := hash.HashSet{}
	var missing []string
	type item struct {
		h    hash.Hash
		from string
	}
	for _, id := range ids {
		stack := []item{{heads[id], "dataset " + id}}
		for len(stack) > 0 {
			it := stack[len(stack)-1]
			stack = stack[:len(stack)-1]
			if seen.Has(it.h) {
				continue
			}
			seen.Insert(it.h)
			c, err := cs.Get(ctx, it.h)
			if err != nil {
				return len(seen), missing, fmt.Errorf("get %s (from %s): %w", it.h, it.from, err)
			}
			if c.IsEmpty() {
				missing = append(missing, fmt.Sprintf("%s: %s missing (referenced from %s)", id, it.h, it.from))
				continue
			}
			err = types.WalkAddrsFromNomsValue(c, nbf, func(a hash.Hash) error {
				if !seen.Has(a) {
					stack = append(stack, item{a, it.h.String()})
				}
				return nil
			})
			if err != nil {
				return len(seen), missing, fmt.Errorf("walk %s: %w", it.h, err)
			}
		}
	}
	return len(seen), missing, nil
}

// gcClosure is gcClosureDDB for a database of a running server.
func gcClosure(srv *vsql.Server, db string) (int, []string, error) {
	ddb, ctx, err := gcDoltDB(srv, db)
	if err != nil {
		return 0, nil, err
	}
	return gcClosureDDB(ctx, ddb)
}

// gcDirSize sums the sizes of all regular files under dir.
func gcDirSize(dir string) int64 {
	var n int64
	_ = filepath.Walk(dir, func(p string, fi os.FileInfo, err error) error {
		if err == nil && fi != nil && !fi.IsDir() {
			n += fi.Size()
		}
		return nil
	})
	return n
}
