package sqlgc

// Shared helpers of the sqlgc engine: in-process access to a database's chunk store through
// srv.Engine, the physical closure check, directory sizes.

import (
	"context"
	"fmt"
	"os"
	"path/filepath"
	"sort"
	"strings"

	"pgregory.net/rapid"

	"github.com/dolthub/dolt/go/libraries/doltcore/doltdb"
	"github.com/dolthub/dolt/go/libraries/doltcore/sqle/dsess"
	"github.com/dolthub/dolt/go/store/chunks"
	"github.com/dolthub/dolt/go/store/datas"
	"github.com/dolthub/dolt/go/store/hash"
	"github.com/dolthub/dolt/go/store/types"
	"github.com/dolthub/dolt/go/zzverif/vsql"
)

// gcDoltDB returns the *doltdb.DoltDB the server uses for database db.
func gcDoltDB(srv *vsql.Server, db string) (*doltdb.DoltDB, context.Context, error) {
	if srv.Engine == nil {
		return nil, nil, fmt.Errorf("no engine handle")
	}
	sqlCtx, err := srv.Engine.NewLocalContext(context.Background())
	if err != nil {
		return nil, nil, err
	}
	sess := dsess.DSessFromSess(sqlCtx.Session)
	sdb, ok := sess.Provider().BaseDatabase(sqlCtx, db)
	if !ok {
		return nil, nil, fmt.Errorf("database %s not found in provider", db)
	}
	ddb := sdb.DbData().Ddb
	if ddb == nil {
		return nil, nil, fmt.Errorf("database %s has no DoltDB", db)
	}
	return ddb, sqlCtx, nil
}

// gcHeads lists the datasets (id -> head address) of a DoltDB.
func gcHeads(ctx context.Context, ddb *doltdb.DoltDB) (map[string]hash.Hash, error) {
	dsdb := doltdb.ExposeDatabaseFromDoltDB(ddb)
	dss, err := dsdb.Datasets(ctx)
	if err != nil {
		return nil, err
	}
	heads := map[string]hash.Hash{}
	err = dss.IterAll(ctx, func(id string, addr hash.Hash) error {
		heads[id] = addr
		return nil
	})
	return heads, err
}

// gcClosureDDB walks from every dataset head of ddb with the storage layer's own address
// walker and requires every address to be present in the chunk store. It returns the number
// of chunks visited and a description of every missing address ("<dataset>: <addr> (referenced
// from <parent>)").
func gcClosureDDB(ctx context.Context, ddb *doltdb.DoltDB) (int, []string, error) {
	heads, err := gcHeads(ctx, ddb)
	if err != nil {
		return 0, nil, err
	}
	cs := datas.ChunkStoreFromDatabase(doltdb.ExposeDatabaseFromDoltDB(ddb))
	return gcClosureCS(ctx, cs, heads)
}

func gcClosureCS(ctx context.Context, cs chunks.ChunkStore, heads map[string]hash.Hash) (int, []string, error) {
	nbf, err := types.GetFormatForVersionString(cs.Version())
	if err != nil {
		return 0, nil, err
	}
	ids := make([]string, 0, len(heads))
	for id := range heads {
		ids = append(ids, id)
	}
	sort.Strings(ids)
	seen := hash.HashSet{}
	var missing []string
	type item struct {
		h    hash.Hash
		from string
	}
	for _, id := range ids {
		stack := []item{{heads[id], "dataset " + id}}
		for len(stack) > 0 {
			it := stack[len(stack)-1]
			stack = stack[:len(stack)-1]
			if seen.Has(it.h) {
				continue
			}
			seen.Insert(it.h)
			c, err := cs.Get(ctx, it.h)
			if err != nil {
				return len(seen), missing, fmt.Errorf("get %s (from %s): %w", it.h, it.from, err)
			}
			if c.IsEmpty() {
				missing = append(missing, fmt.Sprintf("%s: %s missing (referenced from %s)", id, it.h, it.from))
				continue
			}
			err = types.WalkAddrsFromNomsValue(c, nbf, func(a hash.Hash) error {
				if !seen.Has(a) {
					stack = append(stack, item{a, it.h.String()})
				}
				return nil
			})
			if err != nil {
				return len(seen), missing, fmt.Errorf("walk %s: %w", it.h, err)
			}
		}
	}
	return len(seen), missing, nil
}

// gcClosure is gcClosureDDB for a database of a running server.
func gcClosure(srv *vsql.Server, db string) (int, []string, error) {
	ddb, ctx, err := gcDoltDB(srv, db)
	if err != nil {
		return 0, nil, err
	}
	return gcClosureDDB(ctx, ddb)
}

// gcDirSize sums the sizes of all regular files under dir.
func gcDirSize(dir string) int64 {
	var n int64
	_ = filepath.Walk(dir, func(p string, fi os.FileInfo, err error) error {
		if err == nil && fi != nil && !fi.IsDir() {
			n += fi.Size()
		}
		return nil
	})
	return n
}

// ---------------------------------------------------------------------------------------
// wide values: TEXT / BLOB / JSON cells around the size at which dolt moves a value out of the row
// (adaptive encoding: val.DefaultTupleLengthTarget = 2048 bytes per tuple) and large enough to be
// stored as a multi-chunk tree behind an address.

const gcBigTableDDL = "CREATE TABLE big (pk INT PRIMARY KEY, who VARCHAR(12), doc TEXT, bin BLOB, js JSON)"

// gcBigString returns a deterministic, non-repeating string of n hex characters that is unique per uniq.
func gcBigString(uniq, n int) string {
	var b strings.Builder
	b.Grow(n + 16)
	h := uint64(uniq)*0x9e3779b97f4a7c15 + 0x1234567
	for b.Len() < n {
		h = h*6364136223846793005 + 1442695040888963407
		fmt.Fprintf(&b, "%016x", h)
	}
	return b.String()[:n]
}

// gcBigSize draws a value size class: inline, around the inline/out-of-line threshold, out of line
// (one chunk), out of line as a multi-chunk tree.
func gcBigSize(rt *rapid.T, label string) (int, string) {
	switch rapid.SampledFrom([]string{"out_of_line", "out_of_line", "multi_chunk", "near_threshold", "inline"}).Draw(rt, label+"_size_class") {
	case "inline":
		return rapid.IntRange(1, 300).Draw(rt, label+"_size"), "inline"
	case "near_threshold":
		return rapid.IntRange(1980, 2110).Draw(rt, label+"_size"), "near_threshold"
	case "multi_chunk":
		return rapid.IntRange(12000, 24000).Draw(rt, label+"_size"), "multi_chunk"
	default:
		return rapid.IntRange(2500, 7000).Draw(rt, label+"_size"), "out_of_line"
	}
}

// gcBigRow draws the values of one row of table big (doc always set; bin and js each in half of the rows)
// and returns the VALUES tuple text and the size classes used.
func gcBigRow(rt *rapid.T, label string, pk int, who string) (string, []string) {
	n, cl := gcBigSize(rt, label+"_doc")
	classes := []string{"doc:" + cl}
	doc := "'" + gcBigString(pk*4+1, n) + "'"
	bin, js := "NULL", "NULL"
	if rapid.Bool().Draw(rt, label+"_bin") {
		n, cl := gcBigSize(rt, label+"_bin")
		bin = "'" + gcBigString(pk*4+2, n) + "'"
		classes = append(classes, "bin:"+cl)
	}
	if rapid.Bool().Draw(rt, label+"_js") {
		n, cl := gcBigSize(rt, label+"_js")
		js = fmt.Sprintf("JSON_OBJECT('n', %d, 'k', '%s')", pk, gcBigString(pk*4+3, n))
		classes = append(classes, "js:"+cl)
	}
	return fmt.Sprintf("(%d, '%s', %s, %s, %s)", pk, who, doc, bin, js), classes
}

// ---------------------------------------------------------------------------------------
// database names: dolt treats database names case-insensitively, the directory on disk keeps the created
// spelling. Cases draw how the name is created (lower / Mixed / UPPER) and how each session spells it.

// gcDrawDBName returns the created spelling of a fresh database name.
func gcDrawDBName(rt *rapid.T, srv *vsql.Server, label string) string {
	base := srv.NewDBName() // c<N>
	switch rapid.SampledFrom([]string{"lower", "Mixed", "UPPER"}).Draw(rt, label+"_name_case") {
	case "Mixed":
		return "Db" + strings.ToUpper(base[:1]) + base[1:] + "x"
	case "UPPER":
		return "UP" + strings.ToUpper(base)
	}
	return base
}

// gcSpell returns name as one session spells it: as created, lower-cased or upper-cased.
func gcSpell(rt *rapid.T, label, name string) string {
	switch rapid.SampledFrom([]string{"created", "lower", "upper"}).Draw(rt, label+"_spelling") {
	case "lower":
		return strings.ToLower(name)
	case "upper":
		return strings.ToUpper(name)
	}
	return name
}

func gcNameCase(name string) string {
	switch {
	case name == strings.ToLower(name):
		return "db_name=lower"
	case name == strings.ToUpper(name):
		return "db_name=UPPER"
	}
	return "db_name=Mixed"
}
