package sqlgc

// C08 — garbage collection keeps everything that is still reachable.
//
// A generated SQL history leaves a fresh database in a rich state (branches, tags, a
// remote-tracking ref, dirty staged/working sets, stashes, in-progress conflicted merge /
// cherry-pick / revert, an interactive rebase stopped at a conflict, deleted branches), other
// sessions hold open transactions with uncommitted writes, then CALL dolt_gc(...) runs.
// Oracle: logical fingerprint before == after, physical closure from every dataset head,
// the other sessions' rows are present after they commit, a second GC changes nothing, and
// the in-progress operations can still be aborted (restoring the recorded pre-operation
// working set) or resolved and finished.

import (
	"context"
	"fmt"
	"path/filepath"
	"sort"
	"strings"
	"testing"

	"pgregory.net/rapid"

	"github.com/dolthub/dolt/go/libraries/doltcore/doltdb"
	"github.com/dolthub/dolt/go/store/datas"
	"github.com/dolthub/dolt/go/store/hash"
	"github.com/dolthub/dolt/go/zzverif/vh"
	"github.com/dolthub/dolt/go/zzverif/vsql"
)

const c08Rule = "one server, one fresh database per case whose name is created in a drawn case (lower / Mixed / UPPER) and spelled by every session (builder, writers, GC caller, finishing sessions: USE db, USE db/branch) in its own drawn case (as created / lower / upper). Builder session (autocommit, @@dolt_allow_commit_conflicts=1): tables t(pk,c1,c2), u(pk,v), d(pk,n) with 3-6 rows and big(pk, who, doc TEXT, bin BLOB, js JSON) whose cells are drawn from the size classes inline (1-300 bytes), around the 2048-byte inline/out-of-line threshold, out of line (2.5-7 KB) and multi-chunk (12-24 KB): 2 rows at the start, one more in the second commit of 2 of 3 side branches, optionally in a stash, staged and working-only on main, and one written by a writer session before the GC (+ optionally 150/400 bulk rows so trees have two levels), commit; a drawn subset of features: file remote `origin` (push main, later fetch so remotes/origin/main lags; optionally a branch pushed and then deleted locally so only the remote-tracking ref holds it), tags (one optionally on the head of a branch that is deleted afterwards), in 3 of 4 cases an early collection in the middle of the history (dolt_gc() or dolt_gc('--full'), so later garbage and older data sit in the old generation) followed in 4 of 5 of those by a demotion of data that was committed on branch `keep` before it (tag + reset --hard HEAD~1, reset --soft HEAD~1, or reset --soft + stash: afterwards only a tag, a working set or a stash reaches that data), the collection under test then being --full in half of these cases (orders default→full, full→default, full→full, default→default all occur, and the second GC after the writers is --full in half of all cases), a deleted branch with two unique commits, in-progress conflicted dolt_merge (optionally over an uncommitted change to a table main did not touch), dolt_cherry_pick, dolt_revert, interactive dolt_rebase stopped at a conflict (plan optionally edited: squash / reword / drop), 1-2 stashes, staged != working on main, an untracked table. Then 0-3 writer sessions (each on its own branch, incl. conflicted ones) open a transaction and insert 1-2 fresh rows; the GC statement (mode default | --full | --shallow, archive level unset | 0 | 1) runs from a fresh session (the builder session still connected, or disconnected first), from the builder session, or from a session that itself has an open transaction with a pending insert; the writers run 0-2 more inserts and finish with COMMIT or dolt_commit('-am'). Oracle: vsql.Fingerprint (+ the dolt_rebase plan) before GC == after GC; closure walk (types.WalkAddrsFromNomsValue from every dataset head over the server's chunk store) finds every address, after GC, after the writers committed and after a second GC (mode drawn again); after the writers finish every fingerprint line of a branch nobody wrote is unchanged and the written branches contain exactly the old rows plus the written ones; second GC leaves the fingerprint unchanged; finally every in-progress operation is either aborted (working and staged tables of that branch must equal the snapshot taken before the operation started, when no writer touched the branch), or resolved and committed/continued (must succeed), and the final fingerprint has no unreadable part. Non-trivial (DESIGN): at least 3 of {stash, in-progress merge/cherry-pick/revert, in-progress rebase, staged != working, tag, remote ref} and garbage was really collected (the .dolt directory shrank or the deleted branch's head commit is no longer in the store); distinct by feature set + modes + writer plan."

var c08Assumptions = []string{
	"online GC uses the session-aware safepoint controller (the default): connections stay usable after dolt_gc, so sessions do not reconnect",
	"writers insert rows with fresh primary keys only and each writes its own branch, so that the transaction-commit merge (property C23) is not part of this oracle",
	"abort-restores-snapshot is only asserted for branches no writer touched after the operation started; statistics refs are not generated",
	"the closure walk trusts types.WalkAddrsFromNomsValue (property C09 checks the walker itself)",
}

type c08Op struct {
	kind   string // merge | cherry | revert | rebase
	branch string
	wsName string              // working set that carries the state (dolt_rebase_<b> for rebase)
	snap   map[string][]string // pre-operation snapshot of the branch's working set
	plan   string              // rebase plan edit
	dirtyU bool
}

type c08Writer struct {
	name    string
	branch  string
	se      *vsql.Session
	pre     int
	post    int
	finish  string // commit | dolt_commit
	pks     []int
	basePK  int
	started bool
}

type c08Case struct {
	rt    *rapid.T
	srv   *vsql.Server
	db    string
	a     *vsql.Session
	log   []string
	feats []string
	ops   []*c08Op
}

func (c *c08Case) fatalf(format string, args ...any) {
	c.rt.Helper()
	c.rt.Fatalf("%s\nstatements:\n  %s", fmt.Sprintf(format, args...), strings.Join(c.log, "\n  "))
}

func c08Short(err error) string {
	s := strings.SplitN(err.Error(), "\n", 2)[0]
	if len(s) > 200 {
		s = s[:200] + "…"
	}
	return s
}

// x runs a statement that must succeed.
func (c *c08Case) x(se *vsql.Session, q string) {
	c.rt.Helper()
	c.log = append(c.log, "["+se.Name+"] "+c08Clip(q))
	if err := se.Exec(q); err != nil {
		c.fatalf("[%s] %s: %v", se.Name, c08Clip(q), err)
	}
}

// xe runs a statement whose error is an expected outcome (conflict stops).
func (c *c08Case) xe(se *vsql.Session, q string) error {
	err := se.Exec(q)
	if err != nil {
		c.log = append(c.log, "["+se.Name+"] "+c08Clip(q)+" -> error: "+c08Short(err))
	} else {
		c.log = append(c.log, "["+se.Name+"] "+c08Clip(q))
	}
	return err
}

func c08Clip(q string) string {
	if len(q) > 220 {
		return q[:220] + "…"
	}
	return q
}

func (c *c08Case) feat(f string) { c.feats = append(c.feats, f) }

// fp is the logical fingerprint plus the plan of every interactive rebase in progress.
func (c *c08Case) fp() []string {
	out := vsql.Fingerprint(c.rt, c.srv, c.db)
	se := c.srv.Session(c.rt, "fpx", c.db)
	defer se.Close()
	r, err := se.Query("SELECT name FROM dolt_branches WHERE name LIKE 'dolt_rebase_%' ORDER BY name")
	if err != nil {
		out = append(out, "x:rebase_branches\x1eERROR: "+err.Error())
	} else {
		for _, row := range r.Data {
			v := ""
			if err := se.Exec(fmt.Sprintf("USE `%s/%s`", c.db, row[0])); err != nil {
				v = "ERROR: " + err.Error()
			} else if pr, err := se.Query("SELECT rebase_order, action, commit_hash, commit_message FROM dolt_rebase ORDER BY rebase_order"); err != nil {
				v = "ERROR: " + err.Error()
			} else {
				v = strings.Join(pr.Ordered(), "\x1d")
			}
			out = append(out, "x:rebase_plan/"+row[0]+"\x1e"+v)
		}
	}
	sort.Strings(out)
	return out
}

func c08Errors(fp []string) []string {
	var out []string
	for _, l := range fp {
		k, v, _ := strings.Cut(l, "\x1e")
		if strings.Contains(v, "ERROR: ") {
			if len(v) > 300 {
				v = v[:300]
			}
			out = append(out, k+" = "+v)
		}
	}
	return out
}

// wsSnap reads working and staged tables of a branch.
func (c *c08Case) wsSnap(branch string) map[string][]string {
	se := c.srv.Session(c.rt, "snap", "")
	defer se.Close()
	if err := se.Exec(fmt.Sprintf("USE `%s/%s`", c.db, branch)); err != nil {
		c.fatalf("snapshot of %s: USE: %v", branch, err)
	}
	out := map[string][]string{}
	for _, root := range []string{"WORKING", "STAGED"} {
		tr, err := se.Query(fmt.Sprintf("SHOW TABLES AS OF '%s'", root))
		if err != nil {
			c.fatalf("snapshot of %s: SHOW TABLES AS OF %s: %v", branch, root, err)
		}
		var names []string
		for _, row := range tr.Data {
			names = append(names, row[0])
		}
		sort.Strings(names)
		out[root+"/tables"] = names
		for _, tb := range names {
			r, err := se.Query(fmt.Sprintf("SELECT * FROM `%s` AS OF '%s'", tb, root))
			if err != nil {
				c.fatalf("snapshot of %s: read %s AS OF %s: %v", branch, tb, root, err)
			}
			out[root+"/"+tb] = r.Sorted()
		}
	}
	return out
}

func c08SnapDiff(a, b map[string][]string) []string {
	keys := map[string]struct{}{}
	for k := range a {
		keys[k] = struct{}{}
	}
	for k := range b {
		keys[k] = struct{}{}
	}
	ks := make([]string, 0, len(keys))
	for k := range keys {
		ks = append(ks, k)
	}
	sort.Strings(ks)
	var out []string
	for _, k := range ks {
		if !vsql.EqualStrings(a[k], b[k]) {
			out = append(out, fmt.Sprintf("%s: want %s ; got %s", k, vsql.Show(a[k]), vsql.Show(b[k])))
		}
	}
	return out
}

func (c *c08Case) closure(when string) int {
	n, missing, err := gcClosure(c.srv, c.db)
	if err != nil {
		c.fatalf("closure walk %s: %v", when, err)
	}
	if len(missing) > 0 {
		if len(missing) > 12 {
			missing = append(missing[:12], fmt.Sprintf("…(%d)", len(missing)))
		}
		c.fatalf("closure walk %s: %d chunks visited, dangling references:\n  %s", when, n, strings.Join(missing, "\n  "))
	}
	return n
}

func (c *c08Case) hasChunk(h string) bool {
	ddb, ctx, err := gcDoltDB(c.srv, c.db)
	if err != nil {
		c.fatalf("engine access: %v", err)
	}
	hh, ok := hash.MaybeParse(h)
	if !ok {
		c.fatalf("bad hash %q", h)
	}
	cs := datas.ChunkStoreFromDatabase(doltdb.ExposeDatabaseFromDoltDB(ddb))
	has, err := cs.Has(context.Background(), hh)
	_ = ctx
	if err != nil {
		c.fatalf("Has(%s): %v", h, err)
	}
	return has
}

func (c *c08Case) headOf(se *vsql.Session, branch string) string {
	v, ok := se.Scalar(c.rt, "SELECT hash FROM dolt_branches WHERE name = ?", branch)
	if !ok {
		c.fatalf("branch %s not listed", branch)
	}
	return v
}

func c08GCStmt(mode, level string) string {
	var args []string
	if mode != "default" {
		args = append(args, "'"+mode+"'")
	}
	if level != "unset" {
		args = append(args, "'--archive-level'", "'"+level+"'")
	}
	return "CALL dolt_gc(" + strings.Join(args, ", ") + ")"
}

func TestVerif_C08(t *testing.T) {
	rec := vh.NewRecorder("C08", "sqlgc", "exploration", c08Rule, c08Assumptions...)
	defer rec.Write(t)
	dir, cleanup := vh.ScratchDir(t, "c08")
	defer cleanup()
	srv, err := vsql.StartServer(dir)
	if err != nil {
		vh.Inconclusive(t, "start server: %v", err)
	}
	defer srv.Stop()
	admin := srv.Session(t, "admin", "")
	defer admin.Close()
	vh.Check(t, "sqlgc", 45, 40, func(rt *rapid.T) {
		c08Run(rt, srv, admin, dir, rec)
	})
}

func c08Run(rt *rapid.T, srv *vsql.Server, admin *vsql.Session, scratch string, rec *vh.Recorder) {
	db := gcDrawDBName(rt, srv, "db") // created spelling; every session draws its own spelling of it
	admin.MustExec(rt, "CREATE DATABASE `"+db+"`")
	defer admin.Exec("DROP DATABASE `" + db + "`")
	c := &c08Case{rt: rt, srv: srv, db: db}
	a := srv.Session(rt, "a", gcSpell(rt, "builder", db))
	defer a.Close()
	c.a = a
	x := func(q string) { c.x(a, q) }

	// ---- drawn plan
	bulk := rapid.SampledFrom([]int{0, 0, 150, 400}).Draw(rt, "bulk_rows")
	nInit := rapid.IntRange(3, 6).Draw(rt, "init_rows")
	withRemote := rapid.IntRange(0, 3).Draw(rt, "remote") > 0
	remoteOnlyBranch := withRemote && rapid.Bool().Draw(rt, "remote_only_branch")
	withTag := rapid.IntRange(0, 3).Draw(rt, "tag") > 0
	withGone := rapid.IntRange(0, 4).Draw(rt, "deleted_branch") > 0
	tagGone := withGone && rapid.IntRange(0, 2).Draw(rt, "tag_deleted_branch_head") == 0
	// an earlier collection in the middle of the history (so that later garbage and later "demoted" data sit
	// in the old generation), followed by a demotion: data committed on a branch before that collection stops
	// being reachable from any branch and stays reachable only from a tag, a working set or a stash
	earlyGC := rapid.SampledFrom([]string{"default", "default", "--full", "none"}).Draw(rt, "early_gc")
	demote := "none"
	if earlyGC != "none" {
		demote = rapid.SampledFrom([]string{"tag_reset_hard", "tag_reset_hard", "reset_soft", "reset_soft_stash", "none"}).Draw(rt, "demotion_after_early_gc")
	}
	opKinds := []string{}
	for _, k := range []string{"merge", "cherry", "revert", "rebase"} {
		if rapid.IntRange(0, 2).Draw(rt, "op_"+k) > 0 {
			opKinds = append(opKinds, k)
		}
	}
	nStash := rapid.SampledFrom([]int{0, 1, 1, 2}).Draw(rt, "stashes")
	dirty := rapid.IntRange(0, 3).Draw(rt, "dirty_main") > 0
	untracked := dirty && rapid.Bool().Draw(rt, "untracked_table")
	mainVal := rapid.IntRange(100, 199).Draw(rt, "main_value")

	// ---- base history
	x("SET @@dolt_allow_commit_conflicts = 1")
	x("CREATE TABLE t (pk INT PRIMARY KEY, c1 INT, c2 VARCHAR(200))")
	x("CREATE TABLE u (pk INT PRIMARY KEY, v VARCHAR(100))")
	var vals []string
	for i := 1; i <= nInit; i++ {
		vals = append(vals, fmt.Sprintf("(%d, %d, 'r%d')", i, i, i))
	}
	x("INSERT INTO t VALUES " + strings.Join(vals, ", "))
	x("INSERT INTO u VALUES (1, 'u1'), (2, 'u2'), (3, 'u3')")
	x("CREATE TABLE d (pk INT PRIMARY KEY, n INT)")
	x("INSERT INTO d VALUES (1, 1)")
	// wide TEXT / BLOB / JSON cells around the inline / out-of-line threshold, some stored as multi-chunk trees
	wide := map[string]bool{}
	bigRow := func(label string, pk int, who string) string {
		row, classes := gcBigRow(rt, label, pk, who)
		for _, cl := range classes {
			wide[cl] = true
		}
		return "INSERT INTO big VALUES " + row
	}
	x(gcBigTableDDL)
	x(bigRow("init_wide1", 1, "init"))
	x(bigRow("init_wide2", 2, "init"))
	if bulk > 0 {
		vals = vals[:0]
		for i := 0; i < bulk; i++ {
			vals = append(vals, fmt.Sprintf("(%d, %d, '%s')", 1000+i, i*7, strings.Repeat(fmt.Sprintf("b%d-", i), 12)))
		}
		x("INSERT INTO t VALUES " + strings.Join(vals, ", "))
		c.feat(fmt.Sprintf("bulk%d", bulk))
	}
	x("CALL dolt_commit('-Am', 'init')")
	remoteDir := filepath.Join(scratch, db+"-remote")
	if withRemote {
		x(fmt.Sprintf("CALL dolt_remote('add', 'origin', 'file://%s')", remoteDir))
		x("CALL dolt_push('origin', 'main')")
		c.feat("remote")
	}
	var opBranches []string
	for _, k := range opKinds {
		opBranches = append(opBranches, "b_"+k)
	}
	side := append([]string{}, opBranches...)
	if withGone {
		side = append(side, "gone")
	}
	if remoteOnlyBranch {
		side = append(side, "ronly")
	}
	side = append(side, "keep")
	for _, b := range side {
		x("CALL dolt_branch('" + b + "')")
	}
	x(fmt.Sprintf("UPDATE t SET c1 = %d WHERE pk = 1", mainVal))
	x("UPDATE u SET v = 'main' WHERE pk = 1")
	x("CALL dolt_commit('-am', 'main change')")
	for i, b := range side {
		x("CALL dolt_checkout('" + b + "')")
		x(fmt.Sprintf("UPDATE t SET c1 = %d WHERE pk = 1", 200+i))
		x(fmt.Sprintf("INSERT INTO t VALUES (%d, %d, '%s')", 10+i, 10+i, strings.Repeat(b+"/", 20)))
		x("CALL dolt_commit('-am', '" + b + " change 1')")
		x(fmt.Sprintf("UPDATE t SET c1 = %d WHERE pk = 2", 300+i))
		if rapid.IntRange(0, 2).Draw(rt, b+"_wide_row") > 0 {
			x(bigRow(b+"_wide", 100+i, b))
		}
		x("CALL dolt_commit('-am', '" + b + " change 2')")
	}
	x("CALL dolt_checkout('main')")
	if earlyGC != "none" {
		x(c08GCStmt(earlyGC, "unset"))
		c.feat("early_gc=" + earlyGC)
	}
	switch demote {
	case "tag_reset_hard":
		x("CALL dolt_tag('vkeep', 'keep')")
		x("CALL dolt_checkout('keep')")
		x("CALL dolt_reset('--hard', 'HEAD~1')")
		x("CALL dolt_checkout('main')")
	case "reset_soft", "reset_soft_stash":
		x("CALL dolt_checkout('keep')")
		x("CALL dolt_reset('--soft', 'HEAD~1')")
		if demote == "reset_soft_stash" {
			x("CALL dolt_stash('push', 'demoted')")
		}
		x("CALL dolt_checkout('main')")
	}
	if demote != "none" {
		c.feat("demote=" + demote)
	}
	if withRemote {
		// main moved on since the push: after the fetch remotes/origin/main lags behind main
		x("CALL dolt_fetch('origin')")
		if remoteOnlyBranch {
			x("CALL dolt_push('origin', 'ronly')")
			x("CALL dolt_branch('-D', 'ronly')")
			c.feat("remote_only_branch")
		}
	}
	if withTag {
		x("CALL dolt_tag('v1', 'keep')")
		x("CALL dolt_tag('v0', 'main~1')")
		c.feat("tag")
	}
	goneHead := ""
	if withGone {
		goneHead = c.headOf(a, "gone")
		if tagGone {
			x("CALL dolt_tag('vgone', 'gone')")
			c.feat("tag_on_deleted_branch")
		}
		x("CALL dolt_branch('-D', 'gone')")
		c.feat("deleted_branch")
	}

	// ---- in-progress operations
	for _, k := range opKinds {
		op := &c08Op{kind: k, branch: "b_" + k, wsName: "b_" + k}
		c.ops = append(c.ops, op)
		x("CALL dolt_checkout('" + op.branch + "')")
		switch k {
		case "merge":
			op.dirtyU = rapid.Bool().Draw(rt, "merge_over_dirty_table")
			if op.dirtyU {
				x("INSERT INTO d VALUES (40, 40)")
			}
			op.snap = c.wsSnap(op.branch)
			x("CALL dolt_merge('main')")
		case "cherry":
			op.snap = c.wsSnap(op.branch)
			x("CALL dolt_cherry_pick('main')")
		case "revert":
			x("UPDATE t SET c1 = 777 WHERE pk = 1")
			x("CALL dolt_commit('-am', 'b_revert change 3')")
			op.snap = c.wsSnap(op.branch)
			x("CALL dolt_revert('HEAD~2')")
		case "rebase":
			op.snap = c.wsSnap(op.branch)
			op.wsName = "dolt_rebase_" + op.branch
			x("CALL dolt_rebase('-i', 'main')")
			op.plan = rapid.SampledFrom([]string{"pick", "squash", "reword", "drop2"}).Draw(rt, "rebase_plan")
			switch op.plan {
			case "squash":
				x("UPDATE dolt_rebase SET action = 'squash' WHERE rebase_order = 2")
			case "reword":
				x("UPDATE dolt_rebase SET action = 'reword', commit_message = 'reworded' WHERE rebase_order = 1")
			case "drop2":
				x("UPDATE dolt_rebase SET action = 'drop' WHERE rebase_order = 2")
			}
			if err := c.xe(a, "CALL dolt_rebase('--continue')"); err == nil {
				c.fatalf("generator: rebase of %s onto main was expected to stop at a data conflict", op.branch)
			} else if !strings.Contains(err.Error(), "conflict") {
				c.fatalf("generator: rebase stopped with an unexpected error: %v", err)
			}
		}
		n, _ := a.Scalar(rt, "SELECT COALESCE(SUM(num_conflicts), 0) FROM dolt_conflicts")
		if n == "0" || n == "" {
			c.fatalf("generator: %s on %s left no conflicts", k, op.branch)
		}
		c.feat("op_" + k)
		if op.dirtyU {
			c.feat("merge_over_dirty")
		}
		if op.plan != "" && op.plan != "pick" {
			c.feat("plan_" + op.plan)
		}
	}
	x("CALL dolt_checkout('main')")
	for i := 0; i < nStash; i++ {
		x(fmt.Sprintf("INSERT INTO t VALUES (%d, %d, 'stashed %d')", 60+i, 60+i, i))
		if i == 1 {
			x("INSERT INTO u VALUES (61, 'stashed too')")
		} else if rapid.Bool().Draw(rt, "stash_wide_row") {
			x(bigRow("stash_wide", 160, "stash"))
		}
		x(fmt.Sprintf("CALL dolt_stash('push', 'st%d')", i))
	}
	if nStash > 0 {
		c.feat(fmt.Sprintf("stash%d", nStash))
	}
	if dirty {
		x("INSERT INTO t VALUES (70, 70, 'staged')")
		x("CALL dolt_add('t')")
		x("INSERT INTO t VALUES (71, 71, 'working only')")
		x("DELETE FROM u WHERE pk = 3")
		if rapid.Bool().Draw(rt, "dirty_wide_rows") {
			x(bigRow("staged_wide", 170, "staged"))
			x("CALL dolt_add('big')")
			x(bigRow("working_wide", 171, "working"))
		}
		c.feat("dirty")
		if untracked {
			x("CREATE TABLE w (pk INT PRIMARY KEY, note VARCHAR(50))")
			x("INSERT INTO w VALUES (1, 'untracked')")
			c.feat("untracked")
		}
	}

	// ---- writers with open transactions
	writable := append([]string{"main", "keep"}, opBranches...)
	var wbr []string
	for _, b := range writable {
		if b != "b_rebase" { // the rebase owns that branch until it finishes
			wbr = append(wbr, b)
		}
	}
	nWriters := rapid.IntRange(0, 3).Draw(rt, "writers")
	if nWriters > len(wbr) {
		nWriters = len(wbr)
	}
	var writers []*c08Writer
	for i := 0; i < nWriters; i++ {
		j := rapid.IntRange(0, len(wbr)-1).Draw(rt, fmt.Sprintf("w%d_branch", i))
		w := &c08Writer{name: fmt.Sprintf("w%d", i), branch: wbr[j], basePK: 5000 + 100*i}
		wbr = append(wbr[:j], wbr[j+1:]...)
		w.pre = rapid.IntRange(1, 2).Draw(rt, w.name+"_stmts_before_gc")
		w.post = rapid.IntRange(0, 2).Draw(rt, w.name+"_stmts_after_gc")
		w.finish = "commit"
		if (w.branch == "main" || w.branch == "keep") && rapid.IntRange(0, 2).Draw(rt, w.name+"_dolt_commit") == 0 {
			w.finish = "dolt_commit"
		}
		w.se = srv.Session(rt, w.name, "")
		defer w.se.Close()
		writers = append(writers, w)
		c.x(w.se, fmt.Sprintf("USE `%s/%s`", gcSpell(rt, w.name, db), w.branch))
		c.x(w.se, "SET @@dolt_allow_commit_conflicts = 1")
		c.x(w.se, "SET autocommit = 0")
		if rapid.Bool().Draw(rt, w.name+"_explicit_start") {
			c.x(w.se, "START TRANSACTION")
		}
	}
	writeOne := func(w *c08Writer) {
		pk := w.basePK + len(w.pks)
		w.pks = append(w.pks, pk)
		c.x(w.se, fmt.Sprintf("INSERT INTO t VALUES (%d, %d, '%s')", pk, pk, strings.Repeat(w.name+"-", 15)))
	}
	wideLen := map[string]int{} // writer name -> length of the TEXT cell it wrote before the GC
	for _, w := range writers {
		for i := 0; i < w.pre; i++ {
			writeOne(w)
		}
		if rapid.Bool().Draw(rt, w.name+"_wide_row") {
			n, cl := gcBigSize(rt, w.name+"_wide")
			wide["doc:"+cl] = true
			wideLen[w.name] = n
			c.x(w.se, fmt.Sprintf("INSERT INTO big VALUES (%d, '%s', '%s', NULL, NULL)", w.basePK+50, w.name, gcBigString(w.basePK+50, n)))
		}
	}

	// ---- GC under test
	modes := []string{"default", "default", "--full", "--full", "--shallow"}
	if earlyGC != "none" {
		modes = []string{"--full", "--full", "--full", "default", "default", "--shallow"}
	}
	mode := rapid.SampledFrom(modes).Draw(rt, "gc_mode")
	level := "unset"
	if mode != "--shallow" {
		level = rapid.SampledFrom([]string{"unset", "0", "1"}).Draw(rt, "archive_level")
	}
	caller := rapid.SampledFrom([]string{"fresh", "fresh_builder_gone", "builder", "open_txn"}).Draw(rt, "gc_caller")
	gcSe := a
	if caller != "builder" {
		gcSe = srv.Session(rt, "gc", gcSpell(rt, "gc_caller", db))
		defer gcSe.Close()
	}
	if caller == "fresh_builder_gone" {
		// the session that built the state (and still caches every branch it visited) disconnects first
		a.Close()
		c.log = append(c.log, "[a] disconnects")
	}
	callerPK := 0
	if caller == "open_txn" {
		// the caller's own transaction must not touch a branch a writer owns: it works on `keep`
		// unless a writer took it, then on main unless taken, else no pending write
		taken := map[string]bool{}
		for _, w := range writers {
			taken[w.branch] = true
		}
		cb := ""
		for _, b := range []string{"keep", "main"} {
			if !taken[b] {
				cb = b
				break
			}
		}
		if cb != "" {
			c.x(gcSe, fmt.Sprintf("USE `%s/%s`", gcSpell(rt, "gc_caller_txn", db), cb))
			c.x(gcSe, "SET autocommit = 0")
			callerPK = 9000
			c.x(gcSe, fmt.Sprintf("INSERT INTO t VALUES (%d, %d, 'pending in the gc session')", callerPK, callerPK))
			writers = append(writers, &c08Writer{name: "gc", branch: cb, se: gcSe, finish: "commit", pks: []int{callerPK}})
		} else {
			caller = "fresh"
		}
	}
	fp0 := c.fp()
	if errs := c08Errors(fp0); len(errs) > 0 {
		c.fatalf("generator: fingerprint before GC has unreadable parts: %v", errs)
	}
	dotDolt := filepath.Join(srv.Dir, db, ".dolt")
	size0 := gcDirSize(dotDolt)
	goneBefore := goneHead != "" && !tagGone && c.hasChunk(goneHead)
	c.x(gcSe, c08GCStmt(mode, level))
	size1 := gcDirSize(dotDolt)
	collected := size1 < size0
	if goneBefore && !c.hasChunk(goneHead) {
		collected = true
	}
	fp1 := c.fp()
	if d := vsql.DiffFingerprints(fp0, fp1); len(d) > 0 {
		c.fatalf("fingerprint changed across %s:\n  %s", c08GCStmt(mode, level), strings.Join(d, "\n  "))
	}
	c.closure("after " + c08GCStmt(mode, level))
	if tagGone && !c.hasChunk(goneHead) {
		c.fatalf("commit %s (tag vgone) is not in the store after GC", goneHead)
	}

	// ---- writers go on and commit
	for _, w := range writers {
		for i := 0; i < w.post; i++ {
			writeOne(w)
		}
	}
	for _, w := range writers {
		if w.finish == "dolt_commit" {
			c.x(w.se, "CALL dolt_commit('-am', 'written by "+w.name+"')")
		} else {
			c.x(w.se, "COMMIT")
		}
	}
	fp2 := c.fp()
	written := map[string]*c08Writer{}
	for _, w := range writers {
		written[w.branch] = w
	}
	for _, d := range vsql.DiffFingerprints(fp1, fp2) {
		ok := false
		for b := range written {
			if strings.Contains(d, " ws:"+b+"/") || strings.Contains(d, " branch:"+b+"/") {
				ok = true
			}
		}
		if !ok {
			c.fatalf("after the writers committed a part of the database nobody wrote changed: %s", d)
		}
	}
	fpMap := func(fp []string) map[string]string {
		m := map[string]string{}
		for _, l := range fp {
			k, v, _ := strings.Cut(l, "\x1e")
			m[k] = v
		}
		return m
	}
	m1, m2 := fpMap(fp1), fpMap(fp2)
	for b, w := range written {
		key := "ws:" + b + "/WORKING/rows/t"
		want := []string{}
		if m1[key] != "" {
			want = strings.Split(m1[key], "\x1d")
		}
		for _, pk := range w.pks {
			val := strings.Repeat(w.name+"-", 15)
			if w.name == "gc" {
				val = "pending in the gc session"
			}
			want = append(want, fmt.Sprintf("%d\x1f%d\x1f%s", pk, pk, val))
		}
		sort.Strings(want)
		got := []string{}
		if m2[key] != "" {
			got = strings.Split(m2[key], "\x1d")
		}
		sort.Strings(got)
		if !vsql.EqualStrings(want, got) {
			c.fatalf("working set of %s after writer %s committed: want rows %s ; got %s", b, w.name, vsql.Show(want), vsql.Show(got))
		}
		if w.finish == "dolt_commit" {
			if hk := "branch:" + b + "/rows/t"; m2[hk] != m2[key] {
				c.fatalf("HEAD of %s after dolt_commit by %s differs from its working set: head %s ; working %s", b, w.name, vsql.Show(strings.Split(m2[hk], "\x1d")), vsql.Show(got))
			}
		}
	}
	for _, w := range writers {
		if n, ok := wideLen[w.name]; ok {
			want := gcBigString(w.basePK+50, n)
			got, err := a2Query(c, fmt.Sprintf("SELECT doc FROM `%s/%s`.big WHERE pk = %d", db, w.branch, w.basePK+50))
			if err != nil || got != want {
				c.fatalf("the %d-byte TEXT cell writer %s inserted before the GC and committed after it reads back as %d bytes (err %v)", n, w.name, len(got), err)
			}
		}
	}
	c.closure("after the writers committed")

	// ---- second GC: nothing changes
	mode2 := rapid.SampledFrom([]string{"--full", "default", "--full", "--shallow"}).Draw(rt, "second_gc_mode")
	level2 := "unset"
	if mode2 != "--shallow" {
		level2 = rapid.SampledFrom([]string{"unset", "0", "1"}).Draw(rt, "second_archive_level")
	}
	c.x(gcSe, c08GCStmt(mode2, level2))
	fp3 := c.fp()
	if d := vsql.DiffFingerprints(fp2, fp3); len(d) > 0 {
		c.fatalf("fingerprint changed across the second GC (%s):\n  %s", c08GCStmt(mode2, level2), strings.Join(d, "\n  "))
	}
	c.closure("after the second GC")

	// ---- the in-progress operations are still usable
	var endings []string
	for _, op := range c.ops {
		ending := rapid.SampledFrom([]string{"abort", "resolve", "leave"}).Draw(rt, "end_"+op.kind)
		endings = append(endings, op.kind+":"+ending)
		if ending == "leave" {
			continue
		}
		se := srv.Session(rt, "end", "")
		c.x(se, fmt.Sprintf("USE `%s/%s`", gcSpell(rt, "end_"+op.kind, db), op.wsName))
		c.x(se, "SET @@dolt_allow_commit_conflicts = 1")
		if ending == "abort" {
			switch op.kind {
			case "merge":
				c.x(se, "CALL dolt_merge('--abort')")
			case "cherry":
				c.x(se, "CALL dolt_cherry_pick('--abort')")
			case "revert":
				c.x(se, "CALL dolt_revert('--abort')")
			case "rebase":
				c.x(se, "CALL dolt_rebase('--abort')")
			}
			if written[op.branch] == nil {
				if d := c08SnapDiff(op.snap, c.wsSnap(op.branch)); len(d) > 0 {
					c.fatalf("aborting the %s on %s after GC did not restore the working set recorded before it started:\n  %s", op.kind, op.branch, strings.Join(d, "\n  "))
				}
			}
		} else {
			how := rapid.SampledFrom([]string{"ours", "theirs"}).Draw(rt, "resolve_"+op.kind)
			c.x(se, "CALL dolt_conflicts_resolve('--"+how+"', 't')")
			switch op.kind {
			case "merge":
				c.x(se, "CALL dolt_commit('-am', 'merge finished after gc')")
			case "cherry":
				c.x(se, "CALL dolt_add('-A')")
				if err := c.xe(se, "CALL dolt_cherry_pick('--continue')"); err != nil && !strings.Contains(err.Error(), "nothing to commit") && !strings.Contains(err.Error(), "no changes") {
					c.fatalf("cherry-pick --continue after GC: %v", err)
				}
			case "revert":
				c.x(se, "CALL dolt_add('-A')")
				if err := c.xe(se, "CALL dolt_revert('--continue')"); err != nil && !strings.Contains(err.Error(), "nothing to commit") && !strings.Contains(err.Error(), "no changes") {
					c.fatalf("revert --continue after GC: %v", err)
				}
			case "rebase":
				c.x(se, "CALL dolt_add('-A')")
				// later picks may conflict again: resolve each stop the same way (bounded)
				done := false
				for i := 0; i < 4 && !done; i++ {
					err := c.xe(se, "CALL dolt_rebase('--continue')")
					switch {
					case err == nil:
						done = true
					case strings.Contains(err.Error(), "conflict"):
						c.x(se, "CALL dolt_conflicts_resolve('--"+how+"', 't')")
						c.x(se, "CALL dolt_add('-A')")
					default:
						c.fatalf("rebase --continue after GC: %v", err)
					}
				}
				if !done {
					c.fatalf("rebase --continue after GC still reports conflicts after 4 resolutions")
				}
			}
		}
		se.Close()
	}
	fp4 := c.fp()
	if errs := c08Errors(fp4); len(errs) > 0 {
		c.fatalf("after finishing the in-progress operations parts of the database are unreadable: %v", errs)
	}
	nChunks := c.closure("at the end")

	// ---- evidence
	rich := 0
	has := func(p string) bool {
		for _, f := range c.feats {
			if strings.HasPrefix(f, p) {
				return true
			}
		}
		return false
	}
	for _, p := range []string{"stash", "op_merge", "op_cherry", "op_revert", "op_rebase", "dirty", "tag", "remote"} {
		if has(p) {
			rich++
		}
	}
	var wdesc []string
	for _, w := range writers {
		wdesc = append(wdesc, fmt.Sprintf("%s@%s:%d+%d/%s", w.name, w.branch, w.pre, w.post, w.finish))
	}
	desc := fmt.Sprintf("db=%s features=%s main=%d init=%d gc=%s level=%s caller=%s writers=[%s] gc2=%s/%s endings=%s",
		gcNameCase(db), strings.Join(c.feats, ","), mainVal, nInit, mode, level, caller, strings.Join(wdesc, " "), mode2, level2, strings.Join(endings, ","))
	classes := []string{"mode=" + mode, "level=" + level, "caller=" + caller, fmt.Sprintf("writers=%d", len(writers)), fmt.Sprintf("rich=%d", rich)}
	classes = append(classes, fmt.Sprintf("gc_order=%s>%s>%s", earlyGC, mode, mode2), gcNameCase(db))
	for cl := range wide {
		classes = append(classes, "wide:"+cl)
	}
	if demote != "none" && (mode == "--full" || mode2 == "--full") {
		classes = append(classes, "demoted_old_gen_data_then_full_gc")
	}
	for _, f := range c.feats {
		classes = append(classes, "feat:"+f)
	}
	for _, e := range endings {
		classes = append(classes, "end:"+e)
	}
	if collected {
		classes = append(classes, "garbage_collected")
	}
	if goneBefore && !c.hasChunk(goneHead) {
		classes = append(classes, "deleted_branch_commit_gone")
	}
	switch {
	case nChunks >= 100:
		classes = append(classes, "closure>=100chunks")
	case nChunks >= 60:
		classes = append(classes, "closure>=60chunks")
	default:
		classes = append(classes, "closure<60chunks")
	}
	if m, _ := filepath.Glob(filepath.Join(dotDolt, "noms", "*.darc")); len(m) > 0 {
		classes = append(classes, "archive_files_present")
	} else if m, _ := filepath.Glob(filepath.Join(dotDolt, "noms", "oldgen", "*.darc")); len(m) > 0 {
		classes = append(classes, "archive_files_present")
	}
	rec.Case(desc, rich >= 3 && collected, classes...)
}

// a2Query runs a one-value query in a fresh session.
func a2Query(c *c08Case, q string) (string, error) {
	se := c.srv.Session(c.rt, "rd", "")
	defer se.Close()
	r, err := se.Query(q)
	if err != nil {
		return "", err
	}
	if len(r.Data) != 1 {
		return "", fmt.Errorf("%d rows", len(r.Data))
	}
	return r.Data[0][0], nil
}
