package sqlgc

// C45 — replicas converge to their source and never show invented state (parts a and b).
//
// (a) push-on-write: a database created while @@GLOBAL.dolt_replicate_to_remote and the URL
//     template are set replicates every branch/tag update to its file remote. After every
//     statement: either something was reported (SQL error, SQL warning, a line on the
//     server's error output or a warning-level log entry) or the remote's ref equals the local
//     one. The remote is made unavailable for some steps by renaming its directory.
// (b) read replica: a database cloned while @@GLOBAL.dolt_read_replica_remote is set pulls
//     at every transaction start. Every branch head it shows must be a head the remote has
//     had for that branch; once settled it must equal the current one, deleted branches
//     disappear, and the data of every shown head equals what the primary committed.
// (c) the two-server cluster part is out of scope here.

import (
	"bytes"
	"context"
	"fmt"
	"os"
	"path/filepath"
	"sort"
	"strings"
	"sync"
	"testing"
	"time"

	gmssql "github.com/dolthub/go-mysql-server/sql"
	"github.com/sirupsen/logrus"
	"pgregory.net/rapid"

	"github.com/dolthub/dolt/go/cmd/dolt/cli"
	"github.com/dolthub/dolt/go/libraries/doltcore/ref"
	"github.com/dolthub/dolt/go/zzverif/vh"
	"github.com/dolthub/dolt/go/zzverif/vsql"
)

const c45PushRule = "part (a): one server; database names are created in a drawn case (lower / Mixed / UPPER) and spelled by the sessions in a drawn case; per case @@GLOBAL.dolt_replicate_to_remote='origin', dolt_replication_remote_url_template=file://<scratch>/<case>/{database} and dolt_async_replication (25 synchronous cases run first as their own sub-check; 5 asynchronous cases with at most 8 groups run only if those held) are set, then CREATE DATABASE (which creates the remote and installs the push hook); 10-16 drawn statement groups (the first two create a second branch and commit on it) on up to 3 branches: insert + dolt_commit, working-set-only insert, dolt_branch create / -D, dolt_merge of a side branch into main (fast-forward or merge commit), dolt_reset --hard HEAD~1, dolt_commit --amend, dolt_branch -f of a side branch to main / main~1 / a sibling branch (non-fast-forward moves and rewrites whose new head is not taller than the old one), dolt_tag, and `away` / `back` (the remote directory is renamed away / back, so pushes fail in between; every case has such a stretch starting at its middle step at the latest, and the step after `away` moves a ref). After every statement the harness collects what was reported: SQL error, SHOW WARNINGS, bytes written to the server's error output (cli.CliErr, where the hook writes 'error pushing: ...'), warning/error-level log entries. Oracle: if nothing was reported then for every ref the statement moved the remote directory (opened in process, no cache) has the same commit as the local database (absent when deleted) — with the remote away and nothing reported the case fails as silent divergence; a working-set-only statement never moves a remote ref, and any other statement changes a remote ref only to the commit the local database has for it (a statement that moves nothing locally may make the remote catch up on a ref whose earlier push failed); closure walk over the remote finds every address. Async mode: the same condition is awaited for at most 8 s per statement (expired wait = inconclusive, not a violation). Non-trivial: at least 2 branches moved, a non-fast-forward move or a deletion, and at least one statement that ran while the remote was away."

const c45ReplicaRule = "part (b): one server per case; database names (primary, replica) are created in a drawn case (lower / Mixed / UPPER) and spelled by the sessions in a drawn case; per case a primary database (table with TEXT and JSON columns; 2 of 3 inserted rows carry cells from the size classes inline / around the 2048-byte inline threshold / out of line / multi-chunk) with branches main and b1 pushed to its file remote `origin` (explicit dolt_push), then @@GLOBAL.dolt_read_replica_remote='origin' with dolt_replicate_all_heads=1 or dolt_replicate_heads='main' / 'main,b1', then CALL dolt_clone(remote, replica). 10-16 drawn steps: primary commit+push (fast-forward), commit without push, reset --hard HEAD~1 + push --force, new branch + push, deletion of a remote branch that is not in the replicated list; replica reads (SELECT name, hash FROM dolt_branches) by an autocommit session and by a session inside an explicit transaction (begin / read / commit drawn as separate steps), and `settle` (two consecutive reads with no remote change in between; the second is checked). The harness records every head the remote has had per branch (read from the remote directory after every push). Oracle: every (branch, head) any replica read shows is a head the remote has had for that branch; at a settle point the replicated branches have exactly the remote's current heads, in all-heads mode the branch set equals the remote's (deleted branches are gone); for every head shown at a settle point the rows / schemas / log AS OF that head on the replica equal the record taken on the primary when the commit was made, the replica's working set of that branch has the head's rows; closure walk over the replica finds every address. Non-trivial: at least 2 branches replicated and a force-push or deletion happened before a checked settle point."

var c45Assumptions = []string{
	"part (c) (two-server cluster, standby, role transitions) is out of scope of this check",
	"`a warning is raised` is read as: the statement returned an error or SQL warning, or the server wrote to its error output / logged at warning level during the statement (push-on-write hooks report failures on the error output, not through SHOW WARNINGS)",
	"the replica may lag: the first statement after a remote change can still show the previous state (observed: the statement that triggers the pull still reads the pre-pull branch list), so equality with the remote is asserted on the second of two consecutive reads",
	"replica databases are not written by the harness; replicated-heads lists only name branches that exist on the remote",
	"system variables are process-global: the check runs one case at a time and restores them after every case",
}

// ---- capture of the server's error output and warning-level log entries

type c45Capture struct {
	mu  sync.Mutex
	buf bytes.Buffer
}

func (p *c45Capture) Write(b []byte) (int, error) {
	p.mu.Lock()
	defer p.mu.Unlock()
	return p.buf.Write(b)
}

func (p *c45Capture) take() string {
	p.mu.Lock()
	defer p.mu.Unlock()
	s := p.buf.String()
	p.buf.Reset()
	return s
}

type c45LogHook struct{ c *c45Capture }

func (h c45LogHook) Levels() []logrus.Level {
	return []logrus.Level{logrus.WarnLevel, logrus.ErrorLevel}
}

func (h c45LogHook) Fire(e *logrus.Entry) error {
	fmt.Fprintf(h.c, "[log %s] %s\n", e.Level, e.Message)
	return nil
}

var c45Capt = &c45Capture{}
var c45HookOnce sync.Once

type c45Env struct {
	srv     *vsql.Server
	admin   *vsql.Session
	scratch string
}

type c45TB interface {
	vsql.TB
	SkipNow()
}

func c45Start(t c45TB, prefix string) (*c45Env, func()) {
	dir, cleanup := vh.ScratchDir(t, prefix)
	oldErr := cli.CliErr
	cli.CliErr = c45Capt
	c45HookOnce.Do(func() { logrus.AddHook(c45LogHook{c45Capt}) })
	srv, err := vsql.StartServer(dir)
	if err != nil {
		cli.CliErr = oldErr
		cleanup()
		vh.Inconclusive(t, "start server: %v", err)
	}
	admin := srv.Session(t, "admin", "")
	admin.MustExec(t, "CREATE DATABASE home")
	admin.MustExec(t, "USE home")
	return &c45Env{srv: srv, admin: admin, scratch: dir}, func() {
		admin.Close()
		srv.Stop()
		cli.CliErr = oldErr
		cleanup()
	}
}

// resetGlobals restores the replication variables in process (not through SQL: with a broken
// replication configuration every statement, including SET, fails at transaction start).
func (e *c45Env) resetGlobals() {
	ctx := gmssql.NewEmptyContext()
	for _, kv := range []struct {
		k string
		v any
	}{
		{"dolt_replicate_heads", ""},
		{"dolt_replicate_all_heads", int8(0)},
		{"dolt_read_replica_remote", ""},
		{"dolt_async_replication", int8(0)},
		{"dolt_replicate_to_remote", ""},
		{"dolt_replication_remote_url_template", ""},
	} {
		if err := gmssql.SystemVariables.SetGlobal(ctx, kv.k, kv.v); err != nil {
			fmt.Printf("c45: resetting %s: %v\n", kv.k, err)
		}
	}
}

// c45DirRefs reads branch and tag commits of a remote directory ("branch x" / "tag y" -> hash).
func c45DirRefs(dir string) (map[string]string, error) {
	ddb, err := c35OpenDir(dir)
	if err != nil {
		return nil, err
	}
	defer ddb.Close()
	ctx := context.Background()
	heads, err := gcHeads(ctx, ddb)
	if err != nil {
		return nil, err
	}
	out := map[string]string{}
	for id, addr := range heads {
		switch {
		case strings.HasPrefix(id, "refs/heads/"):
			out["branch "+strings.TrimPrefix(id, "refs/heads/")] = addr.String()
		case strings.HasPrefix(id, "refs/tags/"):
			name := strings.TrimPrefix(id, "refs/tags/")
			tg, err := ddb.ResolveTag(ctx, ref.NewTagRef(name))
			if err != nil {
				return nil, fmt.Errorf("tag %s: %w", name, err)
			}
			h, err := tg.Commit.HashOf()
			if err != nil {
				return nil, err
			}
			out["tag "+name] = h.String()
		}
	}
	n, missing, err := gcClosureDDB(ctx, ddb)
	if err != nil {
		return nil, fmt.Errorf("closure walk: %w", err)
	}
	if len(missing) > 0 {
		return nil, fmt.Errorf("closure walk (%d chunks): dangling references: %s", n, strings.Join(missing, "; "))
	}
	return out, nil
}

func c45LocalRefs(se *vsql.Session) (map[string]string, error) {
	out := map[string]string{}
	r, err := se.Query("SELECT name, hash FROM dolt_branches")
	if err != nil {
		return nil, err
	}
	for _, row := range r.Data {
		out["branch "+row[0]] = row[1]
	}
	r, err = se.Query("SELECT tag_name, tag_hash FROM dolt_tags")
	if err != nil {
		return nil, err
	}
	for _, row := range r.Data {
		out["tag "+row[0]] = row[1]
	}
	return out, nil
}

// c45Wide draws the doc (TEXT) and js (JSON) cells of a row: NULL / small in 1 of 3 rows, otherwise a value
// from the size classes around the inline / out-of-line threshold (see gcBigSize).
func c45Wide(rt *rapid.T, label string, uniq int, seen map[string]bool) string {
	if rapid.IntRange(0, 2).Draw(rt, label+"_wide") == 0 {
		return "'small', NULL"
	}
	n, cl := gcBigSize(rt, label+"_doc")
	seen["doc:"+cl] = true
	js := "NULL"
	if rapid.Bool().Draw(rt, label+"_js") {
		m, cl := gcBigSize(rt, label+"_js")
		seen["js:"+cl] = true
		js = fmt.Sprintf("JSON_OBJECT('n', %d, 'k', '%s')", uniq, gcBigString(uniq*4+3, m))
	}
	return "'" + gcBigString(uniq*4+1, n) + "', " + js
}

func c45ShowMap(m map[string]string) string {
	var ks []string
	for k := range m {
		ks = append(ks, k)
	}
	sort.Strings(ks)
	var p []string
	for _, k := range ks {
		p = append(p, k+"="+m[k])
	}
	return strings.Join(p, ", ")
}

func TestVerif_C45(t *testing.T) {
	t.Run("push_on_write", func(t *testing.T) {
		rec := vh.NewRecorder("C45", "push_on_write", "exploration", c45PushRule, c45Assumptions...)
		defer rec.Write(t)
		env, stop := c45Start(t, "c45a")
		defer stop()
		// synchronous cases first and on their own: there every missing push is decidable at once. The
		// asynchronous cases (bounded waits, expiry = inconclusive) only run when the synchronous ones held,
		// so that an expired wait can never mask a violation found in synchronous mode.
		vh.Check(t, "sync", 25, 25, func(rt *rapid.T) {
			defer env.resetGlobals()
			c45PushCase(rt, env, rec, false)
		})
		if t.Failed() {
			return
		}
		vh.Check(t, "async", 5, 5, func(rt *rapid.T) {
			defer env.resetGlobals()
			c45PushCase(rt, env, rec, true)
		})
	})
	t.Run("read_replica", func(t *testing.T) {
		rec := vh.NewRecorder("C45", "read_replica", "exploration", c45ReplicaRule, c45Assumptions...)
		defer rec.Write(t)
		// a read-replica database cannot be dropped (DROP DATABASE answers "unable to drop database")
		// and would keep pulling with the next case's settings: every case gets its own server
		vh.Check(t, "cases", 30, 30, func(rt *rapid.T) {
			env, stop := c45Start(rt, "c45b")
			defer stop()
			defer env.resetGlobals()
			c45ReplicaCase(rt, env, rec)
		})
	})
}

// ---------------------------------------------------------------------------------------
// (a) push on write

func c45PushCase(rt *rapid.T, env *c45Env, rec *vh.Recorder, async bool) {
	srv, admin := env.srv, env.admin
	db := gcDrawDBName(rt, srv, "db")
	base := filepath.Join(env.scratch, "remotes-"+db)
	if err := os.MkdirAll(base, 0o755); err != nil {
		rt.Fatalf("mkdir: %v", err)
	}
	remoteDir := filepath.Join(base, db)
	awayDir := remoteDir + ".away"
	var log []string
	fatalf := func(format string, args ...any) {
		rt.Helper()
		rt.Fatalf("%s\nstatements:\n  %s", fmt.Sprintf(format, args...), strings.Join(log, "\n  "))
	}
	admin.MustExec(rt, "SET @@GLOBAL.dolt_replicate_to_remote = 'origin'")
	admin.MustExec(rt, fmt.Sprintf("SET @@GLOBAL.dolt_replication_remote_url_template = 'file://%s/{database}'", base))
	if async {
		admin.MustExec(rt, "SET @@GLOBAL.dolt_async_replication = 1")
	}
	c45Capt.take()
	admin.MustExec(rt, "CREATE DATABASE `"+db+"`")
	defer func() {
		env.resetGlobals()
		_ = admin.Exec("DROP DATABASE `" + db + "`")
	}()
	se := srv.Session(rt, "p", gcSpell(rt, "primary", db))
	defer se.Close()
	if async {
		// the initial push of the default branch (made by CREATE DATABASE) is asynchronous too: let it land
		deadline := time.Now().Add(8 * time.Second)
		for {
			local, lerr := c45LocalRefs(se)
			remote, rerr := c45DirRefs(remoteDir)
			if lerr == nil && rerr == nil && local["branch main"] != "" && remote["branch main"] == local["branch main"] {
				break
			}
			if time.Now().After(deadline) {
				vh.Inconclusive(rt, "async: the initial push of main did not arrive within 8 s (local %v / %v, remote %v / %v)", local, lerr, remote, rerr)
			}
			time.Sleep(20 * time.Millisecond)
		}
		c45Capt.take()
	}
	away := false
	nextPK := 0
	moved := map[string]bool{}
	var opsDesc []string
	classes := map[string]bool{}
	awaySteps := 0
	wide := map[string]bool{}
	everAway, awaySince := false, -1
	var lastRemote map[string]string // remote refs as of the last successful comparison (nil = unknown)

	// run executes one statement and checks the replication condition for the refs it moved.
	run := func(q string, wsOnly bool) {
		before, err := c45LocalRefs(se)
		if err != nil {
			fatalf("reading local refs: %v", err)
		}
		remoteBefore := lastRemote
		if !away && remoteBefore == nil {
			if remoteBefore, err = c45DirRefs(remoteDir); err != nil {
				fatalf("before %s: remote: %v", q, err)
			}
		}
		lastRemote = nil
		c45Capt.take()
		qerr := se.Exec(q)
		reported := ""
		if qerr != nil {
			reported = "error: " + c08Short(qerr)
		}
		if w, werr := se.Query("SHOW WARNINGS"); werr == nil && len(w.Data) > 0 {
			reported += " warnings: " + w.String()
		}
		after, err := c45LocalRefs(se)
		if err != nil {
			fatalf("reading local refs: %v", err)
		}
		var touched []string
		for k, v := range after {
			if before[k] != v {
				touched = append(touched, k)
			}
		}
		for k := range before {
			if _, ok := after[k]; !ok {
				touched = append(touched, k)
			}
		}
		sort.Strings(touched)
		entry := fmt.Sprintf("[p] %s (moved: %s)", c08Clip(q), strings.Join(touched, ","))
		if qerr != nil {
			entry += " -> " + reported
		}
		log = append(log, entry)
		if qerr != nil && len(touched) == 0 {
			return
		}
		for _, k := range touched {
			moved[k] = true
		}
		if away {
			awaySteps++
		}
		deadline := time.Now().Add(8 * time.Second)
		for {
			if out := c45Capt.take(); out != "" {
				reported += " output: " + out
			}
			if reported != "" {
				classes["reported"] = true
				if len(reported) > 300 {
					reported = reported[:300]
				}
				log = append(log, "      reported: "+strings.ReplaceAll(reported, "\n", " | "))
				return
			}
			if away {
				if len(touched) == 0 {
					return
				}
				if async && time.Now().Before(deadline) {
					time.Sleep(20 * time.Millisecond)
					continue
				}
				if async {
					vh.Inconclusive(rt, "async push while the remote is away: neither a report nor a push within 8 s")
				}
				fatalf("silent divergence: %s moved %v while the remote directory was unavailable, and nothing was reported (no SQL error, no SQL warning, nothing on the error output, no warning-level log entry)", q, touched)
			}
			remote, err := c45DirRefs(remoteDir)
			if err != nil {
				fatalf("after %s: remote: %v", q, err)
			}
			var diffs []string
			// a statement may make the remote catch up on a ref whose earlier push failed (e.g. a forced
			// branch move onto the commit the branch already has re-runs the hook); whatever changes on the
			// remote must change to the local state, never to anything else
			changed := map[string]bool{}
			for k, v := range remote {
				if remoteBefore[k] != v {
					changed[k] = true
				}
			}
			for k := range remoteBefore {
				if _, ok := remote[k]; !ok {
					changed[k] = true
				}
			}
			for k := range changed {
				if remote[k] != after[k] {
					diffs = append(diffs, fmt.Sprintf("%s changed on the remote from %q to %q, the local database has %q", k, remoteBefore[k], remote[k], after[k]))
				}
			}
			if wsOnly && len(changed) > 0 {
				diffs = append(diffs, fmt.Sprintf("a working-set-only statement changed the remote from {%s} to {%s}", c45ShowMap(remoteBefore), c45ShowMap(remote)))
			}
			sort.Strings(diffs)
			for _, k := range touched {
				if remote[k] != after[k] {
					diffs = append(diffs, fmt.Sprintf("%s: local %q, remote %q", k, after[k], remote[k]))
				}
			}
			if len(diffs) == 0 {
				lastRemote = remote
				return
			}
			if async && time.Now().Before(deadline) {
				time.Sleep(20 * time.Millisecond)
				continue
			}
			if async {
				vh.Inconclusive(rt, "async push did not arrive within 8 s and nothing was reported: %v", diffs)
			}
			fatalf("silent divergence after %s (nothing was reported):\n  %s", q, strings.Join(diffs, "\n  "))
		}
	}
	must := func(q string) {
		if err := se.Exec(q); err != nil {
			fatalf("[p] %s: %v", q, err)
		}
		log = append(log, "[p] "+q)
	}
	run("CREATE TABLE t (pk INT PRIMARY KEY, br VARCHAR(20), v INT, doc TEXT, js JSON)", true)
	run("INSERT INTO t VALUES (1, 'init', 1, 'small', NULL), (2, 'init', 2, '"+gcBigString(2, 5000)+"', NULL)", true)
	run("CALL dolt_commit('-Am', 'init')", false)
	branches := []string{"main"}
	depth := map[string]int{"main": 1}
	nOps := rapid.IntRange(10, 16).Draw(rt, "ops")
	if async && nOps > 8 {
		nOps = 8 // every asynchronous push is awaited for up to its 500 ms flush interval
	}
	for i := 0; i < nOps; i++ {
		lbl := fmt.Sprintf("op%d", i)
		kinds := []string{"commit", "commit", "commit", "commit", "ws_only", "new_branch", "new_branch", "delete_branch", "delete_branch", "merge", "reset", "reset", "amend", "amend", "branch_force", "branch_force", "tag", "away", "away", "back"}
		kind := rapid.SampledFrom(kinds).Draw(rt, lbl)
		br := branches[rapid.IntRange(0, len(branches)-1).Draw(rt, lbl+"_branch")]
		switch {
		case i == 0:
			kind, br = "new_branch", "main" // every case works on at least two branches
		case i == 1:
			kind, br = "commit", branches[len(branches)-1]
		case i == nOps/2 && !away && !everAway:
			kind = "away" // every case has a stretch with the remote unavailable ...
		case away && awaySince == i-1 && (kind == "away" || kind == "back" || kind == "ws_only"):
			kind = "commit" // ... during which at least one ref moves
		}
		switch kind {
		case "commit":
			must("CALL dolt_checkout('" + br + "')")
			nextPK++
			run(fmt.Sprintf("INSERT INTO t VALUES (%d, '%s', %d, %s)", 100+nextPK, br, nextPK, c45Wide(rt, lbl, 100+nextPK, wide)), true)
			run(fmt.Sprintf("CALL dolt_commit('-am', 'c%d on %s')", nextPK, br), false)
			depth[br]++
		case "ws_only":
			must("CALL dolt_checkout('" + br + "')")
			nextPK++
			run(fmt.Sprintf("INSERT INTO t VALUES (%d, 'uncommitted', %d, %s)", 100+nextPK, nextPK, c45Wide(rt, lbl, 100+nextPK, wide)), true)
			must("CALL dolt_reset('--hard')")
		case "new_branch":
			if len(branches) >= 3 {
				continue
			}
			nb := fmt.Sprintf("b%d", len(branches))
			for _, x := range branches {
				if x == nb {
					nb = nb + "x"
				}
			}
			must("CALL dolt_checkout('" + br + "')")
			run("CALL dolt_branch('"+nb+"')", false)
			branches = append(branches, nb)
			depth[nb] = depth[br]
		case "delete_branch":
			if br == "main" {
				continue
			}
			must("CALL dolt_checkout('main')")
			run("CALL dolt_branch('-D', '"+br+"')", false)
			for j, x := range branches {
				if x == br {
					branches = append(branches[:j], branches[j+1:]...)
					break
				}
			}
			classes["deletion"] = true
		case "merge":
			if br == "main" {
				continue
			}
			must("CALL dolt_checkout('main')")
			run("CALL dolt_merge('"+br+"')", false)
			depth["main"] += depth[br] // upper bound is enough
		case "reset":
			if depth[br] < 2 {
				continue
			}
			must("CALL dolt_checkout('" + br + "')")
			run("CALL dolt_reset('--hard', 'HEAD~1')", false)
			depth[br] = 1 // conservative: do not reset this branch again before it grows
			classes["non_ff_move"] = true
		case "amend":
			// rewrites the tip: the new head has the height of the one it replaces
			must("CALL dolt_checkout('" + br + "')")
			nextPK++
			run(fmt.Sprintf("CALL dolt_commit('--amend', '-m', 'amended %d on %s')", nextPK, br), false)
			classes["non_ff_move"] = true
		case "branch_force":
			// moves a side branch to an older or sibling commit
			if br == "main" {
				continue
			}
			targets := []string{"main"}
			if depth["main"] >= 2 {
				targets = append(targets, "main~1", "main~1")
			}
			for _, x := range branches {
				if x != br && x != "main" {
					targets = append(targets, x)
				}
			}
			target := rapid.SampledFrom(targets).Draw(rt, lbl+"_target")
			must("CALL dolt_checkout('main')")
			run("CALL dolt_branch('-f', '"+br+"', '"+target+"')", false)
			depth[br] = 1
			classes["non_ff_move"] = true
		case "tag":
			nextPK++
			must("CALL dolt_checkout('" + br + "')")
			run(fmt.Sprintf("CALL dolt_tag('v%d')", nextPK), false)
		case "away":
			if away {
				continue
			}
			if err := os.Rename(remoteDir, awayDir); err != nil {
				fatalf("rename away: %v", err)
			}
			away, everAway, awaySince = true, true, i
			log = append(log, "-- remote directory renamed away")
		case "back":
			if !away {
				continue
			}
			_ = os.RemoveAll(remoteDir)
			if err := os.Rename(awayDir, remoteDir); err != nil {
				fatalf("rename back: %v", err)
			}
			away = false
			log = append(log, "-- remote directory renamed back")
		}
		opsDesc = append(opsDesc, kind+":"+br)
	}
	if away {
		_ = os.RemoveAll(remoteDir)
		_ = os.Rename(awayDir, remoteDir)
	}
	nBranchesMoved := 0
	for k := range moved {
		if strings.HasPrefix(k, "branch ") {
			nBranchesMoved++
		}
	}
	var cl []string
	for k := range classes {
		cl = append(cl, k)
	}
	sort.Strings(cl)
	if async {
		cl = append(cl, "async")
	} else {
		cl = append(cl, "sync")
	}
	if awaySteps > 0 {
		cl = append(cl, "moved_refs_while_away")
	}
	cl = append(cl, gcNameCase(db))
	for k := range wide {
		cl = append(cl, "wide:"+k)
	}
	nontrivial := nBranchesMoved >= 2 && (classes["deletion"] || classes["non_ff_move"]) && awaySteps > 0
	rec.Case(fmt.Sprintf("async=%v ops=[%s]", async, strings.Join(opsDesc, " ")), nontrivial, cl...)
}

// ---------------------------------------------------------------------------------------
// (b) read replica

func c45ReplicaCase(rt *rapid.T, env *c45Env, rec *vh.Recorder) {
	srv, admin := env.srv, env.admin
	pdb := gcDrawDBName(rt, srv, "primary")
	rdb := gcDrawDBName(rt, srv, "replica")
	remoteDir := filepath.Join(env.scratch, "remote-"+pdb)
	url := "file://" + remoteDir
	var log []string
	fatalf := func(format string, args ...any) {
		rt.Helper()
		rt.Fatalf("%s\nstatements:\n  %s", fmt.Sprintf(format, args...), strings.Join(log, "\n  "))
	}
	admin.MustExec(rt, "CREATE DATABASE `"+pdb+"`")
	defer func() {
		env.resetGlobals()
		for _, d := range []string{rdb, pdb} {
			_ = admin.Exec("DROP DATABASE IF EXISTS `" + d + "`") // refused for the replica ("unable to drop database")
		}
	}()
	p := srv.Session(rt, "p", gcSpell(rt, "primary", pdb))
	defer p.Close()
	px := func(q string) {
		rt.Helper()
		log = append(log, "[p] "+q)
		if err := p.Exec(q); err != nil {
			fatalf("[p] %s: %v", q, err)
		}
	}
	record := map[string][]string{}
	wide := map[string]bool{}
	history := map[string]map[string]bool{}
	current := map[string]string{} // remote's current branch heads
	noteRemote := func(when string) {
		refs, err := c45DirRefs(remoteDir)
		if err != nil {
			fatalf("%s: remote: %v", when, err)
		}
		current = map[string]string{}
		for k, h := range refs {
			if b, ok := strings.CutPrefix(k, "branch "); ok {
				current[b] = h
				if history[b] == nil {
					history[b] = map[string]bool{}
				}
				history[b][h] = true
			}
		}
	}
	head := func(b string) string {
		h, ok := p.Scalar(rt, "SELECT hash FROM dolt_branches WHERE name = ?", b)
		if !ok {
			fatalf("primary has no branch %s", b)
		}
		return h
	}
	remember := func(b string) {
		h := head(b)
		if _, ok := record[h]; !ok {
			record[h] = c35Render(p, h)
		}
	}
	nextPK := 0
	commitOn := func(b string) {
		px("CALL dolt_checkout('" + b + "')")
		nextPK++
		px(fmt.Sprintf("INSERT INTO t VALUES (%d, '%s', %d, %s)", 100+nextPK, b, nextPK, c45Wide(rt, fmt.Sprintf("commit%d", nextPK), 100+nextPK, wide)))
		px(fmt.Sprintf("CALL dolt_commit('-am', 'c%d on %s')", nextPK, b))
		remember(b)
	}
	px("CREATE TABLE t (pk INT PRIMARY KEY, br VARCHAR(20), v INT, doc TEXT, js JSON)")
	px("INSERT INTO t VALUES (1, 'init', 1, 'small', NULL), (2, 'init', 2, '" + gcBigString(2, 5000) + "', NULL)")
	px("CALL dolt_commit('-Am', 'init')")
	remember("main")
	commitOn("main")
	px(fmt.Sprintf("CALL dolt_remote('add', 'origin', '%s')", url))
	px("CALL dolt_push('origin', 'main')")
	mode := rapid.SampledFrom([]string{"all", "all", "all", "main,b1", "main,b1", "main"}).Draw(rt, "replicated_heads")
	pBranches := []string{"main", "b1"}
	depth := map[string]int{"main": 2, "b1": 3}
	px("CALL dolt_checkout('-b', 'b1')")
	commitOn("b1")
	px("CALL dolt_push('origin', 'b1')")
	noteRemote("after the initial push")
	listed := map[string]bool{}
	admin.MustExec(rt, "SET @@GLOBAL.dolt_read_replica_remote = 'origin'")
	if mode == "all" {
		admin.MustExec(rt, "SET @@GLOBAL.dolt_replicate_all_heads = 1")
	} else {
		admin.MustExec(rt, "SET @@GLOBAL.dolt_replicate_heads = '"+mode+"'")
		for _, b := range strings.Split(mode, ",") {
			listed[b] = true
		}
	}
	log = append(log, "-- replica mode "+mode)
	if err := admin.Exec(fmt.Sprintf("CALL dolt_clone('%s', '%s')", url, rdb)); err != nil {
		fatalf("dolt_clone of the replica: %v", err)
	}
	r1 := srv.Session(rt, "r1", gcSpell(rt, "r1", rdb))
	defer r1.Close()
	r2 := srv.Session(rt, "r2", gcSpell(rt, "r2", rdb))
	defer r2.Close()
	inTxn := false

	read := func(se *vsql.Session, why string) map[string]string {
		r, err := se.Query("SELECT name, hash FROM dolt_branches")
		if err != nil {
			fatalf("[%s] reading dolt_branches (%s): %v", se.Name, why, err)
		}
		got := map[string]string{}
		for _, row := range r.Data {
			got[row[0]] = row[1]
			if !history[row[0]][row[1]] {
				var had []string
				for h := range history[row[0]] {
					had = append(had, h)
				}
				sort.Strings(had)
				fatalf("[%s] (%s) the replica shows branch %s at %s; the remote has had that branch only at %v", se.Name, why, row[0], row[1], had)
			}
		}
		log = append(log, fmt.Sprintf("[%s] read (%s): {%s}", se.Name, why, c45ShowMap(got)))
		return got
	}
	settles := 0
	settle := func() {
		read(r1, "first of two")
		got := read(r1, "settled")
		for b, h := range current {
			if mode != "all" && !listed[b] {
				continue
			}
			if got[b] != h {
				fatalf("settled replica read: branch %s is %q, the remote has %s", b, got[b], h)
			}
		}
		if mode == "all" {
			for b := range got {
				if _, ok := current[b]; !ok {
					fatalf("settled replica read: branch %s is still shown at %s although it was deleted on the remote", b, got[b])
				}
			}
		}
		for b, h := range got {
			want, ok := record[h]
			if !ok {
				fatalf("settled replica read: head %s of %s was never committed on the primary", h, b)
			}
			if d := c35RenderDiff(want, c35Render(r1, h)); len(d) > 0 {
				fatalf("settled replica read: %s at %s does not look like the commit made on the primary:\n  %s", b, h, strings.Join(d, "\n  "))
			}
			wr, err := r1.Query(fmt.Sprintf("SELECT * FROM `%s/%s`.t", rdb, b))
			if err != nil {
				fatalf("settled replica read: working set of %s: %v", b, err)
			}
			hr, err := r1.Query(fmt.Sprintf("SELECT * FROM t AS OF '%s'", h))
			if err != nil {
				fatalf("settled replica read: rows of %s: %v", h, err)
			}
			if !vsql.EqualStrings(wr.Sorted(), hr.Sorted()) {
				fatalf("settled replica read: working set of %s has %s, its head %s has %s", b, vsql.Show(wr.Sorted()), h, vsql.Show(hr.Sorted()))
			}
		}
		if n, missing, err := gcClosure(srv, rdb); err != nil {
			fatalf("closure walk of the replica: %v", err)
		} else if len(missing) > 0 {
			fatalf("closure walk of the replica (%d chunks): dangling references:\n  %s", n, strings.Join(missing, "\n  "))
		}
		settles++
	}
	settle()
	var opsDesc []string
	special := map[string]bool{}
	specialBeforeSettle := false
	pending := false
	nOps := rapid.IntRange(10, 16).Draw(rt, "ops")
	for i := 0; i < nOps; i++ {
		lbl := fmt.Sprintf("op%d", i)
		kind := rapid.SampledFrom([]string{"commit_push", "commit_push", "commit_push", "commit_only", "force_push", "force_push", "new_branch", "new_branch", "delete_remote", "delete_remote", "read", "read", "txn_begin", "txn_read", "txn_commit", "settle", "settle"}).Draw(rt, lbl)
		br := pBranches[rapid.IntRange(0, len(pBranches)-1).Draw(rt, lbl+"_branch")]
		switch kind {
		case "commit_push":
			commitOn(br)
			depth[br]++
			px("CALL dolt_push('origin', '" + br + "')")
			noteRemote("after push of " + br)
		case "commit_only":
			commitOn(br)
			depth[br]++
			// keep the primary pushable without force later: push happens with the next commit_push
		case "force_push":
			if depth[br] < 3 {
				continue
			}
			px("CALL dolt_checkout('" + br + "')")
			px("CALL dolt_reset('--hard', 'HEAD~1')")
			depth[br]--
			remember(br)
			px("CALL dolt_push('--force', 'origin', '" + br + "')")
			noteRemote("after force push of " + br)
			special["force_push"] = true
			pending = true
		case "new_branch":
			if len(pBranches) >= 4 {
				continue
			}
			nb := fmt.Sprintf("n%d", i)
			px("CALL dolt_checkout('" + br + "')")
			px("CALL dolt_checkout('-b', '" + nb + "')")
			depth[nb] = depth[br]
			commitOn(nb)
			depth[nb]++
			px("CALL dolt_push('origin', '" + nb + "')")
			pBranches = append(pBranches, nb)
			noteRemote("after push of new branch " + nb)
		case "delete_remote":
			if br == "main" || listed[br] {
				continue
			}
			if _, ok := current[br]; !ok {
				continue
			}
			px("CALL dolt_checkout('main')")
			log = append(log, "[p] CALL dolt_push('origin', ':"+br+"')")
			if err := p.Exec("CALL dolt_push('origin', ':" + br + "')"); err != nil {
				// a force-pushed branch keeps a working set on the file remote that later pushes leave
				// behind; dolt then wants --force for the deletion (not part of this property)
				if !strings.Contains(err.Error(), "uncommitted changes") {
					fatalf("[p] deleting remote branch %s: %v", br, err)
				}
				px("CALL dolt_push('--force', 'origin', ':" + br + "')")
			}
			px("CALL dolt_branch('-D', '" + br + "')")
			for j, x := range pBranches {
				if x == br {
					pBranches = append(pBranches[:j], pBranches[j+1:]...)
					break
				}
			}
			noteRemote("after deleting remote branch " + br)
			special["deletion"] = true
			pending = true
		case "read":
			read(r1, "autocommit")
		case "txn_begin":
			if inTxn {
				continue
			}
			log = append(log, "[r2] START TRANSACTION")
			if err := r2.Exec("START TRANSACTION"); err != nil {
				fatalf("[r2] START TRANSACTION: %v", err)
			}
			inTxn = true
		case "txn_read":
			read(r2, fmt.Sprintf("in transaction=%v", inTxn))
		case "txn_commit":
			if !inTxn {
				continue
			}
			log = append(log, "[r2] COMMIT")
			if err := r2.Exec("COMMIT"); err != nil {
				fatalf("[r2] COMMIT: %v", err)
			}
			inTxn = false
		case "settle":
			settle()
			if pending {
				specialBeforeSettle = true
				pending = false
			}
		}
		opsDesc = append(opsDesc, kind+":"+br)
	}
	if inTxn {
		_ = r2.Exec("COMMIT")
	}
	settle()
	if pending {
		specialBeforeSettle = true
	}
	replicated := 0
	for b := range history {
		if mode == "all" || listed[b] {
			replicated++
		}
	}
	cl := []string{"mode=" + mode, fmt.Sprintf("settles=%d", min(settles, 5)), "primary_" + gcNameCase(pdb), "replica_" + gcNameCase(rdb)}
	for k := range special {
		cl = append(cl, k)
	}
	for k := range wide {
		cl = append(cl, "wide:"+k)
	}
	sort.Strings(cl)
	rec.Case(fmt.Sprintf("mode=%s ops=[%s]", mode, strings.Join(opsDesc, " ")), replicated >= 2 && specialBeforeSettle, cl...)
}
