package sqlgc

// C35 — push, pull, fetch and clone transfer complete and consistent data (SQL part).
//
// Three databases of one server (an author `a` and two clones `b`, `c` of the same file
// remote) commit, branch, tag, push [--force], push tags, delete remote branches, fetch, pull
// (fast-forward and merge), race two pushes, clone afresh, and sync / restore backups, in a
// drawn order. The harness keeps a model of the remote (branch and tag -> commit hash) and a
// record "commit hash -> what that commit looks like through SQL" taken where the commit was
// created. After every transfer the destination's refs must have the hashes the model
// predicts, every ref at the destination must look exactly like its commit's record, and the
// physical closure walk over the destination's chunk store must find every address.

import (
	"context"
	"fmt"
	"path/filepath"
	"sort"
	"strings"
	"testing"

	"pgregory.net/rapid"

	"github.com/dolthub/dolt/go/libraries/doltcore/dbfactory"
	"github.com/dolthub/dolt/go/libraries/doltcore/doltdb"
	"github.com/dolthub/dolt/go/libraries/doltcore/ref"
	"github.com/dolthub/dolt/go/libraries/utils/filesys"
	"github.com/dolthub/dolt/go/store/hash"
	"github.com/dolthub/dolt/go/store/types"
	"github.com/dolthub/dolt/go/zzverif/vh"
	"github.com/dolthub/dolt/go/zzverif/vsql"
)

const c35Rule = "one server per test; every database name (author, clones, restored backups) is created in a drawn case (lower / Mixed / UPPER) and spelled by its session in a drawn case; per case a file remote (file:// URL under the scratch dir), an author database `a` (table t, 3-5 rows, optionally 200 bulk rows, and table big(pk, who, doc TEXT, bin BLOB, js JSON) with 1-2 rows, pushed as main) and two databases `b`, `c` made by dolt_clone; then 10-16 drawn operations by a drawn actor: commit (a fresh row of t, in 2 of 3 commits instead a fresh row of big whose TEXT / BLOB / JSON cells are drawn from the size classes inline (1-300 bytes), around the 2048-byte inline/out-of-line threshold, out of line (2.5-7 KB) and multi-chunk (12-24 KB), optionally rewriting a wide cell of an older row of the same author; or a new table) on main/b1/b2, tag, dolt_push [--force] of a branch, push of a tag, deletion of a remote branch (push origin :b), dolt_fetch, dolt_pull (fast-forward, up-to-date or merge of disjoint rows), race (two actors pull the same branch, both commit, both push without --force in a drawn order), a fresh dolt_clone into a new database, dolt_backup add+sync (optionally over a dirty working set) followed by dolt_backup restore. Model: remote branch/tag -> hash, updated only by operations that must succeed; a non-force push must succeed iff the remote branch is absent, equal to, or an ancestor (by dolt_log at the pusher) of the pushed head, otherwise it must fail and leave every remote ref as it was. Oracle after every transfer: the remote's datasets (opened in process from its directory, no cache) equal the model; destination refs (remote-tracking refs after fetch/pull/clone, the local branch after pull: == remote head on fast-forward, a commit with both heads as ancestors on merge) have the predicted hashes; every ref of the destination database renders (hash, dolt_log, tables, schemas, all rows AS OF incl. the wide cells, i.e. they are read back through SQL at the destination) exactly like the record taken where that commit was created; closure walk (types.WalkAddrsFromNomsValue from every dataset head) over the destination chunk store (remote directory, clone, backup directory) finds every address; a backup's root hash equals the source's and the restored database's vsql.Fingerprint equals the source's; of two racing pushes exactly the first succeeds. Non-trivial (DESIGN): at least two successful data-carrying transfers into a destination that already held part of the data, at least two distinct branches or tags transferred, and at least one rejected push, forced push, merge pull or remote branch deletion; distinct by operation list."

var c35Assumptions = []string{
	"file remotes only (the HTTP remote backend and real multi-process pushers are not covered by this part)",
	"actors insert rows with primary keys from a per-case counter and create tables with unique names, so merges made by dolt_pull never conflict; working sets are clean whenever a pull runs",
	"dolt_fetch is not required to prune remote-tracking refs of branches deleted on the remote, nor to bring tags whose commits are not reachable from a fetched branch",
	"a remote branch is deleted (push origin :b) only by an actor that has the remote-tracking ref of b (it fetches first otherwise): without it dolt deletes the remote branch and then reports 'branch not found' for the tracking ref",
	"deleting a remote branch is retried with --force when dolt refuses it with 'target has uncommitted changes' (a force push leaves a working set for the branch on the file remote, later fast-forward pushes do not move it); remote branch deletion is not part of the property, only its effect on the refs is modelled",
	"identical commit hashes are taken to mean identical history (content addressing); what is compared per ref is the SQL rendering of hash, log, schemas and rows",
}

type c35Actor struct {
	name string
	db   string
	se   *vsql.Session
	// branches known to have been checked out locally
}

type c35Case struct {
	rt        *rapid.T
	srv       *vsql.Server
	admin     *vsql.Session
	scratch   string
	remoteDir string
	remoteURL string
	actors    []*c35Actor
	rBranch   map[string]string   // model of the remote: branch -> hash
	rTag      map[string]string   // tag -> commit hash
	record    map[string][]string // commit hash -> rendering
	log       []string
	ops       []string
	nextPK    int
	nextName  int
	dbs       []string
	// evidence
	xferIntoNonEmpty int
	refsMoved        map[string]bool
	special          map[string]bool
	wide             map[string]bool // size classes of TEXT / BLOB / JSON cells that were committed
}

func (c *c35Case) fatalf(format string, args ...any) {
	c.rt.Helper()
	c.rt.Fatalf("%s\nstatements:\n  %s", fmt.Sprintf(format, args...), strings.Join(c.log, "\n  "))
}

func (c *c35Case) x(se *vsql.Session, q string) {
	c.rt.Helper()
	c.log = append(c.log, "["+se.Name+"] "+c08Clip(q))
	if err := se.Exec(q); err != nil {
		c.fatalf("[%s] %s: %v", se.Name, c08Clip(q), err)
	}
}

func (c *c35Case) xe(se *vsql.Session, q string) error {
	err := se.Exec(q)
	if err != nil {
		c.log = append(c.log, "["+se.Name+"] "+c08Clip(q)+" -> error: "+c08Short(err))
	} else {
		c.log = append(c.log, "["+se.Name+"] "+c08Clip(q))
	}
	return err
}

// c35Render reads how ref (a hash or ref name) of the session's database looks through SQL;
// same queries as vsql.Fingerprint uses per ref.
func c35Render(se *vsql.Session, ref string) []string {
	var out []string
	q := func(label, sql string, ordered bool) {
		r, err := se.Query(sql)
		if err != nil {
			out = append(out, label+"\x1eERROR: "+err.Error())
			return
		}
		if ordered {
			out = append(out, label+"\x1e"+strings.Join(r.Ordered(), "\x1d"))
		} else {
			out = append(out, label+"\x1e"+strings.Join(r.Sorted(), "\x1d"))
		}
	}
	q("log", fmt.Sprintf("SELECT commit_hash FROM dolt_log('%s')", ref), true)
	tr, err := se.Query(fmt.Sprintf("SHOW TABLES AS OF '%s'", ref))
	if err != nil {
		return append(out, "tables\x1eERROR: "+err.Error())
	}
	var tables []string
	for _, row := range tr.Data {
		tables = append(tables, row[0])
	}
	sort.Strings(tables)
	out = append(out, "tables\x1e"+strings.Join(tables, ","))
	for _, tb := range tables {
		q("schema/"+tb, fmt.Sprintf("SHOW CREATE TABLE `%s` AS OF '%s'", tb, ref), true)
		q("rows/"+tb, fmt.Sprintf("SELECT * FROM `%s` AS OF '%s'", tb, ref), false)
	}
	return out
}

func c35RenderDiff(want, got []string) []string {
	w := make([]string, len(want))
	g := make([]string, len(got))
	for i, l := range want {
		w[i] = "r:" + l
	}
	for i, l := range got {
		g[i] = "r:" + l
	}
	return vsql.DiffFingerprints(w, g)
}

type c35Ref struct{ kind, name, hash string }

func (c *c35Case) refsOf(se *vsql.Session) []c35Ref {
	var out []c35Ref
	for _, src := range []struct{ kind, sql string }{
		{"branch", "SELECT name, hash FROM dolt_branches ORDER BY name"},
		{"tag", "SELECT tag_name, tag_hash FROM dolt_tags ORDER BY tag_name"},
		{"remote", "SELECT name, hash FROM dolt_remote_branches ORDER BY name"},
	} {
		r, err := se.Query(src.sql)
		if err != nil {
			c.fatalf("[%s] %s: %v", se.Name, src.sql, err)
		}
		for _, row := range r.Data {
			out = append(out, c35Ref{src.kind, row[0], row[1]})
		}
	}
	return out
}

func (c *c35Case) refHash(se *vsql.Session, kind, name string) string {
	for _, r := range c.refsOf(se) {
		if r.kind == kind && r.name == name {
			return r.hash
		}
	}
	return ""
}

// remember records what commit h looks like at its author.
func (c *c35Case) remember(se *vsql.Session, h string) {
	if _, ok := c.record[h]; ok {
		return
	}
	r := c35Render(se, h)
	for _, l := range r {
		if strings.Contains(l, "\x1eERROR: ") {
			c.fatalf("generator: commit %s is not readable where it was created: %s", h, l)
		}
	}
	c.record[h] = r
}

// checkDB verifies every ref of a database against the records and walks its closure.
func (c *c35Case) checkDB(se *vsql.Session, db, when string) {
	for _, r := range c.refsOf(se) {
		want, ok := c.record[r.hash]
		if !ok {
			c.fatalf("%s: %s %s of %s points to %s, a commit no actor created", when, r.kind, r.name, db, r.hash)
		}
		if d := c35RenderDiff(want, c35Render(se, r.hash)); len(d) > 0 {
			c.fatalf("%s: %s %s of %s (%s) does not look like the commit its author created:\n  %s", when, r.kind, r.name, db, r.hash, strings.Join(d, "\n  "))
		}
	}
	n, missing, err := gcClosure(c.srv, db)
	if err != nil {
		c.fatalf("%s: closure walk of %s: %v", when, db, err)
	}
	if len(missing) > 0 {
		c.fatalf("%s: closure walk of %s (%d chunks): dangling references:\n  %s", when, db, n, strings.Join(missing, "\n  "))
	}
}

func c35OpenDir(dir string) (*doltdb.DoltDB, error) {
	params := map[string]interface{}{dbfactory.DisableSingletonCacheParam: "true"}
	return doltdb.LoadDoltDBWithParams(context.Background(), types.Format_DOLT, "file://"+dir, filesys.LocalFS, params)
}

// dirHeads opens a remote/backup directory without any cache and returns its datasets,
// its root hash, and the closure verdict.
func (c *c35Case) dirHeads(dir, when string) (map[string]hash.Hash, hash.Hash) {
	ddb, err := c35OpenDir(dir)
	if err != nil {
		c.fatalf("%s: cannot open %s: %v", when, dir, err)
	}
	defer ddb.Close()
	ctx := context.Background()
	heads, err := gcHeads(ctx, ddb)
	if err != nil {
		c.fatalf("%s: datasets of %s: %v", when, dir, err)
	}
	root, err := ddb.NomsRoot(ctx)
	if err != nil {
		c.fatalf("%s: root of %s: %v", when, dir, err)
	}
	n, missing, err := gcClosureDDB(ctx, ddb)
	if err != nil {
		c.fatalf("%s: closure walk of %s: %v", when, dir, err)
	}
	if len(missing) > 0 {
		c.fatalf("%s: closure walk of %s (%d chunks): dangling references:\n  %s", when, dir, n, strings.Join(missing, "\n  "))
	}
	return heads, root
}

// checkRemote compares the remote directory with the model.
func (c *c35Case) checkRemote(when string) {
	heads, _ := c.dirHeads(c.remoteDir, when)
	ddb, err := c35OpenDir(c.remoteDir)
	if err != nil {
		c.fatalf("%s: cannot open remote: %v", when, err)
	}
	defer ddb.Close()
	ctx := context.Background()
	got := map[string]string{}
	for id, addr := range heads {
		switch {
		case strings.HasPrefix(id, "refs/heads/"):
			got["branch "+strings.TrimPrefix(id, "refs/heads/")] = addr.String()
		case strings.HasPrefix(id, "refs/tags/"):
			// a tag dataset points to a tag object; resolve to its commit
			name := strings.TrimPrefix(id, "refs/tags/")
			tg, err := ddb.ResolveTag(ctx, ref.NewTagRef(name))
			if err != nil {
				c.fatalf("%s: remote tag %s cannot be resolved: %v", when, name, err)
			}
			h, err := tg.Commit.HashOf()
			if err != nil {
				c.fatalf("%s: remote tag %s: %v", when, name, err)
			}
			got["tag "+name] = h.String()
		case strings.HasPrefix(id, "workingSets/"):
			// file remotes may carry working sets of pushed branches; not part of the model
		default:
			got["other "+id] = addr.String()
		}
	}
	want := map[string]string{}
	for b, h := range c.rBranch {
		want["branch "+b] = h
	}
	for t, h := range c.rTag {
		want["tag "+t] = h
	}
	keys := map[string]struct{}{}
	for k := range got {
		keys[k] = struct{}{}
	}
	for k := range want {
		keys[k] = struct{}{}
	}
	var ks []string
	for k := range keys {
		ks = append(ks, k)
	}
	sort.Strings(ks)
	var diffs []string
	for _, k := range ks {
		if got[k] != want[k] {
			diffs = append(diffs, fmt.Sprintf("%s: expected %q, remote has %q", k, want[k], got[k]))
		}
	}
	if len(diffs) > 0 {
		c.fatalf("%s: remote refs differ from the model:\n  %s", when, strings.Join(diffs, "\n  "))
	}
}

func (c *c35Case) isAncestor(se *vsql.Session, anc, desc string) bool {
	if anc == desc {
		return true
	}
	r, err := se.Query(fmt.Sprintf("SELECT count(*) FROM dolt_log('%s') WHERE commit_hash = '%s'", desc, anc))
	if err != nil {
		c.fatalf("[%s] dolt_log('%s'): %v", se.Name, desc, err)
	}
	return len(r.Data) == 1 && r.Data[0][0] != "0"
}

// ensureBranch checks branch out at the actor, creating it when needed.
func (c *c35Case) ensureBranch(a *c35Actor, branch string) {
	if c.refHash(a.se, "branch", branch) != "" {
		c.x(a.se, "CALL dolt_checkout('"+branch+"')")
		return
	}
	if c.refHash(a.se, "remote", "remotes/origin/"+branch) != "" {
		c.x(a.se, "CALL dolt_checkout('"+branch+"')") // creates a tracking branch
		return
	}
	c.x(a.se, "CALL dolt_checkout('main')")
	c.x(a.se, "CALL dolt_checkout('-b', '"+branch+"')")
}

func (c *c35Case) commitOn(a *c35Actor, branch string, newTable bool) string {
	c.ensureBranch(a, branch)
	if newTable {
		c.nextName++
		c.x(a.se, fmt.Sprintf("CREATE TABLE x%d_%s (pk INT PRIMARY KEY, note VARCHAR(40))", c.nextName, a.name))
		c.x(a.se, fmt.Sprintf("INSERT INTO x%d_%s VALUES (1, 'made by %s')", c.nextName, a.name, a.name))
	} else if lbl := fmt.Sprintf("commit%d", len(c.log)); rapid.IntRange(0, 2).Draw(c.rt, lbl+"_wide_row") > 0 {
		// a row with TEXT / BLOB / JSON cells around the inline / out-of-line threshold, optionally together
		// with a rewrite of a wide cell of an older row of the same author (nobody else touches that row)
		c.nextPK++
		row, classes := gcBigRow(c.rt, lbl, c.nextPK, a.name)
		c.x(a.se, "INSERT INTO big VALUES "+row)
		for _, cl := range classes {
			c.wide[cl] = true
		}
		if rapid.Bool().Draw(c.rt, lbl+"_rewrite_older") {
			n, cl := gcBigSize(c.rt, lbl+"_rewrite")
			c.x(a.se, fmt.Sprintf("UPDATE big SET doc = '%s' WHERE who = '%s' AND pk < %d ORDER BY pk LIMIT 1", gcBigString(c.nextPK*4+1, n)+"-rewritten", a.name, c.nextPK))
			c.wide["rewrite:"+cl] = true
		}
	} else {
		c.nextPK++
		c.x(a.se, fmt.Sprintf("INSERT INTO t VALUES (%d, '%s', %d, '%s')", c.nextPK, a.name, c.nextPK*3, strings.Repeat(fmt.Sprintf("%s%d.", a.name, c.nextPK), 10)))
	}
	c.x(a.se, fmt.Sprintf("CALL dolt_commit('-Am', '%s on %s #%d')", a.name, branch, len(c.log)))
	h := c.refHash(a.se, "branch", branch)
	c.remember(a.se, h)
	return h
}

// push runs a push that the model can predict. Returns whether it succeeded.
func (c *c35Case) push(a *c35Actor, branch string, force bool) bool {
	local := c.refHash(a.se, "branch", branch)
	if local == "" {
		c.fatalf("generator: %s has no branch %s", a.name, branch)
	}
	rh, onRemote := c.rBranch[branch]
	mustSucceed := force || !onRemote
	if !mustSucceed {
		// the pusher can only judge ancestry of commits it has
		if _, err := a.se.Query(fmt.Sprintf("SELECT commit_hash FROM dolt_log('%s') LIMIT 1", rh)); err == nil {
			mustSucceed = c.isAncestor(a.se, rh, local)
		}
	}
	q := "CALL dolt_push('origin', '" + branch + "')"
	if force {
		q = "CALL dolt_push('--force', 'origin', '" + branch + "')"
	}
	err := c.xe(a.se, q)
	when := fmt.Sprintf("after %s by %s (local %s, remote had %q)", q, a.name, local, rh)
	if mustSucceed {
		if err != nil && !(onRemote && rh == local && strings.Contains(strings.ToLower(err.Error()), "up-to-date")) {
			c.fatalf("%s: the push had to succeed: %v", when, err)
		}
		if onRemote && rh != local {
			c.xferIntoNonEmpty++
		}
		if force && onRemote && !c.isAncestorMaybe(a.se, rh, local) {
			c.special["forced_non_ff"] = true
		}
		c.rBranch[branch] = local
		c.refsMoved["branch "+branch] = true
		c.checkRemote(when)
		if got := c.refHash(a.se, "remote", "remotes/origin/"+branch); got != local {
			c.fatalf("%s: the pusher's remote-tracking ref is %q", when, got)
		}
		return true
	}
	if err == nil {
		c.fatalf("%s: a non-force push of a head that does not contain the remote's head succeeded", when)
	}
	c.special["rejected_push"] = true
	c.checkRemote(when + " (rejected)")
	return false
}

func (c *c35Case) isAncestorMaybe(se *vsql.Session, anc, desc string) bool {
	if _, err := se.Query(fmt.Sprintf("SELECT commit_hash FROM dolt_log('%s') LIMIT 1", anc)); err != nil {
		return false
	}
	return c.isAncestor(se, anc, desc)
}

func (c *c35Case) fetch(a *c35Actor) {
	c.x(a.se, "CALL dolt_fetch('origin')")
	when := "after dolt_fetch by " + a.name
	for b, h := range c.rBranch {
		if got := c.refHash(a.se, "remote", "remotes/origin/"+b); got != h {
			c.fatalf("%s: remotes/origin/%s is %q, the remote has %s", when, b, got, h)
		}
	}
	for tname, h := range c.rTag {
		if got := c.refHash(a.se, "tag", tname); got != "" && got != h {
			c.fatalf("%s: tag %s is %s, the remote has %s", when, tname, got, h)
		}
	}
	c.checkDB(a.se, a.db, when)
}

func (c *c35Case) pull(a *c35Actor, branch string) {
	rh, ok := c.rBranch[branch]
	if !ok {
		c.fatalf("generator: pull of a branch the remote does not have")
	}
	c.ensureBranch(a, branch)
	local := c.refHash(a.se, "branch", branch)
	c.x(a.se, "CALL dolt_pull('origin', '"+branch+"')")
	when := fmt.Sprintf("after dolt_pull('origin','%s') by %s (local was %s, remote %s)", branch, a.name, local, rh)
	after := c.refHash(a.se, "branch", branch)
	if got := c.refHash(a.se, "remote", "remotes/origin/"+branch); got != rh {
		c.fatalf("%s: remotes/origin/%s is %q", when, branch, got)
	}
	switch {
	case c.isAncestor(a.se, local, rh): // fast-forward (or equal)
		if after != rh {
			c.fatalf("%s: expected a fast-forward to %s, branch is at %s", when, rh, after)
		}
		if local != rh {
			c.xferIntoNonEmpty++
		}
	case c.isAncestor(a.se, rh, local): // already contains it
		if after != local {
			c.fatalf("%s: the branch already contained the remote head but moved to %s", when, after)
		}
	default: // merge
		if after == local || after == rh {
			c.fatalf("%s: histories diverged, expected a merge commit, branch is at %s", when, after)
		}
		if !c.isAncestor(a.se, local, after) || !c.isAncestor(a.se, rh, after) {
			c.fatalf("%s: the merge commit %s does not have both heads as ancestors", when, after)
		}
		// the merged table must be the union of both sides (disjoint keys, new tables)
		for _, side := range []string{local, rh} {
			r, err := a.se.Query(fmt.Sprintf("SELECT count(*) FROM (SELECT * FROM t AS OF '%s' EXCEPT SELECT * FROM t AS OF '%s') d", side, after))
			if err != nil {
				c.fatalf("%s: comparing rows: %v", when, err)
			}
			if r.Data[0][0] != "0" {
				c.fatalf("%s: %s rows of %s are missing in the merge commit %s", when, r.Data[0][0], side, after)
			}
		}
		c.remember(a.se, after)
		c.special["merge_pull"] = true
		c.xferIntoNonEmpty++
	}
	c.refsMoved["branch "+branch] = true
	c.checkDB(a.se, a.db, when)
}

func (c *c35Case) cloneFresh(label string) *c35Actor {
	db := gcDrawDBName(c.rt, c.srv, "clone_"+label)
	c.dbs = append(c.dbs, db)
	c.x(c.admin, fmt.Sprintf("CALL dolt_clone('%s', '%s')", c.remoteURL, db))
	se := c.srv.Session(c.rt, label, gcSpell(c.rt, "clone_"+label, db))
	when := "after dolt_clone into " + db
	refs := c.refsOf(se)
	gotRemote, gotTag := map[string]string{}, map[string]string{}
	for _, r := range refs {
		switch r.kind {
		case "remote":
			gotRemote[strings.TrimPrefix(r.name, "remotes/origin/")] = r.hash
		case "tag":
			gotTag[r.name] = r.hash
		case "branch":
			if c.rBranch[r.name] != r.hash {
				c.fatalf("%s: local branch %s is at %s, the remote has %q", when, r.name, r.hash, c.rBranch[r.name])
			}
		}
	}
	for b, h := range c.rBranch {
		if gotRemote[b] != h {
			c.fatalf("%s: remotes/origin/%s is %q, the remote has %s", when, b, gotRemote[b], h)
		}
	}
	for b := range gotRemote {
		if _, ok := c.rBranch[b]; !ok {
			c.fatalf("%s: the clone has remotes/origin/%s which the remote does not have", when, b)
		}
	}
	for tn, h := range c.rTag {
		if gotTag[tn] != h {
			c.fatalf("%s: tag %s is %q, the remote has %s", when, tn, gotTag[tn], h)
		}
	}
	for tn := range gotTag {
		if _, ok := c.rTag[tn]; !ok {
			c.fatalf("%s: the clone has tag %s which the remote does not have", when, tn)
		}
	}
	c.checkDB(se, db, when)
	if errs := c08Errors(vsql.Fingerprint(c.rt, c.srv, db)); len(errs) > 0 {
		c.fatalf("%s: parts of the clone are unreadable: %v", when, errs)
	}
	return &c35Actor{name: label, db: db, se: se}
}

func TestVerif_C35(t *testing.T) {
	rec := vh.NewRecorder("C35", "sql", "exploration", c35Rule, c35Assumptions...)
	defer rec.Write(t)
	dir, cleanup := vh.ScratchDir(t, "c35")
	defer cleanup()
	srv, err := vsql.StartServer(dir)
	if err != nil {
		vh.Inconclusive(t, "start server: %v", err)
	}
	defer srv.Stop()
	admin := srv.Session(t, "admin", "")
	defer admin.Close()
	admin.MustExec(t, "CREATE DATABASE home")
	admin.MustExec(t, "USE home")
	vh.Check(t, "sql", 40, 40, func(rt *rapid.T) {
		c35Run(rt, srv, admin, dir, rec)
	})
}

func c35Run(rt *rapid.T, srv *vsql.Server, admin *vsql.Session, scratch string, rec *vh.Recorder) {
	c := &c35Case{rt: rt, srv: srv, admin: admin, scratch: scratch, rBranch: map[string]string{}, rTag: map[string]string{},
		record: map[string][]string{}, refsMoved: map[string]bool{}, special: map[string]bool{}, wide: map[string]bool{}, nextPK: 100}
	adb := gcDrawDBName(rt, srv, "author")
	c.dbs = append(c.dbs, adb)
	c.remoteDir = filepath.Join(scratch, adb+"-remote")
	c.remoteURL = "file://" + c.remoteDir
	defer func() {
		for _, a := range c.actors {
			a.se.Close()
		}
		for _, db := range c.dbs {
			_ = admin.Exec("DROP DATABASE IF EXISTS `" + db + "`")
		}
	}()
	admin.MustExec(rt, "CREATE DATABASE `"+adb+"`")
	a := &c35Actor{name: "a", db: adb, se: srv.Session(rt, "a", gcSpell(rt, "author", adb))}
	c.actors = append(c.actors, a)
	nInit := rapid.IntRange(3, 5).Draw(rt, "init_rows")
	bulk := rapid.SampledFrom([]int{0, 0, 200}).Draw(rt, "bulk_rows")
	c.x(a.se, "CREATE TABLE t (pk INT PRIMARY KEY, who VARCHAR(10), v INT, pad VARCHAR(200))")
	var vals []string
	for i := 1; i <= nInit; i++ {
		vals = append(vals, fmt.Sprintf("(%d, 'init', %d, 'row %d')", i, i*2, i))
	}
	for i := 0; i < bulk; i++ {
		vals = append(vals, fmt.Sprintf("(%d, 'bulk', %d, '%s')", 10000+i, i, strings.Repeat(fmt.Sprintf("k%d/", i), 14)))
	}
	c.x(a.se, "INSERT INTO t VALUES "+strings.Join(vals, ", "))
	c.x(a.se, gcBigTableDDL)
	for i := 0; i < rapid.IntRange(1, 2).Draw(rt, "init_wide_rows"); i++ {
		c.nextPK++
		row, classes := gcBigRow(rt, fmt.Sprintf("init_wide%d", i), c.nextPK, "a")
		c.x(a.se, "INSERT INTO big VALUES "+row)
		for _, cl := range classes {
			c.wide[cl] = true
		}
	}
	c.x(a.se, "CALL dolt_commit('-Am', 'init')")
	c.remember(a.se, c.refHash(a.se, "branch", "main"))
	if rapid.Bool().Draw(rt, "second_commit_before_push") {
		c.commitOn(a, "main", false)
	}
	c.x(a.se, fmt.Sprintf("CALL dolt_remote('add', 'origin', '%s')", c.remoteURL))
	c.ops = append(c.ops, "a:push main")
	c.push(a, "main", false)
	for _, n := range []string{"b", "c"} {
		act := c.cloneFresh(n)
		c.actors = append(c.actors, act)
		c.ops = append(c.ops, "clone->"+n)
	}
	branches := []string{"main", "main", "b1", "b2"}
	backups := 0
	extraClones := 0
	nOps := rapid.IntRange(10, 16).Draw(rt, "ops")
	for i := 0; i < nOps; i++ {
		lbl := fmt.Sprintf("op%d", i)
		kind := rapid.SampledFrom([]string{"commit", "commit", "commit", "push", "push", "push", "push", "pull", "pull", "fetch", "race", "tag", "pushtag", "pushtag", "delete_remote_branch", "clone", "backup", "newtable"}).Draw(rt, lbl)
		act := c.actors[rapid.IntRange(0, 2).Draw(rt, lbl+"_actor")]
		br := rapid.SampledFrom(branches).Draw(rt, lbl+"_branch")
		switch kind {
		case "commit", "newtable":
			c.commitOn(act, br, kind == "newtable")
			c.ops = append(c.ops, fmt.Sprintf("%s:%s %s", act.name, kind, br))
		case "push":
			if c.refHash(act.se, "branch", br) == "" {
				c.commitOn(act, br, false)
			}
			// a push that would be rejected is forced half of the time, others rarely
			force := false
			if rh, on := c.rBranch[br]; on && !c.isAncestorMaybe(act.se, rh, c.refHash(act.se, "branch", br)) {
				force = rapid.Bool().Draw(rt, lbl+"_force_diverged")
			} else {
				force = rapid.IntRange(0, 5).Draw(rt, lbl+"_force") == 0
			}
			ok := c.push(act, br, force)
			c.ops = append(c.ops, fmt.Sprintf("%s:push %s force=%v ok=%v", act.name, br, force, ok))
		case "pull":
			if _, ok := c.rBranch[br]; !ok {
				br = "main"
			}
			c.pull(act, br)
			c.ops = append(c.ops, fmt.Sprintf("%s:pull %s", act.name, br))
		case "fetch":
			c.fetch(act)
			c.ops = append(c.ops, act.name+":fetch")
		case "race":
			if _, ok := c.rBranch[br]; !ok {
				br = "main"
			}
			j := rapid.IntRange(1, 2).Draw(rt, lbl+"_other")
			var other *c35Actor
			for k, x := range c.actors[:3] {
				if x == act {
					other = c.actors[(k+j)%3]
				}
			}
			// make both start from the same remote head
			for _, x := range []*c35Actor{act, other} {
				c.pull(x, br)
				if c.refHash(x.se, "branch", br) != c.rBranch[br] {
					if !c.push(x, br, false) {
						c.fatalf("race setup: %s had just pulled %s and its push was rejected", x.name, br)
					}
				}
			}
			c.pull(act, br)
			for _, x := range []*c35Actor{act, other} {
				if got := c.refHash(x.se, "branch", br); got != c.rBranch[br] {
					c.fatalf("race setup: after pulling, %s's %s is %s, the remote has %s", x.name, br, got, c.rBranch[br])
				}
			}
			c.commitOn(act, br, false)
			c.commitOn(other, br, rapid.Bool().Draw(rt, lbl+"_newtable"))
			first, second := act, other
			if rapid.Bool().Draw(rt, lbl+"_other_first") {
				first, second = other, act
			}
			ok1 := c.push(first, br, false)
			ok2 := c.push(second, br, false)
			if !ok1 || ok2 {
				c.fatalf("race on %s from the same remote head: first push ok=%v, second push ok=%v (exactly the first must succeed)", br, ok1, ok2)
			}
			c.special["race"] = true
			c.ops = append(c.ops, fmt.Sprintf("race %s: %s then %s", br, first.name, second.name))
		case "tag":
			if c.refHash(act.se, "branch", br) == "" {
				br = "main"
			}
			c.nextName++
			tn := fmt.Sprintf("v%d_%s", c.nextName, act.name)
			c.x(act.se, fmt.Sprintf("CALL dolt_tag('%s', '%s')", tn, br))
			c.ops = append(c.ops, fmt.Sprintf("%s:tag %s@%s", act.name, tn, br))
		case "pushtag":
			// push a local tag the remote does not have yet (create one if needed)
			tn := ""
			for _, r := range c.refsOf(act.se) {
				if r.kind == "tag" {
					if _, ok := c.rTag[r.name]; !ok {
						tn = r.name
						break
					}
				}
			}
			if tn == "" {
				if c.refHash(act.se, "branch", br) == "" {
					br = "main"
				}
				c.nextName++
				tn = fmt.Sprintf("v%d_%s", c.nextName, act.name)
				c.x(act.se, fmt.Sprintf("CALL dolt_tag('%s', '%s')", tn, br))
			}
			th := c.refHash(act.se, "tag", tn)
			c.x(act.se, fmt.Sprintf("CALL dolt_push('origin', '%s')", tn))
			c.rTag[tn] = th
			c.refsMoved["tag "+tn] = true
			c.xferIntoNonEmpty++
			c.checkRemote(fmt.Sprintf("after %s pushed tag %s (%s)", act.name, tn, th))
			c.ops = append(c.ops, fmt.Sprintf("%s:pushtag %s", act.name, tn))
		case "delete_remote_branch":
			if br == "main" {
				br = "b1"
			}
			if _, ok := c.rBranch[br]; !ok {
				continue
			}
			if c.refHash(act.se, "remote", "remotes/origin/"+br) == "" {
				// dolt deletes the remote branch and then fails on the missing remote-tracking ref when
				// the deleting clone has never seen the branch; the generator lets it fetch first
				c.fetch(act)
			}
			if err := c.xe(act.se, "CALL dolt_push('origin', ':"+br+"')"); err != nil {
				// a branch that was once force-pushed keeps a working set on the remote which later
				// fast-forward pushes leave behind; dolt then asks for --force to delete the branch
				if !strings.Contains(err.Error(), "uncommitted changes") {
					c.fatalf("deleting remote branch %s: %v", br, err)
				}
				c.x(act.se, "CALL dolt_push('--force', 'origin', ':"+br+"')")
				c.special["delete_needed_force"] = true
			}
			delete(c.rBranch, br)
			c.special["remote_branch_deleted"] = true
			c.checkRemote(fmt.Sprintf("after %s deleted remote branch %s", act.name, br))
			c.ops = append(c.ops, fmt.Sprintf("%s:delete remote %s", act.name, br))
		case "clone":
			if extraClones >= 2 {
				continue
			}
			extraClones++
			x := c.cloneFresh(fmt.Sprintf("d%d", extraClones))
			x.se.Close()
			c.ops = append(c.ops, "clone")
		case "backup":
			if backups >= 2 {
				continue
			}
			backups++
			dirtyWS := rapid.Bool().Draw(rt, lbl+"_dirty")
			c.ensureBranch(act, "main")
			if dirtyWS {
				c.nextPK++
				c.x(act.se, fmt.Sprintf("INSERT INTO t VALUES (%d, '%s', 0, 'staged, uncommitted')", c.nextPK, act.name))
				c.x(act.se, "CALL dolt_add('t')")
				c.nextPK++
				c.x(act.se, fmt.Sprintf("INSERT INTO t VALUES (%d, '%s', 0, 'working only')", c.nextPK, act.name))
			}
			bdir := filepath.Join(c.scratch, fmt.Sprintf("%s-backup%d", act.db, backups))
			bname := fmt.Sprintf("bk%d", backups)
			c.x(act.se, fmt.Sprintf("CALL dolt_backup('add', '%s', 'file://%s')", bname, bdir))
			c.x(act.se, fmt.Sprintf("CALL dolt_backup('sync', '%s')", bname))
			when := fmt.Sprintf("after dolt_backup sync of %s", act.name)
			ddb, _, err := gcDoltDB(c.srv, act.db)
			if err != nil {
				c.fatalf("engine access: %v", err)
			}
			srcHeads, err := gcHeads(context.Background(), ddb)
			if err != nil {
				c.fatalf("datasets of %s: %v", act.db, err)
			}
			bHeads, _ := c.dirHeads(bdir, when)
			var diffs []string
			for id, h := range srcHeads {
				if bHeads[id] != h {
					diffs = append(diffs, fmt.Sprintf("%s: source %s, backup %s", id, h, bHeads[id]))
				}
			}
			for id, h := range bHeads {
				if _, ok := srcHeads[id]; !ok {
					diffs = append(diffs, fmt.Sprintf("%s: only in the backup (%s)", id, h))
				}
			}
			if len(diffs) > 0 {
				sort.Strings(diffs)
				c.fatalf("%s: datasets differ:\n  %s", when, strings.Join(diffs, "\n  "))
			}
			rdb := gcDrawDBName(c.rt, c.srv, lbl+"_restore")
			c.dbs = append(c.dbs, rdb)
			c.x(c.admin, fmt.Sprintf("CALL dolt_backup('restore', 'file://%s', '%s')", bdir, rdb))
			fpSrc := vsql.Fingerprint(c.rt, c.srv, act.db)
			fpDst := vsql.Fingerprint(c.rt, c.srv, rdb)
			if d := vsql.DiffFingerprints(fpSrc, fpDst); len(d) > 0 {
				c.fatalf("after restoring the backup of %s into %s the databases differ:\n  %s", act.db, rdb, strings.Join(d, "\n  "))
			}
			if errs := c08Errors(fpDst); len(errs) > 0 {
				c.fatalf("restored database has unreadable parts: %v", errs)
			}
			rse := c.srv.Session(c.rt, "restored", gcSpell(c.rt, lbl+"_restore", rdb))
			c.checkDB(rse, rdb, "after dolt_backup restore into "+rdb)
			rse.Close()
			if dirtyWS {
				c.x(act.se, "CALL dolt_reset('--hard')")
				c.special["backup_dirty"] = true
			}
			c.special["backup"] = true
			c.ops = append(c.ops, fmt.Sprintf("%s:backup dirty=%v", act.name, dirtyWS))
		}
	}
	// final: a fresh clone sees exactly the model, every actor is closed under reachability
	fin := c.cloneFresh("fin")
	fin.se.Close()
	for _, act := range c.actors {
		c.checkDB(act.se, act.db, "at the end")
	}
	c.checkRemote("at the end")
	nSpecial := 0
	var classes []string
	for _, k := range []string{"rejected_push", "forced_non_ff", "merge_pull", "remote_branch_deleted", "race", "backup", "backup_dirty", "delete_needed_force"} {
		if c.special[k] {
			classes = append(classes, k)
			if k != "backup" && k != "backup_dirty" && k != "delete_needed_force" {
				nSpecial++
			}
		}
	}
	classes = append(classes, gcNameCase(adb), fmt.Sprintf("refs_moved=%d", len(c.refsMoved)), fmt.Sprintf("incremental_transfers=%d", min(c.xferIntoNonEmpty, 6)))
	if bulk > 0 {
		classes = append(classes, "bulk")
	}
	outOfLine := false
	for cl := range c.wide {
		classes = append(classes, "wide:"+cl)
		if strings.HasSuffix(cl, "out_of_line") || strings.HasSuffix(cl, "multi_chunk") {
			outOfLine = true
		}
	}
	sort.Strings(classes)
	if outOfLine {
		classes = append(classes, "history_has_out_of_line_values")
	}
	nontrivial := c.xferIntoNonEmpty >= 2 && len(c.refsMoved) >= 2 && nSpecial >= 1
	rec.Case(fmt.Sprintf("init=%d bulk=%d ops=[%s]", nInit, bulk, strings.Join(c.ops, "; ")), nontrivial, classes...)
}
