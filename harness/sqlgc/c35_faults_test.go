package sqlgc

// C35, fault part — an interrupted transfer never leaves a ref pointing at missing data.
//
// In process: the real push path (actions.Push = puller + fast-forward/force of the branch) and
// the real clone path (DoltDB.Clone = table-file copy + root commit) run against a destination
// directory store whose table-file store is wrapped to fail the k-th WriteTableFile /
// AddTableFilesToManifest / Commit call, for every k up to the number of calls the clean run
// makes. After every injected failure the destination directory is reopened without any cache:
// no ref may have changed, the closure walk from every ref must find every address; then the
// same transfer is retried without faults on the same directory and must end in the state of
// the clean transfer.

import (
	"context"
	"fmt"
	"io"
	"os"
	"os/exec"
	"path/filepath"
	"sort"
	"strings"
	"sync"
	"testing"

	"pgregory.net/rapid"

	"github.com/dolthub/dolt/go/libraries/doltcore/doltdb"
	"github.com/dolthub/dolt/go/libraries/doltcore/env/actions"
	"github.com/dolthub/dolt/go/libraries/doltcore/ref"
	"github.com/dolthub/dolt/go/store/chunks"
	"github.com/dolthub/dolt/go/store/datas"
	"github.com/dolthub/dolt/go/store/datas/pull"
	"github.com/dolthub/dolt/go/store/hash"
	"github.com/dolthub/dolt/go/store/nbs"
	"github.com/dolthub/dolt/go/zzverif/vh"
	"github.com/dolthub/dolt/go/zzverif/vsql"
)

const c35FaultRule = "per case: a database with a generated history (table t with 3-5 rows, optionally 200 bulk rows, table big with TEXT / BLOB / JSON cells drawn from the size classes inline, around the 2048-byte inline threshold, out of line and multi-chunk, one row at the start and one more in half of the later commits; 2-4 further commits on main and b1, each pushed to a file remote so the remote holds several table files). Transfer 1 (push path, in process): a destination directory store that already holds an older commit of main (so it shares part of the chunks; drawn: the direct parent, a deeper ancestor, or — with a force push — a commit of b1 that is not an ancestor) receives actions.Push of the newest commit of main, with the destination's *nbs.GenerationalNBS wrapped so that call #k of WriteTableFile (failing before the write, and — push path — in a second variant after the file was written), AddTableFilesToManifest or Commit returns an error — once, or (sticky variant, clone path only, because only that path retries) for that call and every later call of the same kind — for every k from 1 to the number of calls of that kind counted in the clean run. Transfer 2 (clone path): DoltDB.Clone from the remote directory into an empty wrapped directory store, same enumeration. Oracle: a sticky failure makes the transfer return an error; a transfer that returns an error leaves the destination (reopened without cache) with exactly the datasets it had before; a transfer that absorbs a one-time failure by retrying (the clone path retries table files) and reports success must end in the clean run's state; and the closure walk (types.WalkAddrsFromNomsValue) from every dataset head finds every address; the transfer retried without faults on the same directory succeeds and the destination's datasets equal those of the clean run (push: branch main at the pushed commit; clone: all of the source's datasets) and its closure walk passes. The enumeration over k is complete for each generated transfer (exhaustive within a case; cases are sampled). Non-trivial: a fault point strictly between the first table file write and the final root update, of a transfer whose destination already held part of the data or that moves at least two table files; distinct by history shape, transfer kind and fault point."

var c35FaultAssumptions = []string{
	"faults are errors returned by the destination's table-file store calls (connection-loss model); torn writes inside one call and crashes of the pushing process are not modelled here (C03/C05 cover the store's own crash atomicity)",
	"the Commit fault fails before the call reaches the store: an error after a root update that did happen is not generated (the caller cannot distinguish it, and then the ref has legitimately moved)",
	"the push path is actions.Push with its real arguments; the source database is the server's own handle (it gains a remote-tracking ref per push, as with dolt_push)",
}

// c35FaultStore wraps the destination store; method sets of the embedded store are promoted,
// the three table-file-store entry points of a transfer are intercepted.
type c35FaultStore struct {
	*nbs.GenerationalNBS
	mu     sync.Mutex
	counts map[string]int
	failOp string
	failAt int
	after  bool // perform the call, then report failure (WriteTableFile only)
	sticky bool // every call of failOp from #failAt on fails (the destination stays unreachable)
	fired  bool
}

func (s *c35FaultStore) hit(op string) (fail bool) {
	s.mu.Lock()
	defer s.mu.Unlock()
	s.counts[op]++
	if op == s.failOp && (s.counts[op] == s.failAt || (s.sticky && s.counts[op] > s.failAt)) {
		s.fired = true
		return true
	}
	return false
}

func (s *c35FaultStore) WriteTableFile(ctx context.Context, fileId string, splitOffset uint64, numChunks int, contentHash []byte, getRd func() (io.ReadCloser, uint64, error)) (io.Closer, error) {
	fail := s.hit("WriteTableFile")
	if fail && !s.after {
		return nil, fmt.Errorf("injected fault: WriteTableFile call #%d refused", s.failAt)
	}
	c, err := s.GenerationalNBS.WriteTableFile(ctx, fileId, splitOffset, numChunks, contentHash, getRd)
	if fail && err == nil {
		if c != nil {
			_ = c.Close()
		}
		return nil, fmt.Errorf("injected fault: WriteTableFile call #%d lost its acknowledgement", s.failAt)
	}
	return c, err
}

func (s *c35FaultStore) AddTableFilesToManifest(ctx context.Context, fileIdToNumChunks map[string]int, getAddrs chunks.InsertAddrsCurry) error {
	if s.hit("AddTableFilesToManifest") {
		return fmt.Errorf("injected fault: AddTableFilesToManifest call #%d refused", s.failAt)
	}
	return s.GenerationalNBS.AddTableFilesToManifest(ctx, fileIdToNumChunks, getAddrs)
}

func (s *c35FaultStore) Commit(ctx context.Context, current, last hash.Hash) (bool, error) {
	if s.hit("Commit") {
		return false, fmt.Errorf("injected fault: Commit call #%d refused", s.failAt)
	}
	return s.GenerationalNBS.Commit(ctx, current, last)
}

var _ chunks.TableFileStore = (*c35FaultStore)(nil)
var _ chunks.ChunkStore = (*c35FaultStore)(nil)

type c35Dest struct {
	raw   *doltdb.DoltDB
	ddb   *doltdb.DoltDB
	store *c35FaultStore
}

func (d *c35Dest) close() { _ = d.raw.Close() }

// c35OpenDest opens dir (no cache) and returns a DoltDB over the wrapped store.
func c35OpenDest(dir, failOp string, failAt int, after, sticky bool) (*c35Dest, error) {
	raw, err := c35OpenDir(dir)
	if err != nil {
		return nil, err
	}
	cs := datas.ChunkStoreFromDatabase(doltdb.ExposeDatabaseFromDoltDB(raw))
	gen, ok := cs.(*nbs.GenerationalNBS)
	if !ok {
		_ = raw.Close()
		return nil, fmt.Errorf("destination store is a %T, expected *nbs.GenerationalNBS", cs)
	}
	st := &c35FaultStore{GenerationalNBS: gen, counts: map[string]int{}, failOp: failOp, failAt: failAt, after: after, sticky: sticky}
	ddb, err := doltdb.DoltDBFromCS(st, "")
	if err != nil {
		_ = raw.Close()
		return nil, err
	}
	return &c35Dest{raw: raw, ddb: ddb, store: st}, nil
}

func c35CopyDir(src, dst string) error {
	out, err := exec.Command("cp", "-a", src, dst).CombinedOutput()
	if err != nil {
		return fmt.Errorf("cp -a %s %s: %v: %s", src, dst, err, out)
	}
	return nil
}

func c35HeadsString(h map[string]hash.Hash) string {
	var ks []string
	for k := range h {
		ks = append(ks, k)
	}
	sort.Strings(ks)
	var p []string
	for _, k := range ks {
		p = append(p, k+"="+h[k].String())
	}
	return strings.Join(p, ", ")
}

type c35FaultCase struct {
	rt   *rapid.T
	log  []string
	base string
	seq  int
}

func (c *c35FaultCase) fatalf(format string, args ...any) {
	c.rt.Helper()
	c.rt.Fatalf("%s\nsteps:\n  %s", fmt.Sprintf(format, args...), strings.Join(c.log, "\n  "))
}

// inspect reopens dir without cache: datasets + closure verdict.
func (c *c35FaultCase) inspect(dir, when string) map[string]hash.Hash {
	ddb, err := c35OpenDir(dir)
	if err != nil {
		c.fatalf("%s: the destination does not open any more: %v", when, err)
	}
	defer ddb.Close()
	ctx := context.Background()
	heads, err := gcHeads(ctx, ddb)
	if err != nil {
		c.fatalf("%s: datasets: %v", when, err)
	}
	n, missing, err := gcClosureDDB(ctx, ddb)
	if err != nil {
		c.fatalf("%s: closure walk: %v", when, err)
	}
	if len(missing) > 0 {
		c.fatalf("%s: closure walk (%d chunks): refs point at missing data:\n  %s", when, n, strings.Join(missing, "\n  "))
	}
	return heads
}

type c35Transfer struct {
	name string
	// run performs the transfer into dest; tmp is a fresh temp dir for table files
	run func(dest *c35Dest, tmp string) error
}

func (c *c35FaultCase) tmpDir() string {
	c.seq++
	d := filepath.Join(c.base, fmt.Sprintf("tmp%d", c.seq))
	if err := os.MkdirAll(d, 0o755); err != nil {
		c.fatalf("mkdir: %v", err)
	}
	return d
}

// enumerate runs the clean transfer on a copy of dir0, then every fault point on further copies.
// Returns (number of fault points, number of "interior" fault points).
func (c *c35FaultCase) enumerate(tr c35Transfer, dir0 string, sharesData bool, rec *vh.Recorder, desc string) (int, int) {
	before := c.inspect(dir0, tr.name+": destination before the transfer")
	cleanDir := filepath.Join(c.base, fmt.Sprintf("%s-clean", tr.name))
	if err := c35CopyDir(dir0, cleanDir); err != nil {
		c.fatalf("%v", err)
	}
	d, err := c35OpenDest(cleanDir, "", 0, false, false)
	if err != nil {
		c.fatalf("%s: open destination: %v", tr.name, err)
	}
	err = tr.run(d, c.tmpDir())
	counts := d.store.counts
	d.close()
	if err != nil {
		c.fatalf("%s: the clean transfer failed: %v", tr.name, err)
	}
	want := c.inspect(cleanDir, tr.name+": after the clean transfer")
	c.log = append(c.log, fmt.Sprintf("%s clean: calls WriteTableFile=%d AddTableFilesToManifest=%d Commit=%d; datasets {%s}", tr.name,
		counts["WriteTableFile"], counts["AddTableFilesToManifest"], counts["Commit"], c35HeadsString(want)))
	if c35HeadsString(want) == c35HeadsString(before) {
		c.fatalf("generator: %s moved nothing", tr.name)
	}
	points, interior := 0, 0
	type variant struct {
		op     string
		after  bool
		sticky bool
	}
	for _, v := range []variant{{"WriteTableFile", false, false}, {"WriteTableFile", true, false}, {"WriteTableFile", false, true},
		{"AddTableFilesToManifest", false, false}, {"AddTableFilesToManifest", false, true}, {"Commit", false, false}, {"Commit", false, true}} {
		if v.sticky && tr.name != "clone" {
			continue // only the clone path retries, so only there a lasting failure differs from a single one
		}
		if v.after && tr.name == "clone" {
			continue // the clone path absorbs a one-time failure either way; covered by the plain variant
		}
		for k := 1; k <= counts[v.op]; k++ {
			points++
			label := fmt.Sprintf("%s: fault at %s #%d (after=%v sticky=%v)", tr.name, v.op, k, v.after, v.sticky)
			dir := filepath.Join(c.base, fmt.Sprintf("%s-%s-%d-%v-%v", tr.name, v.op, k, v.after, v.sticky))
			if err := c35CopyDir(dir0, dir); err != nil {
				c.fatalf("%v", err)
			}
			d, err := c35OpenDest(dir, v.op, k, v.after, v.sticky)
			if err != nil {
				c.fatalf("%s: open destination: %v", label, err)
			}
			terr := tr.run(d, c.tmpDir())
			fired := d.store.fired
			d.close()
			if !fired {
				c.fatalf("%s: the transfer made fewer calls than the clean run (%d)", label, counts[v.op])
			}
			got := c.inspect(dir, label+", destination reopened")
			if terr == nil {
				// the clone path retries a refused table file; a transfer that absorbed the fault must be complete
				if v.sticky {
					c.fatalf("%s: the transfer reported success although the destination kept refusing the call", label)
				}
				c.log = append(c.log, label+" -> absorbed (transfer succeeded)")
				if c35HeadsString(got) != c35HeadsString(want) {
					c.fatalf("%s: the transfer reported success but the destination differs from a clean transfer:\n  clean {%s}\n  got   {%s}", label, c35HeadsString(want), c35HeadsString(got))
				}
				rec.Class("fault_absorbed_by_retry", 1)
			} else {
				c.log = append(c.log, fmt.Sprintf("%s -> %s", label, c08Short(terr)))
				if c35HeadsString(got) != c35HeadsString(before) {
					c.fatalf("%s: destination refs changed although the transfer failed:\n  before {%s}\n  after  {%s}", label, c35HeadsString(before), c35HeadsString(got))
				}
			}
			// retry without faults on the same directory
			d, err = c35OpenDest(dir, "", 0, false, false)
			if err != nil {
				c.fatalf("%s: reopen for the retry: %v", label, err)
			}
			rerr := tr.run(d, c.tmpDir())
			d.close()
			if rerr != nil {
				c.fatalf("%s: the fault-free retry failed: %v", label, rerr)
			}
			got = c.inspect(dir, label+", after the retry")
			if c35HeadsString(got) != c35HeadsString(want) {
				c.fatalf("%s: after the fault-free retry the destination differs from a clean transfer:\n  clean {%s}\n  retry {%s}", label, c35HeadsString(want), c35HeadsString(got))
			}
			isInterior := (sharesData || counts["WriteTableFile"] >= 2) && !(v.op == "WriteTableFile" && k == 1 && !v.after) && !(v.op == "Commit" && k == counts["Commit"])
			if isInterior {
				interior++
			}
			rec.Case(fmt.Sprintf("%s | %s %s#%d after=%v sticky=%v", desc, tr.name, v.op, k, v.after, v.sticky), isInterior, "transfer="+tr.name, "op="+v.op, fmt.Sprintf("after=%v", v.after), fmt.Sprintf("sticky=%v", v.sticky))
			_ = os.RemoveAll(dir)
		}
	}
	_ = os.RemoveAll(cleanDir)
	return points, interior
}

func TestVerif_C35_faults(t *testing.T) {
	rec := vh.NewRecorder("C35", "faults", "fault_enumeration", c35FaultRule, c35FaultAssumptions...)
	defer rec.Write(t)
	dir, cleanup := vh.ScratchDir(t, "c35f")
	defer cleanup()
	srv, err := vsql.StartServer(dir)
	if err != nil {
		vh.Inconclusive(t, "start server: %v", err)
	}
	defer srv.Stop()
	admin := srv.Session(t, "admin", "")
	defer admin.Close()
	admin.MustExec(t, "CREATE DATABASE home")
	admin.MustExec(t, "USE home")
	vh.Check(t, "enumerate", 3, 5, func(rt *rapid.T) {
		c35FaultRun(rt, srv, admin, dir, rec)
	})
}

func c35FaultRun(rt *rapid.T, srv *vsql.Server, admin *vsql.Session, scratch string, rec *vh.Recorder) {
	db := gcDrawDBName(rt, srv, "db")
	admin.MustExec(rt, "CREATE DATABASE `"+db+"`")
	defer admin.Exec("DROP DATABASE `" + db + "`")
	c := &c35FaultCase{rt: rt, base: filepath.Join(scratch, db+"-faults")}
	if err := os.MkdirAll(c.base, 0o755); err != nil {
		rt.Fatalf("mkdir: %v", err)
	}
	defer os.RemoveAll(c.base)
	se := srv.Session(rt, "a", gcSpell(rt, "author", db))
	defer se.Close()
	x := func(q string) {
		rt.Helper()
		c.log = append(c.log, "[a] "+c08Clip(q))
		if err := se.Exec(q); err != nil {
			c.fatalf("[a] %s: %v", c08Clip(q), err)
		}
	}
	headOf := func(b string) string {
		h, ok := se.Scalar(rt, "SELECT hash FROM dolt_branches WHERE name = ?", b)
		if !ok {
			c.fatalf("no branch %s", b)
		}
		return h
	}
	nInit := rapid.IntRange(3, 5).Draw(rt, "init_rows")
	bulk := rapid.SampledFrom([]int{0, 200}).Draw(rt, "bulk_rows")
	x("CREATE TABLE t (pk INT PRIMARY KEY, who VARCHAR(10), v INT, pad VARCHAR(200))")
	var vals []string
	for i := 1; i <= nInit; i++ {
		vals = append(vals, fmt.Sprintf("(%d, 'init', %d, 'row %d')", i, i*2, i))
	}
	for i := 0; i < bulk; i++ {
		vals = append(vals, fmt.Sprintf("(%d, 'bulk', %d, '%s')", 10000+i, i, strings.Repeat(fmt.Sprintf("k%d/", i), 14)))
	}
	x("INSERT INTO t VALUES " + strings.Join(vals, ", "))
	x(gcBigTableDDL)
	var wide []string
	{
		row, classes := gcBigRow(rt, "init_wide", 50, "init")
		x("INSERT INTO big VALUES " + row)
		wide = append(wide, classes...)
	}
	x("CALL dolt_commit('-Am', 'init')")
	remoteDir := filepath.Join(c.base, "remote")
	x(fmt.Sprintf("CALL dolt_remote('add', 'origin', 'file://%s')", remoteDir))
	x("CALL dolt_push('origin', 'main')")
	mainHist := []string{headOf("main")}
	x("CALL dolt_branch('b1')")
	b1Head := ""
	nCommits := rapid.IntRange(2, 4).Draw(rt, "commits")
	pk := 100
	for i := 0; i < nCommits; i++ {
		b := "main"
		if i > 0 && rapid.IntRange(0, 2).Draw(rt, fmt.Sprintf("c%d_on_b1", i)) == 0 {
			b = "b1"
		}
		x("CALL dolt_checkout('" + b + "')")
		pk++
		if k := rapid.IntRange(0, 5).Draw(rt, fmt.Sprintf("c%d_kind", i)); k == 0 {
			x(fmt.Sprintf("UPDATE t SET v = v + %d WHERE pk <= 2", pk))
		} else if k >= 3 {
			row, classes := gcBigRow(rt, fmt.Sprintf("c%d", i), pk, b)
			x("INSERT INTO big VALUES " + row)
			wide = append(wide, classes...)
		} else {
			x(fmt.Sprintf("INSERT INTO t VALUES (%d, '%s', %d, '%s')", pk, b, pk, strings.Repeat(fmt.Sprintf("%s%d.", b, pk), 10)))
		}
		x(fmt.Sprintf("CALL dolt_commit('-am', 'c%d on %s')", i, b))
		x("CALL dolt_push('origin', '" + b + "')")
		if b == "main" {
			mainHist = append(mainHist, headOf("main"))
		} else {
			b1Head = headOf("b1")
		}
	}
	if len(mainHist) < 2 {
		x("CALL dolt_checkout('main')")
		x("INSERT INTO t VALUES (999, 'main', 999, 'one more')")
		x("CALL dolt_commit('-am', 'one more on main')")
		x("CALL dolt_push('origin', 'main')")
		mainHist = append(mainHist, headOf("main"))
	}
	x("CALL dolt_tag('v1', 'main')")
	x("CALL dolt_push('origin', 'v1')")
	srcDB, _, err := gcDoltDB(srv, db)
	if err != nil {
		c.fatalf("engine access: %v", err)
	}
	ctx := context.Background()
	commitOf := func(h string) *doltdb.Commit {
		spec, err := doltdb.NewCommitSpec(h)
		if err != nil {
			c.fatalf("commit spec %s: %v", h, err)
		}
		oc, err := srcDB.Resolve(ctx, spec, nil)
		if err != nil {
			c.fatalf("resolve %s: %v", h, err)
		}
		cm, ok := oc.ToCommit()
		if !ok {
			c.fatalf("resolve %s: ghost commit", h)
		}
		return cm
	}
	pushSeq := 0
	doPush := func(dest *c35Dest, tmp string, h string, mode ref.UpdateMode) error {
		pushSeq++
		var perr error
		pull.WithDiscardingStatsCh(func(statsCh chan pull.Stats) {
			perr = actions.Push(ctx, tmp, mode, ref.NewBranchRef("main"), ref.NewRemoteRef(fmt.Sprintf("fault%d", pushSeq), "main"), srcDB, dest.ddb, commitOf(h), statsCh)
		})
		return perr
	}

	// ---- transfer 1: push into a destination that holds an older state
	newest := mainHist[len(mainHist)-1]
	olderKind := rapid.SampledFrom([]string{"parent", "ancestor", "diverged"}).Draw(rt, "destination_holds")
	older := mainHist[len(mainHist)-2]
	mode := ref.FastForwardOnly
	switch olderKind {
	case "ancestor":
		older = mainHist[rapid.IntRange(0, len(mainHist)-2).Draw(rt, "ancestor_index")]
	case "diverged":
		if b1Head != "" {
			older = b1Head
			mode = ref.ForceUpdate
		} else {
			olderKind = "parent"
		}
	}
	dest0 := filepath.Join(c.base, "dest0")
	if err := os.MkdirAll(dest0, 0o755); err != nil {
		c.fatalf("mkdir: %v", err)
	}
	d, err := c35OpenDest(dest0, "", 0, false, false)
	if err != nil {
		c.fatalf("open destination: %v", err)
	}
	err = doPush(d, c.tmpDir(), older, ref.ForceUpdate)
	d.close()
	if err != nil {
		c.fatalf("prefilling the destination with %s: %v", older, err)
	}
	c.log = append(c.log, fmt.Sprintf("destination prefilled with main=%s (%s of %s)", older, olderKind, newest))
	desc := fmt.Sprintf("init=%d bulk=%d commits=%d main_len=%d b1=%v dest_holds=%s", nInit, bulk, nCommits, len(mainHist), b1Head != "", olderKind)
	pushTr := c35Transfer{name: "push", run: func(dest *c35Dest, tmp string) error { return doPush(dest, tmp, newest, mode) }}
	p1, i1 := c.enumerate(pushTr, dest0, true, rec, desc)

	// ---- transfer 2: clone of the remote directory into an empty destination
	empty := filepath.Join(c.base, "empty0")
	if err := os.MkdirAll(empty, 0o755); err != nil {
		c.fatalf("mkdir: %v", err)
	}
	if dd, err := c35OpenDir(empty); err != nil { // lets the store create its files
		c.fatalf("open empty destination: %v", err)
	} else {
		dd.Close()
	}
	cloneTr := c35Transfer{name: "clone", run: func(dest *c35Dest, tmp string) error {
		src, err := c35OpenDir(remoteDir)
		if err != nil {
			return fmt.Errorf("open clone source: %w", err)
		}
		defer src.Close()
		// no event channel: a table file reader's statistics goroutine may still report after Clone returned
		cerr := src.Clone(ctx, tmp, dest.ddb, nil)
		return cerr
	}}
	p2, i2 := c.enumerate(cloneTr, empty, false, rec, desc)
	rec.Class(fmt.Sprintf("fault_points_per_case=%d", p1+p2), 1)
	rec.Class("dest_holds="+olderKind, 1)
	for _, cl := range wide {
		rec.Class("wide:"+cl, 1)
	}
	_ = i1
	_ = i2
}
