package sqlgc

import (
	"fmt"
	"path/filepath"
	"testing"

	"github.com/dolthub/dolt/go/zzverif/vh"
	"github.com/dolthub/dolt/go/zzverif/vsql"
)

func TestProbe_ForceWS(t *testing.T) {
	dir, cleanup := vh.ScratchDir(t, "probe")
	defer cleanup()
	srv, err := vsql.StartServer(dir)
	if err != nil {
		vh.Inconclusive(t, "start: %v", err)
	}
	defer srv.Stop()
	admin := srv.Session(t, "admin", "")
	try := func(se *vsql.Session, q string) {
		r, err := se.Query(q)
		if err != nil {
			t.Logf("[%s] %s -> ERROR %v", se.Name, q, err)
			return
		}
		t.Logf("[%s] %s -> %v", se.Name, q, r)
	}
	rdir := filepath.Join(dir, "rem")
	heads := func() {
		ddb, err := c35OpenDir(rdir)
		if err != nil {
			t.Logf("open: %v", err)
			return
		}
		defer ddb.Close()
		hs, _ := gcHeads(t.Context(), ddb)
		t.Logf("remote datasets: %v", hs)
	}
	try(admin, "CREATE DATABASE a")
	a := srv.Session(t, "a", "a")
	try(a, "CREATE TABLE t (pk INT PRIMARY KEY, v INT)")
	try(a, "CALL dolt_commit('-Am','init')")
	try(a, fmt.Sprintf("CALL dolt_remote('add','origin','file://%s')", rdir))
	try(a, "CALL dolt_push('origin','main')")
	heads()
	try(a, "CALL dolt_checkout('-b','b2')")
	try(a, "INSERT INTO t VALUES (1,1)")
	try(a, "CALL dolt_commit('-Am','c1')")
	try(a, "CALL dolt_push('--force','origin','b2')")
	heads()
	try(a, "INSERT INTO t VALUES (2,2)")
	try(a, "CALL dolt_commit('-Am','c2')")
	try(a, "CALL dolt_push('origin','b2')")
	heads()
	try(a, "INSERT INTO t VALUES (3,3)")
	try(a, "CALL dolt_commit('-Am','c3')")
	try(a, "CALL dolt_push('origin','b2')")
	heads()
	try(a, "CALL dolt_push('origin',':b2')")
	heads()
	try(a, "CALL dolt_push('--force', 'origin',':b2')")
	heads()
}
