package sqlgc

import (
	"fmt"
	"os"
	"path/filepath"
	"testing"
	"time"

	"github.com/dolthub/dolt/go/zzverif/vh"
	"github.com/dolthub/dolt/go/zzverif/vsql"
)

func probeDirSize(dir string) int64 {
	var n int64
	_ = filepath.Walk(dir, func(p string, fi os.FileInfo, err error) error {
		if err == nil && !fi.IsDir() {
			n += fi.Size()
		}
		return nil
	})
	return n
}

func TestProbe_GC(t *testing.T) {
	dir, cleanup := vh.ScratchDir(t, "probe")
	defer cleanup()
	srv, err := vsql.StartServer(dir)
	if err != nil {
		vh.Inconclusive(t, "start: %v", err)
	}
	defer srv.Stop()
	admin := srv.Session(t, "admin", "")
	admin.MustExec(t, "CREATE DATABASE d1")
	a := srv.Session(t, "a", "d1")
	try := func(se *vsql.Session, q string) {
		t0 := time.Now()
		r, err := se.Query(q)
		if err != nil {
			t.Logf("[%s] %s -> ERROR %v (%v)", se.Name, q, err, time.Since(t0))
			return
		}
		t.Logf("[%s] %s -> %v (%v)", se.Name, q, r, time.Since(t0))
	}
	try(a, "CREATE TABLE t (pk INT PRIMARY KEY, c1 INT, c2 VARCHAR(200))")
	try(a, "INSERT INTO t VALUES (1,1,'a'),(2,2,'b'),(3,3,'c')")
	try(a, "CALL dolt_commit('-Am','init')")
	// remote
	rdir := filepath.Join(dir, "remote1")
	try(a, fmt.Sprintf("CALL dolt_remote('add','origin','file://%s')", rdir))
	try(a, "CALL dolt_push('origin','main')")
	try(a, "CALL dolt_fetch('origin')")
	try(a, "SELECT * FROM dolt_remote_branches")
	// branches with conflicting changes
	try(a, "CALL dolt_branch('b1')")
	try(a, "CALL dolt_branch('b2')")
	try(a, "CALL dolt_branch('b3')")
	try(a, "CALL dolt_branch('b4')")
	try(a, "CALL dolt_branch('gone')")
	try(a, "UPDATE t SET c1 = 100 WHERE pk = 1")
	try(a, "CALL dolt_commit('-am','main change')")
	for _, b := range []string{"b1", "b2", "b3", "b4", "gone"} {
		try(a, "CALL dolt_checkout('"+b+"')")
		try(a, "UPDATE t SET c1 = 200 WHERE pk = 1")
		try(a, "INSERT INTO t VALUES (10, 10, REPEAT('"+b+"', 50))")
		try(a, "CALL dolt_commit('-am','"+b+" change')")
		try(a, "UPDATE t SET c1 = 201 WHERE pk = 2")
		try(a, "CALL dolt_commit('-am','"+b+" change 2')")
	}
	try(a, "CALL dolt_checkout('main')")
	try(a, "CALL dolt_branch('-D','gone')")
	try(a, "CALL dolt_tag('v1','b1')")
	// merge conflict on b1
	try(a, "CALL dolt_checkout('b1')")
	try(a, "SET @@dolt_allow_commit_conflicts=1")
	try(a, "CALL dolt_merge('main')")
	try(a, "SELECT * FROM dolt_merge_status")
	try(a, "SELECT * FROM dolt_conflicts")
	// cherry-pick conflict on b2
	try(a, "CALL dolt_checkout('b2')")
	try(a, "CALL dolt_cherry_pick('main')")
	try(a, "SELECT * FROM dolt_merge_status")
	try(a, "SELECT * FROM dolt_conflicts")
	// revert conflict on b3: revert HEAD~1 whose row was changed... need a conflict
	try(a, "CALL dolt_checkout('b3')")
	try(a, "UPDATE t SET c1 = 300 WHERE pk = 1")
	try(a, "CALL dolt_commit('-am','b3 change 3')")
	try(a, "CALL dolt_revert('HEAD~2')")
	try(a, "SELECT * FROM dolt_merge_status")
	try(a, "SELECT * FROM dolt_conflicts")
	try(a, "SELECT * FROM dolt_status")
	// rebase -i conflict on b4
	try(a, "CALL dolt_checkout('b4')")
	try(a, "CALL dolt_rebase('-i','main')")
	try(a, "SELECT * FROM dolt_rebase")
	try(a, "SELECT active_branch()")
	try(a, "CALL dolt_rebase('--continue')")
	try(a, "SELECT active_branch()")
	try(a, "SELECT * FROM dolt_merge_status")
	try(a, "SELECT * FROM dolt_conflicts")
	try(a, "SELECT * FROM dolt_branches")
	// stash on main
	try(a, "CALL dolt_checkout('main')")
	try(a, "SELECT active_branch()")
	try(a, "INSERT INTO t VALUES (60,60,'stashed')")
	try(a, "CALL dolt_stash('push','st')")
	try(a, "INSERT INTO t VALUES (70,70,'staged')")
	try(a, "CALL dolt_add('t')")
	try(a, "INSERT INTO t VALUES (71,71,'working')")

	fp := vsql.Fingerprint(t, srv, "d1")
	for _, l := range fp {
		if len(l) > 300 {
			l = l[:300]
		}
		t.Logf("%q", l)
	}
	// other sessions with open txns
	b := srv.Session(t, "b", "d1")
	try(b, "SET autocommit=0")
	try(b, "INSERT INTO t VALUES (80,80,'b-open')")
	c := srv.Session(t, "c", "d1")
	try(c, "CALL dolt_checkout('b1')")
	try(c, "START TRANSACTION")
	try(c, "SELECT count(*) FROM t")

	t.Logf("size before gc: %d", probeDirSize(filepath.Join(srv.Dir, "d1")))
	try(a, "CALL dolt_gc()")
	t.Logf("size after gc: %d", probeDirSize(filepath.Join(srv.Dir, "d1")))
	try(a, "SELECT count(*) FROM t")
	try(b, "SELECT count(*) FROM t")
	try(b, "COMMIT")
	try(c, "SELECT count(*) FROM t")
	try(c, "COMMIT")
	fp2 := vsql.Fingerprint(t, srv, "d1")
	t.Logf("diff after gc (expect row 80 only): %v", vsql.DiffFingerprints(fp, fp2))
	a2 := srv.Session(t, "a2", "d1")
	try(a2, "CALL dolt_gc('--full')")
	t.Logf("size after gc full: %d", probeDirSize(filepath.Join(srv.Dir, "d1")))
	try(a2, "CALL dolt_gc('--shallow')")
	try(a2, "CALL dolt_gc('--archive-level','0')")
	try(a2, "CALL dolt_gc('--full','--archive-level','0')")
	try(a2, "CALL dolt_gc('--full','--archive-level','1')")
	t.Logf("size after gc: %d", probeDirSize(filepath.Join(srv.Dir, "d1")))
	fp3 := vsql.Fingerprint(t, srv, "d1")
	t.Logf("diff after gc: %v", vsql.DiffFingerprints(fp2, fp3))
	n, missing, err := gcClosure(srv, "d1")
	t.Logf("closure: %d chunks, missing %v err %v", n, missing, err)
}
