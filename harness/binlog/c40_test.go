package binlogreplication

// C40 — binlog row events encode values the way MySQL replicas decode them.
//
// A generated table (1..8 columns over every replicable type, primary-key columns anywhere in
// the column order, or keyless) is turned into a real doltdb.Table so that the table map comes
// from createTableMapFromDoltTable; 1..3 generated rows are written into real key/value tuples
// with tree.PutField and serialized with serializeRowToBinlogBytes, exactly as the binlog
// producer does. The bytes are packed into TABLE_MAP and WRITE_ROWS events with vitess' event
// builders, parsed back with vitess' replica-side decoder (BinlogEvent.TableMap, Rows,
// CellValue) and every decoded cell is compared with the value that was stored. JSON cells are
// additionally read with the harness' own reader of MySQL's binary JSON format.

import (
	"bytes"
	"context"
	"encoding/binary"
	"encoding/json"
	"fmt"
	"math"
	"math/big"
	"sort"
	"strconv"
	"strings"
	"testing"
	"time"

	"github.com/cockroachdb/apd/v3"
	"github.com/dolthub/go-mysql-server/sql"
	gmstypes "github.com/dolthub/go-mysql-server/sql/types"
	"github.com/dolthub/vitess/go/mysql"
	"github.com/dolthub/vitess/go/sqltypes"
	querypb "github.com/dolthub/vitess/go/vt/proto/query"
	"pgregory.net/rapid"

	"github.com/dolthub/dolt/go/libraries/doltcore/doltdb"
	"github.com/dolthub/dolt/go/libraries/doltcore/schema"
	"github.com/dolthub/dolt/go/libraries/doltcore/schema/typeinfo"
	"github.com/dolthub/dolt/go/store/chunks"
	"github.com/dolthub/dolt/go/store/pool"
	"github.com/dolthub/dolt/go/store/prolly/tree"
	"github.com/dolthub/dolt/go/store/types"
	"github.com/dolthub/dolt/go/store/val"
	"github.com/dolthub/dolt/go/zzverif/vh"
)

const c40Rule = "generated tables of 1..8 columns over {TINYINT..BIGINT signed/unsigned incl. MEDIUMINT, FLOAT, DOUBLE, DECIMAL(p,s) p 1..65 s 0..min(30,p), BIT(1..64), YEAR, DATE, TIME, DATETIME(0..6), TIMESTAMP(0..6), CHAR/VARCHAR (byte length below and above 255; utf8mb4, utf8mb3, latin1, ascii), BINARY/VARBINARY, TINY/…/LONG TEXT and BLOB in adaptive and legacy address encoding, ENUM (<=255 and >255 members), SET (1..64 members), JSON (adaptive and address encoding), POINT/LINESTRING/POLYGON}; primary-key columns at drawn positions or a keyless table; 1..3 rows of boundary and random values with every nullability pattern, written to key/value tuples with tree.PutField. serializeRowToBinlogBytes + createTableMapFromDoltTable output is packed into TABLE_MAP/WRITE_ROWS events and decoded with vitess (TableMap, Rows, CellValue): NULL bitmap, every cell value (numeric equality, canonical temporal text at the column precision, bytes for strings/blobs/bits/geometry, structural equality for JSON through vitess' SQL rendering and the harness' own binary-JSON reader) and exact consumption of the row image. Non-trivial: a row with >= 2 columns in which a variable-length column precedes another column and at least one cell is NULL; distinct by hash of (table, rows)."

var c40Pool = pool.NewBuffPool()

// ---------------------------------------------------------------------------------------------
// column kinds

type c40Col struct {
	label  string // type text for descriptions
	class  string
	typ    sql.Type
	enc    val.Encoding // non-zero: legacy encoding forced with TypeInfo.WithEncoding
	keyOK  bool
	varlen bool
	styp   querypb.Type // signedness / binary flag for CellValue, as a replica knows it from its own table
	gen    func(t *rapid.T, l string) any
	str    func(v any) string
	verify func(v any, got sqltypes.Value) error
}

func c40Short(b []byte) string {
	if len(b) > 40 {
		return fmt.Sprintf("%x…(%d bytes)", b[:24], len(b))
	}
	return fmt.Sprintf("%x", b)
}

func c40IntCol[T int8 | int16 | int32 | int64 | uint8 | uint16 | uint32 | uint64](label string, typ sql.Type, signed bool, g *rapid.Generator[T]) c40Col {
	styp := querypb.Type_UINT64
	if signed {
		styp = querypb.Type_INT64
	}
	return c40Col{label: label, class: "int", typ: typ, keyOK: true, styp: styp,
		gen: func(t *rapid.T, l string) any { return g.Draw(t, l) },
		str: func(v any) string { return fmt.Sprint(v) },
		verify: func(v any, got sqltypes.Value) error {
			if want := fmt.Sprint(v); got.ToString() != want {
				return fmt.Errorf("decoded %q, stored %s", got.ToString(), want)
			}
			return nil
		}}
}

var c40F64 = []float64{0, math.Copysign(0, -1), 1, -1, 0.1, -0.1, math.MaxFloat64, -math.MaxFloat64, math.SmallestNonzeroFloat64, 1e15, 123456789.125, 0x1p-1022}
var c40F32 = []float32{0, float32(math.Copysign(0, -1)), 1, -1, 0.1, -0.1, math.MaxFloat32, -math.MaxFloat32, math.SmallestNonzeroFloat32, 1e15, 16777216, 0x1p-126}

func c40FloatCols() []c40Col {
	return []c40Col{
		{label: "FLOAT", class: "float", typ: gmstypes.Float32, keyOK: true, styp: querypb.Type_FLOAT32,
			gen: func(t *rapid.T, l string) any {
				if rapid.IntRange(0, 2).Draw(t, l+".special") == 0 {
					return rapid.SampledFrom(c40F32).Draw(t, l+".which")
				}
				return rapid.Float32().Draw(t, l)
			},
			str: func(v any) string { return fmt.Sprintf("%x", v.(float32)) },
			verify: func(v any, got sqltypes.Value) error {
				f, err := strconv.ParseFloat(got.ToString(), 32)
				if err != nil || math.Float32bits(float32(f)) != math.Float32bits(v.(float32)) {
					return fmt.Errorf("decoded %q (err %v), stored %x", got.ToString(), err, v.(float32))
				}
				return nil
			}},
		{label: "DOUBLE", class: "float", typ: gmstypes.Float64, keyOK: true, styp: querypb.Type_FLOAT64,
			gen: func(t *rapid.T, l string) any {
				if rapid.IntRange(0, 2).Draw(t, l+".special") == 0 {
					return rapid.SampledFrom(c40F64).Draw(t, l+".which")
				}
				return rapid.Float64().Draw(t, l)
			},
			str: func(v any) string { return fmt.Sprintf("%x", v.(float64)) },
			verify: func(v any, got sqltypes.Value) error {
				f, err := strconv.ParseFloat(got.ToString(), 64)
				if err != nil || math.Float64bits(f) != math.Float64bits(v.(float64)) {
					return fmt.Errorf("decoded %q (err %v), stored %x", got.ToString(), err, v.(float64))
				}
				return nil
			}},
	}
}

var c40Ten = big.NewInt(10)

func c40Pow10(n int) *big.Int { return new(big.Int).Exp(c40Ten, big.NewInt(int64(n)), nil) }

func c40DecimalCol(t *rapid.T, l string) c40Col {
	p := rapid.SampledFrom([]int{1, 2, 3, 4, 5, 8, 9, 10, 17, 18, 19, 20, 27, 28, 30, 31, 38, 45, 60, 64, 65, -1}).Draw(t, l+".precision")
	if p < 0 {
		p = rapid.IntRange(1, 65).Draw(t, l+".anyPrecision")
	}
	maxS := p
	if maxS > 30 {
		maxS = 30
	}
	s := rapid.IntRange(0, maxS).Draw(t, l+".scale")
	typ, err := gmstypes.CreateColumnDecimalType(uint8(p), uint8(s))
	if err != nil {
		t.Fatalf("DECIMAL(%d,%d): %v", p, s, err)
	}
	classes := "decimal"
	if p == s {
		classes = "decimal_p_eq_s"
	}
	return c40Col{label: fmt.Sprintf("DECIMAL(%d,%d)", p, s), class: classes, typ: typ, keyOK: true, styp: querypb.Type_DECIMAL,
		gen: func(t *rapid.T, l string) any {
			coeff := new(big.Int)
			switch rapid.IntRange(0, 5).Draw(t, l+".class") {
			case 0: // zero
			case 1: // all nines
				coeff.Sub(c40Pow10(p), big.NewInt(1))
			case 2: // a single 1 at a drawn digit position
				coeff.Set(c40Pow10(rapid.IntRange(0, p-1).Draw(t, l+".digit")))
			case 3: // small
				coeff.SetInt64(int64(rapid.IntRange(0, 1000).Draw(t, l+".small")))
				coeff.Mod(coeff, c40Pow10(p))
			default:
				for i := 0; i < 4; i++ {
					coeff.Lsh(coeff, 64)
					coeff.Or(coeff, new(big.Int).SetUint64(rapid.Uint64().Draw(t, fmt.Sprintf("%s.limb%d", l, i))))
				}
				coeff.Mod(coeff, c40Pow10(p))
			}
			d := apd.NewWithBigInt(new(apd.BigInt).SetMathBigInt(coeff), int32(-s))
			d.Negative = coeff.Sign() != 0 && rapid.Bool().Draw(t, l+".neg")
			return d
		},
		str: func(v any) string { return v.(*apd.Decimal).Text('f') },
		verify: func(v any, got sqltypes.Value) error {
			d := v.(*apd.Decimal)
			// vitess pads inner 9-digit groups with blanks and omits a zero integer part
			txt := strings.ReplaceAll(got.ToString(), " ", "0")
			neg := strings.HasPrefix(txt, "-")
			txt = strings.TrimPrefix(txt, "-")
			ip, fp, hasDot := strings.Cut(txt, ".")
			if hasDot != (s > 0) || len(fp) != s {
				return fmt.Errorf("decoded %q: fraction of %d digits, scale is %d (stored %s)", got.ToString(), len(fp), s, d.Text('f'))
			}
			digits := ip + fp
			if digits == "" {
				digits = "0"
			}
			n, ok := new(big.Int).SetString(digits, 10)
			if !ok {
				return fmt.Errorf("decoded %q is not a number (stored %s)", got.ToString(), d.Text('f'))
			}
			if n.Cmp(d.Coeff.MathBigInt()) != 0 || (n.Sign() != 0 && neg != d.Negative) {
				return fmt.Errorf("decoded %q, stored %s", got.ToString(), d.Text('f'))
			}
			return nil
		}}
}

func c40TextCmp(want func(v any) string) func(v any, got sqltypes.Value) error {
	return func(v any, got sqltypes.Value) error {
		if w := want(v); got.ToString() != w {
			return fmt.Errorf("decoded %q, stored value is %q", got.ToString(), w)
		}
		return nil
	}
}

func c40BytesCmp(want func(v any) []byte) func(v any, got sqltypes.Value) error {
	return func(v any, got sqltypes.Value) error {
		if w := want(v); !bytes.Equal(got.Raw(), w) {
			return fmt.Errorf("decoded %s, stored value is %s", c40Short(got.Raw()), c40Short(w))
		}
		return nil
	}
}

const c40MaxTime = int64((838*3600 + 59*60 + 59) * 1000000)

func c40TimeText(us int64) string {
	sign := ""
	if us < 0 {
		sign, us = "-", -us
	}
	sec := us / 1000000
	return fmt.Sprintf("%s%02d:%02d:%02d.%06d", sign, sec/3600, sec/60%60, sec%60, us%1000000)
}

func c40Frac(tm time.Time, prec int) string {
	if prec == 0 {
		return ""
	}
	return "." + fmt.Sprintf("%06d", tm.Nanosecond()/1000)[:prec]
}

func c40DaysIn(y, m int) int { return time.Date(y, time.Month(m)+1, 0, 0, 0, 0, 0, time.UTC).Day() }

func c40GenCivil(t *rapid.T, l string, prec int, minYear, maxYear int) time.Time {
	y := rapid.SampledFrom([]int{minYear, 1000, 1969, 1970, 2000, 2024, 2037, 2038, maxYear, -1}).Draw(t, l+".year")
	if y < minYear || y > maxYear {
		y = rapid.IntRange(minYear, maxYear).Draw(t, l+".anyYear")
	}
	mo := rapid.IntRange(1, 12).Draw(t, l+".month")
	d := rapid.IntRange(1, c40DaysIn(y, mo)).Draw(t, l+".day")
	h := rapid.SampledFrom([]int{0, 1, 11, 12, 13, 23}).Draw(t, l+".hour")
	mi := rapid.SampledFrom([]int{0, 1, 30, 59}).Draw(t, l+".minute")
	s := rapid.SampledFrom([]int{0, 1, 30, 59}).Draw(t, l+".second")
	us := 0
	if prec > 0 {
		us = rapid.SampledFrom([]int{0, 1, 9, 10, 99, 100000, 123456, 500000, 999999, -1}).Draw(t, l+".micros")
		if us < 0 {
			us = rapid.IntRange(0, 999999).Draw(t, l+".anyMicros")
		}
		unit := int(math.Pow10(6 - prec))
		us = us / unit * unit
	}
	return time.Date(y, time.Month(mo), d, h, mi, s, us*1000, time.UTC)
}

func c40TemporalCols(t *rapid.T, l string) []c40Col {
	dp := rapid.IntRange(0, 6).Draw(t, l+".datetimePrecision")
	tp := rapid.IntRange(0, 6).Draw(t, l+".timestampPrecision")
	dtTyp := gmstypes.MustCreateDatetimeType(sqltypes.Datetime, dp)
	tsTyp := gmstypes.MustCreateDatetimeType(sqltypes.Timestamp, tp)
	return []c40Col{
		{label: "YEAR", class: "year", typ: gmstypes.Year, keyOK: true, styp: querypb.Type_YEAR,
			gen: func(t *rapid.T, l string) any {
				if rapid.IntRange(0, 24).Draw(t, l+".zero") == 0 {
					return int16(0)
				}
				return rapid.Int16Range(1901, 2155).Draw(t, l)
			},
			str: func(v any) string { return fmt.Sprint(v) },
			verify: c40TextCmp(func(v any) string {
				if v.(int16) == 0 {
					return "0000"
				}
				return fmt.Sprint(v)
			})},
		{label: "DATE", class: "date", typ: gmstypes.Date, keyOK: true, styp: querypb.Type_DATE,
			gen: func(t *rapid.T, l string) any {
				if rapid.IntRange(0, 39).Draw(t, l+".zero") == 0 {
					return gmstypes.ZeroTime
				}
				x := c40GenCivil(t, l, 0, 1, 9999)
				return time.Date(x.Year(), x.Month(), x.Day(), 0, 0, 0, 0, time.UTC)
			},
			str: func(v any) string { return c40DateText(v.(time.Time)) },
			verify: c40TextCmp(func(v any) string { return c40DateText(v.(time.Time)) })},
		{label: "TIME", class: "time", typ: gmstypes.Time, keyOK: true, styp: querypb.Type_TIME,
			gen: func(t *rapid.T, l string) any {
				switch rapid.IntRange(0, 5).Draw(t, l+".class") {
				case 0:
					return gmstypes.Timespan(rapid.SampledFrom([]int64{0, 1, -1, 999999, -999999, 1000000, -1000000, 59500000, -59500000, 59999999, -59999999,
						3599999999, -3599999999, c40MaxTime, -c40MaxTime, -60000001, -3600000001}).Draw(t, l+".special"))
				case 1, 2: // whole seconds
					return gmstypes.Timespan(rapid.Int64Range(-c40MaxTime/1000000, c40MaxTime/1000000).Draw(t, l+".seconds") * 1000000)
				default:
					return gmstypes.Timespan(rapid.Int64Range(-c40MaxTime, c40MaxTime).Draw(t, l+".micros"))
				}
			},
			str:    func(v any) string { return c40TimeText(int64(v.(gmstypes.Timespan))) },
			verify: c40TextCmp(func(v any) string { return c40TimeText(int64(v.(gmstypes.Timespan))) })},
		{label: fmt.Sprintf("DATETIME(%d)", dp), class: "datetime", typ: dtTyp, keyOK: true, styp: querypb.Type_DATETIME,
			gen: func(t *rapid.T, l string) any {
				if rapid.IntRange(0, 39).Draw(t, l+".zero") == 0 {
					return gmstypes.ZeroTime
				}
				return c40GenCivil(t, l, dp, 1, 9999)
			},
			str: func(v any) string { return c40DatetimeText(v.(time.Time), dp) },
			verify: c40TextCmp(func(v any) string { return c40DatetimeText(v.(time.Time), dp) })},
		{label: fmt.Sprintf("TIMESTAMP(%d)", tp), class: "timestamp", typ: tsTyp, keyOK: true, styp: querypb.Type_TIMESTAMP,
			gen: func(t *rapid.T, l string) any {
				if rapid.IntRange(0, 39).Draw(t, l+".zero") == 0 {
					return gmstypes.ZeroTime
				}
				if rapid.IntRange(0, 3).Draw(t, l+".edge") == 0 {
					sec := rapid.SampledFrom([]int64{1, 2, 86399, 86400, 946684799, 946684800, 2147483646, 2147483647}).Draw(t, l+".seconds")
					return time.Unix(sec, 0).UTC()
				}
				x := c40GenCivil(t, l, tp, 1970, 2037)
				if x.Unix() < 1 {
					x = x.Add(24 * time.Hour)
				}
				return x
			},
			str: func(v any) string { return c40DatetimeText(v.(time.Time), tp) },
			verify: c40TextCmp(func(v any) string { return c40DatetimeText(v.(time.Time), tp) })},
	}
}

func c40IsZeroTime(x time.Time) bool { return x.Equal(gmstypes.ZeroTime) }

func c40DateText(x time.Time) string {
	if c40IsZeroTime(x) {
		return "0000-00-00"
	}
	return fmt.Sprintf("%04d-%02d-%02d", x.Year(), int(x.Month()), x.Day())
}

func c40DatetimeText(x time.Time, prec int) string {
	if c40IsZeroTime(x) {
		return "0000-00-00 00:00:00" + c40Frac(time.Unix(0, 0), prec)
	}
	x = x.UTC()
	return fmt.Sprintf("%04d-%02d-%02d %02d:%02d:%02d", x.Year(), int(x.Month()), x.Day(), x.Hour(), x.Minute(), x.Second()) + c40Frac(x, prec)
}

// strings ------------------------------------------------------------------------------------

var c40Pieces = []string{"a", "Z", "0", " ", "'", "\"", "\\", "\x00", "\n", "é", "ß", "日本", "\U0001f600", "ab", "%", "_"}

func c40GenText(t *rapid.T, l string, maxChars, maxBytes int, asciiOnly bool) string {
	target := 0
	switch rapid.IntRange(0, 9).Draw(t, l+".lenClass") {
	case 0:
		target = 0
	case 1:
		target = maxChars
	case 2:
		target = rapid.SampledFrom([]int{1, 63, 64, 127, 128, 254, 255, 256, 257, 300}).Draw(t, l+".edgeLen")
	default:
		target = rapid.IntRange(0, 12).Draw(t, l+".len")
	}
	if target > maxChars {
		target = maxChars
	}
	var b strings.Builder
	n := 0
	fill := rapid.SampledFrom(c40Pieces).Draw(t, l+".fill")
	for i := 0; n < target; i++ {
		p := fill
		if i < 6 {
			p = rapid.SampledFrom(c40Pieces).Draw(t, fmt.Sprintf("%s.p%d", l, i))
		}
		if asciiOnly && (len(p) != len([]rune(p)) || p == "\x00") {
			p = "x"
		}
		pc := len([]rune(p))
		if n+pc > target || b.Len()+len(p) > maxBytes {
			p, pc = "x", 1
			if b.Len()+1 > maxBytes {
				break
			}
		}
		b.WriteString(p)
		n += pc
	}
	return b.String()
}

func c40GenBin(t *rapid.T, l string, maxLen int) []byte {
	n := 0
	switch rapid.IntRange(0, 9).Draw(t, l+".lenClass") {
	case 0:
		n = 0
	case 1:
		n = maxLen
	case 2:
		n = rapid.SampledFrom([]int{1, 127, 128, 254, 255, 256, 257, 300}).Draw(t, l+".edgeLen")
	default:
		n = rapid.IntRange(0, 12).Draw(t, l+".len")
	}
	if n > maxLen {
		n = maxLen
	}
	head := rapid.SliceOfN(rapid.Byte(), 0, 6).Draw(t, l+".head")
	fill := rapid.Byte().Draw(t, l+".fill")
	out := bytes.Repeat([]byte{fill}, n)
	copy(out, head)
	return out
}

type c40Charset struct {
	coll      sql.CollationID
	name      string
	asciiOnly bool // generated content is restricted to ASCII (see assumptions)
}

var c40Charsets = []c40Charset{
	{sql.Collation_utf8mb4_0900_ai_ci, "utf8mb4", false},
	{sql.Collation_utf8mb4_0900_bin, "utf8mb4", false},
	{sql.Collation_utf8mb4_general_ci, "utf8mb4", false},
	{sql.Collation_utf8mb3_general_ci, "utf8mb3", true},
	{sql.Collation_latin1_swedish_ci, "latin1", true},
	{sql.Collation_ascii_general_ci, "ascii", true},
}

func c40StringCol(t *rapid.T, l string) c40Col {
	cs := rapid.SampledFrom(c40Charsets).Draw(t, l+".charset")
	isChar := rapid.IntRange(0, 2).Draw(t, l+".char") == 0
	var n int
	base := sqltypes.VarChar
	kind := "VARCHAR"
	if isChar {
		base, kind = sqltypes.Char, "CHAR"
		n = rapid.SampledFrom([]int{1, 10, 63, 64, 85, 86, 255}).Draw(t, l+".len")
	} else {
		n = rapid.SampledFrom([]int{1, 10, 63, 64, 85, 86, 255, 256, 1000, 16383}).Draw(t, l+".len")
	}
	typ, err := gmstypes.CreateString(base, int64(n), cs.coll)
	if err != nil {
		t.Fatalf("%s(%d) %s: %v", kind, n, cs.name, err)
	}
	maxBytes := int(typ.MaxByteLength())
	if maxBytes > 2000 {
		maxBytes = 2000
	}
	return c40Col{label: fmt.Sprintf("%s(%d) %s", kind, n, cs.name), class: strings.ToLower(kind) + "_" + cs.name, typ: typ, keyOK: n <= 255, varlen: true, styp: querypb.Type_VARCHAR,
		gen: func(t *rapid.T, l string) any {
			s := c40GenText(t, l, n, maxBytes, cs.asciiOnly)
			if isChar {
				s = strings.TrimRight(s, " ") // CHAR values are stored without trailing pad blanks
			}
			return s
		},
		str:    func(v any) string { return fmt.Sprintf("%+q", v.(string)) },
		verify: c40BytesCmp(func(v any) []byte { return []byte(v.(string)) })}
}

func c40BinaryCol(t *rapid.T, l string) c40Col {
	if rapid.Bool().Draw(t, l+".fixed") {
		n := rapid.SampledFrom([]int{1, 4, 16, 255}).Draw(t, l+".len")
		typ := gmstypes.MustCreateBinary(sqltypes.Binary, int64(n))
		return c40Col{label: fmt.Sprintf("BINARY(%d)", n), class: "binary", typ: typ, keyOK: true, varlen: true, styp: querypb.Type_BINARY,
			gen: func(t *rapid.T, l string) any {
				b := c40GenBin(t, l, n)
				return append(b, make([]byte, n-len(b))...) // BINARY(n) values are stored right-padded with 0x00
			},
			str:    func(v any) string { return "x'" + c40Short(v.([]byte)) + "'" },
			verify: c40BytesCmp(func(v any) []byte { return v.([]byte) })}
	}
	n := rapid.SampledFrom([]int{1, 16, 255, 256, 3000}).Draw(t, l+".len")
	typ := gmstypes.MustCreateBinary(sqltypes.VarBinary, int64(n))
	return c40Col{label: fmt.Sprintf("VARBINARY(%d)", n), class: "varbinary", typ: typ, keyOK: n <= 255, varlen: true, styp: querypb.Type_VARBINARY,
		gen:    func(t *rapid.T, l string) any { return c40GenBin(t, l, n) },
		str:    func(v any) string { return "x'" + c40Short(v.([]byte)) + "'" },
		verify: c40BytesCmp(func(v any) []byte { return v.([]byte) })}
}

func c40GenLob(t *rapid.T, l string, maxLen int, binary bool) []byte {
	n := 0
	switch rapid.IntRange(0, 11).Draw(t, l+".lenClass") {
	case 0:
		n = 0
	case 1:
		n = rapid.SampledFrom([]int{255, 256, 2047, 2048, 2049, 4096, 65535, 65536, 70000}).Draw(t, l+".edgeLen")
	case 2:
		n = rapid.IntRange(1000, 5000).Draw(t, l+".mid")
	default:
		n = rapid.IntRange(0, 40).Draw(t, l+".len")
	}
	if n > maxLen {
		n = maxLen
	}
	lo, hi := byte(0x20), byte(0x7e)
	if binary {
		lo, hi = 0, 0xff
	}
	head := rapid.SliceOfN(rapid.ByteRange(lo, hi), 0, 8).Draw(t, l+".head")
	fill := rapid.ByteRange(lo, hi).Draw(t, l+".fill")
	out := bytes.Repeat([]byte{fill}, n)
	copy(out, head)
	if !binary && n >= 8 && rapid.Bool().Draw(t, l+".multibyte") {
		copy(out[n-8:], "\u00e9\u65e5\u672c") // 2+3+3 bytes of multi-byte text at the end
	}
	return out
}

func c40LobCol(t *rapid.T, l string) c40Col {
	size := rapid.IntRange(0, 3).Draw(t, l+".size")
	legacy := rapid.IntRange(0, 3).Draw(t, l+".legacyEncoding") == 0
	names := []string{"TINY", "", "MEDIUM", "LONG"}
	maxLens := []int{255, 65535, 16777215, 1 << 30}
	if rapid.Bool().Draw(t, l+".text") {
		typ := []sql.StringType{gmstypes.TinyText, gmstypes.Text, gmstypes.MediumText, gmstypes.LongText}[size]
		c := c40Col{label: names[size] + "TEXT", class: "text", typ: typ, varlen: true, styp: querypb.Type_TEXT,
			gen:    func(t *rapid.T, l string) any { return string(c40GenLob(t, l, maxLens[size], false)) },
			str:    func(v any) string { return "'" + c40Short([]byte(v.(string))) + "'" },
			verify: c40BytesCmp(func(v any) []byte { return []byte(v.(string)) })}
		if legacy {
			c.enc, c.label, c.class = val.StringAddrEnc, c.label+"/addr", "text_addr"
		}
		return c
	}
	typ := []sql.StringType{gmstypes.TinyBlob, gmstypes.Blob, gmstypes.MediumBlob, gmstypes.LongBlob}[size]
	c := c40Col{label: names[size] + "BLOB", class: "blob", typ: typ, varlen: true, styp: querypb.Type_BLOB,
		gen:    func(t *rapid.T, l string) any { return c40GenLob(t, l, maxLens[size], true) },
		str:    func(v any) string { return "x'" + c40Short(v.([]byte)) + "'" },
		verify: c40BytesCmp(func(v any) []byte { return v.([]byte) })}
	if legacy {
		c.enc, c.label, c.class = val.BytesAddrEnc, c.label+"/addr", "blob_addr"
	}
	return c
}

func c40BitCol(t *rapid.T, l string) c40Col {
	n := rapid.SampledFrom([]int{1, 7, 8, 9, 15, 16, 17, 31, 32, 33, 63, 64}).Draw(t, l+".bits")
	typ := gmstypes.MustCreateBitType(uint8(n))
	return c40Col{label: fmt.Sprintf("BIT(%d)", n), class: "bit", typ: typ, keyOK: true, styp: querypb.Type_BIT,
		gen: func(t *rapid.T, l string) any {
			v := rapid.Uint64().Draw(t, l)
			if n < 64 {
				v &= (uint64(1) << uint(n)) - 1
			}
			return v
		},
		str: func(v any) string { return fmt.Sprintf("b'%b'", v.(uint64)) },
		verify: c40BytesCmp(func(v any) []byte {
			buf := make([]byte, 8)
			binary.BigEndian.PutUint64(buf, v.(uint64))
			return buf[8-(n+7)/8:]
		})}
}

func c40EnumSetCol(t *rapid.T, l string) c40Col {
	if rapid.Bool().Draw(t, l+".enum") {
		n := rapid.SampledFrom([]int{1, 2, 255, 256, 300}).Draw(t, l+".members")
		vals := make([]string, n)
		for i := range vals {
			vals[i] = fmt.Sprintf("e%d", i+1)
		}
		typ := gmstypes.MustCreateEnumType(vals, sql.Collation_Default)
		return c40Col{label: fmt.Sprintf("ENUM(%d members)", n), class: "enum", typ: typ, keyOK: true, styp: querypb.Type_ENUM,
			gen:    func(t *rapid.T, l string) any { return uint16(rapid.IntRange(1, n).Draw(t, l)) },
			str:    func(v any) string { return fmt.Sprint(v) },
			verify: c40TextCmp(func(v any) string { return fmt.Sprint(v) })}
	}
	n := rapid.SampledFrom([]int{1, 8, 9, 16, 17, 32, 33, 63, 64}).Draw(t, l+".members")
	vals := make([]string, n)
	for i := range vals {
		vals[i] = fmt.Sprintf("s%d", i+1)
	}
	typ := gmstypes.MustCreateSetType(vals, sql.Collation_Default)
	return c40Col{label: fmt.Sprintf("SET(%d members)", n), class: "set", typ: typ, keyOK: true, styp: querypb.Type_SET,
		gen: func(t *rapid.T, l string) any {
			v := rapid.Uint64().Draw(t, l)
			if n < 64 {
				v &= (uint64(1) << uint(n)) - 1
			}
			return v
		},
		str:    func(v any) string { return fmt.Sprintf("%#x", v.(uint64)) },
		verify: c40TextCmp(func(v any) string { return fmt.Sprint(v) })}
}

// geometry -----------------------------------------------------------------------------------

func c40GeometryCol(t *rapid.T, l string) c40Col {
	coord := func(t *rapid.T, l string) float64 {
		return rapid.SampledFrom([]float64{0, 1, -1, 0.5, 180, -90, 1e10, -123.456}).Draw(t, l)
	}
	point := func(t *rapid.T, l string, srid uint32) gmstypes.Point {
		return gmstypes.Point{SRID: srid, X: coord(t, l+".x"), Y: coord(t, l+".y")}
	}
	legacy := rapid.IntRange(0, 3).Draw(t, l+".legacyEncoding") == 0
	c := c40Col{label: "GEOMETRY", class: "geometry", typ: gmstypes.GeometryType{}, varlen: true, styp: querypb.Type_GEOMETRY,
		gen: func(t *rapid.T, l string) any {
			srid := rapid.SampledFrom([]uint32{0, 4326}).Draw(t, l+".srid")
			switch rapid.IntRange(0, 2).Draw(t, l+".shape") {
			case 0:
				return point(t, l, srid)
			case 1:
				n := rapid.IntRange(2, 4).Draw(t, l+".npoints")
				ls := gmstypes.LineString{SRID: srid}
				for i := 0; i < n; i++ {
					ls.Points = append(ls.Points, point(t, fmt.Sprintf("%s.p%d", l, i), srid))
				}
				return ls
			default:
				a, b, c := point(t, l+".a", srid), point(t, l+".b", srid), point(t, l+".c", srid)
				ring := gmstypes.LineString{SRID: srid, Points: []gmstypes.Point{a, b, c, a}}
				return gmstypes.Polygon{SRID: srid, Lines: []gmstypes.LineString{ring}}
			}
		},
		str: func(v any) string { return fmt.Sprintf("%v", v) },
		verify: func(v any, got sqltypes.Value) error {
			// MySQL's internal geometry format: 4-byte SRID followed by WKB
			want := v.(gmstypes.GeometryValue).Serialize()
			if !bytes.Equal(got.Raw(), want) {
				return fmt.Errorf("decoded %x, stored geometry serializes to %x", got.Raw(), want)
			}
			return nil
		}}
	if legacy {
		c.enc, c.label, c.class = val.GeomAddrEnc, "GEOMETRY/addr", "geometry_addr"
	}
	return c
}

// JSON ---------------------------------------------------------------------------------------

var c40JsonStrings = []string{"", "a", "key", "é", "日本語", "\U0001f600", "with \"quotes\"", "back\\slash", "new\nline", "tab\t", "'single'", "null", "0"}

func c40GenJsonString(t *rapid.T, l string, big *bool) string {
	switch rapid.IntRange(0, 19).Draw(t, l+".strClass") {
	case 0: // around the 1/2/3 byte variable-length size boundaries
		n := rapid.SampledFrom([]int{126, 127, 128, 129, 255, 256, 16383, 16384, 16385}).Draw(t, l+".edgeLen")
		return strings.Repeat(rapid.SampledFrom([]string{"x", "y"}).Draw(t, l+".fill"), n)
	case 1: // large enough that offsets behind it need the 4-byte container format
		if *big {
			return "second"
		}
		*big = true
		n := rapid.SampledFrom([]int{30000, 65000, 65520, 65535, 65536, 70000}).Draw(t, l+".bigLen")
		return strings.Repeat("z", n)
	default:
		return rapid.SampledFrom(c40JsonStrings).Draw(t, l+".str")
	}
}

func c40GenJsonKey(t *rapid.T, l string) string {
	switch rapid.IntRange(0, 29).Draw(t, l+".keyClass") {
	case 0:
		n := rapid.SampledFrom([]int{254, 255, 256, 257, 300, 511, 512, 1000}).Draw(t, l+".keyLen")
		return strings.Repeat("k", n)
	case 1, 2:
		return rapid.SampledFrom([]string{"", "b", "aa", "B", "a", "ab", "é", "z"}).Draw(t, l+".shortKey")
	default:
		return fmt.Sprintf("k%d", rapid.IntRange(0, 8).Draw(t, l+".key"))
	}
}

var c40JsonNumbers = []float64{0, 1, -1, 2, 0.5, -0.25, 32767, 32768, -32768, -32769, 65535, 65536, 2147483647, 2147483648, -2147483648, 4294967295, 4294967296,
	9007199254740991, -9007199254740991, 1e15, 1.5e300, 1e-7, 123456.789}

func c40GenJson(t *rapid.T, l string, depth int, big *bool) any {
	k := rapid.IntRange(0, 9).Draw(t, l+".kind")
	if depth <= 0 && k >= 6 {
		k -= 6
	}
	switch {
	case k == 0:
		return nil
	case k == 1:
		return rapid.Bool().Draw(t, l+".bool")
	case k <= 3:
		return rapid.SampledFrom(c40JsonNumbers).Draw(t, l+".num")
	case k <= 5:
		return c40GenJsonString(t, l, big)
	case k <= 7:
		n := rapid.IntRange(0, 4).Draw(t, l+".alen")
		arr := make([]any, n)
		for i := range arr {
			arr[i] = c40GenJson(t, fmt.Sprintf("%s[%d]", l, i), depth-1, big)
		}
		return arr
	default:
		n := rapid.IntRange(0, 4).Draw(t, l+".olen")
		obj := map[string]any{}
		for i := 0; i < n; i++ {
			obj[c40GenJsonKey(t, fmt.Sprintf("%s.k%d", l, i))] = c40GenJson(t, fmt.Sprintf("%s{%d}", l, i), depth-1, big)
		}
		return obj
	}
}

func c40SortedKeys(m map[string]any) []string {
	ks := make([]string, 0, len(m))
	for k := range m {
		ks = append(ks, k)
	}
	sort.Strings(ks)
	return ks
}

// c40JsonText renders the document as JSON text (input for the SQL layer's JSON type).
func c40JsonText(v any, b *strings.Builder) {
	switch x := v.(type) {
	case nil:
		b.WriteString("null")
	case bool:
		fmt.Fprint(b, x)
	case float64:
		b.WriteString(strconv.FormatFloat(x, 'g', -1, 64))
	case string:
		q, _ := json.Marshal(x)
		b.Write(q)
	case []any:
		b.WriteByte('[')
		for i, e := range x {
			if i > 0 {
				b.WriteByte(',')
			}
			c40JsonText(e, b)
		}
		b.WriteByte(']')
	case map[string]any:
		b.WriteByte('{')
		for i, k := range c40SortedKeys(x) {
			if i > 0 {
				b.WriteByte(',')
			}
			q, _ := json.Marshal(k)
			b.Write(q)
			b.WriteByte(':')
			c40JsonText(x[k], b)
		}
		b.WriteByte('}')
	}
}

func c40JsonShort(v any) string {
	var b strings.Builder
	c40JsonShortInto(v, &b)
	return b.String()
}

func c40JsonShortInto(v any, b *strings.Builder) {
	switch x := v.(type) {
	case string:
		if len(x) > 24 {
			fmt.Fprintf(b, "\"%s…(%d)\"", x[:8], len(x))
		} else {
			b.WriteString(strconv.Quote(x))
		}
	case []any:
		b.WriteByte('[')
		for i, e := range x {
			if i > 0 {
				b.WriteByte(',')
			}
			c40JsonShortInto(e, b)
		}
		b.WriteByte(']')
	case map[string]any:
		b.WriteByte('{')
		for i, k := range c40SortedKeys(x) {
			if i > 0 {
				b.WriteByte(',')
			}
			c40JsonShortInto(k, b)
			b.WriteByte(':')
			c40JsonShortInto(x[k], b)
		}
		b.WriteByte('}')
	default:
		var t strings.Builder
		c40JsonText(v, &t)
		b.WriteString(t.String())
	}
}

// c40ReadJson is the harness' reader of MySQL's binary JSON format (json_binary.h): type byte,
// then for containers element count and total size (2 or 4 bytes), key entries (offset, 2-byte
// length), value entries (type, inlined literal/int16 or offset), keys, values.
func c40ReadJson(typ byte, data []byte, top bool) (any, error) {
	need := func(n int) error {
		if len(data) < n {
			return fmt.Errorf("json value type %d needs %d bytes, %d left", typ, n, len(data))
		}
		return nil
	}
	switch typ {
	case jsonTypeSmallObject, jsonTypeLargeObject, jsonTypeSmallArray, jsonTypeLargeArray:
		large := typ == jsonTypeLargeObject || typ == jsonTypeLargeArray
		isObj := typ == jsonTypeSmallObject || typ == jsonTypeLargeObject
		w := 2
		if large {
			w = 4
		}
		rd := func(pos int) (int, error) {
			if pos+w > len(data) {
				return 0, fmt.Errorf("container header runs past the end (%d+%d > %d)", pos, w, len(data))
			}
			if large {
				return int(binary.LittleEndian.Uint32(data[pos:])), nil
			}
			return int(binary.LittleEndian.Uint16(data[pos:])), nil
		}
		count, err := rd(0)
		if err != nil {
			return nil, err
		}
		size, err := rd(w)
		if err != nil {
			return nil, err
		}
		if size > len(data) || (top && size != len(data)) {
			return nil, fmt.Errorf("container declares %d bytes, %d are present (top level: %v)", size, len(data), top)
		}
		pos := 2 * w
		keys := make([]string, count)
		if isObj {
			for i := 0; i < count; i++ {
				off, err := rd(pos)
				if err != nil {
					return nil, err
				}
				if pos+w+2 > len(data) {
					return nil, fmt.Errorf("key entry %d runs past the end", i)
				}
				kl := int(binary.LittleEndian.Uint16(data[pos+w:]))
				pos += w + 2
				if off+kl > size {
					return nil, fmt.Errorf("key %d at %d+%d lies outside the %d byte object", i, off, kl, size)
				}
				keys[i] = string(data[off : off+kl])
			}
		}
		vals := make([]any, count)
		for i := 0; i < count; i++ {
			if pos+1+w > len(data) {
				return nil, fmt.Errorf("value entry %d runs past the end", i)
			}
			vt := data[pos]
			inl := data[pos+1 : pos+1+w]
			pos += 1 + w
			switch {
			case vt == jsonTypeLiteral || vt == jsonTypeInt16 || vt == jsonTypeUint16 || (large && (vt == jsonTypeInt32 || vt == jsonTypeUint32)):
				v, err := c40ReadJson(vt, inl, false)
				if err != nil {
					return nil, err
				}
				vals[i] = v
			default:
				off := int(binary.LittleEndian.Uint16(inl))
				if large {
					off = int(binary.LittleEndian.Uint32(inl))
				}
				if off >= size {
					return nil, fmt.Errorf("value %d at offset %d lies outside the %d byte container", i, off, size)
				}
				v, err := c40ReadJson(vt, data[off:size], false)
				if err != nil {
					return nil, err
				}
				vals[i] = v
			}
		}
		if !isObj {
			return vals, nil
		}
		obj := make(map[string]any, count)
		for i, k := range keys {
			if _, dup := obj[k]; dup {
				return nil, fmt.Errorf("object holds key %q twice", k)
			}
			obj[k] = vals[i]
		}
		return obj, nil
	case jsonTypeLiteral:
		if err := need(1); err != nil {
			return nil, err
		}
		switch data[0] {
		case jsonLiteralValueNull:
			return nil, nil
		case jsonLiteralValueTrue:
			return true, nil
		case jsonLiteralValueFalse:
			return false, nil
		}
		return nil, fmt.Errorf("unknown literal %d", data[0])
	case jsonTypeInt16:
		if err := need(2); err != nil {
			return nil, err
		}
		return float64(int16(binary.LittleEndian.Uint16(data))), nil
	case jsonTypeUint16:
		if err := need(2); err != nil {
			return nil, err
		}
		return float64(binary.LittleEndian.Uint16(data)), nil
	case jsonTypeInt32:
		if err := need(4); err != nil {
			return nil, err
		}
		return float64(int32(binary.LittleEndian.Uint32(data))), nil
	case jsonTypeUint32:
		if err := need(4); err != nil {
			return nil, err
		}
		return float64(binary.LittleEndian.Uint32(data)), nil
	case jsonTypeInt64:
		if err := need(8); err != nil {
			return nil, err
		}
		return float64(int64(binary.LittleEndian.Uint64(data))), nil
	case jsonTypeUint64:
		if err := need(8); err != nil {
			return nil, err
		}
		return float64(binary.LittleEndian.Uint64(data)), nil
	case jsonTypeDouble:
		if err := need(8); err != nil {
			return nil, err
		}
		return math.Float64frombits(binary.LittleEndian.Uint64(data)), nil
	case jsonTypeString:
		n, pos := 0, 0
		for shift := uint(0); ; shift += 7 {
			if pos >= len(data) || pos >= 5 {
				return nil, fmt.Errorf("string length runs past the end")
			}
			b := data[pos]
			pos++
			n |= int(b&0x7f) << shift
			if b&0x80 == 0 {
				break
			}
		}
		if pos+n > len(data) {
			return nil, fmt.Errorf("string of %d bytes at %d runs past the end (%d)", n, pos, len(data))
		}
		if top && pos+n != len(data) {
			return nil, fmt.Errorf("top-level string uses %d of %d bytes", pos+n, len(data))
		}
		return string(data[pos : pos+n]), nil
	}
	return nil, fmt.Errorf("unexpected json type byte %d", typ)
}

func c40JsonEqual(a, b any) bool {
	switch x := a.(type) {
	case nil:
		return b == nil
	case bool:
		y, ok := b.(bool)
		return ok && x == y
	case float64:
		y, ok := b.(float64)
		return ok && x == y
	case string:
		y, ok := b.(string)
		return ok && x == y
	case []any:
		y, ok := b.([]any)
		if !ok || len(x) != len(y) {
			return false
		}
		for i := range x {
			if !c40JsonEqual(x[i], y[i]) {
				return false
			}
		}
		return true
	case map[string]any:
		y, ok := b.(map[string]any)
		if !ok || len(x) != len(y) {
			return false
		}
		for k, v := range x {
			w, ok := y[k]
			if !ok || !c40JsonEqual(v, w) {
				return false
			}
		}
		return true
	}
	return false
}

// c40JsonSQL renders the document the way vitess' binlog JSON decoder prints it.
func c40JsonSQL(v any, top bool, b *bytes.Buffer) (comparable bool) {
	comparable = true
	q := func(s string) {
		if top {
			b.WriteByte('\'')
			b.WriteString(s)
			b.WriteByte('\'')
		} else {
			b.WriteString(s)
		}
	}
	switch x := v.(type) {
	case nil:
		q("null")
	case bool:
		q(fmt.Sprint(x))
	case float64:
		q(strconv.FormatFloat(x, 'E', -1, 64))
	case string:
		if top {
			// vitess does not escape a top-level string; only plain ones are comparable as text
			if strings.ContainsAny(x, "'\"\\\n\t\x00") {
				comparable = false
			}
			b.WriteString("'\"" + x + "\"'")
		} else {
			sqltypes.MakeTrusted(sqltypes.VarBinary, []byte(x)).EncodeSQL(b)
		}
	case []any:
		b.WriteString("JSON_ARRAY(")
		for i, e := range x {
			if i > 0 {
				b.WriteByte(',')
			}
			c40JsonSQL(e, false, b)
		}
		b.WriteByte(')')
	case map[string]any:
		b.WriteString("JSON_OBJECT(")
		for i, k := range c40SortedKeys(x) {
			if i > 0 {
				b.WriteByte(',')
			}
			sqltypes.MakeTrusted(sqltypes.VarBinary, []byte(k)).EncodeSQL(b)
			b.WriteByte(',')
			c40JsonSQL(x[k], false, b)
		}
		b.WriteByte(')')
	}
	return comparable
}

type c40JsonVal struct {
	doc  any
	text string
}

func c40JsonCol(t *rapid.T, l string) c40Col {
	legacy := rapid.IntRange(0, 3).Draw(t, l+".legacyEncoding") == 0
	c := c40Col{label: "JSON", class: "json", typ: gmstypes.JSON, varlen: true, styp: querypb.Type_JSON,
		gen: func(t *rapid.T, l string) any {
			big := false
			doc := c40GenJson(t, l, 3, &big)
			var b strings.Builder
			c40JsonText(doc, &b)
			return c40JsonVal{doc: doc, text: b.String()}
		},
		str: func(v any) string { return c40JsonShort(v.(c40JsonVal).doc) },
	}
	if legacy {
		c.enc, c.label, c.class = val.JSONAddrEnc, "JSON/addr", "json_addr"
	}
	return c
}

// c40VerifyJson checks a JSON cell: raw is the cell's payload (after the length prefix).
func c40VerifyJson(doc any, raw []byte, got sqltypes.Value) error {
	if len(raw) == 0 {
		return fmt.Errorf("empty JSON payload")
	}
	mine, err := c40ReadJson(raw[0], raw[1:], true)
	if err != nil {
		return fmt.Errorf("binary JSON is malformed: %v", err)
	}
	if !c40JsonEqual(doc, mine) {
		return fmt.Errorf("binary JSON reads as %s", c40JsonShort(mine))
	}
	var want bytes.Buffer
	if c40JsonSQL(doc, true, &want) && !bytes.Equal(got.Raw(), want.Bytes()) {
		return fmt.Errorf("vitess decodes %s, stored document renders as %s", c40Short(got.Raw()), c40Short(want.Bytes()))
	}
	return nil
}

// ---------------------------------------------------------------------------------------------
// column drawing

func c40GenCol(t *rapid.T, l string) c40Col {
	switch k := rapid.IntRange(0, 21).Draw(t, l+".kind"); {
	case k <= 3:
		ints := []c40Col{
			c40IntCol("TINYINT", gmstypes.Int8, true, rapid.Int8()),
			c40IntCol("TINYINT UNSIGNED", gmstypes.Uint8, false, rapid.Uint8()),
			c40IntCol("SMALLINT", gmstypes.Int16, true, rapid.Int16()),
			c40IntCol("SMALLINT UNSIGNED", gmstypes.Uint16, false, rapid.Uint16()),
			c40IntCol("MEDIUMINT", gmstypes.Int24, true, rapid.Int32Range(-8388608, 8388607)),
			c40IntCol("MEDIUMINT UNSIGNED", gmstypes.Uint24, false, rapid.Uint32Range(0, 16777215)),
			c40IntCol("INT", gmstypes.Int32, true, rapid.Int32()),
			c40IntCol("INT UNSIGNED", gmstypes.Uint32, false, rapid.Uint32()),
			c40IntCol("BIGINT", gmstypes.Int64, true, rapid.Int64()),
			c40IntCol("BIGINT UNSIGNED", gmstypes.Uint64, false, rapid.Uint64()),
		}
		return ints[rapid.IntRange(0, len(ints)-1).Draw(t, l+".int")]
	case k == 4:
		return c40FloatCols()[rapid.IntRange(0, 1).Draw(t, l+".float")]
	case k <= 6:
		return c40DecimalCol(t, l)
	case k <= 10:
		cols := c40TemporalCols(t, l)
		return cols[rapid.IntRange(0, len(cols)-1).Draw(t, l+".temporal")]
	case k <= 13:
		return c40StringCol(t, l)
	case k == 14:
		return c40BinaryCol(t, l)
	case k <= 16:
		return c40LobCol(t, l)
	case k == 17:
		return c40BitCol(t, l)
	case k == 18:
		return c40EnumSetCol(t, l)
	case k <= 20:
		return c40JsonCol(t, l)
	default:
		return c40GeometryCol(t, l)
	}
}

// ---------------------------------------------------------------------------------------------
// known-finding signatures: inputs on which the serializers are known to be wrong. When the
// finding is listed as open in known_findings.json the cell is excluded from the oracle (and
// counted), otherwise it is checked like any other cell.

type c40Finding struct {
	id    string
	match func(c *c40Col, v any) bool
}

func c40JsonAny(v any, pred func(v any, key string, isKey bool) bool) bool {
	switch x := v.(type) {
	case []any:
		for _, e := range x {
			if pred(e, "", false) || c40JsonAny(e, pred) {
				return true
			}
		}
	case map[string]any:
		for k, e := range x {
			if pred(nil, k, true) || pred(e, "", false) || c40JsonAny(e, pred) {
				return true
			}
		}
	}
	return false
}

var c40Findings = []c40Finding{
	{"C40-time-negative-fraction-second59", func(c *c40Col, v any) bool {
		ts, ok := v.(gmstypes.Timespan)
		return ok && ts < 0 && (-int64(ts))%1000000 != 0 && (-int64(ts))/1000000%60 == 59
	}},
	{"C40-year-zero", func(c *c40Col, v any) bool { y, ok := v.(int16); return ok && c.class == "year" && y == 0 }},
	{"C40-zero-date", func(c *c40Col, v any) bool {
		x, ok := v.(time.Time)
		return ok && (c.class == "date" || c.class == "datetime" || c.class == "timestamp") && c40IsZeroTime(x)
	}},
	{"C40-decimal-precision-equals-scale", func(c *c40Col, v any) bool { return c.class == "decimal_p_eq_s" }},
	{"C40-json-key-over-255-bytes", func(c *c40Col, v any) bool {
		j, ok := v.(c40JsonVal)
		return ok && c40JsonAny(j.doc, func(_ any, key string, isKey bool) bool { return isKey && len(key) > 255 })
	}},
	{"C40-json-element-over-64k-in-small-container", func(c *c40Col, v any) bool {
		j, ok := v.(c40JsonVal)
		return ok && c40JsonAny(j.doc, func(e any, _ string, isKey bool) bool { return !isKey && c40JsonEncSize(e) > 65535 })
	}},
}

// c40JsonEncSize is the size of a value in MySQL's binary JSON format (without its type byte):
// containers use the 2-byte format when everything fits below 64 KiB, else the 4-byte format.
func c40JsonEncSize(v any) int {
	container := func(n int, keyBytes int, isObj bool, elems []any) int {
		body := keyBytes
		for _, e := range elems {
			switch e.(type) {
			case nil, bool:
			default:
				body += c40JsonEncSize(e)
			}
		}
		per := 3
		if isObj {
			per += 4
		}
		if small := 4 + n*per + body; small <= 65535 {
			return small
		}
		per = 5
		if isObj {
			per += 6
		}
		return 8 + n*per + body
	}
	switch x := v.(type) {
	case nil, bool:
		return 1
	case float64:
		return 8
	case string:
		switch {
		case len(x) < 128:
			return 1 + len(x)
		case len(x) < 16384:
			return 2 + len(x)
		}
		return 3 + len(x)
	case []any:
		return container(len(x), 0, false, x)
	case map[string]any:
		kb := 0
		elems := make([]any, 0, len(x))
		for k, e := range x {
			kb += len(k)
			elems = append(elems, e)
		}
		return container(len(x), kb, true, elems)
	}
	return 0
}

func c40KnownOpen(c *c40Col, v any) string {
	for _, f := range c40Findings {
		if f.match(c, v) && vh.OpenFinding("C40", f.id) {
			return f.id
		}
	}
	return ""
}

// ---------------------------------------------------------------------------------------------
// the case

type c40Table struct {
	cols    []c40Col
	isPK    []bool
	notNull []bool
	keyless bool
}

func (tb *c40Table) String() string {
	var p []string
	for i, c := range tb.cols {
		s := c.label
		if tb.isPK[i] {
			s += " PK"
		} else if tb.notNull[i] {
			s += " NOT NULL"
		}
		p = append(p, s)
	}
	if tb.keyless {
		return "keyless(" + strings.Join(p, ", ") + ")"
	}
	return "table(" + strings.Join(p, ", ") + ")"
}

func c40GenTable(t *rapid.T) *c40Table {
	n := rapid.SampledFrom([]int{1, 2, 2, 3, 3, 4, 5, 6, 8}).Draw(t, "ncols")
	tb := &c40Table{cols: make([]c40Col, n), isPK: make([]bool, n), notNull: make([]bool, n)}
	for i := range tb.cols {
		tb.cols[i] = c40GenCol(t, fmt.Sprintf("col%d", i))
	}
	tb.keyless = rapid.IntRange(0, 5).Draw(t, "keyless") == 0
	anyPK := false
	for i := range tb.cols {
		if !tb.keyless && tb.cols[i].keyOK && rapid.IntRange(0, 2).Draw(t, fmt.Sprintf("col%d.pk", i)) == 0 {
			tb.isPK[i], tb.notNull[i], anyPK = true, true, true
		} else {
			tb.notNull[i] = rapid.IntRange(0, 3).Draw(t, fmt.Sprintf("col%d.notnull", i)) == 0
		}
	}
	if !tb.keyless && !anyPK {
		// an INT primary key at a drawn position
		pos := rapid.IntRange(0, n).Draw(t, "idPos")
		id := c40IntCol("INT", gmstypes.Int32, true, rapid.Int32())
		tb.cols = append(tb.cols[:pos], append([]c40Col{id}, tb.cols[pos:]...)...)
		tb.isPK = append(tb.isPK[:pos], append([]bool{true}, tb.isPK[pos:]...)...)
		tb.notNull = append(tb.notNull[:pos], append([]bool{true}, tb.notNull[pos:]...)...)
	}
	return tb
}

func c40Case(t *rapid.T, rec *vh.Recorder) {
	ctx := sql.NewEmptyContext()
	tbl := c40GenTable(t)
	n := len(tbl.cols)

	cs := (&chunks.TestStorage{}).NewViewWithFormat(types.Format_DOLT.VersionString())
	ns := tree.NewNodeStore(cs)
	vrw := types.NewValueStore(cs)

	cols := make([]schema.Column, n)
	for i, c := range tbl.cols {
		ti, err := typeinfo.FromSqlType(c.typ)
		if err != nil {
			t.Fatalf("typeinfo for %s: %v", c.label, err)
		}
		if c.enc != 0 {
			ti = ti.WithEncoding(c.enc)
		}
		var cons []schema.ColConstraint
		if tbl.notNull[i] {
			cons = append(cons, schema.NotNullConstraint{})
		}
		col, err := schema.NewColumnWithTypeInfo(fmt.Sprintf("c%d", i), uint64(1000+i), ti, tbl.isPK[i], "", false, "", cons...)
		if err != nil {
			t.Fatalf("column %s: %v", c.label, err)
		}
		cols[i] = col
	}
	sch0, err := schema.SchemaFromCols(schema.NewColCollection(cols...))
	if err != nil {
		t.Fatalf("schema for %s: %v", tbl, err)
	}
	table, err := doltdb.NewEmptyTable(ctx, vrw, ns, sch0)
	if err != nil {
		t.Fatalf("NewEmptyTable(%s): %v", tbl, err)
	}
	sch, err := table.GetSchema(ctx)
	if err != nil {
		t.Fatalf("GetSchema(%s): %v", tbl, err)
	}
	tableMap, err := createTableMapFromDoltTable(ctx, "db", "t", table, false)
	if err != nil {
		t.Fatalf("createTableMapFromDoltTable(%s): %v", tbl, err)
	}
	keyDesc, valDesc := sch.GetMapDescriptors(ns)
	keyIdx, valIdx := make([]int, n), make([]int, n)
	ki, vi := 0, 0
	if tbl.keyless {
		vi = 1 // the cardinality field
	}
	for i := range tbl.cols {
		if tbl.isPK[i] {
			keyIdx[i] = ki
			ki++
		} else {
			valIdx[i] = vi
			vi++
		}
	}

	nrows := rapid.IntRange(1, 3).Draw(t, "nrows")
	rowVals := make([][]any, nrows)
	var mrows []mysql.Row
	var live []int // generated row index of each row image in the event
	var desc strings.Builder
	desc.WriteString(tbl.String())
	nontrivial := false
	classes := map[string]bool{fmt.Sprintf("cols=%d", n): true}
	if tbl.keyless {
		classes["keyless"] = true
	}
	for _, c := range tbl.cols {
		classes["type="+c.class] = true
	}
	for r := 0; r < nrows; r++ {
		vals := make([]any, n)
		kb, vb := val.NewTupleBuilder(keyDesc, ns), val.NewTupleBuilder(valDesc, ns)
		if tbl.keyless {
			vb.PutUint64(0, 1)
		}
		var rs []string
		hasNull, varBefore := false, false
		for i := range tbl.cols {
			c := &tbl.cols[i]
			l := fmt.Sprintf("row%d.c%d", r, i)
			if !tbl.notNull[i] && rapid.IntRange(0, 3).Draw(t, l+".null") == 0 {
				hasNull = true
				rs = append(rs, "NULL")
				continue
			}
			v := c.gen(t, l)
			vals[i] = v
			rs = append(rs, c.str(v))
			if c.varlen && i < n-1 {
				varBefore = true
			}
			var stored any = v
			if j, ok := v.(c40JsonVal); ok {
				doc, _, err := gmstypes.JSON.Convert(ctx, j.text)
				if err != nil {
					t.Fatalf("JSON.Convert(%s): %v", c40Short([]byte(j.text)), err)
				}
				stored = doc
			}
			if tbl.isPK[i] {
				err = tree.PutField(ctx, ns, kb, keyIdx[i], stored)
			} else {
				err = tree.PutField(ctx, ns, vb, valIdx[i], stored)
			}
			if err != nil {
				t.Fatalf("PutField(%s = %s): %v", c.label, c.str(v), err)
			}
		}
		rowVals[r] = vals
		desc.WriteString(" [" + strings.Join(rs, ", ") + "]")
		if n >= 2 && hasNull && varBefore {
			nontrivial = true
			classes["null_and_varlen_before_column"] = true
		}
		value, err := vb.Build(ctx, c40Pool)
		if err != nil {
			t.Fatalf("build value tuple: %v", err)
		}
		var key val.Tuple
		if tbl.keyless {
			key = val.HashTupleFromValue(c40Pool, value)
		} else if key, err = kb.Build(ctx, c40Pool); err != nil {
			t.Fatalf("build key tuple: %v", err)
		}

		known := ""
		for i := range tbl.cols {
			if vals[i] != nil {
				if id := c40KnownOpen(&tbl.cols[i], vals[i]); id != "" {
					known = id
				}
			}
		}
		data, nullBitmap, err := serializeRowToBinlogBytes(ctx, sch, sch, tree.Item(key), tree.Item(value), ns)
		if err != nil {
			if known != "" {
				rec.Excluded(1)
				classes["excluded_known="+known] = true
				continue
			}
			t.Fatalf("serializeRowToBinlogBytes failed on %s row [%s]: %v", tbl, strings.Join(rs, ", "), err)
		}
		mrows = append(mrows, mysql.Row{NullColumns: nullBitmap, Data: data})
		live = append(live, r)
	}
	if len(mrows) == 0 {
		rec.Case(desc.String(), false, "all_rows_excluded")
		return
	}

	// pack and parse the events as a replica would
	format := mysql.NewMySQL56BinlogFormat()
	format.ChecksumAlgorithm = mysql.BinlogChecksumAlgOff
	meta := mysql.BinlogEventMetadata{ServerID: 1, Timestamp: 1700000000}
	tmEv, err := mysql.NewTableMapEvent(format, meta, 42, tableMap)
	if err != nil {
		t.Fatalf("NewTableMapEvent(%s): %v", tbl, err)
	}
	tm, err := tmEv.TableMap(format)
	if err != nil {
		t.Fatalf("replica cannot parse the table map of %s: %v", tbl, err)
	}
	if len(tm.Types) != n {
		t.Fatalf("table map of %s has %d columns", tbl, len(tm.Types))
	}
	for i := range tbl.cols {
		if tm.CanBeNull.Bit(i) != !tbl.notNull[i] {
			t.Fatalf("table map of %s: column %d nullable=%v", tbl, i, tm.CanBeNull.Bit(i))
		}
	}
	rows := mysql.Rows{DataColumns: mysql.NewServerBitmap(n), Rows: mrows}
	for i := 0; i < n; i++ {
		rows.DataColumns.Set(i, true)
	}
	rowsEv := mysql.NewWriteRowsEvent(format, meta, 42, rows)
	var parsed mysql.Rows
	func() {
		defer func() {
			if p := recover(); p != nil {
				t.Fatalf("replica-side row parsing panicked on %s: %v", desc.String(), p)
			}
		}()
		parsed, err = rowsEv.Rows(format, tm)
	}()
	if err != nil {
		t.Fatalf("replica cannot parse the rows event of %s: %v", desc.String(), err)
	}
	if len(parsed.Rows) != len(mrows) {
		t.Fatalf("rows event of %s holds %d rows after parsing, %d were written (row images lost their alignment)", desc.String(), len(parsed.Rows), len(mrows))
	}
	for pi, prow := range parsed.Rows {
		r := live[pi]
		if !bytes.Equal(prow.Data, mrows[pi].Data) {
			t.Fatalf("row %d of %s: replica cut a row image of %d bytes, %d were written", r, desc.String(), len(prow.Data), len(mrows[pi].Data))
		}
		pos := 0
		for i := range tbl.cols {
			c := &tbl.cols[i]
			v := rowVals[r][i]
			where := func() string { return fmt.Sprintf("%s row %d column %d (%s)", tbl, r, i, c.label) }
			if prow.NullColumns.Bit(i) != (v == nil) {
				t.Fatalf("%s: NULL bit is %v, stored value is %v", where(), prow.NullColumns.Bit(i), v)
			}
			if v == nil {
				continue
			}
			var got sqltypes.Value
			var l int
			func() {
				defer func() {
					if p := recover(); p != nil {
						err = fmt.Errorf("decoder panicked: %v", p)
					}
				}()
				got, l, err = mysql.CellValue(prow.Data, pos, tm.Types[i], tm.Metadata[i], c.styp)
			}()
			known := c40KnownOpen(c, v)
			if err != nil {
				if known != "" {
					rec.Excluded(1)
					classes["excluded_known="+known] = true
					break // the rest of this row image cannot be located
				}
				t.Fatalf("%s = %s: replica cannot decode the cell (type %d metadata %#x): %v", where(), c.str(v), tm.Types[i], tm.Metadata[i], err)
			}
			var verr error
			if j, ok := v.(c40JsonVal); ok {
				w := int(tm.Metadata[i])
				verr = c40VerifyJson(j.doc, prow.Data[pos+w:pos+l], got)
			} else {
				verr = c.verify(v, got)
			}
			if verr != nil {
				if known != "" {
					rec.Excluded(1)
					classes["excluded_known="+known] = true
				} else {
					t.Fatalf("%s = %s (type %d metadata %#x): %v", where(), c.str(v), tm.Types[i], tm.Metadata[i], verr)
				}
			}
			pos += l
			if i == n-1 && pos != len(prow.Data) {
				t.Fatalf("%s: decoding the row consumed %d of %d bytes", where(), pos, len(prow.Data))
			}
		}
	}
	var cl []string
	for c := range classes {
		cl = append(cl, c)
	}
	rec.Case(desc.String(), nontrivial, cl...)
}

// c40Pinned are minimal reproductions of the listed findings (deterministic, no generator).
func c40Pinned(t *testing.T) {
	ctx := context.Background()
	report := func(id, what string, bad bool) {
		if !bad {
			return
		}
		if vh.OpenFinding("C40", id) {
			vh.ReportKnown("C40", id, what)
			return
		}
		vh.NoteViolation(t.Name(), "", fmt.Sprintf(`{"finding":%q,"what":%q}`, id, what))
		t.Errorf("%s: %s", id, what)
	}
	// TIME '-00:00:59.5'
	b, err := timeSerializer{}.serialize(ctx, gmstypes.Time, time.UnixMicro(-59500000), nil)
	if err != nil {
		t.Fatalf("timeSerializer: %v", err)
	}
	got, _, err := mysql.CellValue(b, 0, mysql.TypeTime2, 6, querypb.Type_TIME)
	report("C40-time-negative-fraction-second59", fmt.Sprintf("TIME -00:00:59.500000 is emitted as %x, which decodes to %q (err %v)", b, got.ToString(), err),
		err != nil || got.ToString() != "-00:00:59.500000")
	// YEAR 0000
	b, err = yearSerializer{}.serialize(ctx, gmstypes.Year, int16(0), nil)
	if err != nil {
		t.Fatalf("yearSerializer: %v", err)
	}
	got, _, err = mysql.CellValue(b, 0, mysql.TypeYear, 0, querypb.Type_YEAR)
	report("C40-year-zero", fmt.Sprintf("YEAR 0000 is emitted as %x, which decodes to %q (err %v)", b, got.ToString(), err), err != nil || got.ToString() != "0000")
	// DATE '0000-00-00' and DATETIME '0000-00-00 00:00:00' (the SQL layer's zero date)
	b, err = dateSerializer{}.serialize(ctx, gmstypes.Date, gmstypes.ZeroTime, nil)
	if err != nil {
		report("C40-zero-date", fmt.Sprintf("DATE 0000-00-00 cannot be serialized: %v", err), true)
	} else {
		got, _, err = mysql.CellValue(b, 0, mysql.TypeDate, 0, querypb.Type_DATE)
		report("C40-zero-date", fmt.Sprintf("DATE 0000-00-00 is emitted as %x, which decodes to %q (err %v)", b, got.ToString(), err), err != nil || got.ToString() != "0000-00-00")
	}
	b, err = datetimeSerializer{}.serialize(ctx, gmstypes.MustCreateDatetimeType(sqltypes.Datetime, 0), gmstypes.ZeroTime, nil)
	if err != nil {
		report("C40-zero-date", fmt.Sprintf("DATETIME 0000-00-00 00:00:00 cannot be serialized: %v", err), true)
	} else {
		got, _, err = mysql.CellValue(b, 0, mysql.TypeDateTime2, 0, querypb.Type_DATETIME)
		report("C40-zero-date", fmt.Sprintf("DATETIME 0000-00-00 00:00:00 is emitted as %x, which decodes to %q (err %v)", b, got.ToString(), err), err != nil || got.ToString() != "0000-00-00 00:00:00")
	}
	b, err = timestampSerializer{}.serialize(ctx, gmstypes.MustCreateDatetimeType(sqltypes.Timestamp, 0), gmstypes.ZeroTime, nil)
	if err != nil {
		report("C40-zero-date", fmt.Sprintf("TIMESTAMP 0000-00-00 00:00:00 cannot be serialized: %v", err), true)
	} else {
		got, _, err = mysql.CellValue(b, 0, mysql.TypeTimestamp2, 0, querypb.Type_TIMESTAMP)
		report("C40-zero-date", fmt.Sprintf("TIMESTAMP 0000-00-00 00:00:00 is emitted as %x, which decodes to %q (err %v)", b, got.ToString(), err), err != nil || got.ToString() != "0000-00-00 00:00:00")
	}
	// DECIMAL(3,3) 0.123
	d33, _ := gmstypes.CreateColumnDecimalType(3, 3)
	b, err = decimalSerializer{}.serialize(ctx, d33, apd.New(123, -3), nil)
	if err != nil {
		report("C40-decimal-precision-equals-scale", fmt.Sprintf("DECIMAL(3,3) value 0.123 cannot be serialized: %v", err), true)
	} else {
		got, _, err = mysql.CellValue(b, 0, mysql.TypeNewDecimal, 3<<8|3, querypb.Type_DECIMAL)
		report("C40-decimal-precision-equals-scale", fmt.Sprintf("DECIMAL(3,3) 0.123 is emitted as %x, which decodes to %q (err %v)", b, got.ToString(), err), err != nil || got.ToString() != ".123")
	}
	// JSON object with a 256-byte key
	jsonProbe := func(id, what string, doc any) {
		raw, err := encodeJsonDoc(ctx, gmstypes.JSONDocument{Val: doc})
		if err != nil {
			report(id, fmt.Sprintf("%s cannot be serialized: %v", what, err), true)
			return
		}
		back, rerr := c40ReadJson(raw[0], raw[1:], true)
		sqlTxt, verr := mysql.ConvertBinaryJSONToSQL(raw)
		var want bytes.Buffer
		c40JsonSQL(doc, true, &want)
		report(id, fmt.Sprintf("%s is emitted as binary JSON starting %x (%d bytes): harness reader: %v / %s; vitess: err %v, text equal %v", what, raw[:min(len(raw), 16)], len(raw), rerr, c40JsonShort(back), verr, sqlTxt == want.String()),
			rerr != nil || !c40JsonEqual(doc, back) || verr != nil || sqlTxt != want.String())
	}
	jsonProbe("C40-json-key-over-255-bytes", "JSON {<256 x 'k'>: 1}", map[string]any{strings.Repeat("k", 256): 1.0})
	jsonProbe("C40-json-element-over-64k-in-small-container", "JSON [<70000 x 'z'>]", []any{strings.Repeat("z", 70000)})
}

func TestVerif_C40(t *testing.T) {
	rec := vh.NewRecorder("C40", "rows", "exploration", c40Rule,
		"values are what the SQL layer stores for the column type: DECIMAL values carry exactly the column's scale, temporal values are already rounded to the column's precision, BINARY(n) values are padded to n bytes, CHAR values carry no trailing pad blanks, TIMESTAMP lies in 1970-01-01 00:00:01..2038-01-19 03:14:07 UTC",
		"FLOAT/DOUBLE NaN and infinities are excluded (SQL cannot store them)",
		"JSON numbers are exactly representable doubles (Dolt parses stored JSON numbers to float64); object key order is not asserted (MySQL orders keys by length, Dolt alphabetically; vitess and the harness reader accept any order)",
		"character data in non-utf8mb4 columns (utf8mb3, latin1, ascii) is restricted to ASCII: the serializers emit the stored UTF-8 bytes without transcoding to the column character set, so only text whose encoding is the same in both is compared",
		"the decoder is vitess' mysql package (TableMap, Rows, CellValue), i.e. what a Dolt or Vitess replica runs; blanks in its DECIMAL text (its padding of inner digit groups) are read as zeros; a top-level JSON string with quotes/escapes is compared through the harness' binary-JSON reader only",
		"signedness and the binary flag passed to CellValue come from the generated column type, as a replica takes them from its own table definition",
		"geometry: POINT, LINESTRING, POLYGON in a GEOMETRY column, compared as MySQL's internal format (SRID + WKB) bytes")
	defer rec.Write(t)
	t.Run("pinned", c40Pinned)
	vh.Check(t, "rows", 12000, 30000, func(rt *rapid.T) { c40Case(rt, rec) })
}
