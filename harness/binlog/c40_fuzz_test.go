package binlogreplication

import (
	"testing"

	"pgregory.net/rapid"

	"github.com/dolthub/dolt/go/zzverif/vh"
)

// FuzzVerifC40Rows drives the C40 row property (binlog serializers against vitess' decoder and
// the harness' binary-JSON reader) with Go's coverage-guided fuzzer: the fuzzer's bytes are
// the entropy of the same table/row generators, the oracle is c40Case itself. Thorough tier
// only; the recorder is never written.
func FuzzVerifC40Rows(f *testing.F) {
	rec := vh.NewRecorder("C40", "fuzz_rows", "exploration", "coverage-guided fuzzing of the row property (not written as evidence)")
	f.Add([]byte{0})
	f.Add([]byte{0x02, 0x06, 0x01, 0x13, 0x00, 0x03, 0x01, 0x00, 0x01, 0xff, 0x7f, 0x80, 0x00, 0x10})
	f.Add([]byte("\x04\x14\x0c\x08\x10json text time decimal\x00\xff\x00\xff\x01\x02\x03\x04\x05\x06"))
	f.Add([]byte{0x08, 0x15, 0x11, 0x0e, 0x0a, 0x07, 0x05, 0x04, 0x03, 0x00, 0x00, 0x01, 0x01, 0x02, 0x02, 0x03, 0x03, 0x09, 0x09})
	f.Fuzz(rapid.MakeFuzz(func(t *rapid.T) { c40Case(t, rec) }))
}
