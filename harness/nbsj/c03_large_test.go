package nbs

// C03, "large" part — large non-committing writes that trigger intermediate syncs and journal
// index flushes.
//
// A drawn history on a journaling store with a small memtable (so that Put spills chunks into
// the journal without any commit): optional earlier session (commits, clean close, reopen),
// small commits, then one or two bursts of 66..140 MiB of incompressible 1..4 MiB chunks without
// a commit — more than journalMaybeSyncThreshold (64 MiB) of un-synced chunk records, so the
// journal writer performs intermediate syncs (an extra root record + fsync + possibly an index
// flush) — optionally followed by commits, reopen, further bursts. Crash images are copied from
// the journal file as it is on disk: right after each burst and at the end, cut at the end of
// the file, right after / inside every root record the harness did not cause by a commit (the
// intermediate syncs, found with the harness' own header walker), at the last acknowledged size
// and at a seeded point. Oracle as in the other parts: the recovered root is the root of the
// last acknowledged commit whose observed size_after <= cut, every chunk acknowledged up to it
// is readable (big chunks: Has for all, bytes of a sample and of those in the root's closure),
// un-acked ones are absent or intact, and the journal is truncated to the last complete record.

import (
	"bytes"
	"encoding/binary"
	"fmt"
	"io"
	"os"
	"path/filepath"
	"sort"
	"strings"
	"testing"
	"time"

	"pgregory.net/rapid"

	"github.com/dolthub/dolt/go/store/chunks"
	"github.com/dolthub/dolt/go/store/hash"
	"github.com/dolthub/dolt/go/zzverif/vh"
)

const c03LargeRule = "a rapid-drawn history on a journaling store with the production 5 MiB writer buffer and a 5..9 MiB memtable (Put spills into the journal without commit): optional earlier session (1..2 small commits, clean close, reopen), 1..3 small commits (index flush threshold maxNovel in {default, 2, 8}), then 1..2 bursts of 66..100 MiB (thorough: ..140 MiB) of incompressible 1..4 MiB chunks without a commit (> the 64 MiB journalMaybeSyncThreshold, so intermediate syncs fire), each optionally followed by a commit of everything, a clean reopen, or more small commits. Crash images are prefixes of the journal file as it is on disk after each burst and at the end: end of file, end of / inside / a few bytes after every root record not caused by a harness commit (intermediate syncs), the last acknowledged size, a seeded point; index absent or as on disk, manifest as on disk. Each image is opened read-write and compared with the observed acks (root of the last ack with size_after <= cut), the small-chunk model (bytes) and the big-chunk model (presence of all acknowledged ones, content hash of a sample and of the recovered root's closure); the journal must be truncated to the last complete record. Non-trivial: at least one acknowledged commit precedes a burst in the same session, the burst left an intermediate root record on disk, and an image cut after that record was opened; distinct by op sequence."

type c03LBig struct {
	addr hash.Hash
	sum  string
	size int
	ack  int // index of the ack that covered it, -1 while un-acked
}

type c03Large struct {
	rt       *rapid.T
	dir, img string
	st       *NomsBlockStore
	root     hash.Hash
	maxNovel int
	memSz    uint64
	rng      *verifJRng
	nonce    uint64

	small      map[hash.Hash][]byte
	smallAck   map[hash.Hash]int
	smallOrder []hash.Hash
	big        []*c03LBig
	bigIdx     map[hash.Hash]int
	pendSmall  []hash.Hash
	pendBig    []int
	acks       []verifJAck
	ackEnds    map[int64]bool // journal offsets at which a harness commit's root record ends
	ops        []string

	sessionAcks int // acks in the current session
	images      int
	classes     map[string]int
	sawInter    bool // an image cut at/after an intermediate root record was opened
	ackedBefore bool // a burst started after an ack of the same session
}

func (h *c03Large) opf(f string, a ...any) { h.ops = append(h.ops, fmt.Sprintf(f, a...)) }

// verifJWalkFile walks the records of a journal file by their headers only (36 bytes each).
func verifJWalkFile(path string) (recs []verifJRec, end int64, size int64, err error) {
	f, err := os.Open(path)
	if err != nil {
		return nil, 0, 0, err
	}
	defer f.Close()
	fi, err := f.Stat()
	if err != nil {
		return nil, 0, 0, err
	}
	size = fi.Size()
	var off int64
	hdr := make([]byte, 36)
	for off+8 <= size {
		n, _ := f.ReadAt(hdr, off)
		if n < 8 {
			break
		}
		for i := n; i < len(hdr); i++ {
			hdr[i] = 0
		}
		l := int64(binary.BigEndian.Uint32(hdr))
		if l < 8 || off+l > size {
			break
		}
		r := verifJRec{off: off, n: l}
		if hdr[4] == 1 {
			r.kind = hdr[5]
		}
		switch r.kind {
		case 1:
			if l >= 36 && hdr[6] == 4 && hdr[15] == 2 {
				copy(r.addr[:], hdr[16:36])
			}
		case 2:
			if l >= 27 && hdr[6] == 2 {
				copy(r.addr[:], hdr[7:27])
			}
		}
		recs = append(recs, r)
		off += l
	}
	return recs, off, size, nil
}

func (h *c03Large) diskSize() int64 {
	fi, err := os.Stat(verifJJournalPath(h.dir))
	if err != nil {
		return -1
	}
	return fi.Size()
}

func (h *c03Large) open() {
	rt := h.rt
	st, err := verifJOpen(h.dir, JournalingStoreOptions{}, nil)
	if err != nil {
		rt.Fatalf("large: open: %v", err)
	}
	got, err := verifJLoad(st)
	if err != nil {
		rt.Fatalf("large: load: %v", err)
	}
	if got != h.root {
		rt.Fatalf("large: after a clean close the store reopens at root %s, the last acknowledged root is %s\nhistory: %s", got, h.root, strings.Join(h.ops, "; "))
	}
	if err = verifJSetMaxNovel(st, h.maxNovel); err != nil {
		rt.Fatalf("large: %v", err)
	}
	st.mu.Lock()
	st.memtableSz = h.memSz
	st.memtable = nil
	st.mu.Unlock()
	h.st = st
	h.sessionAcks = 0
}

func (h *c03Large) reopen() {
	if err := h.st.Close(); err != nil {
		h.rt.Fatalf("large: Close: %v", err)
	}
	h.st = nil
	h.pendSmall, h.pendBig = nil, nil
	h.opf("reopen")
	h.open()
}

func (h *c03Large) putSmall() hash.Hash {
	h.nonce++
	data := append(binary.BigEndian.AppendUint64([]byte{0x16}, h.nonce), h.rng.bytes(20+h.rng.intn(400))...)
	c := chunks.NewChunk(data)
	if err := h.st.Put(verifJCtx, c, verifJGetAddrs); err != nil {
		h.rt.Fatalf("large: Put: %v", err)
	}
	h.small[c.Hash()] = data
	h.smallAck[c.Hash()] = -1
	h.smallOrder = append(h.smallOrder, c.Hash())
	h.pendSmall = append(h.pendSmall, c.Hash())
	return c.Hash()
}

// commit puts nLeaves small leaves and a root chunk referencing them, the previous root and up
// to two big chunks that are in the store, and commits.
func (h *c03Large) commit(nLeaves int) {
	rt := h.rt
	var refs []hash.Hash
	for i := 0; i < nLeaves; i++ {
		refs = append(refs, h.putSmall())
	}
	if !h.root.IsEmpty() {
		refs = append(refs, h.root)
	}
	// big chunks that are certainly in the store: acknowledged ones, or put in this session
	var cand []int
	for i, b := range h.big {
		if b.ack >= 0 {
			cand = append(cand, i)
		}
	}
	cand = append(cand, h.pendBig...)
	for k := 0; k < 2 && len(cand) > 0; k++ {
		refs = append(refs, h.big[cand[len(cand)-1-h.rng.intn(min(len(cand), 4))]].addr)
	}
	h.nonce++
	data := verifJEncodeRefs(refs, binary.BigEndian.AppendUint64(nil, h.nonce))
	c := chunks.NewChunk(data)
	if err := h.st.Put(verifJCtx, c, verifJGetAddrs); err != nil {
		rt.Fatalf("large: Put(root chunk): %v", err)
	}
	h.small[c.Hash()] = data
	h.smallAck[c.Hash()] = -1
	h.smallOrder = append(h.smallOrder, c.Hash())
	h.pendSmall = append(h.pendSmall, c.Hash())
	ok, err := h.st.Commit(verifJCtx, c.Hash(), h.root)
	if err != nil || !ok {
		rt.Fatalf("large: Commit = %v, %v\nhistory: %s", ok, err, strings.Join(h.ops, "; "))
	}
	h.root = c.Hash()
	idx := len(h.acks)
	for _, a := range h.pendSmall {
		h.smallAck[a] = idx
	}
	for _, i := range h.pendBig {
		h.big[i].ack = idx
	}
	nb := len(h.pendBig)
	h.pendSmall, h.pendBig = nil, nil
	// what is on disk at the acknowledgement
	recs, end, size, err := verifJWalkFile(verifJJournalPath(h.dir))
	if err != nil || len(recs) == 0 || end != size || recs[len(recs)-1].kind != 1 || recs[len(recs)-1].addr != h.root {
		rt.Fatalf("large: Commit #%d acknowledged root %s, but the journal file on disk at that moment (%d bytes, walker end %d, err %v) does not end with a root record of it\nhistory: %s", idx+1, h.root, size, end, err, strings.Join(h.ops, "; "))
	}
	h.acks = append(h.acks, verifJAck{size: size, root: h.root})
	h.ackEnds[size] = true
	h.sessionAcks++
	h.opf("commit#%d %s (%d leaves, %d big chunks covered) size=%d", idx+1, verifJShort(h.root), nLeaves, nb, size)
}

// burst puts incompressible chunks of lo..hi bytes until total bytes were put, without committing.
func (h *c03Large) burst(total, lo, hi int) {
	if h.sessionAcks > 0 {
		h.ackedBefore = true
	}
	before := h.diskSize()
	n, put := 0, 0
	for put < total {
		sz := lo + h.rng.intn(hi-lo+1)
		h.nonce++
		data := make([]byte, 0, sz+9)
		data = binary.BigEndian.AppendUint64(append(data, 0x15), h.nonce)
		data = append(data, h.rng.bytes(sz)...)
		c := chunks.NewChunk(data)
		if err := h.st.Put(verifJCtx, c, verifJGetAddrs); err != nil {
			h.rt.Fatalf("large: Put(big chunk %d of burst): %v", n, err)
		}
		h.bigIdx[c.Hash()] = len(h.big)
		h.pendBig = append(h.pendBig, len(h.big))
		h.big = append(h.big, &c03LBig{addr: c.Hash(), sum: verifJSum(data), size: len(data), ack: -1})
		put += len(data)
		n++
	}
	h.opf("burst %d chunks %d..%d B, %d MiB, journal on disk %d -> %d", n, lo, hi, put>>20, before, h.diskSize())
}

func (h *c03Large) expectedRootAt(c int64) (root hash.Hash, ackIdx int) {
	ackIdx = -1
	for i, a := range h.acks {
		if a.size <= c {
			root, ackIdx = a.root, i
		}
	}
	return
}

// imagesNow takes crash images from the journal file as it is on disk at this moment.
func (h *c03Large) imagesNow(when string, maxImages int) {
	rt := h.rt
	recs, _, size, err := verifJWalkFile(verifJJournalPath(h.dir))
	if err != nil {
		vh.Inconclusive(rt, "cannot walk the journal: %v", err)
	}
	first := h.acks[0].size
	lastAck := h.acks[len(h.acks)-1].size
	type cutT struct {
		c     int64
		inter bool
	}
	var cuts []cutT
	seen := map[int64]bool{}
	add := func(c int64, inter bool) {
		if c >= first && c <= size && !seen[c] {
			seen[c] = true
			cuts = append(cuts, cutT{c, inter})
		}
	}
	// root records the harness did not cause: intermediate syncs (and bootstrap re-commits)
	var inter []verifJRec
	for _, r := range recs {
		if r.kind == 1 && !h.ackEnds[r.off+r.n] && r.off >= first {
			inter = append(inter, r)
		}
	}
	// newest first: the ones of the burst that just ended matter most
	if len(inter) > 0 {
		r := inter[len(inter)-1]
		add(r.off+r.n, true)
	}
	add(size, len(inter) > 0 && inter[len(inter)-1].off >= lastAck)
	for i := len(inter) - 1; i >= 0; i-- {
		r := inter[i]
		add(r.off+r.n, true)
		add(r.off+1+int64(h.rng.intn(int(r.n-1))), false)
		add(r.off+r.n+1+int64(h.rng.intn(3000)), true)
	}
	add(lastAck, false)
	if size > lastAck {
		add(lastAck+int64(h.rng.next()%uint64(size-lastAck+1)), false)
	}
	if len(cuts) > maxImages {
		cuts = cuts[:maxImages]
	}
	for i, ct := range cuts {
		h.evalImage(when, recs, size, ct.c, i%2 == 0, ct.inter)
	}
}

func (h *c03Large) evalImage(when string, recs []verifJRec, size, cut int64, withIdx bool, afterInter bool) {
	rt := h.rt
	what := fmt.Sprintf("large image (%s): first %d of the %d journal bytes on disk, index %s", when, cut, size, map[bool]string{true: "as on disk", false: "absent"}[withIdx])
	_ = os.RemoveAll(h.img)
	defer os.RemoveAll(h.img)
	if err := os.MkdirAll(h.img, 0o755); err != nil {
		vh.Inconclusive(rt, "mkdir: %v", err)
	}
	src, err := os.Open(verifJJournalPath(h.dir))
	if err != nil {
		vh.Inconclusive(rt, "open journal: %v", err)
	}
	dst, err := os.Create(verifJJournalPath(h.img))
	if err == nil {
		_, err = io.CopyN(dst, src, cut)
		_ = dst.Close()
	}
	_ = src.Close()
	if err != nil {
		vh.Inconclusive(rt, "copy journal prefix: %v", err)
	}
	if m := verifJReadFile(verifJManifestPath(h.dir)); m != nil {
		_ = os.WriteFile(verifJManifestPath(h.img), m, 0o644)
	}
	if withIdx {
		if x := verifJReadFile(verifJIndexPath(h.dir)); x != nil {
			_ = os.WriteFile(verifJIndexPath(h.img), x, 0o644)
		}
	}
	_ = os.WriteFile(filepath.Join(h.img, lockFileName), nil, 0o600)
	h.images++

	st, err := verifJOpen(h.img, JournalingStoreOptions{}, nil)
	if err != nil {
		rt.Fatalf("%s: open: %v", what, err)
	}
	defer func() {
		if st != nil {
			_ = st.Close()
		}
	}()
	got, err := verifJLoad(st)
	if err != nil {
		rt.Fatalf("%s: open failed: %v\nhistory: %s", what, err, strings.Join(h.ops, "; "))
	}
	want, ackIdx := h.expectedRootAt(cut)
	if got != want {
		rt.Fatalf("%s: Root() = %s, want %s (ack #%d of %d: the last commit whose observed size_after <= %d)\nhistory: %s", what, got, want, ackIdx+1, len(h.acks), cut, strings.Join(h.ops, "; "))
	}
	for _, a := range h.smallOrder {
		sum := verifJSum(h.small[a])
		gs := verifJGetStr(st, a)
		if k := h.smallAck[a]; k >= 0 && k <= ackIdx {
			if gs != sum {
				rt.Fatalf("%s: small chunk %s acknowledged by commit #%d reads %s, want %s", what, verifJShort(a), k+1, gs, sum)
			}
		} else if gs != "absent" && gs != sum {
			rt.Fatalf("%s: un-acknowledged small chunk %s reads %s, want absent or %s", what, verifJShort(a), gs, sum)
		}
	}
	var present []int
	for i, b := range h.big {
		ok, herr := st.Has(verifJCtx, b.addr)
		if herr != nil {
			rt.Fatalf("%s: Has(big chunk %s): %v", what, verifJShort(b.addr), herr)
		}
		if b.ack >= 0 && b.ack <= ackIdx && !ok {
			rt.Fatalf("%s: big chunk %s (%d B) acknowledged by commit #%d is missing", what, verifJShort(b.addr), b.size, b.ack+1)
		}
		if ok {
			present = append(present, i)
		}
	}
	for k := 0; k < 2 && len(present) > 0; k++ {
		b := h.big[present[h.rng.intn(len(present))]]
		if gs := verifJGetStr(st, b.addr); gs != b.sum {
			rt.Fatalf("%s: big chunk %s reads %s, want %s", what, verifJShort(b.addr), gs, b.sum)
		}
	}
	// closure of the recovered root
	seen := map[hash.Hash]bool{}
	todo := []hash.Hash{got}
	for len(todo) > 0 {
		a := todo[len(todo)-1]
		todo = todo[:len(todo)-1]
		if seen[a] || a.IsEmpty() {
			continue
		}
		seen[a] = true
		c, gerr := st.Get(verifJCtx, a)
		if gerr != nil || c.IsEmpty() {
			rt.Fatalf("%s: chunk %s reachable from the recovered root %s is not readable (err %v)", what, verifJShort(a), verifJShort(got), gerr)
		}
		if d, ok := h.small[a]; ok {
			if !bytes.Equal(d, c.Data()) {
				rt.Fatalf("%s: chunk %s reachable from the recovered root has bytes the harness never wrote", what, verifJShort(a))
			}
		} else if i, ok := h.bigIdx[a]; !ok || verifJSum(c.Data()) != h.big[i].sum {
			rt.Fatalf("%s: big chunk %s reachable from the recovered root has bytes the harness never wrote", what, verifJShort(a))
		}
		todo = append(todo, verifJDecodeRefs(c.Data())...)
	}
	if err = st.Close(); err != nil {
		rt.Fatalf("%s: Close: %v", what, err)
	}
	st = nil
	var keep int64
	for _, r := range recs {
		if r.off+r.n <= cut {
			keep = r.off + r.n
		}
	}
	if fi, serr := os.Stat(verifJJournalPath(h.img)); serr != nil || fi.Size() != keep {
		rt.Fatalf("%s: after recovery+Close the journal has %v bytes, want %d (end of the last complete record)", what, fi, keep)
	}
	if afterInter {
		h.sawInter = true
		h.classes["image_after_intermediate_sync"]++
	} else {
		h.classes["image_other"]++
	}
}

func c03LargeCase(rt *rapid.T, rec *vh.Recorder, base string) {
	t0 := time.Now()
	defer verifJWithBufSize(5 << 20)()
	h := &c03Large{rt: rt, dir: filepath.Join(base, "large"), img: filepath.Join(base, "large-img"),
		small: map[hash.Hash][]byte{}, smallAck: map[hash.Hash]int{}, bigIdx: map[hash.Hash]int{}, ackEnds: map[int64]bool{}, classes: map[string]int{}}
	_ = os.RemoveAll(h.dir)
	defer os.RemoveAll(h.dir)
	defer os.RemoveAll(h.img)
	if err := os.MkdirAll(h.dir, 0o755); err != nil {
		vh.Inconclusive(rt, "mkdir: %v", err)
	}
	h.rng = &verifJRng{s: rapid.Uint64().Draw(rt, "bytesSeed")}
	h.maxNovel = rapid.SampledFrom([]int{0, 0, 2, 8}).Draw(rt, "maxNovel")
	h.memSz = uint64(rapid.IntRange(5, 9).Draw(rt, "memtableMiB")) << 20
	h.opf("maxNovel=%d memtable=%dMiB", h.maxNovel, h.memSz>>20)
	h.open()
	defer func() {
		if h.st != nil {
			_ = h.st.Close()
		}
	}()
	maxBurst := vh.N(100, 140)
	if rapid.IntRange(0, 9).Draw(rt, "earlierSession") < 7 {
		for i, k := 0, rapid.IntRange(1, 2).Draw(rt, "earlierCommits"); i < k; i++ {
			h.commit(rapid.IntRange(1, 4).Draw(rt, "leaves"))
		}
		h.reopen()
	}
	for i, k := 0, rapid.IntRange(1, 3).Draw(rt, "smallCommits"); i < k; i++ {
		h.commit(rapid.IntRange(1, 4).Draw(rt, "leaves"))
	}
	bursts := rapid.IntRange(1, vh.N(1, 2)).Draw(rt, "bursts")
	if !vh.Thorough() && rapid.IntRange(0, 3).Draw(rt, "secondBurst") == 0 {
		bursts = 2
	}
	for b := 0; b < bursts; b++ {
		total := rapid.IntRange(66, maxBurst).Draw(rt, "burstMiB") << 20
		lo := rapid.SampledFrom([]int{1 << 20, 1 << 20, 2 << 20, 3 << 20}).Draw(rt, "chunkLo")
		hi := lo + rapid.IntRange(0, 1<<20).Draw(rt, "chunkSpread")
		h.burst(total, lo, hi)
		h.imagesNow(fmt.Sprintf("right after burst %d", b+1), vh.N(4, 7))
		switch rapid.IntRange(0, 4).Draw(rt, "afterBurst") {
		case 0, 1: // commit everything the burst wrote, then maybe more small commits
			h.commit(rapid.IntRange(0, 3).Draw(rt, "leaves"))
			if rapid.Bool().Draw(rt, "more") {
				h.commit(rapid.IntRange(1, 3).Draw(rt, "leaves"))
			}
		case 2: // the burst is abandoned: clean close and reopen must show the last acknowledged root
			h.reopen()
			if rapid.Bool().Draw(rt, "commitAfterReopen") {
				h.commit(rapid.IntRange(1, 3).Draw(rt, "leaves"))
			}
		case 3: // keep writing without a commit
		default:
			h.commit(0)
		}
	}
	if err := h.st.Close(); err != nil {
		rt.Fatalf("large: final Close: %v", err)
	}
	h.st = nil
	h.opf("close")
	h.imagesNow("after the final close", vh.N(3, 6))

	if os.Getenv("VERIFJ_DEBUG") != "" {
		fmt.Printf("c03 large case: %d images, journal %d MiB, %v: %s\n", h.images, h.diskSize()>>20, time.Since(t0), strings.Join(h.ops, "; "))
	}
	var cl []string
	for c := range h.classes {
		cl = append(cl, c)
	}
	sort.Strings(cl)
	for _, c := range cl {
		rec.Class(c, h.classes[c])
	}
	rec.Evals(h.images)
	rec.Case(strings.Join(h.ops, "; "), h.ackedBefore && h.sawInter, fmt.Sprintf("maxNovel=%d", h.maxNovel), fmt.Sprintf("bursts=%d", bursts))
}

func c03LargeCheck(t *testing.T, base string) {
	rec := vh.NewRecorder("C03", "large", "fault_enumeration", c03LargeRule,
		"the memtable is shrunk in-package (5..9 MiB) so that a non-committing Put stream reaches the journal the way a >256 MiB import does with the production memtable; the 64 MiB sync threshold and the 5 MiB writer buffer are the production values",
		"images of this part are prefixes of the on-disk journal at the moment they are taken (no tail variants, no holes: those families run on the small histories)")
	defer rec.Write(t)
	vh.Check(t, "large", 3, 3, func(rt *rapid.T) { c03LargeCase(rt, rec, base) })
}
