package nbs

// Worker mode of the nbsj test binary: the binary re-executes itself with VERIFJ_WORKER=1 and
// -test.run ^TestVerifJWorker$ to get a second *process* holding a store handle (C41
// multi-process variant) or a process that can be traced with strace (C03 trace part).
//
// Protocol: one command per line on stdin (or all of VERIFJ_SCRIPT, ';'-separated), one reply
// line per command on stdout, prefixed "VJ ". Every reply is written with a single write(2).

import (
	"bufio"
	"encoding/hex"
	"errors"
	"fmt"
	"io"
	"os"
	"os/exec"
	"strconv"
	"strings"
	"testing"

	"github.com/dolthub/dolt/go/store/chunks"
	"github.com/dolthub/dolt/go/store/hash"
)

func verifJWorkerReply(format string, a ...any) {
	_, _ = os.Stdout.WriteString("VJ " + fmt.Sprintf(format, a...) + "\n")
}

func verifJParseHash(s string) (h hash.Hash, ok bool) {
	b, err := hex.DecodeString(s)
	if err != nil || len(b) != hash.ByteLen {
		return h, false
	}
	copy(h[:], b)
	return h, true
}

func verifJHex(h hash.Hash) string { return hex.EncodeToString(h[:]) }

func TestVerifJWorker(t *testing.T) {
	if os.Getenv("VERIFJ_WORKER") == "" {
		t.Skip("worker mode only")
	}
	dir := os.Getenv("VERIFJ_DIR")
	if n, err := strconv.Atoi(os.Getenv("VERIFJ_BUFSZ")); err == nil && n > 0 {
		journalWriterBuffSize = uint32(n)
	}
	var st *NomsBlockStore
	var last hash.Hash
	var pending []hash.Hash
	var roots []hash.Hash // every root this worker committed, in order
	nput := 0
	// ackLine: journal size on disk and the journal's logical end (file + writer buffer)
	ackLine := func() {
		sz := int64(-1)
		if fi, err := os.Stat(verifJJournalPath(dir)); err == nil {
			sz = fi.Size()
		}
		logical := int64(-1)
		if j, ok := st.persister.(*ChunkJournal); ok && j.wr != nil {
			logical = j.wr.currentSize()
		}
		// the acknowledgement: written after Commit returned true
		verifJWorkerReply("ok ACK root=%s jsize=%d jlogical=%d", verifJHex(last), sz, logical)
	}
	run := func(line string) (exit bool) {
		f := strings.Fields(line)
		if len(f) == 0 {
			return false
		}
		defer func() {
			if r := recover(); r != nil {
				verifJWorkerReply("err panic: %v", r)
			}
		}()
		switch f[0] {
		case "open": // open <failOnLockTimeout 0/1> <skipLockFileTimeout 0/1>
			s, err := verifJOpen(dir, JournalingStoreOptions{FailOnLockTimeout: f[1] == "1", SkipLockFileTimeout: f[2] == "1"}, nil)
			switch {
			case errors.Is(err, ErrDatabaseLocked):
				verifJWorkerReply("err locked")
			case err != nil:
				verifJWorkerReply("err %v", err)
			default:
				st = s
				verifJWorkerReply("ok mode=%d", st.AccessMode())
			}
		case "mode":
			verifJWorkerReply("ok mode=%d", st.AccessMode())
		case "view": // view <hexaddr,hexaddr,...>
			root, err := verifJLoad(st)
			if err != nil {
				verifJWorkerReply("err %v", err)
				return
			}
			last = root
			var addrs []hash.Hash
			if len(f) > 1 {
				for _, s := range strings.Split(f[1], ",") {
					if h, ok := verifJParseHash(s); ok {
						addrs = append(addrs, h)
					}
				}
			}
			v, err := verifJReadView(st, addrs, false)
			if err != nil {
				verifJWorkerReply("err %v", err)
				return
			}
			var sb strings.Builder
			for _, a := range addrs {
				fmt.Fprintf(&sb, " %s=%s|%s", verifJHex(a), v.has[a], strings.ReplaceAll(v.get[a], " ", "_"))
			}
			verifJWorkerReply("ok root=%s%s", verifJHex(root), sb.String())
		case "write": // write <hex leaf data> <hex root data> <hex last root>
			leafB, e1 := hex.DecodeString(f[1])
			rootB, e2 := hex.DecodeString(f[2])
			lastH, ok := verifJParseHash(f[3])
			if e1 != nil || e2 != nil || !ok {
				verifJWorkerReply("err bad arguments")
				return
			}
			lc, rc := chunks.NewChunk(leafB), chunks.NewChunk(rootB)
			if err := st.Put(verifJCtx, lc, verifJGetAddrs); err != nil {
				verifJWorkerReply("refused put: %v", err)
				return
			}
			if err := st.Put(verifJCtx, rc, verifJGetAddrs); err != nil {
				verifJWorkerReply("refused put: %v", err)
				return
			}
			done, err := st.Commit(verifJCtx, rc.Hash(), lastH)
			if err != nil || !done {
				verifJWorkerReply("refused commit: %v %v", done, err)
				return
			}
			last = rc.Hash()
			verifJWorkerReply("ok ACK root=%s", verifJHex(last))
		case "put": // put <size> : a leaf with deterministic incompressible content
			n, _ := strconv.Atoi(f[1])
			nput++
			r := verifJMix(uint64(nput), uint64(n))
			c := chunks.NewChunk(append([]byte{0x13, byte(nput), byte(nput >> 8)}, r.bytes(n)...))
			if err := st.Put(verifJCtx, c, verifJGetAddrs); err != nil {
				verifJWorkerReply("err %v", err)
				return
			}
			pending = append(pending, c.Hash())
			verifJWorkerReply("ok put=%s", verifJHex(c.Hash()))
		case "commit": // root chunk over the pending leaves and the previous root
			if last.IsEmpty() {
				if r, err := verifJLoad(st); err == nil {
					last = r
				}
			}
			refs := append([]hash.Hash{}, pending...)
			if !last.IsEmpty() {
				refs = append(refs, last)
			}
			nput++
			rc := chunks.NewChunk(verifJEncodeRefs(refs, []byte{byte(nput), byte(nput >> 8)}))
			if err := st.Put(verifJCtx, rc, verifJGetAddrs); err != nil {
				verifJWorkerReply("err %v", err)
				return
			}
			done, err := st.Commit(verifJCtx, rc.Hash(), last)
			if err != nil || !done {
				verifJWorkerReply("refused commit: %v %v", done, err)
				return
			}
			last, pending = rc.Hash(), nil
			roots = append(roots, last)
			ackLine()
		case "revert": // commit the previous distinct root again: a root record and no chunk record
			if last.IsEmpty() {
				if r, err := verifJLoad(st); err == nil {
					last = r
				}
			}
			var target hash.Hash
			for i := len(roots) - 1; i >= 0; i-- {
				if roots[i] != last {
					target = roots[i]
					break
				}
			}
			if target.IsEmpty() {
				verifJWorkerReply("ok skipped")
				return
			}
			done, err := st.Commit(verifJCtx, target, last)
			if err != nil || !done {
				verifJWorkerReply("refused commit: %v %v", done, err)
				return
			}
			last = target
			roots = append(roots, last)
			ackLine()
		case "prune":
			if err := st.PruneTableFiles(verifJCtx); err != nil {
				verifJWorkerReply("refused %v", err)
			} else {
				verifJWorkerReply("ok")
			}
		case "close":
			err := st.Close()
			st, pending = nil, nil
			last = hash.Hash{}
			if err != nil {
				verifJWorkerReply("err %v", err)
			} else {
				verifJWorkerReply("ok")
			}
		case "exit":
			verifJWorkerReply("ok bye")
			return true
		default:
			verifJWorkerReply("err unknown command %q", f[0])
		}
		return false
	}
	if script := os.Getenv("VERIFJ_SCRIPT"); script != "" {
		for _, line := range strings.Split(script, ";") {
			if run(line) {
				break
			}
		}
		return
	}
	in := bufio.NewReaderSize(os.Stdin, 1<<20)
	for {
		line, err := in.ReadString('\n')
		if strings.TrimSpace(line) != "" && run(line) {
			return
		}
		if err != nil {
			return
		}
	}
}

// ---------------------------------------------------------------------------------------
// parent side

type verifJProc struct {
	cmd  *exec.Cmd
	in   io.WriteCloser
	outc io.ReadCloser
	out  *bufio.Reader
}

func verifJSpawnWorker(dir string, bufSz uint32) (*verifJProc, error) {
	exe, err := os.Executable()
	if err != nil {
		return nil, err
	}
	cmd := exec.Command(exe, "-test.run", "^TestVerifJWorker$", "-test.count=1")
	cmd.Env = append(os.Environ(), "VERIFJ_WORKER=1", "VERIFJ_DIR="+dir, fmt.Sprintf("VERIFJ_BUFSZ=%d", bufSz), "VERIF_EVIDENCE_DIR=")
	in, err := cmd.StdinPipe()
	if err != nil {
		return nil, err
	}
	out, err := cmd.StdoutPipe()
	if err != nil {
		return nil, err
	}
	cmd.Stderr = nil
	if err = cmd.Start(); err != nil {
		return nil, err
	}
	return &verifJProc{cmd: cmd, in: in, outc: out, out: bufio.NewReaderSize(out, 1<<20)}, nil
}

// call sends one command and returns the reply without the "VJ " prefix.
func (p *verifJProc) call(format string, a ...any) (string, error) {
	if _, err := io.WriteString(p.in, fmt.Sprintf(format, a...)+"\n"); err != nil {
		return "", err
	}
	for {
		line, err := p.out.ReadString('\n')
		if strings.HasPrefix(line, "VJ ") {
			return strings.TrimSpace(line[3:]), nil
		}
		if err != nil {
			return "", fmt.Errorf("worker ended: %w", err)
		}
	}
}

func (p *verifJProc) kill() {
	_ = p.cmd.Process.Kill()
	_ = p.in.Close()
	_ = p.cmd.Wait()
	_ = p.outc.Close()
}

func (p *verifJProc) stop() {
	_, _ = p.call("exit")
	_ = p.in.Close()
	_ = p.cmd.Wait()
}
