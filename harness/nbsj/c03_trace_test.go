package nbs

// C03, trace part — "acknowledged => synced".
//
// A generated script (puts, commits, close/reopen) is run by a worker process (this test
// binary re-executed, see worker_test.go) under strace. The worker writes one line
// "VJ ok ACK root=.. jsize=N" to stdout after each Commit returned true. Oracle over the
// system-call trace: when the ACK write starts, every byte ever written to the journal file
// was covered by an fsync/fdatasync of the journal that started after that write completed
// and has completed itself; in particular the journal size N the worker reports is synced.

import (
	"bufio"
	"fmt"
	"os"
	"os/exec"
	"path/filepath"
	"regexp"
	"strconv"
	"strings"
	"testing"

	"pgregory.net/rapid"

	"github.com/dolthub/dolt/go/zzverif/vh"
)

const c03TraceRule = "a rapid-drawn script of put(size in 1..70000)/commit/close+reopen steps (journal writer buffer 8 KiB, 256 KiB or 5 MiB) is executed by a worker process under strace -f (openat, close, pwrite64, write, fsync, fdatasync, ftruncate, rename*, unlink*); steps include a revert (commit the previous root again: a root record without any chunk record); at the start of every ACK write the trace must show max end offset of completed journal pwrite64s == the value it had when the last completed journal fsync started, and >= both the on-disk journal size and the logical journal end (file + writer buffer) the worker reports. Non-trivial: a trace with >= 2 acks; distinct by script."

var (
	c03ReResumed = regexp.MustCompile(`^(\d+)\s+<\.\.\. (\w+) resumed>(.*)$`)
	c03ReCall    = regexp.MustCompile(`^(\d+)\s+(\w+)\((.*)$`)
	c03ReRet     = regexp.MustCompile(`\)\s+=\s+(-?\d+)[^"]*$`)
)

type c03TraceResult struct {
	acks           int
	journalWrites  int
	fsyncs         int
	manifestFirst  int // 1: manifest renamed before the first journal write, 0: after, -1: unknown
	problem        string
	lastLines      []string
	unsyncedAtAcks []string
}

// c03CheckTrace walks an strace -f log.
func c03CheckTrace(path string) (res c03TraceResult, err error) {
	f, err := os.Open(path)
	if err != nil {
		return res, err
	}
	defer f.Close()
	res.manifestFirst = -1
	fdPath := map[int]string{}
	pendingCall := map[string]string{}  // pid -> "name(args" of an unfinished call
	fsyncStartMax := map[string]int64{} // pid -> maxWritten when its journal fsync started
	var maxWritten, synced int64
	manifestRenamed := false
	isJournal := func(fd int) bool { return filepath.Base(fdPath[fd]) == chunkJournalName }
	atoi := func(s string) int { n, _ := strconv.Atoi(strings.TrimSpace(s)); return n }

	sc := bufio.NewScanner(f)
	sc.Buffer(make([]byte, 1<<20), 1<<24)
	lineNo := 0
	for sc.Scan() {
		line := sc.Text()
		lineNo++
		var pid, name, args, rest string
		entry, exit := false, false
		if m := c03ReResumed.FindStringSubmatch(line); m != nil {
			pid, name, rest = m[1], m[2], m[3]
			pc, ok := pendingCall[pid]
			if !ok {
				continue
			}
			delete(pendingCall, pid)
			args = strings.TrimPrefix(pc, name+"(") + rest
			exit = true
		} else if m := c03ReCall.FindStringSubmatch(line); m != nil {
			pid, name, args = m[1], m[2], m[3]
			entry = true
			if strings.HasSuffix(line, "<unfinished ...>") {
				pendingCall[pid] = name + "(" + strings.TrimSuffix(args, " <unfinished ...>")
			} else {
				exit = true
			}
		} else {
			continue
		}
		ret := int64(-1)
		if exit {
			if m := c03ReRet.FindStringSubmatch(args); m != nil {
				ret, _ = strconv.ParseInt(m[1], 10, 64)
			}
		}
		firstArg := func() int {
			i := strings.IndexAny(args, ",) <")
			if i < 0 {
				return -1
			}
			return atoi(args[:i])
		}
		switch name {
		case "openat":
			if exit && ret >= 0 {
				if q := strings.Index(args, `"`); q >= 0 {
					if e := strings.Index(args[q+1:], `"`); e >= 0 {
						fdPath[int(ret)] = args[q+1 : q+1+e]
					}
				}
			}
		case "close":
			if exit {
				delete(fdPath, firstArg())
			}
		case "pwrite64":
			if exit && ret > 0 && isJournal(firstArg()) {
				// pwrite64(fd, "..."..., count, offset) = ret
				body := args[:strings.LastIndex(args, ")")]
				parts := strings.Split(body, ",")
				off, _ := strconv.ParseInt(strings.TrimSpace(parts[len(parts)-1]), 10, 64)
				if off+ret > maxWritten {
					maxWritten = off + ret
				}
				res.journalWrites++
				if res.manifestFirst < 0 {
					res.manifestFirst = map[bool]int{true: 1, false: 0}[manifestRenamed]
				}
			}
		case "ftruncate":
			if exit && ret == 0 && isJournal(firstArg()) {
				body := args[:strings.LastIndex(args, ")")]
				parts := strings.Split(body, ",")
				n, _ := strconv.ParseInt(strings.TrimSpace(parts[len(parts)-1]), 10, 64)
				if n < maxWritten {
					maxWritten = n
				}
				if n < synced {
					synced = n
				}
			}
		case "fsync", "fdatasync":
			if !isJournal(firstArg()) {
				break
			}
			if entry {
				fsyncStartMax[pid] = maxWritten
			}
			if exit && ret == 0 {
				if v, ok := fsyncStartMax[pid]; ok && v > synced {
					synced = v
				}
				delete(fsyncStartMax, pid)
				res.fsyncs++
			}
		case "rename", "renameat", "renameat2":
			if exit && ret == 0 && strings.Contains(args, `/`+manifestFileName+`"`) {
				manifestRenamed = true
			}
		case "write":
			if entry && firstArg() == 1 && strings.Contains(args, `"VJ ok ACK `) {
				res.acks++
				js := int64(-1)
				if i := strings.Index(args, "jsize="); i >= 0 {
					d := args[i+6:]
					k := 0
					for k < len(d) && d[k] >= '0' && d[k] <= '9' {
						k++
					}
					js, _ = strconv.ParseInt(d[:k], 10, 64)
				}
				jl := int64(-1)
				if i := strings.Index(args, "jlogical="); i >= 0 {
					d := args[i+9:]
					k := 0
					for k < len(d) && d[k] >= '0' && d[k] <= '9' {
						k++
					}
					jl, _ = strconv.ParseInt(d[:k], 10, 64)
				}
				if synced != maxWritten || js > synced || jl > synced {
					res.unsyncedAtAcks = append(res.unsyncedAtAcks, fmt.Sprintf("ack #%d (trace line %d; journal size on disk %d, logical end of the journal incl. the writer's buffer %d): journal bytes written so far %d, covered by a completed fsync %d", res.acks, lineNo, js, jl, maxWritten, synced))
				}
			}
		}
		if len(res.lastLines) > 40 {
			res.lastLines = res.lastLines[1:]
		}
		res.lastLines = append(res.lastLines, line)
	}
	if len(res.unsyncedAtAcks) > 0 {
		res.problem = strings.Join(res.unsyncedAtAcks, "; ")
	}
	return res, sc.Err()
}

func c03TraceCase(rt *rapid.T, rec *vh.Recorder, base, strace string) {
	dir := filepath.Join(base, "db")
	_ = os.RemoveAll(dir)
	if err := os.MkdirAll(dir, 0o755); err != nil {
		vh.Inconclusive(rt, "mkdir: %v", err)
	}
	defer os.RemoveAll(dir)
	bufSz := rapid.SampledFrom([]uint32{8192, 256 << 10, 5 << 20}).Draw(rt, "journalWriterBuffSize")
	script := []string{"open 0 1"}
	commits, pending := 0, 0
	n := rapid.IntRange(4, 30).Draw(rt, "nsteps")
	for i := 0; i < n; i++ {
		switch k := rapid.IntRange(0, 9).Draw(rt, "step"); {
		case k < 5:
			sz := rapid.IntRange(1, 3000).Draw(rt, "size")
			if bufSz > 128<<10 && rapid.IntRange(0, 7).Draw(rt, "big") == 0 {
				sz = rapid.IntRange(20000, 70000).Draw(rt, "bigsize")
			}
			script = append(script, fmt.Sprintf("put %d", sz))
			pending++
		case k < 8:
			script = append(script, "commit")
			commits++
			pending = 0
		case k < 9:
			if commits >= 2 && pending == 0 {
				// back to the previous root: a commit that writes no chunk record
				script = append(script, "revert")
				commits++
			} else {
				script = append(script, "commit")
				commits++
				pending = 0
			}
		default:
			script = append(script, "close", "open 0 1")
			pending = 0
		}
	}
	for commits < 2 {
		script = append(script, "put 100", "commit")
		commits++
	}
	if rapid.Bool().Draw(rt, "finalRevert") {
		script = append(script, "revert")
		commits++
	}
	script = append(script, "close", "exit")
	exe, err := os.Executable()
	if err != nil {
		vh.Inconclusive(rt, "os.Executable: %v", err)
	}
	trace := filepath.Join(base, "trace.txt")
	_ = os.Remove(trace)
	args := []string{"-f", "-o", trace, "-s", "160", "-e", "trace=openat,close,pwrite64,write,fsync,fdatasync,ftruncate,rename,renameat,renameat2,unlink,unlinkat"}
	if os.Getenv("VERIFJ_NO_SECCOMP_BPF") == "" {
		args = append([]string{"--seccomp-bpf"}, args...)
	}
	args = append(args, exe, "-test.run", "^TestVerifJWorker$", "-test.count=1")
	cmd := exec.Command(strace, args...)
	cmd.Env = append(os.Environ(), "VERIFJ_WORKER=1", "VERIFJ_DIR="+dir, fmt.Sprintf("VERIFJ_BUFSZ=%d", bufSz), "VERIFJ_SCRIPT="+strings.Join(script, ";"), "VERIF_EVIDENCE_DIR=")
	out, err := cmd.CombinedOutput()
	if err != nil {
		vh.Inconclusive(rt, "strace run failed: %v: %s", err, string(out[max(0, len(out)-600):]))
	}
	workerAcks := strings.Count(string(out), "VJ ok ACK ")
	if strings.Contains(string(out), "VJ err") || strings.Contains(string(out), "VJ refused") || workerAcks != commits {
		rt.Fatalf("worker did not acknowledge every commit (%d of %d): script %q, output: %s", workerAcks, commits, strings.Join(script, ";"), string(out[max(0, len(out)-800):]))
	}
	res, err := c03CheckTrace(trace)
	if err != nil {
		vh.Inconclusive(rt, "trace unreadable: %v", err)
	}
	if res.acks != commits || res.journalWrites == 0 || res.fsyncs == 0 {
		vh.Inconclusive(rt, "trace incomplete: %d ACK writes (worker printed %d), %d journal writes, %d journal fsyncs seen", res.acks, commits, res.journalWrites, res.fsyncs)
	}
	if res.problem != "" {
		rt.Fatalf("acknowledged but not synced: %s\nscript: %s\nlast trace lines:\n%s", res.problem, strings.Join(script, ";"), strings.Join(res.lastLines, "\n"))
	}
	rec.Evals(res.acks)
	rec.Case(fmt.Sprintf("bufSz=%d script=%s", bufSz, strings.Join(script, ";")), res.acks >= 2,
		fmt.Sprintf("bufSz=%d", bufSz), fmt.Sprintf("first_commit_manifest_renamed_before_first_journal_write=%d", res.manifestFirst))
}

func TestVerif_C03_trace(t *testing.T) {
	rec := vh.NewRecorder("C03", "trace", "fault_enumeration", c03TraceRule,
		"the trace shows system-call ordering only; what the device does below fsync is out of reach",
		"a journal fsync is credited with the bytes whose pwrite64 had completed when the fsync started")
	defer rec.Write(t)
	strace, err := exec.LookPath("strace")
	if err != nil {
		vh.Inconclusive(t, "strace not installed")
	}
	base, cleanup := vh.ScratchDir(t, "c03t-")
	defer cleanup()
	vh.Check(t, "trace", 6, 14, func(rt *rapid.T) { c03TraceCase(rt, rec, base, strace) })
}
