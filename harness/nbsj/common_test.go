package nbs

// Shared kit of the journal checks (C03, C04, C41) — engine nbsj, compiled into package nbs.
//
// * a deterministic byte source seeded by one rapid draw (bulk bytes are not drawn one by one)
// * a chunk model with synthetic references (a tiny format verifJGetAddrs decodes)
// * a recorded write history on a journaling store: after every API call the harness notes
//   the journal size, the manifest bytes and the on-disk index bytes, and for every
//   acknowledged commit (size_after, root)
// * an independent walker over journal bytes (length prefixes only)
// * directory helpers: materialize an image, copy, SHA-256 listing, diff
// * a "view" of an opened store (root, count, has/get of given addresses, IterateAllChunks)

import (
	"bytes"
	"context"
	"crypto/sha256"
	"encoding/binary"
	"encoding/hex"
	"errors"
	"fmt"
	"hash/crc32"
	"os"
	"path/filepath"
	"sort"
	"strings"

	"pgregory.net/rapid"

	dherrors "github.com/dolthub/dolt/go/libraries/utils/errors"
	"github.com/dolthub/dolt/go/store/chunks"
	"github.com/dolthub/dolt/go/store/constants"
	"github.com/dolthub/dolt/go/store/hash"
)

var verifJCtx = context.Background()

const verifJNbf = constants.FormatDoltString

// ---------------------------------------------------------------------------------------
// deterministic byte source (splitmix64) — a pure function of a rapid-drawn seed

type verifJRng struct{ s uint64 }

func (r *verifJRng) next() uint64 {
	r.s += 0x9e3779b97f4a7c15
	z := r.s
	z = (z ^ (z >> 30)) * 0xbf58476d1ce4e5b9
	z = (z ^ (z >> 27)) * 0x94d049bb133111eb
	return z ^ (z >> 31)
}

func (r *verifJRng) intn(n int) int {
	if n <= 1 {
		return 0
	}
	return int(r.next() % uint64(n))
}

func (r *verifJRng) bytes(n int) []byte {
	b := make([]byte, n)
	for i := 0; i < n; i += 8 {
		v := r.next()
		for j := 0; j < 8 && i+j < n; j++ {
			b[i+j] = byte(v >> (8 * j))
		}
	}
	return b
}

func verifJMix(a, b uint64) *verifJRng {
	r := &verifJRng{s: a*0x9e3779b97f4a7c15 ^ b}
	r.next()
	return r
}

// ---------------------------------------------------------------------------------------
// chunk model

const verifJRefMarker = 0xA7

type verifJChunk struct {
	addr   hash.Hash
	data   []byte
	refs   []hash.Hash
	commit int // index into hist.acks of the commit that made it durable; -1 = never persisted
	desc   string
}

// reference chunk: marker, uvarint count, count*20 address bytes, free payload
func verifJEncodeRefs(refs []hash.Hash, payload []byte) []byte {
	b := []byte{verifJRefMarker}
	b = binary.AppendUvarint(b, uint64(len(refs)))
	for _, r := range refs {
		b = append(b, r[:]...)
	}
	return append(b, payload...)
}

func verifJDecodeRefs(data []byte) []hash.Hash {
	if len(data) < 2 || data[0] != verifJRefMarker {
		return nil
	}
	n, k := binary.Uvarint(data[1:])
	if k <= 0 || uint64(len(data)-1-k) < n*hash.ByteLen {
		return nil
	}
	out := make([]hash.Hash, n)
	p := 1 + k
	for i := range out {
		copy(out[i][:], data[p:p+hash.ByteLen])
		p += hash.ByteLen
	}
	return out
}

func verifJGetAddrs(c chunks.Chunk) chunks.InsertAddrsCb {
	refs := verifJDecodeRefs(c.Data())
	return func(ctx context.Context, addrs hash.HashSet, _ chunks.PendingRefExists) error {
		for _, r := range refs {
			addrs.Insert(r)
		}
		return nil
	}
}

func verifJShort(h hash.Hash) string { return hex.EncodeToString(h[:5]) }

// ---------------------------------------------------------------------------------------
// opening stores

func verifJOpen(dir string, opts JournalingStoreOptions, warn func(error)) (*NomsBlockStore, error) {
	return NewLocalJournalingStoreWithOptions(verifJCtx, verifJNbf, dir, NewUnlimitedMemQuotaProvider(), false, warn, opts)
}

// verifJLoad forces the lazy load the way any first API call does.
func verifJLoad(st *NomsBlockStore) (hash.Hash, error) { return st.Root(verifJCtx) }

// verifJSetMaxNovel lowers the journal writer's index flush threshold (in-package knob; the
// production value 16384 needs that many chunks per index batch).
func verifJSetMaxNovel(st *NomsBlockStore, n int) error {
	if n <= 0 {
		return nil
	}
	j, ok := st.persister.(*ChunkJournal)
	if !ok {
		return fmt.Errorf("persister is %T, not *ChunkJournal", st.persister)
	}
	if j.wr == nil {
		if err := j.maybeInit(verifJCtx, dherrors.FatalBehaviorError, nil); err != nil {
			return err
		}
	}
	j.wr.lock.Lock()
	j.wr.maxNovel = n
	j.wr.lock.Unlock()
	return nil
}

// ---------------------------------------------------------------------------------------
// directory helpers

func verifJReadFile(p string) []byte {
	b, err := os.ReadFile(p)
	if err != nil {
		return nil
	}
	if b == nil {
		b = []byte{}
	}
	return b
}

func verifJJournalPath(dir string) string { return filepath.Join(dir, chunkJournalName) }
func verifJIndexPath(dir string) string   { return filepath.Join(dir, journalIndexFileName) }
func verifJManifestPath(dir string) string {
	return filepath.Join(dir, manifestFileName)
}

type verifJFileSig struct {
	size int64
	sum  [32]byte
	dir  bool
}

// verifJDirSig lists every entry of the tree under dir with size and SHA-256.
func verifJDirSig(dir string) (map[string]verifJFileSig, error) {
	out := map[string]verifJFileSig{}
	err := filepath.Walk(dir, func(p string, info os.FileInfo, err error) error {
		if err != nil {
			return err
		}
		rel, _ := filepath.Rel(dir, p)
		if rel == "." {
			return nil
		}
		if info.IsDir() {
			out[rel] = verifJFileSig{dir: true}
			return nil
		}
		b, err := os.ReadFile(p)
		if err != nil {
			return err
		}
		out[rel] = verifJFileSig{size: int64(len(b)), sum: sha256.Sum256(b)}
		return nil
	})
	return out, err
}

func verifJSigDiff(a, b map[string]verifJFileSig) string {
	var names []string
	for n := range a {
		names = append(names, n)
	}
	for n := range b {
		if _, ok := a[n]; !ok {
			names = append(names, n)
		}
	}
	sort.Strings(names)
	var d []string
	for _, n := range names {
		x, okx := a[n]
		y, oky := b[n]
		switch {
		case !okx:
			d = append(d, fmt.Sprintf("%s: created (size %d)", n, y.size))
		case !oky:
			d = append(d, fmt.Sprintf("%s: removed (was size %d)", n, x.size))
		case x != y:
			d = append(d, fmt.Sprintf("%s: size %d sha %x -> size %d sha %x", n, x.size, x.sum[:6], y.size, y.sum[:6]))
		}
	}
	return strings.Join(d, "; ")
}

// verifJWriteImage materializes a database directory: journal, manifest, index (nil = absent)
// and the LOCK file every directory that was ever opened has.
func verifJWriteImage(dir string, journal, manifest, idx []byte) error {
	if err := os.RemoveAll(dir); err != nil {
		return err
	}
	if err := os.MkdirAll(dir, 0o755); err != nil {
		return err
	}
	w := func(p string, b []byte) error {
		if b == nil {
			return nil
		}
		return os.WriteFile(p, b, 0o644)
	}
	if err := w(verifJJournalPath(dir), journal); err != nil {
		return err
	}
	if err := w(verifJManifestPath(dir), manifest); err != nil {
		return err
	}
	if err := w(verifJIndexPath(dir), idx); err != nil {
		return err
	}
	return os.WriteFile(filepath.Join(dir, lockFileName), []byte{}, 0o600)
}

func verifJCopyDir(src, dst string) error {
	if err := os.RemoveAll(dst); err != nil {
		return err
	}
	return filepath.Walk(src, func(p string, info os.FileInfo, err error) error {
		if err != nil {
			return err
		}
		rel, _ := filepath.Rel(src, p)
		q := filepath.Join(dst, rel)
		if info.IsDir() {
			return os.MkdirAll(q, 0o755)
		}
		b, err := os.ReadFile(p)
		if err != nil {
			return err
		}
		return os.WriteFile(q, b, info.Mode().Perm())
	})
}

// ---------------------------------------------------------------------------------------
// independent walker over journal bytes: only the length prefix, the kind byte and (for root
// records) the address position are read; nothing of dolt's parser is used.

type verifJRec struct {
	off, n int64
	kind   byte // 1 root hash record, 2 chunk record
	addr   hash.Hash
}

func verifJWalk(j []byte) (recs []verifJRec, end int64) {
	var off int64
	for off+8 <= int64(len(j)) {
		l := int64(binary.BigEndian.Uint32(j[off:]))
		if l < 8 || off+l > int64(len(j)) {
			break
		}
		r := verifJRec{off: off, n: l}
		// |len u32|tag 1|kind u8| ... ; root: |tag 4|ts u64|tag 2|addr 20| ; chunk: |tag 2|addr 20|tag 3|payload|
		if l >= 6 && j[off+4] == 1 {
			r.kind = j[off+5]
		}
		switch r.kind {
		case 1:
			if l >= 36 && j[off+6] == 4 && j[off+15] == 2 {
				copy(r.addr[:], j[off+16:off+36])
			}
		case 2:
			if l >= 27 && j[off+6] == 2 {
				copy(r.addr[:], j[off+7:off+27])
			}
		}
		recs = append(recs, r)
		off += l
	}
	return recs, off
}

// verifJFakeChunkRecord builds a syntactically valid chunk record (own encoder) for "partial
// next record" tails; payload is arbitrary bytes, CRCs are real.
func verifJFakeChunkRecord(addr hash.Hash, payload []byte) []byte {
	tab := crc32.MakeTable(crc32.Castagnoli)
	inner := append([]byte{}, payload...)
	inner = binary.BigEndian.AppendUint32(inner, crc32.Checksum(payload, tab))
	l := 4 + 2 + 21 + 1 + len(inner) + 4
	b := binary.BigEndian.AppendUint32(nil, uint32(l))
	b = append(b, 1, 2, 2)
	b = append(b, addr[:]...)
	b = append(b, 3)
	b = append(b, inner...)
	return binary.BigEndian.AppendUint32(b, crc32.Checksum(b, tab))
}

// ---------------------------------------------------------------------------------------
// recorded history

type verifJSnap struct {
	op       string
	jsize    int64 // -1: no journal file
	jsum     [32]byte
	manifest []byte
	idx      []byte
}

type verifJAck struct {
	size int64
	root hash.Hash
	snap int
}

type verifJHistCfg struct {
	minOps, maxOps int
	maxNovels      []int // drawn per history; 0 = production default
	bigChunks      bool
	smallMemtable  bool // allow histories whose memtable is tiny, so that Put flushes chunks to the journal before any commit
	firstPuts      int  // up to this many extra leaf puts before the first commit
	ackImages      bool // at every ack copy the directory as it is on disk and require that the copy reopens to the acknowledged root
}

// verifJBufSizes are the journal writer buffer sizes a history may run with. The production
// value is 5 MiB; every open allocates and clears ~4x that, so most cases run with 256 KiB
// (same code paths for journals of a few KiB), some with the production value, and some with
// 8 KiB (the value dolt's own data-loss tests use), which makes the writer spill its buffer
// between commits and the data-loss scan shift its window on small journals.
var verifJBufSizes = []uint32{8192, 256 << 10, 256 << 10, 256 << 10, 5 << 20}

// verifJWithBufSize sets the package variable journalWriterBuffSize for the duration of a case.
func verifJWithBufSize(n uint32) (restore func()) {
	old := journalWriterBuffSize
	journalWriterBuffSize = n
	return func() { journalWriterBuffSize = old }
}

type verifJHist struct {
	dir      string
	st       *NomsBlockStore
	maxNovel int
	bufSz    uint32
	memSz    uint64 // 0 = default memtable size
	cfg      verifJHistCfg
	nAckImg  int
	classes  map[string]int
	chunks   map[hash.Hash]*verifJChunk
	order    []hash.Hash // first-put order
	pending  []hash.Hash
	root     hash.Hash
	snaps    []verifJSnap
	acks     []verifJAck
	ops      []string
	reopens  int
	rng      *verifJRng
	prefixes [][8]byte
	forgedN  uint64
	nonce    uint64
	// after finish():
	J        []byte
	finalIdx []byte
	finalMan []byte
	recs     []verifJRec
}

func (h *verifJHist) opf(format string, a ...any) { h.ops = append(h.ops, fmt.Sprintf(format, a...)) }

func (h *verifJHist) snap(rt *rapid.T, op string) {
	s := verifJSnap{op: op, jsize: -1}
	if b := verifJReadFile(verifJJournalPath(h.dir)); b != nil {
		s.jsize = int64(len(b))
		s.jsum = sha256.Sum256(b)
	}
	s.manifest = verifJReadFile(verifJManifestPath(h.dir))
	s.idx = verifJReadFile(verifJIndexPath(h.dir))
	h.snaps = append(h.snaps, s)
}

func (h *verifJHist) open(rt *rapid.T) {
	st, err := verifJOpen(h.dir, JournalingStoreOptions{}, nil)
	if err != nil {
		rt.Fatalf("history: open: %v", err)
	}
	if _, err = verifJLoad(st); err != nil {
		rt.Fatalf("history: load: %v", err)
	}
	if st.AccessMode() != chunks.ExclusiveAccessMode_Exclusive {
		rt.Fatalf("history: sole opener did not get exclusive mode")
	}
	if err = verifJSetMaxNovel(st, h.maxNovel); err != nil {
		rt.Fatalf("history: set maxNovel: %v", err)
	}
	if h.memSz > 0 {
		st.mu.Lock()
		st.memtableSz = h.memSz
		st.memtable = nil
		st.mu.Unlock()
	}
	h.st = st
}

// newAddr returns an address for data: genuine (content hash) or forged (shared 8-byte prefixes,
// never sharing the first 16 bytes with another forged address).
func (h *verifJHist) newAddr(rt *rapid.T, data []byte, label string) (hash.Hash, bool) {
	if rapid.IntRange(0, 9).Draw(rt, label+".forged") < 6 {
		return hash.Of(data), false
	}
	var a hash.Hash
	p := h.prefixes[rapid.IntRange(0, len(h.prefixes)-1).Draw(rt, label+".prefix")]
	copy(a[:8], p[:])
	h.forgedN++
	binary.BigEndian.PutUint64(a[8:16], h.forgedN*0x0101010101010101^h.rng.next()<<20)
	binary.BigEndian.PutUint32(a[16:20], uint32(h.rng.next()))
	// uniqueness of the first 16 bytes among forged addresses
	for {
		clash := false
		for _, o := range h.order {
			if bytes.Equal(o[:16], a[:16]) {
				clash = true
				break
			}
		}
		if !clash {
			break
		}
		binary.BigEndian.PutUint64(a[8:16], h.rng.next())
	}
	return a, true
}

func (h *verifJHist) genLeafData(rt *rapid.T, label string, big bool) ([]byte, string) {
	kind := rapid.IntRange(0, 9).Draw(rt, label+".kind")
	h.nonce++
	tag := binary.BigEndian.AppendUint64([]byte{0x10}, h.nonce) // first byte != ref marker; nonce makes contents distinct
	switch {
	case kind == 0:
		return []byte{byte(0x20 + h.nonce%64)}, "1B"
	case kind < 4:
		n := rapid.IntRange(1, 60).Draw(rt, label+".n")
		return append(tag, h.rng.bytes(n)...), fmt.Sprintf("rand%d", n+9)
	case kind < 6:
		n := rapid.IntRange(200, 6000).Draw(rt, label+".n")
		return append(tag, bytes.Repeat([]byte{byte(h.nonce)}, n)...), fmt.Sprintf("run%d", n+9)
	case kind < 9 || !big || h.bufSz < 128<<10 || h.memSz > 0:
		n := rapid.IntRange(100, 2500).Draw(rt, label+".n")
		return append(tag, h.rng.bytes(n)...), fmt.Sprintf("rand%d", n+9)
	default:
		n := rapid.IntRange(60000, 70000).Draw(rt, label+".n")
		return append(tag, h.rng.bytes(n)...), fmt.Sprintf("rand%d", n+9)
	}
}

func (h *verifJHist) put(rt *rapid.T, c *verifJChunk) {
	var ch chunks.Chunk
	if hash.Of(c.data) == c.addr {
		ch = chunks.NewChunk(c.data)
	} else {
		ch = chunks.NewChunkWithHash(c.addr, c.data)
	}
	if err := h.st.Put(verifJCtx, ch, verifJGetAddrs); err != nil {
		rt.Fatalf("history: Put(%s): %v", verifJShort(c.addr), err)
	}
	if _, ok := h.chunks[c.addr]; !ok {
		h.chunks[c.addr] = c
		h.order = append(h.order, c.addr)
	}
	h.pending = append(h.pending, c.addr)
}

func (h *verifJHist) opPutLeaf(rt *rapid.T, big bool) {
	data, d := h.genLeafData(rt, "leaf", big)
	addr, forged := h.newAddr(rt, data, "leaf")
	c := &verifJChunk{addr: addr, data: data, commit: -1, desc: d}
	if forged {
		c.desc += "/forged"
	}
	h.put(rt, c)
	h.opf("put %s %s", verifJShort(addr), c.desc)
	if h.memSz > 0 {
		h.snap(rt, "put")
	}
}

func (h *verifJHist) opRePut(rt *rapid.T) {
	if len(h.order) == 0 {
		return
	}
	a := h.order[rapid.IntRange(0, len(h.order)-1).Draw(rt, "reput.idx")]
	c := h.chunks[a]
	h.put(rt, c)
	h.opf("reput %s", verifJShort(a))
}

// opCommit puts a fresh root chunk referencing a drawn subset of the chunks that are durable or
// pending and commits it.
func (h *verifJHist) opCommit(rt *rapid.T) {
	var cands []hash.Hash
	seen := map[hash.Hash]bool{}
	for _, a := range h.order {
		c := h.chunks[a]
		if c.commit >= 0 && !seen[a] {
			cands = append(cands, a)
			seen[a] = true
		}
	}
	for _, a := range h.pending {
		if !seen[a] {
			cands = append(cands, a)
			seen[a] = true
		}
	}
	var refs []hash.Hash
	if len(cands) > 0 {
		k := rapid.IntRange(0, min(len(cands), 6)).Draw(rt, "commit.nrefs")
		for i := 0; i < k; i++ {
			// bias towards recent chunks
			idx := len(cands) - 1 - rapid.IntRange(0, min(len(cands)-1, 12)).Draw(rt, "commit.ref")
			refs = append(refs, cands[idx])
		}
		if !h.root.IsEmpty() && rapid.Bool().Draw(rt, "commit.refprev") {
			refs = append(refs, h.root)
		}
	}
	h.nonce++
	data := verifJEncodeRefs(refs, binary.BigEndian.AppendUint64(nil, h.nonce))
	addr, forged := h.newAddr(rt, data, "root")
	c := &verifJChunk{addr: addr, data: data, refs: refs, commit: -1, desc: fmt.Sprintf("root/%drefs", len(refs))}
	if forged {
		c.desc += "/forged"
	}
	h.put(rt, c)
	ok, err := h.st.Commit(verifJCtx, addr, h.root)
	if err != nil || !ok {
		rt.Fatalf("history: Commit(%s, last %s) = %v, %v", verifJShort(addr), verifJShort(h.root), ok, err)
	}
	h.root = addr
	for _, a := range h.pending {
		if h.chunks[a].commit < 0 {
			h.chunks[a].commit = len(h.acks)
		}
	}
	npend := len(h.pending)
	h.pending = nil
	h.snap(rt, "commit")
	s := h.snaps[len(h.snaps)-1]
	h.acks = append(h.acks, verifJAck{size: s.jsize, root: addr, snap: len(h.snaps) - 1})
	h.opf("commit#%d %s (%d puts, %d refs) size=%d", len(h.acks), verifJShort(addr), npend, len(refs), s.jsize)
	h.checkAck(rt, fmt.Sprintf("Commit #%d", len(h.acks)), addr)
}

// checkAck runs right after Commit returned true for |root|: what is on disk at this moment is
// what a crash right now leaves behind. The journal file must end (own walker) with a complete
// root record of the acknowledged root, and (cfg.ackImages) a copy of the on-disk directory must
// reopen to that root with the root chunk readable.
func (h *verifJHist) checkAck(rt *rapid.T, what string, root hash.Hash) {
	j := verifJReadFile(verifJJournalPath(h.dir))
	recs, end := verifJWalk(j)
	if len(recs) == 0 || end != int64(len(j)) || recs[len(recs)-1].kind != 1 || recs[len(recs)-1].addr != root {
		last := "none"
		if len(recs) > 0 {
			last = fmt.Sprintf("kind %d addr %s ending at %d", recs[len(recs)-1].kind, verifJShort(recs[len(recs)-1].addr), recs[len(recs)-1].off+recs[len(recs)-1].n)
		}
		rt.Fatalf("%s acknowledged root %s, but the journal file on disk at that moment (%d bytes) does not end with a root record of it (last complete record: %s) — a crash right after the acknowledgement loses it\nhistory: %s", what, root, len(j), last, h.opsString())
	}
	if !h.cfg.ackImages {
		return
	}
	img := h.dir + "-ackimg"
	defer os.RemoveAll(img)
	if err := verifJWriteImage(img, j, verifJReadFile(verifJManifestPath(h.dir)), verifJReadFile(verifJIndexPath(h.dir))); err != nil {
		rt.Fatalf("ack image: %v", err)
	}
	st, err := verifJOpen(img, JournalingStoreOptions{}, nil)
	if err != nil {
		rt.Fatalf("%s: copy of the on-disk directory taken at the acknowledgement does not open: %v", what, err)
	}
	got, err := verifJLoad(st)
	if err != nil || got != root {
		_ = st.Close()
		rt.Fatalf("%s acknowledged root %s; a copy of the on-disk directory taken at that moment reopens to root %s (err %v)\nhistory: %s", what, root, got, err, h.opsString())
	}
	if c, gerr := st.Get(verifJCtx, root); gerr != nil || c.IsEmpty() {
		_ = st.Close()
		rt.Fatalf("%s acknowledged root %s; in a copy of the on-disk directory taken at that moment the root chunk is not readable (err %v)", what, root, gerr)
	}
	if err = st.Close(); err != nil {
		rt.Fatalf("ack image: Close: %v", err)
	}
	h.nAckImg++
}

// opRevertCommit commits an *earlier* acknowledged root again (A -> B -> A: deleting a branch
// just created, resetting a head). With nothing pending, the commit writes a root record and no
// chunk record at all.
func (h *verifJHist) opRevertCommit(rt *rapid.T) {
	var cands []hash.Hash
	seen := map[hash.Hash]bool{h.root: true}
	for _, a := range h.acks {
		if !seen[a.root] {
			seen[a.root] = true
			cands = append(cands, a.root)
		}
	}
	if len(cands) == 0 {
		return
	}
	// bias towards the most recent other root
	target := cands[len(cands)-1-rapid.IntRange(0, min(len(cands)-1, 3)).Draw(rt, "revert.to")]
	ok, err := h.st.Commit(verifJCtx, target, h.root)
	if err != nil || !ok {
		rt.Fatalf("history: Commit(%s (an earlier root), last %s) = %v, %v", verifJShort(target), verifJShort(h.root), ok, err)
	}
	npend := len(h.pending)
	for _, a := range h.pending {
		if h.chunks[a].commit < 0 {
			h.chunks[a].commit = len(h.acks)
		}
	}
	h.pending = nil
	h.root = target
	h.snap(rt, "revert-commit")
	s := h.snaps[len(h.snaps)-1]
	h.acks = append(h.acks, verifJAck{size: s.jsize, root: target, snap: len(h.snaps) - 1})
	h.opf("revertcommit#%d ->%s (%d pending puts) size=%d", len(h.acks), verifJShort(target), npend, s.jsize)
	if npend == 0 {
		h.classes["commit_without_chunk_record"]++
	} else {
		h.classes["revert_commit_with_puts"]++
	}
	h.checkAck(rt, fmt.Sprintf("Commit #%d (back to the earlier root, %d pending puts)", len(h.acks), npend), target)
}

func (h *verifJHist) opNoopCommit(rt *rapid.T) {
	if h.root.IsEmpty() || len(h.pending) > 0 {
		return
	}
	ok, err := h.st.Commit(verifJCtx, h.root, h.root)
	if err != nil || !ok {
		rt.Fatalf("history: no-op Commit = %v, %v", ok, err)
	}
	h.snap(rt, "noop-commit")
	s := h.snaps[len(h.snaps)-1]
	h.acks = append(h.acks, verifJAck{size: s.jsize, root: h.root, snap: len(h.snaps) - 1})
	h.opf("noopcommit size=%d", s.jsize)
	h.checkAck(rt, fmt.Sprintf("no-op Commit #%d", len(h.acks)), h.root)
}

func (h *verifJHist) opStaleCommit(rt *rapid.T) {
	if h.root.IsEmpty() {
		return
	}
	var bogus hash.Hash
	copy(bogus[:], h.rng.bytes(20))
	ok, err := h.st.Commit(verifJCtx, h.root, bogus)
	if err != nil || ok {
		rt.Fatalf("history: Commit with a wrong last root = %v, %v (want false, nil)", ok, err)
	}
	h.snap(rt, "stale-commit")
	h.opf("stalecommit")
}

func (h *verifJHist) opReopen(rt *rapid.T) {
	if err := h.st.Close(); err != nil {
		rt.Fatalf("history: Close: %v", err)
	}
	h.st = nil
	// un-committed puts die with the handle
	h.pending = nil
	h.snap(rt, "close")
	h.open(rt)
	got, err := verifJLoad(h.st)
	if err != nil || got != h.root {
		rt.Fatalf("history: root after clean reopen = %s, %v; want %s", verifJShort(got), err, verifJShort(h.root))
	}
	h.snap(rt, "reopen")
	h.reopens++
	h.opf("reopen")
}

// verifJBuildHistory draws and runs a write history in dir (which must be empty) and returns
// it closed, with the final journal bytes, index bytes and manifest bytes.
func verifJBuildHistory(rt *rapid.T, dir string, cfg verifJHistCfg) *verifJHist {
	h := &verifJHist{dir: dir, chunks: map[hash.Hash]*verifJChunk{}, cfg: cfg, classes: map[string]int{}}
	h.rng = &verifJRng{s: rapid.Uint64().Draw(rt, "bytesSeed")}
	h.maxNovel = rapid.SampledFrom(cfg.maxNovels).Draw(rt, "maxNovel")
	h.bufSz = journalWriterBuffSize
	if cfg.smallMemtable && rapid.IntRange(0, 9).Draw(rt, "smallMemtable") < 3 {
		h.memSz = uint64(rapid.SampledFrom([]int{8000, 12000, 30000}).Draw(rt, "memtableSz"))
	}
	np := rapid.IntRange(1, 3).Draw(rt, "nprefixes")
	for i := 0; i < np; i++ {
		var p [8]byte
		switch rapid.IntRange(0, 5).Draw(rt, "prefixKind") {
		case 0: // all zero
		case 1:
			for k := range p {
				p[k] = 0xff
			}
		default:
			copy(p[:], h.rng.bytes(8))
		}
		h.prefixes = append(h.prefixes, p)
	}
	if err := os.MkdirAll(dir, 0o755); err != nil {
		rt.Fatalf("mkdir: %v", err)
	}
	h.open(rt)
	h.snap(rt, "open")
	h.opf("maxNovel=%d bufSz=%d memtable=%d", h.maxNovel, h.bufSz, h.memSz)
	// every history starts with a put and a commit so that a manifest and a first ack exist
	h.opPutLeaf(rt, false)
	if cfg.firstPuts > 0 {
		for i, k := 0, rapid.IntRange(0, cfg.firstPuts).Draw(rt, "firstPuts"); i < k; i++ {
			h.opPutLeaf(rt, false)
		}
	}
	h.opCommit(rt)
	n := rapid.IntRange(cfg.minOps, cfg.maxOps).Draw(rt, "nops")
	for i := 0; i < n; i++ {
		switch k := rapid.IntRange(0, 99).Draw(rt, "op"); {
		case k < 46:
			h.opPutLeaf(rt, cfg.bigChunks)
		case k < 70:
			h.opCommit(rt)
		case k < 80:
			h.opRevertCommit(rt)
		case k < 87:
			h.opReopen(rt)
		case k < 92:
			h.opRePut(rt)
		case k < 96:
			h.opNoopCommit(rt)
		default:
			h.opStaleCommit(rt)
		}
	}
	if rapid.IntRange(0, 3).Draw(rt, "finalCommit") > 0 && len(h.pending) > 0 {
		h.opCommit(rt)
	}
	h.finish(rt)
	return h
}

func (h *verifJHist) finish(rt *rapid.T) {
	if err := h.st.Close(); err != nil {
		rt.Fatalf("history: final Close: %v", err)
	}
	h.st = nil
	h.pending = nil
	h.snap(rt, "final-close")
	h.J = verifJReadFile(verifJJournalPath(h.dir))
	h.finalIdx = verifJReadFile(verifJIndexPath(h.dir))
	h.finalMan = verifJReadFile(verifJManifestPath(h.dir))
	if h.J == nil || h.finalMan == nil {
		rt.Fatalf("history: journal or manifest missing after close")
	}
	// the journal must have been append-only over the whole history
	for i, s := range h.snaps {
		if s.jsize < 0 {
			continue
		}
		if s.jsize > int64(len(h.J)) || sha256.Sum256(h.J[:s.jsize]) != s.jsum {
			rt.Fatalf("history: journal at step %d (%s, %d bytes) is not a prefix of the final journal (%d bytes)", i, s.op, s.jsize, len(h.J))
		}
	}
	var end int64
	h.recs, end = verifJWalk(h.J)
	if end != int64(len(h.J)) {
		rt.Fatalf("history: walker stops at %d of %d journal bytes after a clean close", end, len(h.J))
	}
	// every ack must end on a record boundary, the record ending there being a root record of that root
	ends := map[int64]verifJRec{}
	for _, r := range h.recs {
		ends[r.off+r.n] = r
	}
	for i, a := range h.acks {
		r, ok := ends[a.size]
		if !ok || r.kind != 1 || r.addr != a.root {
			rt.Fatalf("history: ack %d (size %d root %s) does not end at a root record of that root (walker: %+v)", i, a.size, verifJShort(a.root), r)
		}
	}
}

func (h *verifJHist) opsString() string { return strings.Join(h.ops, "; ") }

// expectedRootAt is the root of the last acknowledged commit whose root record lies entirely
// within the first c journal bytes (sizes are the ones the harness observed).
func (h *verifJHist) expectedRootAt(c int64) (root hash.Hash, ackIdx int) {
	ackIdx = -1
	for i, a := range h.acks {
		if a.size <= c {
			root, ackIdx = a.root, i
		}
	}
	return
}

// floorBoundary is the end of the last complete record within the first c bytes.
func (h *verifJHist) floorBoundary(c int64) int64 {
	var b int64
	for _, r := range h.recs {
		if r.off+r.n <= c {
			b = r.off + r.n
		} else {
			break
		}
	}
	return b
}

func (h *verifJHist) sortedAddrs() []hash.Hash {
	out := append([]hash.Hash{}, h.order...)
	return out
}

// ---------------------------------------------------------------------------------------
// view of an opened store

type verifJView struct {
	root  hash.Hash
	count uint32
	has   map[hash.Hash]string // "true" / "false" / "err:..."
	get   map[hash.Hash]string // "absent" / hex sha of bytes / "err:..."
	iter  []string             // sorted "addr16:sha" of IterateAllChunks
	iterE string
}

func verifJSum(b []byte) string {
	s := sha256.Sum256(b)
	return fmt.Sprintf("%d:%x", len(b), s[:8])
}

func verifJErrStr(err error) string {
	s := err.Error()
	if len(s) > 120 {
		s = s[:120]
	}
	return "err:" + s
}

// verifJReadView reads everything the property talks about through the public API of st.
func verifJReadView(st *NomsBlockStore, addrs []hash.Hash, withIter bool) (v verifJView, err error) {
	v.has, v.get = map[hash.Hash]string{}, map[hash.Hash]string{}
	if v.root, err = st.Root(verifJCtx); err != nil {
		return v, err
	}
	if v.count, err = st.Count(verifJCtx); err != nil {
		return v, fmt.Errorf("Count: %w", err)
	}
	for _, a := range addrs {
		ok, herr := st.Has(verifJCtx, a)
		if herr != nil {
			v.has[a] = verifJErrStr(herr)
		} else {
			v.has[a] = fmt.Sprint(ok)
		}
		v.get[a] = verifJGetStr(st, a)
	}
	if withIter {
		var items []string
		func() {
			defer func() {
				if r := recover(); r != nil {
					v.iterE = fmt.Sprintf("panic:%v", r)
				}
			}()
			if ierr := st.IterateAllChunks(verifJCtx, func(c chunks.Chunk) {
				h := c.Hash()
				items = append(items, hex.EncodeToString(h[:16])+":"+verifJSum(c.Data()))
			}); ierr != nil {
				v.iterE = verifJErrStr(ierr)
			}
		}()
		sort.Strings(items)
		v.iter = items
	}
	return v, nil
}

func verifJGetStr(st *NomsBlockStore, a hash.Hash) (out string) {
	defer func() {
		if r := recover(); r != nil {
			out = fmt.Sprintf("panic:%v", r)
			if len(out) > 140 {
				out = out[:140]
			}
		}
	}()
	c, err := st.Get(verifJCtx, a)
	switch {
	case err != nil:
		return verifJErrStr(err)
	case c.IsEmpty():
		return "absent"
	default:
		return verifJSum(c.Data())
	}
}

// verifJViewDiff returns "" when equal, else the first differences.
func verifJViewDiff(a, b verifJView, addrs []hash.Hash) string {
	var d []string
	if a.root != b.root {
		d = append(d, fmt.Sprintf("root %s vs %s", a.root, b.root))
	}
	if a.count != b.count {
		d = append(d, fmt.Sprintf("count %d vs %d", a.count, b.count))
	}
	for _, x := range addrs {
		if a.has[x] != b.has[x] {
			d = append(d, fmt.Sprintf("Has(%s) %s vs %s", verifJShort(x), a.has[x], b.has[x]))
		}
		if a.get[x] != b.get[x] {
			d = append(d, fmt.Sprintf("Get(%s) %s vs %s", verifJShort(x), a.get[x], b.get[x]))
		}
		if len(d) > 6 {
			break
		}
	}
	if a.iterE != b.iterE {
		d = append(d, fmt.Sprintf("IterateAllChunks error %q vs %q", a.iterE, b.iterE))
	}
	if strings.Join(a.iter, ",") != strings.Join(b.iter, ",") {
		am, bm := map[string]bool{}, map[string]bool{}
		for _, s := range a.iter {
			am[s] = true
		}
		for _, s := range b.iter {
			bm[s] = true
		}
		var only []string
		for _, s := range a.iter {
			if !bm[s] {
				only = append(only, "-"+s)
			}
		}
		for _, s := range b.iter {
			if !am[s] {
				only = append(only, "+"+s)
			}
		}
		if len(only) > 6 {
			only = only[:6]
		}
		d = append(d, fmt.Sprintf("IterateAllChunks %d vs %d items: %s", len(a.iter), len(b.iter), strings.Join(only, " ")))
	}
	return strings.Join(d, "; ")
}

var errVerifJ = errors.New("verifJ")

// verifJIdxMaxBatchEnd walks an index file by its fixed record sizes (own walker) and returns
// the largest batch-end journal offset named by a complete meta record (0 if none).
func verifJIdxMaxBatchEnd(idx []byte) int64 {
	var mx int64
	p := 0
	for p < len(idx) {
		switch idx[p] {
		case 0:
			p += 1 + 16 + 8 + 4
		case 1:
			if p+1+8+8+4+20 <= len(idx) {
				if e := int64(binary.BigEndian.Uint64(idx[p+9:])); e > mx {
					mx = e
				}
			}
			p += 1 + 8 + 8 + 4 + 20
		default:
			return mx
		}
	}
	return mx
}
