package nbs

// C03 — crash at any point recovers the last acknowledged state without loss (in-process part).
//
// A generated write history (puts, commits = acknowledgements, clean close/reopen, no-op and
// stale commits) runs on a journaling store while the harness records, after every API call,
// the journal size, the manifest bytes and the on-disk index bytes. Then crash images are
// enumerated: journal prefixes (cuts) x tail variants x index variants x the manifest that was
// on disk at that time, plus the "hole" family (one record damaged, later records kept). Every
// image is opened read-write and compared with what the harness observed:
//   prefix family: open succeeds; Root() is the root of the last commit whose observed
//   size_after <= cut; all chunks made durable up to that commit are readable with model bytes,
//   later ones are absent or intact, never-persisted ones absent; the closure of the root is
//   walkable from store bytes; after Close the journal equals J[:end of last complete record];
//   a second open shows the same view and changes nothing; (sampled) writing another commit on
//   the recovered store and reopening works.
//   hole family: ErrJournalDataLoss with the journal left untouched, or success with the state
//   of the cut at the hole start; it must be the error when a root record followed by another
//   complete record lies after the hole, and must not be when no complete record follows.

import (
	"bytes"
	"encoding/binary"
	"errors"
	"fmt"
	"os"
	"path/filepath"
	"sort"
	"strings"
	"testing"
	"time"

	"pgregory.net/rapid"

	"github.com/dolthub/dolt/go/store/chunks"
	"github.com/dolthub/dolt/go/store/hash"
	"github.com/dolthub/dolt/go/zzverif/vh"
)

const c03Rule = "a rapid-drawn write history (put leaf / put+commit root chunk with synthetic refs / commit of an earlier root again, with or without pending puts, so that a commit may write no chunk record / clean reopen / re-put / no-op commit / stale commit; at every acknowledgement the on-disk journal must end with that root record and a copy of the on-disk directory must reopen to the acknowledged root; genuine and forged-prefix addresses; index flush threshold maxNovel in {1,2,4,16,default}) is recorded on a journaling store; crash images = every record boundary at or after the first ack with offsets -5..+5, every byte inside up to two root records (sampled in the others) and extra cuts chosen by a drawn seed, each with a tail variant (dropped, zero-filled to old length, 4 KiB zeros, partial fresh record, garbage, garbage behind a plausible length word, zeros then garbage), an index variant (absent, final index, final index cut, index as on disk at that moment) and the manifest on disk at that moment; plus holes (a record zeroed / byte-flipped / garbled, later records kept up to a later cut). Each image is opened read-write, checked against the observed (size_after, root) acks and the chunk model, closed, reopened, and (sampled) written to. Non-trivial case: >= 3 acks, an image whose un-acked tail holds >= 1 complete and 1 partial record, and a cut strictly inside a root record; distinct by the hash of the op sequence + image plan."

const (
	c03TailDropped = iota
	c03TailZeroOld
	c03TailZero4K
	c03TailPartialRec
	c03TailGarbage
	c03TailGarbageLen
	c03TailZeroGarbage
	c03NTails
)

var c03TailNames = []string{"dropped", "zero_to_old_len", "zero_4k", "partial_fresh_record", "garbage", "garbage_len_word", "zeros_then_garbage"}

const (
	c03IdxAbsent = iota
	c03IdxFinal
	c03IdxFinalCut
	c03IdxAtTime
	c03NIdx
)

var c03IdxNames = []string{"absent", "final", "final_cut", "as_on_disk_then"}

type c03Ctx struct {
	rt      *rapid.T
	h       *verifJHist
	seed    uint64
	imgDir  string
	addrs   []hash.Hash
	recEnd  map[hash.Hash]int64 // end offset of the chunk record of an address
	images  int
	classes map[string]int
	// non-triviality
	sawTailCompleteAndPartial bool
	sawCutInRoot              bool
}

func (x *c03Ctx) class(c string) { x.classes[c]++ }

// tailBytes builds the bytes that follow the cut in the image.
func (x *c03Ctx) tailBytes(cut int64, kind int) []byte {
	return c03TailBytes(x.h.J, x.seed, cut, kind)
}

func c03TailBytes(J []byte, seed uint64, cut int64, kind int) []byte {
	r := verifJMix(seed, uint64(cut)*16+uint64(kind))
	old := int64(len(J)) - cut
	switch kind {
	case c03TailDropped:
		return nil
	case c03TailZeroOld:
		return make([]byte, old)
	case c03TailZero4K:
		return make([]byte, 4096)
	case c03TailPartialRec:
		var a hash.Hash
		copy(a[:], r.bytes(20))
		full := verifJFakeChunkRecord(a, r.bytes(20+r.intn(300)))
		return full[:1+r.intn(len(full)-1)] // never the complete record
	case c03TailGarbage:
		return r.bytes(1 + r.intn(300))
	case c03TailGarbageLen:
		l := 8 + r.intn(2000)
		b := binary.BigEndian.AppendUint32(nil, uint32(l))
		if r.intn(2) == 0 {
			return append(b, r.bytes(r.intn(l))...) // shorter than announced
		}
		return append(b, r.bytes(l+r.intn(200))...) // at least as long as announced
	default:
		return append(make([]byte, 1+r.intn(200)), r.bytes(1+r.intn(200))...)
	}
}

// manifestFor picks the manifest that was on disk when the journal had exactly `cut` bytes on
// its way to growing: the steps whose recorded journal size is the largest one <= cut.
func (x *c03Ctx) manifestFor(cut int64, r *verifJRng) (man []byte, snapIdx int) {
	return c03ManifestFor(x.h, cut, r)
}

func c03ManifestFor(h *verifJHist, cut int64, r *verifJRng) (man []byte, snapIdx int) {
	var best int64 = -1
	for _, s := range h.snaps {
		if s.jsize <= cut && s.jsize > best {
			best = s.jsize
		}
	}
	var steps []int
	for i, s := range h.snaps {
		if s.jsize == best {
			steps = append(steps, i)
		}
	}
	last := steps[len(steps)-1]
	if cut > best {
		// strictly inside the batch of the next journal-growing call: the manifest is the one
		// that call started from
		return h.snaps[last].manifest, last
	}
	i := steps[r.intn(len(steps))]
	return h.snaps[i].manifest, i
}

func (x *c03Ctx) idxFor(kind int, snapIdx int, r *verifJRng) []byte {
	h := x.h
	switch kind {
	case c03IdxAbsent:
		return nil
	case c03IdxFinal:
		return h.finalIdx
	case c03IdxFinalCut:
		if len(h.finalIdx) == 0 {
			return h.finalIdx
		}
		return h.finalIdx[:r.intn(len(h.finalIdx)+1)]
	default:
		return h.snaps[snapIdx].idx
	}
}

type c03Opened struct {
	root hash.Hash
	view verifJView
}

// openAndRead opens dir read-write, loads, and reads the model addresses.
func (x *c03Ctx) openAndRead(dir string) (*NomsBlockStore, c03Opened, error) {
	st, err := verifJOpen(dir, JournalingStoreOptions{}, nil)
	if err != nil {
		return nil, c03Opened{}, err
	}
	root, err := verifJLoad(st)
	if err != nil {
		_ = st.Close()
		return nil, c03Opened{}, err
	}
	if st.AccessMode() != chunks.ExclusiveAccessMode_Exclusive {
		_ = st.Close()
		x.rt.Fatalf("sole opener of a crash image got access mode %v", st.AccessMode())
	}
	v, err := verifJReadView(st, x.addrs, false)
	if err != nil {
		_ = st.Close()
		return nil, c03Opened{}, err
	}
	return st, c03Opened{root: root, view: v}, nil
}

// checkState compares an opened image with the model at cut position `at` (expected root and
// durable chunks); maxPresent is the image's journal extent (chunks recorded beyond it cannot exist).
func (x *c03Ctx) checkState(what string, st *NomsBlockStore, o c03Opened, at int64) {
	h, rt := x.h, x.rt
	want, ackIdx := h.expectedRootAt(at)
	if o.root != want {
		_, last := h.expectedRootAt(int64(len(h.J)))
		rt.Fatalf("%s: Root() = %s, want %s (ack #%d of %d, the last commit whose observed size_after <= %d)", what, o.root, want, ackIdx+1, last+1, at)
	}
	for _, a := range x.addrs {
		c := h.chunks[a]
		sum := verifJSum(c.data)
		got, has := o.view.get[a], o.view.has[a]
		switch {
		case c.commit >= 0 && c.commit <= ackIdx:
			if got != sum || has != "true" {
				rt.Fatalf("%s: chunk %s (%s, durable since ack #%d) Has=%s Get=%s, want true / %s", what, verifJShort(a), c.desc, c.commit+1, has, got, sum)
			}
		case c.commit < 0 && h.memSz == 0:
			if got != "absent" || has != "false" {
				rt.Fatalf("%s: chunk %s (%s) was never persisted but Has=%s Get=%s", what, verifJShort(a), c.desc, has, got)
			}
		default:
			if !(got == "absent" && has == "false") && !(got == sum && has == "true") {
				rt.Fatalf("%s: un-acked chunk %s (%s, commit #%d) Has=%s Get=%s, want absent or intact (%s)", what, verifJShort(a), c.desc, c.commit+1, has, got, sum)
			}
		}
	}
	// closure of the recovered root, decoded from store bytes
	seen := map[hash.Hash]bool{}
	todo := []hash.Hash{o.root}
	for len(todo) > 0 {
		a := todo[len(todo)-1]
		todo = todo[:len(todo)-1]
		if seen[a] {
			continue
		}
		seen[a] = true
		c, err := st.Get(verifJCtx, a)
		if err != nil || c.IsEmpty() {
			rt.Fatalf("%s: chunk %s reachable from recovered root %s is not readable (err %v)", what, verifJShort(a), verifJShort(o.root), err)
		}
		if m, ok := h.chunks[a]; !ok || !bytes.Equal(m.data, c.Data()) {
			rt.Fatalf("%s: chunk %s reachable from recovered root has bytes the model never wrote", what, verifJShort(a))
		}
		todo = append(todo, verifJDecodeRefs(c.Data())...)
	}
}

func (x *c03Ctx) mustClose(what string, st *NomsBlockStore) {
	if err := st.Close(); err != nil {
		x.rt.Fatalf("%s: Close: %v", what, err)
	}
}

// afterRecovery: journal on disk must be exactly J[:keep]; then a second open must show the
// same view and leave the journal alone; optionally write one more commit and reopen.
func (x *c03Ctx) afterRecovery(what string, first c03Opened, keep int64, at int64, level int) {
	extended := level >= 2
	h, rt, dir := x.h, x.rt, x.imgDir
	got := verifJReadFile(verifJJournalPath(dir))
	if !bytes.Equal(got, h.J[:keep]) {
		rt.Fatalf("%s: after recovery+Close the journal has %d bytes, want exactly the first %d bytes of the recorded journal (end of last complete record); equal-prefix=%v", what, len(got), keep, len(got) >= int(keep) && bytes.Equal(got[:keep], h.J[:keep]))
	}
	if level < 1 {
		return
	}
	x.class("reopened_after_recovery")
	st, second, err := x.openAndRead(dir)
	if err != nil {
		rt.Fatalf("%s: second open of the recovered directory failed: %v", what, err)
	}
	if d := verifJViewDiff(first.view, second.view, x.addrs); d != "" {
		rt.Fatalf("%s: second open of the recovered directory differs from the first: %s", what, d)
	}
	if !extended {
		x.mustClose(what+" (second open)", st)
		if got2 := verifJReadFile(verifJJournalPath(dir)); !bytes.Equal(got2, got) {
			rt.Fatalf("%s: second open+Close changed the journal (%d -> %d bytes)", what, len(got), len(got2))
		}
		return
	}
	// write on the recovered store
	r := verifJMix(x.seed, uint64(at)+0xabcdef)
	leaf := append([]byte{0x11}, r.bytes(40)...)
	lc := chunks.NewChunk(leaf)
	rootData := verifJEncodeRefs([]hash.Hash{lc.Hash(), first.root}, r.bytes(8))
	rc := chunks.NewChunk(rootData)
	if err := st.Put(verifJCtx, lc, verifJGetAddrs); err != nil {
		rt.Fatalf("%s: Put on recovered store: %v", what, err)
	}
	if err := st.Put(verifJCtx, rc, verifJGetAddrs); err != nil {
		rt.Fatalf("%s: Put on recovered store: %v", what, err)
	}
	ok, err := st.Commit(verifJCtx, rc.Hash(), first.root)
	if err != nil || !ok {
		rt.Fatalf("%s: Commit on recovered store = %v, %v", what, ok, err)
	}
	x.mustClose(what+" (after new commit)", st)
	st3, third, err := x.openAndRead(dir)
	if err != nil {
		rt.Fatalf("%s: open after writing on the recovered store failed: %v", what, err)
	}
	if third.root != rc.Hash() {
		rt.Fatalf("%s: wrote commit %s on the recovered store, reopen shows root %s", what, rc.Hash(), third.root)
	}
	for _, c := range []chunks.Chunk{lc, rc} {
		g, err := st3.Get(verifJCtx, c.Hash())
		if err != nil || !bytes.Equal(g.Data(), c.Data()) {
			rt.Fatalf("%s: chunk %s written after recovery is not readable after reopen (err %v)", what, c.Hash(), err)
		}
	}
	third.root = first.root // compare the old part of the view
	_, ackIdx := h.expectedRootAt(at)
	for _, a := range x.addrs {
		c := h.chunks[a]
		if c.commit >= 0 && c.commit <= ackIdx && third.view.get[a] != verifJSum(c.data) {
			rt.Fatalf("%s: after writing on the recovered store, durable chunk %s reads %s", what, verifJShort(a), third.view.get[a])
		}
	}
	x.mustClose(what+" (third open)", st3)
}

func (x *c03Ctx) prefixImage(cut int64, tail, idxKind int, level int) {
	h, rt := x.h, x.rt
	r := verifJMix(x.seed, uint64(cut)*64+uint64(tail)*8+uint64(idxKind))
	man, snapIdx := x.manifestFor(cut, r)
	idx := x.idxFor(idxKind, snapIdx, r)
	tb := x.tailBytes(cut, tail)
	img := append(append([]byte{}, h.J[:cut]...), tb...)
	// tail bytes that happen to equal the recorded journal's next bytes (a zero byte completing
	// a checksum, say) belong to the prefix: the image is the same as one cut later
	cut0 := cut
	for cut < int64(len(h.J)) && cut < int64(len(img)) && img[cut] == h.J[cut] {
		cut++
	}
	what := fmt.Sprintf("prefix image cut=%d(+%d tail bytes equal to the recorded journal)/%d tail=%s(%dB) idx=%s(%dB) manifest@step%d(%s)", cut0, cut-cut0, len(h.J), c03TailNames[tail], len(tb), c03IdxNames[idxKind], len(idx), snapIdx, h.snaps[snapIdx].op)
	if err := verifJWriteImage(x.imgDir, img, man, idx); err != nil {
		vh.Inconclusive(rt, "cannot write image: %v", err)
	}
	x.images++
	x.class("tail=" + c03TailNames[tail])
	x.class("idx=" + c03IdxNames[idxKind])
	st, first, err := x.openAndRead(x.imgDir)
	if err != nil {
		rt.Fatalf("%s: open failed: %v", what, err)
	}
	x.checkState(what, st, first, cut)
	x.mustClose(what, st)
	keep := h.floorBoundary(cut)
	x.afterRecovery(what, first, keep, cut, level)
	if level >= 2 {
		x.class("wrote_after_recovery")
	}
	// non-triviality bookkeeping
	_, ackIdx := h.expectedRootAt(cut)
	if keep > h.acks[ackIdx].size && cut > keep {
		x.sawTailCompleteAndPartial = true
		x.class("tail_complete+partial")
	}
	if cut == keep {
		x.class("cut_at_boundary")
	}
	for _, rc := range h.recs {
		if rc.kind == 1 && cut > rc.off && cut < rc.off+rc.n {
			x.sawCutInRoot = true
			x.class("cut_in_root_record")
			break
		}
	}
}

const (
	c03DamageZero = iota
	c03DamageFlip
	c03DamageGarbage
	c03NDamage
)

var c03DamageNames = []string{"zeroed", "byte_flip", "garbled"}

// holeImage damages record ri and keeps the journal up to `end` (> end of that record).
func (x *c03Ctx) holeImage(ri int, damage int, end int64, tail int) {
	h, rt := x.h, x.rt
	rc := h.recs[ri]
	r := verifJMix(x.seed, uint64(rc.off)*1024+uint64(end)*4+uint64(damage))
	img := append([]byte{}, h.J[:end]...)
	dd := ""
	switch damage {
	case c03DamageZero:
		for i := rc.off; i < rc.off+rc.n; i++ {
			img[i] = 0
		}
	case c03DamageFlip:
		p := rc.off + int64(r.intn(int(rc.n)))
		m := byte(1 << r.intn(8))
		img[p] ^= m
		dd = fmt.Sprintf("@+%d^%02x", p-rc.off, m)
	default:
		copy(img[rc.off:rc.off+rc.n], r.bytes(int(rc.n)))
	}
	tb := x.tailBytes(end, tail)
	img = append(img, tb...)
	for end < int64(len(h.J)) && end < int64(len(img)) && img[end] == h.J[end] {
		end++
	}
	man, snapIdx := x.manifestFor(end, r)
	idxKind := r.intn(c03NIdx)
	idx := x.idxFor(idxKind, snapIdx, r)
	if verifJIdxMaxBatchEnd(idx) > rc.off {
		// an index batch that covers the damaged record legitimately lets bootstrap skip it
		// (the damage is then met by reads, not by open); such images say nothing about the
		// data-loss rule
		idxKind, idx = c03IdxAbsent, nil
	}
	// complete records after the damaged one, within the kept journal
	var after []verifJRec
	for _, q := range h.recs[ri+1:] {
		if q.off+q.n <= end {
			after = append(after, q)
		}
	}
	mustErr := false
	for i, q := range after {
		if q.kind != 1 {
			continue
		}
		for _, p := range after[i+1:] {
			// dolt's scan looks at record starts up to 40 bytes (one root record) before EOF
			if p.off <= int64(len(img))-40 {
				mustErr = true
			}
		}
	}
	mustOK := len(after) == 0
	what := fmt.Sprintf("hole image record#%d(kind %d)@%d+%d %s%s kept-to=%d/%d tail=%s(%dB) idx=%s manifest@step%d; %d complete records follow", ri, rc.kind, rc.off, rc.n, c03DamageNames[damage], dd, end, len(h.J), c03TailNames[tail], len(tb), c03IdxNames[idxKind], snapIdx, len(after))
	if err := verifJWriteImage(x.imgDir, img, man, idx); err != nil {
		vh.Inconclusive(rt, "cannot write image: %v", err)
	}
	x.images++
	x.class("hole_" + c03DamageNames[damage])
	st, first, err := x.openAndRead(x.imgDir)
	if err != nil {
		if !errors.Is(err, ErrJournalDataLoss) {
			rt.Fatalf("%s: open failed with an error other than ErrJournalDataLoss: %v", what, err)
		}
		if mustOK {
			rt.Fatalf("%s: open reported data loss although no complete record follows the damage: %v", what, err)
		}
		if got := verifJReadFile(verifJJournalPath(x.imgDir)); !bytes.Equal(got, img) {
			rt.Fatalf("%s: open reported data loss but changed the journal (%d -> %d bytes)", what, len(img), len(got))
		}
		if mustErr {
			x.class("hole_must_report:reported")
		} else {
			x.class("hole_may_report:reported")
		}
		return
	}
	if mustErr {
		_ = st.Close()
		rt.Fatalf("%s: open succeeded (root %s) although a root record followed by another complete record lies after the damage — silent truncation of possibly acknowledged commits", what, first.root)
	}
	if mustOK {
		x.class("hole_must_recover:recovered")
	} else {
		x.class("hole_may_report:recovered")
	}
	x.checkState(what, st, first, rc.off)
	x.mustClose(what, st)
	x.afterRecovery(what, first, rc.off, rc.off, int(r.next()%3)/2)
}

func c03Case(rt *rapid.T, rec *vh.Recorder, base string) {
	t0 := time.Now()
	dir := filepath.Join(base, "hist")
	_ = os.RemoveAll(dir)
	defer os.RemoveAll(dir)
	cfg := verifJHistCfg{minOps: 6, maxOps: vh.N(26, 34), maxNovels: []int{1, 2, 4, 16, 0}, bigChunks: vh.Thorough(), smallMemtable: true, ackImages: true}
	defer verifJWithBufSize(rapid.SampledFrom(verifJBufSizes).Draw(rt, "journalWriterBuffSize"))()
	h := verifJBuildHistory(rt, dir, cfg)
	x := &c03Ctx{rt: rt, h: h, imgDir: filepath.Join(base, "img"), classes: map[string]int{}, recEnd: map[hash.Hash]int64{}}
	defer os.RemoveAll(x.imgDir)
	x.seed = rapid.Uint64().Draw(rt, "variantSeed")
	x.addrs = h.sortedAddrs()
	n := int64(len(h.J))
	first := h.acks[0].size
	plan := rapid.IntRange(0, 2).Draw(rt, "plan") // rotates which offsets/variants get the dense treatment

	// ---- cuts
	cutSet := map[int64]bool{}
	add := func(c int64) {
		if c >= first && c <= n {
			cutSet[c] = true
		}
	}
	offs := []int64{-5, -4, -3, -2, -1, 0, 1, 2, 3, 4, 5}
	if !vh.Thorough() {
		offs = [][]int64{{-4, -1, 0, 1, 4}, {-5, -2, 0, 2, 3}, {-3, -1, 0, 1, 5}}[plan]
	}
	denseRoots := 0
	for i, r := range h.recs {
		b := r.off + r.n
		for _, d := range offs {
			add(b + d)
		}
		if r.kind == 1 && r.off >= first {
			if (i+plan)%3 == 0 && denseRoots < vh.N(2, 6) {
				denseRoots++
				for c := r.off + 1; c < b; c++ {
					add(c)
				}
			} else {
				rr := verifJMix(x.seed, uint64(r.off))
				add(r.off + 6 + int64(rr.intn(9)))   // inside the timestamp
				add(r.off + 16 + int64(rr.intn(20))) // inside the address
				add(r.off + 36 + int64(rr.intn(4)))  // inside the checksum
			}
		}
	}
	rr := verifJMix(x.seed, 7)
	for i := 0; i < vh.N(40, 200); i++ {
		add(first + int64(rr.intn(int(n-first)+1)))
	}
	cuts := make([]int64, 0, len(cutSet))
	for c := range cutSet {
		cuts = append(cuts, c)
	}
	sort.Slice(cuts, func(i, j int) bool { return cuts[i] < cuts[j] })
	for i, c := range cuts {
		vr := verifJMix(x.seed, uint64(c)+1)
		tail := vr.intn(c03NTails)
		idxKind := vr.intn(c03NIdx)
		level := 0
		switch (i + plan) % 9 {
		case 0:
			level = 2
		case 3, 6:
			level = 1
		}
		x.prefixImage(c, tail, idxKind, level)
		if vh.Thorough() || c == h.floorBoundary(c) {
			// boundaries get a second variant pair
			x.prefixImage(c, (tail+1+vr.intn(c03NTails-1))%c03NTails, (idxKind+1+vr.intn(c03NIdx-1))%c03NIdx, 0)
		}
	}

	// ---- holes: records at or after the first ack
	var cand []int
	for i, r := range h.recs {
		if r.off >= first {
			cand = append(cand, i)
		}
	}
	holes := 0
	hr := verifJMix(x.seed, 11)
	for _, ri := range cand {
		rc := h.recs[ri]
		endRec := rc.off + rc.n
		// kept-to positions: the damaged record is the last one; each of a few later boundaries; a mid-record cut; everything
		ends := []int64{endRec, n}
		later := h.recs[ri+1:]
		for k := 0; k < 3 && len(later) > 0; k++ {
			q := later[hr.intn(len(later))]
			ends = append(ends, q.off+q.n)
			if k == 0 && q.n > 1 {
				ends = append(ends, q.off+1+int64(hr.intn(int(q.n-1))))
			}
		}
		if !vh.Thorough() && len(cand) > 25 && (ri+plan)%2 == 1 {
			ends = ends[:2]
		}
		done := map[int64]bool{}
		for _, e := range ends {
			if done[e] || e < endRec {
				continue
			}
			done[e] = true
			tail := []int{c03TailDropped, c03TailZero4K, c03TailGarbage, c03TailDropped}[hr.intn(4)]
			x.holeImage(ri, hr.intn(c03NDamage), e, tail)
			holes++
		}
	}

	if os.Getenv("VERIFJ_DEBUG") != "" {
		fmt.Printf("c03 case: %d ops, journal %d B, %d recs, %d acks, %d images (%d cuts, %d holes) in %v\n", len(h.ops), n, len(h.recs), len(h.acks), x.images, len(cuts), holes, time.Since(t0))
	}
	// ---- evidence
	nontrivial := len(h.acks) >= 3 && x.sawTailCompleteAndPartial && x.sawCutInRoot
	var cl []string
	for c, k := range x.classes {
		rec.Class(c, k)
		_ = k
	}
	cl = append(cl, fmt.Sprintf("maxNovel=%d", h.maxNovel), fmt.Sprintf("acks=%s", c03Bucket(len(h.acks))), fmt.Sprintf("bufSz=%d", h.bufSz))
	if h.memSz > 0 {
		cl = append(cl, "small_memtable")
	}
	for c, k := range h.classes {
		rec.Class(c, k)
	}
	rec.Class("ack_images_reopened", h.nAckImg)
	x.images += h.nAckImg
	if h.reopens > 0 {
		cl = append(cl, "has_reopen")
	}
	if bytes.IndexByte(h.finalIdx, 1) >= 0 && c03IdxBatches(h.finalIdx) > 0 {
		cl = append(cl, "index_has_batches")
	}
	rec.Evals(x.images)
	rec.Case(fmt.Sprintf("%s || journal %d B, %d records, %d acks, index %d B; %d cuts, %d holes, plan %d seed %x", h.opsString(), n, len(h.recs), len(h.acks), len(h.finalIdx), len(cuts), holes, plan, x.seed), nontrivial, cl...)
}

const c03FirstRule = "brand-new directory: a drawn number of leaf puts and the first commit ever; crash images = the manifest as the first commit wrote it (it is written, fsynced and renamed before the journal bytes are flushed) with every journal prefix shorter than the first acknowledged size (all when < 700 bytes, else record boundaries +-2 and 300 seeded cuts) x tail variants; open must succeed and show either no root or the in-flight root with every chunk reachable from it readable. Non-trivial: >= 2 chunk records in the first commit and a cut that keeps at least one complete record but not the root record; distinct by op sequence + seed."

// c03FirstCommitCase: crash points inside the very first commit of a new database.
func c03FirstCommitCase(rt *rapid.T, rec *vh.Recorder, base string) {
	dir := filepath.Join(base, "first")
	_ = os.RemoveAll(dir)
	defer os.RemoveAll(dir)
	defer verifJWithBufSize(rapid.SampledFrom(verifJBufSizes).Draw(rt, "journalWriterBuffSize"))()
	h := verifJBuildHistory(rt, dir, verifJHistCfg{minOps: 0, maxOps: 0, maxNovels: []int{0, 0, 2}, firstPuts: 5, ackImages: true})
	x := &c03Ctx{rt: rt, h: h, imgDir: filepath.Join(base, "first-img"), classes: map[string]int{}}
	defer os.RemoveAll(x.imgDir)
	x.seed = rapid.Uint64().Draw(rt, "variantSeed")
	x.addrs = h.sortedAddrs()
	first := h.acks[0]
	man := h.snaps[first.snap].manifest
	if man == nil {
		rt.Fatalf("no manifest after the first commit")
	}
	cutSet := map[int64]bool{0: true}
	if first.size < 700 {
		for c := int64(0); c < first.size; c++ {
			cutSet[c] = true
		}
	} else {
		r := verifJMix(x.seed, 3)
		for _, q := range h.recs {
			for d := int64(-2); d <= 2; d++ {
				if c := q.off + d; c >= 0 && c < first.size {
					cutSet[c] = true
				}
			}
		}
		for i := 0; i < 300; i++ {
			cutSet[int64(r.intn(int(first.size)))] = true
		}
	}
	cuts := make([]int64, 0, len(cutSet))
	for c := range cutSet {
		cuts = append(cuts, c)
	}
	sort.Slice(cuts, func(i, j int) bool { return cuts[i] < cuts[j] })
	sawPartial := false
	known := 0
	for _, cut0 := range cuts {
		cut := cut0
		vr := verifJMix(x.seed, uint64(cut)+5)
		tail := vr.intn(c03NTails)
		tb := x.tailBytes(cut, tail)
		img := append(append([]byte{}, h.J[:cut]...), tb...)
		for cut < int64(len(h.J)) && cut < int64(len(img)) && img[cut] == h.J[cut] {
			cut++
		}
		if cut >= first.size {
			continue // became the acknowledged state; covered by the main family
		}
		what := fmt.Sprintf("first-commit image: manifest of the first commit (root %s) + journal cut=%d/%d tail=%s(%dB)", verifJShort(first.root), cut0, first.size, c03TailNames[tail], len(tb))
		if err := verifJWriteImage(x.imgDir, img, man, nil); err != nil {
			vh.Inconclusive(rt, "cannot write image: %v", err)
		}
		x.images++
		fail := func(format string, a ...any) {
			msg := what + ": " + fmt.Sprintf(format, a...)
			if verifJFindingOpen("C03", "C03-first-commit-root-before-chunks") {
				known++
				return
			}
			rt.Fatalf("%s", msg)
		}
		st, o, err := x.openAndRead(x.imgDir)
		if err != nil {
			fail("open failed: %v", err)
			continue
		}
		switch o.root {
		case hash.Hash{}:
			x.class("first:no_root")
		case first.root:
			x.class("first:inflight_root")
			bad := ""
			for _, a := range x.addrs {
				c := h.chunks[a]
				if c.commit == 0 && (o.view.get[a] != verifJSum(c.data) || o.view.has[a] != "true") {
					bad = fmt.Sprintf("Root() is the in-flight root %s of the interrupted first commit, but its chunk %s (%s) reads Has=%s Get=%s", verifJShort(first.root), verifJShort(a), c.desc, o.view.has[a], o.view.get[a])
					break
				}
			}
			if bad != "" {
				_ = st.Close()
				fail("%s", bad)
				continue
			}
		default:
			_ = st.Close()
			rt.Fatalf("%s: Root() = %s, neither empty nor the in-flight root", what, o.root)
		}
		x.mustClose(what, st)
		if k := h.floorBoundary(cut); k > 0 && k < first.size {
			sawPartial = true
		}
	}
	if known > 0 {
		rec.Excluded(known)
		vh.ReportKnown("C03", "C03-first-commit-root-before-chunks", fmt.Sprintf("%d crash images inside the first commit of a new directory open with a root whose chunks are missing", known))
	}
	for c, k := range x.classes {
		rec.Class(c, k)
	}
	rec.Evals(x.images)
	rec.Case(fmt.Sprintf("%s || first commit %d B, %d records; %d cuts seed %x", h.opsString(), first.size, len(h.recs), len(cuts), x.seed), len(h.recs) >= 3 && sawPartial, fmt.Sprintf("bufSz=%d", h.bufSz))
}

func c03Bucket(n int) string {
	switch {
	case n < 3:
		return "<3"
	case n < 6:
		return "3-5"
	case n < 10:
		return "6-9"
	default:
		return ">=10"
	}
}

// c03IdxBatches counts meta records of an index by walking its fixed-size records (own walker).
func c03IdxBatches(idx []byte) int {
	n, p := 0, 0
	for p < len(idx) {
		switch idx[p] {
		case 0:
			p += 1 + 16 + 8 + 4
		case 1:
			if p+1+8+8+4+20 <= len(idx) {
				n++
			}
			p += 1 + 8 + 8 + 4 + 20
		default:
			return n
		}
	}
	return n
}

func TestVerif_C03(t *testing.T) {
	rec := vh.NewRecorder("C03", "cuts", "fault_enumeration", c03Rule,
		"crash points before the first acknowledged commit of a brand-new directory are not enumerated (DESIGN: cuts start at the size at the first ack)",
		"the index flush threshold (journalWriter.maxNovel) is lowered in-package so that small histories emit index batches; record framing, sizes and roots are taken from what the harness observed / its own length-prefix walker, never from dolt's parser",
		"hole family: 'must report' is asserted only when a root record is followed by a complete record that starts at least 40 bytes before the end of the file (the documented scan window); 'must recover' only when no complete record follows the damage; in between either outcome is accepted",
		"the un-synced window is modelled at byte granularity of the journal file only; reordering below the syscall layer and the acknowledged=>fsync ordering (strace part of DESIGN) are not covered by this run")
	defer rec.Write(t)
	base, cleanup := vh.ScratchDir(t, "c03-")
	defer cleanup()
	vh.Check(t, "cuts", 10, 4, func(rt *rapid.T) { c03Case(rt, rec, base) })
	rec2 := vh.NewRecorder("C03", "first_commit", "fault_enumeration", c03FirstRule,
		"the manifest of the interrupted first commit is taken as observed right after that commit returned: ChunkJournal.Update writes it (flushToBackingManifest) before commitRootHash flushes the journal, and nothing rewrites it in between")
	defer rec2.Write(t)
	vh.Check(t, "first_commit", 6, 6, func(rt *rapid.T) { c03FirstCommitCase(rt, rec2, base) })
	c03LargeCheck(t, base)
	_ = strings.Join
}
