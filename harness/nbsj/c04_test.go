package nbs

// C04 — the journal index file never changes what the database contains.
//
// For a journal J produced by a generated write history (index flush threshold lowered so the
// history emits several index batches) with honest index X, many variants X' of the index file
// are laid next to J: absent, empty, truncations, single-field corruptions of batch records
// and lookups, checksummed-but-wrong content, stale indexes of the same history, the index of
// another journal, random bytes. The directory is opened read-write or read-only (lock held by
// another handle) and the complete view — Root, Count, Has/Get of every model address and of
// absent addresses, the sorted IterateAllChunks list — must equal the view of the same
// directory opened with no index at all. Read-only opens must leave every file untouched;
// read-write opens must leave the journal untouched and a directory that still shows the same view.

import (
	"bytes"
	"crypto/sha256"
	"encoding/binary"
	"fmt"
	"hash/crc32"
	"os"
	"path/filepath"
	"strings"
	"testing"

	"pgregory.net/rapid"

	"github.com/dolthub/dolt/go/store/chunks"
	"github.com/dolthub/dolt/go/store/hash"
	"github.com/dolthub/dolt/go/zzverif/vh"
)

const c04Rule = "journals come from rapid-drawn write histories (same generator as C03; maxNovel in {1,2,4,16} so 1..20 index batches; clean close). Index variants: absent, empty, truncation at every record boundary (and +-1 around a sample, random points; in thorough +-1 around every record and every byte of indexes up to 1200 B), per batch: start/end/root/checksum field corruptions (bit flips, off-by-one, values of other batches, other root records, beyond EOF), lookup address flips with and without recomputed batch checksum, lookup offset/length corruptions, tag bytes, lookup swaps, batch drop/duplicate/reorder, stale on-disk indexes of earlier steps, the index of a second history, zeroed windows, appended garbage, random bytes. Each variant is opened read-write or read-only and compared with the index-free open of the same directory. One evidence case per (journal, variant, mode). Non-trivial: the variant parses (own walker) into >= 1 complete batch and is not a prefix of the honest index, i.e. syntactically valid and wrong in content; distinct by journal hash + variant description."

const (
	c04LookupSz = 1 + 16 + 8 + 4
	c04MetaSz   = 1 + 8 + 8 + 4 + 20
)

type c04Rec struct {
	off  int
	meta bool
}

// c04Parse walks an index by fixed record sizes (own walker); stops at the first unknown tag or
// short record. batches[i] = [first record index, index of the meta record].
func c04Parse(x []byte) (recs []c04Rec, batches [][2]int) {
	p, first := 0, 0
	for p < len(x) {
		switch x[p] {
		case 0:
			if p+c04LookupSz > len(x) {
				return
			}
			recs = append(recs, c04Rec{off: p})
			p += c04LookupSz
		case 1:
			if p+c04MetaSz > len(x) {
				return
			}
			recs = append(recs, c04Rec{off: p, meta: true})
			batches = append(batches, [2]int{first, len(recs) - 1})
			first = len(recs)
			p += c04MetaSz
		default:
			return
		}
	}
	return
}

var c04CrcTab = crc32.MakeTable(crc32.Castagnoli)

// c04FixCrc recomputes the checksum of batch b over its lookups' 16 address bytes (the format's rule).
func c04FixCrc(x []byte, recs []c04Rec, b [2]int) {
	var c uint32
	for i := b[0]; i < b[1]; i++ {
		c = crc32.Update(c, c04CrcTab, x[recs[i].off+1:recs[i].off+17])
	}
	binary.BigEndian.PutUint32(x[recs[b[1]].off+17:], c)
}

type c04Variant struct {
	name  string
	class string
	idx   []byte // nil = absent
}

func c04Clone(x []byte) []byte { return append([]byte{}, x...) }

// c04Variants builds the variant list for history h (honest index X) and a second history's index.
func c04Variants(h *verifJHist, otherIdx []byte, seed uint64) []c04Variant {
	X := h.finalIdx
	r := verifJMix(seed, 0xc04)
	recs, batches := c04Parse(X)
	var vs []c04Variant
	add := func(class, name string, b []byte) { vs = append(vs, c04Variant{name: name, class: class, idx: b}) }
	add("absent", "absent", nil)
	add("empty", "empty", []byte{})
	add("honest", "honest", c04Clone(X))

	// truncations
	cutSet := map[int]bool{}
	for i, rc := range recs {
		cutSet[rc.off] = true
		if vh.Thorough() || (i+int(seed))%4 == 0 || rc.meta {
			cutSet[rc.off+1] = true
			if rc.off > 0 {
				cutSet[rc.off-1] = true
			}
		}
		if rc.meta {
			cutSet[rc.off+9], cutSet[rc.off+17], cutSet[rc.off+21] = true, true, true
		}
	}
	if vh.Thorough() && len(X) <= 1200 {
		for i := range X {
			cutSet[i] = true
		}
	}
	for i := 0; i < 10 && len(X) > 0; i++ {
		cutSet[r.intn(len(X))] = true
	}
	for c := 0; c < len(X); c++ {
		if cutSet[c] {
			add("truncated", fmt.Sprintf("truncated@%d/%d", c, len(X)), c04Clone(X[:c]))
		}
	}

	// roots and chunk record offsets of the journal, for plausible wrong values
	var rootRecs, chunkRecs []verifJRec
	for _, q := range h.recs {
		if q.kind == 1 {
			rootRecs = append(rootRecs, q)
		} else {
			chunkRecs = append(chunkRecs, q)
		}
	}
	nb := len(batches)
	pick := map[int]bool{}
	for i := 0; i < nb; i++ {
		if vh.Thorough() || nb <= 4 || i == 0 || i == nb-1 {
			pick[i] = true
		}
	}
	for len(pick) < min(nb, 4) {
		pick[r.intn(nb)] = true
	}
	for bi, b := range batches {
		if !pick[bi] {
			continue
		}
		m := recs[b[1]].off
		start := binary.BigEndian.Uint64(X[m+1:])
		end := binary.BigEndian.Uint64(X[m+9:])
		setU64 := func(class, name string, at int, v uint64) {
			y := c04Clone(X)
			binary.BigEndian.PutUint64(y[at:], v)
			add(class, fmt.Sprintf("batch%d/%d %s=%d(was %d)", bi, nb, name, v, binary.BigEndian.Uint64(X[at:])), y)
		}
		setU64("meta_start", "start", m+1, start+1)
		if start > 0 {
			setU64("meta_start", "start", m+1, start-1)
		}
		setU64("meta_start", "start", m+1, uint64(1)<<uint(r.intn(40)))
		setU64("meta_end", "end", m+9, end+1)
		setU64("meta_end", "end", m+9, end-1)
		setU64("meta_end", "end", m+9, uint64(len(h.J)))
		setU64("meta_end", "end", m+9, uint64(len(h.J))+uint64(r.intn(5000)))
		setU64("meta_end", "end", m+9, end^(uint64(1)<<uint(r.intn(24))))
		if len(rootRecs) > 1 {
			q := rootRecs[r.intn(len(rootRecs))]
			if uint64(q.off) != end {
				setU64("meta_end_other_root", "end", m+9, uint64(q.off))
				// end moved to another root record *and* the root hash replaced accordingly:
				// the batch-end check passes; start/contiguity or lookups are then what is wrong
				y := c04Clone(X)
				binary.BigEndian.PutUint64(y[m+9:], uint64(q.off))
				copy(y[m+21:m+41], q.addr[:])
				add("meta_end_and_root_other_root", fmt.Sprintf("batch%d/%d end=%d+root of that record", bi, nb, q.off), y)
			}
		}
		if len(chunkRecs) > 0 {
			setU64("meta_end", "end", m+9, uint64(chunkRecs[r.intn(len(chunkRecs))].off))
		}
		{
			y := c04Clone(X)
			y[m+21+r.intn(20)] ^= byte(1 << r.intn(8))
			add("meta_root", fmt.Sprintf("batch%d/%d root bit flip", bi, nb), y)
			y = c04Clone(X)
			copy(y[m+21:m+41], rootRecs[r.intn(len(rootRecs))].addr[:])
			if !bytes.Equal(y, X) {
				add("meta_root", fmt.Sprintf("batch%d/%d root=another real root", bi, nb), y)
			}
			y = c04Clone(X)
			y[m+17+r.intn(4)] ^= byte(1 << r.intn(8))
			add("meta_checksum", fmt.Sprintf("batch%d/%d checksum bit flip", bi, nb), y)
			y = c04Clone(X)
			y[m] = []byte{0, 2, 7, 0xff}[r.intn(4)]
			add("tag", fmt.Sprintf("batch%d/%d meta tag=%d", bi, nb, y[m]), y)
		}
		nl := b[1] - b[0]
		if nl == 0 {
			continue
		}
		for k := 0; k < 2; k++ {
			li := b[0] + r.intn(nl)
			lo := recs[li].off
			y := c04Clone(X)
			y[lo+1+r.intn(16)] ^= byte(1 << r.intn(8))
			add("lookup_addr", fmt.Sprintf("batch%d/%d lookup%d addr bit flip", bi, nb, li-b[0]), y)
			z := c04Clone(y)
			c04FixCrc(z, recs, b)
			add("lookup_addr_recrc", fmt.Sprintf("batch%d/%d lookup%d addr bit flip, checksum recomputed", bi, nb, li-b[0]), z)
			y = c04Clone(X)
			y[lo] = []byte{1, 2, 9}[r.intn(3)]
			add("tag", fmt.Sprintf("batch%d/%d lookup%d tag=%d", bi, nb, li-b[0], y[lo]), y)
			// offset / length
			off := binary.BigEndian.Uint64(X[lo+17:])
			ln := binary.BigEndian.Uint32(X[lo+25:])
			for _, v := range []uint64{off + 1, off - 1, off ^ (1 << uint(r.intn(16))), uint64(len(h.J)) + uint64(r.intn(100)), uint64(chunkRecs[r.intn(len(chunkRecs))].off)} {
				if v == off {
					continue
				}
				y = c04Clone(X)
				binary.BigEndian.PutUint64(y[lo+17:], v)
				add("lookup_offset", fmt.Sprintf("batch%d/%d lookup%d offset=%d(was %d)", bi, nb, li-b[0], v, off), y)
			}
			for _, v := range []uint32{ln + 1, ln - 1, 0, 3, 4, ln ^ (1 << uint(r.intn(12))), ln + uint32(len(h.J))} {
				if v == ln {
					continue
				}
				y = c04Clone(X)
				binary.BigEndian.PutUint32(y[lo+25:], v)
				add("lookup_length", fmt.Sprintf("batch%d/%d lookup%d length=%d(was %d)", bi, nb, li-b[0], v, ln), y)
			}
		}
		if nl >= 2 {
			i, j := b[0]+r.intn(nl), b[0]+r.intn(nl)
			if i != j {
				y := c04Clone(X)
				copy(y[recs[i].off:recs[i].off+c04LookupSz], X[recs[j].off:recs[j].off+c04LookupSz])
				copy(y[recs[j].off:recs[j].off+c04LookupSz], X[recs[i].off:recs[i].off+c04LookupSz])
				add("lookup_swap_in_batch", fmt.Sprintf("batch%d/%d lookups %d<->%d swapped (same content, other order)", bi, nb, i-b[0], j-b[0]), y)
				// ranges of two lookups exchanged, addresses kept: checksum (addresses only) still right
				y = c04Clone(X)
				copy(y[recs[i].off+17:recs[i].off+c04LookupSz], X[recs[j].off+17:recs[j].off+c04LookupSz])
				copy(y[recs[j].off+17:recs[j].off+c04LookupSz], X[recs[i].off+17:recs[i].off+c04LookupSz])
				add("lookup_ranges_exchanged", fmt.Sprintf("batch%d/%d lookups %d and %d exchange offset+length", bi, nb, i-b[0], j-b[0]), y)
			}
		}
		// a lookup's address replaced by an address that is not in the journal, checksum recomputed
		{
			li := b[0] + r.intn(nl)
			y := c04Clone(X)
			copy(y[recs[li].off+1:recs[li].off+17], r.bytes(16))
			c04FixCrc(y, recs, b)
			add("lookup_addr_forged_recrc", fmt.Sprintf("batch%d/%d lookup%d address replaced by a foreign one, checksum recomputed", bi, nb, li-b[0]), y)
		}
		// whole-batch operations
		bs, be := recs[b[0]].off, recs[b[1]].off+c04MetaSz
		add("batch_dropped", fmt.Sprintf("batch%d/%d dropped", bi, nb), append(c04Clone(X[:bs]), X[be:]...))
		add("batch_duplicated", fmt.Sprintf("batch%d/%d duplicated", bi, nb), append(append(c04Clone(X[:be]), X[bs:be]...), X[be:]...))
		if bi+1 < nb {
			nbE := recs[batches[bi+1][1]].off + c04MetaSz
			y := append(c04Clone(X[:bs]), X[be:nbE]...)
			y = append(y, X[bs:be]...)
			y = append(y, X[nbE:]...)
			add("batch_reordered", fmt.Sprintf("batches %d and %d of %d exchanged", bi, bi+1, nb), y)
		}
	}

	// stale on-disk indexes of the same history
	seen := map[[32]byte]bool{sha256.Sum256(X): true}
	for i, s := range h.snaps {
		if s.idx == nil {
			continue
		}
		k := sha256.Sum256(s.idx)
		if seen[k] {
			continue
		}
		seen[k] = true
		add("stale", fmt.Sprintf("stale: on-disk index after step %d (%s), %d B", i, s.op, len(s.idx)), c04Clone(s.idx))
	}
	if otherIdx != nil {
		add("other_journal", fmt.Sprintf("index of another journal, %d B", len(otherIdx)), c04Clone(otherIdx))
		if len(X) > 0 {
			k := r.intn(len(X))
			add("other_journal", fmt.Sprintf("honest[:%d]+other journal's index", k), append(c04Clone(X[:k]), otherIdx...))
		}
	}
	// damage without structure
	for i := 0; i < 3 && len(X) > 64; i++ {
		y := c04Clone(X)
		p, n := r.intn(len(X)-32), 1+r.intn(96)
		for k := p; k < p+n && k < len(y); k++ {
			y[k] = 0
		}
		add("zero_window", fmt.Sprintf("%d bytes zeroed at %d", n, p), y)
	}
	for i := 0; i < 4 && len(X) > 0; i++ {
		y := c04Clone(X)
		p := r.intn(len(X))
		m := byte(1 << r.intn(8))
		y[p] ^= m
		add("bit_flip", fmt.Sprintf("bit flip at %d ^%02x", p, m), y)
	}
	add("garbage_appended", "honest+garbage", append(c04Clone(X), r.bytes(1+r.intn(200))...))
	add("zeros_appended", "honest+zeros", append(c04Clone(X), make([]byte, 1+r.intn(200))...))
	for _, n := range []int{1, 28, 29, 41, 70, 500, 4096} {
		add("random", fmt.Sprintf("random %d B", n), r.bytes(n))
		y := r.bytes(n)
		y[0] = byte(r.intn(2))
		add("random", fmt.Sprintf("random %d B behind tag %d", n, y[0]), y)
	}
	return vs
}

// c04FindingFor says which reported finding (if any) explains a difference caused by variant y
// of the honest index X. When known_findings.json lists that id as open, the difference is
// reported as KNOWN-FINDING and excluded; otherwise it is a violation like any other.
// (VERIFJ_ASSUME_OPEN=id,id is a development aid with the same effect.)
//
//	C04-index-lookup-range-unchecked: y differs from X only inside offset/length fields of
//	  lookups (no checksum covers them);
//	C04-index-consistent-forgery-trusted: y differs from X only inside lookup address fields and
//	  batch checksum fields, and every batch checksum of y is right for y's addresses; or only
//	  inside batch end-offset and root-hash fields, every batch end of y naming a real root
//	  record of the journal with that root (an internally consistent forgery).
func c04FindingFor(h *verifJHist, y []byte) string {
	X := h.finalIdx
	if len(X) != len(y) || bytes.Equal(X, y) {
		return ""
	}
	recs, batches := c04Parse(X)
	field := make([]byte, len(X)) // 'r' range field, 'a' address field, 'c' checksum field, 0 other
	for _, rc := range recs {
		if rc.meta {
			for i := 9; i < 17; i++ {
				field[rc.off+i] = 'e'
			}
			for i := 17; i < 21; i++ {
				field[rc.off+i] = 'c'
			}
			for i := 21; i < c04MetaSz; i++ {
				field[rc.off+i] = 'e'
			}
			continue
		}
		for i := 1; i < 17; i++ {
			field[rc.off+i] = 'a'
		}
		for i := 17; i < c04LookupSz; i++ {
			field[rc.off+i] = 'r'
		}
	}
	onlyRange, onlyAddr, onlyEnd := true, true, true
	for i := range X {
		if X[i] != y[i] {
			onlyRange = onlyRange && field[i] == 'r'
			onlyAddr = onlyAddr && (field[i] == 'a' || field[i] == 'c')
			onlyEnd = onlyEnd && field[i] == 'e'
		}
	}
	if onlyEnd {
		for _, b := range batches {
			m := recs[b[1]].off
			end := int64(binary.BigEndian.Uint64(y[m+9:]))
			ok := false
			for _, q := range h.recs {
				if q.kind == 1 && q.off == end && bytes.Equal(q.addr[:], y[m+21:m+41]) {
					ok = true
				}
			}
			if !ok {
				return ""
			}
		}
		return "C04-index-consistent-forgery-trusted"
	}
	if onlyRange {
		return "C04-index-lookup-range-unchecked"
	}
	if onlyAddr {
		for _, b := range batches {
			z := c04Clone(y)
			c04FixCrc(z, recs, b)
			if !bytes.Equal(z, y) {
				return ""
			}
		}
		return "C04-index-consistent-forgery-trusted"
	}
	return ""
}

func verifJFindingOpen(property, id string) bool {
	if id == "" {
		return false
	}
	for _, s := range strings.Split(os.Getenv("VERIFJ_ASSUME_OPEN"), ",") {
		if s == id {
			return true
		}
	}
	return vh.OpenFinding(property, id)
}

type c04Ctx struct {
	rt    *rapid.T
	h     *verifJHist
	dir   string
	addrs []hash.Hash
	ref   verifJView
}

// observe lays idx next to the journal and opens the directory; returns the view.
func (x *c04Ctx) observe(what string, idx []byte, readOnly bool, reuseDir bool) verifJView {
	v, problem, env := c04Observe(x.dir, x.h.J, x.h.finalMan, idx, readOnly, reuseDir, x.addrs)
	if env != "" {
		vh.Inconclusive(x.rt, "%s", env)
	}
	if problem != "" {
		x.rt.Fatalf("%s: %s", what, problem)
	}
	return v
}

// c04Observe materializes (journal J, manifest man, index idx) in dir unless reuseDir, opens it
// read-write or read-only (the harness holds the lock as a foreign holder) and reads the view.
// problem != "" is a property failure, env != "" an environment problem.
func c04Observe(dir string, J, man, idx []byte, readOnly, reuseDir bool, addrs []hash.Hash) (v verifJView, problem, env string) {
	if !reuseDir {
		if err := verifJWriteImage(dir, J, man, idx); err != nil {
			return v, "", fmt.Sprintf("cannot write image: %v", err)
		}
	}
	var before map[string]verifJFileSig
	if readOnly {
		lock, mode, err := newJournalLock(dir, 0, false)
		if err != nil || lock == nil || mode != chunks.ExclusiveAccessMode_Exclusive {
			return v, "", fmt.Sprintf("harness could not take the directory lock: %v", err)
		}
		defer func() { _ = lock.Unlock(); _ = lock.Close() }()
		if before, err = verifJDirSig(dir); err != nil {
			return v, "", fmt.Sprintf("dir listing: %v", err)
		}
	}
	st, err := verifJOpen(dir, JournalingStoreOptions{SkipLockFileTimeout: true}, nil)
	if err != nil {
		return v, fmt.Sprintf("open: %v", err), ""
	}
	if _, err = verifJLoad(st); err != nil {
		_ = st.Close()
		return v, fmt.Sprintf("open fails (%v) where the index-free open of the same journal succeeds", err), ""
	}
	wantMode := chunks.ExclusiveAccessMode(chunks.ExclusiveAccessMode_Exclusive)
	if readOnly {
		wantMode = chunks.ExclusiveAccessMode_ReadOnly
	}
	if st.AccessMode() != wantMode {
		_ = st.Close()
		return v, fmt.Sprintf("access mode %v, want %v", st.AccessMode(), wantMode), ""
	}
	v, err = verifJReadView(st, addrs, true)
	if err != nil {
		_ = st.Close()
		return v, fmt.Sprintf("reading the view: %v", err), ""
	}
	if err = st.Close(); err != nil {
		return v, fmt.Sprintf("Close: %v", err), ""
	}
	if readOnly {
		after, err := verifJDirSig(dir)
		if err != nil {
			return v, "", fmt.Sprintf("dir listing: %v", err)
		}
		if d := verifJSigDiff(before, after); d != "" {
			return v, fmt.Sprintf("a read-only open modified the directory: %s", d), ""
		}
	} else if got := verifJReadFile(verifJJournalPath(dir)); !bytes.Equal(got, J) {
		return v, fmt.Sprintf("a read-write open+Close of a cleanly closed journal changed the journal file (%d -> %d bytes)", len(J), len(got)), ""
	}
	return v, "", ""
}

// c04Pinned: the two reported findings in their smallest shape, without rapid. A fixed history
// (3 leaves + root, commit; 1 leaf + root, commit; index flush threshold 1, so two batches),
// then (a) one lookup's journal offset +1 — a single corrupted byte in journal.idx, covered by no
// checksum; (b) one lookup's length set to 3; (c) one lookup's address replaced and the batch
// checksum recomputed. Each must show the same view as the index-free open.
func c04Pinned(t *testing.T, base string) {
	dir := filepath.Join(base, "pinned")
	_ = os.RemoveAll(dir)
	defer os.RemoveAll(dir)
	if err := os.MkdirAll(dir, 0o755); err != nil {
		vh.Inconclusive(t, "mkdir: %v", err)
	}
	st, err := verifJOpen(dir, JournalingStoreOptions{}, nil)
	if err != nil {
		t.Fatalf("pinned: open: %v", err)
	}
	if _, err = verifJLoad(st); err != nil {
		t.Fatalf("pinned: load: %v", err)
	}
	if err = verifJSetMaxNovel(st, 1); err != nil {
		t.Fatalf("pinned: %v", err)
	}
	var addrs []hash.Hash
	var last hash.Hash
	n := 0
	commit := func(leaves int) {
		var refs []hash.Hash
		for i := 0; i < leaves; i++ {
			n++
			c := chunks.NewChunk([]byte(fmt.Sprintf("pinned leaf %d %s", n, strings.Repeat("x", 10*n))))
			if err := st.Put(verifJCtx, c, verifJGetAddrs); err != nil {
				t.Fatalf("pinned: Put: %v", err)
			}
			refs = append(refs, c.Hash())
			addrs = append(addrs, c.Hash())
		}
		rc := chunks.NewChunk(verifJEncodeRefs(refs, []byte{byte(n)}))
		if err := st.Put(verifJCtx, rc, verifJGetAddrs); err != nil {
			t.Fatalf("pinned: Put: %v", err)
		}
		addrs = append(addrs, rc.Hash())
		if ok, err := st.Commit(verifJCtx, rc.Hash(), last); err != nil || !ok {
			t.Fatalf("pinned: Commit = %v, %v", ok, err)
		}
		last = rc.Hash()
	}
	commit(3)
	commit(1)
	if err = st.Close(); err != nil {
		t.Fatalf("pinned: Close: %v", err)
	}
	J, man, X := verifJReadFile(verifJJournalPath(dir)), verifJReadFile(verifJManifestPath(dir)), verifJReadFile(verifJIndexPath(dir))
	recs, batches := c04Parse(X)
	if len(batches) != 2 || batches[0][1] < 1 {
		t.Fatalf("pinned: expected an index with two batches, got %d bytes, %d records, %d batches", len(X), len(recs), len(batches))
	}
	img := filepath.Join(base, "pinned-img")
	defer os.RemoveAll(img)
	ref, problem, env := c04Observe(img, J, man, nil, false, false, addrs)
	if env != "" {
		vh.Inconclusive(t, "%s", env)
	}
	if problem != "" || ref.root != last {
		t.Fatalf("pinned: reference open: %s (root %s, want %s)", problem, ref.root, last)
	}
	lo := recs[batches[0][0]].off // first lookup of the first batch
	type pv struct {
		name, finding string
		idx           []byte
	}
	var pvs []pv
	y := c04Clone(X)
	binary.BigEndian.PutUint64(y[lo+17:], binary.BigEndian.Uint64(X[lo+17:])+1)
	pvs = append(pvs, pv{"first lookup: journal offset +1 (one byte of journal.idx differs)", "C04-index-lookup-range-unchecked", y})
	y = c04Clone(X)
	binary.BigEndian.PutUint32(y[lo+25:], 3)
	pvs = append(pvs, pv{"first lookup: length 3", "C04-index-lookup-range-unchecked", y})
	y = c04Clone(X)
	for i := 1; i < 17; i++ {
		y[lo+i] = byte(0xA0 + i)
	}
	c04FixCrc(y, recs, batches[0])
	pvs = append(pvs, pv{"first lookup: foreign address, batch checksum recomputed", "C04-index-consistent-forgery-trusted", y})
	for _, v := range pvs {
		for _, ro := range []bool{false, true} {
			mode := map[bool]string{false: "read-write", true: "read-only"}[ro]
			got, problem, env := c04Observe(img, J, man, v.idx, ro, false, addrs)
			if env != "" {
				vh.Inconclusive(t, "%s", env)
			}
			d := problem
			if d == "" {
				d = verifJViewDiff(ref, got, addrs)
			}
			if d == "" {
				continue
			}
			if verifJFindingOpen("C04", v.finding) {
				vh.ReportKnown("C04", v.finding, fmt.Sprintf("pinned: %s, %s open: %s", v.name, mode, d))
				continue
			}
			vh.NoteViolation(t.Name(), "", fmt.Sprintf(`{"finding":%q,"history":"fresh journaling store, index flush threshold 1; Put 3 leaves + root, Commit; Put 1 leaf + root, Commit; Close","journal_idx_variant":%q,"open":%q,"expected":"same Root/Count/Has/Get/IterateAllChunks as with journal.idx deleted","actual":%q}`, v.finding, v.name, mode, d))
			t.Errorf("pinned %s: %s, %s open differs from the index-free open: %s", v.finding, v.name, mode, d)
		}
	}
}

func c04Case(rt *rapid.T, rec *vh.Recorder, base string) {
	dir := filepath.Join(base, "hist")
	_ = os.RemoveAll(dir)
	defer os.RemoveAll(dir)
	defer verifJWithBufSize(rapid.SampledFrom([]uint32{256 << 10, 256 << 10, 256 << 10, 8192, 5 << 20}).Draw(rt, "journalWriterBuffSize"))()
	cfg := verifJHistCfg{minOps: 10, maxOps: vh.N(36, 60), maxNovels: []int{1, 2, 2, 4, 4, 16}, bigChunks: false, smallMemtable: true}
	h := verifJBuildHistory(rt, dir, cfg)
	// a second, short history for "index of a different journal"
	dir2 := filepath.Join(base, "hist2")
	_ = os.RemoveAll(dir2)
	h2 := verifJBuildHistory(rt, dir2, verifJHistCfg{minOps: 4, maxOps: 12, maxNovels: []int{1, 2}})
	_ = os.RemoveAll(dir2)
	seed := rapid.Uint64().Draw(rt, "variantSeed")

	x := &c04Ctx{rt: rt, h: h, dir: filepath.Join(base, "img")}
	defer os.RemoveAll(x.dir)
	x.addrs = h.sortedAddrs()
	// absent probes: never sharing the first 16 bytes with a model address (the cached range
	// index is keyed by them and documents them as unique)
	pr := verifJMix(seed, 99)
	for i := 0; i < 6; i++ {
		var a hash.Hash
		copy(a[:], pr.bytes(20))
		if i < 3 && len(h.order) > 0 {
			// same 8-byte prefix as a present chunk, different bytes 8..16
			copy(a[:8], h.order[pr.intn(len(h.order))][:8])
		}
		if _, ok := h.chunks[a]; !ok {
			x.addrs = append(x.addrs, a)
		}
	}
	x.ref = x.observe("reference (no index, read-write)", nil, false, false)
	if want, _ := h.expectedRootAt(int64(len(h.J))); x.ref.root != want {
		rt.Fatalf("reference open shows root %s, history acknowledged %s", x.ref.root, want)
	}
	jsum := sha256.Sum256(h.J)
	_, batches := c04Parse(h.finalIdx)
	vs := c04Variants(h, h2.finalIdx, seed)
	known := map[string]int{}
	defer func() {
		for id, n := range known {
			vh.ReportKnown("C04", id, fmt.Sprintf("%d index variants of this class change what the store shows (journal %x)", n, jsum[:6]))
		}
	}()
	for vi, v := range vs {
		modes := []bool{(vi+int(seed))%2 == 0}
		if v.class != "truncated" || vi%5 == 0 {
			modes = []bool{false, true}
		}
		for _, ro := range modes {
			mode := map[bool]string{false: "read-write", true: "read-only"}[ro]
			what := fmt.Sprintf("index variant [%s] (%d B; honest index %d B, %d batches), %s open", v.name, len(v.idx), len(h.finalIdx), len(batches), mode)
			got := x.observe(what, v.idx, ro, false)
			if d := verifJViewDiff(x.ref, got, x.addrs); d != "" {
				if id := c04FindingFor(h, v.idx); verifJFindingOpen("C04", id) {
					known[id]++
					rec.Excluded(1)
					continue
				}
				rt.Fatalf("%s differs from the index-free open (index-free vs with index): %s", what, d)
			}
			if !ro && (vi+int(seed>>8))%3 == 0 {
				// whatever the read-write open left in journal.idx must be harmless too
				left := verifJReadFile(verifJIndexPath(x.dir))
				again := x.observe(what+", then reopened "+map[bool]string{false: "read-write", true: "read-only"}[vi%2 == 0]+fmt.Sprintf(" over the index it left (%d B)", len(left)), nil, vi%2 == 0, true)
				if d := verifJViewDiff(x.ref, again, x.addrs); d != "" {
					rt.Fatalf("%s: the reopened directory differs from the index-free open: %s", what, d)
				}
			}
			_, vb := c04Parse(v.idx)
			nontrivial := len(vb) >= 1 && !bytes.HasPrefix(h.finalIdx, v.idx)
			rec.Case(fmt.Sprintf("journal %x (%d B, %d records, %d acks, %d batches; maxNovel=%d bufSz=%d) | %s | %s", jsum[:6], len(h.J), len(h.recs), len(h.acks), len(batches), h.maxNovel, h.bufSz, v.name, mode), nontrivial,
				"class="+v.class, "mode="+mode, fmt.Sprintf("batches=%s", c03Bucket(len(batches))))
		}
	}
	rec.Class("journals", 1)
}

func TestVerif_C04(t *testing.T) {
	rec := vh.NewRecorder("C04", "index_variants", "fault_enumeration", c04Rule,
		"the journal itself is undamaged and cleanly closed (index variants over crash-cut journals are part of C03)",
		"absent-address probes never share their first 16 bytes with a present address (the cached range index is keyed by addr16, documented as assumed unique)",
		"IterateAllChunks is compared on (first 16 address bytes, content): chunks served from the cached index carry only 16 address bytes by construction",
		"corrupted lookup lengths stay below journal size + 4 KiB (a flipped high bit would only make the read allocate gigabytes before failing)",
		"the index flush threshold (journalWriter.maxNovel) is lowered in-package; the 16384-chunks-per-batch public path is not run in this tier")
	defer rec.Write(t)
	base, cleanup := vh.ScratchDir(t, "c04-")
	defer cleanup()
	t.Run("pinned", func(t *testing.T) { c04Pinned(t, base) })
	vh.Check(t, "index_variants", 8, 6, func(rt *rapid.T) { c04Case(rt, rec, base) })
}
