package nbs

// C41 — only one process can write a database directory (in-process variant).
//
// flock is per open file description, so separate store handles on one directory conflict in
// one process exactly like separate processes do. A database directory is pre-seeded from a
// generated history (clean, or a crash image with a torn tail, and an index that is honest,
// stale, truncated, garbage or missing). Then a drawn schedule runs over up to three handle
// slots plus a raw lock holder (stands for a foreign process that has taken the lock and not
// loaded yet): open with the four option combinations, load+read everything, put+commit,
// prune, close. A model of who holds the lock predicts for every open whether it must be
// exclusive, read-only or fail with ErrDatabaseLocked; after every step the lock state is
// probed independently. For every action of a read-only handle (load over the torn tail /
// stale index, reads, refused writes, close) the SHA-256 and size of every file and the set of
// names are compared before/after.

import (
	"bytes"
	"errors"
	"fmt"
	"os"
	"path/filepath"
	"sort"
	"strings"
	"testing"

	"github.com/dolthub/fslock"
	"pgregory.net/rapid"

	"github.com/dolthub/dolt/go/store/chunks"
	"github.com/dolthub/dolt/go/store/hash"
	"github.com/dolthub/dolt/go/zzverif/vh"
)

const c41Rule = "a directory is pre-seeded from a rapid-drawn write history: clean, or a crash image (cut at or after the first ack, one of 7 tail variants) with journal.idx in {honest, absent, as on disk at that moment, stale earlier snapshot, truncated, random bytes, beyond-the-cut final index}; then 8..30 drawn steps over 3 handle slots and a raw LOCK holder: open{default, SkipLockFileTimeout, FailOnLockTimeout, both}, use (load + Root/Has/Get of all model chunks), write (Put+Commit), prune, close, raw lock/unlock. Oracle: lock model (exactly one exclusive holder; contended opens are ReadOnly or ErrDatabaseLocked), independent TryLock probe after each step, roots/chunks against the acknowledged history, and directory SHA-256 listing unchanged across every action of a read-only handle. Non-trivial: a read-only handle loads (bootstraps) while another holder has the lock and the journal has a torn tail or the index is not the honest one; distinct by seed variant + step sequence."

// c41Handle is one opener of the directory: a store handle in this process, or a worker process.
type c41Handle interface {
	open(dir string, opts JournalingStoreOptions) (chunks.ExclusiveAccessMode, error)
	view(addrs []hash.Hash) (hash.Hash, verifJView, error) // loads on first use
	write(leaf, root chunks.Chunk, last hash.Hash) (bool, error)
	prune() error
	close() error
	mode() chunks.ExclusiveAccessMode
}

type c41Local struct{ st *NomsBlockStore }

func (l *c41Local) open(dir string, opts JournalingStoreOptions) (chunks.ExclusiveAccessMode, error) {
	st, err := verifJOpen(dir, opts, nil)
	if err != nil {
		return 0, err
	}
	l.st = st
	return st.AccessMode(), nil
}

func (l *c41Local) view(addrs []hash.Hash) (hash.Hash, verifJView, error) {
	root, err := verifJLoad(l.st)
	if err != nil {
		return root, verifJView{}, err
	}
	v, err := verifJReadView(l.st, addrs, false)
	return root, v, err
}

func (l *c41Local) write(leaf, root chunks.Chunk, last hash.Hash) (bool, error) {
	if err := l.st.Put(verifJCtx, leaf, verifJGetAddrs); err != nil {
		return false, err
	}
	if err := l.st.Put(verifJCtx, root, verifJGetAddrs); err != nil {
		return false, err
	}
	return l.st.Commit(verifJCtx, root.Hash(), last)
}

func (l *c41Local) prune() error                     { return l.st.PruneTableFiles(verifJCtx) }
func (l *c41Local) close() error                     { return l.st.Close() }
func (l *c41Local) mode() chunks.ExclusiveAccessMode { return l.st.AccessMode() }

// c41Remote drives a worker process (see worker_test.go).
type c41Remote struct {
	p      *verifJProc
	opened bool
}

func c41ParseMode(reply string) (chunks.ExclusiveAccessMode, error) {
	var m int
	if _, err := fmt.Sscanf(reply, "ok mode=%d", &m); err != nil {
		return 0, fmt.Errorf("worker: %s", reply)
	}
	return chunks.ExclusiveAccessMode(m), nil
}

func (r *c41Remote) open(dir string, opts JournalingStoreOptions) (chunks.ExclusiveAccessMode, error) {
	b := map[bool]int{false: 0, true: 1}
	reply, err := r.p.call("open %d %d", b[opts.FailOnLockTimeout], b[opts.SkipLockFileTimeout])
	if err != nil {
		return 0, err
	}
	if reply == "err locked" {
		return 0, ErrDatabaseLocked
	}
	m, err := c41ParseMode(reply)
	r.opened = err == nil
	return m, err
}

func (r *c41Remote) view(addrs []hash.Hash) (root hash.Hash, v verifJView, err error) {
	hs := make([]string, len(addrs))
	for i, a := range addrs {
		hs[i] = verifJHex(a)
	}
	reply, err := r.p.call("view %s", strings.Join(hs, ","))
	if err != nil {
		return root, v, err
	}
	f := strings.Fields(reply)
	if len(f) < 2 || f[0] != "ok" || !strings.HasPrefix(f[1], "root=") {
		return root, v, fmt.Errorf("worker: %s", reply)
	}
	root, _ = verifJParseHash(f[1][5:])
	v.root = root
	v.has, v.get = map[hash.Hash]string{}, map[hash.Hash]string{}
	for _, kv := range f[2:] {
		eq, bar := strings.IndexByte(kv, '='), strings.IndexByte(kv, '|')
		if eq < 0 || bar < eq {
			continue
		}
		a, _ := verifJParseHash(kv[:eq])
		v.has[a], v.get[a] = kv[eq+1:bar], kv[bar+1:]
	}
	return root, v, nil
}

func (r *c41Remote) write(leaf, root chunks.Chunk, last hash.Hash) (bool, error) {
	reply, err := r.p.call("write %x %x %s", leaf.Data(), root.Data(), verifJHex(last))
	if err != nil {
		return false, err
	}
	if strings.HasPrefix(reply, "ok ACK") {
		return true, nil
	}
	return false, fmt.Errorf("worker: %s", reply)
}

func (r *c41Remote) prune() error {
	reply, err := r.p.call("prune")
	if err != nil {
		return err
	}
	if reply == "ok" {
		return nil
	}
	return fmt.Errorf("worker: %s", reply)
}

func (r *c41Remote) close() error {
	reply, err := r.p.call("close")
	r.opened = false
	if err != nil {
		return err
	}
	if reply != "ok" {
		return fmt.Errorf("worker: %s", reply)
	}
	return nil
}

func (r *c41Remote) mode() chunks.ExclusiveAccessMode {
	reply, err := r.p.call("mode")
	if err != nil {
		return chunks.ExclusiveAccessMode_Shared
	}
	m, _ := c41ParseMode(reply)
	return m
}

type c41Slot struct {
	h       c41Handle
	excl    bool
	loaded  bool
	root    hash.Hash // root this handle showed at load / after its own commits
	loadedT int       // model time of load (number of acked commits then)
}

type c41State struct {
	rt       *rapid.T
	rec      *vh.Recorder
	h        *verifJHist
	dir      string
	slots    [3]*c41Slot
	raw      *fslock.Lock
	curRoot  hash.Hash
	time     int                  // number of commits made by this schedule
	chunkSum map[hash.Hash]string // every chunk that may exist -> content sum
	since    map[hash.Hash]int    // durable since model time (0 = from the seed image); -1 = un-acked in the seed
	addrs    []hash.Hash
	ops      []string
	rng      *verifJRng
	// non-triviality / classes
	dirty       bool // journal still has the torn tail / index still the seeded non-honest one
	tornSeed    bool
	idxNotClean bool
	nontrivial  bool
	classes     map[string]bool
	maxExcl     int
	// backend
	newHandle func(slot int) c41Handle
	killSlot  func(slot int) // nil for the in-process backend
}

func (s *c41State) opf(f string, a ...any) { s.ops = append(s.ops, fmt.Sprintf(f, a...)) }

func (s *c41State) lockHeld() bool {
	if s.raw != nil {
		return true
	}
	for _, sl := range s.slots {
		if sl != nil && sl.excl {
			return true
		}
	}
	return false
}

func (s *c41State) sig() map[string]verifJFileSig {
	m, err := verifJDirSig(s.dir)
	if err != nil {
		vh.Inconclusive(s.rt, "dir listing: %v", err)
	}
	return m
}

// unchanged runs f and requires the directory tree to be byte-identical afterwards.
func (s *c41State) unchanged(what string, f func()) {
	before := s.sig()
	f()
	if d := verifJSigDiff(before, s.sig()); d != "" {
		s.rt.Fatalf("%s modified the directory: %s\nsteps: %s", what, d, strings.Join(s.ops, "; "))
	}
}

// probe checks the lock state independently of the store handles: a fail-fast lock attempt
// must fail exactly when the model says the lock is held.
func (s *c41State) probe(after string) {
	l, mode, err := newJournalLock(s.dir, 0, true)
	held := s.lockHeld()
	switch {
	case err == nil && l != nil:
		_ = l.Unlock()
		_ = l.Close()
		if held {
			s.rt.Fatalf("after %s: a foreign fail-fast lock attempt succeeded (mode %v) while the model says the lock is held\nsteps: %s", after, mode, strings.Join(s.ops, "; "))
		}
	case errors.Is(err, ErrDatabaseLocked):
		if !held {
			s.rt.Fatalf("after %s: the directory lock is still held although every exclusive holder is closed\nsteps: %s", after, strings.Join(s.ops, "; "))
		}
	default:
		vh.Inconclusive(s.rt, "lock probe: %v", err)
	}
	n := 0
	for _, sl := range s.slots {
		if sl != nil && sl.h.mode() == chunks.ExclusiveAccessMode_Exclusive {
			n++
		}
	}
	if s.raw != nil {
		n++
	}
	if n > 1 {
		s.rt.Fatalf("after %s: %d holders report exclusive access at the same time\nsteps: %s", after, n, strings.Join(s.ops, "; "))
	}
	if n > s.maxExcl {
		s.maxExcl = n
	}
}

func (s *c41State) open(i int, opts JournalingStoreOptions) {
	rt := s.rt
	held := s.lockHeld()
	name := fmt.Sprintf("open[%d]{fail=%v,skip=%v}", i, opts.FailOnLockTimeout, opts.SkipLockFileTimeout)
	hd := s.newHandle(i)
	var mode chunks.ExclusiveAccessMode
	var err error
	do := func() { mode, err = hd.open(s.dir, opts) }
	if held {
		s.unchanged(name+" (contended)", do)
	} else {
		do()
	}
	switch {
	case held && opts.FailOnLockTimeout:
		if !errors.Is(err, ErrDatabaseLocked) {
			if err == nil {
				_ = hd.close()
			}
			rt.Fatalf("%s while the lock is held: err = %v, want ErrDatabaseLocked\nsteps: %s", name, err, strings.Join(s.ops, "; "))
		}
		s.opf("%s->locked", name)
		s.classes["failfast_refused"] = true
		return
	case err != nil:
		rt.Fatalf("%s: %v\nsteps: %s", name, err, strings.Join(s.ops, "; "))
	}
	if held && mode != chunks.ExclusiveAccessMode_ReadOnly {
		rt.Fatalf("%s while the lock is held: access mode %v, want ReadOnly\nsteps: %s", name, mode, strings.Join(s.ops, "; "))
	}
	if !held && mode != chunks.ExclusiveAccessMode_Exclusive {
		rt.Fatalf("%s while nobody holds the lock: access mode %v, want Exclusive\nsteps: %s", name, mode, strings.Join(s.ops, "; "))
	}
	s.slots[i] = &c41Slot{h: hd, excl: !held}
	s.opf("%s->%s", name, map[bool]string{true: "ro", false: "rw"}[held])
}

// use loads the handle (if not yet) and reads everything.
func (s *c41State) use(i int) {
	rt, sl := s.rt, s.slots[i]
	name := fmt.Sprintf("use[%d]", i)
	var root hash.Hash
	var v verifJView
	var err error
	firstLoad := !sl.loaded
	read := func() { root, v, err = sl.h.view(s.addrs) }
	if sl.excl {
		read()
	} else {
		s.unchanged(fmt.Sprintf("%s by a read-only handle (first load=%v, journal torn=%v, index not honest=%v)", name, firstLoad, s.dirty && s.tornSeed, s.dirty && s.idxNotClean), read)
	}
	if err != nil {
		rt.Fatalf("%s (exclusive=%v): %v\nsteps: %s", name, sl.excl, err, strings.Join(s.ops, "; "))
	}
	if firstLoad {
		sl.loaded, sl.loadedT = true, s.time
		if root != s.curRoot {
			rt.Fatalf("%s (exclusive=%v) loaded root %s, the last acknowledged root is %s\nsteps: %s", name, sl.excl, root, s.curRoot, strings.Join(s.ops, "; "))
		}
		sl.root = root
		if !sl.excl && s.lockHeld() && s.dirty {
			s.nontrivial = true
			if s.tornSeed {
				s.classes["ro_load_over_torn_tail"] = true
			}
			if s.idxNotClean {
				s.classes["ro_load_over_bad_index"] = true
			}
		}
		if sl.excl {
			s.dirty = false // recovery truncated the tail and rewrote the index
		}
	} else if root != sl.root {
		rt.Fatalf("%s: Root() moved from %s to %s without this handle committing or rebasing\nsteps: %s", name, sl.root, root, strings.Join(s.ops, "; "))
	}
	for _, a := range s.addrs {
		since, sum := s.since[a], s.chunkSum[a]
		got, has := v.get[a], v.has[a]
		switch {
		case since >= 0 && since <= sl.loadedT:
			if got != sum || has != "true" {
				rt.Fatalf("%s (exclusive=%v, loaded at t=%d): chunk %s durable since t=%d reads Has=%s Get=%s, want %s\nsteps: %s", name, sl.excl, sl.loadedT, verifJShort(a), since, has, got, sum, strings.Join(s.ops, "; "))
			}
		default:
			if !(got == "absent" && has == "false") && !(got == sum && has == "true") {
				rt.Fatalf("%s: chunk %s (not durable at this handle's load) reads Has=%s Get=%s, want absent or intact %s\nsteps: %s", name, verifJShort(a), has, got, sum, strings.Join(s.ops, "; "))
			}
		}
	}
	s.opf("%s", name)
}

func (s *c41State) write(i int) {
	rt, sl := s.rt, s.slots[i]
	name := fmt.Sprintf("write[%d]", i)
	if !sl.loaded {
		s.use(i)
	}
	leaf := chunks.NewChunk(append([]byte{0x12}, s.rng.bytes(20+s.rng.intn(200))...))
	root := chunks.NewChunk(verifJEncodeRefs([]hash.Hash{leaf.Hash(), sl.root}, s.rng.bytes(8)))
	var ok bool
	var err error
	do := func() { ok, err = sl.h.write(leaf, root, sl.root) }
	if !sl.excl {
		s.unchanged(name+" (Put+Commit through a read-only handle)", do)
		if ok && err == nil {
			rt.Fatalf("%s: Commit through a read-only handle reported success\nsteps: %s", name, strings.Join(s.ops, "; "))
		}
		s.classes["ro_write_refused"] = true
		s.opf("%s->refused", name)
		// the handle must still read
		if r, _, rerr := sl.h.view(nil); rerr != nil || r != sl.root {
			rt.Fatalf("%s: after the refused commit Root() = %s, %v (was %s)", name, r, rerr, sl.root)
		}
		return
	}
	do()
	if err != nil || !ok {
		rt.Fatalf("%s: Commit through the exclusive handle = %v, %v (last=%s)\nsteps: %s", name, ok, err, sl.root, strings.Join(s.ops, "; "))
	}
	s.time++
	for _, c := range []chunks.Chunk{leaf, root} {
		s.chunkSum[c.Hash()] = verifJSum(c.Data())
		s.since[c.Hash()] = s.time
		s.addrs = append(s.addrs, c.Hash())
	}
	// chunks the handle itself wrote are visible to it
	sl.root, s.curRoot = root.Hash(), root.Hash()
	sl.loadedT = s.time
	s.opf("%s->%s", name, verifJShort(root.Hash()))
}

func (s *c41State) prune(i int) {
	sl := s.slots[i]
	if sl.excl {
		return
	}
	if !sl.loaded {
		s.use(i)
	}
	name := fmt.Sprintf("prune[%d]", i)
	var err error
	s.unchanged(name+" through a read-only handle", func() { err = sl.h.prune() })
	if err == nil {
		s.rt.Fatalf("%s: PruneTableFiles through a read-only handle reported success\nsteps: %s", name, strings.Join(s.ops, "; "))
	}
	s.classes["ro_prune_refused"] = true
	s.opf("%s->refused", name)
}

func (s *c41State) close(i int) {
	sl := s.slots[i]
	name := fmt.Sprintf("close[%d]", i)
	var err error
	if sl.excl {
		err = sl.h.close()
	} else {
		s.unchanged(name+" of a read-only handle", func() { err = sl.h.close() })
	}
	if err != nil {
		s.rt.Fatalf("%s: %v\nsteps: %s", name, err, strings.Join(s.ops, "; "))
	}
	s.slots[i] = nil
	s.opf("%s", name)
}

func c41Case(rt *rapid.T, rec *vh.Recorder, base string, procs bool) {
	hdir := filepath.Join(base, "hist")
	_ = os.RemoveAll(hdir)
	bufSz := rapid.SampledFrom([]uint32{256 << 10, 256 << 10, 256 << 10, 8192, 5 << 20}).Draw(rt, "journalWriterBuffSize")
	defer verifJWithBufSize(bufSz)()
	h := verifJBuildHistory(rt, hdir, verifJHistCfg{minOps: 4, maxOps: 16, maxNovels: []int{1, 2, 4, 0}, smallMemtable: true})
	_ = os.RemoveAll(hdir)
	seed := rapid.Uint64().Draw(rt, "variantSeed")
	s := &c41State{rt: rt, rec: rec, h: h, dir: filepath.Join(base, "db"), chunkSum: map[hash.Hash]string{}, since: map[hash.Hash]int{}, classes: map[string]bool{}}
	s.rng = verifJMix(seed, 41)
	defer os.RemoveAll(s.dir)
	if !procs {
		s.newHandle = func(int) c41Handle { return &c41Local{} }
	} else {
		// one worker process per slot, started lazily, replaced after a kill
		var workers [3]*verifJProc
		defer func() {
			for _, w := range workers {
				if w != nil {
					w.kill()
				}
			}
		}()
		s.newHandle = func(i int) c41Handle {
			if workers[i] == nil {
				w, err := verifJSpawnWorker(s.dir, bufSz)
				if err != nil {
					vh.Inconclusive(rt, "cannot start worker process: %v", err)
				}
				workers[i] = w
			}
			return &c41Remote{p: workers[i]}
		}
		s.killSlot = func(i int) {
			if workers[i] != nil {
				workers[i].kill()
				workers[i] = nil
			}
		}
	}

	// ---- seed the directory
	n := int64(len(h.J))
	cut := n
	var tailB []byte
	tailKind := -1
	if rapid.IntRange(0, 9).Draw(rt, "torn") < 6 {
		first := h.acks[0].size
		cut = first + int64(rapid.IntRange(0, int(n-first)).Draw(rt, "cut"))
		tailKind = rapid.IntRange(0, c03NTails-1).Draw(rt, "tail")
		tailB = c03TailBytes(h.J, seed, cut, tailKind)
	}
	img := append(append([]byte{}, h.J[:cut]...), tailB...)
	for cut < n && cut < int64(len(img)) && img[cut] == h.J[cut] {
		cut++
	}
	s.tornSeed = int64(len(img)) != h.floorBoundary(cut)
	man, snapIdx := c03ManifestFor(h, cut, s.rng)
	idxKind := rapid.SampledFrom([]string{"honest_then", "absent", "final", "stale", "truncated", "random", "empty"}).Draw(rt, "idx")
	var idx []byte
	switch idxKind {
	case "honest_then":
		idx = h.snaps[snapIdx].idx
	case "absent":
	case "final":
		idx = h.finalIdx
	case "stale":
		idx = h.snaps[s.rng.intn(snapIdx+1)].idx
	case "truncated":
		if len(h.finalIdx) > 0 {
			idx = h.finalIdx[:s.rng.intn(len(h.finalIdx))]
		}
	case "random":
		idx = s.rng.bytes(1 + s.rng.intn(300))
	default:
		idx = []byte{}
	}
	honest := h.snaps[snapIdx].idx
	s.idxNotClean = idx == nil || !bytes.Equal(idx, honest)
	s.dirty = s.tornSeed || s.idxNotClean
	if err := verifJWriteImage(s.dir, img, man, idx); err != nil {
		vh.Inconclusive(rt, "cannot write image: %v", err)
	}
	var ackIdx int
	s.curRoot, ackIdx = h.expectedRootAt(cut)
	for _, a := range h.order {
		c := h.chunks[a]
		s.chunkSum[a] = verifJSum(c.data)
		if c.commit >= 0 && c.commit <= ackIdx {
			s.since[a] = 0
		} else {
			s.since[a] = -1
		}
	}
	s.addrs = h.sortedAddrs()
	tn := "clean"
	if tailKind >= 0 {
		tn = fmt.Sprintf("cut %d/%d+%s(%dB)", cut, n, c03TailNames[tailKind], len(tailB))
	}
	s.opf("seed{journal %s, idx %s(%dB), manifest@step%d; history: %d acks %d records maxNovel=%d bufSz=%d}", tn, idxKind, len(idx), snapIdx, len(h.acks), len(h.recs), h.maxNovel, h.bufSz)
	s.probe("seeding")

	// ---- schedule
	steps := rapid.IntRange(8, vh.N(24, 40)).Draw(rt, "steps")
	for k := 0; k < steps; k++ {
		i := rapid.IntRange(0, 2).Draw(rt, "slot")
		sl := s.slots[i]
		op := rapid.IntRange(0, 99).Draw(rt, "op")
		switch {
		case op < 8: // raw lock holder
			if s.raw != nil {
				_ = s.raw.Unlock()
				_ = s.raw.Close()
				s.raw = nil
				s.opf("raw-unlock")
			} else if !s.lockHeld() {
				l, _, err := newJournalLock(s.dir, 0, false)
				if err != nil || l == nil {
					rt.Fatalf("raw lock while nobody holds it: %v", err)
				}
				s.raw = l
				s.opf("raw-lock")
			}
		case sl == nil:
			o := rapid.IntRange(0, 9).Draw(rt, "opts")
			opts := JournalingStoreOptions{SkipLockFileTimeout: true}
			switch {
			case o < 5:
			case o < 7:
				opts.FailOnLockTimeout = true
			case o < 9:
				opts = JournalingStoreOptions{FailOnLockTimeout: true} // waits lockFileTimeout when contended
			default:
				opts = JournalingStoreOptions{} // waits lockFileTimeout when contended
			}
			s.open(i, opts)
		case op >= 92 && s.killSlot != nil:
			// kill -9 of the process behind this slot: its lock (if any) dies with it; nothing
			// it acknowledged may be lost, nothing is flushed on the way out
			s.killSlot(i)
			s.slots[i] = nil
			s.classes["killed_"+map[bool]string{true: "writer", false: "reader"}[sl.excl]] = true
			s.opf("kill9[%d]", i)
		case op < 45:
			s.use(i)
		case op < 70:
			s.write(i)
		case op < 78:
			s.prune(i)
		default:
			s.close(i)
		}
		s.probe(s.ops[len(s.ops)-1])
	}
	// ---- wind down: close everything, then a fresh opener must be exclusive and see the last acked root
	if s.raw != nil {
		_ = s.raw.Unlock()
		_ = s.raw.Close()
		s.raw = nil
	}
	for i := range s.slots {
		if s.slots[i] != nil {
			s.close(i)
		}
	}
	s.probe("closing all")
	s.open(0, JournalingStoreOptions{FailOnLockTimeout: true, SkipLockFileTimeout: true})
	if s.slots[0] == nil || !s.slots[0].excl {
		rt.Fatalf("after every holder closed, a new opener did not get exclusive mode\nsteps: %s", strings.Join(s.ops, "; "))
	}
	s.use(0)
	s.close(0)

	var cl []string
	for c := range s.classes {
		cl = append(cl, c)
	}
	cl = append(cl, "idx="+idxKind)
	if s.tornSeed {
		cl = append(cl, "torn_seed")
	}
	rec.Case(strings.Join(s.ops, "; "), s.nontrivial, cl...)
}

const c41RootlessRule = "directories whose manifest exists while the journal holds no complete root record: a rapid-drawn one-commit store (1..6 leaves + the first commit) whose journal is cut at 0, at every byte of its only root record, around every chunk record boundary and at seeded points inside the chunk records, with a seeded tail variant and journal.idx absent / as on disk; while a foreign holder has the LOCK the directory is opened without fail-fast (must be ReadOnly), loaded, read, written to (must be refused), closed — and opened with FailOnLockTimeout (must be ErrDatabaseLocked) — with the SHA-256 listing of the directory compared around every one of these actions. Non-trivial: the history has >= 2 records and cuts at 0, inside the root record and inside a chunk record were all exercised; distinct by op sequence + seed."

// c41RootlessCase: read-only opens of a journal without any complete root record.
func c41RootlessCase(rt *rapid.T, rec *vh.Recorder, base string) {
	hdir := filepath.Join(base, "hist1")
	_ = os.RemoveAll(hdir)
	bufSz := rapid.SampledFrom([]uint32{256 << 10, 256 << 10, 8192, 5 << 20}).Draw(rt, "journalWriterBuffSize")
	defer verifJWithBufSize(bufSz)()
	h := verifJBuildHistory(rt, hdir, verifJHistCfg{minOps: 0, maxOps: 0, maxNovels: []int{0, 0, 2}, firstPuts: 5})
	_ = os.RemoveAll(hdir)
	seed := rapid.Uint64().Draw(rt, "variantSeed")
	first := h.acks[0]
	man := h.snaps[first.snap].manifest
	if man == nil {
		rt.Fatalf("no manifest after the first commit")
	}
	var rootRec verifJRec
	for _, q := range h.recs {
		if q.off+q.n == first.size {
			rootRec = q
		}
	}
	cutSet := map[int64]bool{0: true}
	for c := rootRec.off; c < first.size; c++ {
		cutSet[c] = true
	}
	r := verifJMix(seed, 0x41)
	for _, q := range h.recs {
		for d := int64(-1); d <= 1; d++ {
			if c := q.off + d; c >= 0 && c < first.size {
				cutSet[c] = true
			}
		}
		if q.n > 2 && q.off+q.n <= rootRec.off {
			cutSet[q.off+1+int64(r.intn(int(q.n-1)))] = true
		}
	}
	for i := 0; i < 12 && rootRec.off > 0; i++ {
		cutSet[int64(r.intn(int(rootRec.off)))] = true
	}
	cuts := make([]int64, 0, len(cutSet))
	for c := range cutSet {
		cuts = append(cuts, c)
	}
	sort.Slice(cuts, func(i, j int) bool { return cuts[i] < cuts[j] })
	s := &c41State{rt: rt, rec: rec, h: h, dir: filepath.Join(base, "db1"), classes: map[string]bool{}}
	defer os.RemoveAll(s.dir)
	inRoot, inChunk := false, false
	images := 0
	for _, cut0 := range cuts {
		cut := cut0
		vr := verifJMix(seed, uint64(cut)+9)
		tail := vr.intn(c03NTails)
		tb := c03TailBytes(h.J, seed, cut, tail)
		img := append(append([]byte{}, h.J[:cut]...), tb...)
		for cut < int64(len(h.J)) && cut < int64(len(img)) && img[cut] == h.J[cut] {
			cut++
		}
		if cut >= first.size {
			continue // the root record became complete
		}
		var idx []byte
		if vr.intn(2) == 0 {
			idx = h.snaps[first.snap].idx
		}
		if err := verifJWriteImage(s.dir, img, man, idx); err != nil {
			vh.Inconclusive(rt, "cannot write image: %v", err)
		}
		images++
		what := fmt.Sprintf("journal without a complete root record (cut %d of the %d bytes of the first commit, root record at %d, tail %s %dB), manifest of the first commit present, lock held by a foreign holder", cut0, first.size, rootRec.off, c03TailNames[tail], len(tb))
		s.ops = []string{what}
		lock, _, err := newJournalLock(s.dir, 0, false)
		if err != nil || lock == nil {
			vh.Inconclusive(rt, "harness could not take the lock: %v", err)
		}
		func() {
			defer func() { _ = lock.Unlock(); _ = lock.Close() }()
			s.unchanged("fail-fast open", func() {
				st, err := verifJOpen(s.dir, JournalingStoreOptions{FailOnLockTimeout: true, SkipLockFileTimeout: true}, nil)
				if !errors.Is(err, ErrDatabaseLocked) {
					if st != nil {
						_ = st.Close()
					}
					rt.Fatalf("%s: fail-fast open = %v, want ErrDatabaseLocked", what, err)
				}
			})
			var st *NomsBlockStore
			s.unchanged("read-only fallback open", func() {
				st, err = verifJOpen(s.dir, JournalingStoreOptions{SkipLockFileTimeout: true}, nil)
			})
			if err != nil {
				rt.Fatalf("%s: open: %v", what, err)
			}
			if st.AccessMode() != chunks.ExclusiveAccessMode_ReadOnly {
				_ = st.Close()
				rt.Fatalf("%s: access mode %v, want ReadOnly", what, st.AccessMode())
			}
			var lerr error
			s.unchanged("load+read through the read-only handle", func() {
				if _, lerr = verifJLoad(st); lerr == nil {
					_, _ = verifJReadView(st, h.order, false)
				}
			})
			if lerr == nil {
				s.unchanged("Put+Commit through the read-only handle", func() {
					c := chunks.NewChunk(append([]byte{0x14}, vr.bytes(30)...))
					if perr := st.Put(verifJCtx, c, verifJGetAddrs); perr == nil {
						if ok, cerr := st.Commit(verifJCtx, c.Hash(), hash.Hash{}); ok && cerr == nil {
							rt.Fatalf("%s: Commit through a read-only handle reported success", what)
						}
					}
				})
			}
			s.unchanged("Close of the read-only handle", func() { _ = st.Close() })
		}()
		if cut0 > rootRec.off {
			inRoot = true
		} else if cut0 > 0 {
			inChunk = true
		}
	}
	rec.Evals(images)
	rec.Case(fmt.Sprintf("%s || first commit %d B, %d records, %d images, seed %x", h.opsString(), first.size, len(h.recs), images, seed), len(h.recs) >= 2 && inRoot && inChunk, fmt.Sprintf("bufSz=%d", bufSz))
}

func TestVerif_C41(t *testing.T) {
	rec := vh.NewRecorder("C41", "handles", "exploration", c41Rule,
		"in-process variant: separate store handles (separate open file descriptions of LOCK) stand for separate processes; kill -9 of a writer and real concurrency between processes are not modelled here",
		"the harness owns the schedule: no handle acts while another one is inside a call, so a read-only load sees exactly the last acknowledged root",
		"seeded indexes avoid corruptions confined to lookup offset/length or checksum-consistent forgeries (reported under C04)",
		"file modification times are not compared (content, size and names are)")
	defer rec.Write(t)
	base, cleanup := vh.ScratchDir(t, "c41-")
	defer cleanup()
	vh.Check(t, "handles", 70, 180, func(rt *rapid.T) { c41Case(rt, rec, base, false) })
	rec2 := vh.NewRecorder("C41", "ro_rootless", "exploration", c41RootlessRule,
		"what such a directory shows (root, chunks) is C03's business; here only access modes and byte-identity of the directory are asserted")
	defer rec2.Write(t)
	vh.Check(t, "ro_rootless", 6, 12, func(rt *rapid.T) { c41RootlessCase(rt, rec2, base) })
}

// TestVerif_C41_proc is the multi-process variant (thorough tier): the same schedules and
// oracle, but every slot is a separate worker process (this test binary re-executed), and a
// slot can be killed with SIGKILL.
func TestVerif_C41_proc(t *testing.T) {
	rec := vh.NewRecorder("C41", "processes", "exploration", "same generator and oracle as [handles], every slot being a separate OS process (the test binary re-executed as a worker, driven over pipes, one command at a time) plus kill -9 of a slot's process; the raw lock holder lives in the test process. Non-trivial as in [handles].",
		"the harness still owns the schedule (one command in flight at a time); true simultaneity of system calls between processes is not explored")
	defer rec.Write(t)
	base, cleanup := vh.ScratchDir(t, "c41p-")
	defer cleanup()
	vh.Check(t, "processes", 6, 8, func(rt *rapid.T) { c41Case(rt, rec, base, true) })
}
