package proc

// Pinned reproductions of the C36 findings. Each is a fixed build script that goes through the
// same dump / re-import / compare path as the generated cases. While a finding is listed "open"
// in known_findings.json its sub-test prints the KNOWN-FINDING line as long as it reproduces (the
// generator keeps exactly that shape out); once it is "fixed" (or if it was never listed) the
// sub-test is a plain regression test: a difference is a violation.

import (
	"fmt"
	"os"
	"strings"
	"testing"

	"github.com/dolthub/dolt/go/zzverif/vh"
)

type c36PinnedCase struct {
	id     string
	format string // "" = SQL dump; csv | json | parquet: file export + table import (build = schema + data)
	schema string // file formats: the CREATE TABLE part of build
	build  string
	tables map[string]string // table -> observation expression list
	frags  bool              // compare dolt_schemas
	what   string
}

var c36Pinned = []c36PinnedCase{
	{id: c36FBit, what: "BIT values are written as raw bytes into the INSERT statements (bit(8) 0x31 comes back as 1, most values do not parse)",
		build:  "CREATE TABLE t (pk int primary key, b8 bit(8), b64 bit(64));\nINSERT INTO t VALUES (1, b'00110001', 0x31), (2, 0x27, 0x5C27), (3, 0, 1);\n",
		tables: map[string]string{"t": "pk, HEX(b8), HEX(b64)"}},
	{id: c36FGeo, what: "spatial values are written as raw, unescaped bytes between quotes (POINT(11.5,112) contains 0x27 and 0x5C)",
		build:  "CREATE TABLE t (pk int primary key, p point, g geometry);\nINSERT INTO t VALUES (1, POINT(11.5,112), ST_GeomFromText('LINESTRING(0 0,11.5 1)')), (2, POINT(1,2), NULL);\n",
		tables: map[string]string{"t": "pk, HEX(ST_AsWKB(p)), HEX(ST_AsWKB(g))"}},
	{id: c36FYear, what: "YEAR 0000 is written as '0', which loads as 2000",
		build:  "CREATE TABLE t (pk int primary key, y year);\nINSERT INTO t VALUES (1, 0), (2, 2000), (3, 1901);\n",
		tables: map[string]string{"t": "pk, CAST(y AS CHAR), CAST(y+0 AS CHAR)"}},
	{id: c36FViewOrder, what: "views are written in name order; a view that selects from a view with a later name cannot be created on load",
		build:  "CREATE TABLE t (pk int primary key);\nINSERT INTO t VALUES (1);\nCREATE VIEW v_b AS SELECT pk FROM t;\nCREATE VIEW v_a AS SELECT * FROM v_b;\n",
		tables: map[string]string{"t": "pk"}, frags: true},
	{id: c36FTrigBlock, what: "a trigger with a BEGIN…END body is written without a DELIMITER change; `dolt sql` splits it at the first inner semicolon",
		build:  "CREATE TABLE t (pk int primary key, c int);\nINSERT INTO t VALUES (1, 1);\nDELIMITER //\nCREATE TRIGGER trg BEFORE INSERT ON t FOR EACH ROW BEGIN SET NEW.c = NEW.c + 1; SET NEW.c = NEW.c + 1; END//\nDELIMITER ;\n",
		tables: map[string]string{"t": "pk, c"}, frags: true},
	{id: c36FEnumDef, what: "SHOW CREATE TABLE (and therefore the dump) prints the DEFAULT of an ENUM/SET column as its numeric index in quotes; the CREATE TABLE is rejected on load",
		build:  "CREATE TABLE t (pk int primary key, e enum('x','y') DEFAULT 'y', s set('a','b') DEFAULT 'a,b');\nINSERT INTO t (pk) VALUES (1);\n",
		tables: map[string]string{"t": "pk, HEX(e), HEX(s)"}},
	{id: c36FViewCmt, what: "a view whose stored text ends in a `-- comment` is written as `<text>;` so the terminator is inside the comment",
		build:  "CREATE TABLE t (pk int primary key);\nINSERT INTO t VALUES (1);\nCREATE VIEW v_a AS SELECT pk FROM t -- tail\n;\nCREATE VIEW v_b AS SELECT pk FROM t;\n",
		tables: map[string]string{"t": "pk"}, frags: true},
	{id: c36FEarlyYear, what: "DATE/DATETIME values with a year below 1000 are written without zero padding ('1-01-01') and rejected on load",
		build:  "CREATE TABLE t (pk int primary key, d date, dt datetime(6));\nINSERT INTO t VALUES (1, '0001-01-01', '0001-01-01 00:00:01.999999'), (2, '0999-12-31', '1000-01-01 00:00:00');\n",
		tables: map[string]string{"t": "pk, CAST(d AS CHAR), CAST(dt AS CHAR)"}},
	{id: c36FJSONExp, format: "json", what: "`dolt table import` of a JSON file misreads numbers with an exponent (1e-07 is parsed as \"1e-007\"-like text by the jstream decoder: 'strconv.ParseFloat: parsing \"1e+221\"')",
		schema: "CREATE TABLE t (pk int primary key, d double, f float);\n",
		build:  "CREATE TABLE t (pk int primary key, d double, f float);\nINSERT INTO t VALUES (1, 1e-7, 1.5), (2, 1e22, 1e-7), (3, 0.5, 2);\n",
		tables: map[string]string{"t": "pk, CAST(d AS CHAR), CAST(f AS CHAR)"}},
	{id: c36FJSONLongText, format: "json", what: "JSON export writes a TEXT value that is stored out of line as its storage wrapper ({\"Addr\":[…],\"Buf\":null}) instead of the string; the import then fails",
		schema: "CREATE TABLE t (pk int primary key, tx longtext);\n",
		build:  "CREATE TABLE t (pk int primary key, tx longtext);\nINSERT INTO t VALUES (1, REPEAT('a''b\\\\', 1500)), (2, 'short');\n",
		tables: map[string]string{"t": "pk, HEX(tx)"}},
	{id: c36FJSONBlob, format: "json", what: "JSON export writes BLOB values as base64, the JSON import stores the base64 text",
		schema: "CREATE TABLE t (pk int primary key, b blob);\n",
		build:  "CREATE TABLE t (pk int primary key, b blob);\nINSERT INTO t VALUES (1, 'abc'), (2, 0x00FF);\n",
		tables: map[string]string{"t": "pk, HEX(b)"}},
	{id: c36FParquetNull, format: "parquet", what: "`dolt table import` of a parquet file panics on a NULL in a DECIMAL column (interface conversion: interface {} is nil, not string; parquet/reader.go)",
		schema: "CREATE TABLE t (pk int primary key, d decimal(10,2));\n",
		build:  "CREATE TABLE t (pk int primary key, d decimal(10,2));\nINSERT INTO t VALUES (1, 1.50), (2, NULL);\n",
		tables: map[string]string{"t": "pk, (d IS NULL), CAST(d AS CHAR)"}},
	{id: c36FFileGenerated, format: "csv", what: "csv/json/parquet exports contain generated columns and `dolt table import` then tries to write them ('The value specified for generated column … is not allowed')",
		schema: "CREATE TABLE t (pk int primary key, a int, g int GENERATED ALWAYS AS (a % 7) STORED);\n",
		build:  "CREATE TABLE t (pk int primary key, a int, g int GENERATED ALWAYS AS (a % 7) STORED);\nINSERT INTO t (pk, a) VALUES (1, 10), (2, NULL);\n",
		tables: map[string]string{"t": "pk, a, g"}},
	{id: c36FParquetDotted, format: "parquet", what: "`dolt table import` of a parquet file silently leaves out a column whose name contains '.' (every value becomes NULL)",
		schema: "CREATE TABLE t (pk int primary key, `c.d` int);\n",
		build:  "CREATE TABLE t (pk int primary key, `c.d` int);\nINSERT INTO t VALUES (1, 3), (2, 4);\n",
		tables: map[string]string{"t": "pk, `c.d`"}},
	{id: c36FParquetUint64, format: "parquet", what: "a BIGINT UNSIGNED value above the int64 range comes back from a parquet file as a negative number and the import rejects the row ('-1 out of range for bigint unsigned')",
		schema: "CREATE TABLE t (pk int primary key, u bigint unsigned);\n",
		build:  "CREATE TABLE t (pk int primary key, u bigint unsigned);\nINSERT INTO t VALUES (1, 18446744073709551615), (2, 9223372036854775807), (3, 0);\n",
		tables: map[string]string{"t": "pk, CAST(u AS CHAR)"}},
	{id: c36FFloatMax, what: "the largest FLOAT (float32) value is written as 3.4028235e+38, which the loader rejects as out of range",
		build:  "CREATE TABLE t (pk int primary key, f float);\nINSERT INTO t VALUES (1, 3.4028234e38), (2, -3.4028234e38), (3, 1.5);\n",
		tables: map[string]string{"t": "pk, CAST(f AS CHAR)"}},
}

func (p c36PinnedCase) fingerprint() (string, []string) {
	var b strings.Builder
	var names []string
	mark := func(n string) {
		names = append(names, n)
		fmt.Fprintf(&b, "SELECT '%s' AS m;\n", c36Mark)
	}
	mark("tables")
	b.WriteString("SHOW FULL TABLES;\n")
	var tn []string
	for t := range p.tables {
		tn = append(tn, t)
	}
	sortStrings(tn)
	for _, t := range tn {
		mark("schema of " + t)
		fmt.Fprintf(&b, "SHOW CREATE TABLE %s;\n", c36QuoteIdent(t))
		mark("rows of " + t)
		fmt.Fprintf(&b, "SELECT %s FROM %s;\n", p.tables[t], c36QuoteIdent(t))
	}
	if p.frags {
		mark("views and triggers")
		b.WriteString("SELECT `type`, `name`, HEX(`fragment`), `sql_mode` FROM dolt_schemas;\n")
	}
	return b.String(), names
}

func sortStrings(s []string) {
	for i := 1; i < len(s); i++ {
		for j := i; j > 0 && s[j] < s[j-1]; j-- {
			s[j], s[j-1] = s[j-1], s[j]
		}
	}
}

func TestVerif_C36_pinned(t *testing.T) {
	e := c36Setup(t)
	defer os.RemoveAll(e.root)
	// the pinned cases are independent (own repositories): they run in parallel; the group returns when all are done
	t.Run("all", func(t *testing.T) {
		for i, p := range c36Pinned {
			i, p := i, p
			t.Run(p.id, func(t *testing.T) {
				t.Parallel()
				c36RunPinned(t, e, i, p)
			})
		}
	})
}

func c36RunPinned(t *testing.T, e *c36Env, i int, p c36PinnedCase) {
	fp, names := p.fingerprint()
	// quick: one dump variant per case, rotating with the seed; thorough: both
	variants := []c36Variant{{}, {noBatch: true}}
	if !vh.Thorough() {
		variants = variants[(i+int(vh.BaseSeed()))%2:][:1]
	}
	if p.format != "" {
		variants = []c36Variant{{}}
	}
	for _, v := range variants {
		var viol, skipped string
		var err error
		how := "dump[" + v.String() + "]"
		if p.format != "" {
			how = "dump -r " + p.format + " + table import"
			var tables []string
			for tn := range p.tables {
				tables = append(tables, tn)
			}
			sortStrings(tables)
			viol, skipped, err = e.rawFormatRoundTrip(p.build, p.schema, tables, fp, names, p.format, false)
		} else {
			viol, skipped, err = e.rawRoundTrip(p.build, fp, names, v, false)
		}
		if err != nil {
			vh.Inconclusive(t, "child process trouble: %v", err)
		}
		if skipped != "" {
			vh.Inconclusive(t, "pinned build script of %s rejected: %s", p.id, skipped)
		}
		if viol == "" {
			if c36IsOpen(p.id) {
				t.Logf("%s is listed open but %s reproduces the pinned database", p.id, how)
			}
			continue
		}
		first := strings.SplitN(viol, "\n", 2)[0]
		if c36IsOpen(p.id) {
			vh.ReportKnown("C36", p.id, p.what+" — "+how+": "+first)
			return
		}
		vh.NoteViolation(t.Name(), "", fmt.Sprintf("%s: %s\n%s\n%s\n--- build script ---\n%s", p.id, p.what, how, viol, p.build))
		t.Errorf("C36 violated (pinned %s): %s\n%s\n--- build script ---\n%s", p.id, p.what, viol, p.build)
		return
	}
}
