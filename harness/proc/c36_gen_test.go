package proc

// C36 generators: schemas (1-4 tables over the supported column types, keys, indexes, foreign keys,
// checks, defaults, views, triggers) and hostile row values. Everything is drawn through rapid.
//
// A generated value is carried as the SQL literal that the *build* script uses. The oracle never
// compares dolt with this model: it compares the source database with the re-imported one, both
// observed through HEX()/CAST. The model is only needed to build a valid database and to classify
// the case (non-trivial rule, class histogram, known-finding shapes).

import (
	"encoding/hex"
	"encoding/json"
	"fmt"
	"math"
	"sort"
	"strconv"
	"strings"

	"pgregory.net/rapid"
)

type c36Val struct {
	lit  string   // SQL literal / expression for the INSERT of the build script
	key  string   // canonical identity for uniqueness bookkeeping ("" = type not usable in unique keys)
	null bool     // SQL NULL
	tags []string // value classes (str_quote_bs, bin_nul, …)
}

type c36Type struct {
	class   string // label for the histogram: "varchar", "bit", …
	ddl     string // type text of the column definition
	family  string // int | float | decimal | bit | year | enum | set | date | datetime | timestamp | time | bin | str | json | geo
	gen     func(rt *rapid.T, label string) c36Val
	obs     func(q string) []string                // observation expressions for quoted column q
	keyOK   bool                                   // may be part of a PRIMARY/UNIQUE key (equality == key equality)
	idxOK   bool                                   // may be part of a secondary index
	prefix  int                                    // > 0: index needs a prefix length (TEXT/BLOB)
	defs    []string                               // candidate DEFAULT clauses (without the keyword)
	onUpd   string                                 // optional ON UPDATE clause
	members []string                               // enum/set members
	hostile func(rt *rapid.T, label string) c36Val // str/bin types: a value that is sure to hold quote+backslash / a NUL byte
}

type c36Col struct {
	name    string
	typ     *c36Type
	notNull bool
	def     string // DEFAULT clause text ("" = none)
	onUpd   string
	comment string
	gen     string // generated column expression ("" = none)
	stored  bool
	fkRef   *c36FK
}

type c36FK struct {
	name     string
	parent   int // table index
	pcol     string
	onDelete string
	onUpdate string
}

type c36Index struct {
	name   string
	unique bool
	cols   []int
}

type c36Table struct {
	name     string
	cols     []c36Col
	autoPK   bool  // first column is `pk` <int> AUTO_INCREMENT PRIMARY KEY
	pkCols   []int // explicit primary key columns (empty + !autoPK = keyless)
	indexes  []c36Index
	checks   []string
	comment  string
	collate  string
	rows     [][]c36Val // per row one value per non-generated, non-auto column (see insertCols)
	delLast  int        // rows deleted from the end after the insert (moves the AUTO_INCREMENT counter past max+1)
	autoBump int        // explicit AUTO_INCREMENT= table option (0 = none)
}

type c36View struct {
	name string
	sql  string
	deps []string // names of views it selects from
}

type c36Trigger struct {
	name  string
	sql   string
	block bool // BEGIN … END body
}

type c36DB struct {
	tables   []c36Table
	views    []c36View
	triggers []c36Trigger
	commit   bool // CALL dolt_commit('-Am', …) at the end of the build
	bigRows  int  // > 0: an extra table `big_rows` with that many rows (the batched writer starts a new INSERT every 10000 rows)
}

func c36QuoteIdent(s string) string { return "`" + strings.ReplaceAll(s, "`", "``") + "`" }

// c36QuoteStr writes a string literal for the build script: only the three characters the SQL
// grammar needs escaped are escaped (the default sql_mode has backslash escapes on).
func c36QuoteStr(s string) string {
	var b strings.Builder
	b.WriteByte('\'')
	for i := 0; i < len(s); i++ {
		switch c := s[i]; c {
		case '\'':
			b.WriteString("''")
		case '\\':
			b.WriteString("\\\\")
		case 0:
			b.WriteString("\\0")
		default:
			b.WriteByte(c)
		}
	}
	b.WriteByte('\'')
	return b.String()
}

func c36Hex(b []byte) string {
	if len(b) == 0 {
		return "''"
	}
	return "0x" + hex.EncodeToString(b)
}

// ---------------------------------------------------------------------------------------------
// value generators

var c36StrPieces = []string{
	"'", "\"", "\\", "\x00", "\n", "\x1a", "%", "\\q", "\\\\", "\\'", "\\n", "\\0", "\\Z", "\\%", "\\_", "_",
	"\r", "\t", "\b", "é", "中", "😀", "ß", " ", "a", "B", "z9", ";", "--", "/*", "*/", "#", "`", "$", "''", "\"\"",
	"NULL", "0x41", "DELIMITER ;", "),(", "\\\"", " ", " ", "\x7f", "\x01",
}

var c36Latin1Pieces = []string{"'", "\"", "\\", "\n", "%", "\\q", "é", "ß", "ÿ", " ", "a", "B", ";", "\\'", "\x00", "\x1a"}

func c36StrTags(s string) []string {
	var t []string
	hasQ := strings.ContainsAny(s, "'\"")
	hasB := strings.Contains(s, "\\")
	if hasQ && hasB {
		t = append(t, "str_quote_bs")
	}
	if strings.Contains(s, "\x00") {
		t = append(t, "str_nul")
	}
	if strings.ContainsAny(s, "\n\r") {
		t = append(t, "str_newline")
	}
	if strings.Contains(s, "\x1a") {
		t = append(t, "str_ctrlZ")
	}
	if s == "" {
		t = append(t, "str_empty")
	}
	if strings.Contains(s, "\r") {
		t = append(t, "str_cr")
	}
	if len(s) > 2000 {
		t = append(t, "str_long")
	}
	for _, r := range s {
		if r > 0xffff {
			t = append(t, "str_4byte")
			break
		}
	}
	return t
}

func c36GenString(rt *rapid.T, label string, maxRunes int, pieces []string) string {
	n := rapid.IntRange(0, 7).Draw(rt, label+".npieces")
	var b strings.Builder
	runes := 0
	for i := 0; i < n; i++ {
		p := pieces[rapid.IntRange(0, len(pieces)-1).Draw(rt, label+".piece")]
		pr := len([]rune(p))
		if runes+pr > maxRunes {
			continue
		}
		runes += pr
		b.WriteString(p)
	}
	return b.String()
}

func c36StrType(class, ddl string, maxRunes int, pieces []string, keyOK bool, prefix int) *c36Type {
	t := &c36Type{class: class, ddl: ddl, family: "str", keyOK: keyOK, idxOK: true, prefix: prefix}
	t.gen = func(rt *rapid.T, label string) c36Val {
		var s string
		if maxRunes >= 3000 && rapid.IntRange(0, 11).Draw(rt, label+".long") == 0 {
			// a long value: stored out of line for TEXT types
			unit := c36GenString(rt, label+".unit", 12, pieces) + "x"
			s = strings.Repeat(unit, 2500/len([]rune(unit)))
		} else {
			s = c36GenString(rt, label, maxRunes, pieces)
		}
		return c36Val{lit: c36QuoteStr(s), key: "s:" + s, tags: c36StrTags(s)}
	}
	t.obs = func(q string) []string { return []string{"HEX(" + q + ")", "CHAR_LENGTH(" + q + ")"} }
	if maxRunes >= 4 {
		t.hostile = func(rt *rapid.T, label string) c36Val {
			tail := []string{"'\\", "\\'", "\"\\q", "\\\\'", "'\\\x00"}[rapid.IntRange(0, 4).Draw(rt, label+".tail")]
			s := c36GenString(rt, label, maxRunes-3, pieces) + tail
			return c36Val{lit: c36QuoteStr(s), key: "s:" + s, tags: c36StrTags(s)}
		}
	}
	if prefix == 0 {
		t.defs = []string{"'it''s'", "''", "'a\\\\b'", "'\"q\"'", "'é'"}
		if maxRunes < 6 {
			t.defs = []string{"''", "'a''b'", "'é'"}
		}
		if maxRunes < 3 {
			t.defs = []string{"''", "'x'"}
		}
	} else {
		t.defs = []string{"('a''b')", "('')"}
	}
	return t
}

var c36BinBytes = []byte{0x00, 0x27, 0x22, 0x5c, 0x0a, 0x0d, 0x1a, 0x25, 0xff, 0x80, 0x31, 0x71, 0x08, 0x09, 0x5f, 0xc3, 0x20, 0x60}

func c36GenBytes(rt *rapid.T, label string, max int) []byte {
	if max >= 256 && rapid.IntRange(0, 9).Draw(rt, label+".all256") == 0 {
		b := make([]byte, 256)
		for i := range b {
			b[i] = byte(i)
		}
		return b
	}
	if max >= 6000 && rapid.IntRange(0, 11).Draw(rt, label+".long") == 0 {
		unit := c36GenBytes(rt, label+".unit", 9)
		unit = append(unit, 0x00, 0xfe)
		var b []byte
		for len(b) < 5000 {
			b = append(b, unit...)
		}
		return b
	}
	lim := max
	if lim > 12 {
		lim = 12
	}
	n := rapid.IntRange(0, lim).Draw(rt, label+".len")
	b := make([]byte, n)
	for i := range b {
		if rapid.IntRange(0, 3).Draw(rt, label+".menu") > 0 {
			b[i] = c36BinBytes[rapid.IntRange(0, len(c36BinBytes)-1).Draw(rt, label+".b")]
		} else {
			b[i] = byte(rapid.IntRange(0, 255).Draw(rt, label+".any"))
		}
	}
	return b
}

func c36BinTags(b []byte) []string {
	var t []string
	has := func(c byte) bool { return strings.IndexByte(string(b), c) >= 0 }
	if has(0) {
		t = append(t, "bin_nul")
	}
	if has(0x27) || has(0x5c) {
		t = append(t, "bin_quote_bs")
	}
	if len(b) == 0 {
		t = append(t, "bin_empty")
	}
	if len(b) == 256 {
		t = append(t, "bin_all256")
	}
	if len(b) > 4000 {
		t = append(t, "bin_long")
	}
	for _, c := range b {
		if c >= 0x80 {
			t = append(t, "bin_high")
			break
		}
	}
	return t
}

func c36BinType(class, ddl string, max int, fixed bool, prefix int) *c36Type {
	t := &c36Type{class: class, ddl: ddl, family: "bin", keyOK: prefix == 0, idxOK: true, prefix: prefix}
	t.gen = func(rt *rapid.T, label string) c36Val {
		b := c36GenBytes(rt, label, max)
		stored := b
		if fixed {
			stored = append(append([]byte{}, b...), make([]byte, max-len(b))...)
		}
		lit := c36Hex(b)
		if rapid.IntRange(0, 3).Draw(rt, label+".quoted") == 0 {
			lit = c36QuoteStr(string(b)) // the same bytes as a quoted literal (bytes >= 0x80 included)
		}
		return c36Val{lit: lit, key: "b:" + string(stored), tags: c36BinTags(stored)}
	}
	t.obs = func(q string) []string { return []string{"HEX(" + q + ")", "LENGTH(" + q + ")"} }
	t.hostile = func(rt *rapid.T, label string) c36Val {
		b := append([]byte{}, c36GenBytes(rt, label, c36min(max-1, 10))...)
		if len(b) > 12 {
			b = b[:12]
		}
		pos := rapid.IntRange(0, len(b)).Draw(rt, label+".nulpos")
		b = append(b[:pos], append([]byte{0}, b[pos:]...)...)
		stored := b
		if fixed {
			stored = append(append([]byte{}, b...), make([]byte, max-len(b))...)
		}
		return c36Val{lit: c36Hex(b), key: "b:" + string(stored), tags: c36BinTags(stored)}
	}
	if prefix == 0 {
		t.defs = []string{"0x00FF", "''", "'a''b'"}
		if fixed && max < 3 {
			t.defs = []string{"0x00", "''"}
		}
	} else {
		t.defs = []string{"(0x00FF27)", "('')"}
	}
	return t
}

type c36IntSpec struct {
	name     string
	min, max string
	unsigned bool
}

var c36IntSpecs = []c36IntSpec{
	{"tinyint", "-128", "127", false}, {"tinyint unsigned", "0", "255", true},
	{"smallint", "-32768", "32767", false}, {"smallint unsigned", "0", "65535", true},
	{"mediumint", "-8388608", "8388607", false}, {"mediumint unsigned", "0", "16777215", true},
	{"int", "-2147483648", "2147483647", false}, {"int unsigned", "0", "4294967295", true},
	{"bigint", "-9223372036854775808", "9223372036854775807", false}, {"bigint unsigned", "0", "18446744073709551615", true},
}

func c36IntType(sp c36IntSpec) *c36Type {
	t := &c36Type{class: strings.Fields(sp.name)[0], ddl: sp.name, family: "int", keyOK: true, idxOK: true}
	if sp.unsigned {
		t.class += "_u"
	}
	t.gen = func(rt *rapid.T, label string) c36Val {
		var s string
		switch rapid.IntRange(0, 5).Draw(rt, label+".kind") {
		case 0:
			s = sp.min
		case 1:
			s = sp.max
		case 2:
			s = "0"
		default:
			lo := -100
			if sp.unsigned {
				lo = 0
			}
			s = fmt.Sprint(rapid.IntRange(lo, 120).Draw(rt, label+".v"))
		}
		var tags []string
		if s == "18446744073709551615" {
			tags = append(tags, "uint_gt_int64")
		}
		return c36Val{lit: s, key: "i:" + s, tags: tags}
	}
	t.obs = func(q string) []string { return []string{"CAST(" + q + " AS CHAR)"} }
	t.defs = []string{"0", "'7'", sp.max}
	return t
}

func c36FloatType(double bool) *c36Type {
	t := &c36Type{class: "float", ddl: "float", family: "float", idxOK: true}
	menu := []string{"0e0", "-0e0", "1.5e0", "-1.25e-5", "3.4028234e38", "-3.4028234e38", "1e-45", "1.17549435e-38", "0.1e0", "16777217e0", "123456.789e0", "1e15", "-1e0*0", "3.3333333e0", "1e-7", "9.999999e6", "1e7", "1e21"}
	if double {
		t.class, t.ddl = "double", "double"
		menu = append(menu, "1.7976931348623157e308", "-1.7976931348623157e308", "4.9e-324", "2.2250738585072014e-308", "9007199254740993e0", "0.30000000000000004e0", "1e22", "1e-5", "123456789012345678e0")
	}
	t.gen = func(rt *rapid.T, label string) c36Val {
		s := menu[rapid.IntRange(0, len(menu)-1).Draw(rt, label+".f")]
		var tags []string
		if strings.HasPrefix(s, "-0e0") || strings.HasPrefix(s, "-1e0*0") {
			tags = append(tags, "float_negzero")
		}
		if !double && strings.HasSuffix(s, "3.4028234e38") {
			tags = append(tags, "float32_max")
		}
		if f, err := strconv.ParseFloat(strings.TrimSuffix(s, "*0"), 64); err == nil {
			if a := math.Abs(f); a != 0 && (a < 1e-6 || a >= 1e21) {
				tags = append(tags, "float_exponent") // written with an exponent by encoding/json
			}
		}
		return c36Val{lit: s, tags: tags}
	}
	// the sign of a zero is only visible through ATAN2(x,-1) (pi for +0, -pi for -0)
	t.obs = func(q string) []string {
		return []string{"CAST(" + q + " AS CHAR)", "CAST(ATAN2(" + q + ",-1) AS CHAR)", "CAST(" + q + "*3 AS CHAR)"}
	}
	t.defs = []string{"1.5", "0", "-2.5e-3"}
	return t
}

func c36DecimalType(p, s int) *c36Type {
	t := &c36Type{class: fmt.Sprintf("decimal(%d,%d)", p, s), ddl: fmt.Sprintf("decimal(%d,%d)", p, s), family: "decimal", idxOK: true, keyOK: true}
	mk := func(intDigits, fracDigits string) string {
		if s == 0 {
			if intDigits == "" {
				return "0"
			}
			return intDigits
		}
		if intDigits == "" {
			intDigits = "0"
		}
		return intDigits + "." + fracDigits
	}
	max := mk(strings.Repeat("9", p-s), strings.Repeat("9", s))
	one := "1"
	tiny := mk("", strings.Repeat("0", c36max(s-1, 0))+"1")
	t.gen = func(rt *rapid.T, label string) c36Val {
		var v string
		switch rapid.IntRange(0, 6).Draw(rt, label+".kind") {
		case 0:
			v = max
		case 1:
			v = "-" + max
		case 2:
			v = mk("", strings.Repeat("0", s))
		case 3:
			v = tiny
		case 4:
			v = "-" + tiny
		default:
			if p-s >= 1 {
				v = one
				if p-s >= 2 {
					v = fmt.Sprint(rapid.IntRange(-99, 99).Draw(rt, label+".v"))
				}
				if s > 0 {
					v += "." + strings.Repeat("5", c36min(s, 2))
				}
			} else {
				v = "0." + strings.Repeat("5", s)
			}
		}
		var tags []string
		// digits of the unscaled integer (value * 10^scale), which is what the parquet writer converts
		if len(strings.TrimLeft(strings.NewReplacer("-", "", ".", "").Replace(c36CanonDecimal(v, s)), "0")) > 15 {
			tags = append(tags, "decimal_gt15digits")
		}
		return c36Val{lit: v, key: "d:" + c36CanonDecimal(v, s), tags: tags}
	}
	t.obs = func(q string) []string { return []string{"CAST(" + q + " AS CHAR)"} }
	if p-s >= 1 {
		t.defs = []string{"0", "1"}
	} else {
		t.defs = []string{"0"}
	}
	return t
}

func c36CanonDecimal(v string, scale int) string {
	neg := strings.HasPrefix(v, "-")
	v = strings.TrimPrefix(v, "-")
	ip, fp, _ := strings.Cut(v, ".")
	ip = strings.TrimLeft(ip, "0")
	for len(fp) < scale {
		fp += "0"
	}
	if strings.Trim(ip+fp, "0") == "" {
		neg = false
	}
	r := ip + "." + fp
	if neg {
		r = "-" + r
	}
	return r
}

func c36min(a, b int) int {
	if a < b {
		return a
	}
	return b
}
func c36max(a, b int) int {
	if a > b {
		return a
	}
	return b
}

func c36BitType(n int) *c36Type {
	t := &c36Type{class: "bit", ddl: fmt.Sprintf("bit(%d)", n), family: "bit", idxOK: true, keyOK: true}
	t.gen = func(rt *rapid.T, label string) c36Val {
		var v uint64
		switch rapid.IntRange(0, 4).Draw(rt, label+".kind") {
		case 0:
			v = 0
		case 1:
			v = ^uint64(0)
		case 2: // bytes that look like SQL tokens when written raw: '1', '\'', '\\', 'q'
			v = []uint64{0x31, 0x27, 0x5c, 0x3132, 0x71, 0x2c, 0x29, 0x4e554c4c}[rapid.IntRange(0, 7).Draw(rt, label+".tok")]
		default:
			v = rapid.Uint64().Draw(rt, label+".v")
		}
		if n < 64 {
			v &= (uint64(1) << uint(n)) - 1
		}
		return c36Val{lit: fmt.Sprintf("%d", v), key: fmt.Sprintf("bit:%d", v), tags: []string{"bit_value"}}
	}
	t.obs = func(q string) []string { return []string{"HEX(" + q + ")", "CAST(" + q + "+0 AS CHAR)"} }
	t.defs = []string{"b'1'", "b'0'"}
	return t
}

func c36YearType() *c36Type {
	t := &c36Type{class: "year", ddl: "year", family: "year", idxOK: true, keyOK: true}
	t.gen = func(rt *rapid.T, label string) c36Val {
		v := []string{"0", "1901", "2155", "2000", "1999", "'0'", "'69'", "70", "2024"}[rapid.IntRange(0, 8).Draw(rt, label+".y")]
		var tags []string
		if v == "0" {
			tags = append(tags, "year_zero")
		}
		k := map[string]string{"0": "0", "'0'": "2000", "'69'": "2069", "70": "1970"}[v]
		if k == "" {
			k = v
		}
		return c36Val{lit: v, key: "y:" + k, tags: tags}
	}
	t.obs = func(q string) []string { return []string{"CAST(" + q + " AS CHAR)", "CAST(" + q + "+0 AS CHAR)"} }
	t.defs = []string{"2000", "'1999'"}
	return t
}

var c36EnumPool = []string{"a'b", "c\"d", "x y", "é", "", "%", "q,r", "new\nline", "A", "a", "it''s", "中", "1", "2", "NULL", "z;", "tab\there", "#h", "`bt`", "(p)"}
var c36SetPool = []string{"a'b", "c\"d", "x y", "é", "%", "A", "b", "it''s", "中", "1", "z;", "#h", "(p)", "new\nline"}

func c36DrawMembers(rt *rapid.T, label string, pool []string, max int) []string {
	n := rapid.IntRange(1, max).Draw(rt, label+".nmembers")
	seen := map[string]bool{}
	var out []string
	for i := 0; i < n; i++ {
		m := pool[rapid.IntRange(0, len(pool)-1).Draw(rt, label+".member")]
		// members are compared under the column collation; keep them distinct ignoring case
		k := strings.ToLower(m)
		if seen[k] {
			continue
		}
		seen[k] = true
		out = append(out, m)
	}
	return out
}

func c36MemberList(ms []string) string {
	q := make([]string, len(ms))
	for i, m := range ms {
		q[i] = c36QuoteStr(m)
	}
	return strings.Join(q, ",")
}

func c36EnumType(rt *rapid.T, label string) *c36Type {
	ms := c36DrawMembers(rt, label, c36EnumPool, 6)
	t := &c36Type{class: "enum", ddl: "enum(" + c36MemberList(ms) + ")", family: "enum", idxOK: true, keyOK: true, members: ms}
	t.gen = func(rt *rapid.T, label string) c36Val {
		i := rapid.IntRange(0, len(ms)-1).Draw(rt, label+".member")
		var tags []string
		if strings.ContainsAny(ms[i], "'\"") {
			tags = append(tags, "enum_quote")
		}
		if ms[i] == "" {
			tags = append(tags, "str_empty")
		}
		if strings.Contains(ms[i], "\r") {
			tags = append(tags, "str_cr")
		}
		return c36Val{lit: c36QuoteStr(ms[i]), key: fmt.Sprintf("e:%d", i), tags: tags}
	}
	t.obs = func(q string) []string { return []string{"HEX(" + q + ")", "CAST(" + q + "+0 AS CHAR)"} }
	t.defs = []string{c36QuoteStr(ms[0])}
	return t
}

func c36SetType(rt *rapid.T, label string) *c36Type {
	ms := c36DrawMembers(rt, label, c36SetPool, 6)
	t := &c36Type{class: "set", ddl: "set(" + c36MemberList(ms) + ")", family: "set", idxOK: true, members: ms}
	t.gen = func(rt *rapid.T, label string) c36Val {
		mask := rapid.IntRange(0, (1<<uint(len(ms)))-1).Draw(rt, label+".mask")
		var sel []string
		for i, m := range ms {
			if mask&(1<<uint(i)) != 0 {
				sel = append(sel, m)
			}
		}
		var tags []string
		if mask == 0 {
			tags = append(tags, "set_empty")
		}
		return c36Val{lit: c36QuoteStr(strings.Join(sel, ",")), tags: tags}
	}
	t.obs = func(q string) []string { return []string{"HEX(" + q + ")", "CAST(" + q + "+0 AS CHAR)"} }
	t.defs = []string{c36QuoteStr(ms[0]), "''"}
	return t
}

func c36Frac(rt *rapid.T, label string, prec int) string {
	if prec == 0 {
		return ""
	}
	f := []string{"000000", "999999", "000001", "500000", "123456", "100000"}[rapid.IntRange(0, 5).Draw(rt, label+".frac")]
	return "." + f[:prec]
}

func c36DateStr(rt *rapid.T, label string, zeroOK bool) string {
	menu := []string{"1000-01-01", "9999-12-31", "2024-02-29", "1970-01-01", "1969-12-31", "2038-01-19", "0001-01-01", "1582-10-10", "2000-02-29", "1900-03-01"}
	if zeroOK {
		menu = append(menu, "0000-00-00")
	}
	if rapid.IntRange(0, 2).Draw(rt, label+".menu") > 0 {
		return menu[rapid.IntRange(0, len(menu)-1).Draw(rt, label+".d")]
	}
	return fmt.Sprintf("%04d-%02d-%02d", rapid.IntRange(1000, 9999).Draw(rt, label+".yy"), rapid.IntRange(1, 12).Draw(rt, label+".mm"), rapid.IntRange(1, 28).Draw(rt, label+".dd"))
}

func c36DateType() *c36Type {
	t := &c36Type{class: "date", ddl: "date", family: "date", idxOK: true, keyOK: true}
	t.gen = func(rt *rapid.T, label string) c36Val {
		d := c36DateStr(rt, label, true)
		var tags []string
		if d == "0000-00-00" {
			tags = append(tags, "date_zero")
		}
		if strings.HasPrefix(d, "0001-") {
			tags = append(tags, "date_year_lt_1000")
		}
		return c36Val{lit: "'" + d + "'", key: "dt:" + d, tags: tags}
	}
	t.obs = func(q string) []string { return []string{"CAST(" + q + " AS CHAR)"} }
	t.defs = []string{"'2020-01-01'"}
	return t
}

func c36DatetimeType(prec int, timestamp bool) *c36Type {
	name := "datetime"
	if timestamp {
		name = "timestamp"
	}
	ddl := name
	if prec > 0 {
		ddl = fmt.Sprintf("%s(%d)", name, prec)
	}
	t := &c36Type{class: ddl, ddl: ddl, family: name, idxOK: true, keyOK: true}
	t.gen = func(rt *rapid.T, label string) c36Val {
		var d, tm string
		if timestamp {
			d = []string{"1970-01-02", "2038-01-18", "2024-02-29", "2001-09-09", "2026-03-29", "2025-10-26"}[rapid.IntRange(0, 5).Draw(rt, label+".d")]
		} else {
			d = c36DateStr(rt, label, false)
		}
		tm = []string{"00:00:00", "23:59:59", "12:34:56", "01:30:00", "02:30:00", "00:00:01"}[rapid.IntRange(0, 5).Draw(rt, label+".t")]
		s := d + " " + tm + c36Frac(rt, label, prec)
		var tags []string
		if strings.HasPrefix(d, "0001-") {
			tags = append(tags, "date_year_lt_1000")
		}
		if !timestamp && rapid.IntRange(0, 14).Draw(rt, label+".zero") == 0 {
			s = "0000-00-00 00:00:00"
			tags = []string{"datetime_zero"}
		}
		return c36Val{lit: "'" + s + "'", key: "ts:" + s, tags: tags}
	}
	t.obs = func(q string) []string { return []string{"CAST(" + q + " AS CHAR)"} }
	cur := "CURRENT_TIMESTAMP"
	if prec > 0 {
		cur = fmt.Sprintf("CURRENT_TIMESTAMP(%d)", prec)
	}
	t.defs = []string{cur, "'2020-01-01 00:00:00'"}
	t.onUpd = cur
	return t
}

func c36TimeType(prec int) *c36Type {
	ddl := "time"
	if prec > 0 {
		ddl = fmt.Sprintf("time(%d)", prec)
	}
	t := &c36Type{class: ddl, ddl: ddl, family: "time", idxOK: true, keyOK: true}
	t.gen = func(rt *rapid.T, label string) c36Val {
		base := []string{"00:00:00", "-838:59:59", "838:59:59", "12:34:56", "-00:00:01", "23:59:59", "100:00:00", "-01:02:03"}[rapid.IntRange(0, 7).Draw(rt, label+".t")]
		fr := ""
		if !strings.Contains(base, "838") {
			fr = c36Frac(rt, label, prec)
		}
		return c36Val{lit: "'" + base + fr + "'", key: "tm:" + base + fr}
	}
	t.obs = func(q string) []string { return []string{"CAST(" + q + " AS CHAR)"} }
	t.defs = []string{"'12:00:00'"}
	return t
}

// JSON documents

func c36JSONString(s string) string {
	var b strings.Builder
	enc := json.NewEncoder(&b)
	enc.SetEscapeHTML(false)
	_ = enc.Encode(s)
	return strings.TrimSuffix(b.String(), "\n")
}

var c36JSONKeys = []string{"a", "k'q", "k\"q", "é", "", "b\\s", "中", "A", "a b", "😀", "$", "k.1", "0"}
var c36JSONNums = []string{"0", "-1", "1.5", "1.0", "1e100", "9007199254740993", "18446744073709551615", "-9223372036854775808", "0.1", "-0.0", "1E-7", "123456789012345678901234567890", "3.0e0"}

func c36GenJSON(rt *rapid.T, label string, depth int) string {
	k := rapid.IntRange(0, 9).Draw(rt, label+".kind")
	if depth >= 2 && k >= 7 {
		k = 0
	}
	switch {
	case k <= 2:
		return c36JSONString(c36GenString(rt, label+".s", 20, c36StrPieces))
	case k == 3:
		return c36JSONNums[rapid.IntRange(0, len(c36JSONNums)-1).Draw(rt, label+".num")]
	case k == 4:
		return []string{"true", "false", "null"}[rapid.IntRange(0, 2).Draw(rt, label+".lit")]
	case k == 5:
		return []string{"{}", "[]", "\"\"", "[[]]", "{\"a\":{}}"}[rapid.IntRange(0, 4).Draw(rt, label+".empty")]
	case k == 6 || k == 7:
		n := rapid.IntRange(0, 3).Draw(rt, label+".alen")
		parts := make([]string, n)
		for i := range parts {
			parts[i] = c36GenJSON(rt, fmt.Sprintf("%s[%d]", label, i), depth+1)
		}
		return "[" + strings.Join(parts, ",") + "]"
	default:
		n := rapid.IntRange(1, 3).Draw(rt, label+".olen")
		seen := map[string]bool{}
		var parts []string
		for i := 0; i < n; i++ {
			key := c36JSONKeys[rapid.IntRange(0, len(c36JSONKeys)-1).Draw(rt, label+".key")]
			if seen[key] {
				continue
			}
			seen[key] = true
			parts = append(parts, c36JSONString(key)+":"+c36GenJSON(rt, label+"."+key, depth+1))
		}
		return "{" + strings.Join(parts, ",") + "}"
	}
}

func c36JSONType() *c36Type {
	t := &c36Type{class: "json", ddl: "json", family: "json"}
	t.gen = func(rt *rapid.T, label string) c36Val {
		doc := c36GenJSON(rt, label, 0)
		tags := []string{}
		for _, r := range doc {
			if r > 0x7f {
				tags = append(tags, "json_unicode")
				break
			}
		}
		if strings.Contains(doc, "\\\\") || strings.Contains(doc, "\\\"") {
			tags = append(tags, "json_escapes")
		}
		if doc == "null" {
			tags = append(tags, "json_null_literal")
		}
		if !strings.HasPrefix(doc, "{") && !strings.HasPrefix(doc, "[") {
			tags = append(tags, "json_scalar_top")
		}
		if strings.Contains(doc, "1e100") || strings.Contains(doc, "1E-7") || strings.Contains(doc, "123456789012345678901234567890") {
			tags = append(tags, "json_exponent_number")
		}
		return c36Val{lit: c36QuoteStr(doc), tags: tags}
	}
	t.obs = func(q string) []string {
		return []string{"HEX(CAST(" + q + " AS CHAR))", "JSON_TYPE(" + q + ")"}
	}
	t.defs = []string{"('{\"a\": 1}')", "('[]')"}
	return t
}

// spatial values. The coordinates are chosen so that the serialized form (SRID + WKB) contains the
// bytes 0x27 / 0x5c in some values and not in others: 11.5 = 0x4027000000000000, 112 = 0x405C000000000000.
var c36Coords = []string{"0", "1", "-2", "1.5", "11.5", "112", "-11.5", "1e-300", "7.2e22", "123.456", "-180", "90", "0.1", "47", "92"}

func c36Coord(rt *rapid.T, label string) string {
	return c36Coords[rapid.IntRange(0, len(c36Coords)-1).Draw(rt, label)]
}

func c36GeoType(kind string) *c36Type {
	t := &c36Type{class: kind, ddl: kind, family: "geo"}
	t.gen = func(rt *rapid.T, label string) c36Val {
		k := kind
		if k == "geometry" {
			k = []string{"point", "linestring", "polygon"}[rapid.IntRange(0, 2).Draw(rt, label+".gk")]
		}
		var wkt string
		var coords []string
		pt := func(l string) string {
			x, y := c36Coord(rt, l+".x"), c36Coord(rt, l+".y")
			coords = append(coords, x, y)
			return x + " " + y
		}
		switch k {
		case "point":
			wkt = "POINT(" + pt(label) + ")"
		case "linestring":
			n := rapid.IntRange(2, 4).Draw(rt, label+".n")
			ps := make([]string, n)
			for i := range ps {
				ps[i] = pt(fmt.Sprintf("%s.p%d", label, i))
			}
			wkt = "LINESTRING(" + strings.Join(ps, ",") + ")"
		default:
			a := pt(label + ".a")
			wkt = "POLYGON((" + a + "," + pt(label+".b") + "," + pt(label+".c") + "," + a + "))"
		}
		tags := []string{"geo_value"}
		for _, c := range coords {
			if c == "11.5" || c == "112" || c == "-11.5" {
				tags = append(tags, "geo_quote_bs_byte")
				break
			}
		}
		lit := "ST_GeomFromText('" + wkt + "')"
		if rapid.IntRange(0, 3).Draw(rt, label+".srid") == 0 {
			// SRID 4326 = bytes E6 10 00 00; axis order lat,long: keep coordinates in range
			ok := true
			for _, c := range coords {
				switch c {
				case "112", "7.2e22", "123.456", "-180", "92":
					ok = false
				}
			}
			if ok {
				lit = "ST_GeomFromText('" + wkt + "', 4326)"
				tags = append(tags, "geo_srid")
			}
		}
		return c36Val{lit: lit, tags: tags}
	}
	t.obs = func(q string) []string {
		return []string{"HEX(ST_AsWKB(" + q + "))", "CAST(ST_SRID(" + q + ") AS CHAR)"}
	}
	return t
}

// c36DrawType draws a column type. Weights lean to the types with hostile textual forms.
func c36DrawType(rt *rapid.T, label string) *c36Type { return c36DrawTypeIn(rt, label, 0, 39) }

// c36DrawTypeIn draws from a sub-range of the type menu (0-8 character strings, 9-15 binary strings).
func c36DrawTypeIn(rt *rapid.T, label string, lo, hi int) *c36Type {
	switch k := rapid.IntRange(lo, hi).Draw(rt, label+".type"); {
	case k <= 3:
		n := []int{5, 40, 255, 1000}[rapid.IntRange(0, 3).Draw(rt, label+".vlen")]
		switch rapid.IntRange(0, 5).Draw(rt, label+".coll") {
		case 0:
			return c36StrType("varchar_ci", fmt.Sprintf("varchar(%d) COLLATE utf8mb4_0900_ai_ci", n), n, c36StrPieces, false, 0)
		case 1:
			// dolt checks the declared length of a latin1 column against the UTF-8 byte count
			return c36StrType("varchar_latin1", fmt.Sprintf("varchar(%d) CHARACTER SET latin1", n), n/2, c36Latin1Pieces, false, 0)
		case 2:
			return c36StrType("varchar_general_ci", fmt.Sprintf("varchar(%d) COLLATE utf8mb4_general_ci", n), n, c36StrPieces, false, 0)
		}
		return c36StrType("varchar", fmt.Sprintf("varchar(%d)", n), n, c36StrPieces, true, 0)
	case k <= 5:
		n := []int{1, 4, 20}[rapid.IntRange(0, 2).Draw(rt, label+".clen")]
		return c36StrType("char", fmt.Sprintf("char(%d)", n), n, c36StrPieces, false, 0)
	case k <= 8:
		switch rapid.IntRange(0, 3).Draw(rt, label+".tkind") {
		case 0:
			return c36StrType("tinytext", "tinytext", 60, c36StrPieces, false, 8)
		case 1:
			return c36StrType("mediumtext", "mediumtext", 5000, c36StrPieces, false, 8)
		case 2:
			return c36StrType("longtext", "longtext", 5000, c36StrPieces, false, 8)
		}
		return c36StrType("text", "text", 5000, c36StrPieces, false, 8)
	case k <= 11:
		n := []int{3, 30, 300, 7000}[rapid.IntRange(0, 3).Draw(rt, label+".vblen")]
		return c36BinType("varbinary", fmt.Sprintf("varbinary(%d)", n), n, false, 0)
	case k == 12:
		n := []int{1, 4, 16}[rapid.IntRange(0, 2).Draw(rt, label+".blen")]
		return c36BinType("binary", fmt.Sprintf("binary(%d)", n), n, true, 0)
	case k <= 15:
		switch rapid.IntRange(0, 3).Draw(rt, label+".bkind") {
		case 0:
			return c36BinType("tinyblob", "tinyblob", 255, false, 6)
		case 1:
			return c36BinType("mediumblob", "mediumblob", 7000, false, 6)
		case 2:
			return c36BinType("longblob", "longblob", 7000, false, 6)
		}
		return c36BinType("blob", "blob", 7000, false, 6)
	case k <= 18:
		return c36IntType(c36IntSpecs[rapid.IntRange(0, len(c36IntSpecs)-1).Draw(rt, label+".int")])
	case k == 19:
		return c36FloatType(false)
	case k == 20:
		return c36FloatType(true)
	case k <= 22:
		ps := [][2]int{{65, 30}, {10, 0}, {5, 5}, {20, 10}, {38, 0}, {65, 0}, {3, 1}}[rapid.IntRange(0, 6).Draw(rt, label+".dec")]
		return c36DecimalType(ps[0], ps[1])
	case k <= 24:
		return c36BitType([]int{1, 8, 9, 32, 64}[rapid.IntRange(0, 4).Draw(rt, label+".bits")])
	case k == 25:
		return c36YearType()
	case k <= 27:
		return c36EnumType(rt, label)
	case k <= 29:
		return c36SetType(rt, label)
	case k == 30:
		return c36DateType()
	case k <= 32:
		return c36DatetimeType([]int{0, 3, 6, 6}[rapid.IntRange(0, 3).Draw(rt, label+".prec")], false)
	case k == 33:
		return c36DatetimeType([]int{0, 6}[rapid.IntRange(0, 1).Draw(rt, label+".prec")], true)
	case k == 34:
		return c36TimeType([]int{0, 6}[rapid.IntRange(0, 1).Draw(rt, label+".prec")])
	case k <= 37:
		return c36JSONType()
	default:
		return c36GeoType([]string{"point", "geometry", "linestring", "polygon"}[rapid.IntRange(0, 3).Draw(rt, label+".geo")])
	}
}

// ---------------------------------------------------------------------------------------------
// schema generator

var c36TableNames = []string{"t1", "T2", "a b", "select", "tbl-3", "é_t", "zz", "Order", "t$4", "0t"}
var c36ColNames = []string{"c1", "C2", "a b", "select", "col-3", "é", "from", "x'y", "key", "desc", "c\"q", "c.d", "_u", "9c", "value"}
var c36Comments = []string{"plain", "it's", "back\\slash", "dq \"x\"", "é中", "semi; colon", "trail\\", "nl\nx", "%", "''"}

// gate holds which known-finding shapes must be kept out of the generated database.
type c36Gate struct {
	noBit          bool   // C36-bit-raw-bytes: no BIT columns with non-NULL values
	noGeoHostile   bool   // C36-geometry-raw-bytes: no spatial value whose serialization contains ' or \
	noYearZero     bool   // C36-year-zero: no YEAR value 0000
	noViewFwdDep   bool   // C36-view-order: no view selecting from a view with a later name
	noBlockTrigger bool   // C36-trigger-block-no-delimiter: no BEGIN…END trigger bodies
	noEnumDefault  bool   // C36-enum-set-default: no DEFAULT on ENUM/SET columns
	noViewComment  bool   // C36-view-trailing-comment: no view body ending in a "-- comment"
	noEarlyYear    bool   // C36-date-year-below-1000: no DATE/DATETIME value with a year in 0001..0999
	noFloatMax     bool   // C36-float-max: no FLOAT value ±3.4028234e38 (the largest float32)
	format         string // "" = SQL dump; csv | json | parquet: restrict to what the file format carries (c36FormatTypeOK / c36FormatValueOK)
	restricted     int    // draws replaced because of a format restriction
	// open findings of the file-format paths (each keeps exactly its shape out of the format cases)
	noJSONExponent   bool // C36-json-import-exponent
	noJSONLongText   bool // C36-json-export-long-text
	noParquetNullDec bool // C36-parquet-null-decimal
	noFileGenerated  bool // C36-file-generated-column
	noParquetDotted  bool // C36-parquet-dotted-column
	noParquetUint64  bool // C36-parquet-uint64: no BIGINT UNSIGNED value above the int64 range in parquet cases
	excluded         int
}

func c36GenDB(rt *rapid.T, g *c36Gate) *c36DB {
	db := &c36DB{}
	nt := rapid.IntRange(1, 4).Draw(rt, "ntables")
	names := c36Perm(rt, "tnames", c36TableNames, nt)
	for ti := 0; ti < nt; ti++ {
		db.tables = append(db.tables, c36GenTable(rt, fmt.Sprintf("t%d", ti), names[ti], db, g))
	}
	c36GenViews(rt, db, g)
	c36GenTriggers(rt, db, g)
	db.commit = rapid.IntRange(0, 3).Draw(rt, "commit") == 0
	if rapid.IntRange(0, 13).Draw(rt, "bigtable") == 0 {
		db.bigRows = []int{10000, 10001, 9999, 20001, 12345}[rapid.IntRange(0, 4).Draw(rt, "bigrows")]
	}
	return db
}

// c36Perm picks n distinct entries (distinct ignoring case: table names are case-insensitive).
func c36Perm(rt *rapid.T, label string, pool []string, n int) []string {
	idx := make([]int, len(pool))
	for i := range idx {
		idx[i] = i
	}
	out := make([]string, 0, n)
	for i := 0; i < n; i++ {
		j := rapid.IntRange(0, len(idx)-1).Draw(rt, fmt.Sprintf("%s[%d]", label, i))
		out = append(out, pool[idx[j]])
		idx = append(idx[:j], idx[j+1:]...)
	}
	return out
}

func c36GenTable(rt *rapid.T, label, name string, db *c36DB, g *c36Gate) c36Table {
	t := c36Table{name: name}
	mode := rapid.IntRange(0, 5).Draw(rt, label+".pkmode") // 0-2 auto pk, 3-4 explicit pk, 5 keyless
	ncols := rapid.IntRange(1, 7).Draw(rt, label+".ncols")
	if rapid.IntRange(0, 5).Draw(rt, label+".tcollate") == 0 {
		// a non-default table collation changes the equality of string columns: such tables
		// take no string column into PRIMARY/UNIQUE keys (see the candidates below)
		t.collate = []string{"utf8mb4_0900_ai_ci", "utf8mb4_general_ci", "utf8mb4_bin"}[rapid.IntRange(0, 2).Draw(rt, label+".tcoll")]
	}
	// most databases carry, in their first table, a character column and a binary column whose first
	// row holds quote+backslash / a NUL byte, and a NULL somewhere (the non-trivial rule of C36)
	anchor := len(db.tables) == 0 && rapid.IntRange(0, 9).Draw(rt, label+".anchor") > 0
	if anchor && ncols < 2 {
		ncols = 2
	}
	cnames := c36Perm(rt, label+".cnames", c36ColNames, ncols)
	if g.format == "json" || (g.format == "parquet" && g.noParquetDotted) {
		for i := range cnames {
			if strings.Contains(cnames[i], ".") {
				if g.format == "parquet" {
					g.excluded++
				}
				cnames[i] = strings.ReplaceAll(cnames[i], ".", "_")
			}
		}
	}
	if mode <= 2 {
		t.autoPK = true
		it := c36IntType(c36IntSpecs[[]int{6, 8, 9, 2}[rapid.IntRange(0, 3).Draw(rt, label+".pktype")]])
		t.cols = append(t.cols, c36Col{name: "pk", typ: it, notNull: true})
	}
	for ci := 0; ci < ncols; ci++ {
		cl := fmt.Sprintf("%s.c%d", label, ci)
		typ := (*c36Type)(nil)
		switch {
		case anchor && ci == 0:
			for typ == nil || typ.hostile == nil {
				typ = c36DrawTypeIn(rt, cl, 0, 8)
			}
		case anchor && ci == 1:
			typ = c36DrawTypeIn(rt, cl, 9, 15)
		default:
			typ = c36DrawType(rt, cl)
		}
		for tries := 0; g.format != "" && !c36FormatTypeOK(g.format, typ); tries++ {
			g.restricted++
			if tries > 20 {
				typ = c36IntType(c36IntSpecs[6])
				break
			}
			if anchor && ci == 0 {
				typ = c36DrawTypeIn(rt, fmt.Sprintf("%s.re%d", cl, tries), 0, 8)
				if typ.hostile == nil {
					typ = c36StrType("varchar", "varchar(40)", 40, c36StrPieces, true, 0)
				}
			} else {
				typ = c36DrawType(rt, fmt.Sprintf("%s.re%d", cl, tries))
			}
		}
		if typ.family == "bit" && g.noBit {
			g.excluded++
			typ = c36IntType(c36IntSpecs[9])
		}
		col := c36Col{name: cnames[ci], typ: typ}
		col.notNull = rapid.IntRange(0, 3).Draw(rt, cl+".notnull") == 0
		if g.format == "parquet" && typ.family == "decimal" && g.noParquetNullDec && !col.notNull {
			g.excluded++
			col.notNull = true
		}
		if len(typ.defs) > 0 && rapid.IntRange(0, 3).Draw(rt, cl+".hasdef") == 0 {
			if (typ.family == "enum" || typ.family == "set") && g.noEnumDefault {
				g.excluded++
			} else {
				col.def = typ.defs[rapid.IntRange(0, len(typ.defs)-1).Draw(rt, cl+".def")]
				if typ.onUpd != "" && strings.HasPrefix(col.def, "CURRENT") && rapid.Bool().Draw(rt, cl+".onupd") {
					col.onUpd = typ.onUpd
				}
			}
		}
		if rapid.IntRange(0, 5).Draw(rt, cl+".hascomment") == 0 {
			col.comment = c36Comments[rapid.IntRange(0, len(c36Comments)-1).Draw(rt, cl+".comment")]
		}
		t.cols = append(t.cols, col)
	}
	if g.format == "csv" && len(t.cols) == 1 {
		t.cols[0].notNull = true
	}
	// a generated column over an int column
	for ci, c := range t.cols {
		if c.typ.family == "int" && c.name != "pk" && rapid.IntRange(0, 4).Draw(rt, fmt.Sprintf("%s.gen%d", label, ci)) == 0 {
			if g.format != "" && g.noFileGenerated {
				g.excluded++
				break
			}
			t.cols = append(t.cols, c36Col{name: "g_" + fmt.Sprint(ci), typ: c36IntType(c36IntSpecs[8]),
				gen: "(" + c36QuoteIdent(c.name) + " % 7)", stored: rapid.Bool().Draw(rt, label+".stored")})
			break
		}
	}
	// foreign key to an earlier table with an auto-increment key
	if g.format == "" && len(db.tables) > 0 && rapid.IntRange(0, 1).Draw(rt, label+".hasfk") == 0 {
		var cands []int
		for i, p := range db.tables {
			if p.autoPK && len(p.rows)-p.delLast > 0 {
				cands = append(cands, i)
			}
		}
		if len(cands) > 0 {
			pi := cands[rapid.IntRange(0, len(cands)-1).Draw(rt, label+".fkparent")]
			p := db.tables[pi]
			acts := []string{"", "CASCADE", "SET NULL", "RESTRICT", "NO ACTION"}
			fk := &c36FK{name: "fk_" + fmt.Sprint(len(db.tables)), parent: pi, pcol: "pk",
				onDelete: acts[rapid.IntRange(0, 4).Draw(rt, label+".fkdel")], onUpdate: acts[rapid.IntRange(0, 4).Draw(rt, label+".fkupd")]}
			pt := *p.cols[0].typ
			nrows := len(p.rows) - p.delLast
			base := 1
			if p.autoBump > 0 {
				base = p.autoBump
			}
			pt.gen = func(rt *rapid.T, l string) c36Val {
				v := fmt.Sprint(base - 1 + rapid.IntRange(1, nrows).Draw(rt, l+".ref"))
				return c36Val{lit: v, key: "i:" + v}
			}
			pt.defs = nil
			t.cols = append(t.cols, c36Col{name: "ref_" + fmt.Sprint(pi), typ: &pt, fkRef: fk})
		}
	}
	// explicit primary key
	if mode == 3 || mode == 4 {
		var cands []int
		for i, c := range t.cols {
			if c.typ.keyOK && c.gen == "" && c.fkRef == nil && !(t.collate != "" && c.typ.family == "str") {
				cands = append(cands, i)
			}
		}
		if len(cands) > 0 {
			n := rapid.IntRange(1, c36min(2, len(cands))).Draw(rt, label+".npk")
			for _, s := range c36PermInts(rt, label+".pkcols", cands, n) {
				t.pkCols = append(t.pkCols, s)
				t.cols[s].notNull = true
			}
		}
	}
	// secondary indexes
	nidx := rapid.IntRange(0, 2).Draw(rt, label+".nidx")
	for ii := 0; ii < nidx; ii++ {
		il := fmt.Sprintf("%s.idx%d", label, ii)
		unique := rapid.IntRange(0, 2).Draw(rt, il+".unique") == 0
		var cands []int
		for i, c := range t.cols {
			if c.gen != "" && !c.stored {
				continue
			}
			if unique && (!c.typ.keyOK || c.fkRef != nil || c.gen != "" || (t.collate != "" && c.typ.family == "str")) {
				continue
			}
			if c.typ.idxOK {
				cands = append(cands, i)
			}
		}
		if len(cands) == 0 {
			continue
		}
		n := 1
		if !unique {
			n = rapid.IntRange(1, c36min(2, len(cands))).Draw(rt, il+".ncols")
		}
		t.indexes = append(t.indexes, c36Index{name: fmt.Sprintf("ix%d", ii), unique: unique, cols: c36PermInts(rt, il+".cols", cands, n)})
	}
	// check constraint
	if rapid.IntRange(0, 3).Draw(rt, label+".hascheck") == 0 {
		for _, c := range t.cols {
			if c.gen != "" || c.name == "pk" {
				continue
			}
			if c.typ.family == "str" && c.typ.prefix == 0 {
				t.checks = append(t.checks, fmt.Sprintf("CONSTRAINT %s CHECK (%s <> 'never''\\\\\"x')", c36QuoteIdent("ck_"+fmt.Sprint(len(db.tables))), c36QuoteIdent(c.name)))
				break
			}
			if c.typ.family == "int" && c.fkRef == nil {
				t.checks = append(t.checks, fmt.Sprintf("CONSTRAINT %s CHECK (%s <> 121)", c36QuoteIdent("ck_"+fmt.Sprint(len(db.tables))), c36QuoteIdent(c.name)))
				break
			}
		}
	}
	if rapid.IntRange(0, 4).Draw(rt, label+".hastcomment") == 0 {
		t.comment = c36Comments[rapid.IntRange(0, len(c36Comments)-1).Draw(rt, label+".tcomment")]
	}
	c36GenRows(rt, label, &t, g, anchor)
	if t.autoPK && len(t.rows) > 1 && rapid.IntRange(0, 3).Draw(rt, label+".dellast") == 0 {
		t.delLast = 1
	}
	if t.autoPK && t.delLast == 0 && rapid.IntRange(0, 5).Draw(rt, label+".autobump") == 0 {
		t.autoBump = 100 + rapid.IntRange(0, 20).Draw(rt, label+".bump")
	}
	return t
}

func c36PermInts(rt *rapid.T, label string, pool []int, n int) []int {
	p := append([]int{}, pool...)
	out := make([]int, 0, n)
	for i := 0; i < n; i++ {
		j := rapid.IntRange(0, len(p)-1).Draw(rt, fmt.Sprintf("%s[%d]", label, i))
		out = append(out, p[j])
		p = append(p[:j], p[j+1:]...)
	}
	return out
}

// insertCols: the columns that the build script's INSERT names (everything except the auto pk and
// generated columns).
func (t *c36Table) insertCols() []int {
	var out []int
	for i, c := range t.cols {
		if (t.autoPK && i == 0) || c.gen != "" {
			continue
		}
		out = append(out, i)
	}
	return out
}

func c36GenRows(rt *rapid.T, label string, t *c36Table, g *c36Gate, anchor bool) {
	ic := t.insertCols()
	nrows := rapid.IntRange(0, 6).Draw(rt, label+".nrows")
	if anchor && nrows < 2 {
		nrows = 2
	}
	nullDone := false
	if rapid.IntRange(0, 9).Draw(rt, label+".manyrows") == 0 {
		nrows = rapid.IntRange(20, 60).Draw(rt, label+".nrows2")
	}
	// uniqueness bookkeeping: primary key tuple and every unique index
	type uq struct {
		cols []int
		seen map[string]bool
	}
	var uqs []*uq
	if len(t.pkCols) > 0 {
		uqs = append(uqs, &uq{cols: t.pkCols, seen: map[string]bool{}})
	}
	for _, ix := range t.indexes {
		if ix.unique {
			uqs = append(uqs, &uq{cols: ix.cols, seen: map[string]bool{}})
		}
	}
	isPK := map[int]bool{}
	for _, c := range t.pkCols {
		isPK[c] = true
	}
	for ri := 0; ri < nrows; ri++ {
		row := make([]c36Val, len(t.cols))
		for _, ci := range ic {
			c := t.cols[ci]
			vl := fmt.Sprintf("%s.r%d.%s", label, ri, fmt.Sprint(ci))
			k := rapid.IntRange(0, 9).Draw(rt, vl+".nullordef")
			switch {
			case anchor && ri == 0 && c.typ.hostile != nil:
				row[ci] = c.typ.hostile(rt, vl)
				for tries := 0; g.format != "" && !c36FormatValueOK(g, c.typ, row[ci]); tries++ {
					g.restricted++
					if tries > 8 {
						row[ci] = c36FormatFallback(c.typ)
						break
					}
					row[ci] = c.typ.hostile(rt, fmt.Sprintf("%s.re%d", vl, tries))
				}
			case anchor && ri == 1 && !nullDone && !c.notNull:
				nullDone = true
				row[ci] = c36Val{lit: "NULL", null: true, tags: []string{"null"}}
			case k == 0 && !c.notNull:
				row[ci] = c36Val{lit: "NULL", null: true, tags: []string{"null"}}
			case k == 1 && c.def != "" && !isPK[ci] && !c36InUnique(t, ci) && g.format == "":
				row[ci] = c36Val{lit: "DEFAULT", tags: []string{"default_used"}}
			default:
				v := c.typ.gen(rt, vl)
				for tries := 0; g.format != "" && !c36FormatValueOK(g, c.typ, v); tries++ {
					g.restricted++
					if tries > 8 {
						v = c36FormatFallback(c.typ)
						break
					}
					v = c.typ.gen(rt, fmt.Sprintf("%s.re%d", vl, tries))
				}
				if g.noGeoHostile && c36HasTag(v.tags, "geo_quote_bs_byte") {
					g.excluded++
					v = c36Val{lit: "ST_GeomFromText('POINT(1 2)')", tags: []string{"geo_value"}}
				}
				if g.noEarlyYear && c36HasTag(v.tags, "date_year_lt_1000") {
					g.excluded++
					v.lit = strings.Replace(v.lit, "'0001-", "'1001-", 1)
					v.key = strings.Replace(v.key, ":0001-", ":1001-", 1)
					v.tags = nil
				}
				if g.noFloatMax && c36HasTag(v.tags, "float32_max") {
					g.excluded++
					v = c36Val{lit: "3.4028233e38"}
				}
				if g.noYearZero && c36HasTag(v.tags, "year_zero") {
					g.excluded++
					v = c36Val{lit: "1901", key: "y:1901"}
				}
				row[ci] = v
			}
		}
		ok := true
		var keys []string
		for _, u := range uqs {
			parts := make([]string, len(u.cols))
			hasNull := false
			for i, ci := range u.cols {
				if row[ci].null {
					hasNull = true
				}
				parts[i] = row[ci].key
			}
			k := strings.Join(parts, "\x00|\x00")
			keys = append(keys, k)
			if !hasNull && u.seen[k] {
				ok = false
			}
		}
		if !ok {
			continue // drop the colliding row
		}
		for i, u := range uqs {
			u.seen[keys[i]] = true
		}
		t.rows = append(t.rows, row)
	}
}

func c36InUnique(t *c36Table, ci int) bool {
	for _, ix := range t.indexes {
		if !ix.unique {
			continue
		}
		for _, c := range ix.cols {
			if c == ci {
				return true
			}
		}
	}
	return false
}

func c36HasTag(tags []string, t string) bool {
	for _, x := range tags {
		if x == t {
			return true
		}
	}
	return false
}

var c36ViewNames = []string{"v_a", "v_b", "V_c", "view d"}

func c36GenViews(rt *rapid.T, db *c36DB, g *c36Gate) {
	nv := rapid.IntRange(0, 2).Draw(rt, "nviews")
	names := c36Perm(rt, "vnames", c36ViewNames, nv)
	for vi := 0; vi < nv; vi++ {
		l := fmt.Sprintf("v%d", vi)
		if vi > 0 && rapid.Bool().Draw(rt, l+".onview") {
			dep := db.views[rapid.IntRange(0, vi-1).Draw(rt, l+".dep")]
			name := names[vi]
			if g.noViewFwdDep && strings.ToLower(name) < strings.ToLower(dep.name) {
				// the excluded shape: a view that selects from a view sorting after it
				g.excluded++
				name = dep.name + "_z"
			}
			db.views = append(db.views, c36View{name: name, deps: []string{dep.name},
				sql: fmt.Sprintf("CREATE VIEW %s AS SELECT * FROM %s", c36QuoteIdent(name), c36QuoteIdent(dep.name))})
			continue
		}
		t := db.tables[rapid.IntRange(0, len(db.tables)-1).Draw(rt, l+".table")]
		c := t.cols[rapid.IntRange(0, len(t.cols)-1).Draw(rt, l+".col")]
		body := []string{
			fmt.Sprintf("SELECT %s, 'it''s' AS q, \"d\\\\q\" AS w FROM %s WHERE %s IS NOT NULL", c36QuoteIdent(c.name), c36QuoteIdent(t.name), c36QuoteIdent(c.name)),
			fmt.Sprintf("SELECT * FROM %s", c36QuoteIdent(t.name)),
			fmt.Sprintf("SELECT COUNT(*) AS n, 'a;b' AS s /* c */ FROM %s", c36QuoteIdent(t.name)),
			fmt.Sprintf("SELECT %s AS `x y`, '\\'' AS q FROM %s -- tail", c36QuoteIdent(c.name), c36QuoteIdent(t.name)),
		}[rapid.IntRange(0, 3).Draw(rt, l+".body")]
		if g.noViewComment && strings.HasSuffix(body, "-- tail") {
			g.excluded++
			body = strings.TrimSuffix(body, " -- tail")
		}
		db.views = append(db.views, c36View{name: names[vi], sql: fmt.Sprintf("CREATE VIEW %s AS %s", c36QuoteIdent(names[vi]), body)})
	}
}

func c36GenTriggers(rt *rapid.T, db *c36DB, g *c36Gate) {
	nt := rapid.IntRange(0, 2).Draw(rt, "ntriggers")
	for i := 0; i < nt; i++ {
		l := fmt.Sprintf("trg%d", i)
		t := db.tables[rapid.IntRange(0, len(db.tables)-1).Draw(rt, l+".table")]
		var target *c36Col
		for ci := range t.cols {
			c := &t.cols[ci]
			if c.gen == "" && c.fkRef == nil && c.name != "pk" && (c.typ.family == "int" || (c.typ.family == "str" && c.typ.prefix == 0)) {
				target = c
				break
			}
		}
		if target == nil {
			continue
		}
		ev := []string{"INSERT", "UPDATE"}[rapid.IntRange(0, 1).Draw(rt, l+".event")]
		var set string
		if target.typ.family == "int" {
			set = fmt.Sprintf("SET NEW.%s = NEW.%s + 0", c36QuoteIdent(target.name), c36QuoteIdent(target.name))
		} else {
			set = fmt.Sprintf("SET NEW.%s = REPLACE(NEW.%s, 'it''s;\\\\', 'x')", c36QuoteIdent(target.name), c36QuoteIdent(target.name))
		}
		name := fmt.Sprintf("trg_%d", i)
		block := rapid.IntRange(0, 2).Draw(rt, l+".block") == 0
		if block && g.noBlockTrigger {
			g.excluded++
			block = false
		}
		body := set
		if block {
			body = "BEGIN " + set + "; " + set + "; END"
		}
		db.triggers = append(db.triggers, c36Trigger{name: name, block: block,
			sql: fmt.Sprintf("CREATE TRIGGER %s BEFORE %s ON %s FOR EACH ROW %s", c36QuoteIdent(name), ev, c36QuoteIdent(t.name), body)})
	}
}

// ---------------------------------------------------------------------------------------------
// scripts

func (t *c36Table) createSQL(db *c36DB) string {
	var defs []string
	for i, c := range t.cols {
		d := c36QuoteIdent(c.name) + " " + c.typ.ddl
		if c.gen != "" {
			d += " GENERATED ALWAYS AS " + c.gen
			if c.stored {
				d += " STORED"
			} else {
				d += " VIRTUAL"
			}
		} else {
			if c.notNull {
				d += " NOT NULL"
			}
			if t.autoPK && i == 0 {
				d += " AUTO_INCREMENT"
			}
			if c.def != "" {
				d += " DEFAULT " + c.def
			}
			if c.onUpd != "" {
				d += " ON UPDATE " + c.onUpd
			}
		}
		if c.comment != "" {
			d += " COMMENT " + c36QuoteStr(c.comment)
		}
		defs = append(defs, d)
	}
	if t.autoPK {
		defs = append(defs, "PRIMARY KEY (`pk`)")
	} else if len(t.pkCols) > 0 {
		q := make([]string, len(t.pkCols))
		for i, ci := range t.pkCols {
			q[i] = c36QuoteIdent(t.cols[ci].name)
		}
		defs = append(defs, "PRIMARY KEY ("+strings.Join(q, ",")+")")
	}
	for _, ix := range t.indexes {
		q := make([]string, len(ix.cols))
		for i, ci := range ix.cols {
			q[i] = c36QuoteIdent(t.cols[ci].name)
			if p := t.cols[ci].typ.prefix; p > 0 {
				q[i] += fmt.Sprintf("(%d)", p)
			}
		}
		kw := "KEY"
		if ix.unique {
			kw = "UNIQUE KEY"
		}
		defs = append(defs, fmt.Sprintf("%s %s (%s)", kw, c36QuoteIdent(ix.name), strings.Join(q, ",")))
	}
	for _, c := range t.cols {
		if fk := c.fkRef; fk != nil {
			d := fmt.Sprintf("CONSTRAINT %s FOREIGN KEY (%s) REFERENCES %s (%s)", c36QuoteIdent(fk.name), c36QuoteIdent(c.name), c36QuoteIdent(db.tables[fk.parent].name), c36QuoteIdent(fk.pcol))
			if fk.onDelete != "" {
				d += " ON DELETE " + fk.onDelete
			}
			if fk.onUpdate != "" {
				d += " ON UPDATE " + fk.onUpdate
			}
			defs = append(defs, d)
		}
	}
	defs = append(defs, t.checks...)
	s := "CREATE TABLE " + c36QuoteIdent(t.name) + " (\n  " + strings.Join(defs, ",\n  ") + "\n)"
	if t.autoBump > 0 {
		s += fmt.Sprintf(" AUTO_INCREMENT=%d", t.autoBump)
	}
	if t.collate != "" {
		s += " COLLATE=" + t.collate
	}
	if t.comment != "" {
		s += " COMMENT=" + c36QuoteStr(t.comment)
	}
	return s
}

func (db *c36DB) buildScript() string {
	var b strings.Builder
	for i := range db.tables {
		t := &db.tables[i]
		b.WriteString(t.createSQL(db) + ";\n")
		ic := t.insertCols()
		if len(t.rows) > 0 && len(ic) > 0 {
			q := make([]string, len(ic))
			for i, ci := range ic {
				q[i] = c36QuoteIdent(t.cols[ci].name)
			}
			for start := 0; start < len(t.rows); start += 8 {
				end := c36min(start+8, len(t.rows))
				var tuples []string
				for _, r := range t.rows[start:end] {
					lits := make([]string, len(ic))
					for i, ci := range ic {
						lits[i] = r[ci].lit
					}
					tuples = append(tuples, "("+strings.Join(lits, ",")+")")
				}
				fmt.Fprintf(&b, "INSERT INTO %s (%s) VALUES\n %s;\n", c36QuoteIdent(t.name), strings.Join(q, ","), strings.Join(tuples, ",\n "))
			}
		}
		if t.delLast > 0 {
			fmt.Fprintf(&b, "DELETE FROM %s WHERE `pk` = %d;\n", c36QuoteIdent(t.name), len(t.rows))
		}
	}
	if db.bigRows > 0 {
		b.WriteString("CREATE TABLE `big_rows` (`n` int PRIMARY KEY, `s` varchar(40), `b` varbinary(8), KEY `ks` (`s`));\n")
		b.WriteString("INSERT INTO `big_rows` WITH dg(d) AS (SELECT 0 UNION ALL SELECT 1 UNION ALL SELECT 2 UNION ALL SELECT 3 UNION ALL SELECT 4 UNION ALL SELECT 5 UNION ALL SELECT 6 UNION ALL SELECT 7 UNION ALL SELECT 8 UNION ALL SELECT 9) " +
			"SELECT n, CONCAT('it''s\\\\', n, ');'), UNHEX(LPAD(HEX(n),8,'0')) FROM (SELECT a.d+10*b.d+100*c.d+1000*d.d+10000*e.d AS n FROM dg a, dg b, dg c, dg d, dg e) x WHERE n < " + fmt.Sprint(db.bigRows) + ";\n")
	}
	for _, v := range db.views {
		b.WriteString(v.sql + "\n;\n") // the newline ends a trailing "-- comment" of the view body
	}
	for _, tr := range db.triggers {
		if tr.block {
			b.WriteString("DELIMITER //\n" + tr.sql + "//\nDELIMITER ;\n")
		} else {
			b.WriteString(tr.sql + ";\n")
		}
	}
	if db.commit {
		b.WriteString("CALL dolt_commit('-Am', 'build');\n")
	}
	return b.String()
}

const c36Mark = "@@C36MARK@@"

// fingerprintScript observes every table: SHOW CREATE TABLE and every row through
// HEX()/CAST(... AS CHAR) plus an IS NULL flag per column, then views and triggers as stored.
func (db *c36DB) fingerprintScript() (string, []string) {
	var b strings.Builder
	var sections []string
	mark := func(name string) {
		sections = append(sections, name)
		fmt.Fprintf(&b, "SELECT '%s' AS m;\n", c36Mark)
	}
	mark("tables")
	b.WriteString("SHOW FULL TABLES;\n")
	for i := range db.tables {
		t := &db.tables[i]
		mark("schema of " + t.name)
		fmt.Fprintf(&b, "SHOW CREATE TABLE %s;\n", c36QuoteIdent(t.name))
		mark("rows of " + t.name)
		var exprs []string
		for _, c := range t.cols {
			q := c36QuoteIdent(c.name)
			exprs = append(exprs, "("+q+" IS NULL)")
			exprs = append(exprs, c.typ.obs(q)...)
		}
		fmt.Fprintf(&b, "SELECT %s FROM %s;\n", strings.Join(exprs, ", "), c36QuoteIdent(t.name))
	}
	if db.bigRows > 0 {
		mark("schema of big_rows")
		b.WriteString("SHOW CREATE TABLE `big_rows`;\n")
		mark("rows of big_rows")
		b.WriteString("SELECT CAST(`n` AS CHAR), HEX(`s`), HEX(`b`) FROM `big_rows`;\n")
	}
	if len(db.views)+len(db.triggers) > 0 {
		mark("views and triggers")
		b.WriteString("SELECT `type`, `name`, HEX(`fragment`), `sql_mode` FROM dolt_schemas;\n")
	}
	return b.String(), sections
}

// summary is the content description of the case (hashed for the distinct count).
func (db *c36DB) summary() (string, map[string]bool) {
	classes := map[string]bool{}
	var parts []string
	for i := range db.tables {
		t := &db.tables[i]
		var cs []string
		for _, c := range t.cols {
			s := c.typ.class
			classes["type:"+c.typ.class] = true
			if c.def != "" {
				s += "+def"
				classes["col_default"] = true
			}
			if c.gen != "" {
				s += "+gen"
				classes["generated_col"] = true
			}
			if c.fkRef != nil {
				s += "+fk"
				classes["foreign_key"] = true
			}
			if c.comment != "" {
				classes["col_comment"] = true
			}
			cs = append(cs, s)
		}
		key := "keyless"
		if t.autoPK {
			key = "autopk"
			classes["auto_increment"] = true
		} else if len(t.pkCols) > 0 {
			key = fmt.Sprintf("pk%d", len(t.pkCols))
		}
		classes["key:"+key] = true
		if len(t.indexes) > 0 {
			classes["secondary_index"] = true
		}
		if len(t.checks) > 0 {
			classes["check"] = true
		}
		if t.delLast > 0 || t.autoBump > 0 {
			classes["auto_counter_ahead"] = true
		}
		if len(t.rows) == 0 {
			classes["empty_table"] = true
		}
		if len(t.rows) >= 20 {
			classes["rows>=20"] = true
		}
		for _, r := range t.rows {
			for _, v := range r {
				for _, tg := range v.tags {
					classes["val:"+tg] = true
				}
			}
		}
		parts = append(parts, fmt.Sprintf("%s[%s;%s;idx=%d;rows=%d]", t.name, key, strings.Join(cs, ","), len(t.indexes), len(t.rows)))
	}
	if len(db.views) > 0 {
		classes["view"] = true
		for _, v := range db.views {
			if len(v.deps) > 0 {
				classes["view_on_view"] = true
			}
		}
	}
	for _, tr := range db.triggers {
		classes["trigger"] = true
		if tr.block {
			classes["trigger_block"] = true
		}
	}
	if db.commit {
		classes["committed"] = true
	}
	if db.bigRows > 0 {
		classes["rows>=10000"] = true
		if db.bigRows > 10000 {
			classes["rows>batch_size"] = true
		}
		parts = append(parts, fmt.Sprintf("big_rows[rows=%d]", db.bigRows))
	}
	sort.Strings(parts)
	return fmt.Sprintf("tables=%s views=%d triggers=%d", strings.Join(parts, " "), len(db.views), len(db.triggers)), classes
}

// ---------------------------------------------------------------------------------------------
// file formats: what `dolt dump -r csv|json|parquet` + `dolt table import` can carry

// c36FormatRestrictions is written into the evidence (rule/assumptions) of the formats part.
var c36FormatRestrictions = map[string][]string{
	"csv": {
		"csv is untyped text: an empty field is the only spelling of both NULL and '' (known a priori) - no empty strings, no empty SET values, no '' ENUM members in csv cases",
		"csv is not used for binary columns (known a priori): no binary/varbinary/blob columns, no spatial columns (written as raw bytes), no BIT",
		"encoding/csv (Go) drops a carriage return that precedes a line feed inside a quoted field: no CR in strings",
		"encoding/csv skips empty lines: a table with a single column does not hold NULL (the row would be an empty line)",
		"csv values are untyped strings: YEAR 0000 is written 0 and the string '0' means 2000 - no YEAR 0000",
	},
	"json": {
		"JSON strings are Unicode text: no binary/varbinary/blob/bit/spatial columns (dolt writes invalid UTF-8 as U+FFFD, BLOB as base64 that the import does not decode)",
		"while C36-json-import-exponent is open: FLOAT/DOUBLE values and numbers inside JSON columns are restricted to those encoding/json writes without an exponent (1e-6 <= |x| < 1e21)",
		"a JSON column is embedded as a JSON value: SQL NULL and the JSON null literal, and a top-level JSON string and a text, are the same spelling - JSON columns hold objects/arrays",
		"while C36-json-export-long-text is open: character values longer than 2000 bytes are left out",
		"column names contain no '.'",
	},
	"parquet": {
		"no BIT columns; while C36-parquet-null-decimal is open: DECIMAL columns are NOT NULL",
		"DECIMAL values have at most 15 digits in their unscaled integer value*10^scale (parquet/writer.go: 'the parquet-go library uses big.Float to write ... and loses precision for long decimals')",
		"while C36-parquet-dotted-column is open: column names contain no '.'",
		"while C36-parquet-uint64 is open: no BIGINT UNSIGNED value above 9223372036854775807",
	},
	"all": {
		"while C36-file-generated-column is open: no generated columns",
		"row values only: the table schema comes from the generator's CREATE TABLE (dolt table import -r), so SHOW CREATE TABLE / AUTO_INCREMENT counters / views / triggers are not compared",
		"rows written with the DEFAULT keyword are left out",
		"no foreign keys (`dolt table import -r` truncates the table, which dolt refuses for a referenced table)",
	},
}

func c36FormatTypeOK(format string, t *c36Type) bool {
	if t.family == "bit" {
		return false
	}
	switch format {
	case "csv":
		if t.family == "enum" {
			for _, m := range t.members {
				if m == "" {
					return false
				}
			}
		}
		return t.family != "bin" && t.family != "geo"
	case "json":
		return t.family != "bin" && t.family != "geo"
	}
	return true
}

func c36FormatValueOK(g *c36Gate, t *c36Type, v c36Val) bool {
	has := func(tag string) bool { return c36HasTag(v.tags, tag) }
	excl := func(open bool) bool { // a shape kept out only while its finding is open
		if open {
			g.excluded++
		}
		return open
	}
	switch g.format {
	case "csv":
		if has("str_empty") || has("set_empty") || has("str_cr") || has("year_zero") {
			return false
		}
		if t.family == "json" && strings.Contains(v.lit, "\\r") {
			return false
		}
	case "parquet":
		if has("decimal_gt15digits") {
			return false
		}
		if has("uint_gt_int64") && excl(g.noParquetUint64) {
			return false
		}
	case "json":
		if has("json_scalar_top") || has("json_null_literal") {
			return false
		}
		if (has("float_exponent") || has("float32_max") || has("json_exponent_number")) && excl(g.noJSONExponent) {
			return false
		}
		if has("str_long") && excl(g.noJSONLongText) {
			return false
		}
	}
	return true
}

func c36FormatFallback(t *c36Type) c36Val {
	switch t.family {
	case "str":
		return c36Val{lit: "'x'", key: "s:x"}
	case "set", "enum":
		return c36Val{lit: c36QuoteStr(t.members[len(t.members)-1]), key: fmt.Sprintf("e:%d", len(t.members)-1)}
	case "float":
		return c36Val{lit: "1.5e0"}
	case "decimal":
		return c36Val{lit: "0", key: "d:0"}
	case "year":
		return c36Val{lit: "1901", key: "y:1901"}
	case "int":
		return c36Val{lit: "7", key: "i:7"}
	case "json":
		return c36Val{lit: "'{\"a\": [1, \"é\"]}'", tags: []string{"json_unicode"}}
	}
	return c36Val{lit: "NULL", null: true, tags: []string{"null"}}
}

// schemaScript: only the CREATE TABLE statements (the destination of a file import).
func (db *c36DB) schemaScript() string {
	var b strings.Builder
	for i := range db.tables {
		b.WriteString(db.tables[i].createSQL(db) + ";\n")
	}
	return b.String()
}

// rowsFingerprintScript observes only the rows of every table.
func (db *c36DB) rowsFingerprintScript() (string, []string) {
	var b strings.Builder
	var sections []string
	for i := range db.tables {
		t := &db.tables[i]
		sections = append(sections, "rows of "+t.name)
		fmt.Fprintf(&b, "SELECT '%s' AS m;\n", c36Mark)
		var exprs []string
		for _, c := range t.cols {
			q := c36QuoteIdent(c.name)
			exprs = append(exprs, "("+q+" IS NULL)")
			exprs = append(exprs, c.typ.obs(q)...)
		}
		fmt.Fprintf(&b, "SELECT %s FROM %s;\n", strings.Join(exprs, ", "), c36QuoteIdent(t.name))
	}
	return b.String(), sections
}

// c36GenFormatDB: 1-2 tables without views/triggers, restricted to what the format carries.
func c36GenFormatDB(rt *rapid.T, g *c36Gate) *c36DB {
	db := &c36DB{}
	nt := rapid.IntRange(1, 2).Draw(rt, "ntables")
	names := c36Perm(rt, "tnames", c36TableNames, nt)
	for ti := 0; ti < nt; ti++ {
		db.tables = append(db.tables, c36GenTable(rt, fmt.Sprintf("t%d", ti), names[ti], db, g))
	}
	db.commit = rapid.IntRange(0, 3).Draw(rt, "commit") == 0
	return db
}
