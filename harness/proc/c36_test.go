package proc

// C36 — dump and re-import reproduce the database.
//
// Each case builds a database with child `dolt` processes (generated schema + rows piped into
// `dolt sql`), dumps it with `dolt dump` (SQL, with a drawn subset of --no-batch / --no-autocommit /
// --no-create-db / -fn), loads the dump into a freshly initialized repository with `dolt sql < dump`
// and compares the two databases: SHOW FULL TABLES, SHOW CREATE TABLE of every table, every row
// observed through HEX()/CAST(... AS CHAR) with an explicit IS NULL flag per column, and the stored
// view/trigger definitions. The client output format can therefore not mask a difference.

import (
	"bytes"
	"context"
	"encoding/csv"
	"errors"
	"fmt"
	"hash/fnv"
	"io/fs"
	"os"
	"os/exec"
	"path/filepath"
	"sort"
	"strings"
	"testing"
	"time"

	"pgregory.net/rapid"

	"github.com/dolthub/dolt/go/zzverif/vh"
)

const c36Rule = "databases of 1-4 tables (auto-increment / explicit 1-2 column / no primary key; 1-7 columns over " +
	"tiny..bigint [unsigned], float, double, decimal(65,30..3,1), bit(1..64), year, enum/set with quotes, spaces, newlines and unicode in members, " +
	"date, datetime(0/3/6), timestamp(0/6), time(0/6), char/varchar (utf8mb4 bin/ci, latin1), tiny..longtext, binary/varbinary, tiny..longblob, json, " +
	"point/linestring/polygon/geometry; NOT NULL, literal and expression defaults, ON UPDATE, comments, generated columns, secondary and unique and prefix indexes, " +
	"foreign keys, check constraints, table collation/comment, AUTO_INCREMENT counter ahead of max+1), 0-60 rows of hostile values " +
	"(' \" \\ NUL \\n \\r ^Z % _ and the two-character sequences \\q \\\\ \\' \\n \\0 \\Z \\% \\_, 4-byte UTF-8, empty string vs NULL, all 256 byte values, " +
	"5 kB values, -0.0, float/double/decimal/integer extremes, zero dates, year 0000, JSON with unicode/escapes/big numbers), 0-2 views (one may select from the other), " +
	"0-2 triggers (single statement or BEGIN…END), optionally committed; `dolt dump` with a drawn flag subset, then `dolt sql < dump` into a fresh repository; " +
	"source and copy compared on SHOW FULL TABLES, SHOW CREATE TABLE, per-row (IS NULL, HEX()/CAST AS CHAR/…) observations sorted as a multiset, and dolt_schemas. " +
	"Non-trivial: the database holds at least one string with a quote and a backslash, one binary value containing NUL and one NULL; " +
	"distinct by the hash of the build script and the dump flags."

var c36Assumptions = []string{
	"the oracle compares two dolt databases (source vs re-imported) through the same dolt SQL functions (HEX, CAST AS CHAR, ST_AsWKB, ATAN2 for the sign of zero); a defect common to both observations is not visible",
	"both repositories are copies of one `dolt init` template (init once per test process) instead of one `dolt init` per case",
	"identifiers avoid backticks (dolt dump fails with an error on a table name containing a backtick; noted, not asserted); enum/set members avoid backslashes (CREATE TABLE itself drops them)",
	"string columns that take part in PRIMARY/UNIQUE keys use the default binary collation so that the generator can keep key values distinct",
	"a build script that dolt rejects (the source database could not be built) discards the case; the count is in the class histogram (build_rejected)",
	"dolt_schemas.extra (creation timestamp) is not compared",
}

// c36Findings: known-finding ids → what is excluded while the finding is open.
const (
	c36FBit       = "C36-bit-raw-bytes"
	c36FGeo       = "C36-geometry-raw-bytes"
	c36FYear      = "C36-year-zero"
	c36FViewOrder = "C36-view-order"
	c36FTrigBlock = "C36-trigger-block-no-delimiter"
	c36FEnumDef   = "C36-enum-set-default"
	c36FViewCmt   = "C36-view-trailing-comment"
	c36FEarlyYear = "C36-date-year-below-1000"
	c36FFloatMax  = "C36-float-max"

	c36FJSONExp       = "C36-json-import-exponent"
	c36FJSONLongText  = "C36-json-export-long-text"
	c36FJSONBlob      = "C36-json-blob-base64" // pinned only: JSON cases never hold binary columns
	c36FParquetNull   = "C36-parquet-null-decimal"
	c36FFileGenerated = "C36-file-generated-column"
	c36FParquetDotted = "C36-parquet-dotted-column"
	c36FParquetUint64 = "C36-parquet-uint64"
)

func c36IsOpen(id string) bool {
	// patch workflow step 3c: C36_ASSUME_FIXED=id1,id2 treats listed-open findings as fixed (this can only make
	// the check stricter: the shapes are generated and the pinned cases must round-trip)
	for _, x := range strings.Split(os.Getenv("C36_ASSUME_FIXED"), ",") {
		if x == id {
			return false
		}
	}
	return vh.OpenFinding("C36", id)
}

func c36NewGate() *c36Gate {
	return &c36Gate{
		noBit:          c36IsOpen(c36FBit),
		noGeoHostile:   c36IsOpen(c36FGeo),
		noYearZero:     c36IsOpen(c36FYear),
		noViewFwdDep:   c36IsOpen(c36FViewOrder),
		noBlockTrigger: c36IsOpen(c36FTrigBlock),
		noEnumDefault:  c36IsOpen(c36FEnumDef),
		noViewComment:  c36IsOpen(c36FViewCmt),
		noEarlyYear:    c36IsOpen(c36FEarlyYear),
		noFloatMax:     c36IsOpen(c36FFloatMax),

		noJSONExponent:   c36IsOpen(c36FJSONExp),
		noJSONLongText:   c36IsOpen(c36FJSONLongText),
		noParquetNullDec: c36IsOpen(c36FParquetNull),
		noFileGenerated:  c36IsOpen(c36FFileGenerated),
		noParquetDotted:  c36IsOpen(c36FParquetDotted),
		noParquetUint64:  c36IsOpen(c36FParquetUint64),
	}
}

// ---------------------------------------------------------------------------------------------
// child processes

type c36Env struct {
	dolt string
	root string // scratch root of this test
	home string
	tmpl string // initialized repository template (directory named db)
}

var errC36Timeout = errors.New("child process timed out")

func (e *c36Env) run(dir string, stdin []byte, args ...string) (string, string, error) {
	ctx, cancel := context.WithTimeout(context.Background(), 300*time.Second)
	defer cancel()
	cmd := exec.CommandContext(ctx, e.dolt, args...)
	cmd.Dir = dir
	cmd.Env = append(os.Environ(), "HOME="+e.home, "DOLT_ROOT_PATH="+e.home, "NO_COLOR=1", "DOLT_DISABLE_EVENT_FLUSH=1", "TZ=UTC")
	if stdin != nil {
		cmd.Stdin = bytes.NewReader(stdin)
	}
	var out, errb bytes.Buffer
	cmd.Stdout, cmd.Stderr = &out, &errb
	err := cmd.Run()
	if ctx.Err() != nil {
		return out.String(), errb.String(), errC36Timeout
	}
	return out.String(), errb.String(), err
}

func c36Setup(t *testing.T) *c36Env {
	bin := filepath.Join(os.Getenv("VERIF_BIN_DIR"), "dolt")
	if os.Getenv("VERIF_BIN_DIR") == "" {
		vh.Inconclusive(t, "VERIF_BIN_DIR is not set")
	}
	if st, err := os.Stat(bin); err != nil || st.IsDir() {
		vh.Inconclusive(t, "dolt binary missing at %s", bin)
	}
	root, _ := vh.ScratchDir(t, "c36")
	e := &c36Env{dolt: bin, root: root, home: filepath.Join(root, "home"), tmpl: filepath.Join(root, "tmpl", "db")}
	for _, d := range []string{e.home, e.tmpl} {
		if err := os.MkdirAll(d, 0o755); err != nil {
			vh.Inconclusive(t, "mkdir: %v", err)
		}
	}
	for _, kv := range [][2]string{{"user.name", "verif"}, {"user.email", "verif@example.com"}, {"metrics.disabled", "true"}} {
		if _, se, err := e.run(e.root, nil, "config", "--global", "--add", kv[0], kv[1]); err != nil {
			vh.Inconclusive(t, "dolt config failed: %v %s", err, se)
		}
	}
	if _, se, err := e.run(e.tmpl, nil, "init"); err != nil {
		vh.Inconclusive(t, "dolt init failed: %v %s", err, se)
	}
	return e
}

func c36CopyTree(src, dst string) error {
	return filepath.WalkDir(src, func(p string, d fs.DirEntry, err error) error {
		if err != nil {
			return err
		}
		rel, _ := filepath.Rel(src, p)
		target := filepath.Join(dst, rel)
		if d.IsDir() {
			return os.MkdirAll(target, 0o755)
		}
		if !d.Type().IsRegular() {
			return nil
		}
		b, err := os.ReadFile(p)
		if err != nil {
			return err
		}
		return os.WriteFile(target, b, 0o644)
	})
}

// newRepo returns a fresh initialized repository directory <case>/<sub>/<base>.
func (e *c36Env) newRepo(caseDir, sub, base string) (string, error) {
	d := filepath.Join(caseDir, sub, base)
	if err := os.MkdirAll(d, 0o755); err != nil {
		return "", err
	}
	return d, c36CopyTree(e.tmpl, d)
}

// ---------------------------------------------------------------------------------------------
// observation

type c36Section struct {
	name string
	recs []string // one string per record (fields joined with a separator that cannot occur)
}

// c36ParseSections splits the CSV output of the fingerprint script into the marked sections; within
// a section the header record is dropped and the records are sorted (tables are multisets of rows).
func c36ParseSections(out string, names []string) ([]c36Section, error) {
	r := csv.NewReader(strings.NewReader(out))
	r.FieldsPerRecord = -1
	all, err := r.ReadAll()
	if err != nil {
		return nil, fmt.Errorf("csv: %v", err)
	}
	var secs []c36Section
	i := 0
	for i < len(all) {
		// expect header "m", then the mark
		if !(len(all[i]) == 1 && all[i][0] == "m" && i+1 < len(all) && len(all[i+1]) == 1 && all[i+1][0] == c36Mark) {
			return nil, fmt.Errorf("record %d: expected a section mark, got %q", i, all[i])
		}
		i += 2
		s := c36Section{}
		first := true
		for i < len(all) && !(len(all[i]) == 1 && all[i][0] == "m" && i+1 < len(all) && len(all[i+1]) == 1 && all[i+1][0] == c36Mark) {
			if !first { // skip the header of the result set
				s.recs = append(s.recs, strings.Join(all[i], " \x1f "))
			}
			first = false
			i++
		}
		sort.Strings(s.recs)
		secs = append(secs, s)
	}
	if len(secs) != len(names) {
		return nil, fmt.Errorf("expected %d sections, got %d", len(names), len(secs))
	}
	for i := range secs {
		secs[i].name = names[i]
	}
	return secs, nil
}

func c36Clip(s string) string {
	if len(s) > 900 {
		return s[:450] + "…(" + fmt.Sprint(len(s)) + " bytes)…" + s[len(s)-450:]
	}
	return s
}

func c36DiffSections(a, b []c36Section) string {
	var d strings.Builder
	for i := range a {
		if i >= len(b) {
			break
		}
		x, y := a[i].recs, b[i].recs
		if len(x) == len(y) {
			same := true
			for j := range x {
				if x[j] != y[j] {
					same = false
					break
				}
			}
			if same {
				continue
			}
		}
		fmt.Fprintf(&d, "section %q differs (source %d records, copy %d records)\n", a[i].name, len(x), len(y))
		inX := map[string]int{}
		for _, r := range x {
			inX[r]++
		}
		shown := 0
		for _, r := range y {
			if inX[r] > 0 {
				inX[r]--
				continue
			}
			if shown < 4 {
				fmt.Fprintf(&d, "  only in copy:   %s\n", c36Clip(r))
			}
			shown++
		}
		shown = 0
		for _, r := range x {
			if inX[r] > 0 {
				inX[r]--
				if shown < 4 {
					fmt.Fprintf(&d, "  only in source: %s\n", c36Clip(r))
				}
				shown++
			}
		}
	}
	return d.String()
}

// ---------------------------------------------------------------------------------------------
// the property

type c36Variant struct {
	noBatch, noAutocommit, noCreateDB, fileName bool
}

func (v c36Variant) String() string {
	var s []string
	if v.noBatch {
		s = append(s, "--no-batch")
	}
	if v.noAutocommit {
		s = append(s, "--no-autocommit")
	}
	if v.noCreateDB {
		s = append(s, "--no-create-db")
	}
	if v.fileName {
		s = append(s, "-fn")
	}
	if len(s) == 0 {
		return "default"
	}
	return strings.Join(s, " ")
}

func c36Hash(s string) string {
	h := fnv.New64a()
	_, _ = h.Write([]byte(s))
	return fmt.Sprintf("%016x", h.Sum64())
}

// c36RoundTrip runs one case. It returns ("", nil) on agreement, a description of the violation,
// or an error for environment trouble. skipped reports that dolt rejected the build script.
func (e *c36Env) sqlRoundTrip(db *c36DB, v c36Variant, keep bool) (violation string, skipped string, err error) {
	fp, names := db.fingerprintScript()
	return e.rawRoundTrip(db.buildScript(), fp, names, v, keep)
}

type c36Obs struct {
	secs    []c36Section
	skipped string
	err     error
}

// observeSourceAsync runs the fingerprint script on the source repository in the background (the
// caller meanwhile loads the copy, which lives in another repository).
func (e *c36Env) observeSourceAsync(src, fp string, names []string) <-chan c36Obs {
	ch := make(chan c36Obs, 1)
	go func() {
		out, se, err := e.run(src, []byte(fp), "sql", "-r", "csv")
		if err != nil {
			if err == errC36Timeout {
				ch <- c36Obs{err: err}
				return
			}
			ch <- c36Obs{skipped: "source not observable: " + c36Clip(se)}
			return
		}
		secs, perr := c36ParseSections(out, names)
		if perr != nil {
			ch <- c36Obs{err: fmt.Errorf("source observation unparsable: %v\n%s", perr, c36Clip(out))}
			return
		}
		ch <- c36Obs{secs: secs}
	}()
	return ch
}

// rawRoundTrip: build script -> source; dump; load into a fresh repository; compare the observations
// that the fingerprint script fp (sections names) makes on both.
func (e *c36Env) rawRoundTrip(build, fp string, names []string, v c36Variant, keep bool) (violation string, skipped string, err error) {
	caseDir, err := os.MkdirTemp(e.root, "case")
	if err != nil {
		return "", "", err
	}
	if !keep {
		defer os.RemoveAll(caseDir)
	}
	src, err := e.newRepo(caseDir, "src", "db")
	if err != nil {
		return "", "", err
	}
	dstBase := "db"
	if v.noCreateDB {
		dstBase = "other_name"
	}
	dst, err := e.newRepo(caseDir, "dst", dstBase)
	if err != nil {
		return "", "", err
	}
	if _, se, err := e.run(src, []byte(build), "sql"); err != nil {
		if err == errC36Timeout {
			return "", "", err
		}
		return "", "build rejected: " + se, nil
	}
	args := []string{"dump"}
	dumpFile := "doltdump.sql"
	if v.noBatch {
		args = append(args, "--no-batch")
	}
	if v.noAutocommit {
		args = append(args, "--no-autocommit")
	}
	if v.noCreateDB {
		args = append(args, "--no-create-db")
	}
	if v.fileName {
		args = append(args, "-fn", "my dump.sql")
		dumpFile = "my dump.sql"
	}
	if so, se, err := e.run(src, nil, args...); err != nil {
		if err == errC36Timeout {
			return "", "", err
		}
		return fmt.Sprintf("`dolt %s` failed: %v\nstdout: %s\nstderr: %s", strings.Join(args, " "), err, c36Clip(so), c36Clip(se)), "", nil
	}
	dump, err := os.ReadFile(filepath.Join(src, dumpFile))
	if err != nil {
		return fmt.Sprintf("`dolt %s` succeeded but wrote no %s: %v", strings.Join(args, " "), dumpFile, err), "", nil
	}
	srcCh := e.observeSourceAsync(src, fp, names) // overlaps with the load of the copy
	loadSo, loadSe, loadErr := e.run(dst, dump, "sql")
	srcObs := <-srcCh
	if srcObs.err != nil {
		return "", "", srcObs.err
	}
	if srcObs.skipped != "" {
		return "", srcObs.skipped, nil
	}
	srcSecs := srcObs.secs
	if loadErr != nil {
		if loadErr == errC36Timeout {
			return "", "", loadErr
		}
		return fmt.Sprintf("the dump cannot be loaded with `dolt sql < dump`: %v\nstdout: %s\nstderr: %s", loadErr, c36Clip(loadSo), c36Clip(loadSe)), "", nil
	}
	dstOut, se, err := e.run(dst, []byte(fp), "sql", "-r", "csv")
	if err != nil {
		if err == errC36Timeout {
			return "", "", err
		}
		return fmt.Sprintf("the copy cannot be observed like the source: %v\nstderr: %s", err, c36Clip(se)), "", nil
	}
	dstSecs, perr := c36ParseSections(dstOut, names)
	if perr != nil {
		return fmt.Sprintf("the copy's observation has another shape than the source's: %v", perr), "", nil
	}
	if d := c36DiffSections(srcSecs, dstSecs); d != "" {
		return d, "", nil
	}
	return "", "", nil
}

func c36DrawVariant(rt *rapid.T) c36Variant {
	return c36Variant{
		noBatch:      rapid.IntRange(0, 2).Draw(rt, "no-batch") == 0,
		noAutocommit: rapid.IntRange(0, 2).Draw(rt, "no-autocommit") == 0,
		noCreateDB:   rapid.IntRange(0, 3).Draw(rt, "no-create-db") == 0,
		fileName:     rapid.IntRange(0, 5).Draw(rt, "file-name") == 0,
	}
}

func TestVerif_C36(t *testing.T) {
	rec := vh.NewRecorder("C36", "sqldump", "exploration", c36Rule, c36Assumptions...)
	defer rec.Write(t)
	e := c36Setup(t)
	defer os.RemoveAll(e.root)
	gate := c36NewGate()
	var open []string
	for _, id := range []string{c36FBit, c36FGeo, c36FYear, c36FViewOrder, c36FTrigBlock, c36FEnumDef, c36FViewCmt, c36FEarlyYear, c36FFloatMax} {
		if c36IsOpen(id) {
			open = append(open, id)
		}
	}
	rec.Set("open_findings_excluded", open)
	keep := os.Getenv("C36_KEEP") != ""
	vh.Check(t, "sqldump", 16, 12, func(rt *rapid.T) {
		before := gate.excluded
		db := c36GenDB(rt, gate)
		v := c36DrawVariant(rt)
		rec.Excluded(gate.excluded - before)
		sum, classes := db.summary()
		build := db.buildScript()
		desc := fmt.Sprintf("dump[%s] %s build=%s", v, sum, c36Hash(build))
		nontrivial := classes["val:str_quote_bs"] && classes["val:bin_nul"] && classes["val:null"]
		cl := []string{"variant:" + v.String()}
		for k := range classes {
			cl = append(cl, k)
		}
		sort.Strings(cl)
		viol, skipped, err := e.sqlRoundTrip(db, v, keep)
		if err != nil {
			vh.Inconclusive(t, "child process trouble: %v", err)
		}
		if skipped != "" {
			rec.Case(desc, false, "build_rejected")
			tail := skipped
			if len(tail) > 300 {
				tail = tail[len(tail)-300:]
			}
			fmt.Printf("C36-BUILD-REJECTED: …%s\n", strings.ReplaceAll(tail, "\n", " | "))
			if os.Getenv("C36_STRICT_BUILD") != "" {
				rt.Fatalf("build rejected: %s\n%s", skipped, build)
			}
			rt.Skip("build rejected")
		}
		rec.Case(desc, nontrivial, cl...)
		if viol != "" {
			rt.Fatalf("C36 violated: dump[%s] and re-import do not reproduce the database.\n%s\n--- build script ---\n%s", v, viol, build)
		}
	})
}

// ---------------------------------------------------------------------------------------------
// file formats: dolt dump -r csv|json|parquet -> dolt table import -r into the same schema

var c36FormatsRule = "per case one of csv / json / parquet: a database of 1-2 tables from the C36 generator restricted to the value classes the format carries " +
	"(restriction list in the assumptions), `dolt dump -r <format>`, then in a fresh repository the generator's CREATE TABLE statements and `dolt table import -r <table> <file>` per table; " +
	"the rows of every table of source and copy are compared as multisets of (IS NULL, HEX()/CAST AS CHAR/...) observations. " +
	"Non-trivial: at least one string with a quote and a backslash and one NULL (parquet: also a binary value containing NUL); distinct by the hash of the build script and the format."

func (e *c36Env) formatRoundTrip(db *c36DB, format string, keep bool) (violation string, skipped string, err error) {
	fp, names := db.rowsFingerprintScript()
	var tables []string
	for i := range db.tables {
		tables = append(tables, db.tables[i].name)
	}
	return e.rawFormatRoundTrip(db.buildScript(), db.schemaScript(), tables, fp, names, format, keep)
}

func (e *c36Env) rawFormatRoundTrip(build, schema string, tables []string, fp string, names []string, format string, keep bool) (violation string, skipped string, err error) {
	caseDir, err := os.MkdirTemp(e.root, "fcase")
	if err != nil {
		return "", "", err
	}
	if !keep {
		defer os.RemoveAll(caseDir)
	}
	src, err := e.newRepo(caseDir, "src", "db")
	if err != nil {
		return "", "", err
	}
	dst, err := e.newRepo(caseDir, "dst", "db")
	if err != nil {
		return "", "", err
	}
	if _, se, err := e.run(src, []byte(build), "sql"); err != nil {
		if err == errC36Timeout {
			return "", "", err
		}
		return "", "build rejected: " + se, nil
	}
	if so, se, err := e.run(src, nil, "dump", "-r", format, "-d", "out"); err != nil {
		if err == errC36Timeout {
			return "", "", err
		}
		return fmt.Sprintf("`dolt dump -r %s` failed: %v\nstdout: %s\nstderr: %s", format, err, c36Clip(so), c36Clip(se)), "", nil
	}
	srcCh := e.observeSourceAsync(src, fp, names) // overlaps with the import into the copy
	importViol, importSkipped, importErr := e.importFiles(src, dst, schema, tables, format)
	srcObs := <-srcCh
	if srcObs.err != nil {
		return "", "", srcObs.err
	}
	if srcObs.skipped != "" {
		return "", srcObs.skipped, nil
	}
	srcSecs := srcObs.secs
	if importErr != nil || importSkipped != "" || importViol != "" {
		return importViol, importSkipped, importErr
	}
	dstOut, se, err := e.run(dst, []byte(fp), "sql", "-r", "csv")
	if err != nil {
		if err == errC36Timeout {
			return "", "", err
		}
		return fmt.Sprintf("the copy cannot be observed like the source: %v\nstderr: %s", err, c36Clip(se)), "", nil
	}
	dstSecs, perr := c36ParseSections(dstOut, names)
	if perr != nil {
		return fmt.Sprintf("the copy's observation has another shape than the source's: %v", perr), "", nil
	}
	return c36DiffSections(srcSecs, dstSecs), "", nil
}

// importFiles creates the schema in dst and imports <src>/out/<table>.<format> for every table.
func (e *c36Env) importFiles(src, dst, schema string, tables []string, format string) (violation string, skipped string, err error) {
	if _, se, err := e.run(dst, []byte(schema), "sql"); err != nil {
		if err == errC36Timeout {
			return "", "", err
		}
		return "", "schema rejected in the destination: " + se, nil
	}
	for _, name := range tables {
		file := filepath.Join(src, "out", name+"."+format)
		if _, err := os.Stat(file); err != nil {
			return fmt.Sprintf("`dolt dump -r %s` wrote no file for table %q: %v", format, name, err), "", nil
		}
		if so, se, err := e.run(dst, nil, "table", "import", "-r", name, file); err != nil {
			if err == errC36Timeout {
				return "", "", err
			}
			return fmt.Sprintf("`dolt table import -r %s %s.%s` failed: %v\nstdout: %s\nstderr: %s", name, name, format, err, c36Clip(so), c36Clip(se)), "", nil
		}
	}
	return "", "", nil
}

func TestVerif_C36_formats(t *testing.T) {
	var assumptions []string
	for _, f := range []string{"csv", "json", "parquet", "all"} {
		for _, r := range c36FormatRestrictions[f] {
			assumptions = append(assumptions, f+": "+r)
		}
	}
	assumptions = append(assumptions, c36Assumptions[0], c36Assumptions[1], c36Assumptions[4])
	rec := vh.NewRecorder("C36", "formats", "exploration", c36FormatsRule, assumptions...)
	defer rec.Write(t)
	e := c36Setup(t)
	defer os.RemoveAll(e.root)
	keep := os.Getenv("C36_KEEP") != ""
	vh.Check(t, "formats", 9, 7, func(rt *rapid.T) {
		format := []string{"csv", "json", "parquet"}[rapid.IntRange(0, 2).Draw(rt, "format")]
		gate := c36NewGate()
		gate.format = format
		db := c36GenFormatDB(rt, gate)
		rec.Excluded(gate.excluded)
		sum, classes := db.summary()
		build := db.buildScript()
		desc := fmt.Sprintf("format[%s] %s build=%s", format, sum, c36Hash(build))
		nontrivial := classes["val:str_quote_bs"] && classes["val:null"] && (format != "parquet" || classes["val:bin_nul"])
		cl := []string{"format:" + format}
		for k := range classes {
			cl = append(cl, k)
		}
		sort.Strings(cl)
		viol, skipped, err := e.formatRoundTrip(db, format, keep)
		if err != nil {
			vh.Inconclusive(t, "child process trouble: %v", err)
		}
		if skipped != "" {
			rec.Case(desc, false, "build_rejected")
			tail := skipped
			if len(tail) > 300 {
				tail = tail[len(tail)-300:]
			}
			fmt.Printf("C36-BUILD-REJECTED: …%s\n", strings.ReplaceAll(tail, "\n", " | "))
			rt.Skip("build rejected")
		}
		rec.Case(desc, nontrivial, cl...)
		rec.Class("format_restricted_draws", gate.restricted)
		if viol != "" {
			rt.Fatalf("C36 violated: dump -r %s and table import do not reproduce the rows.\n%s\n--- build script ---\n%s", format, viol, build)
		}
	})
}
