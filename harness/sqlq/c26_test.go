package sqlq

// C26 — Dolt returns the same query results as the reference engine.
//
// One generated case = a schema (1–3 tables, typed/collated columns, secondary indexes), rows,
// a few rounds of DML + dolt_commit, and a batch of queries from the grammar in
// c26_gen_test.go. Every statement is sent verbatim to dolt (in-process sql-server) and to a
// stock go-mysql-server engine over `memory` databases served in the same process; both result
// sets arrive through the same wire encoding and are compared as multisets of strings (in order
// when ORDER BY is total). Queries against earlier commits (AS OF hash / tag / main~n, or the
// revision database `db/hash`) are compared with memory databases rebuilt from the harness' own
// row model of that commit.

import (
	"fmt"
	"regexp"
	"sort"
	"strings"
	"testing"

	"pgregory.net/rapid"

	"github.com/dolthub/dolt/go/zzverif/vh"
	"github.com/dolthub/dolt/go/zzverif/vsql"
)

const c26Rule = "case = generated schema (1-3 tables; int/decimal/float/string(3 collations)/binary/date/time/enum/text columns; single, composite, prefix and unique secondary indexes, some built after load) + rows + DML/commit rounds + queries from a grammar (filters =,<>,<,<=,>,>=,<=>,BETWEEN,IN,IS NULL,LIKE prefix,NOT, nested AND/OR; ORDER BY total order with LIMIT/OFFSET; COUNT(*), also over IN lists / ORs of ranges that mix present and absent index values; GROUP BY + COUNT/SUM/MIN/MAX; DISTINCT; 2-3 table inner/left joins with hints, lookup joins driven by a multi-range index scan; AS OF earlier commits); each query is one evaluation, described by schema signature + query text. Non-trivial = dolt's EXPLAIN PLAN shows an index range scan (IndexedTableAccess with a bounded range), a LookupJoin or a MergeJoin, and the result is non-empty and (single-table queries) smaller than the table."

var c26Assumptions = []string{
	"reference = stock go-mysql-server engine over memory tables created with the same DDL (same keys and indexes) and loaded with the same statements; both engines share go-mysql-server's parser, analyzer and expression evaluation, so the comparison isolates dolt's storage, index range conversion, kv join executors, count fast path and AS OF resolution",
	"results of both engines travel through go-mysql-server's wire encoding and are compared as strings; no tolerance is used: FLOAT/DOUBLE data are dyadic rationals and SUM is taken only over columns whose partial sums are exact in float64 in any order (go-mysql-server sums non-decimal values as float64, and the two engines iterate in different orders)",
	"ordered comparison only when ORDER BY ends in the whole primary key of every joined table; otherwise multisets and no LIMIT",
	"GROUP BY / DISTINCT / MIN / MAX never project a column with a case- or accent-insensitive collation (which representative of collation-equal strings is returned is unspecified); DISTINCT over such columns is compared through COUNT(*)",
	"join conditions only between columns of the same type class (integers of any width/signedness; same collation for strings)",
	"dolt's background statistics worker is stopped (dolt_stats_stop) so that plans, and therefore the recorded plan classes, do not depend on timing; ANALYZE TABLE is issued explicitly (on dolt only) in some cases",
	"single-column UNIQUE indexes are not generated (a generated row must never be rejected); UNIQUE indexes always contain the primary key",
	"while finding " + c26FindValueRowNull + " is listed open, a disagreement where dolt's plan has a Filter whose whole condition is a single <= or >= comparison and dolt's rows are a superset of the reference rows is attributed to it (counted as excluded_known); the pinned sub-test reports it",
	"grammar exclusion (go-mysql-server bug shared by both engines, visible only when the two planners pick different plans): predicate literals for DECIMAL columns never take the extreme values of the type (`deccol <> 99999999.99` on an indexed column becomes the range (NULL, ∞) with the filter dropped); replaced literals are counted as excluded_known",
	"while finding " + c26FindDecimalLookup + " is listed open, a disagreement on a join whose ON equality is between DECIMAL columns and whose dolt plan contains a LookupJoin is attributed to it (counted as excluded_known); the pinned sub-test reports it",
	"while finding " + c26FindKeylessLookupNull + " is listed open, a disagreement on a join that involves a keyless table and whose dolt plan contains a LookupJoin is attributed to it (counted as excluded_known); the pinned sub-test reports it",
	"while finding " + c26FindMergePrefix + " is listed open, a disagreement on a join over a table that has a prefix index and whose dolt plan contains a MergeJoin is attributed to it (counted as excluded_known); the pinned sub-test reports it",
	"while finding " + c26FindLookupPrefix + " is listed open, a disagreement on a join over a table that has a prefix index and whose dolt plan contains a LookupJoin is attributed to it (counted as excluded_known); the pinned sub-test reports it",
	"while finding " + c26FindPrefixLower + " is listed open, a disagreement where dolt returns a subset of the reference rows for a query over a table with a prefix index and dolt's plan uses an index is attributed to it (counted as excluded_known); the pinned sub-test reports it",
	"while finding " + c26FindPrefixOnPK + " is listed open, secondary indexes get no prefix length on primary-key columns (counted as excluded_known); the pinned sub-test reports it",
	"a case in which the memory engine rejects an INSERT of distinct composite keys with 'duplicate primary key given' (dolt accepts it) is skipped (counted as excluded_known, class reference_rejected_insert)",
	"UPDATE never assigns a column with a case/accent-insensitive collation (the memory engine keeps the old bytes when the new value is collation-equal, e.g. 'ä' -> 'A' under utf8mb4_general_ci; skipped assignments are counted as excluded_known)",
	"a secondary index the memory engine fails to build is dropped from dolt as well (counted as excluded_known, class reference_rejected_index)",
	"a query on which the reference engine's connection dies (the memory engine panicked) is skipped and counted as excluded_known (class reference_engine_crashed); when dolt's connection dies on the same query as well (a panic in go-mysql-server's shared analyzer, seen for `varbinarycol = x AND varbinarycol IN (...)`) both are reopened (class both_engines_crashed)",
	"while finding " + c26FindPrefixOverlap + " is listed open, a disagreement (no LIMIT) where dolt returns every reference row plus extra rows (copies, or — for a multi-range scan — rows the trimmed ranges let through), for a query over a table with a prefix index and an index scan in dolt's plan, is attributed to it (counted as excluded_known); the pinned sub-test reports it",
	"while finding " + c26FindLeftMerge + " is listed open, a disagreement whose dolt plan contains a LeftOuterMergeJoin and where dolt returns no more rows than the reference is attributed to it (counted as excluded_known); the pinned sub-test reports it",
	"while finding " + c26FindPrefixMB + " is listed open, a COUNT query over a table with a prefix index whose dolt plan uses an index and whose dolt count is smaller than the reference count is attributed to it; row-returning queries that lose rows the same way fall under the subset gate of " + c26FindPrefixLower + " (both counted as excluded_known); the pinned sub-test reports it",
	"while finding " + c26FindCIRanges + " is listed open, a disagreement (no LIMIT) on a query with an IN list whose dolt plan is a multi-range index scan and where dolt returns the reference rows with extra copies (or a larger COUNT) is attributed to it (counted as excluded_known); the pinned sub-test reports it",
	"while finding " + c26FindHashJoinKey + " is listed open (not minimised, replays saved), a disagreement on a join with a collated key column or a literal comparison in ON whose dolt plan contains a HashLookup and where dolt returns fewer rows than the reference is attributed to it (counted as excluded_known)",
	"grammar exclusion (go-mysql-server bug shared by both engines): GROUP BY takes at most one string/binary column, because the grouping key concatenates the values and ('', ' ') collides with (' ', ''); skipped group columns are counted as excluded_known",
	"while finding " + c26FindMergeKeylessCI + " is listed open, a disagreement on a join that involves a keyless table and a collated key column and whose dolt plan contains a MergeJoin is attributed to it (counted as excluded_known); the pinned sub-test reports it",
	"while finding " + c26FindHashJoinExtra + " is listed open (not minimised, replays saved), a disagreement on a join with a collated key column or a BIGINT = BIGINT UNSIGNED key whose dolt plan contains a HashLookup and where dolt returns more rows than the reference is attributed to it (counted as excluded_known)",
	"while findings " + c26FindCountColIndex + " / " + c26FindLeftOnLiteral + " are listed open (not minimised, replays saved), disagreements of exactly their plan shapes (COUNT(col) over an unfiltered index scan; LEFT JOIN with a literal comparison in ON run as LeftOuterLookupJoin/LeftOuterHashJoin returning more rows) are attributed to them (counted as excluded_known)",
	"grammar exclusion (go-mysql-server bug shared by both engines): a disagreement on a join with a _ci/_ai_ci collated key column where either engine's plan contains a HashLookup is not compared (the hash join is wrong in both engines and each returns a different wrong subset; counted as excluded_known, documented by the pinned sub-test pinned_hashjoin_accent_insensitive_key)",
	"grammar exclusion (go-mysql-server bug shared by both engines): no negated equality (<>, NOT IN, NOT BETWEEN, NOT(...)) on DECIMAL columns: the shared range builder turns it into the range (NULL, ∞) and the memory engine drops the filter (returns the rows equal to the literal); avoided draws are counted as excluded_known",
	"grammar exclusion (go-mysql-server bug shared by both engines): no `<=>` on columns with a case/accent-insensitive collation (as a filter it compares bytes, as an index range it compares by collation: `c <=> 'á'` matches 'a' only through an index); replaced operators are counted as excluded_known",
	"grammar exclusion (go-mysql-server bug shared by both engines): integer columns are not compared with fractional literals (`intcol > 11.75` becomes the range (12, ∞) under a merge-join plan and loses 12 in both engines); avoided draws are counted as excluded_known",
	"while finding " + c26FindKeylessCount + " is listed open, `SELECT COUNT(col) FROM <keyless table>` is not generated (counted as excluded_known); the pinned sub-test reports it",
}

var qTableMarker = regexp.MustCompile(`\{T:([a-z0-9]+)\}`)

// qRender replaces the table markers. mode: "" head, "asof" (rev = hash, tag or main~n),
// "revdb" (rev = hash; table qualified with the revision database).
func qRender(sql, mode, db, rev string) string {
	return qTableMarker.ReplaceAllStringFunc(sql, func(m string) string {
		name := qTableMarker.FindStringSubmatch(m)[1]
		switch mode {
		case "asof":
			return fmt.Sprintf("`%s` AS OF '%s'", name, rev)
		case "revdb":
			return fmt.Sprintf("`%s/%s`.`%s`", db, rev, name)
		}
		return "`" + name + "`"
	})
}

type qCommit struct {
	Hash   string
	Tag    string
	MemDB  string
	Tables []*qTable
}

type qCase struct {
	rt      *rapid.T
	rec     *vh.Recorder
	db      string
	d       *vsql.Session
	m       *qConn
	mem     *qMem
	srv     *vsql.Server
	mCur    string
	tables  []*qTable
	commits []qCommit
	script  []string
	sig     string
}

func (c *qCase) both(sql string) {
	c.script = append(c.script, sql+";")
	if err := c.d.Exec(sql); err != nil {
		c.rt.Fatalf("HARNESS/dolt rejected setup statement %s: %v", qClip(sql, 600), err)
	}
	c.memUse(c.db)
	if err := c.m.Exec(sql); err != nil && strings.Contains(err.Error(), "duplicate primary key given") {
		// memory-engine bug: it reports a duplicate primary key for rows whose composite keys are
		// distinct (dolt accepted the same statement); the case cannot be compared
		c.rec.Excluded(1)
		c.rec.Class("reference_rejected_insert", 1)
		c.rt.Skip("memory engine rejected an INSERT of distinct keys")
	} else if err != nil {
		c.rt.Fatalf("HARNESS/memory engine rejected setup statement %s: %v\n--- script ---\n%s", qClip(sql, 600), err, qClip(c.scriptText(), 3000))
	}
}

func (c *qCase) memUse(db string) {
	if c.mCur != db {
		c.m.MustExec(c.rt, "USE `"+db+"`")
		c.mCur = db
	}
}

func (c *qCase) scriptText() string {
	s := strings.Join(c.script, "\n")
	if len(s) > 30000 {
		s = s[:30000] + "\n…(clipped)"
	}
	return s
}

// commit makes a dolt commit of everything and builds the reference database of that commit
// from the row model.
func (c *qCase) commit(madmin *qConn) {
	k := len(c.commits)
	sql := fmt.Sprintf("CALL dolt_commit('-A','--allow-empty','-m','c%d')", k)
	c.script = append(c.script, sql+";")
	r := c.d.MustQuery(c.rt, sql)
	if len(r.Data) != 1 {
		c.rt.Fatalf("HARNESS: dolt_commit returned %v", r)
	}
	cm := qCommit{Hash: r.Data[0][0], Tag: fmt.Sprintf("v%d", k), MemDB: fmt.Sprintf("%s_s%d", c.db, k)}
	tagSQL := fmt.Sprintf("CALL dolt_tag('%s')", cm.Tag)
	c.script = append(c.script, tagSQL+";")
	c.d.MustExec(c.rt, tagSQL)
	madmin.MustExec(c.rt, "CREATE DATABASE `"+cm.MemDB+"`")
	c.memUse(cm.MemDB)
	for _, t := range c.tables {
		s := t.snapshot()
		cm.Tables = append(cm.Tables, s)
		c.m.MustExec(c.rt, t.createDDL(true))
		rows := s.allRows()
		for i := 0; i < len(rows); i += 50 {
			j := i + 50
			if j > len(rows) {
				j = len(rows)
			}
			if err := c.m.Exec(qInsertSQL(t, rows[i:j])); err != nil {
				if strings.Contains(err.Error(), "duplicate primary key given") {
					c.rec.Excluded(1)
					c.rec.Class("reference_rejected_insert", 1)
					c.rt.Skip("memory engine rejected an INSERT of distinct keys")
				}
				c.rt.Fatalf("HARNESS/memory engine rejected a snapshot INSERT into %s: %v", t.Name, err)
			}
		}
		// the model must describe what the head reference database holds, or every AS OF
		// comparison below would blame dolt for a harness mistake
		snap, err := c.m.Query("SELECT * FROM `" + t.Name + "`")
		if err != nil {
			c.rt.Fatalf("HARNESS: %v", err)
		}
		c.memUse(c.db)
		head, err := c.m.Query("SELECT * FROM `" + t.Name + "`")
		if err != nil {
			c.rt.Fatalf("HARNESS: %v", err)
		}
		if !vsql.EqualStrings(snap.Sorted(), head.Sorted()) {
			c.rt.Fatalf("HARNESS: row model of %s diverged from the reference head database:\nonly model %s\nonly head  %s\n--- script ---\n%s", t.Name, qOnly(snap, head), qOnly(head, snap), qClip(c.scriptText(), 6000))
		}
		c.memUse(cm.MemDB)
	}
	c.commits = append(c.commits, cm)
}

func (c *qCase) dml() {
	n := rapid.IntRange(1, 12).Draw(c.rt, "ndml")
	for i := 0; i < n; i++ {
		t := c.tables[rapid.IntRange(0, len(c.tables)-1).Draw(c.rt, "dml.table")]
		op := rapid.SampledFrom([]string{"insert", "insert", "delete", "update", "update"}).Draw(c.rt, "dml.op")
		if t.NPK == 0 || len(t.Rows) == 0 {
			op = "insert"
		}
		switch op {
		case "insert":
			k := rapid.IntRange(1, 4).Draw(c.rt, "dml.nins")
			var rows [][]string
			for j := 0; j < k; j++ {
				row, ok := qGenRow(c.rt, t)
				if !ok {
					continue
				}
				if t.NPK > 0 {
					t.Rows[t.key(row)] = row
				} else {
					t.List = append(t.List, row)
				}
				rows = append(rows, row)
			}
			if len(rows) > 0 {
				c.both(qInsertSQL(t, rows))
			}
		case "delete":
			ks := t.keys()
			key := ks[rapid.IntRange(0, len(ks)-1).Draw(c.rt, "dml.key")]
			c.both(fmt.Sprintf("DELETE FROM `%s` WHERE %s", t.Name, t.pkWhere(t.Rows[key])))
			delete(t.Rows, key)
		case "update":
			ks := t.keys()
			key := ks[rapid.IntRange(0, len(ks)-1).Draw(c.rt, "dml.key")]
			row := t.Rows[key]
			var sets []string
			nset := rapid.IntRange(1, 2).Draw(c.rt, "dml.nset")
			done := map[int]bool{}
			for j := 0; j < nset; j++ {
				ci := rapid.IntRange(t.NPK, len(t.Cols)-1).Draw(c.rt, "dml.col")
				if done[ci] {
					continue
				}
				if t.Cols[ci].Kind.caseInsensitive() {
					// memory-engine quirk: UPDATE to a collation-equal but byte-different value ('ä' ->
					// 'A' under general_ci) is treated as "unchanged" and the old bytes are kept
					c.rec.Excluded(1)
					c.rec.Class("excluded:update_of_ci_column", 1)
					continue
				}
				done[ci] = true
				v := qGenVal(c.rt, &t.Cols[ci])
				sets = append(sets, fmt.Sprintf("`%s` = %s", t.Cols[ci].Name, v))
				row[ci] = v
			}
			if len(sets) > 0 {
				c.both(fmt.Sprintf("UPDATE `%s` SET %s WHERE %s", t.Name, strings.Join(sets, ", "), t.pkWhere(row)))
			}
		}
	}
}

var qRangeRe = regexp.MustCompile(`filters: \[(.*)\]`)

// qPlanClasses extracts the plan classes from dolt's EXPLAIN PLAN output.
func qPlanClasses(plan []string) (classes []string, kv bool) {
	text := strings.Join(plan, "\n")
	add := func(c string) { classes = append(classes, "plan="+c) }
	bounded := false
	for _, m := range qRangeRe.FindAllStringSubmatch(text, -1) {
		if m[1] != "{[NULL, ∞)}" {
			bounded = true
		}
	}
	ita := strings.Contains(text, "IndexedTableAccess")
	switch {
	case bounded:
		add("index_range")
	case ita && strings.Contains(text, "filters:"):
		add("index_full_scan")
	}
	for _, j := range []string{"LeftOuterLookupJoin", "LeftOuterMergeJoin", "LeftOuterHashJoin", "LeftOuterJoin", "CrossJoin", "RangeHeapJoin", "SemiJoin", "AntiJoin"} {
		if strings.Contains(text, j) {
			add(j)
		}
	}
	stripped := strings.NewReplacer("LeftOuterLookupJoin", "", "LeftOuterMergeJoin", "", "LeftOuterHashJoin", "").Replace(text)
	for _, j := range []string{"LookupJoin", "MergeJoin", "HashJoin", "InnerJoin"} {
		if strings.Contains(stripped, j) {
			add(j)
		}
	}
	if strings.Contains(text, "table_count(") {
		add("count_fastpath")
	}
	if strings.Contains(text, "Table") && !ita {
		add("table_scan_only")
	}
	if strings.Contains(text, "Filter") {
		add("residual_filter")
	}
	kv = bounded || strings.Contains(text, "LookupJoin") || strings.Contains(text, "MergeJoin")
	return classes, kv
}

// c26Exclusion names the grammar exclusion a query falls under ("" = none). Exclusions are
// the outcome of triaging disagreements that turned out not to be dolt defects; each is listed
// in the recorder's assumptions and counted through rec.Excluded.
func c26Exclusion(q qQuery) string {
	if q.has("keyless_count_column") && vh.OpenFinding("C26", c26FindKeylessCount) {
		return c26FindKeylessCount
	}
	return ""
}

// c26FindValueRowNull: go-mysql-server's ValueRow fast path (taken only over dolt's iterators,
// from the wire handler) evaluates `NULL <= x` and `NULL >= x` to TRUE in a Filter whose whole
// condition is that one numeric comparison.
const c26FindValueRowNull = "C26-valuerow-null-comparison"

var c26ValueRowFilterRe = regexp.MustCompile(`Filter\n\s*├─ \([^()\n]+ (<=|>=) [^()\n]+\)\n`)

func c26ValueRowNullShape(plan []string) bool {
	return c26ValueRowFilterRe.MatchString(strings.Join(plan, "\n") + "\n")
}

func c26PinnedValueRowNull(t *testing.T, srv *vsql.Server, admin *vsql.Session) string {
	db := srv.NewDBName()
	admin.MustExec(t, "CREATE DATABASE "+db)
	defer admin.Exec("DROP DATABASE " + db)
	s := srv.Session(t, "pinned", db)
	defer s.Close()
	s.MustExec(t, "CREATE TABLE t (pk INT PRIMARY KEY, c INT UNSIGNED)")
	s.MustExec(t, "INSERT INTO t VALUES (1,3),(2,NULL)")
	var bad []string
	for _, q := range []string{"SELECT pk, c FROM t WHERE c <= 10", "SELECT pk, c FROM t WHERE c >= 0", "SELECT pk, c FROM t WHERE c < 11", "SELECT pk, c FROM t WHERE c > 0"} {
		r := s.MustQuery(t, q)
		if got := vsql.Show(r.Sorted()); got != "(1,3)" {
			bad = append(bad, fmt.Sprintf("%s returned %s want (1,3)", q, got))
		}
	}
	if len(bad) > 0 {
		return "t(pk INT PRIMARY KEY, c INT UNSIGNED) rows (1,3),(2,NULL): " + strings.Join(bad, "; ")
	}
	return ""
}

// c26FindDecimalLookup: the lax secondary lookups behind dolt's lookup join scan the key range
// [key, IncrementTuple(key)) as if it were a point lookup, and IncrementTuple adds the integer 1
// to a DECIMAL key: every index entry in [key, key+1) joins.
const c26FindDecimalLookup = "C26-decimal-lookup-keyrange"

func c26PinnedDecimalLookup(t *testing.T, srv *vsql.Server, admin *vsql.Session) string {
	db := srv.NewDBName()
	admin.MustExec(t, "CREATE DATABASE "+db)
	defer admin.Exec("DROP DATABASE " + db)
	s := srv.Session(t, "pinned", db)
	defer s.Close()
	s.MustExec(t, "CREATE TABLE b (k0 VARCHAR(8) PRIMARY KEY, c0 DECIMAL(10,2), c1 INT, KEY i0 (c0))")
	s.MustExec(t, "CREATE TABLE a (k0 INT PRIMARY KEY, k1 DECIMAL(10,2))")
	s.MustExec(t, "INSERT INTO b VALUES ('c',0.01,1),('d',NULL,2),('e',7.50,3)")
	s.MustExec(t, "INSERT INTO a VALUES (1,0.01),(2,-0.01),(3,0.00),(4,-0.09),(5,0.05),(6,-1.03)")
	q := "SELECT /*+ JOIN_ORDER(a,b) LOOKUP_JOIN(a,b) */ a.k0, b.c1 FROM a JOIN b ON a.k1 = b.c0"
	r := s.MustQuery(t, q)
	if got := vsql.Show(r.Sorted()); got != "(1,1)" {
		p := s.MustQuery(t, "EXPLAIN PLAN "+q)
		return fmt.Sprintf("b(k0,c0 DECIMAL(10,2) indexed,c1) = {('c',0.01,1),('d',NULL,2),('e',7.50,3)}, a(k0,k1 DECIMAL(10,2)) = {(1,0.01),(2,-0.01),(3,0.00),(4,-0.09),(5,0.05),(6,-1.03)}: %s returned (a.k0,b.c1) %s want (1,1); plan %s", q, got, strings.Join(p.Ordered(), " / "))
	}
	return ""
}

// c26FindKeylessLookupNull: keylessSecondaryLookupGen (lookup side of a kv lookup join is a
// keyless table) does not skip NULL keys like the keyed generators do: NULL = NULL joins.
const c26FindKeylessLookupNull = "C26-keyless-lookup-null-key"

func c26PinnedKeylessLookupNull(t *testing.T, srv *vsql.Server, admin *vsql.Session) string {
	db := srv.NewDBName()
	admin.MustExec(t, "CREATE DATABASE "+db)
	defer admin.Exec("DROP DATABASE " + db)
	s := srv.Session(t, "pinned", db)
	defer s.Close()
	s.MustExec(t, "CREATE TABLE t1 (c0 INT, c1 INT, KEY i1 (c0))")
	s.MustExec(t, "INSERT INTO t1 VALUES (NULL,1),(NULL,2),(5,3)")
	q := "SELECT /*+ LOOKUP_JOIN(a,b) */ a.c1, b.c1 FROM t1 a JOIN t1 b ON a.c0 = b.c0"
	r := s.MustQuery(t, q)
	if got := vsql.Show(r.Sorted()); got != "(3,3)" {
		p := s.MustQuery(t, "EXPLAIN PLAN "+q)
		return fmt.Sprintf("keyless t1(c0 INT indexed, c1 INT) = {(NULL,1),(NULL,2),(5,3)}: %s returned %s want (3,3); plan %s", q, got, strings.Join(p.Ordered(), " / "))
	}
	return ""
}

// c26FindMergePrefix: go-mysql-server plans a merge join over a prefix index (KEY (c(1))); dolt's
// prefix index is ordered by the prefix only, so the merge misses matches between values that
// share the prefix (the memory engine's "prefix" index is ordered by the full value).
const c26FindMergePrefix = "C26-mergejoin-prefix-index"

func c26PinnedMergePrefix(t *testing.T, srv *vsql.Server, admin *vsql.Session) string {
	db := srv.NewDBName()
	admin.MustExec(t, "CREATE DATABASE "+db)
	defer admin.Exec("DROP DATABASE " + db)
	s := srv.Session(t, "pinned", db)
	defer s.Close()
	s.MustExec(t, "CREATE TABLE t0 (k0 INT PRIMARY KEY, c0 VARBINARY(16) NOT NULL, KEY i2 (c0(1)))")
	s.MustExec(t, "INSERT INTO t0 VALUES (1,0x6100),(2,0x61),(3,0x6100),(4,0x61),(5,0x6100),(6,0x61)")
	q := "SELECT /*+ MERGE_JOIN(a,b) */ COUNT(*) FROM t0 a JOIN t0 b ON a.c0 = b.c0"
	got, _ := s.Scalar(t, q)
	if got != "18" {
		p := s.MustQuery(t, "EXPLAIN PLAN "+q)
		return fmt.Sprintf("t0(k0 PK, c0 VARBINARY(16), KEY (c0(1))) = {(1,0x6100),(2,0x61),(3,0x6100),(4,0x61),(5,0x6100),(6,0x61)}: %s returned %s want 18; plan %s", q, got, strings.Join(p.Ordered(), " / "))
	}
	return ""
}

// c26FindLookupPrefix: dolt's kv lookup join copies the full outer value into the key of a prefix
// index (KEY (c(1))) without trimming it to the prefix length: values longer than the prefix
// never match.
const c26FindLookupPrefix = "C26-lookupjoin-prefix-index"

func c26PinnedLookupPrefix(t *testing.T, srv *vsql.Server, admin *vsql.Session) string {
	db := srv.NewDBName()
	admin.MustExec(t, "CREATE DATABASE "+db)
	defer admin.Exec("DROP DATABASE " + db)
	s := srv.Session(t, "pinned", db)
	defer s.Close()
	s.MustExec(t, "CREATE TABLE t0 (k0 INT PRIMARY KEY, c0 VARBINARY(16) NOT NULL, KEY i2 (c0(1)))")
	s.MustExec(t, "CREATE TABLE t1 (k0 INT PRIMARY KEY, c1 VARBINARY(16))")
	s.MustExec(t, "INSERT INTO t0 VALUES (1,0x6100),(2,0x61),(3,0x62)")
	s.MustExec(t, "INSERT INTO t1 VALUES (1,0x6100),(2,0x61)")
	q := "SELECT /*+ JOIN_ORDER(a,b) LOOKUP_JOIN(a,b) */ a.k0, b.k0 FROM t1 a JOIN t0 b ON a.c1 = b.c0"
	r := s.MustQuery(t, q)
	if got := vsql.Show(r.Sorted()); got != "(1,1) (2,2)" {
		p := s.MustQuery(t, "EXPLAIN PLAN "+q)
		return fmt.Sprintf("t0(k0 PK, c0 VARBINARY(16), KEY (c0(1))) = {(1,0x6100),(2,0x61),(3,0x62)}, t1(k0 PK, c1) = {(1,0x6100),(2,0x61)}: %s returned %s want (1,1) (2,2); plan %s", q, got, strings.Join(p.Ordered(), " / "))
	}
	return ""
}

// c26FindPrefixLower: doltIndex.prollyRangesFromSqlRanges keeps an open lower bound open on a
// prefix-indexed column, so `c > 'a'` (and `c <> 'a'`) over KEY (c(1)) skips every entry whose
// stored prefix equals the bound although the full value ('aB') is greater.
const c26FindPrefixLower = "C26-prefix-index-open-lower-bound"

func c26PinnedPrefixLower(t *testing.T, srv *vsql.Server, admin *vsql.Session) string {
	db := srv.NewDBName()
	admin.MustExec(t, "CREATE DATABASE "+db)
	defer admin.Exec("DROP DATABASE " + db)
	s := srv.Session(t, "pinned", db)
	defer s.Close()
	s.MustExec(t, "CREATE TABLE t0 (k0 INT PRIMARY KEY, c1 TEXT NOT NULL, KEY i0 (c1(1)))")
	s.MustExec(t, "INSERT INTO t0 VALUES (1,'aB'),(2,'a'),(3,'e'),(4,'A')")
	var bad []string
	for _, p := range [][2]string{{"SELECT k0 FROM t0 WHERE c1 > 'a'", "(1) (3)"}, {"SELECT k0 FROM t0 WHERE c1 <> 'a'", "(1) (3) (4)"}, {"SELECT k0 FROM t0 WHERE c1 >= 'a'", "(1) (2) (3)"}, {"SELECT k0 FROM t0 WHERE c1 < 'aB'", "(2) (4)"}} {
		r := s.MustQuery(t, p[0])
		if got := vsql.Show(r.Sorted()); got != p[1] {
			bad = append(bad, fmt.Sprintf("%s returned %s want %s", p[0], got, p[1]))
		}
	}
	if len(bad) > 0 {
		return "t0(k0 PK, c1 TEXT, KEY (c1(1))) = {(1,'aB'),(2,'a'),(3,'e'),(4,'A')}: " + strings.Join(bad, "; ")
	}
	return ""
}

// c26FindPrefixOnPK: a secondary index with a prefix length on a primary-key column (KEY (c2,
// k1(1)) with k1 in the primary key) is left inconsistent by UPDATE: the next scan of that index
// panics with "malformed tuple" (the primary-key lookup built from the index entry finds no row).
const c26FindPrefixOnPK = "C26-prefix-index-on-pk-update"

func c26PinnedPrefixOnPK(t *testing.T, srv *vsql.Server, admin *vsql.Session) string {
	db := srv.NewDBName()
	admin.MustExec(t, "CREATE DATABASE "+db)
	defer admin.Exec("DROP DATABASE " + db)
	s := srv.Session(t, "pinned", db)
	defer s.Close()
	s.MustExec(t, "CREATE TABLE t0 (k0 INT NOT NULL, k1 VARCHAR(16) NOT NULL, c2 VARCHAR(8), PRIMARY KEY (k0,k1), KEY i0 (c2, k1(1)))")
	s.MustExec(t, "INSERT INTO t0 VALUES (1,'za','A'),(2,'b','B')")
	s.MustExec(t, "UPDATE t0 SET c2 = 'a' WHERE k0 = 1 AND k1 = 'za'")
	q := "SELECT k0, k1, c2 FROM t0 FORCE INDEX (i0) WHERE c2 IS NOT NULL"
	r, err := s.Query(q)
	if err != nil {
		return "t0(k0, k1 VARCHAR(16), c2, PRIMARY KEY (k0,k1), KEY i0 (c2, k1(1))) rows (1,'za','A'),(2,'b','B'); UPDATE t0 SET c2='a' WHERE k0=1 AND k1='za'; " + q + " fails: " + qClip(err.Error(), 120)
	}
	if got := vsql.Show(r.Sorted()); got != "(1,za,a) (2,b,B)" {
		return q + " returned " + got + " want (1,za,a) (2,b,B)"
	}
	return ""
}

// c26FindPrefixOverlap: prollyRangesFromSqlRanges trims range bounds to the prefix length, which
// makes the disjoint ranges of one scan overlap; dolt scans every range separately and returns
// the rows in the overlap once per range.
const c26FindPrefixOverlap = "C26-prefix-index-overlapping-ranges"

// qSameSet reports whether a and b contain the same distinct rows.
func qSameSet(a, b *vsql.Rows) bool {
	sa, sb := map[string]bool{}, map[string]bool{}
	for _, r := range a.Sorted() {
		sa[r] = true
	}
	for _, r := range b.Sorted() {
		sb[r] = true
	}
	if len(sa) != len(sb) {
		return false
	}
	for k := range sa {
		if !sb[k] {
			return false
		}
	}
	return true
}

func c26PinnedPrefixOverlap(t *testing.T, srv *vsql.Server, admin *vsql.Session) string {
	db := srv.NewDBName()
	admin.MustExec(t, "CREATE DATABASE "+db)
	defer admin.Exec("DROP DATABASE " + db)
	s := srv.Session(t, "pinned", db)
	defer s.Close()
	s.MustExec(t, "CREATE TABLE t (k INT PRIMARY KEY, c VARCHAR(16), KEY i (c(1), k))")
	s.MustExec(t, "INSERT INTO t VALUES (1,'a'),(2,'a'),(3,'ab'),(7,'abc'),(8,'b')")
	q := "SELECT k, c FROM t WHERE c NOT IN ('ab','abc') OR k >= 5"
	r := s.MustQuery(t, q)
	if got := vsql.Show(r.Sorted()); got != "(1,a) (2,a) (7,abc) (8,b)" {
		return "t(k INT PK, c VARCHAR(16), KEY i (c(1), k)) = {(1,'a'),(2,'a'),(3,'ab'),(7,'abc'),(8,'b')}: " + q + " returned " + got + " want (1,a) (2,a) (7,abc) (8,b)"
	}
	return ""
}

// c26FindLeftMerge: the kv merge join re-runs its right-side lookahead when a left row that
// compares equal to the current right key produced no row (NULL keys, or a failing extra ON
// condition) and the next left row has the same key: the stashed next right row is dropped and
// the following key group loses its first inner row.
const c26FindLeftMerge = "C26-left-mergejoin-first-inner-row"

func c26PinnedLeftMerge(t *testing.T, srv *vsql.Server, admin *vsql.Session) string {
	db := srv.NewDBName()
	admin.MustExec(t, "CREATE DATABASE "+db)
	defer admin.Exec("DROP DATABASE " + db)
	s := srv.Session(t, "pinned", db)
	defer s.Close()
	s.MustExec(t, "CREATE TABLE a (k INT PRIMARY KEY, c INT, KEY i (c))")
	s.MustExec(t, "CREATE TABLE b (k INT PRIMARY KEY, c INT, KEY i (c))")
	s.MustExec(t, "INSERT INTO a VALUES (1,NULL),(2,NULL),(3,7)")
	s.MustExec(t, "INSERT INTO b VALUES (10,NULL),(11,7)")
	q := "SELECT /*+ MERGE_JOIN(x,y) */ x.k, y.k FROM a x LEFT JOIN b y ON x.c = y.c"
	r := s.MustQuery(t, q)
	if got := vsql.Show(r.Sorted()); got != "(1,NULL) (2,NULL) (3,11)" {
		p := s.MustQuery(t, "EXPLAIN PLAN "+q)
		return "a(k PK, c indexed) = {(1,NULL),(2,NULL),(3,7)}, b(k PK, c indexed) = {(10,NULL),(11,7)}: " + q + " returned " + got + " want (1,NULL) (2,NULL) (3,11); plan " + strings.Join(p.Ordered()[:3], " / ")
	}
	return ""
}

// c26FindPrefixMB: a prefix index over a column with a case-insensitive collation loses rows whose
// indexed prefix starts with a multi-byte character (`c = 'a'` misses 'á', `c <= 'z'` misses 'á',
// 'ß'): the stored prefix does not compare like the full value under the collation.
const c26FindPrefixMB = "C26-prefix-index-multibyte-collation"

func c26PinnedPrefixMB(t *testing.T, srv *vsql.Server, admin *vsql.Session) string {
	db := srv.NewDBName()
	admin.MustExec(t, "CREATE DATABASE "+db)
	defer admin.Exec("DROP DATABASE " + db)
	s := srv.Session(t, "pinned", db)
	defer s.Close()
	s.MustExec(t, "CREATE TABLE t (k INT PRIMARY KEY, c VARCHAR(8) COLLATE utf8mb4_general_ci, KEY i (c(1), k))")
	s.MustExec(t, "INSERT INTO t VALUES (1,'á'),(2,'a'),(3,'z'),(4,'ß'),(5,'ab')")
	var bad []string
	for _, p := range [][2]string{{"SELECT k FROM t WHERE c = 'a'", "(1) (2)"}, {"SELECT k FROM t WHERE c <= 'z'", "(1) (2) (3) (4) (5)"}} {
		r := s.MustQuery(t, p[0])
		if got := vsql.Show(r.Sorted()); got != p[1] {
			bad = append(bad, fmt.Sprintf("%s returned %s want %s", p[0], got, p[1]))
		}
	}
	if len(bad) > 0 {
		return "t(k PK, c VARCHAR(8) COLLATE utf8mb4_general_ci, KEY (c(1), k)) = {(1,'á'),(2,'a'),(3,'z'),(4,'ß'),(5,'ab')}: " + strings.Join(bad, "; ")
	}
	return ""
}

// c26FindCIRanges: an IN list with values that are equal under the column's collation ('Ab', 'aB'
// under a _ci collation) becomes several index ranges that denote the same keys; dolt scans each
// range and returns the rows once per range.
const c26FindCIRanges = "C26-in-list-collation-equal-duplicates"

func c26PinnedCIRanges(t *testing.T, srv *vsql.Server, admin *vsql.Session) string {
	db := srv.NewDBName()
	admin.MustExec(t, "CREATE DATABASE "+db)
	defer admin.Exec("DROP DATABASE " + db)
	s := srv.Session(t, "pinned", db)
	defer s.Close()
	s.MustExec(t, "CREATE TABLE t (k INT PRIMARY KEY, c VARCHAR(16) COLLATE utf8mb4_general_ci, KEY i (c))")
	s.MustExec(t, "INSERT INTO t VALUES (1,'Ab'),(2,'aB'),(3,'A'),(4,'b')")
	q := "SELECT k FROM t WHERE c IN ('Ab','aB')"
	r := s.MustQuery(t, q)
	if got := vsql.Show(r.Sorted()); got != "(1) (2)" {
		return "t(k PK, c VARCHAR(16) COLLATE utf8mb4_general_ci, KEY (c)) = {(1,'Ab'),(2,'aB'),(3,'A'),(4,'b')}: " + q + " returned " + got + " want (1) (2)"
	}
	return ""
}

// c26FindMergeKeylessCI: the kv merge join over a KEYLESS table compares join keys with a
// case/accent-insensitive collation bytewise: 'a' never meets 'A'.
const c26FindMergeKeylessCI = "C26-mergejoin-keyless-collated-key"

func c26PinnedMergeKeylessCI(t *testing.T, srv *vsql.Server, admin *vsql.Session) string {
	db := srv.NewDBName()
	admin.MustExec(t, "CREATE DATABASE "+db)
	defer admin.Exec("DROP DATABASE " + db)
	s := srv.Session(t, "pinned", db)
	defer s.Close()
	s.MustExec(t, "CREATE TABLE t (c0 VARCHAR(8) COLLATE utf8mb4_general_ci, c3 VARCHAR(8) COLLATE utf8mb4_general_ci, KEY i1 (c0), KEY i2 (c3))")
	s.MustExec(t, "INSERT INTO t VALUES ('a','A'),('b','B')")
	q := "SELECT /*+ MERGE_JOIN(a,b) */ a.c0, b.c3 FROM t a JOIN t b ON a.c0 = b.c3"
	r := s.MustQuery(t, q)
	if got := vsql.Show(r.Sorted()); got != "(a,A) (b,B)" {
		p := s.MustQuery(t, "EXPLAIN PLAN "+q)
		return "keyless t(c0, c3 VARCHAR(8) COLLATE utf8mb4_general_ci, KEY (c0), KEY (c3)) = {('a','A'),('b','B')}: " + q + " returned [" + got + "] want (a,A) (b,B); plan " + p.Ordered()[0]
	}
	return ""
}

// c26FindCountColIndex: thorough-tier disagreement, not minimised: COUNT(col) through the kv count
// fast path over a (multi-range) secondary index scan differs from the reference (107 vs 95).
const c26FindCountColIndex = "C26-count-column-over-index-scan-unminimised"

// c26FindLeftOnLiteral: thorough-tier disagreements, not minimised: LEFT JOIN with an extra
// comparison of an inner column with a literal in ON, executed as LeftOuterLookupJoin or
// LeftOuterHashJoin, returns more rows than the reference (outer rows repeated).
const c26FindLeftOnLiteral = "C26-leftjoin-on-literal-extra-rows-unminimised"

// c26FindHashJoinAI: dolt-visible, but the reference engine is wrong in the same way: a hash join
// on a utf8mb4_0900_ai_ci key misses pairs that are equal only under the collation's folding.
const c26FindHashJoinAI = "C26-hashjoin-accent-insensitive-key"

func c26PinnedHashJoinAI(t *testing.T, srv *vsql.Server, admin *vsql.Session) string {
	db := srv.NewDBName()
	admin.MustExec(t, "CREATE DATABASE "+db)
	defer admin.Exec("DROP DATABASE " + db)
	s := srv.Session(t, "pinned", db)
	defer s.Close()
	s.MustExec(t, "CREATE TABLE t0 (k INT PRIMARY KEY, c1 VARCHAR(8) COLLATE utf8mb4_0900_ai_ci)")
	s.MustExec(t, "CREATE TABLE t1 (k INT PRIMARY KEY, c0 VARCHAR(40) COLLATE utf8mb4_0900_ai_ci)")
	s.MustExec(t, "INSERT INTO t0 VALUES (1,'ab'),(2,'Ab'),(3,'a'),(4,'A')")
	s.MustExec(t, "INSERT INTO t1 VALUES (1,'Ab'),(2,'ä')")
	h := s.MustQuery(t, "SELECT /*+ HASH_JOIN(a,b) */ a.k, b.k FROM t0 a INNER JOIN t1 b ON a.c1 = b.c0")
	n := s.MustQuery(t, "SELECT /*+ INNER_JOIN(a,b) */ a.k, b.k FROM t0 a INNER JOIN t1 b ON a.c1 = b.c0")
	if got, want := vsql.Show(h.Sorted()), vsql.Show(n.Sorted()); got != want || want != "(1,1) (2,1) (3,2) (4,2)" {
		return "t0(k, c1 VARCHAR utf8mb4_0900_ai_ci) = {'ab','Ab','a','A'}, t1(k, c0 same collation) = {'Ab','ä'}: HASH_JOIN on a.c1 = b.c0 returns " + got + ", the nested-loop join " + want + " (want (1,1) (2,1) (3,2) (4,2)); the memory engine's hash join is wrong in the same way"
	}
	return ""
}

// c26FindHashJoinExtra: thorough-tier disagreements, not minimised: hash joins (same plan in both
// engines) on a collated key or on BIGINT = BIGINT UNSIGNED where dolt returns MORE rows than the
// reference (e.g. 9223372036854775807 joined to 9223372036854775808). Evidence: saved replays.
const c26FindHashJoinExtra = "C26-hashjoin-unminimised-extra-rows"

// c26FindHashJoinKey: thorough-tier disagreements, not minimised: a hash join (HashLookup in the
// plan, the same plan in both engines) whose key contains a column with a case/accent-insensitive
// collation, or whose ON clause carries an extra comparison with a literal, returns fewer rows in
// dolt than in the reference engine. Evidence: the saved replays named in known_findings.json.
const c26FindHashJoinKey = "C26-hashjoin-collated-or-literal-key-missing-rows"

// c26FindKeylessCount: on a keyless table `SELECT COUNT(col) FROM t` (count fast path of
// kvexec/count_agg.go) tests the NULL-ness of the value field one position to the left of col
// (keyless value tuples start with the cardinality field).
const c26FindKeylessCount = "C26-keyless-count-column"

func c26PinnedKeylessCount(t *testing.T, srv *vsql.Server, admin *vsql.Session) string {
	db := srv.NewDBName()
	admin.MustExec(t, "CREATE DATABASE "+db)
	defer admin.Exec("DROP DATABASE " + db)
	s := srv.Session(t, "pinned", db)
	defer s.Close()
	s.MustExec(t, "CREATE TABLE t0 (c0 INT, c1 INT NOT NULL, c2 INT, c3 INT)")
	s.MustExec(t, "INSERT INTO t0 VALUES (1,1,NULL,1),(NULL,1,NULL,NULL),(NULL,1,3,3)")
	var bad []string
	for _, p := range [][2]string{{"c0", "1"}, {"c1", "3"}, {"c2", "1"}, {"c3", "2"}} {
		got, _ := s.Scalar(t, "SELECT COUNT("+p[0]+") FROM t0")
		if got != p[1] {
			bad = append(bad, fmt.Sprintf("COUNT(%s)=%s want %s", p[0], got, p[1]))
		}
	}
	if len(bad) > 0 {
		return "keyless t0(c0,c1 NOT NULL,c2,c3) rows (1,1,NULL,1),(NULL,1,NULL,NULL),(NULL,1,3,3): " + strings.Join(bad, "; ")
	}
	return ""
}

func (c *qCase) runQuery(q qQuery) {
	rt := c.rt
	if ex := c26Exclusion(q); ex != "" {
		c.rec.Excluded(1)
		c.rec.Class("excluded:"+ex, 1)
		return
	}
	// target: head or one of the commits
	target := -1
	mode := ""
	rev := ""
	if len(c.commits) > 0 && rapid.IntRange(0, 9).Draw(rt, "target.asof") < 4 {
		target = rapid.IntRange(0, len(c.commits)-1).Draw(rt, "target.commit")
		cm := c.commits[target]
		switch rapid.SampledFrom([]string{"hash", "hash", "tag", "ancestor", "revdb"}).Draw(rt, "target.mode") {
		case "hash":
			mode, rev = "asof", cm.Hash
		case "tag":
			mode, rev = "asof", cm.Tag
		case "ancestor":
			mode, rev = "asof", fmt.Sprintf("main~%d", len(c.commits)-1-target)
			if target == len(c.commits)-1 {
				rev = "main"
			}
		case "revdb":
			mode, rev = "revdb", cm.Hash
		}
	}
	dsql := qRender(q.SQL, mode, c.db, rev)
	msql := qRender(q.SQL, "", "", "")
	if target >= 0 {
		c.memUse(c.commits[target].MemDB)
	} else {
		c.memUse(c.db)
	}
	dr, derr := c.d.Query(dsql)
	mr, merr := c.m.Query(msql)
	classes := []string{"form=" + q.Form}
	if target >= 0 {
		classes = append(classes, "asof="+map[bool]string{true: "older", false: "latest"}[target < len(c.commits)-1], "asofmode="+mode)
	}
	// the description names commits by ordinal: commit hashes differ from run to run
	descRev := rev
	if target >= 0 && rev == c.commits[target].Hash {
		descRev = fmt.Sprintf("<hash of c%d>", target)
	}
	desc := c.sig + " :: " + qRender(q.SQL, mode, "db", descRev)
	connDied := func(err error) bool {
		return err != nil && (strings.Contains(err.Error(), "invalid connection") || strings.Contains(err.Error(), "bad connection") || strings.Contains(err.Error(), "EOF"))
	}
	if connDied(merr) {
		// the reference engine panicked and dropped the connection: nothing to compare with. When the
		// panic is in go-mysql-server's shared analyzer (seen: `varbinarycol = x AND varbinarycol IN
		// (...)`, "comparing uncomparable type []uint8" in costed_index_scan.go) dolt's connection dies
		// the same way and is reopened too.
		c.rec.Excluded(1)
		if connDied(derr) {
			c.rec.Class("both_engines_crashed", 1)
			c.d.Close()
			c.d = c.srv.Session(rt, "q", c.db)
		} else {
			c.rec.Class("reference_engine_crashed", 1)
		}
		c.m.Close()
		c.m = c.mem.Conn(rt, "")
		c.mCur = ""
		return
	}
	if derr != nil && merr != nil {
		c.rec.Case(desc, false, append(classes, "both_error")...)
		return
	}
	plan := func() ([]string, []string) {
		var dp, mp []string
		if r, err := c.d.Query("EXPLAIN PLAN " + dsql); err == nil {
			dp = r.Ordered()
		} else {
			dp = []string{"EXPLAIN failed: " + err.Error()}
		}
		if r, err := c.m.Query("EXPLAIN PLAN " + msql); err == nil {
			mp = r.Ordered()
		}
		return dp, mp
	}
	fail := func(what string) {
		dp, mp := plan()
		rt.Fatalf("C26 disagreement (%s)\nquery (dolt):   %s\nquery (memory): %s   [database %s]\ndolt error: %v\nmemory error: %v\ndolt   rows: %s\nmemory rows: %s\nonly dolt:   %s\nonly memory: %s\ndolt plan:\n  %s\nmemory plan:\n  %s\n--- script (both engines) ---\n%s",
			what, dsql, msql, c.mCur, derr, merr, qShowRows(dr, q.Ordered), qShowRows(mr, q.Ordered), qOnly(dr, mr), qOnly(mr, dr),
			strings.Join(dp, "\n  "), strings.Join(mp, "\n  "), c.scriptText())
	}
	if derr != nil || merr != nil {
		fail("an error from exactly one engine")
		return
	}
	mismatch := false
	if q.Ordered {
		mismatch = !vsql.EqualStrings(dr.Ordered(), mr.Ordered())
	} else {
		mismatch = !vsql.EqualStrings(dr.Sorted(), mr.Sorted())
	}
	if mismatch && !q.Limit && vh.OpenFinding("C26", c26FindCIRanges) {
		// rows (or a count) delivered once per collation-equal range of one index scan
		dp, _ := plan()
		pt := strings.Join(dp, "\n")
		multi := strings.Contains(pt, "IndexedTableAccess") && strings.Contains(pt, "}, {")
		isCount := len(dr.Data) == 1 && len(mr.Data) == 1 && (strings.HasPrefix(q.Form, "count") || q.Form == "joincount")
		var dn, mn int
		if isCount {
			fmt.Sscan(dr.Data[0][0], &dn)
			fmt.Sscan(mr.Data[0][0], &mn)
		}
		if multi && strings.Contains(strings.ToUpper(dsql), " IN (") && ((isCount && dn > mn) || (!isCount && qOnly(mr, dr) == "" && qSameSet(dr, mr))) {
			c.rec.Excluded(1)
			c.rec.Class("known:"+c26FindCIRanges, 1)
			return
		}
	}
	if mismatch && q.has("count_column_over_index") && vh.OpenFinding("C26", c26FindCountColIndex) {
		dp, _ := plan()
		pt := strings.Join(dp, "\n")
		if strings.Contains(pt, "IndexedTableAccess") && !strings.Contains(pt, "Filter") {
			c.rec.Excluded(1)
			c.rec.Class("known:"+c26FindCountColIndex, 1)
			return
		}
	}
	if mismatch && q.has("literal_in_on") && strings.Contains(dsql, "LEFT JOIN") && vh.OpenFinding("C26", c26FindLeftOnLiteral) {
		dp, _ := plan()
		pt := strings.Join(dp, "\n")
		more := len(dr.Data) > len(mr.Data)
		if len(dr.Data) == 1 && len(mr.Data) == 1 && q.Form == "joincount" {
			var dn, mn int
			fmt.Sscan(dr.Data[0][0], &dn)
			fmt.Sscan(mr.Data[0][0], &mn)
			more = dn > mn
		}
		if (strings.Contains(pt, "LeftOuterLookupJoin") || strings.Contains(pt, "LeftOuterHashJoin")) && more {
			c.rec.Excluded(1)
			c.rec.Class("known:"+c26FindLeftOnLiteral, 1)
			return
		}
	}
	if mismatch && q.Form == "group" && q.has("prefix_index_table") && vh.OpenFinding("C26", c26FindPrefixOverlap) {
		dp, _ := plan()
		pt := strings.Join(dp, "\n")
		if strings.Contains(pt, "IndexedTableAccess") && strings.Contains(pt, "}, {") && len(dr.Data) == len(mr.Data) {
			// the same groups with larger counts: rows delivered once per overlapping range
			c.rec.Excluded(1)
			c.rec.Class("known:"+c26FindPrefixOverlap, 1)
			return
		}
	}
	if mismatch && q.has("ci_join_key") {
		// grammar exclusion: go-mysql-server's hash join on a key with a case/accent-insensitive
		// collation is wrong in BOTH engines (the hash key does not fold what the collation folds:
		// 'a' never meets 'ä' under utf8mb4_0900_ai_ci; 9 of 30 rows in the generated case), and the
		// two engines return different wrong subsets. Pinned as finding c26FindHashJoinAI.
		dp, mp := plan()
		if strings.Contains(strings.Join(dp, "\n"), "HashLookup") || strings.Contains(strings.Join(mp, "\n"), "HashLookup") {
			// either engine may be the one that picked the (wrong) hash join
			c.rec.Excluded(1)
			c.rec.Class("excluded:shared_hashjoin_collated_key", 1)
			return
		}
	}
	if mismatch && q.has("keyless_join") && q.has("ci_join_key") && vh.OpenFinding("C26", c26FindMergeKeylessCI) {
		dp, _ := plan()
		if strings.Contains(strings.Join(dp, "\n"), "MergeJoin") {
			c.rec.Excluded(1)
			c.rec.Class("known:"+c26FindMergeKeylessCI, 1)
			return
		}
	}
	if mismatch && (q.has("ci_join_key") || q.has("mixed_sign_join_key")) && vh.OpenFinding("C26", c26FindHashJoinExtra) {
		dp, _ := plan()
		more := len(dr.Data) > len(mr.Data)
		if len(dr.Data) == 1 && len(mr.Data) == 1 && q.Form == "joincount" {
			var dn, mn int
			fmt.Sscan(dr.Data[0][0], &dn)
			fmt.Sscan(mr.Data[0][0], &mn)
			more = dn > mn
		}
		if strings.Contains(strings.Join(dp, "\n"), "HashLookup") && more {
			c.rec.Excluded(1)
			c.rec.Class("known:"+c26FindHashJoinExtra, 1)
			return
		}
	}
	if mismatch && (q.has("ci_join_key") || q.has("literal_in_on")) && vh.OpenFinding("C26", c26FindHashJoinKey) {
		dp, _ := plan()
		pt := strings.Join(dp, "\n")
		fewer := len(dr.Data) < len(mr.Data)
		if len(dr.Data) == 1 && len(mr.Data) == 1 && q.Form == "joincount" {
			var dn, mn int
			fmt.Sscan(dr.Data[0][0], &dn)
			fmt.Sscan(mr.Data[0][0], &mn)
			fewer = dn < mn
		}
		if strings.Contains(pt, "HashLookup") && fewer {
			c.rec.Excluded(1)
			c.rec.Class("known:"+c26FindHashJoinKey, 1)
			return
		}
	}
	if mismatch && q.has("prefix_index_table") && vh.OpenFinding("C26", c26FindPrefixMB) && len(dr.Data) == 1 && len(mr.Data) == 1 &&
		(strings.HasPrefix(q.Form, "count") || q.Form == "joincount" || q.Form == "distinctcount") {
		// a COUNT over rows the index scan lost
		dp, _ := plan()
		var dn, mn int
		fmt.Sscan(dr.Data[0][0], &dn)
		fmt.Sscan(mr.Data[0][0], &mn)
		if strings.Contains(strings.Join(dp, "\n"), "IndexedTableAccess") && dn < mn {
			c.rec.Excluded(1)
			c.rec.Class("known:"+c26FindPrefixMB, 1)
			return
		}
	}
	if mismatch && q.has("prefix_index_table") && vh.OpenFinding("C26", c26FindPrefixLower) {
		dp, _ := plan()
		if strings.Contains(strings.Join(dp, "\n"), "IndexedTableAccess") && (q.Limit || qOnly(dr, mr) == "") {
			c.rec.Excluded(1)
			c.rec.Class("known:"+c26FindPrefixLower, 1)
			return
		}
	}
	if mismatch && q.has("prefix_index_table") && !q.Limit && vh.OpenFinding("C26", c26FindPrefixOverlap) {
		dp, _ := plan()
		// dolt returns every reference row, some of them more than once
		pt := strings.Join(dp, "\n")
		if strings.Contains(pt, "IndexedTableAccess") && qOnly(mr, dr) == "" && (qSameSet(dr, mr) || strings.Contains(pt, "}, {")) {
			// every reference row is there; the extra rows are copies delivered by overlapping trimmed
			// ranges, or rows the trimmed ranges let through to a filter
			c.rec.Excluded(1)
			c.rec.Class("known:"+c26FindPrefixOverlap, 1)
			return
		}
	}
	if mismatch && vh.OpenFinding("C26", c26FindLeftMerge) {
		dp, _ := plan()
		// dolt loses inner rows: every dolt row that is not a reference row is NULL-extended
		if strings.Contains(strings.Join(dp, "\n"), "LeftOuterMergeJoin") && len(dr.Data) <= len(mr.Data) {
			c.rec.Excluded(1)
			c.rec.Class("known:"+c26FindLeftMerge, 1)
			return
		}
	}
	if mismatch && q.has("prefix_index_join") && vh.OpenFinding("C26", c26FindMergePrefix) {
		dp, _ := plan()
		if strings.Contains(strings.Join(dp, "\n"), "MergeJoin") {
			c.rec.Excluded(1)
			c.rec.Class("known:"+c26FindMergePrefix, 1)
			return
		}
	}
	if mismatch && q.has("prefix_index_join") && vh.OpenFinding("C26", c26FindLookupPrefix) {
		dp, _ := plan()
		if strings.Contains(strings.Join(dp, "\n"), "LookupJoin") {
			c.rec.Excluded(1)
			c.rec.Class("known:"+c26FindLookupPrefix, 1)
			return
		}
	}
	if mismatch && q.has("keyless_join") && vh.OpenFinding("C26", c26FindKeylessLookupNull) {
		dp, _ := plan()
		if strings.Contains(strings.Join(dp, "\n"), "LookupJoin") {
			c.rec.Excluded(1)
			c.rec.Class("known:"+c26FindKeylessLookupNull, 1)
			return
		}
	}
	if mismatch && q.has("decimal_join_key") && vh.OpenFinding("C26", c26FindDecimalLookup) {
		dp, _ := plan()
		if strings.Contains(strings.Join(dp, "\n"), "LookupJoin") {
			c.rec.Excluded(1)
			c.rec.Class("known:"+c26FindDecimalLookup, 1)
			return
		}
	}
	if mismatch && vh.OpenFinding("C26", c26FindValueRowNull) {
		dp, _ := plan()
		if c26ValueRowNullShape(dp) && (q.Limit || qOnly(mr, dr) == "") {
			c.rec.Excluded(1)
			c.rec.Class("known:"+c26FindValueRowNull, 1)
			return
		}
	}
	if q.Ordered {
		if !vsql.EqualStrings(dr.Ordered(), mr.Ordered()) {
			if vsql.EqualStrings(dr.Sorted(), mr.Sorted()) {
				fail("same rows, different order under a total ORDER BY")
			} else {
				fail("different rows")
			}
			return
		}
	} else if !vsql.EqualStrings(dr.Sorted(), mr.Sorted()) {
		fail("different multisets")
		return
	}
	dp, _ := func() ([]string, error) {
		r, err := c.d.Query("EXPLAIN PLAN " + dsql)
		if err != nil {
			return nil, err
		}
		return r.Ordered(), nil
	}()
	pc, kv := qPlanClasses(dp)
	classes = append(classes, pc...)
	n := len(dr.Data)
	nontrivial := kv && n > 0
	if len(q.Tables) == 1 {
		whole := q.Tables[0].nRows()
		if target >= 0 {
			for _, t := range c.commits[target].Tables {
				if t.Name == q.Tables[0].Name {
					whole = t.nRows()
				}
			}
		}
		if n >= whole && !strings.HasPrefix(q.Form, "count") && q.Form != "group" && !strings.HasPrefix(q.Form, "distinct") {
			nontrivial = false
		}
		if strings.HasPrefix(q.Form, "count") || q.Form == "distinctcount" {
			// one row: non-trivial when the count is neither 0 nor the table size
			nontrivial = kv && dr.Data[0][0] != "0" && dr.Data[0][0] != fmt.Sprint(whole)
		}
	} else if q.Form == "joincount" {
		nontrivial = kv && dr.Data[0][0] != "0"
	}
	switch {
	case n == 0:
		classes = append(classes, "rows=0")
	case n < 5:
		classes = append(classes, "rows=1-4")
	default:
		classes = append(classes, "rows=5+")
	}
	c.rec.Case(desc, nontrivial, classes...)
}

func qShowRows(r *vsql.Rows, ordered bool) string {
	if r == nil {
		return "-"
	}
	if ordered {
		return fmt.Sprintf("%d: %s", len(r.Data), vsql.Show(r.Ordered()))
	}
	return fmt.Sprintf("%d: %s", len(r.Data), vsql.Show(r.Sorted()))
}

// qOnly lists rows of a (with multiplicity) that b lacks.
func qOnly(a, b *vsql.Rows) string {
	if a == nil || b == nil {
		return "-"
	}
	cnt := map[string]int{}
	for _, s := range b.Sorted() {
		cnt[s]++
	}
	var out []string
	for _, s := range a.Sorted() {
		if cnt[s] > 0 {
			cnt[s]--
		} else {
			out = append(out, s)
		}
	}
	sort.Strings(out)
	return vsql.Show(out)
}

// c26Kinds is the set of column kinds the generator uses; kinds are removed here (with an
// assumption line and a count) only after triage.
var c26Kinds = []qKind{qkTiny, qkSmall, qkInt, qkInt, qkBig, qkUInt, qkUBig, qkDec, qkDouble, qkFloat, qkStrBin, qkStrBin, qkStrCI, qkStrGen, qkVarbin, qkDate, qkDatetime, qkEnum, qkText, qkYear, qkTime}

func TestVerif_C26(t *testing.T) {
	rec := vh.NewRecorder("C26", "diff", "exploration", c26Rule, c26Assumptions...)
	defer rec.Write(t)
	dir, cleanup := vh.ScratchDir(t, "c26")
	defer cleanup()
	srv, err := vsql.StartServer(dir)
	if err != nil {
		vh.Inconclusive(t, "start dolt server: %v", err)
	}
	defer srv.Stop()
	mem, err := qStartMem()
	if err != nil {
		vh.Inconclusive(t, "start memory engine: %v", err)
	}
	defer mem.Stop()
	admin := srv.Session(t, "admin", "")
	defer admin.Close()
	madmin := mem.Conn(t, "")
	defer madmin.Close()
	t.Run("pinned_keyless_count_column", func(t *testing.T) {
		if msg := c26PinnedKeylessCount(t, srv, admin); msg != "" {
			if vh.OpenFinding("C26", c26FindKeylessCount) {
				vh.ReportKnown("C26", c26FindKeylessCount, msg)
				return
			}
			vh.NoteViolation(t.Name(), "", `{"sql":["CREATE TABLE t0 (c0 INT, c1 INT NOT NULL, c2 INT, c3 INT)","INSERT INTO t0 VALUES (1,1,NULL,1),(NULL,1,NULL,NULL),(NULL,1,3,3)","SELECT COUNT(c0) FROM t0","SELECT COUNT(c2) FROM t0","SELECT COUNT(c3) FROM t0"],"observed":"`+strings.ReplaceAll(msg, `"`, `'`)+`"}`)
			t.Errorf("%s", msg)
		}
	})
	t.Run("pinned_decimal_lookup_keyrange", func(t *testing.T) {
		if msg := c26PinnedDecimalLookup(t, srv, admin); msg != "" {
			if vh.OpenFinding("C26", c26FindDecimalLookup) {
				vh.ReportKnown("C26", c26FindDecimalLookup, msg)
				return
			}
			vh.NoteViolation(t.Name(), "", `{"sql":["CREATE TABLE b (k0 VARCHAR(8) PRIMARY KEY, c0 DECIMAL(10,2), KEY i0 (c0))","CREATE TABLE a (k0 INT PRIMARY KEY, k1 DECIMAL(10,2))","INSERT INTO b VALUES ('c',0.01)","INSERT INTO a VALUES (1,0.01),(2,-0.01),(3,0.00),(4,-0.09),(5,0.05),(6,-1.03)","SELECT /*+ LOOKUP_JOIN(a,b) */ a.k0 FROM a JOIN b ON a.k1 = b.c0"],"observed":"`+strings.ReplaceAll(msg, `"`, `'`)+`"}`)
			t.Errorf("%s", msg)
		}
	})
	t.Run("pinned_keyless_lookup_null_key", func(t *testing.T) {
		if msg := c26PinnedKeylessLookupNull(t, srv, admin); msg != "" {
			if vh.OpenFinding("C26", c26FindKeylessLookupNull) {
				vh.ReportKnown("C26", c26FindKeylessLookupNull, msg)
				return
			}
			vh.NoteViolation(t.Name(), "", `{"sql":["CREATE TABLE t1 (c0 INT, c1 INT, KEY i1 (c0))","INSERT INTO t1 VALUES (NULL,1),(NULL,2),(5,3)","SELECT /*+ LOOKUP_JOIN(a,b) */ a.c1, b.c1 FROM t1 a JOIN t1 b ON a.c0 = b.c0"],"observed":"`+strings.ReplaceAll(msg, `"`, `'`)+`"}`)
			t.Errorf("%s", msg)
		}
	})
	t.Run("pinned_mergejoin_prefix_index", func(t *testing.T) {
		if msg := c26PinnedMergePrefix(t, srv, admin); msg != "" {
			if vh.OpenFinding("C26", c26FindMergePrefix) {
				vh.ReportKnown("C26", c26FindMergePrefix, msg)
				return
			}
			vh.NoteViolation(t.Name(), "", `{"sql":["CREATE TABLE t0 (k0 INT PRIMARY KEY, c0 VARBINARY(16) NOT NULL, KEY i2 (c0(1)))","INSERT INTO t0 VALUES (1,0x6100),(2,0x61),(3,0x6100),(4,0x61),(5,0x6100),(6,0x61)","SELECT /*+ MERGE_JOIN(a,b) */ COUNT(*) FROM t0 a JOIN t0 b ON a.c0 = b.c0"],"observed":"`+strings.ReplaceAll(msg, `"`, `'`)+`"}`)
			t.Errorf("%s", msg)
		}
	})
	t.Run("pinned_lookupjoin_prefix_index", func(t *testing.T) {
		if msg := c26PinnedLookupPrefix(t, srv, admin); msg != "" {
			if vh.OpenFinding("C26", c26FindLookupPrefix) {
				vh.ReportKnown("C26", c26FindLookupPrefix, msg)
				return
			}
			vh.NoteViolation(t.Name(), "", `{"sql":["CREATE TABLE t0 (k0 INT PRIMARY KEY, c0 VARBINARY(16) NOT NULL, KEY i2 (c0(1)))","CREATE TABLE t1 (k0 INT PRIMARY KEY, c1 VARBINARY(16))","INSERT INTO t0 VALUES (1,0x6100),(2,0x61),(3,0x62)","INSERT INTO t1 VALUES (1,0x6100),(2,0x61)","SELECT /*+ JOIN_ORDER(a,b) LOOKUP_JOIN(a,b) */ a.k0, b.k0 FROM t1 a JOIN t0 b ON a.c1 = b.c0"],"observed":"`+strings.ReplaceAll(msg, `"`, `'`)+`"}`)
			t.Errorf("%s", msg)
		}
	})
	t.Run("pinned_prefix_index_open_lower_bound", func(t *testing.T) {
		if msg := c26PinnedPrefixLower(t, srv, admin); msg != "" {
			if vh.OpenFinding("C26", c26FindPrefixLower) {
				vh.ReportKnown("C26", c26FindPrefixLower, msg)
				return
			}
			vh.NoteViolation(t.Name(), "", `{"sql":["CREATE TABLE t0 (k0 INT PRIMARY KEY, c1 TEXT NOT NULL, KEY i0 (c1(1)))","INSERT INTO t0 VALUES (1,'aB'),(2,'a'),(3,'e'),(4,'A')","SELECT k0 FROM t0 WHERE c1 > 'a'","SELECT k0 FROM t0 WHERE c1 <> 'a'"],"observed":"`+strings.ReplaceAll(msg, `"`, `'`)+`"}`)
			t.Errorf("%s", msg)
		}
	})
	qNoPrefixOnPK = vh.OpenFinding("C26", c26FindPrefixOnPK)
	t.Run("pinned_prefix_index_on_pk_update", func(t *testing.T) {
		if msg := c26PinnedPrefixOnPK(t, srv, admin); msg != "" {
			if vh.OpenFinding("C26", c26FindPrefixOnPK) {
				vh.ReportKnown("C26", c26FindPrefixOnPK, msg)
				return
			}
			vh.NoteViolation(t.Name(), "", `{"sql":["CREATE TABLE t0 (k0 INT NOT NULL, k1 VARCHAR(16) NOT NULL, c2 VARCHAR(8), PRIMARY KEY (k0,k1), KEY i0 (c2, k1(1)))","INSERT INTO t0 VALUES (1,'za','A'),(2,'b','B')","UPDATE t0 SET c2 = 'a' WHERE k0 = 1 AND k1 = 'za'","SELECT k0, k1, c2 FROM t0 FORCE INDEX (i0) WHERE c2 IS NOT NULL"],"observed":"`+strings.ReplaceAll(msg, `"`, `'`)+`"}`)
			t.Errorf("%s", msg)
		}
	})
	t.Run("pinned_prefix_index_overlapping_ranges", func(t *testing.T) {
		if msg := c26PinnedPrefixOverlap(t, srv, admin); msg != "" {
			if vh.OpenFinding("C26", c26FindPrefixOverlap) {
				vh.ReportKnown("C26", c26FindPrefixOverlap, msg)
				return
			}
			vh.NoteViolation(t.Name(), "", `{"sql":["CREATE TABLE t (k INT PRIMARY KEY, c VARCHAR(16), KEY i (c(1), k))","INSERT INTO t VALUES (1,'a'),(2,'a'),(3,'ab'),(7,'abc'),(8,'b')","SELECT k, c FROM t WHERE c NOT IN ('ab','abc') OR k >= 5"],"observed":"`+strings.ReplaceAll(msg, `"`, `'`)+`"}`)
			t.Errorf("%s", msg)
		}
	})
	t.Run("pinned_left_mergejoin_first_inner_row", func(t *testing.T) {
		if msg := c26PinnedLeftMerge(t, srv, admin); msg != "" {
			if vh.OpenFinding("C26", c26FindLeftMerge) {
				vh.ReportKnown("C26", c26FindLeftMerge, msg)
				return
			}
			vh.NoteViolation(t.Name(), "", `{"sql":["CREATE TABLE a (k INT PRIMARY KEY, c INT, KEY i (c))","CREATE TABLE b (k INT PRIMARY KEY, c INT, KEY i (c))","INSERT INTO a VALUES (1,NULL),(2,NULL),(3,7)","INSERT INTO b VALUES (10,NULL),(11,7)","SELECT /*+ MERGE_JOIN(x,y) */ x.k, y.k FROM a x LEFT JOIN b y ON x.c = y.c"],"observed":"`+strings.ReplaceAll(msg, `"`, `'`)+`"}`)
			t.Errorf("%s", msg)
		}
	})
	t.Run("pinned_prefix_index_multibyte_collation", func(t *testing.T) {
		if msg := c26PinnedPrefixMB(t, srv, admin); msg != "" {
			if vh.OpenFinding("C26", c26FindPrefixMB) {
				vh.ReportKnown("C26", c26FindPrefixMB, msg)
				return
			}
			vh.NoteViolation(t.Name(), "", `{"sql":["CREATE TABLE t (k INT PRIMARY KEY, c VARCHAR(8) COLLATE utf8mb4_general_ci, KEY i (c(1), k))","INSERT INTO t VALUES (1,'á'),(2,'a'),(3,'z'),(4,'ß'),(5,'ab')","SELECT k FROM t WHERE c = 'a'","SELECT k FROM t WHERE c <= 'z'"],"observed":"`+strings.ReplaceAll(msg, `"`, `'`)+`"}`)
			t.Errorf("%s", msg)
		}
	})
	t.Run("pinned_in_list_collation_equal_duplicates", func(t *testing.T) {
		if msg := c26PinnedCIRanges(t, srv, admin); msg != "" {
			if vh.OpenFinding("C26", c26FindCIRanges) {
				vh.ReportKnown("C26", c26FindCIRanges, msg)
				return
			}
			vh.NoteViolation(t.Name(), "", `{"sql":["CREATE TABLE t (k INT PRIMARY KEY, c VARCHAR(16) COLLATE utf8mb4_general_ci, KEY i (c))","INSERT INTO t VALUES (1,'Ab'),(2,'aB'),(3,'A'),(4,'b')","SELECT k FROM t WHERE c IN ('Ab','aB')"],"observed":"`+strings.ReplaceAll(msg, `"`, `'`)+`"}`)
			t.Errorf("%s", msg)
		}
	})
	t.Run("pinned_mergejoin_keyless_collated_key", func(t *testing.T) {
		if msg := c26PinnedMergeKeylessCI(t, srv, admin); msg != "" {
			if vh.OpenFinding("C26", c26FindMergeKeylessCI) {
				vh.ReportKnown("C26", c26FindMergeKeylessCI, msg)
				return
			}
			vh.NoteViolation(t.Name(), "", `{"sql":["CREATE TABLE t (c0 VARCHAR(8) COLLATE utf8mb4_general_ci, c3 VARCHAR(8) COLLATE utf8mb4_general_ci, KEY i1 (c0), KEY i2 (c3))","INSERT INTO t VALUES ('a','A'),('b','B')","SELECT /*+ MERGE_JOIN(a,b) */ a.c0, b.c3 FROM t a JOIN t b ON a.c0 = b.c3"],"observed":"`+strings.ReplaceAll(msg, `"`, `'`)+`"}`)
			t.Errorf("%s", msg)
		}
	})
	t.Run("pinned_hashjoin_accent_insensitive_key", func(t *testing.T) {
		if msg := c26PinnedHashJoinAI(t, srv, admin); msg != "" {
			if vh.OpenFinding("C26", c26FindHashJoinAI) {
				vh.ReportKnown("C26", c26FindHashJoinAI, msg)
				return
			}
			// the reference engine shares the defect, so the property itself is not violated: the
			// sub-test only documents it
			t.Logf("not listed as a finding: %s", msg)
		}
	})
	t.Run("pinned_valuerow_null_comparison", func(t *testing.T) {
		if msg := c26PinnedValueRowNull(t, srv, admin); msg != "" {
			if vh.OpenFinding("C26", c26FindValueRowNull) {
				vh.ReportKnown("C26", c26FindValueRowNull, msg)
				return
			}
			vh.NoteViolation(t.Name(), "", `{"sql":["CREATE TABLE t (pk INT PRIMARY KEY, c INT UNSIGNED)","INSERT INTO t VALUES (1,3),(2,NULL)","SELECT pk, c FROM t WHERE c <= 10","SELECT pk, c FROM t WHERE c >= 0"],"observed":"`+strings.ReplaceAll(msg, `"`, `'`)+`"}`)
			t.Errorf("%s", msg)
		}
	})
	maxRows := vh.N(120, 300)
	nQueries := vh.N(45, 60)
	vh.Check(t, "diff", 100, 60, func(rt *rapid.T) {
		db := srv.NewDBName()
		admin.MustExec(rt, "CREATE DATABASE "+db)
		defer admin.Exec("DROP DATABASE " + db)
		madmin.MustExec(rt, "CREATE DATABASE "+db)
		c := &qCase{rt: rt, rec: rec, db: db, mem: mem, srv: srv}
		defer func() {
			for _, cm := range c.commits {
				_ = madmin.Exec("DROP DATABASE `" + cm.MemDB + "`")
			}
			_ = madmin.Exec("DROP DATABASE " + db)
		}()
		c.d = srv.Session(rt, "q", db)
		defer func() { c.d.Close() }()
		c.m = mem.Conn(rt, db)
		c.mCur = db
		defer func() { c.m.Close() }()
		// plans must not depend on when the background statistics worker last ran
		_ = c.d.Exec("CALL dolt_stats_stop()")

		c.tables = qGenSchema(rt, c26Kinds)
		var sigs []string
		for _, t := range c.tables {
			sigs = append(sigs, t.sig())
			c.both(t.createDDL(false))
		}
		c.sig = strings.Join(sigs, " ")
		for _, t := range c.tables {
			n := rapid.IntRange(0, maxRows).Draw(rt, "nrows")
			var rows [][]string
			for i := 0; i < n; i++ {
				row, ok := qGenRow(rt, t)
				if !ok {
					continue
				}
				if t.NPK > 0 {
					t.Rows[t.key(row)] = row
				} else {
					t.List = append(t.List, row)
				}
				rows = append(rows, row)
			}
			for i := 0; i < len(rows); i += 50 {
				j := i + 50
				if j > len(rows) {
					j = len(rows)
				}
				c.both(qInsertSQL(t, rows[i:j]))
			}
		}
		for _, t := range c.tables {
			var keep []qIndex
			for _, ix := range t.Idx {
				if !ix.Late {
					keep = append(keep, ix)
					continue
				}
				sql := fmt.Sprintf("ALTER TABLE `%s` ADD %s", t.Name, ix.ddl(t))
				if err := c.d.Exec(sql); err != nil {
					rt.Fatalf("HARNESS/dolt rejected setup statement %s: %v", sql, err)
				}
				c.memUse(c.db)
				if err := c.m.Exec(sql); err != nil {
					// the memory engine cannot build this index (seen: UNIQUE index over a TIME column and a
					// VARCHAR key: "string ... is too large for column"): the index is dropped from dolt too
					rec.Excluded(1)
					rec.Class("reference_rejected_index", 1)
					c.d.MustExec(rt, fmt.Sprintf("ALTER TABLE `%s` DROP INDEX `%s`", t.Name, ix.Name))
					continue
				}
				c.script = append(c.script, sql+";")
				keep = append(keep, ix)
			}
			t.Idx = keep
		}
		if rapid.Bool().Draw(rt, "analyze") {
			// dolt only: the memory engine's ANALYZE panics on empty tables (divide by zero in
			// memory/stats.go) and its statistics are of no interest here
			for _, t := range c.tables {
				sql := fmt.Sprintf("ANALYZE TABLE `%s`", t.Name)
				c.script = append(c.script, sql+"; -- dolt only")
				c.d.MustExec(rt, sql)
			}
		}
		defer func() {
			for _, k := range []string{"decimal_type_extreme_literal", "prefix_index_on_pk_column", "two_string_group_columns", "decimal_negated_equality", "nullsafe_equal_on_ci_column", "fractional_literal_on_int_column"} {
				if n := qExcludedLits[k]; n > 0 {
					rec.Excluded(n)
					rec.Class("excluded:"+k, n)
					qExcludedLits[k] = 0
				}
			}
		}()
		c.commit(madmin)
		rounds := rapid.IntRange(1, 3).Draw(rt, "rounds")
		for r := 0; r < rounds; r++ {
			if r > 0 {
				c.dml()
				if rapid.IntRange(0, 3).Draw(rt, "commit") > 0 {
					c.commit(madmin)
				}
			}
			nq := nQueries / rounds
			for i := 0; i < nq; i++ {
				c.runQuery(qGenQuery(rt, c.tables))
			}
		}
	})
}
