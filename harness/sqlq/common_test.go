package sqlq

// Shared pieces of the sqlq suite: an in-process go-mysql-server *memory* engine served over
// the MySQL wire protocol on a unix socket (so the reference engine's results pass through the
// same server-side wire encoding as dolt's), and a thin client wrapper that returns vsql.Rows.

import (
	"context"
	"database/sql"
	"fmt"
	"net"
	"os"
	"path/filepath"

	gms "github.com/dolthub/go-mysql-server"
	"github.com/dolthub/go-mysql-server/memory"
	gmsserver "github.com/dolthub/go-mysql-server/server"
	gmssql "github.com/dolthub/go-mysql-server/sql"
	"github.com/go-sql-driver/mysql"

	"github.com/dolthub/dolt/go/zzverif/vsql"
)

// qMem is a stock go-mysql-server engine over memory databases, reachable by a MySQL client.
type qMem struct {
	Pro    *memory.DbProvider
	Engine *gms.Engine
	srv    *gmsserver.Server
	sock   string
	pool   *sql.DB
}

func qStartMem() (*qMem, error) {
	pro := memory.NewDBProvider()
	eng := gms.NewDefault(pro)
	sockDir, err := os.MkdirTemp("/dev/shm", "vm")
	if err != nil {
		sockDir, err = os.MkdirTemp("", "vm")
		if err != nil {
			return nil, err
		}
	}
	m := &qMem{Pro: pro, Engine: eng, sock: filepath.Join(sockDir, "m.sock")}
	l, err := net.Listen("unix", m.sock)
	if err != nil {
		return nil, err
	}
	srv, err := gmsserver.NewServer(gmsserver.Config{Protocol: "unix", Address: m.sock, Listener: l, MaxConnections: 64},
		eng, gmssql.NewContext, memory.NewSessionBuilder(pro), nil)
	if err != nil {
		return nil, err
	}
	m.srv = srv
	go func() { _ = srv.Start() }()
	cfg := mysql.NewConfig()
	cfg.User = "root"
	cfg.Net = "unix"
	cfg.Addr = m.sock
	cfg.InterpolateParams = true
	conn, err := mysql.NewConnector(cfg)
	if err != nil {
		return nil, err
	}
	m.pool = sql.OpenDB(conn)
	m.pool.SetMaxIdleConns(0) // every Conn() is a brand-new server-side session (no leftover USE / transaction state)
	if err := m.pool.Ping(); err != nil {
		return nil, fmt.Errorf("memory server ping: %w", err)
	}
	return m, nil
}

func (m *qMem) Stop() {
	if m.pool != nil {
		_ = m.pool.Close()
	}
	if m.srv != nil {
		_ = m.srv.Close()
	}
	_ = os.RemoveAll(filepath.Dir(m.sock))
}

// qConn is one pinned client connection to the memory server.
type qConn struct {
	c *sql.Conn
}

func (m *qMem) Conn(t vsql.TB, db string) *qConn {
	t.Helper()
	c, err := m.pool.Conn(context.Background())
	if err != nil {
		t.Fatalf("sqlq: open memory session: %v", err)
	}
	q := &qConn{c: c}
	if db != "" {
		q.MustExec(t, "USE `"+db+"`")
	}
	return q
}

func (q *qConn) Close() { _ = q.c.Close() }

func (q *qConn) Exec(s string, args ...any) error {
	rows, err := q.c.QueryContext(context.Background(), s, args...)
	if err != nil {
		return err
	}
	for rows.Next() {
	}
	err = rows.Err()
	_ = rows.Close()
	return err
}

func (q *qConn) MustExec(t vsql.TB, s string, args ...any) {
	t.Helper()
	if err := q.Exec(s, args...); err != nil {
		t.Fatalf("sqlq[mem]: %s: %v", qClip(s, 400), err)
	}
}

func (q *qConn) Query(s string, args ...any) (*vsql.Rows, error) {
	rows, err := q.c.QueryContext(context.Background(), s, args...)
	if err != nil {
		return nil, err
	}
	defer rows.Close()
	cols, err := rows.Columns()
	if err != nil {
		return nil, err
	}
	out := &vsql.Rows{Cols: cols}
	for rows.Next() {
		raw := make([]sql.RawBytes, len(cols))
		ptr := make([]any, len(cols))
		for i := range raw {
			ptr[i] = &raw[i]
		}
		if err := rows.Scan(ptr...); err != nil {
			return nil, err
		}
		r := make([]string, len(cols))
		for i, b := range raw {
			if b == nil {
				r[i] = vsql.Null
			} else {
				r[i] = string(b)
			}
		}
		out.Data = append(out.Data, r)
	}
	return out, rows.Err()
}

func qClip(s string, n int) string {
	if len(s) > n {
		return s[:n] + "…"
	}
	return s
}
