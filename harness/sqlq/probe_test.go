package sqlq

import (
	"testing"

	"github.com/dolthub/dolt/go/zzverif/vh"
	"github.com/dolthub/dolt/go/zzverif/vsql"
)

func TestVerif_Probe(t *testing.T) {
	dir, cleanup := vh.ScratchDir(t, "probe")
	defer cleanup()
	srv, err := vsql.StartServer(dir)
	if err != nil {
		vh.Inconclusive(t, "start: %v", err)
	}
	defer srv.Stop()
	admin := srv.Session(t, "admin", "")
	admin.MustExec(t, "CREATE DATABASE d1")
	a := srv.Session(t, "a", "d1")
	for _, s := range []string{
		"CREATE TABLE t1 (k0 VARCHAR(40) COLLATE utf8mb4_0900_bin NOT NULL, c3 VARBINARY(16), PRIMARY KEY (k0), KEY i0 (c3))",
		"CREATE TABLE t2 (k0 INT NOT NULL, c2 VARBINARY(16), c3 SMALLINT, PRIMARY KEY (k0), UNIQUE KEY i2 (c2,k0))",
		"INSERT INTO t1 VALUES ('a',0x41),('b xz',0x41),('B_c',0x41),('c',0x41),('z1',0x616263),('n',NULL)",
		"INSERT INTO t2 VALUES (0,0x41,8),(-1,0x41,32767),(-26,0x41,8),(-23,0x616263,8),(1,NULL,8),(2,0x00,7)",
	} {
		a.MustExec(t, s)
	}
	for _, q := range []string{
		"SELECT /*+ MERGE_JOIN(a,b) */ a.k0, b.k0 FROM t2 a LEFT JOIN t1 b ON a.c2 = b.c3 WHERE a.c3 = 8",
		"SELECT /*+ MERGE_JOIN(a,b) */ a.k0, b.k0 FROM t2 a JOIN t1 b ON a.c2 = b.c3 WHERE a.c3 = 8",
		"SELECT /*+ MERGE_JOIN(a,b) */ a.k0, b.k0 FROM t2 a LEFT JOIN t1 b ON a.c2 = b.c3",
		"SELECT /*+ HASH_JOIN(a,b) */ a.k0, b.k0 FROM t2 a LEFT JOIN t1 b ON a.c2 = b.c3 WHERE a.c3 = 8",
	} {
		r, err := a.Query(q)
		if err != nil {
			t.Logf("%s => ERR %.300s", q, err.Error())
			continue
		}
		p, _ := a.Query("EXPLAIN PLAN " + q)
		t.Logf("%s =>\n   %v\n   %v", q, vsql.Show(r.Sorted()), vsql.Show(p.Ordered()))
	}
}
