package sqlq

import (
	"testing"

	"github.com/dolthub/dolt/go/zzverif/vh"
	"github.com/dolthub/dolt/go/zzverif/vsql"
)

func TestVerif_Probe(t *testing.T) {
	dir, cleanup := vh.ScratchDir(t, "probe")
	defer cleanup()
	srv, err := vsql.StartServer(dir)
	if err != nil {
		vh.Inconclusive(t, "start: %v", err)
	}
	defer srv.Stop()
	admin := srv.Session(t, "admin", "")
	for i, ddl := range []string{
		"CREATE TABLE t (c0 SMALLINT NOT NULL, KEY ix1 (c0) COMMENT 'it''s')",
		"CREATE TABLE t (c0 SMALLINT NOT NULL COMMENT 'it''s')",
		"CREATE TABLE t (c0 SMALLINT NOT NULL) COMMENT='it''s'",
		"CREATE TABLE t (c0 SMALLINT NOT NULL DEFAULT 0, c1 VARCHAR(10) DEFAULT 'it''s')",
		"CREATE TABLE t (c0 SMALLINT NOT NULL, KEY ix1 (c0) COMMENT 'plain')",
	} {
		db := srv.NewDBName()
		admin.MustExec(t, "CREATE DATABASE "+db)
		s := srv.Session(t, "s", db)
		s.MustExec(t, ddl)
		e1 := s.Exec("ALTER TABLE t ADD COLUMN a9 INT GENERATED ALWAYS AS (c0 + 1) VIRTUAL")
		e2 := s.Exec("ALTER TABLE t ADD CONSTRAINT chk1 CHECK (c0 > -2)")
		s.MustExec(t, "CALL dolt_commit('-Am','base')")
		s.MustExec(t, "CALL dolt_branch('b2')")
		e3 := s.Exec("INSERT INTO t (c0) VALUES (1)")
		s.MustExec(t, "CALL dolt_commit('-Am','m')")
		s.MustExec(t, "CALL dolt_checkout('b2')")
		e4 := s.Exec("INSERT INTO t (c0) VALUES (2)")
		s.MustExec(t, "CALL dolt_commit('-Am','b')")
		r, err := s.Query("CALL dolt_merge('main')")
		t.Logf("%d %s\n   add virtual: %v\n   add check: %v\n   inserts: %v %v\n   merge => %v %v", i, ddl, e1, e2, e3, e4, r, err)
		s.Close()
	}
}
