package sqlq

import (
	"testing"

	"github.com/dolthub/dolt/go/zzverif/vh"
	"github.com/dolthub/dolt/go/zzverif/vsql"
)

func TestVerif_Probe(t *testing.T) {
	dir, cleanup := vh.ScratchDir(t, "probe")
	defer cleanup()
	srv, err := vsql.StartServer(dir)
	if err != nil {
		vh.Inconclusive(t, "start: %v", err)
	}
	defer srv.Stop()
	mem, err := qStartMem()
	if err != nil {
		vh.Inconclusive(t, "mem: %v", err)
	}
	defer mem.Stop()
	admin := srv.Session(t, "admin", "")
	madmin := mem.Conn(t, "")
	admin.MustExec(t, "CREATE DATABASE d1")
	madmin.MustExec(t, "CREATE DATABASE d1")
	a := srv.Session(t, "a", "d1")
	m := mem.Conn(t, "d1")
	for _, s := range []string{
		"CREATE TABLE `t0` (`c0` BIGINT, `c1` VARCHAR(16) COLLATE utf8mb4_general_ci NOT NULL, `c2` DECIMAL(10,2), KEY `i0` (`c2`,`c1`))",
		"INSERT INTO `t0` VALUES (0,'a ',-1.25),(NULL,'',-99999999.99),(-3,'',-1.00),(4294967296,'a ',-1.00),(0,'a ',NULL),(3,'A',-99999999.99),(4294967296,'A',-1.25),(4294967296,'a ',-99999999.99),(0,'A',NULL),(-1,'',-1.00)",
		"CREATE TABLE `t1` (k int primary key, `c0` BIGINT, `c1` VARCHAR(16) COLLATE utf8mb4_general_ci NOT NULL, `c2` DECIMAL(10,2), KEY `i0` (`c2`,`c1`))",
		"INSERT INTO `t1` VALUES (1,0,'a ',-1.25),(2,NULL,'',-99999999.99),(3,-3,'',-1.00),(4,4294967296,'a ',-1.00),(5,0,'a ',NULL),(6,3,'A',-99999999.99),(7,4294967296,'A',-1.25),(8,4294967296,'a ',-99999999.99),(9,0,'A',NULL),(10,-1,'',-1.00)",
	} {
		a.MustExec(t, s)
		m.MustExec(t, s)
	}
	for _, q := range []string{
		"SELECT c2, c0 FROM t0 WHERE ((`c2` <=> -99999999.99 AND NOT (`c2` IS NOT NULL)) OR `c2` <> -99999999.99)",
		"SELECT c2, c0 FROM t0 WHERE `c2` <> -99999999.99",
		"SELECT c2, c0 FROM t0 WHERE `c2` <> -1.00",
		"SELECT c2, c0 FROM t0 WHERE `c2` > -99999999.99",
		"SELECT c2, c0 FROM t1 WHERE `c2` <> -99999999.99",
		"SELECT c2, c0 FROM t1 WHERE `c2` > -99999999.99",
		"SELECT c2, c0 FROM t1 WHERE `c2` >= -99999999.99 and c2 < -1.00",
	} {
		r1, e1 := a.Query(q)
		r2, e2 := m.Query(q)
		p1, _ := a.Query("EXPLAIN PLAN " + q)
		p2, _ := m.Query("EXPLAIN PLAN " + q)
		t.Logf("%s\n  dolt %v %v\n  mem  %v %v\n  dplan %s\n  mplan %s", q, r1, e1, r2, e2, vsql.Show(p1.Ordered()), vsql.Show(p2.Ordered()))
	}
}
