package sqlq

import (
	"testing"

	"github.com/dolthub/dolt/go/zzverif/vh"
	"github.com/dolthub/dolt/go/zzverif/vsql"
)

func TestVerif_Probe(t *testing.T) {
	dir, cleanup := vh.ScratchDir(t, "probe")
	defer cleanup()
	srv, err := vsql.StartServer(dir)
	if err != nil {
		vh.Inconclusive(t, "start: %v", err)
	}
	defer srv.Stop()
	admin := srv.Session(t, "admin", "")
	admin.MustExec(t, "CREATE DATABASE d1")
	a := srv.Session(t, "a", "d1")
	for _, s := range []string{
		"CREATE TABLE `t1` (`k0` VARCHAR(40) COLLATE utf8mb4_0900_bin NOT NULL, `c0` DECIMAL(10,2), `c1` DECIMAL(10,2), PRIMARY KEY (`k0`), UNIQUE KEY `i0` (`c0`,`k0`))",
		"CREATE TABLE `t2` (`k0` INT UNSIGNED NOT NULL, `k1` DECIMAL(10,2) NOT NULL, `c1` SMALLINT, PRIMARY KEY (`k0`,`k1`))",
		"INSERT INTO `t1` VALUES ('c',0.01,-99999999.99),('0b',NULL,99999999.99),('á',0.01,NULL)",
		"INSERT INTO `t2` VALUES (1,0.01,32767),(2,0.07,32767),(12,-15.10,-2),(4,-0.01,NULL),(9,50.77,32767),(10,0.01,NULL),(4294967295,-1.03,NULL),(10,-0.03,-2),(9,13.99,32767),(6,-18.27,10),(3,0.05,12),(11,-0.09,12),(4294967295,0.00,-1),(3,-30.00,-1),(2,0.18,11),(2,0.16,12),(9,0.86,-1),(4294967295,106.28,32767)",
	} {
		a.MustExec(t, s)
	}
	for _, q := range []string{
		"SELECT /*+ LOOKUP_JOIN(a,b) */ a.k0, a.k1, a.`c1`, b.k0, b.c0, b.`c1` FROM `t2` a LEFT JOIN `t1` b ON a.`k1` = b.`c0` AND a.`k1` <> b.`c1` ORDER BY 1,2,4",
		"SELECT /*+ HASH_JOIN(a,b) */ a.k0, a.k1, a.`c1`, b.k0, b.c0, b.`c1` FROM `t2` a LEFT JOIN `t1` b ON a.`k1` = b.`c0` AND a.`k1` <> b.`c1` ORDER BY 1,2,4",
		"SELECT /*+ LOOKUP_JOIN(a,b) */ a.k0, a.k1, a.`c1`, b.k0, b.c0, b.`c1` FROM `t2` a LEFT JOIN `t1` b ON a.`k1` = b.`c0` ORDER BY 1,2,4",
		"SELECT /*+ LOOKUP_JOIN(a,b) */ a.k0, a.k1, a.`c1`, b.k0, b.c0, b.`c1` FROM `t2` a JOIN `t1` b ON a.`k1` = b.`c0` AND a.`k1` <> b.`c1` ORDER BY 1,2,4",
		"EXPLAIN PLAN SELECT /*+ LOOKUP_JOIN(a,b) */ a.k0, a.k1, a.`c1`, b.k0, b.c0, b.`c1` FROM `t2` a LEFT JOIN `t1` b ON a.`k1` = b.`c0` AND a.`k1` <> b.`c1`",
	} {
		r, err := a.Query(q)
		if err != nil {
			t.Logf("%s => ERR %v", q, err)
			continue
		}
		t.Logf("%s =>\n   %v", q, vsql.Show(r.Ordered()))
	}
}
