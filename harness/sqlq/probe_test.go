package sqlq

import (
	"os"
	"strings"
	"testing"

	"github.com/dolthub/dolt/go/zzverif/vh"
	"github.com/dolthub/dolt/go/zzverif/vsql"
)

func TestVerif_Probe(t *testing.T) {
	dir, cleanup := vh.ScratchDir(t, "probe")
	defer cleanup()
	srv, err := vsql.StartServer(dir)
	if err != nil {
		vh.Inconclusive(t, "start: %v", err)
	}
	defer srv.Stop()
	mem, _ := qStartMem()
	defer mem.Stop()
	admin := srv.Session(t, "admin", "")
	admin.MustExec(t, "CREATE DATABASE d1")
	mem.Conn(t, "").MustExec(t, "CREATE DATABASE d1")
	a := srv.Session(t, "a", "d1")
	m := mem.Conn(t, "d1")
	b, _ := os.ReadFile("/dev/shm/sqlq-work/s5.sql")
	for _, s := range strings.Split(string(b), "\n") {
		s = strings.TrimSpace(s)
		if s == "" || s == "FAIL" {
			continue
		}
		if err := a.Exec(s); err != nil {
			t.Logf("dolt ERR %.80s: %v", s, err)
		}
		if !strings.HasPrefix(s, "CALL") {
			if err := m.Exec(s); err != nil {
				t.Logf("mem ERR %.80s: %v", s, err)
			}
		}
	}
	for _, q := range []string{
		"SELECT /*+ MERGE_JOIN(a,b) */ a.c1, b.c0 FROM t0 a INNER JOIN t1 b ON a.c1 = b.c0",
		"SELECT /*+ INNER_JOIN(a,b) */ a.c1, b.c0 FROM t0 a INNER JOIN t1 b ON a.c1 = b.c0",
		"SELECT /*+ LOOKUP_JOIN(a,b) */ a.c1, b.c0 FROM t0 a INNER JOIN t1 b ON a.c1 = b.c0",
		"SELECT c1, COUNT(*) FROM t0 GROUP BY c1",
	} {
		r, e1 := a.Query(q)
		r2, e2 := m.Query(q)
		p, _ := a.Query("EXPLAIN PLAN " + q)
		p2, _ := m.Query("EXPLAIN PLAN " + q)
		s1, s2 := "", ""
		if r != nil {
			s1 = vsql.Show(r.Sorted())
		}
		if r2 != nil {
			s2 = vsql.Show(r2.Sorted())
		}
		t.Logf("%s\n   dolt %v %v\n   mem  %v %v\n   dplan %.200s\n   mplan %.200s", q, s1, e1, s2, e2, strings.Join(p.Ordered(), "|"), strings.Join(p2.Ordered(), "|"))
	}
}
