package sqlq

// C16 (SQL half) — Large TEXT, BLOB and JSON values are stored faithfully.
//
// One generated case = a value kind (TEXT / BLOB / JSON), 2–5 logical values with sizes around
// the inline/out-of-band switch and chunk sizes (up to ~2 MiB in the quick tier) and hostile
// contents, written several ways into two tables holding the same logical rows:
//   a (pk, v)                 a small row: v stays inline up to ~2 KiB
//   b (pk, f VARCHAR, v, w)   f is a ~2 KiB filler, so every v longer than an address goes
//                             out of band (w is a second adaptive column competing with v)
// Oracles: read-back through HEX() byte for byte (JSON: structurally equal after parsing);
// LENGTH/CHAR_LENGTH; =, <, ORDER BY, GROUP BY/DISTINCT, MIN/MAX give the answers computed by
// the harness from the bytes, in a, in b and across a ⋈ b (inline copy against out-of-band
// copy); ALTER TABLE adding/dropping a wide column keeps every value. The storage form of
// every value (inline / out of band) is read in process from the row tuples and recorded.

import (
	"bytes"
	"context"
	"encoding/hex"
	"encoding/json"
	"fmt"
	"io"
	"sort"
	"strings"
	"testing"
	"unicode/utf8"

	"pgregory.net/rapid"

	"github.com/dolthub/dolt/go/libraries/doltcore/doltdb"
	"github.com/dolthub/dolt/go/libraries/doltcore/doltdb/durable"
	"github.com/dolthub/dolt/go/libraries/doltcore/ref"
	"github.com/dolthub/dolt/go/libraries/doltcore/sqle/dsess"
	"github.com/dolthub/dolt/go/store/val"
	"github.com/dolthub/dolt/go/zzverif/vh"
	"github.com/dolthub/dolt/go/zzverif/vsql"
)

const c16Rule = "case = value kind (TEXT/BLOB/JSON) + 2-5 logical values (sizes 0, 1, around the 20-byte address size, every size in a window around the 2 KiB row target, 4 KiB / 16 KiB / 64 KiB +-1, up to 2 MiB quick / 4 MiB thorough; contents: random bytes, one repeated byte, multi-byte UTF-8, quotes/backslashes/NUL, JSON of random shape) + the way each value is produced (parameter, INSERT..SELECT, UPDATE from another column, CONCAT/REPEAT, JSON_OBJECT/JSON_SET, ALTER TABLE add/drop wide column) into two tables whose neighbouring column widths force different storage forms. Non-trivial = at least one logical value is stored inline in one table and out of band in the other (read from the row tuples in process) and the cross-table comparisons ran."

var c16Assumptions = []string{
	"the client sends parameters interpolated as escaped literals (go-sql-driver InterpolateParams); binary values travel as _binary'...' literals",
	"expected order and equality are bytewise (BLOB; TEXT with utf8mb4_0900_bin, where byte order equals code point order); JSON equality is structural equality of the parsed documents and JSON ordering is only compared between the two tables, not against a model",
	"JSON numbers are integers below 2^53 or short decimals; JSON object keys within one object are distinct",
	"while finding " + c16FindCountDistinct + " is listed open, a COUNT(DISTINCT v) that fails (wrapper values, non-UTF-8 BLOBs, values over 64 KiB: all from the same conversion through types.Text) is skipped (counted as excluded_known; SELECT DISTINCT and GROUP BY still decide deduplication); the pinned sub-test reports it",
	"the CONCAT/REPEAT producer is used for TEXT only: go-mysql-server types CONCAT/REPEAT over binary arguments as character strings and rejects non-UTF-8 bytes with 'Incorrect string value' before storing anything",
	"equality is always decided with a nested-loop join (INNER_JOIN hint); while finding " + c16FindHashJoinBlob + " is listed open, a BLOB equality join forced to a hash join (HASH_JOIN hint) that returns a subset of the expected pairs is attributed to it (counted as excluded_known); the pinned sub-test reports it",
	"the storage form is read in process from the row tuples (val.AdaptiveValue.IsOutOfBand) only to classify cases; no oracle depends on it",
}

type c16Val struct {
	Bytes []byte // TEXT/BLOB: the bytes; JSON: a serialization of Doc
	Doc   any    // JSON only
	How   string
	Desc  string
}

// ---------------------------------------------------------------------------------------
// value generators

var c16Sizes = []int{0, 1, 2, 19, 20, 21, 22, 23, 24, 25, 40, 63, 64, 65, 255, 256, 1000, 2000, 4095, 4096, 4097, 16383, 16384, 16385, 65534, 65535}

func c16GenSize(rt *rapid.T, maxSize int, label string) int {
	switch rapid.IntRange(0, 9).Draw(rt, label+".cls") {
	case 0, 1, 2:
		return rapid.SampledFrom(c16Sizes).Draw(rt, label)
	case 3, 4, 5, 6:
		// the window in which table a flips from inline to out of band
		return rapid.IntRange(1960, 2070).Draw(rt, label+".window")
	case 7:
		return rapid.IntRange(0, 5000).Draw(rt, label+".small")
	case 8:
		return rapid.SampledFrom([]int{65536, 65537, 100000, 262144, 262145}).Draw(rt, label+".mid")
	default:
		if rapid.Bool().Draw(rt, label+".isbig") {
			return rapid.SampledFrom([]int{1 << 20, (1 << 20) + 1, maxSize - 1, maxSize}).Draw(rt, label+".big")
		}
		return rapid.IntRange(2030, 2050).Draw(rt, label+".edge")
	}
}

// c16Fill builds n bytes deterministically from a small drawn seed (drawing megabytes through
// rapid would be far too slow and would not shrink usefully).
func c16Fill(n int, seed uint64, alphabet []byte) []byte {
	out := make([]byte, n)
	x := seed*2862933555777941757 + 3037000493
	for i := range out {
		x ^= x << 13
		x ^= x >> 7
		x ^= x << 17
		if alphabet == nil {
			out[i] = byte(x >> 24)
		} else {
			out[i] = alphabet[int((x>>24)%uint64(len(alphabet)))]
		}
	}
	return out
}

// c16FillRunes builds a valid UTF-8 string of about n bytes from whole pieces.
func c16FillRunes(n int, seed uint64, pieces []string) string {
	var b strings.Builder
	b.Grow(n + 4)
	x := seed*2862933555777941757 + 3037000493
	for b.Len() < n {
		x ^= x << 13
		x ^= x >> 7
		x ^= x << 17
		b.WriteString(pieces[int((x>>24)%uint64(len(pieces)))])
	}
	return b.String()
}

var c16Runes = []string{"a", "Z", "0", " ", "é", "ß", "ж", "中", "€", "😀", "𝄞", " ", "́"}

func c16GenText(rt *rapid.T, size int) ([]byte, string) {
	seed := rapid.Uint64Range(0, 1<<20).Draw(rt, "text.seed")
	switch rapid.SampledFrom([]string{"ascii", "same", "utf8", "hostile"}).Draw(rt, "text.content") {
	case "same":
		return bytes.Repeat([]byte{"ax~"[seed%3]}, size), "same-byte"
	case "utf8":
		// multi-byte runes at every alignment: start with 0-3 ASCII bytes, then cycle runes
		var b bytes.Buffer
		b.Write(bytes.Repeat([]byte{'p'}, int(seed%4)))
		x := seed
		for b.Len() < size {
			x = x*6364136223846793005 + 1442695040888963407
			r := c16Runes[int((x>>33)%uint64(len(c16Runes)))]
			if b.Len()+len(r) > size {
				b.WriteByte('q')
				continue
			}
			b.WriteString(r)
		}
		return b.Bytes()[:size], "utf8"
	case "hostile":
		return c16Fill(size, seed, []byte("'\"\\\x00\n\r\t%_;-`a\x1a\x7f")), "quotes-backslashes-nul"
	}
	return c16Fill(size, seed, []byte("abcdefghijklmnopqrstuvwxyzABCDEFGHIJKLMNOPQRSTUVWXYZ0123456789 ")), "ascii"
}

func c16GenBlob(rt *rapid.T, size int) ([]byte, string) {
	seed := rapid.Uint64Range(0, 1<<20).Draw(rt, "blob.seed")
	switch rapid.SampledFrom([]string{"random", "random", "same", "hostile"}).Draw(rt, "blob.content") {
	case "same":
		return bytes.Repeat([]byte{[]byte{0x00, 0xff, 0x27}[seed%3]}, size), "same-byte"
	case "hostile":
		return c16Fill(size, seed, []byte{0x00, 0x27, 0x22, 0x5c, 0x0a, 0x0d, 0x1a, 0xff, 0x80, 0xc3, 0x28}), "quotes-backslashes-nul-invalid-utf8"
	}
	return c16Fill(size, seed, nil), "random"
}

var c16JSONStrings = []string{"", "a", "é中😀", "quote\"back\\slash", "nul\u0000tab\tnl\n", "</script>", "a b", "key with space", "A", "a "}

// c16GenJSON draws a document whose serialization is roughly size bytes: a random small
// skeleton, padded by one long string and/or a big array.
func c16GenJSON(rt *rapid.T, size int) (any, string) {
	var gen func(depth int) any
	gen = func(depth int) any {
		k := rapid.IntRange(0, 7).Draw(rt, "json.kind")
		if depth <= 0 && k >= 6 {
			k = 2
		}
		switch k {
		case 0:
			return nil
		case 1:
			return rapid.Bool().Draw(rt, "json.bool")
		case 2:
			return json.Number(fmt.Sprint(rapid.Int64Range(-1000, 1<<40).Draw(rt, "json.int")))
		case 3:
			return json.Number(rapid.SampledFrom([]string{"1.5", "-0.25", "3.125", "100.5"}).Draw(rt, "json.dec"))
		case 4, 5:
			return rapid.SampledFrom(c16JSONStrings).Draw(rt, "json.str")
		case 6:
			n := rapid.IntRange(0, 4).Draw(rt, "json.arrlen")
			arr := make([]any, n)
			for i := range arr {
				arr[i] = gen(depth - 1)
			}
			return arr
		default:
			n := rapid.IntRange(0, 4).Draw(rt, "json.objlen")
			obj := map[string]any{}
			for i := 0; i < n; i++ {
				key := rapid.SampledFrom([]string{"a", "b", "A", "a ", "k\"q", "é", "", "nested", "x.y", "0"}).Draw(rt, "json.key")
				obj[key] = gen(depth - 1)
			}
			return obj
		}
	}
	doc := map[string]any{"skel": gen(rapid.IntRange(0, 3).Draw(rt, "json.depth"))}
	how := "skeleton"
	if size > 40 {
		seed := rapid.Uint64Range(0, 1<<20).Draw(rt, "json.seed")
		switch rapid.SampledFrom([]string{"longstring", "bigarray", "both"}).Draw(rt, "json.pad") {
		case "longstring":
			doc["pad"] = c16FillRunes(size-30, seed, []string{"a", "b", "c", " ", "\"", "\\", "/", "é", "x", "y", "z", "0", "1", "中", "\u0000", "\n"})
			how = "long-string"
		case "bigarray":
			n := size / 8
			arr := make([]any, n)
			for i := range arr {
				arr[i] = json.Number(fmt.Sprint(1000000 + (int(seed)+i*7919)%8999999))
			}
			doc["arr"] = arr
			how = "big-array"
		default:
			doc["pad"] = string(c16Fill(size/2, seed, []byte("abcdefgh\"\\")))
			n := size / 16
			arr := make([]any, n)
			for i := range arr {
				arr[i] = map[string]any{"i": json.Number(fmt.Sprint(i)), "s": "v"}
				if i > 2000 {
					arr = arr[:i]
					break
				}
			}
			doc["objs"] = arr
			how = "string+array-of-objects"
		}
	}
	return doc, how
}

func c16Marshal(doc any) []byte {
	var b bytes.Buffer
	enc := json.NewEncoder(&b)
	enc.SetEscapeHTML(false)
	if err := enc.Encode(doc); err != nil {
		panic(err)
	}
	return bytes.TrimRight(b.Bytes(), "\n")
}

func c16Parse(s string) (any, error) {
	dec := json.NewDecoder(strings.NewReader(s))
	dec.UseNumber()
	var v any
	if err := dec.Decode(&v); err != nil {
		return nil, err
	}
	if _, err := dec.Token(); err != io.EOF {
		return nil, fmt.Errorf("trailing data after JSON document")
	}
	return v, nil
}

// c16JSONEqual compares parsed documents structurally (numbers by numeric value).
func c16JSONEqual(a, b any) bool {
	switch x := a.(type) {
	case nil:
		return b == nil
	case bool:
		y, ok := b.(bool)
		return ok && x == y
	case string:
		y, ok := b.(string)
		return ok && x == y
	case json.Number:
		y, ok := b.(json.Number)
		if !ok {
			return false
		}
		fx, e1 := x.Float64()
		fy, e2 := y.Float64()
		return e1 == nil && e2 == nil && fx == fy
	case []any:
		y, ok := b.([]any)
		if !ok || len(x) != len(y) {
			return false
		}
		for i := range x {
			if !c16JSONEqual(x[i], y[i]) {
				return false
			}
		}
		return true
	case map[string]any:
		y, ok := b.(map[string]any)
		if !ok || len(x) != len(y) {
			return false
		}
		for k, v := range x {
			w, ok := y[k]
			if !ok || !c16JSONEqual(v, w) {
				return false
			}
		}
		return true
	}
	return false
}

// c16Canon is a canonical serialization used as the equality key of JSON values in the model.
func c16Canon(doc any) string {
	switch x := doc.(type) {
	case json.Number:
		f, _ := x.Float64()
		return fmt.Sprintf("n%v", f)
	case []any:
		var p []string
		for _, e := range x {
			p = append(p, c16Canon(e))
		}
		return "[" + strings.Join(p, ",") + "]"
	case map[string]any:
		keys := make([]string, 0, len(x))
		for k := range x {
			keys = append(keys, k)
		}
		sort.Strings(keys)
		var p []string
		for _, k := range keys {
			p = append(p, fmt.Sprintf("%q:%s", k, c16Canon(x[k])))
		}
		return "{" + strings.Join(p, ",") + "}"
	case string:
		return fmt.Sprintf("s%q", x)
	case nil:
		return "null"
	case bool:
		return fmt.Sprintf("b%v", x)
	}
	return fmt.Sprintf("?%v", doc)
}

// ---------------------------------------------------------------------------------------
// storage form, read in process

// c16Layout returns, for every pk of table, which adaptive columns are stored out of band.
func c16Layout(srv *vsql.Server, db, table string) (map[int64]map[string]bool, error) {
	sqlCtx, err := srv.Engine.NewLocalContext(context.Background())
	if err != nil {
		return nil, err
	}
	sess := dsess.DSessFromSess(sqlCtx.Session)
	sdb, ok := sess.Provider().BaseDatabase(sqlCtx, db)
	if !ok {
		return nil, fmt.Errorf("database %s not found", db)
	}
	ddb := sdb.DbData().Ddb
	wsRef, err := ref.WorkingSetRefForHead(ref.NewBranchRef("main"))
	if err != nil {
		return nil, err
	}
	ws, err := ddb.ResolveWorkingSet(sqlCtx, wsRef)
	if err != nil {
		return nil, err
	}
	tbl, ok, err := ws.WorkingRoot().GetTable(sqlCtx, doltdb.TableName{Name: table})
	if err != nil || !ok {
		return nil, fmt.Errorf("table %s: %v", table, err)
	}
	sch, err := tbl.GetSchema(sqlCtx)
	if err != nil {
		return nil, err
	}
	idx, err := tbl.GetRowData(sqlCtx)
	if err != nil {
		return nil, err
	}
	m, err := durable.ProllyMapFromIndex(idx)
	if err != nil {
		return nil, err
	}
	kd, vd := m.Descriptors()
	cols := sch.GetNonPKCols().GetColumns()
	it, err := m.IterAll(sqlCtx)
	if err != nil {
		return nil, err
	}
	out := map[int64]map[string]bool{}
	for {
		k, v, err := it.Next(sqlCtx)
		if err == io.EOF {
			break
		}
		if err != nil {
			return nil, err
		}
		pk, ok := kd.GetInt32(0, k)
		if !ok {
			return nil, fmt.Errorf("cannot read pk")
		}
		row := map[string]bool{}
		for i, t := range vd.Types {
			if val.IsAdaptiveEncoding(t.Enc) && i < len(cols) {
				f := v.GetField(i)
				if f == nil {
					continue
				}
				row[cols[i].Name] = val.AdaptiveValue(f).IsOutOfBand()
			}
		}
		out[int64(pk)] = row
	}
	return out, nil
}

// ---------------------------------------------------------------------------------------
// the check

type c16Case struct {
	rt     *rapid.T
	kind   string // text blob json
	typ    string
	s      *vsql.Session
	vals   []c16Val
	script []string
}

func (c *c16Case) note(format string, args ...any) {
	s := fmt.Sprintf(format, args...)
	c.script = append(c.script, qClip(s, 300))
}

func (c *c16Case) exec(what, sql string, args ...any) {
	c.note("%s  -- %s", sql, what)
	if err := c.s.Exec(sql, args...); err != nil {
		c.rt.Fatalf("C16: statement failed (%s): %s: %v\n--- case ---\n%s", what, qClip(sql, 300), err, c.dump())
	}
}

func (c *c16Case) dump() string {
	var b strings.Builder
	fmt.Fprintf(&b, "kind=%s type=%s\n", c.kind, c.typ)
	for i, v := range c.vals {
		fmt.Fprintf(&b, "value %d: %d bytes, %s, produced by %s, head=%q\n", i, len(v.Bytes), v.Desc, v.How, qClip(string(v.Bytes), 60))
	}
	b.WriteString(strings.Join(c.script, "\n"))
	return b.String()
}

// param converts a value to the query argument that stores it.
func (c *c16Case) param(v c16Val) any {
	if c.kind == "blob" {
		return v.Bytes
	}
	return string(v.Bytes)
}

func (c *c16Case) equal(i, j int) bool {
	if c.kind == "json" {
		return c16Canon(c.vals[i].Doc) == c16Canon(c.vals[j].Doc)
	}
	return bytes.Equal(c.vals[i].Bytes, c.vals[j].Bytes)
}

// checkRead verifies the stored value of pk in table against value index vi.
func (c *c16Case) checkRead(table, col string, pk, vi int) {
	want := c.vals[vi]
	if c.kind == "json" {
		r := c.s.MustQuery(c.rt, fmt.Sprintf("SELECT CAST(`%s` AS CHAR), JSON_TYPE(`%s`) FROM `%s` WHERE pk = ?", col, col, table), pk)
		if len(r.Data) != 1 {
			c.rt.Fatalf("C16: %s.%s pk=%d: %d rows\n--- case ---\n%s", table, col, pk, len(r.Data), c.dump())
		}
		got, err := c16Parse(r.Data[0][0])
		if err != nil {
			c.rt.Fatalf("C16: %s.%s pk=%d: stored JSON does not parse: %v: %s\n--- case ---\n%s", table, col, pk, err, qClip(r.Data[0][0], 300), c.dump())
		}
		if !c16JSONEqual(want.Doc, got) {
			c.rt.Fatalf("C16: %s.%s pk=%d (value %d): JSON read back differs\nwant %s\ngot  %s\n--- case ---\n%s", table, col, pk, vi, qClip(string(c16Marshal(want.Doc)), 400), qClip(r.Data[0][0], 400), c.dump())
		}
		return
	}
	r := c.s.MustQuery(c.rt, fmt.Sprintf("SELECT HEX(`%s`), LENGTH(`%s`), CHAR_LENGTH(`%s`) FROM `%s` WHERE pk = ?", col, col, col, table), pk)
	if len(r.Data) != 1 {
		c.rt.Fatalf("C16: %s.%s pk=%d: %d rows\n--- case ---\n%s", table, col, pk, len(r.Data), c.dump())
	}
	got, err := hex.DecodeString(r.Data[0][0])
	if err != nil {
		c.rt.Fatalf("C16: HEX() returned non-hex: %v", err)
	}
	if !bytes.Equal(got, want.Bytes) {
		at := 0
		for at < len(got) && at < len(want.Bytes) && got[at] == want.Bytes[at] {
			at++
		}
		c.rt.Fatalf("C16: %s.%s pk=%d (value %d): read back %d bytes, wrote %d bytes; first difference at byte %d\n--- case ---\n%s", table, col, pk, vi, len(got), len(want.Bytes), at, c.dump())
	}
	if r.Data[0][1] != fmt.Sprint(len(want.Bytes)) {
		c.rt.Fatalf("C16: %s.%s pk=%d: LENGTH = %s, want %d\n--- case ---\n%s", table, col, pk, r.Data[0][1], len(want.Bytes), c.dump())
	}
	wantChars := len(want.Bytes)
	if c.kind == "text" {
		wantChars = utf8.RuneCount(want.Bytes)
	}
	if r.Data[0][2] != fmt.Sprint(wantChars) {
		c.rt.Fatalf("C16: %s.%s pk=%d: CHAR_LENGTH = %s, want %d\n--- case ---\n%s", table, col, pk, r.Data[0][2], wantChars, c.dump())
	}
}

func c16Pairs(rows *vsql.Rows) string { return strings.Join(rows.Sorted(), " ") }

// c16FindCountDistinct: COUNT(DISTINCT col) over a TEXT column whose value dolt hands to the
// engine as a lazily loaded wrapper (out-of-band storage) fails with "count distinct unable to
// hash value": go-mysql-server's countDistinctBuffer converts with types.Text.Convert, which
// returns the wrapper itself, and then insists on a Go string.
const c16FindCountDistinct = "C16-count-distinct-outofband-text"

func c16PinnedCountDistinct(t *testing.T, srv *vsql.Server, admin *vsql.Session) string {
	db := srv.NewDBName()
	admin.MustExec(t, "CREATE DATABASE "+db)
	defer admin.Exec("DROP DATABASE " + db)
	s := srv.Session(t, "pinned", db)
	defer s.Close()
	s.MustExec(t, "CREATE TABLE b (pk INT PRIMARY KEY, f VARCHAR(2100) NOT NULL, v TEXT)")
	s.MustExec(t, "INSERT INTO b VALUES (1, REPEAT('f', 2040), 'abcdefghijklmnopqrstuvwxyz'), (2, REPEAT('f', 2040), 'abcdefghijklmnopqrstuvwxyz')")
	r, err := s.Query("SELECT COUNT(DISTINCT v) FROM b")
	if err != nil {
		return "b(pk, f VARCHAR(2100) holding 2040 bytes, v TEXT) with two rows v='abcdefghijklmnopqrstuvwxyz': SELECT COUNT(DISTINCT v) FROM b fails: " + err.Error()
	}
	if len(r.Data) != 1 || r.Data[0][0] != "1" {
		return fmt.Sprintf("SELECT COUNT(DISTINCT v) FROM b returned %v want 1", r)
	}
	return ""
}

// c16FindHashJoinBlob: go-mysql-server's HashLookup.GetHashKey keys a BLOB by string(bytes) when
// the value arrives as a []byte and by a 64-bit hash when it arrives as a lazily loaded wrapper
// (out-of-band storage): equal values in different storage forms never meet in a hash join.
const c16FindHashJoinBlob = "C16-hashjoin-blob-storage-form"

func c16PinnedHashJoinBlob(t *testing.T, srv *vsql.Server, admin *vsql.Session) string {
	db := srv.NewDBName()
	admin.MustExec(t, "CREATE DATABASE "+db)
	defer admin.Exec("DROP DATABASE " + db)
	s := srv.Session(t, "pinned", db)
	defer s.Close()
	s.MustExec(t, "CREATE TABLE a (pk INT PRIMARY KEY, v BLOB)")
	s.MustExec(t, "CREATE TABLE b (pk INT PRIMARY KEY, f VARCHAR(2100) NOT NULL, v BLOB)")
	for pk := 1; pk <= 4; pk++ {
		v := c16Fill(300, uint64(pk), nil)
		s.MustExec(t, "INSERT INTO a VALUES (?, ?)", pk, v)
		s.MustExec(t, "INSERT INTO b VALUES (?, REPEAT('f', 2040), ?)", pk, v)
	}
	q := "SELECT /*+ HASH_JOIN(x,y) */ COUNT(*) FROM a x JOIN b y ON x.v = y.v"
	for i := 0; i < 8; i++ {
		got, _ := s.Scalar(t, q)
		if got != "4" {
			p := s.MustQuery(t, "EXPLAIN PLAN "+q)
			return fmt.Sprintf("a(pk, v BLOB) and b(pk, f VARCHAR(2100) holding 2040 bytes, v BLOB) hold the same four 300-byte values (inline in a, out of band in b): %s returned %s want 4 (run %d); plan %s", q, got, i+1, strings.Join(p.Ordered(), " / "))
		}
	}
	return ""
}

func TestVerif_C16_sql(t *testing.T) {
	rec := vh.NewRecorder("C16", "sql", "exploration", c16Rule, c16Assumptions...)
	defer rec.Write(t)
	dir, cleanup := vh.ScratchDir(t, "c16")
	defer cleanup()
	srv, err := vsql.StartServer(dir)
	if err != nil {
		vh.Inconclusive(t, "start dolt server: %v", err)
	}
	defer srv.Stop()
	admin := srv.Session(t, "admin", "")
	defer admin.Close()
	t.Run("pinned_count_distinct_outofband_text", func(t *testing.T) {
		if msg := c16PinnedCountDistinct(t, srv, admin); msg != "" {
			if vh.OpenFinding("C16", c16FindCountDistinct) {
				vh.ReportKnown("C16", c16FindCountDistinct, msg)
				return
			}
			vh.NoteViolation(t.Name(), "", `{"sql":["CREATE TABLE b (pk INT PRIMARY KEY, f VARCHAR(2100) NOT NULL, v TEXT)","INSERT INTO b VALUES (1, REPEAT('f', 2040), 'abcdefghijklmnopqrstuvwxyz'), (2, REPEAT('f', 2040), 'abcdefghijklmnopqrstuvwxyz')","SELECT COUNT(DISTINCT v) FROM b"],"observed":"`+strings.ReplaceAll(msg, `"`, `'`)+`"}`)
			t.Errorf("%s", msg)
		}
	})
	t.Run("pinned_hashjoin_blob_storage_form", func(t *testing.T) {
		if msg := c16PinnedHashJoinBlob(t, srv, admin); msg != "" {
			if vh.OpenFinding("C16", c16FindHashJoinBlob) {
				vh.ReportKnown("C16", c16FindHashJoinBlob, msg)
				return
			}
			vh.NoteViolation(t.Name(), "", `{"sql":["CREATE TABLE a (pk INT PRIMARY KEY, v BLOB)","CREATE TABLE b (pk INT PRIMARY KEY, f VARCHAR(2100) NOT NULL, v BLOB)","-- four rows with the same random 300-byte v in both tables, b.f = REPEAT('f', 2040)","SELECT /*+ HASH_JOIN(x,y) */ COUNT(*) FROM a x JOIN b y ON x.v = y.v"],"observed":"`+strings.ReplaceAll(msg, `"`, `'`)+`"}`)
			t.Errorf("%s", msg)
		}
	})
	maxSize := vh.N(2<<20, 4<<20)
	filler := strings.Repeat("f", 2040)
	vh.Check(t, "sql", 30, 25, func(rt *rapid.T) {
		db := srv.NewDBName()
		admin.MustExec(rt, "CREATE DATABASE "+db)
		defer admin.Exec("DROP DATABASE " + db)
		c := &c16Case{rt: rt, s: srv.Session(rt, "c16", db)}
		defer c.s.Close()
		_ = c.s.Exec("CALL dolt_stats_stop()")
		c.kind = rapid.SampledFrom([]string{"text", "text", "blob", "blob", "json"}).Draw(rt, "kind")
		nvals := rapid.IntRange(2, 5).Draw(rt, "nvals")
		big := 0
		for i := 0; i < nvals; i++ {
			size := c16GenSize(rt, maxSize, "size")
			if size >= 1<<20 {
				big++
				if big > 1 {
					size = rapid.IntRange(1990, 2060).Draw(rt, "size.window2")
				}
			}
			var v c16Val
			switch c.kind {
			case "text":
				v.Bytes, v.Desc = c16GenText(rt, size)
			case "blob":
				v.Bytes, v.Desc = c16GenBlob(rt, size)
			default:
				v.Doc, v.Desc = c16GenJSON(rt, size)
				v.Bytes = c16Marshal(v.Doc)
			}
			// near-duplicate of an earlier value: same prefix, last byte differs
			if c.kind != "json" && i > 0 && rapid.IntRange(0, 4).Draw(rt, "neardup") == 0 && len(c.vals[0].Bytes) > 0 {
				v.Bytes = append([]byte{}, c.vals[0].Bytes...)
				v.Bytes[len(v.Bytes)-1] ^= 0x01
				if c.kind == "text" && !utf8.Valid(v.Bytes) {
					// the last byte belonged to a multi-byte rune: replace that whole rune
					orig := c.vals[0].Bytes
					_, n := utf8.DecodeLastRune(orig)
					v.Bytes = append(append([]byte{}, orig[:len(orig)-n]...), 'Z')
				}
				v.Desc = "near-duplicate of value 0"
			}
			c.vals = append(c.vals, v)
		}
		maxLen := 0
		for _, v := range c.vals {
			if len(v.Bytes) > maxLen {
				maxLen = len(v.Bytes)
			}
		}
		switch c.kind {
		case "text":
			c.typ = "LONGTEXT"
			if maxLen <= 60000 && rapid.Bool().Draw(rt, "smalltype") {
				c.typ = "TEXT"
			} else if maxLen < (1<<24)-8192 && rapid.Bool().Draw(rt, "mediumtype") {
				c.typ = "MEDIUMTEXT"
			}
			c.typ += " COLLATE utf8mb4_0900_bin"
		case "blob":
			c.typ = "LONGBLOB"
			if maxLen <= 60000 && rapid.Bool().Draw(rt, "smalltype") {
				c.typ = "BLOB"
			} else if maxLen < (1<<24)-8192 && rapid.Bool().Draw(rt, "mediumtype") {
				c.typ = "MEDIUMBLOB"
			}
		default:
			c.typ = "JSON"
		}
		c.exec("small rows", fmt.Sprintf("CREATE TABLE a (pk INT PRIMARY KEY, v %s)", c.typ))
		c.exec("wide rows", fmt.Sprintf("CREATE TABLE b (pk INT PRIMARY KEY, f VARCHAR(2100) COLLATE utf8mb4_0900_bin NOT NULL, v %s, w %s)", c.typ, c.typ))

		// rows: pk i holds value i; pk 10+i is a duplicate of value i produced another way
		holds := map[int]int{} // pk -> value index (same in a and b)
		for i, v := range c.vals {
			how := rapid.SampledFrom([]string{"param", "param", "select", "update", "concat", "jsonfn"}).Draw(rt, "how")
			if how == "jsonfn" && c.kind != "json" {
				how = "concat"
			}
			if how == "concat" && c.kind == "json" {
				how = "jsonfn"
			}
			if how == "concat" && c.kind == "blob" {
				// go-mysql-server types CONCAT/REPEAT over binary arguments as a character string and
				// rejects bytes that are not UTF-8 ("Incorrect string value") before anything is
				// stored: an expression-typing incompatibility outside this property
				how = "select"
			}
			c.vals[i].How = how
			switch how {
			case "param":
				c.exec("value "+fmt.Sprint(i)+" by parameter", "INSERT INTO a VALUES (?, ?)", i, c.param(v))
				c.exec("same value, wide row", "INSERT INTO b VALUES (?, ?, ?, NULL)", i, filler, c.param(v))
			case "select":
				c.exec("value "+fmt.Sprint(i)+" by parameter into b", "INSERT INTO b VALUES (?, ?, ?, NULL)", i, filler, c.param(v))
				c.exec("INSERT..SELECT wide -> small", "INSERT INTO a SELECT pk, v FROM b WHERE pk = ?", i)
			case "update":
				c.exec("value "+fmt.Sprint(i)+" into w", "INSERT INTO b VALUES (?, ?, NULL, ?)", i, filler, c.param(v))
				c.exec("UPDATE from another column", "UPDATE b SET v = w WHERE pk = ?", i)
				c.exec("placeholder row", "INSERT INTO a VALUES (?, NULL)", i)
				c.exec("UPDATE from another table", "UPDATE a SET v = (SELECT w FROM b WHERE b.pk = a.pk) WHERE pk = ?", i)
			case "concat":
				// value = REPEAT(unit, n) || tail, computed by the server
				unitLen := rapid.SampledFrom([]int{1, 3, 7, 64, 1000}).Draw(rt, "concat.unit")
				if unitLen > len(v.Bytes) {
					unitLen = len(v.Bytes)
				}
				var unit, tail []byte
				n := 0
				if unitLen > 0 {
					unit = v.Bytes[:unitLen]
					nmin := 0
					if c.kind == "blob" {
						// REPEAT(<binary>, 0) is a non-binary '' in go-mysql-server and makes the CONCAT a
						// character string (an expression typing matter, not a storage one)
						nmin = 1
					}
					n = rapid.IntRange(nmin, 3).Draw(rt, "concat.n")
					tail = v.Bytes[unitLen:]
					full := append(bytes.Repeat(unit, n), tail...)
					if c.kind == "text" && (!utf8.Valid(unit) || !utf8.Valid(tail)) {
						// cutting inside a rune would make the pieces invalid text on their own
						unit, n, tail = nil, 0, v.Bytes
						full = v.Bytes
					}
					c.vals[i].Bytes = full
					v = c.vals[i]
				} else {
					tail = v.Bytes
				}
				pu, pt := any(string(unit)), any(string(tail))
				if c.kind == "blob" {
					pu, pt = unit, tail
				}
				c.exec(fmt.Sprintf("value %d by CONCAT(REPEAT(unit[%d],%d), tail[%d])", i, len(unit), n, len(tail)), "INSERT INTO a VALUES (?, CONCAT(REPEAT(?, ?), ?))", i, pu, n, pt)
				c.exec("same expression, wide row", "INSERT INTO b VALUES (?, ?, CONCAT(REPEAT(?, ?), ?), NULL)", i, filler, pu, n, pt)
			case "jsonfn":
				// the document is rebuilt by JSON_OBJECT from its top-level members, then one member is
				// set with JSON_SET
				doc := v.Doc.(map[string]any)
				keys := make([]string, 0, len(doc))
				for k := range doc {
					keys = append(keys, k)
				}
				sort.Strings(keys)
				var parts []string
				var args []any
				for _, k := range keys {
					parts = append(parts, "?, CAST(? AS JSON)")
					args = append(args, k, string(c16Marshal(doc[k])))
				}
				extra := rapid.SampledFrom(c16JSONStrings).Draw(rt, "jsonfn.extra")
				doc2 := map[string]any{}
				for k, x := range doc {
					doc2[k] = x
				}
				doc2["set"] = extra
				c.vals[i].Doc = doc2
				c.vals[i].Bytes = c16Marshal(doc2)
				v = c.vals[i]
				expr := "JSON_SET(JSON_OBJECT(" + strings.Join(parts, ", ") + "), '$.set', ?)"
				c.exec(fmt.Sprintf("value %d by JSON_OBJECT + JSON_SET", i), "INSERT INTO a VALUES (?, "+expr+")", append(append([]any{i}, args...), extra)...)
				c.exec("same expression, wide row", "INSERT INTO b VALUES (?, ?, "+expr+", NULL)", append(append([]any{i, filler}, args...), extra)...)
			}
			holds[i] = i
			if rapid.IntRange(0, 2).Draw(rt, "dup") == 0 {
				c.exec("duplicate of value "+fmt.Sprint(i), "INSERT INTO a VALUES (?, ?)", 10+i, c.param(v))
				c.exec("duplicate, wide row, via INSERT..SELECT from the small table", "INSERT INTO b SELECT pk, ?, v, v FROM a WHERE pk = ?", filler, 10+i)
				holds[10+i] = i
			}
		}
		pks := make([]int, 0, len(holds))
		for pk := range holds {
			pks = append(pks, pk)
		}
		sort.Ints(pks)

		verifyAll := func(stage string) {
			c.note("-- verify: %s", stage)
			for _, pk := range pks {
				c.checkRead("a", "v", pk, holds[pk])
				c.checkRead("b", "v", pk, holds[pk])
			}
		}
		verifyAll("after load")

		// storage forms
		la, err := c16Layout(srv, db, "a")
		if err != nil {
			rt.Fatalf("HARNESS: layout a: %v", err)
		}
		lb, err := c16Layout(srv, db, "b")
		if err != nil {
			rt.Fatalf("HARNESS: layout b: %v", err)
		}
		mixed := 0
		var classes []string
		for _, pk := range pks {
			ia, ib := la[int64(pk)]["v"], lb[int64(pk)]["v"]
			if ia != ib {
				mixed++
			}
			classes = append(classes, fmt.Sprintf("form:a=%s,b=%s", map[bool]string{false: "inline", true: "outofband"}[ia], map[bool]string{false: "inline", true: "outofband"}[ib]))
		}

		// comparisons: expected answers from the model
		var eqPairs, ltPairs []string
		for _, p := range pks {
			for _, q := range pks {
				if c.equal(holds[p], holds[q]) {
					eqPairs = append(eqPairs, fmt.Sprintf("%d\x1f%d", p, q))
				}
				if c.kind != "json" && bytes.Compare(c.vals[holds[p]].Bytes, c.vals[holds[q]].Bytes) < 0 {
					ltPairs = append(ltPairs, fmt.Sprintf("%d\x1f%d", p, q))
				}
			}
		}
		sort.Strings(eqPairs)
		sort.Strings(ltPairs)
		for _, j := range [][2]string{{"a", "a"}, {"b", "b"}, {"a", "b"}, {"b", "a"}} {
			// nested-loop plan: the comparison operator itself
			r := c.s.MustQuery(rt, fmt.Sprintf("SELECT /*+ INNER_JOIN(x,y) */ x.pk, y.pk FROM %s x JOIN %s y ON x.v = y.v", j[0], j[1]))
			if got := c16Pairs(r); got != strings.Join(eqPairs, " ") {
				rt.Fatalf("C16: %s.v = %s.v pairs (INNER_JOIN hint): got %s want %s\n--- case ---\n%s", j[0], j[1], vsql.Show(r.Sorted()), vsql.Show(eqPairs), c.dump())
			}
			// a hash join (HASH_JOIN hint): equality through hash keys
			q := fmt.Sprintf("SELECT /*+ HASH_JOIN(x,y) */ x.pk, y.pk FROM %s x JOIN %s y ON x.v = y.v", j[0], j[1])
			r = c.s.MustQuery(rt, q)
			if got := c16Pairs(r); got != strings.Join(eqPairs, " ") {
				known := false
				planText := ""
				if p, err := c.s.Query("EXPLAIN PLAN " + q); err == nil {
					planText = strings.Join(p.Ordered(), " / ")
				} else {
					planText = "EXPLAIN failed: " + err.Error()
				}
				if c.kind == "blob" && vh.OpenFinding("C16", c16FindHashJoinBlob) {
					// the plan is forced by the hint; EXPLAIN is only shown in the message (a later
					// EXPLAIN may pick another plan once the background statistics change)
					{
						want := map[string]bool{}
						for _, e := range eqPairs {
							want[e] = true
						}
						known = true
						for _, g := range r.Sorted() {
							if !want[g] {
								known = false
							}
						}
					}
				}
				if !known {
					rt.Fatalf("C16: %s.v = %s.v pairs: got %s want %s\nplan: %s\nfinding open: %v\n--- case ---\n%s", j[0], j[1], vsql.Show(r.Sorted()), vsql.Show(eqPairs), planText, vh.OpenFinding("C16", c16FindHashJoinBlob), c.dump())
				}
				rec.Excluded(1)
				rec.Class("known:"+c16FindHashJoinBlob, 1)
			}
			if c.kind != "json" {
				r := c.s.MustQuery(rt, fmt.Sprintf("SELECT x.pk, y.pk FROM %s x JOIN %s y ON x.v < y.v", j[0], j[1]))
				if got := c16Pairs(r); got != strings.Join(ltPairs, " ") {
					rt.Fatalf("C16: %s.v < %s.v pairs: got %s want %s\n--- case ---\n%s", j[0], j[1], vsql.Show(r.Sorted()), vsql.Show(ltPairs), c.dump())
				}
			}
		}
		// ORDER BY, GROUP BY, DISTINCT, MIN/MAX: a and b must agree, and (TEXT/BLOB) match the model
		var perTable [2][]string
		for ti, tb := range []string{"a", "b"} {
			ord := c.s.MustQuery(rt, fmt.Sprintf("SELECT pk FROM %s ORDER BY v, pk", tb))
			grp := c.s.MustQuery(rt, fmt.Sprintf("SELECT MIN(pk), COUNT(*) FROM %s GROUP BY v", tb))
			dis, _ := c.s.Scalar(rt, fmt.Sprintf("SELECT COUNT(*) FROM (SELECT DISTINCT v FROM %s) d", tb))
			cd := dis
			if r, err := c.s.Query(fmt.Sprintf("SELECT COUNT(DISTINCT v) FROM %s", tb)); err == nil && len(r.Data) == 1 {
				cd = r.Data[0][0]
			} else if err != nil && vh.OpenFinding("C16", c16FindCountDistinct) {
				// every failure mode of countDistinctBuffer's conversion through types.Text: wrapper
				// values ("unable to hash value"), non-UTF-8 BLOBs ("Incorrect string value"), values
				// over 64 KiB ("too large for column")
				rec.Excluded(1)
				rec.Class("known:"+c16FindCountDistinct, 1)
			} else {
				rt.Fatalf("C16: SELECT COUNT(DISTINCT v) FROM %s failed: %v\n--- case ---\n%s", tb, err, c.dump())
			}
			perTable[ti] = []string{"order:" + strings.Join(ord.Ordered(), " "), "group:" + strings.Join(grp.Sorted(), " "), "distinct:" + dis, "countdistinct:" + cd}
			if c.kind != "json" {
				mm := c.s.MustQuery(rt, fmt.Sprintf("SELECT HEX(MIN(v)), HEX(MAX(v)) FROM %s", tb))
				perTable[ti] = append(perTable[ti], "minmax:"+qClip(strings.Join(mm.Ordered(), " "), 200))
				sorted := append([]int{}, pks...)
				sort.SliceStable(sorted, func(i, j int) bool {
					cmp := bytes.Compare(c.vals[holds[sorted[i]]].Bytes, c.vals[holds[sorted[j]]].Bytes)
					if cmp != 0 {
						return cmp < 0
					}
					return sorted[i] < sorted[j]
				})
				var want []string
				for _, pk := range sorted {
					want = append(want, fmt.Sprint(pk))
				}
				if got := strings.Join(ord.Ordered(), " "); got != strings.Join(want, " ") {
					rt.Fatalf("C16: SELECT pk FROM %s ORDER BY v, pk: got %s want %s\n--- case ---\n%s", tb, got, strings.Join(want, " "), c.dump())
				}
				lo, hi := c.vals[holds[sorted[0]]].Bytes, c.vals[holds[sorted[len(sorted)-1]]].Bytes
				if mm.Data[0][0] != strings.ToUpper(hex.EncodeToString(lo)) || mm.Data[0][1] != strings.ToUpper(hex.EncodeToString(hi)) {
					rt.Fatalf("C16: MIN/MAX(v) over %s are not the smallest/largest stored values (lengths got %d/%d want %d/%d)\n--- case ---\n%s", tb, len(mm.Data[0][0])/2, len(mm.Data[0][1])/2, len(lo), len(hi), c.dump())
				}
			}
			distinct := map[string]bool{}
			for _, pk := range pks {
				if c.kind == "json" {
					distinct[c16Canon(c.vals[holds[pk]].Doc)] = true
				} else {
					distinct[string(c.vals[holds[pk]].Bytes)] = true
				}
			}
			if dis != fmt.Sprint(len(distinct)) || cd != fmt.Sprint(len(distinct)) {
				rt.Fatalf("C16: %s: SELECT DISTINCT v has %s rows, COUNT(DISTINCT v) = %s, model has %d distinct values\n--- case ---\n%s", tb, dis, cd, len(distinct), c.dump())
			}
		}
		if strings.Join(perTable[0], "\n") != strings.Join(perTable[1], "\n") {
			rt.Fatalf("C16: tables a (small rows) and b (wide rows) hold the same values but answer differently:\na: %s\nb: %s\n--- case ---\n%s", strings.Join(perTable[0], " | "), strings.Join(perTable[1], " | "), c.dump())
		}

		// ALTER TABLE: push a's values out of band with a wide column, then let them come back
		if rapid.Bool().Draw(rt, "alter") {
			c.exec("add a wide column to the small table", "ALTER TABLE a ADD COLUMN f VARCHAR(2100) COLLATE utf8mb4_0900_bin NOT NULL DEFAULT '"+filler+"'")
			verifyAll("after ADD COLUMN wide")
			la2, err := c16Layout(srv, db, "a")
			if err == nil {
				moved := 0
				for _, pk := range pks {
					if la2[int64(pk)]["v"] != la[int64(pk)]["v"] {
						moved++
					}
				}
				classes = append(classes, fmt.Sprintf("alter_add_moved=%v", moved > 0))
			}
			if rapid.Bool().Draw(rt, "alter.drop") {
				c.exec("drop it again", "ALTER TABLE a DROP COLUMN f")
				verifyAll("after DROP COLUMN wide")
			}
			c.exec("drop the filler of the wide table", "ALTER TABLE b DROP COLUMN f")
			verifyAll("after DROP COLUMN filler")
		}
		// a commit and a re-read through AS OF
		c.exec("commit", "CALL dolt_commit('-Am','c16')")
		verifyAll("after commit")

		var sizes []string
		for _, v := range c.vals {
			sizes = append(sizes, fmt.Sprintf("%d:%s:%s", len(v.Bytes), v.Desc, v.How))
		}
		classes = append(classes, "kind="+c.kind)
		if maxLen >= 1<<20 {
			classes = append(classes, "has>=1MiB")
		}
		rec.Case(fmt.Sprintf("%s %s values[%s] dups=%d", c.kind, c.typ, strings.Join(sizes, ", "), len(pks)-len(c.vals)), mixed > 0, classes...)
	})
}
