package sqlq

// C37 — Schemas serialize faithfully and column tags are deterministic.
//
// One generated case = a DDL program for one table (CREATE TABLE with typed columns, defaults,
// generated columns, comments, collations, AUTO_INCREMENT, ON UPDATE, CHECKs, indexes, a
// foreign key; then a few ALTERs). Statements dolt rejects on the first branch are dropped
// from the program. Oracles:
//   (1) after every accepted statement the table's schema.Schema (read in process from the
//       branch's working root) survives encoding.SerializeSchema -> DeserializeSchema in every
//       attribute (field-by-field comparison written here, plus schema.SchemasAreEqual);
//   (2) SHOW CREATE TABLE is identical on a clone made through a file remote (or a restored
//       backup) and, in some cases, after a server restart;
//   (3) the same program on a second branch forked before the table existed, and in an
//       independent database, yields identical column tags, schema hashes and SHOW CREATE
//       TABLE, and merging the two branches reports no conflict of any kind.

import (
	"context"
	"fmt"
	"path/filepath"
	"reflect"
	"sort"
	"strings"
	"testing"

	"pgregory.net/rapid"

	"github.com/dolthub/dolt/go/libraries/doltcore/doltdb"
	"github.com/dolthub/dolt/go/libraries/doltcore/ref"
	"github.com/dolthub/dolt/go/libraries/doltcore/schema"
	"github.com/dolthub/dolt/go/libraries/doltcore/schema/encoding"
	"github.com/dolthub/dolt/go/libraries/doltcore/sqle/dsess"
	"github.com/dolthub/dolt/go/zzverif/vh"
	"github.com/dolthub/dolt/go/zzverif/vsql"
)

const c37RuleRT = "case = generated DDL program for one table (CREATE TABLE over int/decimal/float/char/varchar(collations)/binary/text/blob/json/date/datetime/timestamp/time/year/enum/set/bit/bool columns with literal and expression defaults, generated columns, comments, AUTO_INCREMENT, ON UPDATE, CHECKs, unique/prefix/multi-column indexes, a foreign key; then 0-6 ALTERs); after every accepted statement the in-process schema.Schema is serialized, deserialized and compared attribute by attribute; SHOW CREATE TABLE is compared on a clone/restored backup and after restarts. Non-trivial = final schema has >= 1 expression default or generated column, >= 1 column with a non-default collation and >= 1 secondary index."
const c37RuleTags = "same case: the accepted DDL program (including drop-then-re-add of a column under the same name and definition, and rename-back) is replayed on a second branch forked before the table existed and in an independent database, each with a different dolt_commit cadence (first branch: one commit at the end; second branch: after drawn statements; independent database: after every statement); column tags, schema hash, dolt_hashof_table and SHOW CREATE TABLE must coincide and dolt_merge of the two branches must report no conflict. Non-trivial = >= 2 accepted ALTER statements after the CREATE."

var c37Assumptions = []string{
	"statements dolt rejects on the first branch are dropped from the program (nothing is asserted about which DDL dolt accepts); a statement accepted on the first branch must be accepted on every replay",
	"the second branch and the independent database receive exactly the same statement sequence (including the parent table of the foreign key): tag collision resolution against tables that exist on one side only is by design and not asserted",
	"FULLTEXT, SPATIAL and VECTOR indexes are not generated",
	"tables hold no rows (tags and serialization do not depend on data)",
	"while finding " + c37FindCadence + " is listed open, in a program that re-adds a dropped column with NOT NULL or a DEFAULT (table-rewrite path) the tags of those columns are left out of the tag comparison and the schema/table hashes are not compared (cases where they differ are counted as excluded_known, and in those cases dolt_merge answering \"table with same name 't' added in 2 commits can't be merged\" is accepted and counted, because the two branches then hold non-identical independently added tables); re-adds of nullable columns without default are compared in full; the pinned sub-test reports it",
	"while finding " + c37FindIdxComment + " is listed open, index comments contain no single quote (replaced comments are counted as excluded_known); the pinned sub-test reports it",
	"the foreign key column is never part of a generated index (dolt lets DROP INDEX remove the index backing a foreign key and then refuses to commit)",
	"while finding " + c37FindVirtualAdd + " is listed open, CHECK and table COMMENT fragments are not expected in SHOW CREATE TABLE once the table has a VIRTUAL generated column (skipped expectations are counted as excluded_known); the pinned sub-test reports it",
	"because the in-process schema is itself read from storage, loss of an attribute is checked against the written DDL: right after a statement SHOW CREATE TABLE must contain its ON UPDATE / GENERATED / DEFAULT (function) / table COLLATE / AUTO_INCREMENT / COMMENT (texts without quotes or backslashes) / index, check and foreign key fragments (case-insensitive substring match)",
	"columns named by a CHECK constraint or by a generated column's expression are never renamed, retyped or dropped (dolt accepts e.g. CHANGE COLUMN of a column a CHECK refers to and leaves a table that SHOW CREATE TABLE cannot render; a DDL validation gap outside this property)",
}

// ---------------------------------------------------------------------------------------
// in-process access

type c37InProc struct {
	Sch    schema.Schema
	Hash   string
	Tags   []string // "col=tag" in schema order
	ddb    *doltdb.DoltDB
	sqlCtx context.Context
}

func c37Fetch(srv *vsql.Server, db, branch, table string) (*c37InProc, error) {
	if srv.Engine == nil {
		return nil, fmt.Errorf("no engine handle")
	}
	sqlCtx, err := srv.Engine.NewLocalContext(context.Background())
	if err != nil {
		return nil, err
	}
	sess := dsess.DSessFromSess(sqlCtx.Session)
	sdb, ok := sess.Provider().BaseDatabase(sqlCtx, db)
	if !ok {
		return nil, fmt.Errorf("database %s not found in provider", db)
	}
	ddb := sdb.DbData().Ddb
	wsRef, err := ref.WorkingSetRefForHead(ref.NewBranchRef(branch))
	if err != nil {
		return nil, err
	}
	ws, err := ddb.ResolveWorkingSet(sqlCtx, wsRef)
	if err != nil {
		return nil, err
	}
	tbl, ok, err := ws.WorkingRoot().GetTable(sqlCtx, doltdb.TableName{Name: table})
	if err != nil {
		return nil, err
	}
	if !ok {
		return nil, fmt.Errorf("table %s not in working root of %s/%s", table, db, branch)
	}
	sch, err := tbl.GetSchema(sqlCtx)
	if err != nil {
		return nil, err
	}
	h, err := tbl.GetSchemaHash(sqlCtx)
	if err != nil {
		return nil, err
	}
	out := &c37InProc{Sch: sch, Hash: h.String(), ddb: ddb, sqlCtx: sqlCtx}
	for _, c := range sch.GetAllCols().GetColumns() {
		out.Tags = append(out.Tags, fmt.Sprintf("%s=%d", c.Name, c.Tag))
	}
	return out, nil
}

func c37ColStrings(c schema.Column) map[string]string {
	var cons []string
	for _, k := range c.Constraints {
		cons = append(cons, k.GetConstraintType()+":"+k.String())
	}
	ti := "<nil>"
	if c.TypeInfo != nil {
		ti = c.TypeInfo.String() + " / " + c.TypeInfo.ToSqlType().String()
	}
	return map[string]string{
		"Name": c.Name, "Tag": fmt.Sprint(c.Tag), "Kind": fmt.Sprint(c.Kind), "IsPartOfPK": fmt.Sprint(c.IsPartOfPK),
		"TypeInfo": ti, "Default": c.Default, "Generated": c.Generated, "OnUpdate": c.OnUpdate, "Virtual": fmt.Sprint(c.Virtual),
		"AutoIncrement": fmt.Sprint(c.AutoIncrement), "Comment": c.Comment, "Constraints": strings.Join(cons, ";"),
		"Hidden": fmt.Sprint(c.Hidden), "SystemHidden": fmt.Sprint(c.SystemHidden),
	}
}

func c37ColsDiff(what string, a, b []schema.Column) []string {
	var out []string
	if len(a) != len(b) {
		return []string{fmt.Sprintf("%s: %d columns before, %d after", what, len(a), len(b))}
	}
	for i := range a {
		ma, mb := c37ColStrings(a[i]), c37ColStrings(b[i])
		keys := make([]string, 0, len(ma))
		for k := range ma {
			keys = append(keys, k)
		}
		sort.Strings(keys)
		for _, k := range keys {
			if ma[k] != mb[k] {
				out = append(out, fmt.Sprintf("%s[%d] %s.%s: %q -> %q", what, i, a[i].Name, k, ma[k], mb[k]))
			}
		}
		if a[i].TypeInfo != nil && b[i].TypeInfo != nil && !a[i].TypeInfo.Equals(b[i].TypeInfo) {
			out = append(out, fmt.Sprintf("%s[%d] %s: TypeInfo.Equals is false (%s vs %s)", what, i, a[i].Name, a[i].TypeInfo.String(), b[i].TypeInfo.String()))
		}
	}
	return out
}

func c37IndexStrings(ix schema.Index) map[string]string {
	return map[string]string{
		"Name": ix.Name(), "AllTags": fmt.Sprint(ix.AllTags()), "IndexedColumnTags": fmt.Sprint(ix.IndexedColumnTags()),
		"PrimaryKeyTags": fmt.Sprint(ix.PrimaryKeyTags()), "ColumnNames": fmt.Sprint(ix.ColumnNames()), "IsUnique": fmt.Sprint(ix.IsUnique()),
		"IsSpatial": fmt.Sprint(ix.IsSpatial()), "IsFullText": fmt.Sprint(ix.IsFullText()), "IsVector": fmt.Sprint(ix.IsVector()),
		"IsUserDefined": fmt.Sprint(ix.IsUserDefined()), "Comment": ix.Comment(), "PrefixLengths": fmt.Sprint(ix.PrefixLengths()),
		"Predicate": ix.Predicate(), "FullText": fmt.Sprintf("%+v", ix.FullTextProperties()), "Vector": fmt.Sprintf("%+v", ix.VectorProperties()),
		"Count": fmt.Sprint(ix.Count()),
	}
}

// c37SchemaDiff compares two schemas attribute by attribute (independently of
// schema.SchemasAreEqual, which is itself code under test).
func c37SchemaDiff(a, b schema.Schema) []string {
	var out []string
	out = append(out, c37ColsDiff("allcols", a.GetAllCols().GetColumns(), b.GetAllCols().GetColumns())...)
	out = append(out, c37ColsDiff("pkcols", a.GetPKCols().GetColumns(), b.GetPKCols().GetColumns())...)
	out = append(out, c37ColsDiff("nonpkcols", a.GetNonPKCols().GetColumns(), b.GetNonPKCols().GetColumns())...)
	if !reflect.DeepEqual(append([]int{}, a.GetPkOrdinals()...), append([]int{}, b.GetPkOrdinals()...)) {
		out = append(out, fmt.Sprintf("pk ordinals: %v -> %v", a.GetPkOrdinals(), b.GetPkOrdinals()))
	}
	if a.GetCollation() != b.GetCollation() {
		out = append(out, fmt.Sprintf("table collation: %v -> %v", a.GetCollation(), b.GetCollation()))
	}
	if a.GetComment() != b.GetComment() {
		out = append(out, fmt.Sprintf("table comment: %q -> %q", a.GetComment(), b.GetComment()))
	}
	if a.GetTargetRowSize() != b.GetTargetRowSize() {
		out = append(out, fmt.Sprintf("target row size: %d -> %d", a.GetTargetRowSize(), b.GetTargetRowSize()))
	}
	ia, ib := a.Indexes().AllIndexes(), b.Indexes().AllIndexes()
	if len(ia) != len(ib) {
		out = append(out, fmt.Sprintf("indexes: %d -> %d", len(ia), len(ib)))
	} else {
		sort.Slice(ia, func(i, j int) bool { return ia[i].Name() < ia[j].Name() })
		sort.Slice(ib, func(i, j int) bool { return ib[i].Name() < ib[j].Name() })
		for i := range ia {
			ma, mb := c37IndexStrings(ia[i]), c37IndexStrings(ib[i])
			keys := make([]string, 0, len(ma))
			for k := range ma {
				keys = append(keys, k)
			}
			sort.Strings(keys)
			for _, k := range keys {
				if ma[k] != mb[k] {
					out = append(out, fmt.Sprintf("index %s.%s: %q -> %q", ia[i].Name(), k, ma[k], mb[k]))
				}
			}
		}
	}
	ca, cb := a.Checks().AllChecks(), b.Checks().AllChecks()
	if len(ca) != len(cb) {
		out = append(out, fmt.Sprintf("checks: %d -> %d", len(ca), len(cb)))
	} else {
		sort.Slice(ca, func(i, j int) bool { return ca[i].Name() < ca[j].Name() })
		sort.Slice(cb, func(i, j int) bool { return cb[i].Name() < cb[j].Name() })
		for i := range ca {
			sa := fmt.Sprintf("%s|%s|enforced=%v|notvalid=%v", ca[i].Name(), ca[i].Expression(), ca[i].Enforced(), ca[i].IsNotValid())
			sb := fmt.Sprintf("%s|%s|enforced=%v|notvalid=%v", cb[i].Name(), cb[i].Expression(), cb[i].Enforced(), cb[i].IsNotValid())
			if sa != sb {
				out = append(out, fmt.Sprintf("check: %q -> %q", sa, sb))
			}
		}
	}
	return out
}

// c37RoundTrip serializes and deserializes the schema and returns the differences.
func c37RoundTrip(p *c37InProc) ([]string, error) {
	msg, err := encoding.SerializeSchema(p.sqlCtx, p.ddb.ValueReadWriter(), p.Sch)
	if err != nil {
		return nil, fmt.Errorf("SerializeSchema: %w", err)
	}
	back, err := encoding.DeserializeSchema(p.sqlCtx, p.ddb.Format(), msg)
	if err != nil {
		return nil, fmt.Errorf("DeserializeSchema: %w", err)
	}
	diff := c37SchemaDiff(p.Sch, back)
	if !schema.SchemasAreEqual(p.Sch, back) {
		diff = append(diff, "schema.SchemasAreEqual(original, deserialized) = false")
	}
	// a second pass must be a fixed point byte for byte
	msg2, err := encoding.SerializeSchema(p.sqlCtx, p.ddb.ValueReadWriter(), back)
	if err != nil {
		return nil, fmt.Errorf("SerializeSchema(2): %w", err)
	}
	if string(msg) != string(msg2) {
		diff = append(diff, "serialize(deserialize(serialize(s))) differs from serialize(s)")
	}
	return diff, nil
}

// ---------------------------------------------------------------------------------------
// DDL generator

type c37Col struct {
	Name  string
	Class string // int dec float str bin text blob json date datetime timestamp time year enum set bit bool
	Fsp   int
	Len   int // declared length of char/binary types (bounds index prefix lengths)
	Gen   bool
	PK    bool
	Spec  string // "<type> <options>" the column was last defined with (for drop-then-re-add)
	Prev  string // the name the column had before its last rename (for rename-back)
}

type c37Model struct {
	Table  string
	Cols   []c37Col
	Idx    []string
	Checks []string
	seq    int
	// feature flags of what was generated and accepted
	ExprDefault bool
	NonDefColl  bool
	HasVirtual  bool
	// Dropped: columns removed by DROP COLUMN, most recent last (candidates for re-adding under the
	// same name with the same definition)
	Dropped []c37Col
	// JustDropped: the last accepted statement was a DROP COLUMN
	JustDropped bool
	// RewriteReadd: columns re-added (same name as a dropped column) with NOT NULL or a DEFAULT, i.e.
	// through dolt's table-rewrite path, whose tag choice consults the branch HEAD
	RewriteReadd map[string]bool
	// Ref: columns named by a CHECK or by a generated column's expression. They are never
	// renamed, retyped or dropped (dolt accepts e.g. CHANGE COLUMN of a column a CHECK refers to
	// and leaves the table unusable; that is outside this property).
	Ref map[string]bool
}

func (m *c37Model) ref(name string) {
	if m.Ref == nil {
		m.Ref = map[string]bool{}
	}
	m.Ref[name] = true
}

func (m *c37Model) newName(prefix string) string {
	m.seq++
	return fmt.Sprintf("%s%d", prefix, m.seq)
}

func (m *c37Model) colsOf(classes ...string) []c37Col {
	var out []c37Col
	for _, c := range m.Cols {
		for _, k := range classes {
			if c.Class == k {
				out = append(out, c)
			}
		}
	}
	return out
}

var c37Collations = []string{"utf8mb4_0900_bin", "utf8mb4_0900_ai_ci", "utf8mb4_general_ci", "utf8mb4_unicode_ci", "utf8mb4_bin", "latin1_swedish_ci", "ascii_general_ci", "utf8mb3_general_ci"}

var c37Comments = []string{"plain", "it's", "with \"double\" quotes", "ünï cödé ✓", "back\\slash", "semi; colon -- dash", "percent % and _", ""}

func c37Quote(s string) string {
	return "'" + strings.ReplaceAll(strings.ReplaceAll(s, "\\", "\\\\"), "'", "''") + "'"
}

type c37Spec struct {
	Col  c37Col
	SQL  string // "<type> <options>" without the name
	Expr bool
	Coll bool
	// RefCol is the column a generated column's expression reads ("" = none)
	RefCol string
	// Expect: lower-case fragments SHOW CREATE TABLE must contain once the column exists (the
	// in-process round trip starts from an already deserialized schema, so an attribute lost on the
	// way to or from storage is only visible against the DDL that was written)
	Expect []string
}

// c37SafeComment reports whether a comment text is rendered verbatim by SHOW CREATE TABLE
// (no quote or backslash escaping involved).
func c37SafeComment(c string) bool {
	return c != "" && !strings.ContainsAny(c, "'\"\\")
}

// c37GenColSpec draws a column definition. m supplies existing columns for generated columns.
func c37GenColSpec(rt *rapid.T, m *c37Model, class string, allowGen bool) c37Spec {
	sp := c37Spec{Col: c37Col{Class: class}}
	var typ string
	var defLits, defExprs []string
	switch class {
	case "int":
		typ = rapid.SampledFrom([]string{"TINYINT", "SMALLINT", "MEDIUMINT", "INT", "BIGINT", "INT UNSIGNED", "BIGINT UNSIGNED", "TINYINT UNSIGNED"}).Draw(rt, "type")
		defLits = []string{"0", "7", "42"}
		defExprs = []string{"(1 + 1)", "(ABS(-3))"}
	case "dec":
		typ = rapid.SampledFrom([]string{"DECIMAL(10,2)", "DECIMAL(5,0)", "DECIMAL(30,10)", "DECIMAL(65,30)", "NUMERIC(12,4)"}).Draw(rt, "type")
		defLits = []string{"1.5", "0"}
		defExprs = []string{"(1.5 * 2)"}
	case "float":
		typ = rapid.SampledFrom([]string{"FLOAT", "DOUBLE", "DOUBLE PRECISION", "REAL"}).Draw(rt, "type")
		defLits = []string{"0.5", "1e10"}
		defExprs = []string{"(1.5 + 1)"}
	case "str":
		n := rapid.SampledFrom([]int{1, 10, 64, 255, 1000}).Draw(rt, "len")
		typ = fmt.Sprintf("%s(%d)", rapid.SampledFrom([]string{"VARCHAR", "VARCHAR", "CHAR"}).Draw(rt, "strtype"), n)
		if strings.HasPrefix(typ, "CHAR") && n > 255 {
			typ = "CHAR(255)"
			n = 255
		}
		sp.Col.Len = n
		if rapid.IntRange(0, 2).Draw(rt, "hascoll") > 0 {
			c := rapid.SampledFrom(c37Collations).Draw(rt, "collation")
			if rapid.Bool().Draw(rt, "charsetform") {
				typ += " CHARACTER SET " + strings.SplitN(c, "_", 2)[0] + " COLLATE " + c
			} else {
				typ += " COLLATE " + c
			}
			sp.Coll = c != "utf8mb4_0900_bin"
		}
		defLits = []string{"'a'", "''", "'it''s'"}
		if n >= 10 {
			defLits = append(defLits, "'ü'")
		}
		defExprs = []string{"(UPPER('x'))"}
		if n >= 10 {
			defExprs = append(defExprs, "(CONCAT('a','b'))")
		}
	case "bin":
		typ = rapid.SampledFrom([]string{"VARBINARY(16)", "BINARY(4)", "VARBINARY(300)"}).Draw(rt, "type")
		sp.Col.Len = map[string]int{"VARBINARY(16)": 16, "BINARY(4)": 4, "VARBINARY(300)": 300}[typ]
		defLits = []string{"'ab'"}
		defExprs = []string{"(UNHEX('6162'))"}
	case "text":
		typ = rapid.SampledFrom([]string{"TINYTEXT", "TEXT", "MEDIUMTEXT", "LONGTEXT"}).Draw(rt, "type")
		if rapid.IntRange(0, 2).Draw(rt, "hascoll") == 0 {
			c := rapid.SampledFrom(c37Collations).Draw(rt, "collation")
			typ += " COLLATE " + c
			sp.Coll = c != "utf8mb4_0900_bin"
		}
		defExprs = []string{"('abc')", "(REPEAT('x', 3))"}
	case "blob":
		typ = rapid.SampledFrom([]string{"TINYBLOB", "BLOB", "MEDIUMBLOB", "LONGBLOB"}).Draw(rt, "type")
		defExprs = []string{"('abc')"}
	case "json":
		typ = "JSON"
		defExprs = []string{"(JSON_OBJECT('a', 1))", "('{}')"}
	case "date":
		typ = "DATE"
		defLits = []string{"'2020-01-02'"}
		defExprs = []string{"(CURRENT_DATE)"}
	case "datetime", "timestamp":
		sp.Col.Fsp = rapid.SampledFrom([]int{0, 0, 3, 6}).Draw(rt, "fsp")
		typ = strings.ToUpper(class)
		if sp.Col.Fsp > 0 {
			typ += fmt.Sprintf("(%d)", sp.Col.Fsp)
		}
		defLits = []string{"'2020-01-02 03:04:05'"}
	case "time":
		typ = "TIME"
		defLits = []string{"'10:11:12'"}
	case "year":
		typ = "YEAR"
		defLits = []string{"2020"}
	case "enum":
		typ = rapid.SampledFrom([]string{"ENUM('a','b','c')", "ENUM('x')", "ENUM('a','b') COLLATE utf8mb4_general_ci"}).Draw(rt, "type")
		defLits = []string{"'a'"}
		if strings.Contains(typ, "'x'") {
			defLits = []string{"'x'"}
		}
		sp.Coll = strings.Contains(typ, "COLLATE")
	case "set":
		typ = rapid.SampledFrom([]string{"SET('a','b','c')", "SET('a','b') COLLATE utf8mb4_general_ci"}).Draw(rt, "type")
		defLits = []string{"'a'", "'a,b'"}
		sp.Coll = strings.Contains(typ, "COLLATE")
	case "bit":
		typ = rapid.SampledFrom([]string{"BIT(1)", "BIT(8)", "BIT(64)"}).Draw(rt, "type")
		defLits = []string{"b'1'"}
	case "bool":
		typ = "BOOLEAN"
		defLits = []string{"TRUE", "0"}
	default:
		panic(class)
	}
	opts := ""
	// generated column
	if allowGen && (class == "int" || class == "str") && rapid.IntRange(0, 5).Draw(rt, "generated") == 0 {
		var expr string
		if class == "int" {
			if src := m.colsOf("int"); len(src) > 0 {
				sp.RefCol = src[rapid.IntRange(0, len(src)-1).Draw(rt, "gensrc")].Name
				expr = fmt.Sprintf("(`%s` + 1)", sp.RefCol)
			}
		} else if src := m.colsOf("str"); len(src) > 0 {
			sp.RefCol = src[rapid.IntRange(0, len(src)-1).Draw(rt, "gensrc")].Name
			expr = fmt.Sprintf("(CONCAT(`%s`, 'x'))", sp.RefCol)
			if !strings.Contains(typ, "(") || strings.HasPrefix(typ, "CHAR(1)") || strings.HasPrefix(typ, "VARCHAR(1)") {
				expr = ""
			}
		}
		if expr != "" {
			sp.Col.Gen = true
			sp.Expr = true
			gk := rapid.SampledFrom([]string{"VIRTUAL", "STORED"}).Draw(rt, "genkind")
			opts += " GENERATED ALWAYS AS " + expr + " " + gk
			sp.Expect = append(sp.Expect, "generated always as")
			if gk == "STORED" {
				sp.Expect = append(sp.Expect, "stored") // VIRTUAL is the default and is not printed
			}
			if rapid.IntRange(0, 3).Draw(rt, "gennotnull") == 0 {
				opts += " NOT NULL"
			}
			if rapid.IntRange(0, 2).Draw(rt, "hascomment") == 0 {
				cm := rapid.SampledFrom(c37Comments).Draw(rt, "comment")
				opts += " COMMENT " + c37Quote(cm)
				if c37SafeComment(cm) {
					sp.Expect = append(sp.Expect, "comment '"+strings.ToLower(cm)+"'")
				}
			}
			sp.SQL = typ + opts
			return sp
		}
	}
	if rapid.IntRange(0, 2).Draw(rt, "notnull") == 0 {
		opts += " NOT NULL"
	}
	switch rapid.IntRange(0, 5).Draw(rt, "defaultkind") {
	case 0, 1:
		if len(defLits) > 0 {
			opts += " DEFAULT " + rapid.SampledFrom(defLits).Draw(rt, "default")
		}
	case 2, 3:
		if len(defExprs) > 0 {
			de := rapid.SampledFrom(defExprs).Draw(rt, "defaultexpr")
			opts += " DEFAULT " + de
			sp.Expr = true
			for _, fn := range []string{"upper(", "concat(", "abs(", "unhex(", "json_object(", "repeat("} {
				if strings.Contains(strings.ToLower(de), fn) {
					sp.Expect = append(sp.Expect, "default ("+fn)
				}
			}
		}
	case 4:
		if class == "datetime" || class == "timestamp" {
			cts := "CURRENT_TIMESTAMP"
			if sp.Col.Fsp > 0 {
				cts += fmt.Sprintf("(%d)", sp.Col.Fsp)
			}
			opts += " DEFAULT " + cts
			sp.Expr = true
			sp.Expect = append(sp.Expect, "default current_timestamp")
			if rapid.Bool().Draw(rt, "onupdate") {
				opts += " ON UPDATE " + cts
				sp.Expect = append(sp.Expect, "on update current_timestamp")
			}
		}
	}
	if rapid.IntRange(0, 2).Draw(rt, "hascomment") == 0 {
		cm := rapid.SampledFrom(c37Comments).Draw(rt, "comment")
		opts += " COMMENT " + c37Quote(cm)
		if c37SafeComment(cm) {
			sp.Expect = append(sp.Expect, "comment '"+strings.ToLower(cm)+"'")
		}
	}
	sp.SQL = typ + opts
	return sp
}

var c37Classes = []string{"int", "int", "int", "dec", "float", "str", "str", "str", "bin", "text", "blob", "json", "date", "datetime", "timestamp", "time", "year", "enum", "set", "bit", "bool"}

func c37GenIndexDef(rt *rapid.T, m *c37Model) (name, def string, ok bool) {
	var cands []c37Col
	for _, c := range m.Cols {
		// the foreign key column stays out of generated indexes: dolt lets DROP INDEX remove the index
		// backing a foreign key and then fails at dolt_commit ("foreign key has entered an invalid
		// state"), a DDL validation gap outside this property
		if c.Class != "json" && c.Name != "fkc" {
			cands = append(cands, c)
		}
	}
	if len(cands) == 0 {
		return "", "", false
	}
	n := rapid.SampledFrom([]int{1, 1, 2, 3}).Draw(rt, "idx.ncols")
	used := map[string]bool{}
	var parts []string
	for i := 0; i < n; i++ {
		c := cands[rapid.IntRange(0, len(cands)-1).Draw(rt, "idx.col")]
		if used[c.Name] {
			continue
		}
		used[c.Name] = true
		p := "`" + c.Name + "`"
		if c.Class == "text" || c.Class == "blob" {
			p += fmt.Sprintf("(%d)", rapid.IntRange(1, 20).Draw(rt, "idx.prefix"))
		} else if (c.Class == "str" || c.Class == "bin") && c.Len > 0 && rapid.IntRange(0, 2).Draw(rt, "idx.hasprefix") == 0 {
			// prefix lengths on leading and on non-leading columns: (a(3),b), (a,b(5),c), (a,b(5),c(2))
			max := c.Len
			if max > 10 {
				max = 10
			}
			p += fmt.Sprintf("(%d)", rapid.IntRange(1, max).Draw(rt, "idx.prefixlen"))
		}
		parts = append(parts, p)
	}
	name = m.newName("ix")
	u := ""
	if rapid.IntRange(0, 3).Draw(rt, "idx.unique") == 0 {
		u = "UNIQUE "
	}
	def = fmt.Sprintf("%sKEY `%s` (%s)", u, name, strings.Join(parts, ","))
	if rapid.IntRange(0, 3).Draw(rt, "idx.hascomment") == 0 {
		cm := rapid.SampledFrom(c37Comments).Draw(rt, "idx.comment")
		if strings.Contains(cm, "'") && c37NoQuoteIdxComment {
			// known finding C37-index-comment-quote-unescaped: excluded by construction
			c37Excluded++
			cm = "its"
		}
		def += " COMMENT " + c37Quote(cm)
	}
	return name, def, true
}

func c37GenCheckDef(rt *rapid.T, m *c37Model) (name, def string, refs []string, ok bool) {
	ints, strs := m.colsOf("int", "dec", "float"), m.colsOf("str")
	var expr string
	switch {
	case len(ints) > 0 && rapid.Bool().Draw(rt, "chk.int"):
		c := ints[rapid.IntRange(0, len(ints)-1).Draw(rt, "chk.col")]
		expr = fmt.Sprintf("`%s` %s %d", c.Name, rapid.SampledFrom([]string{">", ">=", "<>", "<"}).Draw(rt, "chk.op"), rapid.IntRange(-100, 100).Draw(rt, "chk.val"))
		refs = append(refs, c.Name)
		if len(ints) > 1 && rapid.Bool().Draw(rt, "chk.two") {
			expr += fmt.Sprintf(" OR `%s` IS NULL", ints[0].Name)
			refs = append(refs, ints[0].Name)
		}
	case len(strs) > 0:
		c := strs[rapid.IntRange(0, len(strs)-1).Draw(rt, "chk.col")]
		expr = rapid.SampledFrom([]string{"CHAR_LENGTH(`%s`) < 2000", "`%s` <> 'bad'", "`%s` NOT LIKE '%%x%%'"}).Draw(rt, "chk.form")
		expr = fmt.Sprintf(expr, c.Name)
		refs = append(refs, c.Name)
	default:
		return "", "", nil, false
	}
	name = m.newName("chk")
	def = fmt.Sprintf("CONSTRAINT `%s` CHECK (%s)", name, expr)
	if rapid.IntRange(0, 4).Draw(rt, "chk.notenforced") == 0 {
		def += " NOT ENFORCED"
	}
	return name, def, refs, true
}

// c37IndexExpect: SHOW CREATE TABLE must render the index with its column list, prefix lengths
// included, exactly as the DDL wrote it.
func c37IndexExpect(name, def string) []string {
	frag := def
	if i := strings.Index(frag, " COMMENT "); i >= 0 {
		frag = frag[:i]
	}
	return []string{strings.ToLower(frag)}
}

func c37CheckExpect(name, def string) []string {
	e := []string{"constraint `" + name + "` check"}
	if strings.Contains(def, "NOT ENFORCED") {
		e = append(e, "not enforced")
	}
	return e
}

// c37Stmt is one DDL statement plus the model update to apply when dolt accepts it.
type c37Stmt struct {
	SQL    string
	Apply  func(m *c37Model)
	Alter  bool
	Expect []string // lower-case fragments SHOW CREATE TABLE must contain right after this statement
}

func c37GenCreate(rt *rapid.T, m *c37Model) c37Stmt {
	var defs, refs, expect []string
	var cols []c37Col
	tmp := &c37Model{}
	expr, coll := false, false
	npk := rapid.SampledFrom([]int{0, 1, 1, 1, 2}).Draw(rt, "npk")
	ncol := rapid.IntRange(2, 7).Draw(rt, "ncols")
	autoinc := false
	for i := 0; i < ncol; i++ {
		class := rapid.SampledFrom(c37Classes).Draw(rt, "class")
		pk := i < npk
		if pk {
			class = rapid.SampledFrom([]string{"int", "int", "str", "date", "bin", "dec"}).Draw(rt, "pkclass")
		}
		tmp.Cols = cols
		sp := c37GenColSpec(rt, tmp, class, !pk)
		sp.Col.Name = fmt.Sprintf("c%d", i)
		sp.Col.PK = pk
		sp.Col.Spec = sp.SQL
		sql := sp.SQL
		if pk {
			if !strings.Contains(sql, "NOT NULL") {
				// insert NOT NULL right after the type (before DEFAULT/COMMENT)
				sql = c37InsertNotNull(sql)
			}
			if class == "int" && npk == 1 && !strings.Contains(sql, "DEFAULT") && rapid.IntRange(0, 2).Draw(rt, "autoinc") == 0 {
				sql = strings.Replace(sql, " NOT NULL", " NOT NULL AUTO_INCREMENT", 1)
				autoinc = true
			}
		}
		defs = append(defs, fmt.Sprintf("`%s` %s", sp.Col.Name, sql))
		expect = append(expect, sp.Expect...)
		if strings.Contains(sql, "AUTO_INCREMENT") {
			expect = append(expect, "auto_increment")
		}
		cols = append(cols, sp.Col)
		if sp.RefCol != "" {
			refs = append(refs, sp.RefCol)
		}
		expr = expr || sp.Expr
		coll = coll || sp.Coll
	}
	_ = autoinc
	if npk > 0 {
		var p []string
		for _, c := range cols[:npk] {
			p = append(p, "`"+c.Name+"`")
		}
		defs = append(defs, "PRIMARY KEY ("+strings.Join(p, ",")+")")
	}
	tmp.Cols = cols
	tmp.seq = m.seq
	var idx, chks []string
	nidx := rapid.IntRange(0, 3).Draw(rt, "nidx")
	for i := 0; i < nidx; i++ {
		if n, d, ok := c37GenIndexDef(rt, tmp); ok {
			defs = append(defs, d)
			idx = append(idx, n)
			expect = append(expect, c37IndexExpect(n, d)...)
		}
	}
	nchk := rapid.IntRange(0, 2).Draw(rt, "nchk")
	for i := 0; i < nchk; i++ {
		if n, d, r, ok := c37GenCheckDef(rt, tmp); ok {
			defs = append(defs, d)
			chks = append(chks, n)
			refs = append(refs, r...)
			expect = append(expect, c37CheckExpect(n, d)...)
		}
	}
	// foreign key to the parent table p(id INT PRIMARY KEY)
	if rapid.IntRange(0, 3).Draw(rt, "fk") == 0 {
		c := c37Col{Name: "fkc", Class: "int"}
		cols = append(cols, c)
		refs = append(refs, c.Name)
		defs = append(defs, "`fkc` INT")
		expect = append(expect, "foreign key (`fkc`) references `p` (`id`)")
		defs = append(defs, fmt.Sprintf("CONSTRAINT `fk_p` FOREIGN KEY (`%s`) REFERENCES `p` (`id`)%s", c.Name,
			rapid.SampledFrom([]string{"", " ON DELETE CASCADE", " ON DELETE SET NULL ON UPDATE CASCADE", " ON UPDATE RESTRICT"}).Draw(rt, "fk.action")))
	}
	opts := ""
	if rapid.IntRange(0, 2).Draw(rt, "tbl.hascomment") == 0 {
		cm := rapid.SampledFrom(c37Comments).Draw(rt, "tbl.comment")
		opts += " COMMENT=" + c37Quote(cm)
		if c37SafeComment(cm) {
			expect = append(expect, "comment='"+strings.ToLower(cm)+"'")
		}
	}
	if rapid.IntRange(0, 2).Draw(rt, "tbl.hascoll") == 0 {
		c := rapid.SampledFrom(c37Collations).Draw(rt, "tbl.collation")
		opts += " COLLATE=" + c
		coll = coll || c != "utf8mb4_0900_bin"
		expect = append(expect, "collate="+c)
	}
	seq := tmp.seq
	return c37Stmt{Expect: expect, SQL: fmt.Sprintf("CREATE TABLE `%s` (%s)%s", m.Table, strings.Join(defs, ", "), opts), Apply: func(m *c37Model) {
		m.Cols, m.Idx, m.Checks, m.seq = cols, idx, chks, seq
		m.HasVirtual = strings.Contains(strings.Join(defs, ","), " VIRTUAL")
		m.ExprDefault, m.NonDefColl = expr, coll
		for _, r := range refs {
			m.ref(r)
		}
	}}
}

func c37InsertNotNull(sql string) string {
	for _, kw := range []string{" DEFAULT ", " COMMENT ", " GENERATED "} {
		if i := strings.Index(sql, kw); i >= 0 {
			return sql[:i] + " NOT NULL" + sql[i:]
		}
	}
	return sql + " NOT NULL"
}

func c37GenAlter(rt *rapid.T, m *c37Model) c37Stmt {
	t := "`" + m.Table + "`"
	nonPK := func() []c37Col {
		var out []c37Col
		for _, c := range m.Cols {
			if !c.PK && !m.Ref[c.Name] {
				out = append(out, c)
			}
		}
		return out
	}
	pick := func(cs []c37Col, label string) c37Col { return cs[rapid.IntRange(0, len(cs)-1).Draw(rt, label)] }
	justDropped := m.JustDropped
	m.JustDropped = false
	ops := []string{"addcol", "addcol", "addcol", "addcol", "dropcol", "dropcol", "modify", "modify", "renamecol", "addidx", "dropidx", "addchk", "dropchk", "setdefault", "dropdefault", "tblcomment", "tblcollate", "renameidx", "change"}
	for try := 0; try < 6; try++ {
		op := rapid.SampledFrom(ops).Draw(rt, "alter.op")
		readdNow := false
		if try == 0 && justDropped && rapid.IntRange(0, 3).Draw(rt, "alter.readd_now") > 0 {
			// drop immediately followed by re-add: the regenerated tag is the old one
			op, readdNow = "addcol", true
		}
		switch op {
		case "addcol":
			if len(m.Dropped) > 0 && (readdNow || rapid.IntRange(0, 3).Draw(rt, "alter.readd") > 0) {
				// drop-then-re-add: the same name and definition come back
				d := m.Dropped[len(m.Dropped)-1]
				taken := false
				for _, x := range m.Cols {
					if x.Name == d.Name {
						taken = true
					}
				}
				if !taken && d.Spec != "" && !d.Gen {
					col := d
					return c37Stmt{Alter: true, SQL: fmt.Sprintf("ALTER TABLE %s ADD COLUMN `%s` %s", t, col.Name, col.Spec), Apply: func(m *c37Model) {
						m.Cols = append(m.Cols, col)
						m.Dropped = m.Dropped[:len(m.Dropped)-1]
						if strings.Contains(col.Spec, "NOT NULL") || strings.Contains(col.Spec, " DEFAULT ") {
							if m.RewriteReadd == nil {
								m.RewriteReadd = map[string]bool{}
							}
							m.RewriteReadd[col.Name] = true
						}
					}}
				}
			}
			class := rapid.SampledFrom(c37Classes).Draw(rt, "class")
			sp := c37GenColSpec(rt, m, class, true)
			if !sp.Col.Gen && rapid.Bool().Draw(rt, "alter.bare") {
				// a bare nullable column without default: dolt adds it in place (no table rewrite)
				for _, kw := range []string{" NOT NULL", " DEFAULT ", " COMMENT ", " ON UPDATE "} {
					if i := strings.Index(sp.SQL, kw); i >= 0 {
						sp.SQL = sp.SQL[:i]
					}
				}
				sp.Expect, sp.Expr = nil, false
			}
			sp.Col.Name = m.newName("a")
			sp.Col.Spec = sp.SQL
			pos := ""
			switch rapid.IntRange(0, 3).Draw(rt, "alter.pos") {
			case 0:
				pos = " FIRST"
			case 1:
				pos = " AFTER `" + pick(m.Cols, "alter.after").Name + "`"
			}
			col, posCopy := sp.Col, pos
			return c37Stmt{Alter: true, Expect: sp.Expect, SQL: fmt.Sprintf("ALTER TABLE %s ADD COLUMN `%s` %s%s", t, col.Name, sp.SQL, pos), Apply: func(m *c37Model) {
				_ = posCopy
				m.Cols = append(m.Cols, col)
				m.HasVirtual = m.HasVirtual || strings.Contains(sp.SQL, " VIRTUAL")
				if sp.RefCol != "" {
					m.ref(sp.RefCol)
				}
				m.ExprDefault = m.ExprDefault || sp.Expr
				m.NonDefColl = m.NonDefColl || sp.Coll
			}}
		case "dropcol":
			if cs := nonPK(); len(cs) > 1 {
				c := pick(cs, "alter.col")
				if last := m.Cols[len(m.Cols)-1]; !last.PK && !m.Ref[last.Name] && rapid.Bool().Draw(rt, "alter.droplast") {
					// the most recently added column: re-adding it regenerates the same tag
					c = last
				}
				return c37Stmt{Alter: true, SQL: fmt.Sprintf("ALTER TABLE %s DROP COLUMN `%s`", t, c.Name), Apply: func(m *c37Model) {
					var keep []c37Col
					for _, x := range m.Cols {
						if x.Name != c.Name {
							keep = append(keep, x)
						} else {
							m.Dropped = append(m.Dropped, x)
							m.JustDropped = true
						}
					}
					m.Cols = keep
				}}
			}
		case "modify", "change":
			if cs := nonPK(); len(cs) > 0 {
				c := pick(cs, "alter.col")
				if c.Gen {
					continue
				}
				sp := c37GenColSpec(rt, m, c.Class, false)
				newName := c.Name
				sql := fmt.Sprintf("ALTER TABLE %s MODIFY COLUMN `%s` %s", t, c.Name, sp.SQL)
				if rapid.Bool().Draw(rt, "alter.change") {
					newName = m.newName("r")
					sql = fmt.Sprintf("ALTER TABLE %s CHANGE COLUMN `%s` `%s` %s", t, c.Name, newName, sp.SQL)
				}
				return c37Stmt{Alter: true, SQL: sql, Apply: func(m *c37Model) {
					for i := range m.Cols {
						if m.Cols[i].Name == c.Name {
							if newName != c.Name {
								m.Cols[i].Prev = c.Name
								if m.RewriteReadd[c.Name] {
									delete(m.RewriteReadd, c.Name)
									m.RewriteReadd[newName] = true
								}
							}
							m.Cols[i].Name = newName
							m.Cols[i].Fsp = sp.Col.Fsp
							m.Cols[i].Spec = sp.SQL
						}
					}
					m.ExprDefault = m.ExprDefault || sp.Expr
					m.NonDefColl = m.NonDefColl || sp.Coll
				}}
			}
		case "renamecol":
			c := pick(m.Cols, "alter.col")
			if m.Ref[c.Name] {
				continue
			}
			newName := m.newName("r")
			if c.Prev != "" && rapid.IntRange(0, 2).Draw(rt, "alter.renameback") > 0 {
				// rename back to the previous name
				free := true
				for _, x := range m.Cols {
					if x.Name == c.Prev {
						free = false
					}
				}
				if free {
					newName = c.Prev
				}
			}
			return c37Stmt{Alter: true, SQL: fmt.Sprintf("ALTER TABLE %s RENAME COLUMN `%s` TO `%s`", t, c.Name, newName), Apply: func(m *c37Model) {
				for i := range m.Cols {
					if m.Cols[i].Name == c.Name {
						m.Cols[i].Prev = c.Name
						m.Cols[i].Name = newName
						if m.RewriteReadd[c.Name] {
							delete(m.RewriteReadd, c.Name)
							m.RewriteReadd[newName] = true
						}
					}
				}
			}}
		case "addidx":
			if n, d, ok := c37GenIndexDef(rt, m); ok {
				return c37Stmt{Alter: true, Expect: c37IndexExpect(n, d), SQL: fmt.Sprintf("ALTER TABLE %s ADD %s", t, d), Apply: func(m *c37Model) { m.Idx = append(m.Idx, n) }}
			}
		case "dropidx":
			if len(m.Idx) > 0 {
				n := m.Idx[rapid.IntRange(0, len(m.Idx)-1).Draw(rt, "alter.idx")]
				return c37Stmt{Alter: true, SQL: fmt.Sprintf("ALTER TABLE %s DROP INDEX `%s`", t, n), Apply: func(m *c37Model) {
					var keep []string
					for _, x := range m.Idx {
						if x != n {
							keep = append(keep, x)
						}
					}
					m.Idx = keep
				}}
			}
		case "renameidx":
			if len(m.Idx) > 0 {
				n := m.Idx[rapid.IntRange(0, len(m.Idx)-1).Draw(rt, "alter.idx")]
				nn := m.newName("ix")
				return c37Stmt{Alter: true, SQL: fmt.Sprintf("ALTER TABLE %s RENAME INDEX `%s` TO `%s`", t, n, nn), Apply: func(m *c37Model) {
					for i := range m.Idx {
						if m.Idx[i] == n {
							m.Idx[i] = nn
						}
					}
				}}
			}
		case "addchk":
			if n, d, r, ok := c37GenCheckDef(rt, m); ok {
				return c37Stmt{Alter: true, Expect: c37CheckExpect(n, d), SQL: fmt.Sprintf("ALTER TABLE %s ADD %s", t, d), Apply: func(m *c37Model) {
					m.Checks = append(m.Checks, n)
					for _, x := range r {
						m.ref(x)
					}
				}}
			}
		case "dropchk":
			if len(m.Checks) > 0 {
				n := m.Checks[rapid.IntRange(0, len(m.Checks)-1).Draw(rt, "alter.chk")]
				return c37Stmt{Alter: true, SQL: fmt.Sprintf("ALTER TABLE %s DROP CHECK `%s`", t, n), Apply: func(m *c37Model) {
					var keep []string
					for _, x := range m.Checks {
						if x != n {
							keep = append(keep, x)
						}
					}
					m.Checks = keep
				}}
			}
		case "setdefault":
			if cs := m.colsOf("int"); len(cs) > 0 {
				c := pick(cs, "alter.col")
				if !c.Gen {
					return c37Stmt{Alter: true, SQL: fmt.Sprintf("ALTER TABLE %s ALTER COLUMN `%s` SET DEFAULT %d", t, c.Name, rapid.IntRange(0, 99).Draw(rt, "alter.default")), Apply: func(m *c37Model) {}}
				}
			}
		case "dropdefault":
			if cs := nonPK(); len(cs) > 0 {
				c := pick(cs, "alter.col")
				if !c.Gen {
					return c37Stmt{Alter: true, SQL: fmt.Sprintf("ALTER TABLE %s ALTER COLUMN `%s` DROP DEFAULT", t, c.Name), Apply: func(m *c37Model) {}}
				}
			}
		case "tblcomment":
			return c37Stmt{Alter: true, SQL: fmt.Sprintf("ALTER TABLE %s COMMENT=%s", t, c37Quote(rapid.SampledFrom(c37Comments).Draw(rt, "tbl.comment"))), Apply: func(m *c37Model) {}}
		case "tblcollate":
			c := rapid.SampledFrom(c37Collations).Draw(rt, "tbl.collation")
			return c37Stmt{Alter: true, SQL: fmt.Sprintf("ALTER TABLE %s COLLATE=%s", t, c), Apply: func(m *c37Model) { m.NonDefColl = m.NonDefColl || c != "utf8mb4_0900_bin" }}
		}
	}
	return c37Stmt{Alter: true, SQL: fmt.Sprintf("ALTER TABLE %s COMMENT='fallback'", t), Apply: func(m *c37Model) {}}
}

// ---------------------------------------------------------------------------------------
// the check

// c37ErrClass reduces an error message to a short class label (identifiers and literals removed).
func c37ErrClass(err error) string {
	msg := err.Error()
	if i := strings.Index(msg, ": "); i >= 0 && strings.HasPrefix(msg, "Error ") {
		msg = msg[i+2:]
	}
	var b strings.Builder
	for _, w := range strings.Fields(msg) {
		if strings.ContainsAny(w, "`'\"0123456789") {
			w = "_"
		}
		b.WriteString(w + " ")
		if b.Len() > 60 {
			break
		}
	}
	return strings.TrimSpace(b.String())
}

// c37FindVirtualAdd: a table that has a VIRTUAL generated column (from CREATE TABLE or ADD COLUMN)
// neither shows nor enforces its CHECK constraints and does not show its table COMMENT.
const c37FindVirtualAdd = "C37-virtual-column-hides-checks-and-comment"

// c37NoVirtualAdd is set while that finding is listed open; c37Excluded counts skipped expectations.
var c37NoVirtualAdd bool
var c37Excluded int

func c37PinnedVirtualAdd(t *testing.T, srv *vsql.Server, admin *vsql.Session) string {
	db := srv.NewDBName()
	admin.MustExec(t, "CREATE DATABASE "+db)
	defer admin.Exec("DROP DATABASE " + db)
	s := srv.Session(t, "pinned", db)
	defer s.Close()
	s.MustExec(t, "CREATE TABLE t2 (c0 INT PRIMARY KEY, c1 INT, CONSTRAINT chk1 CHECK (c1 < 5), a4 INT GENERATED ALWAYS AS (c0 + 1) VIRTUAL) COMMENT='plain'")
	show := c37ShowCreate(t, s, "t2")
	if !strings.Contains(show, "chk1") || !strings.Contains(show, "COMMENT='plain'") {
		err := s.Exec("INSERT INTO t2 (c0, c1) VALUES (1, 100)")
		return fmt.Sprintf("CREATE TABLE t2 (c0 INT PRIMARY KEY, c1 INT, CONSTRAINT chk1 CHECK (c1 < 5), a4 INT GENERATED ALWAYS AS (c0 + 1) VIRTUAL) COMMENT='plain': SHOW CREATE TABLE lists neither chk1 nor the comment, and INSERT (1,100) returns %v: %s", err, strings.ReplaceAll(show, "\n", " "))
	}
	return ""
}

// c37FindCadence: ALTER TABLE ADD COLUMN through the table-rewrite path (NOT NULL or DEFAULT) treats
// every tag still present in the branch HEAD as taken, so a column that is dropped and re-added
// under the same name gets its old tag back only if a dolt_commit happened in between: the same DDL
// on two branches with different commit cadence yields different tags and table hashes.
const c37FindCadence = "C37-readd-tag-depends-on-commit-cadence"

var c37CadenceOpen bool

func c37PinnedCadence(t *testing.T, srv *vsql.Server, admin *vsql.Session) string {
	var hashes []string
	for _, commitBetween := range []bool{false, true} {
		db := srv.NewDBName()
		admin.MustExec(t, "CREATE DATABASE "+db)
		s := srv.Session(t, "pinned", db)
		s.MustExec(t, "CREATE TABLE t (pk INT PRIMARY KEY, c INT NOT NULL DEFAULT 5)")
		s.MustExec(t, "CALL dolt_commit('-Am','create')")
		s.MustExec(t, "ALTER TABLE t DROP COLUMN c")
		if commitBetween {
			s.MustExec(t, "CALL dolt_commit('-Am','drop')")
		}
		s.MustExec(t, "ALTER TABLE t ADD COLUMN c INT NOT NULL DEFAULT 5")
		h, _ := s.Scalar(t, "SELECT dolt_hashof_table('t')")
		hashes = append(hashes, h)
		s.Close()
		_ = admin.Exec("DROP DATABASE " + db)
	}
	if hashes[0] != hashes[1] {
		return "CREATE TABLE t (pk INT PRIMARY KEY, c INT NOT NULL DEFAULT 5); dolt_commit; ALTER TABLE t DROP COLUMN c; [dolt_commit or not]; ALTER TABLE t ADD COLUMN c INT NOT NULL DEFAULT 5: dolt_hashof_table('t') is " + hashes[0] + " without the commit in between and " + hashes[1] + " with it (the re-added column gets a different tag)"
	}
	return ""
}

// c37FindIdxComment: an index COMMENT containing a single quote is written unescaped whenever the
// CREATE TABLE text is regenerated and re-parsed (adding a generated column, merging the table):
// those operations fail with "syntax error ... near 's'".
const c37FindIdxComment = "C37-index-comment-quote-unescaped"

var c37NoQuoteIdxComment bool

func c37PinnedIdxComment(t *testing.T, srv *vsql.Server, admin *vsql.Session) string {
	db := srv.NewDBName()
	admin.MustExec(t, "CREATE DATABASE "+db)
	defer admin.Exec("DROP DATABASE " + db)
	s := srv.Session(t, "pinned", db)
	defer s.Close()
	s.MustExec(t, "CREATE TABLE t (c0 SMALLINT NOT NULL, KEY ix1 (c0) COMMENT 'it''s')")
	if err := s.Exec("ALTER TABLE t ADD COLUMN a9 INT GENERATED ALWAYS AS (c0 + 1) VIRTUAL"); err != nil {
		return "CREATE TABLE t (c0 SMALLINT NOT NULL, KEY ix1 (c0) COMMENT 'it''s'); ALTER TABLE t ADD COLUMN a9 INT GENERATED ALWAYS AS (c0 + 1) VIRTUAL fails: " + qClip(err.Error(), 120)
	}
	return ""
}

// c37CurProg is the program of the running case (for messages only).
var c37CurProg string

func c37ShowCreate(t vsql.TB, s *vsql.Session, table string) string {
	r, err := s.Query("SHOW CREATE TABLE `" + table + "`")
	if err != nil {
		t.Fatalf("SHOW CREATE TABLE %s failed: %v\n--- program ---\n%s", table, err, c37CurProg)
	}
	if len(r.Data) != 1 || len(r.Data[0]) < 2 {
		t.Fatalf("SHOW CREATE TABLE returned %v", r)
	}
	return r.Data[0][1]
}

func TestVerif_C37(t *testing.T) {
	recRT := vh.NewRecorder("C37", "roundtrip", "exploration", c37RuleRT, c37Assumptions...)
	defer recRT.Write(t)
	recTags := vh.NewRecorder("C37", "tags", "exploration", c37RuleTags, c37Assumptions...)
	defer recTags.Write(t)
	dir, cleanup := vh.ScratchDir(t, "c37")
	defer cleanup()
	srv, err := vsql.StartServer(dir)
	if err != nil {
		vh.Inconclusive(t, "start dolt server: %v", err)
	}
	defer func() { srv.Stop() }()
	admin := srv.Session(t, "admin", "")
	defer func() { admin.Close() }()
	c37NoVirtualAdd = vh.OpenFinding("C37", c37FindVirtualAdd)
	t.Run("pinned_virtual_column_hides_checks_and_comment", func(t *testing.T) {
		if msg := c37PinnedVirtualAdd(t, srv, admin); msg != "" {
			if vh.OpenFinding("C37", c37FindVirtualAdd) {
				vh.ReportKnown("C37", c37FindVirtualAdd, msg)
				return
			}
			vh.NoteViolation(t.Name(), "", `{"sql":["CREATE TABLE t2 (c0 INT PRIMARY KEY, c1 INT, CONSTRAINT chk1 CHECK (c1 < 5), a4 INT GENERATED ALWAYS AS (c0 + 1) VIRTUAL) COMMENT='plain'","SHOW CREATE TABLE t2","INSERT INTO t2 (c0, c1) VALUES (1, 100)"],"observed":"`+strings.ReplaceAll(msg, `"`, `'`)+`"}`)
			t.Errorf("%s", msg)
		}
	})
	c37CadenceOpen = vh.OpenFinding("C37", c37FindCadence)
	t.Run("pinned_readd_tag_depends_on_commit_cadence", func(t *testing.T) {
		if msg := c37PinnedCadence(t, srv, admin); msg != "" {
			if vh.OpenFinding("C37", c37FindCadence) {
				vh.ReportKnown("C37", c37FindCadence, msg)
				return
			}
			vh.NoteViolation(t.Name(), "", `{"sql":["CREATE TABLE t (pk INT PRIMARY KEY, c INT NOT NULL DEFAULT 5)","CALL dolt_commit('-Am','create')","ALTER TABLE t DROP COLUMN c","-- with / without CALL dolt_commit('-Am','drop') here","ALTER TABLE t ADD COLUMN c INT NOT NULL DEFAULT 5","SELECT dolt_hashof_table('t')"],"observed":"`+strings.ReplaceAll(msg, `"`, `'`)+`"}`)
			t.Errorf("%s", msg)
		}
	})
	c37NoQuoteIdxComment = vh.OpenFinding("C37", c37FindIdxComment)
	t.Run("pinned_index_comment_quote_unescaped", func(t *testing.T) {
		if msg := c37PinnedIdxComment(t, srv, admin); msg != "" {
			if vh.OpenFinding("C37", c37FindIdxComment) {
				vh.ReportKnown("C37", c37FindIdxComment, msg)
				return
			}
			vh.NoteViolation(t.Name(), "", `{"sql":["CREATE TABLE t (c0 SMALLINT NOT NULL, KEY ix1 (c0) COMMENT 'it''s')","ALTER TABLE t ADD COLUMN a9 INT GENERATED ALWAYS AS (c0 + 1) VIRTUAL"],"observed":"`+strings.ReplaceAll(msg, `"`, `'`)+`"}`)
			t.Errorf("%s", msg)
		}
	})
	remoteSeq := 0
	maxAlters := vh.N(8, 10)
	vh.Check(t, "ddl", 120, 250, func(rt *rapid.T) {
		dbA := srv.NewDBName()
		dbB := dbA + "_ind"
		dbC := dbA + "_copy"
		admin.MustExec(rt, "CREATE DATABASE "+dbA)
		admin.MustExec(rt, "CREATE DATABASE "+dbB)
		defer func() {
			_ = admin.Exec("DROP DATABASE " + dbA)
			_ = admin.Exec("DROP DATABASE " + dbB)
			_ = admin.Exec("DROP DATABASE " + dbC)
		}()
		base := srv.Session(rt, "base", dbA)
		base.MustExec(rt, "CREATE TABLE p (id INT PRIMARY KEY)")
		base.MustExec(rt, "CALL dolt_commit('-Am','base')")
		base.MustExec(rt, "CALL dolt_branch('b1')")
		base.MustExec(rt, "CALL dolt_branch('b2')")
		base.Close()
		s1 := srv.Session(rt, "b1", dbA+"/b1")
		defer func() { s1.Close() }()

		m := &c37Model{Table: "t"}
		var accepted []string
		var script []string
		nAlter := 0
		rejected := 0
		checkRT := func(after string) {
			p, err := c37Fetch(srv, dbA, "b1", m.Table)
			if err != nil {
				rt.Fatalf("HARNESS: cannot read schema in process after %s: %v", after, err)
			}
			diff, err := c37RoundTrip(p)
			if err != nil {
				rt.Fatalf("C37 (1): schema round trip failed after %s: %v\n--- program ---\n%s", after, err, strings.Join(script, ";\n"))
			}
			if len(diff) > 0 {
				rt.Fatalf("C37 (1): schema changed by SerializeSchema -> DeserializeSchema after %s:\n  %s\n--- program ---\n%s", after, strings.Join(diff, "\n  "), strings.Join(script, ";\n"))
			}
		}
		create := c37GenCreate(rt, m)
		if err := s1.Exec(create.SQL); err != nil {
			recRT.Class("create_rejected", 1)
			recRT.Class("create_rejected: "+c37ErrClass(err), 1)
			rt.Logf("CREATE rejected: %s: %v", create.SQL, err)
			return
		}
		create.Apply(m)
		accepted = append(accepted, create.SQL)
		script = append(script, create.SQL)
		checkRT("CREATE")
		checkExpect := func(st c37Stmt) {
			if len(st.Expect) == 0 {
				return
			}
			c37CurProg = strings.Join(script, ";\n")
			show := strings.ToLower(c37ShowCreate(rt, s1, m.Table))
			for _, e := range st.Expect {
				if m.HasVirtual && c37NoVirtualAdd && (strings.HasPrefix(e, "constraint `") || e == "not enforced" || strings.HasPrefix(e, "comment='")) {
					c37Excluded++
					continue
				}
				if !strings.Contains(show, e) {
					rt.Fatalf("C37 (1): SHOW CREATE TABLE after %s lacks %q (an attribute of the statement was lost on the way to or from storage):\n%s\n--- program ---\n%s", qClip(st.SQL, 200), e, show, c37CurProg)
				}
			}
		}
		checkExpect(create)
		nTry := rapid.IntRange(0, maxAlters).Draw(rt, "nalters")
		for i := 0; i < nTry; i++ {
			st := c37GenAlter(rt, m)
			if err := s1.Exec(st.SQL); err != nil {
				rejected++
				script = append(script, "-- rejected: "+st.SQL+"  ("+qClip(err.Error(), 120)+")")
				continue
			}
			st.Apply(m)
			accepted = append(accepted, st.SQL)
			script = append(script, st.SQL)
			nAlter++
			checkRT(st.SQL)
			checkExpect(st)
		}
		prog := strings.Join(script, ";\n")
		c37CurProg = prog
		show1 := c37ShowCreate(rt, s1, m.Table)
		p1, err := c37Fetch(srv, dbA, "b1", m.Table)
		if err != nil {
			rt.Fatalf("HARNESS: %v", err)
		}

		// (3) replay on b2 and in the independent database
		// the replays differ from b1 (which commits only at the end) in their COMMIT CADENCE: branch b2
		// commits after drawn statements, the independent database after every statement
		replay := func(se *vsql.Session, where string, commitAfter func(i int) bool) string {
			var cadence []string
			for i, sql := range accepted {
				if err := se.Exec(sql); err != nil {
					rt.Fatalf("C37 (3): statement accepted on branch b1 was rejected %s: %s: %v\n--- program ---\n%s", where, sql, err, prog)
				}
				if commitAfter(i) {
					se.MustExec(rt, fmt.Sprintf("CALL dolt_commit('-A','--allow-empty','-m','after statement %d')", i))
					cadence = append(cadence, fmt.Sprint(i))
				}
			}
			return strings.Join(cadence, ",")
		}
		s2 := srv.Session(rt, "b2", dbA+"/b2")
		defer func() { s2.Close() }()
		commitPoints := map[int]bool{}
		for i := range accepted {
			if rapid.Bool().Draw(rt, "b2.commit_after") {
				commitPoints[i] = true
			}
		}
		cadence2 := replay(s2, "on branch b2", func(i int) bool { return commitPoints[i] })
		prog += "\n-- branch b1 commits only at the end; branch b2 commits after statements [" + cadence2 + "]; the independent database commits after every statement"
		c37CurProg = prog
		sB := srv.Session(rt, "ind", dbB)
		defer func() { sB.Close() }()
		sB.MustExec(rt, "CREATE TABLE p (id INT PRIMARY KEY)")
		sB.MustExec(rt, "CALL dolt_commit('-Am','base')")
		replay(sB, "in an independent database", func(int) bool { return true })
		cadenceDiffer := false
		for _, o := range []struct {
			se         *vsql.Session
			db, branch string
		}{{s2, dbA, "b2"}, {sB, dbB, "main"}} {
			show := c37ShowCreate(rt, o.se, m.Table)
			if show != show1 {
				rt.Fatalf("C37 (3): SHOW CREATE TABLE differs between %s/b1 and %s/%s after the same DDL:\n%s\n---\n%s\n--- program ---\n%s", dbA, o.db, o.branch, show1, show, prog)
			}
			p, err := c37Fetch(srv, o.db, o.branch, m.Table)
			if err != nil {
				rt.Fatalf("HARNESS: %v", err)
			}
			tagsA, tagsB := p1.Tags, p.Tags
			cadenceGate := len(m.RewriteReadd) > 0 && c37CadenceOpen
			if cadenceGate {
				// known finding C37-readd-tag-depends-on-commit-cadence: the tags of columns re-added through
				// the rewrite path are left out, and the hashes (which contain them) are not compared
				strip := func(tags []string) []string {
					var out []string
					for _, tg := range tags {
						if !m.RewriteReadd[strings.SplitN(tg, "=", 2)[0]] {
							out = append(out, tg)
						}
					}
					return out
				}
				tagsA, tagsB = strip(tagsA), strip(tagsB)
			}
			if strings.Join(tagsB, ",") != strings.Join(tagsA, ",") {
				rt.Fatalf("C37 (3): column tags differ between %s/b1 and %s/%s after the same DDL:\n  %v\n  %v\n--- program ---\n%s", dbA, o.db, o.branch, p1.Tags, p.Tags, prog)
			}
			if cadenceGate {
				if strings.Join(p.Tags, ",") != strings.Join(p1.Tags, ",") || p.Hash != p1.Hash {
					c37Excluded++
					if o.branch == "b2" {
						cadenceDiffer = true
					}
				}
				continue
			}
			if p.Hash != p1.Hash {
				rt.Fatalf("C37 (3): schema hash differs between %s/b1 (%s) and %s/%s (%s) after the same DDL; attribute differences: %v\n--- program ---\n%s", dbA, p1.Hash, o.db, o.branch, p.Hash, c37SchemaDiff(p1.Sch, p.Sch), prog)
			}
			// tables hold no rows: the table hash is a function of the schema alone
			h1, _ := s1.Scalar(rt, "SELECT dolt_hashof_table('"+m.Table+"')")
			h2, _ := o.se.Scalar(rt, "SELECT dolt_hashof_table('"+m.Table+"')")
			if h1 != h2 {
				rt.Fatalf("C37 (3): dolt_hashof_table differs between %s/b1 (%s) and %s/%s (%s) after the same DDL\n--- program ---\n%s", dbA, h1, o.db, o.branch, h2, prog)
			}
		}
		// merge b2 into b1
		s1.MustExec(rt, "CALL dolt_commit('-Am','ddl on b1')")
		s2.MustExec(rt, "CALL dolt_commit('-A','--allow-empty','-m','ddl on b2')")
		mr, err := s1.Query("CALL dolt_merge('b2')")
		if err != nil && cadenceDiffer && strings.Contains(err.Error(), "added in 2 commits can't be merged") {
			// consequence of the open cadence finding: the two branches added "the same" table with different
			// tags, and dolt refuses to merge two independently added tables that are not identical
			c37Excluded++
			recTags.Class("excluded:merge_refused_after_cadence_dependent_tags", 1)
			err, mr = nil, &vsql.Rows{Data: [][]string{{"", "", "0"}}}
		}
		if err != nil {
			rt.Fatalf("C37 (3): merging two branches that ran the same DDL failed: %v\n--- program ---\n%s", err, prog)
		}
		if len(mr.Data) != 1 || len(mr.Data[0]) < 3 || mr.Data[0][2] != "0" {
			rt.Fatalf("C37 (3): dolt_merge of two branches that ran the same DDL reports conflicts: %v\n--- program ---\n%s", mr, prog)
		}
		for _, q := range []string{"SELECT COUNT(*) FROM dolt_schema_conflicts", "SELECT COUNT(*) FROM dolt_conflicts", "SELECT COUNT(*) FROM dolt_constraint_violations"} {
			if n, _ := s1.Scalar(rt, q); n != "0" {
				rt.Fatalf("C37 (3): after merging two branches that ran the same DDL, %s = %s\n--- program ---\n%s", q, n, prog)
			}
		}
		if show := c37ShowCreate(rt, s1, m.Table); show != show1 {
			rt.Fatalf("C37 (3): SHOW CREATE TABLE changed by the merge:\n%s\n---\n%s\n--- program ---\n%s", show1, show, prog)
		}
		if n, _ := s1.Scalar(rt, "SELECT COUNT(*) FROM information_schema.tables WHERE table_schema = DATABASE() AND table_name = '"+m.Table+"'"); n != "1" {
			rt.Fatalf("C37 (3): %s tables named %s after the merge", n, m.Table)
		}

		// the copies below are taken after the merge: the reference is the schema b1 holds now (while the
		// cadence finding is open the merge may have adopted b2's tag for a re-added column)
		if pm, err := c37Fetch(srv, dbA, "b1", m.Table); err == nil {
			p1 = pm
		} else {
			rt.Fatalf("HARNESS: %v", err)
		}
		// (2) storage round trip: clone through a file remote, or restore from a backup
		remoteSeq++
		remote := "file://" + filepath.Join(dir, fmt.Sprintf("remote%d", remoteSeq))
		copyKind := rapid.SampledFrom([]string{"clone", "clone", "backup"}).Draw(rt, "copykind")
		copyBranch := "b1"
		if copyKind == "clone" {
			s1.MustExec(rt, "CALL dolt_remote('add','origin','"+remote+"')")
			s1.MustExec(rt, "CALL dolt_push('origin','b1')")
			admin.MustExec(rt, "CALL dolt_clone('"+remote+"','"+dbC+"')")
		} else {
			s1.MustExec(rt, "CALL dolt_backup('sync-url','"+remote+"')")
			admin.MustExec(rt, "CALL dolt_backup('restore','"+remote+"','"+dbC+"')")
		}
		sC := srv.Session(rt, "copy", dbC+"/"+copyBranch)
		showC := c37ShowCreate(rt, sC, m.Table)
		sC.Close()
		if showC != show1 {
			rt.Fatalf("C37 (2): SHOW CREATE TABLE on the %s differs:\n%s\n---\n%s\n--- program ---\n%s", copyKind, show1, showC, prog)
		}
		pC, err := c37Fetch(srv, dbC, copyBranch, m.Table)
		if err != nil {
			rt.Fatalf("HARNESS: %v", err)
		}
		if d := c37SchemaDiff(p1.Sch, pC.Sch); len(d) > 0 || pC.Hash != p1.Hash {
			rt.Fatalf("C37 (2): schema on the %s differs (hash %s vs %s): %v\n--- program ---\n%s", copyKind, p1.Hash, pC.Hash, d, prog)
		}
		classes := []string{"copy=" + copyKind, fmt.Sprintf("alters=%d", nAlter), fmt.Sprintf("rejected=%d", rejected)}
		// restart in some cases
		if rapid.IntRange(0, 5).Draw(rt, "restart") == 0 {
			s1.Close()
			s2.Close()
			sB.Close()
			admin.Close()
			srv.Stop()
			srv2, err := vsql.StartServerAt(dir, srv.Dir)
			if err != nil {
				vh.Inconclusive(t, "restart dolt server: %v", err)
			}
			srv = srv2
			admin = srv.Session(rt, "admin", "")
			sR := srv.Session(rt, "restarted", dbA+"/b1")
			showR := c37ShowCreate(rt, sR, m.Table)
			sR.Close()
			if showR != show1 {
				rt.Fatalf("C37 (2): SHOW CREATE TABLE after a server restart differs:\n%s\n---\n%s\n--- program ---\n%s", show1, showR, prog)
			}
			pR, err := c37Fetch(srv, dbA, "b1", m.Table)
			if err != nil {
				rt.Fatalf("HARNESS: %v", err)
			}
			if d := c37SchemaDiff(p1.Sch, pR.Sch); len(d) > 0 || pR.Hash != p1.Hash {
				rt.Fatalf("C37 (2): schema after a server restart differs (hash %s vs %s): %v\n--- program ---\n%s", p1.Hash, pR.Hash, d, prog)
			}
			classes = append(classes, "restarted")
		}
		hasIdx := len(p1.Sch.Indexes().AllIndexes()) > 0
		if m.ExprDefault {
			classes = append(classes, "expr_default_or_generated")
		}
		if m.NonDefColl {
			classes = append(classes, "non_default_collation")
		}
		if hasIdx {
			classes = append(classes, "has_index")
		}
		if len(p1.Sch.Checks().AllChecks()) > 0 {
			classes = append(classes, "has_check")
		}
		if strings.Contains(show1, "FOREIGN KEY") {
			classes = append(classes, "has_fk")
		}
		desc := strings.Join(accepted, "; ")
		if c37Excluded > 0 {
			recRT.Excluded(c37Excluded)
			recRT.Class("known_excluded_fragments", c37Excluded)
			c37Excluded = 0
		}
		recRT.Case(desc, m.ExprDefault && m.NonDefColl && hasIdx, classes...)
		recTags.Case(desc, nAlter >= 2, classes...)
	})
}
