package sqlq

// Generators of the C26 differential check: schemas, rows, DML, predicates and queries.
// Every value is kept as the SQL literal text that is sent, verbatim, to both engines.

import (
	"fmt"
	"sort"
	"strings"

	"pgregory.net/rapid"
)

type qKind int

const (
	qkTiny qKind = iota
	qkSmall
	qkInt
	qkBig
	qkUInt
	qkUBig
	qkDec
	qkDouble
	qkFloat
	qkStrBin
	qkStrCI
	qkStrGen
	qkVarbin
	qkDate
	qkDatetime
	qkEnum
	qkText
	qkYear
	qkTime
	qkNKinds
)

var qKindName = [...]string{"tiny", "small", "int", "big", "uint", "ubig", "dec", "double", "float", "strbin", "strci", "strgen", "varbin", "date", "datetime", "enum", "text", "year", "time"}

func (k qKind) String() string { return qKindName[k] }

func (k qKind) sqlType(rt *rapid.T) string {
	switch k {
	case qkTiny:
		return "TINYINT"
	case qkSmall:
		return "SMALLINT"
	case qkInt:
		return "INT"
	case qkBig:
		return "BIGINT"
	case qkUInt:
		return "INT UNSIGNED"
	case qkUBig:
		return "BIGINT UNSIGNED"
	case qkDec:
		return "DECIMAL(10,2)"
	case qkDouble:
		return "DOUBLE"
	case qkFloat:
		return "FLOAT"
	case qkStrBin:
		return fmt.Sprintf("VARCHAR(%d) COLLATE utf8mb4_0900_bin", rapid.SampledFrom([]int{8, 16, 40}).Draw(rt, "vlen"))
	case qkStrCI:
		return fmt.Sprintf("VARCHAR(%d) COLLATE utf8mb4_0900_ai_ci", rapid.SampledFrom([]int{8, 16, 40}).Draw(rt, "vlen"))
	case qkStrGen:
		return fmt.Sprintf("VARCHAR(%d) COLLATE utf8mb4_general_ci", rapid.SampledFrom([]int{8, 16, 40}).Draw(rt, "vlen"))
	case qkVarbin:
		return "VARBINARY(16)"
	case qkDate:
		return "DATE"
	case qkDatetime:
		return "DATETIME(6)"
	case qkEnum:
		return "ENUM('x','y','z','w')"
	case qkText:
		return "TEXT COLLATE utf8mb4_0900_bin"
	case qkYear:
		return "YEAR"
	case qkTime:
		return "TIME"
	}
	panic("kind")
}

// joinClass: columns are joined only with columns of the same class.
func (k qKind) joinClass() string {
	switch k {
	case qkTiny, qkSmall, qkInt, qkBig, qkUInt, qkUBig:
		return "int"
	case qkDec:
		return "dec"
	case qkDouble:
		return "dbl"
	case qkFloat:
		return "flt"
	case qkStrBin:
		return "sbin"
	case qkStrCI:
		return "sci"
	case qkStrGen:
		return "sgen"
	case qkVarbin:
		return "vbin"
	case qkDate:
		return "date"
	case qkDatetime:
		return "dt"
	}
	return ""
}

func (k qKind) isString() bool {
	return k == qkStrBin || k == qkStrCI || k == qkStrGen || k == qkText
}

// caseInsensitive: equality under the column's collation is coarser than byte equality, so the
// representative a GROUP BY / DISTINCT / MIN / MAX returns is not determined.
func (k qKind) caseInsensitive() bool { return k == qkStrCI || k == qkStrGen }

func (k qKind) pkCapable() bool {
	switch k {
	case qkSmall, qkInt, qkBig, qkUInt, qkDec, qkStrBin, qkDate, qkVarbin:
		return true
	}
	return false
}

func (k qKind) numeric() bool { return k <= qkFloat }

var qStrPieces = []string{"a", "A", "á", "ab", "aB", "Ab", "b", "B", "ä", "", "a ", "abc", "ß", "ss", "z", "ab ", "é", "e", "E", "abd", "ba"}
var qBinPieces = []string{"", "00", "61", "6162", "ff", "6100", "41", "616263", "62"}

func qQuote(s string) string { return "'" + strings.ReplaceAll(s, "'", "''") + "'" }

func qDecLit(cents int64) string {
	sign := ""
	if cents < 0 {
		sign = "-"
		cents = -cents
	}
	return fmt.Sprintf("%s%d.%02d", sign, cents/100, cents%100)
}

func qDateLit(dayOff int) string {
	// days relative to 2020-01-01, proleptic arithmetic on a fixed table-free civil calendar
	y, m, d := qCivil(18262 + int64(dayOff)) // 18262 = days from 1970-01-01 to 2020-01-01
	return fmt.Sprintf("'%04d-%02d-%02d'", y, m, d)
}

// qCivil converts days since 1970-01-01 to y/m/d (Howard Hinnant's algorithm; no time package so
// nothing depends on the local zone).
func qCivil(z int64) (int64, int64, int64) {
	z += 719468
	era := z / 146097
	if z < 0 {
		era = (z - 146096) / 146097
	}
	doe := z - era*146097
	yoe := (doe - doe/1460 + doe/36524 - doe/146096) / 365
	y := yoe + era*400
	doy := doe - (365*yoe + yoe/4 - yoe/100)
	mp := (5*doy + 2) / 153
	d := doy - (153*mp+2)/5 + 1
	m := mp + 3
	if m > 12 {
		m -= 12
	}
	if m <= 2 {
		y++
	}
	return y, m, d
}

func qDatetimeLit(usec int64) string {
	day := usec / 86400000000
	rem := usec % 86400000000
	if rem < 0 {
		rem += 86400000000
		day--
	}
	y, m, d := qCivil(18262 + day)
	s := rem / 1000000
	return fmt.Sprintf("'%04d-%02d-%02d %02d:%02d:%02d.%06d'", y, m, d, s/3600, (s/60)%60, s%60, rem%1000000)
}

// qGenLit draws a non-NULL literal of kind k; wide=true draws from the larger space used for
// primary keys (many distinct values), otherwise from a small colliding pool with boundaries.
func qGenLit(rt *rapid.T, k qKind, wide bool, label string) string {
	smallInt := func(lo, hi int64, bounds ...string) string {
		if !wide && len(bounds) > 0 && rapid.IntRange(0, 9).Draw(rt, label+".b") == 0 {
			return rapid.SampledFrom(bounds).Draw(rt, label+".bound")
		}
		if wide {
			return fmt.Sprint(rapid.Int64Range(lo*10, hi*30).Draw(rt, label))
		}
		return fmt.Sprint(rapid.Int64Range(lo, hi).Draw(rt, label))
	}
	switch k {
	case qkTiny:
		if wide {
			return fmt.Sprint(rapid.Int64Range(-128, 127).Draw(rt, label))
		}
		return smallInt(-3, 12, "-128", "127")
	case qkSmall:
		return smallInt(-3, 12, "-32768", "32767")
	case qkInt:
		return smallInt(-3, 12, "-2147483648", "2147483647")
	case qkBig:
		return smallInt(-3, 12, "-9223372036854775808", "9223372036854775807", "4294967296")
	case qkUInt:
		return smallInt(0, 12, "4294967295")
	case qkUBig:
		return smallInt(0, 12, "18446744073709551615", "9223372036854775808")
	case qkDec:
		if !wide && rapid.IntRange(0, 11).Draw(rt, label+".b") == 0 {
			return rapid.SampledFrom([]string{"99999999.99", "-99999999.99", "0.01", "-0.01"}).Draw(rt, label+".bound")
		}
		if wide {
			return qDecLit(rapid.Int64Range(-3000, 40000).Draw(rt, label))
		}
		return qDecLit(rapid.Int64Range(-8, 40).Draw(rt, label) * 25)
	case qkDouble:
		// dyadic rationals: every partial sum is exact in float64, in any order
		if !wide && rapid.IntRange(0, 11).Draw(rt, label+".b") == 0 {
			return rapid.SampledFrom([]string{"1048576", "-1048576.125", "0.001953125"}).Draw(rt, label+".bound")
		}
		return qDyadic(rapid.Int64Range(-24, 80).Draw(rt, label), 8)
	case qkFloat:
		return qDyadic(rapid.Int64Range(-12, 40).Draw(rt, label), 4)
	case qkStrBin, qkStrCI, qkStrGen, qkText:
		if wide {
			n := rapid.IntRange(1, 3).Draw(rt, label+".n")
			var b strings.Builder
			for i := 0; i < n; i++ {
				b.WriteString(rapid.SampledFrom([]string{"a", "b", "c", "A", "B", "á", "z", "0", "_", " x"}).Draw(rt, label))
			}
			return qQuote(b.String())
		}
		return qQuote(rapid.SampledFrom(qStrPieces).Draw(rt, label))
	case qkVarbin:
		if wide {
			n := rapid.IntRange(1, 3).Draw(rt, label+".n")
			s := "0x"
			for i := 0; i < n; i++ {
				s += rapid.SampledFrom([]string{"00", "61", "62", "ff", "41", "7f", "80"}).Draw(rt, label)
			}
			return s
		}
		p := rapid.SampledFrom(qBinPieces).Draw(rt, label)
		if p == "" {
			return "''"
		}
		return "0x" + p
	case qkDate:
		if !wide && rapid.IntRange(0, 11).Draw(rt, label+".b") == 0 {
			return rapid.SampledFrom([]string{"'1000-01-01'", "'9999-12-31'", "'1970-01-01'"}).Draw(rt, label+".bound")
		}
		if wide {
			return qDateLit(rapid.IntRange(-100, 900).Draw(rt, label))
		}
		return qDateLit(rapid.IntRange(-2, 10).Draw(rt, label))
	case qkDatetime:
		if !wide && rapid.IntRange(0, 11).Draw(rt, label+".b") == 0 {
			return rapid.SampledFrom([]string{"'1000-01-01 00:00:00.000000'", "'9999-12-31 23:59:59.999999'"}).Draw(rt, label+".bound")
		}
		return qDatetimeLit(rapid.SampledFrom([]int64{0, 1, 999999, 1000000, 1000001, 59999999, 86399999999, 86400000000, -1, 3600000000, 2 * 86400000000}).Draw(rt, label))
	case qkEnum:
		return qQuote(rapid.SampledFrom([]string{"x", "y", "z", "w"}).Draw(rt, label))
	case qkYear:
		return rapid.SampledFrom([]string{"1901", "1999", "2000", "2001", "2020", "2155"}).Draw(rt, label)
	case qkTime:
		return rapid.SampledFrom([]string{"'00:00:00'", "'00:00:01'", "'12:34:56'", "'-01:00:00'", "'838:59:59'", "'23:59:59'", "'-838:59:59'"}).Draw(rt, label)
	}
	panic("kind")
}

func qDyadic(k, den int64) string {
	neg := k < 0
	if neg {
		k = -k
	}
	whole := k / den
	frac := k % den
	s := fmt.Sprint(whole)
	if frac != 0 {
		// den is 4 or 8: at most three decimal digits
		f := fmt.Sprintf("%03d", frac*1000/den)
		s += "." + strings.TrimRight(f, "0")
	}
	if neg && (whole != 0 || frac != 0) {
		s = "-" + s
	}
	return s
}

// ---------------------------------------------------------------------------------------
// schema and row model

type qCol struct {
	Name     string
	Kind     qKind
	Type     string
	Nullable bool
	PK       bool
	Pool     []string // literals this column's values are drawn from (non-PK columns)
	SumSafe  bool
}

type qIndex struct {
	Name   string
	Cols   []int
	Prefix []int // prefix length per column (0 = none)
	Unique bool
	Late   bool // created after the data was loaded
}

type qTable struct {
	Name string
	Cols []qCol
	NPK  int
	Idx  []qIndex
	// rows: literal per column. Keyed tables: Rows[key]; keyless tables: List (insert-only).
	Rows map[string][]string
	List [][]string
}

func (t *qTable) key(row []string) string { return strings.Join(row[:t.NPK], "\x1f") }

func (t *qTable) keys() []string {
	ks := make([]string, 0, len(t.Rows))
	for k := range t.Rows {
		ks = append(ks, k)
	}
	sort.Strings(ks)
	return ks
}

func (t *qTable) nRows() int {
	if t.NPK == 0 {
		return len(t.List)
	}
	return len(t.Rows)
}

func (t *qTable) allRows() [][]string {
	if t.NPK == 0 {
		return t.List
	}
	out := make([][]string, 0, len(t.Rows))
	for _, k := range t.keys() {
		out = append(out, t.Rows[k])
	}
	return out
}

func (t *qTable) snapshot() *qTable {
	c := &qTable{Name: t.Name, Cols: t.Cols, NPK: t.NPK, Idx: t.Idx, Rows: make(map[string][]string, len(t.Rows))}
	for k, r := range t.Rows {
		c.Rows[k] = append([]string(nil), r...)
	}
	for _, r := range t.List {
		c.List = append(c.List, append([]string(nil), r...))
	}
	return c
}

func (t *qTable) indexedFirst(ci int) bool {
	if t.NPK > 0 && ci == 0 {
		return true
	}
	for _, ix := range t.Idx {
		if ix.Cols[0] == ci {
			return true
		}
	}
	return false
}

func (ix qIndex) ddl(t *qTable) string {
	var p []string
	for i, c := range ix.Cols {
		s := "`" + t.Cols[c].Name + "`"
		if ix.Prefix[i] > 0 {
			s += fmt.Sprintf("(%d)", ix.Prefix[i])
		}
		p = append(p, s)
	}
	u := ""
	if ix.Unique {
		u = "UNIQUE "
	}
	return fmt.Sprintf("%sKEY `%s` (%s)", u, ix.Name, strings.Join(p, ","))
}

// createDDL renders CREATE TABLE with the non-late indexes.
func (t *qTable) createDDL(withLate bool) string {
	var p []string
	for _, c := range t.Cols {
		s := "`" + c.Name + "` " + c.Type
		if !c.Nullable {
			s += " NOT NULL"
		}
		p = append(p, s)
	}
	if t.NPK > 0 {
		var pk []string
		for _, c := range t.Cols[:t.NPK] {
			pk = append(pk, "`"+c.Name+"`")
		}
		p = append(p, "PRIMARY KEY ("+strings.Join(pk, ",")+")")
	}
	for _, ix := range t.Idx {
		if ix.Late && !withLate {
			continue
		}
		p = append(p, ix.ddl(t))
	}
	return fmt.Sprintf("CREATE TABLE `%s` (%s)", t.Name, strings.Join(p, ", "))
}

func (t *qTable) sig() string {
	var p []string
	for i, c := range t.Cols {
		s := c.Kind.String()
		if i < t.NPK {
			s = "pk:" + s
		}
		if c.Nullable {
			s += "?"
		}
		p = append(p, s)
	}
	var xs []string
	for _, ix := range t.Idx {
		var cs []string
		for i, c := range ix.Cols {
			s := t.Cols[c].Name
			if ix.Prefix[i] > 0 {
				s += fmt.Sprintf("(%d)", ix.Prefix[i])
			}
			cs = append(cs, s)
		}
		u := ""
		if ix.Unique {
			u = "u"
		}
		xs = append(xs, u+"("+strings.Join(cs, ",")+")")
	}
	return fmt.Sprintf("%s[%s|%s]", t.Name, strings.Join(p, ","), strings.Join(xs, ""))
}

func qGenSchema(rt *rapid.T, enabled []qKind) []*qTable {
	nT := rapid.SampledFrom([]int{1, 2, 2, 2, 3, 3}).Draw(rt, "ntables")
	// a small palette makes joinable column pairs likely
	nPal := rapid.IntRange(2, 4).Draw(rt, "npalette")
	var palette []qKind
	for i := 0; i < nPal; i++ {
		palette = append(palette, rapid.SampledFrom(enabled).Draw(rt, "palette"))
	}
	var pkKinds []qKind
	for _, k := range enabled {
		if k.pkCapable() {
			pkKinds = append(pkKinds, k)
		}
	}
	pickKind := func(label string) qKind {
		if rapid.IntRange(0, 3).Draw(rt, label+".any") == 0 {
			return rapid.SampledFrom(enabled).Draw(rt, label)
		}
		return rapid.SampledFrom(palette).Draw(rt, label)
	}
	var tables []*qTable
	for ti := 0; ti < nT; ti++ {
		t := &qTable{Name: fmt.Sprintf("t%d", ti), Rows: map[string][]string{}}
		t.NPK = rapid.SampledFrom([]int{1, 1, 1, 1, 1, 1, 2, 2, 0}).Draw(rt, "npk")
		for i := 0; i < t.NPK; i++ {
			var k qKind
			// prefer a palette kind for the key so that pk = fk joins exist
			k = rapid.SampledFrom(pkKinds).Draw(rt, "pkkind")
			for _, pk := range palette {
				if pk.pkCapable() && rapid.Bool().Draw(rt, "pkpal") {
					k = pk
					break
				}
			}
			t.Cols = append(t.Cols, qCol{Name: fmt.Sprintf("k%d", i), Kind: k, Type: k.sqlType(rt), PK: true})
		}
		nV := rapid.IntRange(2, 5).Draw(rt, "nvals")
		for i := 0; i < nV; i++ {
			k := pickKind("vkind")
			c := qCol{Name: fmt.Sprintf("c%d", i), Kind: k, Type: k.sqlType(rt), Nullable: rapid.IntRange(0, 9).Draw(rt, "nullable") < 7}
			nPool := rapid.IntRange(2, 9).Draw(rt, "npool")
			seen := map[string]bool{}
			for j := 0; j < nPool; j++ {
				l := qGenLit(rt, k, false, "pool")
				if !seen[l] {
					seen[l] = true
					c.Pool = append(c.Pool, l)
				}
			}
			c.SumSafe = qSumSafe(c)
			t.Cols = append(t.Cols, c)
		}
		nI := rapid.IntRange(0, 3).Draw(rt, "nidx")
		for i := 0; i < nI; i++ {
			ix := qIndex{Name: fmt.Sprintf("i%d", i), Late: rapid.IntRange(0, 2).Draw(rt, "late") == 0}
			nc := rapid.SampledFrom([]int{1, 1, 1, 2, 2, 3}).Draw(rt, "nidxcols")
			used := map[int]bool{}
			for j := 0; j < nc; j++ {
				// favour value columns; key columns may appear as suffixes
				ci := rapid.IntRange(0, len(t.Cols)-1).Draw(rt, "idxcol")
				if j == 0 && ci < t.NPK {
					ci = t.NPK + rapid.IntRange(0, nV-1).Draw(rt, "idxcol0")
				}
				if used[ci] {
					continue
				}
				used[ci] = true
				pre := 0
				if t.Cols[ci].Kind == qkText {
					pre = rapid.IntRange(1, 4).Draw(rt, "prefix")
				} else if (t.Cols[ci].Kind.isString() || t.Cols[ci].Kind == qkVarbin) && rapid.IntRange(0, 5).Draw(rt, "hasprefix") == 0 {
					pre = rapid.IntRange(1, 3).Draw(rt, "prefix")
				}
				if pre > 0 && ci < t.NPK && qNoPrefixOnPK {
					// known finding C26-prefix-index-on-pk-update (see c26_test.go): excluded by construction
					qExcludedLits["prefix_index_on_pk_column"]++
					pre = 0
				}
				ix.Cols = append(ix.Cols, ci)
				ix.Prefix = append(ix.Prefix, pre)
			}
			// UNIQUE only when the whole primary key is part of the index: uniqueness then
			// follows from the key and no generated row can be rejected
			if t.NPK > 0 && rapid.IntRange(0, 4).Draw(rt, "unique") == 0 {
				ok := true
				for pk := 0; pk < t.NPK; pk++ {
					if !used[pk] {
						if len(ix.Cols) < 4 {
							ix.Cols = append(ix.Cols, pk)
							ix.Prefix = append(ix.Prefix, 0)
							used[pk] = true
						} else {
							ok = false
						}
					}
				}
				for i, c := range ix.Cols {
					if c < t.NPK && ix.Prefix[i] > 0 {
						ok = false
					}
				}
				ix.Unique = ok
			}
			t.Idx = append(t.Idx, ix)
		}
		tables = append(tables, t)
	}
	return tables
}

// qSumSafe: SUM over this column is exact in float64 regardless of the order of summation
// (go-mysql-server sums non-decimal values as float64; dolt and the memory engine iterate in
// different orders).
func qSumSafe(c qCol) bool {
	switch c.Kind {
	case qkTiny, qkSmall, qkInt, qkUInt, qkDec, qkDouble, qkFloat:
		return true
	case qkBig, qkUBig:
		for _, l := range c.Pool {
			if len(l) > 12 {
				return false
			}
		}
		return true
	}
	return false
}

// qGenRow draws a row for t whose key is not present; ok=false when no fresh key was found.
func qGenRow(rt *rapid.T, t *qTable) ([]string, bool) {
	row := make([]string, len(t.Cols))
	if t.NPK > 0 {
		found := false
		for try := 0; try < 6 && !found; try++ {
			for i := 0; i < t.NPK; i++ {
				wide := i == t.NPK-1
				row[i] = qGenLit(rt, t.Cols[i].Kind, wide, "pkval")
			}
			if _, dup := t.Rows[t.key(row)]; !dup {
				found = true
			}
		}
		if !found {
			return nil, false
		}
	}
	for i := t.NPK; i < len(t.Cols); i++ {
		row[i] = qGenVal(rt, &t.Cols[i])
	}
	return row, true
}

func qGenVal(rt *rapid.T, c *qCol) string {
	if c.Nullable && rapid.IntRange(0, 5).Draw(rt, "null") == 0 {
		return "NULL"
	}
	return rapid.SampledFrom(c.Pool).Draw(rt, "val")
}

func qInsertSQL(t *qTable, rows [][]string) string {
	var b strings.Builder
	fmt.Fprintf(&b, "INSERT INTO `%s` VALUES ", t.Name)
	for i, r := range rows {
		if i > 0 {
			b.WriteByte(',')
		}
		b.WriteByte('(')
		b.WriteString(strings.Join(r, ","))
		b.WriteByte(')')
	}
	return b.String()
}

func (t *qTable) pkWhere(row []string) string {
	var p []string
	for i := 0; i < t.NPK; i++ {
		p = append(p, fmt.Sprintf("`%s` = %s", t.Cols[i].Name, row[i]))
	}
	return strings.Join(p, " AND ")
}

// ---------------------------------------------------------------------------------------
// predicates

type qColRef struct {
	Expr string // qualified column expression
	T    *qTable
	CI   int
}

func (r qColRef) col() *qCol { return &r.T.Cols[r.CI] }

// qExcludedLits counts predicate literals replaced because of a grammar exclusion (read and
// reset by the test once per case).
var qExcludedLits = map[string]int{}

// qNoPrefixOnPK is set by the test while the finding about prefix indexes over primary-key
// columns is listed open.
var qNoPrefixOnPK bool

// qLitFor draws a literal to compare column r with: mostly a value the column holds.
func qLitFor(rt *rapid.T, r qColRef) string {
	l := qLitFor0(rt, r)
	if r.col().Kind == qkDec && (l == "99999999.99" || l == "-99999999.99") {
		// grammar exclusion: go-mysql-server's range builder (shared by both engines) turns
		// `deccol <> <extreme of the DECIMAL type>` into the range (NULL, ∞) and drops the filter
		qExcludedLits["decimal_type_extreme_literal"]++
		return "0.00"
	}
	return l
}

func qLitFor0(rt *rapid.T, r qColRef) string {
	c := r.col()
	if c.PK {
		if n := r.T.nRows(); n > 0 && rapid.IntRange(0, 3).Draw(rt, "pklit.existing") > 0 {
			rows := r.T.allRows()
			return rows[rapid.IntRange(0, n-1).Draw(rt, "pklit.row")][r.CI]
		}
		return qGenLit(rt, c.Kind, r.CI == r.T.NPK-1, "pklit")
	}
	if len(c.Pool) > 0 && rapid.IntRange(0, 3).Draw(rt, "lit.pool") > 0 {
		return rapid.SampledFrom(c.Pool).Draw(rt, "lit")
	}
	return qGenLit(rt, c.Kind, false, "lit.fresh")
}

func qGenAtom(rt *rapid.T, refs []qColRef) string {
	// favour columns that lead an index
	var r qColRef
	for try := 0; try < 3; try++ {
		r = refs[rapid.IntRange(0, len(refs)-1).Draw(rt, "atom.col")]
		if r.T.indexedFirst(r.CI) {
			break
		}
	}
	c := r.col()
	isDec := c.Kind == qkDec
	if isDec {
		qDecAtoms++
	}
	forms := []string{"cmp", "cmp", "cmp", "between", "in", "isnull", "notnull"}
	if c.Kind.isString() {
		forms = append(forms, "like", "like")
	}
	if c.Kind == qkEnum {
		forms = []string{"eq", "eq", "in", "isnull", "notnull"}
	}
	switch rapid.SampledFrom(forms).Draw(rt, "atom.form") {
	case "eq":
		return fmt.Sprintf("%s %s %s", r.Expr, rapid.SampledFrom([]string{"=", "<>", "<=>"}).Draw(rt, "op"), qLitFor(rt, r))
	case "cmp":
		op := rapid.SampledFrom([]string{"=", "=", "<>", "<", "<=", ">", ">=", "<=>"}).Draw(rt, "op")
		if isDec && op == "<>" {
			qDecNeg()
			op = "="
		}
		if op == "<=>" && c.Kind.caseInsensitive() {
			// grammar exclusion: go-mysql-server evaluates `<=>` bytewise when it is a filter but by
			// collation when it becomes an index range (both engines; they differ only when their
			// planners pick different plans)
			qExcludedLits["nullsafe_equal_on_ci_column"]++
			op = "="
		}
		lit := qLitFor(rt, r)
		if c.Kind.joinClass() == "int" && rapid.IntRange(0, 19).Draw(rt, "declit") == 0 {
			// grammar exclusion: an integer column compared with a fractional literal. Under a merge-join
			// plan go-mysql-server (both engines) builds the range (12, ∞) for `intcol > 11.75` and loses
			// the row 12; the engines disagree whenever their planners pick different join plans.
			qExcludedLits["fractional_literal_on_int_column"]++
		}
		return fmt.Sprintf("%s %s %s", r.Expr, op, lit)
	case "between":
		not := ""
		if rapid.IntRange(0, 5).Draw(rt, "not") == 0 {
			not = "NOT "
			if isDec {
				qDecNeg()
				not = ""
			}
		}
		return fmt.Sprintf("%s %sBETWEEN %s AND %s", r.Expr, not, qLitFor(rt, r), qLitFor(rt, r))
	case "in":
		n := rapid.IntRange(1, 4).Draw(rt, "in.n")
		var ls []string
		for i := 0; i < n; i++ {
			ls = append(ls, qLitFor(rt, r))
		}
		if rapid.IntRange(0, 11).Draw(rt, "in.null") == 0 {
			ls = append(ls, "NULL")
		}
		not := ""
		if rapid.IntRange(0, 4).Draw(rt, "not") == 0 {
			not = "NOT "
			if isDec {
				qDecNeg()
				not = ""
			}
		}
		return fmt.Sprintf("%s %sIN (%s)", r.Expr, not, strings.Join(ls, ","))
	case "isnull":
		return r.Expr + " IS NULL"
	case "notnull":
		return r.Expr + " IS NOT NULL"
	case "like":
		lit := qLitFor(rt, r)
		s := strings.ReplaceAll(strings.Trim(lit, "'"), "''", "'")
		rs := []rune(s)
		n := rapid.IntRange(0, 2).Draw(rt, "like.n")
		if n > len(rs) {
			n = len(rs)
		}
		not := ""
		if rapid.IntRange(0, 5).Draw(rt, "not") == 0 {
			not = "NOT "
		}
		return fmt.Sprintf("%s %sLIKE %s", r.Expr, not, qQuote(string(rs[:n])+"%"))
	}
	panic("form")
}

// qDecAtoms counts the atoms over DECIMAL columns generated so far: a predicate that contains
// one is never wrapped in NOT (grammar exclusion, see qDecNeg).
var qDecAtoms int

// qDecNeg: grammar exclusion. go-mysql-server's range builder (shared by both engines) turns a
// negated equality on an indexed DECIMAL column (`c <> x`, NOT (c = x), NOT IN) into the range
// (NULL, ∞); the memory engine then drops the filter and returns the rows equal to x (dolt keeps
// the filter because it treats DECIMAL ranges as imprecise). Negated equalities on DECIMAL columns
// are not generated; each avoided draw is counted.
func qDecNeg() { qExcludedLits["decimal_negated_equality"]++ }

func qGenPred(rt *rapid.T, refs []qColRef, depth int) string {
	if depth <= 0 || rapid.IntRange(0, 2).Draw(rt, "pred.leaf") == 0 {
		before := qDecAtoms
		a := qGenAtom(rt, refs)
		if rapid.IntRange(0, 9).Draw(rt, "pred.not") == 0 {
			if qDecAtoms != before {
				qDecNeg()
				return a
			}
			return "NOT (" + a + ")"
		}
		return a
	}
	op := rapid.SampledFrom([]string{"AND", "AND", "OR"}).Draw(rt, "pred.op")
	before := qDecAtoms
	l := qGenPred(rt, refs, depth-1)
	r := qGenPred(rt, refs, depth-1)
	s := fmt.Sprintf("(%s %s %s)", l, op, r)
	if rapid.IntRange(0, 11).Draw(rt, "pred.not") == 0 {
		if qDecAtoms != before {
			qDecNeg()
			return s
		}
		return "NOT " + s
	}
	return s
}

func qRefs(t *qTable, alias string) []qColRef {
	var out []qColRef
	for i, c := range t.Cols {
		e := "`" + c.Name + "`"
		if alias != "" {
			e = alias + "." + e
		}
		out = append(out, qColRef{Expr: e, T: t, CI: i})
	}
	return out
}

// ---------------------------------------------------------------------------------------
// queries

// qQuery is one generated query. SQL holds the text with a marker {T:<table>} for every base
// table: dolt gets the table name (head), "<table> AS OF '<rev>'" or "`<db>/<rev>`.<table>"; the
// reference engine always gets the bare name and is pointed at the database holding that
// commit's rows.
type qQuery struct {
	SQL     string
	Form    string
	Ordered bool // ORDER BY is total: compare in order
	Limit   bool
	Tables  []*qTable
	Shape   string // space-separated names of shapes that triage tied to a known finding or a grammar exclusion
}

func (q qQuery) has(shape string) bool {
	for _, s := range strings.Fields(q.Shape) {
		if s == shape {
			return true
		}
	}
	return false
}

func qOrderList(rt *rapid.T, refs []qColRef, must []qColRef) string {
	// a random subset of refs in random order, then every "must" column (the key) not yet present
	var parts []string
	used := map[string]bool{}
	n := rapid.IntRange(0, 2).Draw(rt, "order.n")
	for i := 0; i < n && len(refs) > 0; i++ {
		r := refs[rapid.IntRange(0, len(refs)-1).Draw(rt, "order.col")]
		if used[r.Expr] {
			continue
		}
		used[r.Expr] = true
		parts = append(parts, r.Expr+rapid.SampledFrom([]string{"", "", " DESC"}).Draw(rt, "order.dir"))
	}
	dir := rapid.SampledFrom([]string{"", "", " DESC"}).Draw(rt, "order.keydir")
	for _, r := range must {
		if used[r.Expr] {
			continue
		}
		used[r.Expr] = true
		parts = append(parts, r.Expr+dir)
	}
	return strings.Join(parts, ", ")
}

func qLimit(rt *rapid.T) string {
	s := fmt.Sprintf(" LIMIT %d", rapid.SampledFrom([]int{1, 2, 3, 5, 10, 50}).Draw(rt, "limit"))
	if rapid.Bool().Draw(rt, "hasoffset") {
		s += fmt.Sprintf(" OFFSET %d", rapid.SampledFrom([]int{0, 1, 2, 7}).Draw(rt, "offset"))
	}
	return s
}

func qProjection(rt *rapid.T, refs []qColRef, must []qColRef) ([]qColRef, string) {
	if rapid.IntRange(0, 3).Draw(rt, "proj.star") == 0 {
		var p []string
		for _, r := range refs {
			p = append(p, r.Expr)
		}
		return refs, strings.Join(p, ", ")
	}
	used := map[string]bool{}
	var sel []qColRef
	for _, r := range must {
		used[r.Expr] = true
		sel = append(sel, r)
	}
	n := rapid.IntRange(1, 3).Draw(rt, "proj.n")
	for i := 0; i < n; i++ {
		r := refs[rapid.IntRange(0, len(refs)-1).Draw(rt, "proj.col")]
		if !used[r.Expr] {
			used[r.Expr] = true
			sel = append(sel, r)
		}
	}
	var p []string
	for _, r := range sel {
		p = append(p, r.Expr)
	}
	return sel, strings.Join(p, ", ")
}

func qPKRefs(refs []qColRef) []qColRef {
	var out []qColRef
	for _, r := range refs {
		if r.col().PK {
			out = append(out, r)
		}
	}
	return out
}

func qGenQuery(rt *rapid.T, tables []*qTable) qQuery {
	q := qGenQuery0(rt, tables)
	for _, t := range q.Tables {
		for _, ix := range t.Idx {
			for _, pl := range ix.Prefix {
				if pl > 0 && !q.has("prefix_index_table") {
					q.Shape += " prefix_index_table"
				}
			}
		}
	}
	return q
}

func qGenQuery0(rt *rapid.T, tables []*qTable) qQuery {
	form := rapid.SampledFrom([]string{"filter", "filter", "filter", "order", "order", "count", "countpred", "countin", "countin", "group", "group", "distinct", "join", "join", "join", "join", "join3", "joinin"}).Draw(rt, "form")
	t := tables[rapid.IntRange(0, len(tables)-1).Draw(rt, "table")]
	refs := qRefs(t, "")
	from := fmt.Sprintf("{T:%s}", t.Name)
	where := func(depth int) string { return " WHERE " + qGenPred(rt, refs, depth) }
	switch form {
	case "filter":
		_, proj := qProjection(rt, refs, nil)
		return qQuery{SQL: fmt.Sprintf("SELECT %s FROM %s%s", proj, from, where(rapid.IntRange(0, 3).Draw(rt, "depth"))), Form: form, Tables: []*qTable{t}}
	case "order":
		w := ""
		if rapid.IntRange(0, 3).Draw(rt, "haswhere") > 0 {
			w = where(rapid.IntRange(0, 2).Draw(rt, "depth"))
		}
		if t.NPK == 0 {
			// no key: ORDER BY is a partial order, compared as a multiset, no LIMIT
			_, proj := qProjection(rt, refs, nil)
			return qQuery{SQL: fmt.Sprintf("SELECT %s FROM %s%s ORDER BY %s", proj, from, w, qOrderList(rt, refs, refs[:1])), Form: "orderpartial", Tables: []*qTable{t}}
		}
		pk := qPKRefs(refs)
		_, proj := qProjection(rt, refs, pk)
		q := fmt.Sprintf("SELECT %s FROM %s%s ORDER BY %s", proj, from, w, qOrderList(rt, refs, pk))
		lim := rapid.IntRange(0, 3).Draw(rt, "haslimit") > 0
		if lim {
			q += qLimit(rt)
		}
		return qQuery{SQL: q, Form: form, Ordered: true, Limit: lim, Tables: []*qTable{t}}
	case "count":
		arg := "*"
		shape := ""
		if rapid.IntRange(0, 2).Draw(rt, "countcol") == 0 {
			arg = refs[rapid.IntRange(0, len(refs)-1).Draw(rt, "col")].Expr
			if t.NPK == 0 {
				shape = "keyless_count_column"
			}
		}
		return qQuery{SQL: fmt.Sprintf("SELECT COUNT(%s) FROM %s", arg, from), Form: form, Tables: []*qTable{t}, Shape: shape}
	case "countin":
		// COUNT over a multi-range lookup that mixes present and absent values and leaves no residual
		// filter: the kv count fast path reads all ranges through one chained iterator
		if r, ok := qPickIntIndexed(rt, refs); ok {
			arg := "*"
			if rapid.IntRange(0, 2).Draw(rt, "countcol") == 0 {
				arg = refs[rapid.IntRange(0, len(refs)-1).Draw(rt, "col")].Expr
			}
			shape := ""
			if arg != "*" && t.NPK == 0 {
				shape = "keyless_count_column"
			}
			if arg != "*" {
				shape += " count_column_over_index"
			}
			return qQuery{SQL: fmt.Sprintf("SELECT COUNT(%s) FROM %s WHERE %s", arg, from, qGenMultiRange(rt, r)), Form: "countin", Tables: []*qTable{t}, Shape: shape}
		}
		return qQuery{SQL: fmt.Sprintf("SELECT COUNT(*) FROM %s%s", from, where(1)), Form: "countpred", Tables: []*qTable{t}}
	case "joinin":
		// lookup join driven by a multi-range index scan of the outer table
		ta := t
		tb := tables[rapid.IntRange(0, len(tables)-1).Draw(rt, "join.b")]
		ra, rb := qRefs(ta, "a"), qRefs(tb, "b")
		pairs := qJoinPairs(ra, rb)
		if r, ok := qPickIntIndexed(rt, ra); ok && len(pairs) > 0 {
			p := qPickPair(rt, pairs, "join.on")
			shape := ""
			if ta.NPK == 0 || tb.NPK == 0 {
				shape += " keyless_join"
			}
			if p.l.col().Kind == qkDec {
				shape += " decimal_join_key"
			}
			if p.l.col().Kind.caseInsensitive() || p.r.col().Kind.caseInsensitive() {
				shape += " ci_join_key"
			}
			if (p.l.col().Kind == qkBig && p.r.col().Kind == qkUBig) || (p.l.col().Kind == qkUBig && p.r.col().Kind == qkBig) {
				shape += " mixed_sign_join_key"
			}
			for _, tt := range []*qTable{ta, tb} {
				for _, ix := range tt.Idx {
					for _, pl := range ix.Prefix {
						if pl > 0 && !strings.Contains(shape, "prefix_index_join") {
							shape += " prefix_index_join"
						}
					}
				}
			}
			sel := "COUNT(*)"
			form := "joincount"
			if rapid.Bool().Draw(rt, "joinin.rows") {
				_, sel = qProjection(rt, append(append([]qColRef{}, ra...), rb...), nil)
				form = "join"
			}
			return qQuery{SQL: fmt.Sprintf("SELECT /*+ JOIN_ORDER(a,b) LOOKUP_JOIN(a,b) */ %s FROM {T:%s} a INNER JOIN {T:%s} b ON %s = %s WHERE %s",
				sel, ta.Name, tb.Name, p.l.Expr, p.r.Expr, qGenMultiRange(rt, r)), Form: form, Tables: []*qTable{ta, tb}, Shape: shape}
		}
		_, proj := qProjection(rt, refs, nil)
		return qQuery{SQL: fmt.Sprintf("SELECT %s FROM %s%s", proj, from, where(2)), Form: "filter", Tables: []*qTable{t}}
	case "countpred":
		return qQuery{SQL: fmt.Sprintf("SELECT COUNT(*) FROM %s%s", from, where(rapid.IntRange(0, 2).Draw(rt, "depth"))), Form: form, Tables: []*qTable{t}}
	case "group":
		ng := rapid.IntRange(1, 2).Draw(rt, "ngroup")
		var groups, sel []string
		used := map[string]bool{}
		hasStrGroup := false
		for i := 0; i < ng; i++ {
			r := refs[rapid.IntRange(0, len(refs)-1).Draw(rt, "groupcol")]
			if used[r.Expr] {
				continue
			}
			if k := r.col().Kind; k.isString() || k == qkVarbin {
				if hasStrGroup {
					// grammar exclusion: go-mysql-server's grouping key concatenates the group values, so
					// ('', ' ') and (' ', '') fall into one group in both engines
					qExcludedLits["two_string_group_columns"]++
					continue
				}
				hasStrGroup = true
			}
			used[r.Expr] = true
			groups = append(groups, r.Expr)
			if !r.col().Kind.caseInsensitive() {
				sel = append(sel, r.Expr)
			}
		}
		if len(groups) == 0 {
			groups = append(groups, refs[0].Expr)
			if !refs[0].col().Kind.caseInsensitive() {
				sel = append(sel, refs[0].Expr)
			}
		}
		sel = append(sel, "COUNT(*)")
		na := rapid.IntRange(0, 3).Draw(rt, "naggs")
		for i := 0; i < na; i++ {
			r := refs[rapid.IntRange(0, len(refs)-1).Draw(rt, "aggcol")]
			c := r.col()
			var fns []string
			fns = append(fns, "COUNT(%s)", "COUNT(DISTINCT %s)")
			if c.SumSafe || (c.PK && c.Kind.numeric() && c.Kind != qkBig) {
				fns = append(fns, "SUM(%s)", "SUM(%s)")
			}
			if !c.Kind.caseInsensitive() && c.Kind != qkEnum {
				fns = append(fns, "MIN(%s)", "MAX(%s)")
			}
			sel = append(sel, fmt.Sprintf(rapid.SampledFrom(fns).Draw(rt, "aggfn"), r.Expr))
		}
		w := ""
		if rapid.IntRange(0, 2).Draw(rt, "haswhere") == 0 {
			w = where(rapid.IntRange(0, 2).Draw(rt, "depth"))
		}
		return qQuery{SQL: fmt.Sprintf("SELECT %s FROM %s%s GROUP BY %s", strings.Join(sel, ", "), from, w, strings.Join(groups, ", ")), Form: form, Tables: []*qTable{t}}
	case "distinct":
		n := rapid.IntRange(1, 2).Draw(rt, "ndistinct")
		var sel []string
		used := map[string]bool{}
		ci := false
		for i := 0; i < n; i++ {
			r := refs[rapid.IntRange(0, len(refs)-1).Draw(rt, "distinctcol")]
			if used[r.Expr] {
				continue
			}
			used[r.Expr] = true
			sel = append(sel, r.Expr)
			ci = ci || r.col().Kind.caseInsensitive()
		}
		w := ""
		if rapid.IntRange(0, 2).Draw(rt, "haswhere") == 0 {
			w = where(rapid.IntRange(0, 2).Draw(rt, "depth"))
		}
		q := fmt.Sprintf("SELECT DISTINCT %s FROM %s%s", strings.Join(sel, ", "), from, w)
		if ci {
			// which of several collation-equal strings represents a group is not determined
			return qQuery{SQL: "SELECT COUNT(*) FROM (" + q + ") dq", Form: "distinctcount", Tables: []*qTable{t}}
		}
		if rapid.IntRange(0, 2).Draw(rt, "distinct.order") == 0 {
			dir := rapid.SampledFrom([]string{"", " DESC"}).Draw(rt, "dir")
			var ob []string
			for _, s := range sel {
				ob = append(ob, s+dir)
			}
			return qQuery{SQL: q + " ORDER BY " + strings.Join(ob, ", ") + qLimit(rt), Form: "distinctorder", Ordered: true, Limit: true, Tables: []*qTable{t}}
		}
		return qQuery{SQL: q, Form: form, Tables: []*qTable{t}}
	case "join", "join3":
		if q, ok := qGenJoin(rt, tables, form == "join3"); ok {
			return q
		}
		_, proj := qProjection(rt, refs, nil)
		return qQuery{SQL: fmt.Sprintf("SELECT %s FROM %s%s", proj, from, where(2)), Form: "filter", Tables: []*qTable{t}}
	}
	panic("form")
}

// qPickIntIndexed picks an integer column that leads an index (or the primary key).
func qPickIntIndexed(rt *rapid.T, refs []qColRef) (qColRef, bool) {
	var cands []qColRef
	for _, r := range refs {
		if r.col().Kind.joinClass() == "int" && r.T.indexedFirst(r.CI) {
			cands = append(cands, r)
		}
	}
	if len(cands) == 0 {
		return qColRef{}, false
	}
	return cands[rapid.IntRange(0, len(cands)-1).Draw(rt, "intidx.col")], true
}

// qGenMultiRange builds a predicate on integer column r that becomes three or more disjoint index
// ranges, some of which match no row: values the column holds mixed with neighbours it does not.
func qGenMultiRange(rt *rapid.T, r qColRef) string {
	present := map[string]bool{}
	var vals []string
	for _, row := range r.T.allRows() {
		v := row[r.CI]
		if v != "NULL" && !present[v] {
			present[v] = true
			vals = append(vals, v)
		}
	}
	sort.Strings(vals)
	draw := func(label string) string {
		if len(vals) > 0 && rapid.IntRange(0, 9).Draw(rt, label+".present") < 6 {
			return vals[rapid.IntRange(0, len(vals)-1).Draw(rt, label)]
		}
		// an absent neighbour of a present value, or a fresh value
		if len(vals) > 0 {
			v := vals[rapid.IntRange(0, len(vals)-1).Draw(rt, label+".near")]
			var n int64
			if _, err := fmt.Sscan(v, &n); err == nil && len(v) < 12 {
				for _, d := range []int64{1, -1, 2, -2} {
					c := fmt.Sprint(n + d)
					if !present[c] && !(n+d < 0 && (r.col().Kind == qkUInt || r.col().Kind == qkUBig)) {
						return c
					}
				}
			}
		}
		return qGenLit(rt, r.col().Kind, r.col().PK, label+".fresh")
	}
	n := rapid.IntRange(3, 7).Draw(rt, "multirange.n")
	if rapid.IntRange(0, 3).Draw(rt, "multirange.form") > 0 {
		var ls []string
		for i := 0; i < n; i++ {
			ls = append(ls, draw("multirange.v"))
		}
		return fmt.Sprintf("%s IN (%s)", r.Expr, strings.Join(ls, ","))
	}
	var parts []string
	for i := 0; i < n; i++ {
		if rapid.IntRange(0, 2).Draw(rt, "multirange.between") == 0 {
			parts = append(parts, fmt.Sprintf("%s BETWEEN %s AND %s", r.Expr, draw("multirange.lo"), draw("multirange.hi")))
		} else {
			parts = append(parts, fmt.Sprintf("%s = %s", r.Expr, draw("multirange.v")))
		}
	}
	return "(" + strings.Join(parts, " OR ") + ")"
}

type qJoinPair struct{ l, r qColRef }

func qJoinPairs(l, r []qColRef) []qJoinPair {
	var out []qJoinPair
	for _, a := range l {
		for _, b := range r {
			if a.Expr == b.Expr {
				continue
			}
			ca, cb := a.col().Kind.joinClass(), b.col().Kind.joinClass()
			if ca != "" && ca == cb {
				out = append(out, qJoinPair{a, b})
			}
		}
	}
	return out
}

func qPickPair(rt *rapid.T, pairs []qJoinPair, label string) qJoinPair {
	// favour pairs whose right side leads an index (lookup / merge join candidates)
	var good []qJoinPair
	for _, p := range pairs {
		if p.r.T.indexedFirst(p.r.CI) {
			good = append(good, p)
		}
	}
	if len(good) > 0 && rapid.IntRange(0, 3).Draw(rt, label+".good") > 0 {
		return rapid.SampledFrom(good).Draw(rt, label)
	}
	return rapid.SampledFrom(pairs).Draw(rt, label)
}

func qGenJoin(rt *rapid.T, tables []*qTable, three bool) (qQuery, bool) {
	ta := tables[rapid.IntRange(0, len(tables)-1).Draw(rt, "join.a")]
	tb := tables[rapid.IntRange(0, len(tables)-1).Draw(rt, "join.b")]
	ra, rb := qRefs(ta, "a"), qRefs(tb, "b")
	pairs := qJoinPairs(ra, rb)
	if len(pairs) == 0 {
		return qQuery{}, false
	}
	p := qPickPair(rt, pairs, "join.on")
	on := fmt.Sprintf("%s = %s", p.l.Expr, p.r.Expr)
	shape := ""
	if p.l.col().Kind == qkDec {
		shape += " decimal_join_key"
	}
	if p.l.col().Kind.caseInsensitive() || p.r.col().Kind.caseInsensitive() {
		shape += " ci_join_key"
	}
	mixedSign := func(a, b qKind) bool {
		return (a == qkBig && b == qkUBig) || (a == qkUBig && b == qkBig)
	}
	if mixedSign(p.l.col().Kind, p.r.col().Kind) {
		shape += " mixed_sign_join_key"
	}
	switch rapid.IntRange(0, 5).Draw(rt, "join.extra") {
	case 0:
		p2 := rapid.SampledFrom(pairs).Draw(rt, "join.on2")
		on += fmt.Sprintf(" AND %s %s %s", p2.l.Expr, rapid.SampledFrom([]string{"=", "=", "<", ">=", "<>"}).Draw(rt, "join.op2"), p2.r.Expr)
		if p2.l.col().Kind == qkDec {
			shape += " decimal_join_key"
		}
		if (p2.l.col().Kind.caseInsensitive() || p2.r.col().Kind.caseInsensitive()) && !strings.Contains(shape, "ci_join_key") {
			shape += " ci_join_key"
		}
	case 1:
		on += " AND " + qGenAtom(rt, rb)
		shape += " literal_in_on"
	}
	kind := rapid.SampledFrom([]string{"INNER JOIN", "INNER JOIN", "LEFT JOIN"}).Draw(rt, "join.kind")
	from := fmt.Sprintf("{T:%s} a %s {T:%s} b ON %s", ta.Name, kind, tb.Name, on)
	all := append(append([]qColRef{}, ra...), rb...)
	used := []*qTable{ta, tb}
	aliases := "a,b"
	if three {
		tc := tables[rapid.IntRange(0, len(tables)-1).Draw(rt, "join.c")]
		rc := qRefs(tc, "c")
		pairs3 := append(qJoinPairs(rb, rc), qJoinPairs(ra, rc)...)
		if len(pairs3) > 0 {
			p3 := qPickPair(rt, pairs3, "join.on3")
			kind3 := rapid.SampledFrom([]string{"INNER JOIN", "INNER JOIN", "LEFT JOIN"}).Draw(rt, "join.kind3")
			from += fmt.Sprintf(" %s {T:%s} c ON %s = %s", kind3, tc.Name, p3.l.Expr, p3.r.Expr)
			if p3.l.col().Kind == qkDec {
				shape += " decimal_join_key"
			}
			if (p3.l.col().Kind.caseInsensitive() || p3.r.col().Kind.caseInsensitive()) && !strings.Contains(shape, "ci_join_key") {
				shape += " ci_join_key"
			}
			if mixedSign(p3.l.col().Kind, p3.r.col().Kind) && !strings.Contains(shape, "mixed_sign_join_key") {
				shape += " mixed_sign_join_key"
			}
			all = append(all, rc...)
			used = append(used, tc)
			aliases = "a,b,c"
		}
	}
	hint := ""
	switch rapid.IntRange(0, 9).Draw(rt, "join.hint") {
	case 0, 1:
		hint = "/*+ LOOKUP_JOIN(a,b) */ "
	case 2, 3:
		hint = "/*+ MERGE_JOIN(a,b) */ "
	case 4:
		hint = "/*+ HASH_JOIN(a,b) */ "
	case 5:
		hint = "/*+ JOIN_ORDER(" + aliases + ") LOOKUP_JOIN(a,b) */ "
	case 6:
		hint = "/*+ JOIN_ORDER(" + aliases + ") MERGE_JOIN(a,b) */ "
	}
	w := ""
	if rapid.IntRange(0, 2).Draw(rt, "join.where") == 0 {
		w = " WHERE " + qGenPred(rt, all, rapid.IntRange(0, 2).Draw(rt, "depth"))
	}
	keyed := true
	for _, t := range used {
		if t.NPK == 0 {
			keyed = false
		}
	}
	if !keyed {
		shape += " keyless_join"
	}
	for _, t := range used {
		for _, ix := range t.Idx {
			for _, pl := range ix.Prefix {
				if pl > 0 && !strings.Contains(shape, "prefix_index_join") {
					shape += " prefix_index_join"
				}
			}
		}
	}
	switch rapid.IntRange(0, 5).Draw(rt, "join.shape") {
	case 0:
		return qQuery{SQL: fmt.Sprintf("SELECT %sCOUNT(*) FROM %s%s", hint, from, w), Form: "joincount", Tables: used, Shape: shape}, true
	case 1, 2:
		if keyed {
			pk := qPKRefs(all)
			_, proj := qProjection(rt, all, pk)
			q := fmt.Sprintf("SELECT %s%s FROM %s%s ORDER BY %s", hint, proj, from, w, qOrderList(rt, all, pk))
			lim := rapid.Bool().Draw(rt, "haslimit")
			if lim {
				q += qLimit(rt)
			}
			return qQuery{SQL: q, Form: "joinorder", Ordered: true, Limit: lim, Tables: used, Shape: shape}, true
		}
	}
	_, proj := qProjection(rt, all, nil)
	return qQuery{SQL: fmt.Sprintf("SELECT %s%s FROM %s%s", hint, proj, from, w), Form: "join", Tables: used, Shape: shape}, true
}
