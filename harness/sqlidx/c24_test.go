package sqlidx

// C24 — committed data always satisfies declared constraints.
//
// Schema: parent p(id PK, v) and child c(id PK, pid → p.id with ON DELETE RESTRICT / CASCADE /
// SET NULL, u [,u2] UNIQUE (nullable), x NOT NULL, y, CHECK over x and y).
// Part "txn": 2-3 sessions with autocommit off are driven one statement at a time in an order
// drawn by rapid; after every COMMIT attempt the committed state (read by a fresh autocommit
// reader) is evaluated by an independent constraint evaluator; a refused COMMIT must leave the
// committed state unchanged.
// Part "merge": two branches are edited separately and merged (dolt_merge or cherry-pick) with
// @@dolt_force_transaction_commit; every violating row must be listed in
// dolt_constraint_violations_<t> with the right type, every listed row must really violate.

import (
	"fmt"
	"regexp"
	"sort"
	"strconv"
	"strings"
	"testing"

	"pgregory.net/rapid"

	"github.com/dolthub/dolt/go/zzverif/vh"
	"github.com/dolthub/dolt/go/zzverif/vsql"
)

const c24Rule = "schema p(id PK, v), c(id PK, pid FK->p.id ON DELETE {RESTRICT,CASCADE,SET NULL}, u, u2, x NOT NULL, y, UNIQUE(u) or UNIQUE(u,u2), CHECK in {x<y, x<=y, x+y<=6, x<>y}); base of 2-4 parents and 1-5 children, all values from domains of 4-7 values. [txn] 2-3 sessions (autocommit off); an adversarial prelude in 3 of 4 cases (same unique value inserted/updated under different PKs; parent deleted while a child is inserted; x and y of one row updated separately so the CHECK fails only in combination) followed by 4-14 drawn steps of {INSERT/UPDATE/DELETE on p or c, COMMIT, ROLLBACK, dolt_commit} interleaved over the sessions; after every COMMIT attempt: committed tables satisfy PK/UNIQUE/NOT NULL/CHECK/FK under the harness' evaluator (or the row is listed as a violation), and a refused COMMIT changed nothing; every dolt commit made is checked the same way AS OF its hash. [merge] the same edits applied on two branches; in 4 of 5 cases one branch first changes the constraints of c (DROP + ADD CONSTRAINT ck1 with another expression of the 10-expression grammar, ADD CONSTRAINT ck2, ADD UNIQUE KEY on (y) or (x,u2), MODIFY … NOT NULL) while the other branch inserts/updates rows that are legal under the base definition and illegal under the new one; then dolt_merge / dolt_cherry_pick in either direction with force-commit, evaluated against the constraint set the merge result's SHOW CREATE TABLE names (expression semantics from the harness' grammar): unlisted rows satisfy all constraints, every listed (row, type) is a real violation, a plain dolt_commit is refused while violations exist and --force keeps them listed in the commit. Non-trivial: [txn] a COMMIT was refused for constraint violations although every statement had succeeded in its own session; [merge] the merge produced at least one constraint violation while both branch heads were clean; distinct by statement list."

type c24Schema struct {
	fkAction string // RESTRICT, CASCADE, SET NULL
	uniq2    bool   // UNIQUE(u,u2) instead of UNIQUE(u)
	check    int    // 0: x<y 1: x<=y 2: x+y<=6 3: x<>y
}

// CHECK grammar. The first four are the shapes of the base schema; the rest are used when a
// branch redefines ck1 or adds ck2.
var c24Checks = []string{"x < y", "x <= y", "x + y <= 6", "x <> y", "x <= 3", "y <= 4", "x + y <= 4", "x < 3", "y > 1", "x + 1 < y"}

// c24EvalExpr evaluates expression i with SQL semantics: the row passes unless the expression is FALSE.
func c24EvalExpr(i int, x, y string) bool {
	xv, xerr := strconv.Atoi(x)
	yv, yerr := strconv.Atoi(y)
	usesX, usesY := true, true
	switch i {
	case 4, 7:
		usesY = false
	case 5, 8:
		usesX = false
	}
	if (usesX && (x == vsql.Null || xerr != nil)) || (usesY && (y == vsql.Null || yerr != nil)) {
		return true
	}
	switch i {
	case 0:
		return xv < yv
	case 1:
		return xv <= yv
	case 2:
		return xv+yv <= 6
	case 3:
		return xv != yv
	case 4:
		return xv <= 3
	case 5:
		return yv <= 4
	case 6:
		return xv+yv <= 4
	case 7:
		return xv < 3
	case 8:
		return yv > 1
	default:
		return xv+1 < yv
	}
}

// c24Printed maps the text dolt prints for a CHECK expression in SHOW CREATE TABLE to the index
// of the harness' own expression (filled once per test function by c24Calibrate).
var c24Printed = map[string]int{}

var c24ReCheck = regexp.MustCompile("^CONSTRAINT `([^`]+)` CHECK (.*)$")
var c24ReUniq = regexp.MustCompile("^UNIQUE KEY `([^`]+)` \\((.*)\\)$")

func c24Calibrate(t *testing.T, srv *vsql.Server, admin *vsql.Session) {
	db := srv.NewDBName()
	admin.MustExec(t, "CREATE DATABASE "+db)
	defer admin.Exec("DROP DATABASE " + db)
	s := srv.Session(t, "cal", db)
	defer s.Close()
	for i, e := range c24Checks {
		s.MustExec(t, fmt.Sprintf("CREATE TABLE k%d (x INT, y INT, CONSTRAINT ck CHECK (%s))", i, e))
		r := s.MustQuery(t, fmt.Sprintf("SHOW CREATE TABLE k%d", i))
		found := false
		for _, ln := range strings.Split(r.Data[0][1], "\n") {
			ln = strings.TrimSuffix(strings.TrimSpace(ln), ",")
			if m := c24ReCheck.FindStringSubmatch(ln); m != nil {
				c24Printed[m[2]] = i
				found = true
			}
		}
		if !found {
			t.Fatalf("harness: no CHECK line in %s", r.Data[0][1])
		}
	}
	if len(c24Printed) != len(c24Checks) {
		t.Fatalf("harness: printed CHECK expressions are not distinct: %v", c24Printed)
	}
}

// c24Live is the constraint set of table c in one root, read back from SHOW CREATE TABLE
// (names and structure from dolt, expression semantics from the harness' own grammar).
type c24Live struct {
	checks  map[string]int   // name -> index in c24Checks
	uniques map[string][]int // name -> column positions in (id,pid,u,u2,x,y)
	notNull [6]bool
	hasFK   bool
	raw     string
}

var c24Cols = []string{"id", "pid", "u", "u2", "x", "y"}

func (c *c24State) live(s *vsql.Session, asOf string) *c24Live {
	q := "SHOW CREATE TABLE c"
	if asOf != "" {
		q += " AS OF '" + asOf + "'"
	}
	r, err := s.Query(q)
	if err != nil || len(r.Data) == 0 {
		c.failf("cannot read the schema of c (%s): %v", asOf, err)
	}
	lv := &c24Live{checks: map[string]int{}, uniques: map[string][]int{}, raw: r.Data[0][1]}
	pos := map[string]int{}
	for i, n := range c24Cols {
		pos[n] = i
	}
	for _, ln := range strings.Split(lv.raw, "\n")[1:] {
		ln = strings.TrimSuffix(strings.TrimSpace(ln), ",")
		switch {
		case strings.HasPrefix(ln, "`"):
			name := ln[1 : 1+strings.Index(ln[1:], "`")]
			if i, ok := pos[name]; ok && strings.Contains(ln, "NOT NULL") {
				lv.notNull[i] = true
			}
		case strings.Contains(ln, "FOREIGN KEY"):
			lv.hasFK = true
		default:
			if m := c24ReCheck.FindStringSubmatch(ln); m != nil {
				i, ok := c24Printed[m[2]]
				if !ok {
					c.failf("harness: unknown CHECK expression %q in %s", m[2], lv.raw)
				}
				lv.checks[m[1]] = i
			} else if m := c24ReUniq.FindStringSubmatch(ln); m != nil {
				var cols []int
				for _, cm := range sxReIdxCol.FindAllStringSubmatch(m[2], -1) {
					cols = append(cols, pos[cm[1]])
				}
				lv.uniques[m[1]] = cols
			}
		}
	}
	return lv
}

func (lv *c24Live) uniqNames() []string {
	var ns []string
	for n := range lv.uniques {
		ns = append(ns, n)
	}
	sort.Strings(ns)
	return ns
}

// uniqKeyOf returns the row's key in unique index name ("" when it contains NULL).
func (lv *c24Live) uniqKeyOf(name string, r []string) string {
	if r == nil {
		return ""
	}
	var p []string
	for _, i := range lv.uniques[name] {
		if r[i] == vsql.Null {
			return ""
		}
		p = append(p, r[i])
	}
	return name + ":" + strings.Join(p, "/")
}

func (s c24Schema) ddl() []string {
	uq := "UNIQUE KEY uu (u)"
	if s.uniq2 {
		uq = "UNIQUE KEY uu (u, u2)"
	}
	return []string{
		"CREATE TABLE p (id INT PRIMARY KEY, v INT)",
		fmt.Sprintf("CREATE TABLE c (id INT PRIMARY KEY, pid INT, u INT, u2 INT, x INT NOT NULL DEFAULT 0, y INT, %s, CONSTRAINT fk1 FOREIGN KEY (pid) REFERENCES p (id) ON DELETE %s, CONSTRAINT ck1 CHECK (%s))", uq, s.fkAction, c24Checks[s.check]),
	}
}

// checkOK evaluates the CHECK with SQL semantics: the row passes unless the expression is FALSE.
func (s c24Schema) checkOK(x, y string) bool { return c24EvalExpr(s.check, x, y) }

// c24Snapshot is the content of both tables in one root.
type c24Snapshot struct {
	P [][]string // id, v
	C [][]string // id, pid, u, u2, x, y
}

func (s *c24Snapshot) key() string {
	var b strings.Builder
	for _, r := range sxSortRows(s.P) {
		b.WriteString("p:" + strings.Join(r, ",") + ";")
	}
	for _, r := range sxSortRows(s.C) {
		b.WriteString("c:" + strings.Join(r, ",") + ";")
	}
	return strings.ReplaceAll(b.String(), vsql.Null, "NULL")
}

type c24Violation struct {
	table string
	id    string
	typ   string // "unique index", "foreign key", "check constraint", "not null", "primary key"
}

// evaluate is the independent constraint evaluator over plain table contents, for the
// constraint set lv of the root the contents were read from.
func (lv *c24Live) evaluate(sn *c24Snapshot) []c24Violation {
	var out []c24Violation
	parents := map[string]bool{}
	seen := map[string]bool{}
	for _, r := range sn.P {
		if seen[r[0]] || r[0] == vsql.Null {
			out = append(out, c24Violation{"p", r[0], "primary key"})
		}
		seen[r[0]] = true
		parents[r[0]] = true
	}
	seen = map[string]bool{}
	groups := map[string][]string{}
	var cnames []string
	for n := range lv.checks {
		cnames = append(cnames, n)
	}
	sort.Strings(cnames)
	for _, r := range sn.C {
		id, pid, x, y := r[0], r[1], r[4], r[5]
		if seen[id] || id == vsql.Null {
			out = append(out, c24Violation{"c", id, "primary key"})
		}
		seen[id] = true
		for i, nn := range lv.notNull {
			if nn && r[i] == vsql.Null {
				out = append(out, c24Violation{"c", id, "not null"})
				break
			}
		}
		for _, n := range cnames {
			if !c24EvalExpr(lv.checks[n], x, y) {
				out = append(out, c24Violation{"c", id, "check constraint"})
				break
			}
		}
		if lv.hasFK && pid != vsql.Null && !parents[pid] {
			out = append(out, c24Violation{"c", id, "foreign key"})
		}
		for _, n := range lv.uniqNames() {
			if k := lv.uniqKeyOf(n, r); k != "" {
				groups[k] = append(groups[k], id)
			}
		}
	}
	var gk []string
	for k := range groups {
		gk = append(gk, k)
	}
	sort.Strings(gk)
	dup := map[string]bool{}
	for _, k := range gk {
		if len(groups[k]) > 1 {
			for _, id := range groups[k] {
				if !dup[id] {
					dup[id] = true
					out = append(out, c24Violation{"c", id, "unique index"})
				}
			}
		}
	}
	return out
}

// a merge lists false unique-index violations when the merged-in branch moved a row away from
// a unique value and gave that value to another row
const c24FindingFalseUniq = "C24-merge-false-unique-violation-reused-key"

// dolt_conflicts_resolve keeps/takes the rows of conflicting keys without validating them against
// the CHECK constraints of the merged schema (only foreign keys are re-validated)
const c24FindingResolveCheck = "C24-conflicts-resolve-no-check-validation"

type c24State struct {
	// ids of child rows that were data conflicts resolved by dolt_conflicts_resolve; while finding
	// C24-conflicts-resolve-no-check-validation is open their unlisted CHECK violations are skipped
	resolvedIDs          map[string]bool
	tolerateResolveCheck bool

	// set in the merge part while finding C24-merge-false-unique-violation-reused-key is open:
	// the heads of the branch merged into (ours) and of the merged-in branch (theirs)
	tolerateFalseUniq bool
	ours, theirs      *c24Snapshot
	excluded          int
	curLive           *c24Live

	rt     *rapid.T
	srv    *vsql.Server
	db     string
	sch    c24Schema
	reader *vsql.Session // autocommit on: every statement sees the latest committed working set
	ops    []string
}

func (c *c24State) failf(format string, args ...any) {
	c.rt.Fatalf("%s\nschema: %s\nschedule:\n  %s", fmt.Sprintf(format, args...), strings.Join(c.sch.ddl(), "; "), strings.Join(c.ops, "\n  "))
}

func (c *c24State) note(sess, q string, err error) {
	if err != nil {
		msg := err.Error()
		if len(msg) > 90 {
			msg = msg[:90] + "…"
		}
		c.ops = append(c.ops, fmt.Sprintf("[%s] %s -- ERR %d %s", sess, q, vsql.ErrCode(err), strings.ReplaceAll(msg, "\n", " ")))
	} else {
		c.ops = append(c.ops, fmt.Sprintf("[%s] %s", sess, q))
	}
}

func (c *c24State) run(s *vsql.Session, q string) error {
	err := s.Exec(q)
	c.note(s.Name, q, err)
	return err
}

func (c *c24State) snapshot(s *vsql.Session, asOf string) *c24Snapshot {
	suffix := ""
	if asOf != "" {
		suffix = " AS OF '" + asOf + "'"
	}
	p, err := s.Query("SELECT id, v FROM p" + suffix)
	if err != nil {
		c.failf("cannot read p%s: %v", suffix, err)
	}
	ch, err := s.Query("SELECT id, pid, u, u2, x, y FROM c" + suffix)
	if err != nil {
		c.failf("cannot read c%s: %v", suffix, err)
	}
	return &c24Snapshot{P: p.Data, C: ch.Data}
}

// listed reads dolt_constraint_violations_<t> of a root: table/id/type triples plus the row
// values dolt shows for them.
func (c *c24State) listed(s *vsql.Session, asOf string) (map[c24Violation][]string, int) {
	suffix := ""
	if asOf != "" {
		suffix = " AS OF '" + asOf + "'"
	}
	out := map[c24Violation][]string{}
	n := 0
	for _, t := range []struct{ name, cols string }{{"p", "id, v"}, {"c", "id, pid, u, u2, x, y"}} {
		r, err := s.Query(fmt.Sprintf("SELECT violation_type, %s FROM dolt_constraint_violations_%s%s", t.cols, t.name, suffix))
		if err != nil {
			c.failf("cannot read dolt_constraint_violations_%s%s: %v", t.name, suffix, err)
		}
		for _, row := range r.Data {
			out[c24Violation{t.name, row[1], row[0]}] = row[1:]
			n++
		}
	}
	return out, n
}

// checkRoot applies the oracle to one root: unlisted rows satisfy everything (for a unique
// group at most one member may be unlisted), listed rows are real.
func (c *c24State) checkRoot(s *vsql.Session, asOf, what string, allowListed bool) (nViol int) {
	sn := c.snapshot(s, asOf)
	lv := c.live(s, asOf)
	c.curLive = lv
	real := lv.evaluate(sn)
	listed, nl := c.listed(s, asOf)
	if nl > 0 && !allowListed {
		c.failf("%s: dolt_constraint_violations lists %d rows although nothing was force-committed", what, nl)
	}
	realSet := map[c24Violation]bool{}
	for _, v := range real {
		realSet[v] = true
	}
	// Rows that a merge could not store because of a NOT NULL column live in the violations
	// table only; a violation dolt lists for another row against such a row (e.g. a shared
	// unique value) counts as real: it becomes visible as soon as the user repairs the row.
	phantom := &c24Snapshot{P: sn.P, C: append([][]string(nil), sn.C...)}
	for v, row := range listed {
		if v.table == "c" && v.typ == "not null" && c24RowByID(sn, v.id) == nil {
			phantom.C = append(phantom.C, row)
		}
	}
	if len(phantom.C) > len(sn.C) {
		for _, v := range lv.evaluate(phantom) {
			realSet[v] = true
		}
	}
	// completeness
	uniqUnlisted := map[string][]string{}
	for _, v := range real {
		if _, ok := listed[v]; ok {
			continue
		}
		if v.typ == "unique index" {
			// find the row's unique key to allow one unlisted member per group
			for _, r := range sn.C {
				if r[0] == v.id {
					for _, n := range lv.uniqNames() {
						if k := lv.uniqKeyOf(n, r); k != "" {
							uniqUnlisted[k] = append(uniqUnlisted[k], v.id)
						}
					}
				}
			}
			continue
		}
		if v.table == "c" && v.typ == "check constraint" && c.tolerateResolveCheck && c.resolvedIDs[v.id] {
			c.excluded++
			continue
		}
		c.failf("%s: row %s.id=%s violates its %s constraint but is not listed in dolt_constraint_violations_%s\n  p: %s\n  c: %s\n  listed: %s\n  schema of c in this root: %s", what, v.table, v.id, v.typ, v.table, sxShowRows(sxSortRows(sn.P)), sxShowRows(sxSortRows(sn.C)), c24ShowListed(listed), lv.raw)
	}
	var uk []string
	for k := range uniqUnlisted {
		uk = append(uk, k)
	}
	sort.Strings(uk)
	for _, k := range uk {
		if len(uniqUnlisted[k]) > 1 {
			c.failf("%s: rows c.id in %v share the unique key %s and none of them is listed as a unique index violation\n  c: %s\n  listed: %s", what, uniqUnlisted[k], k, sxShowRows(sxSortRows(sn.C)), c24ShowListed(listed))
		}
	}
	// soundness of the listing: the listed row exists with the listed values and really violates
	var lk []c24Violation
	for v := range listed {
		lk = append(lk, v)
	}
	sort.Slice(lk, func(i, j int) bool { return fmt.Sprint(lk[i]) < fmt.Sprint(lk[j]) })
	for _, v := range lk {
		if v.table == "c" && v.typ == "not null" {
			// dolt cannot store NULL in a NOT NULL column: the offending row is kept in the
			// violations table only (recorded, not silently dropped). It is real if the listed
			// values have a NULL in a column the root declares NOT NULL.
			isReal := false
			for i, nn := range lv.notNull {
				if nn && listed[v][i] == vsql.Null {
					isReal = true
				}
			}
			if !isReal {
				c.failf("%s: dolt_constraint_violations_c lists row %s as a not null violation, but none of its NOT NULL columns is NULL\n  schema: %s", what, sxShowRow(listed[v]), lv.raw)
			}
			if c24RowByID(sn, v.id) != nil {
				c.failf("%s: row c.id=%s is listed as a not null violation and is also present in the table: %s", what, v.id, sxShowRows(sxSortRows(sn.C)))
			}
			continue
		}
		rows := phantom.C
		if v.table == "p" {
			rows = sn.P
		}
		found := false
		for _, r := range rows {
			if strings.Join(r, "\x1f") == strings.Join(listed[v], "\x1f") {
				found = true
			}
		}
		if !found {
			c.failf("%s: dolt_constraint_violations_%s lists row %s (%s) which is not in the table\n  table: %s", what, v.table, sxShowRow(listed[v]), v.typ, sxShowRows(sxSortRows(rows)))
		}
		if !realSet[v] && c.knownFalseUniq(v, listed[v]) {
			continue
		}
		if !realSet[v] {
			c.failf("%s: dolt_constraint_violations_%s lists row %s as a %s violation, but the row satisfies that constraint\n  p: %s\n  c: %s", what, v.table, sxShowRow(listed[v]), v.typ, sxShowRows(sxSortRows(sn.P)), sxShowRows(sxSortRows(sn.C)))
		}
	}
	return len(real)
}

func c24RowByID(sn *c24Snapshot, id string) []string {
	for _, r := range sn.C {
		if r[0] == id {
			return r
		}
	}
	return nil
}

// knownFalseUniq recognises the shape of finding C24-merge-false-unique-violation-reused-key
// for a falsely listed unique violation of child row `row`: the merged-in branch (theirs)
// moved some row M away from unique key k (M has k in ours, another key in theirs) and another
// row T holds k in theirs; dolt lists M and T. The listed row must be such an M or T.
func (c *c24State) knownFalseUniq(v c24Violation, row []string) bool {
	if !c.tolerateFalseUniq || v.table != "c" || v.typ != "unique index" || c.ours == nil || c.theirs == nil || c.curLive == nil {
		return false
	}
	lv := c.curLive
	id := row[0]
	for _, n := range lv.uniqNames() {
		movers := map[string]string{} // id -> key it left
		for _, o := range c.ours.C {
			k := lv.uniqKeyOf(n, o)
			t := c24RowByID(c.theirs, o[0])
			if k != "" && t != nil && lv.uniqKeyOf(n, t) != k {
				movers[o[0]] = k
			}
		}
		// the listed row is a mover whose old key was taken by another row of theirs
		if k, ok := movers[id]; ok {
			for _, t := range c.theirs.C {
				if t[0] != id && lv.uniqKeyOf(n, t) == k {
					c.excluded++
					return true
				}
			}
		}
		// the listed row took the key a mover left
		for mid, k := range movers {
			if mid != id && lv.uniqKeyOf(n, row) == k {
				c.excluded++
				return true
			}
		}
	}
	return false
}

func c24ShowListed(m map[c24Violation][]string) string {
	var p []string
	for v := range m {
		p = append(p, fmt.Sprintf("%s.id=%s:%s", v.table, v.id, v.typ))
	}
	sort.Strings(p)
	return "[" + strings.Join(p, " ") + "]"
}

// ---------------------------------------------------------------------------------------
// statement generators (no model: statements may fail inside their session)

func c24Null(rt *rapid.T, label string, n int, lo, hi int) string {
	if rapid.IntRange(0, n).Draw(rt, label+".null") == 0 {
		return "NULL"
	}
	return strconv.Itoa(rapid.IntRange(lo, hi).Draw(rt, label))
}

func (c *c24State) genStmt(label string) string {
	rt := c.rt
	switch rapid.SampledFrom([]string{"insC", "insC", "insC", "updC", "updC", "updC", "delP", "delP", "delC", "insP", "updP"}).Draw(rt, label+".kind") {
	case "insC":
		return fmt.Sprintf("INSERT INTO c (id, pid, u, u2, x, y) VALUES (%d, %s, %s, %d, %d, %s)",
			rapid.IntRange(0, 9).Draw(rt, label+".id"), c24Null(rt, label+".pid", 3, 0, 3), c24Null(rt, label+".u", 4, 0, 3),
			rapid.IntRange(0, 1).Draw(rt, label+".u2"), rapid.IntRange(0, 4).Draw(rt, label+".x"), c24Null(rt, label+".y", 5, 1, 6))
	case "updC":
		id := rapid.IntRange(0, 9).Draw(rt, label+".id")
		switch rapid.IntRange(0, 4).Draw(rt, label+".col") {
		case 0:
			return fmt.Sprintf("UPDATE c SET x = %d WHERE id = %d", rapid.IntRange(0, 5).Draw(rt, label+".x"), id)
		case 1:
			return fmt.Sprintf("UPDATE c SET y = %s WHERE id = %d", c24Null(rt, label+".y", 5, 0, 6), id)
		case 2:
			return fmt.Sprintf("UPDATE c SET u = %s WHERE id = %d", c24Null(rt, label+".u", 4, 0, 3), id)
		case 3:
			return fmt.Sprintf("UPDATE c SET pid = %s WHERE id = %d", c24Null(rt, label+".pid", 3, 0, 3), id)
		default:
			return fmt.Sprintf("UPDATE c SET u2 = %d WHERE id = %d", rapid.IntRange(0, 1).Draw(rt, label+".u2"), id)
		}
	case "delP":
		return fmt.Sprintf("DELETE FROM p WHERE id = %d", rapid.IntRange(0, 3).Draw(rt, label+".id"))
	case "delC":
		return fmt.Sprintf("DELETE FROM c WHERE id = %d", rapid.IntRange(0, 9).Draw(rt, label+".id"))
	case "insP":
		return fmt.Sprintf("INSERT INTO p VALUES (%d, %d)", rapid.IntRange(0, 3).Draw(rt, label+".id"), rapid.IntRange(0, 9).Draw(rt, label+".v"))
	default:
		return fmt.Sprintf("UPDATE p SET v = %d WHERE id = %d", rapid.IntRange(0, 9).Draw(rt, label+".v"), rapid.IntRange(0, 3).Draw(rt, label+".id"))
	}
}

// prelude returns two statements, each legal alone on the given base, whose combination
// violates a constraint (name "" when none is applicable).
func (c *c24State) prelude(base *c24Snapshot, label string) (name, a, b string) {
	rt := c.rt
	usedIDs := map[string]bool{}
	usedU := map[string]bool{}
	hasChild := map[string]bool{}
	for _, r := range base.C {
		usedIDs[r[0]] = true
		usedU[r[2]] = true
		hasChild[r[1]] = true
	}
	var freeIDs []int
	for i := 0; i <= 9; i++ {
		if !usedIDs[strconv.Itoa(i)] {
			freeIDs = append(freeIDs, i)
		}
	}
	var freeU []int
	for i := 0; i <= 3; i++ {
		if !usedU[strconv.Itoa(i)] {
			freeU = append(freeU, i)
		}
	}
	okY := func() int { // y that keeps the CHECK true for x = 0
		switch c.sch.check {
		case 2:
			return 3
		default:
			return 5
		}
	}
	kind := rapid.SampledFrom([]string{"dupins", "dupins", "orphan", "orphan", "split", "dupupd"}).Draw(rt, label+".kind")
	switch kind {
	case "dupins":
		if len(freeIDs) < 2 || len(freeU) < 1 {
			return
		}
		u := rapid.SampledFrom(freeU).Draw(rt, label+".u")
		i := rapid.IntRange(0, len(freeIDs)-2).Draw(rt, label+".i")
		return kind,
			fmt.Sprintf("INSERT INTO c (id, pid, u, u2, x, y) VALUES (%d, NULL, %d, 0, 0, %d)", freeIDs[i], u, okY()),
			fmt.Sprintf("INSERT INTO c (id, pid, u, u2, x, y) VALUES (%d, NULL, %d, 0, 0, %d)", freeIDs[i+1], u, okY())
	case "orphan":
		var cand []string
		for _, r := range base.P {
			if !hasChild[r[0]] {
				cand = append(cand, r[0])
			}
		}
		sort.Strings(cand)
		if len(cand) == 0 || len(freeIDs) == 0 {
			return
		}
		par := rapid.SampledFrom(cand).Draw(rt, label+".par")
		return kind,
			"DELETE FROM p WHERE id = " + par,
			fmt.Sprintf("INSERT INTO c (id, pid, u, u2, x, y) VALUES (%d, %s, NULL, 0, 0, %d)", freeIDs[0], par, okY())
	case "split":
		// a row whose x and y can be moved separately so that only the combination breaks the CHECK
		rows := sxSortRows(base.C)
		for _, r := range rows {
			if r[5] == vsql.Null {
				continue
			}
			x, _ := strconv.Atoi(r[4])
			y, _ := strconv.Atoi(r[5])
			for nx := 0; nx <= 5; nx++ {
				for ny := 0; ny <= 6; ny++ {
					sx, sy := strconv.Itoa(nx), strconv.Itoa(ny)
					if nx != x && ny != y && c.sch.checkOK(sx, r[5]) && c.sch.checkOK(r[4], sy) && !c.sch.checkOK(sx, sy) {
						return kind, fmt.Sprintf("UPDATE c SET x = %d WHERE id = %s", nx, r[0]), fmt.Sprintf("UPDATE c SET y = %d WHERE id = %s", ny, r[0])
					}
				}
			}
			_ = y
		}
		return
	case "dupupd":
		rows := sxSortRows(base.C)
		if len(rows) < 2 || len(freeU) < 1 {
			return
		}
		u := rapid.SampledFrom(freeU).Draw(rt, label+".u")
		i := rapid.IntRange(0, len(rows)-2).Draw(rt, label+".i")
		set := fmt.Sprintf("u = %d", u)
		if c.sch.uniq2 {
			set += ", u2 = 0"
		}
		return kind, fmt.Sprintf("UPDATE c SET %s WHERE id = %s", set, rows[i][0]), fmt.Sprintf("UPDATE c SET %s WHERE id = %s", set, rows[i+1][0])
	}
	return
}

func (c *c24State) setup(label string) *vsql.Session {
	rt := c.rt
	c.sch = c24Schema{
		fkAction: rapid.SampledFrom([]string{"RESTRICT", "CASCADE", "SET NULL"}).Draw(rt, label+".fk"),
		uniq2:    rapid.IntRange(0, 2).Draw(rt, label+".uniq2") == 0,
		check:    rapid.IntRange(0, 3).Draw(rt, label+".check"),
	}
	init := c.srv.Session(rt, "init", c.db)
	for _, q := range c.sch.ddl() {
		if err := c.run(init, q); err != nil {
			c.failf("harness: %v", err)
		}
	}
	np := rapid.IntRange(2, 4).Draw(rt, label+".np")
	for i := 0; i < np; i++ {
		_ = c.run(init, fmt.Sprintf("INSERT INTO p VALUES (%d, %d)", i, i))
	}
	nc := rapid.IntRange(1, 5).Draw(rt, label+".nc")
	for i := 0; i < nc; i++ {
		_ = c.run(init, c.genStmt(fmt.Sprintf("%s.c%d", label, i)))
	}
	if err := c.run(init, "CALL dolt_commit('-Am', 'base')"); err != nil {
		c.failf("harness: %v", err)
	}
	return init
}

func isConstraintRefusal(err error) bool {
	return err != nil && strings.Contains(err.Error(), "constraint violations")
}

// ---------------------------------------------------------------------------------------
// part txn

func c24CaseTxn(rt *rapid.T, srv *vsql.Server, admin *vsql.Session, rec *vh.Recorder) {
	db := srv.NewDBName()
	admin.MustExec(rt, "CREATE DATABASE "+db)
	defer admin.Exec("DROP DATABASE " + db)
	c := &c24State{rt: rt, srv: srv, db: db}
	init := c.setup("s")
	init.Close()
	c.reader = srv.Session(rt, "reader", db)
	defer c.reader.Close()
	if n := c.checkRoot(c.reader, "", "base", false); n != 0 {
		c.failf("harness: base state violates constraints")
	}
	ns := rapid.IntRange(2, 3).Draw(rt, "sessions")
	var ss []*vsql.Session
	dirty := make([]bool, ns) // wrote since its last COMMIT/ROLLBACK
	for i := 0; i < ns; i++ {
		s := srv.Session(rt, fmt.Sprintf("s%d", i+1), db)
		defer s.Close()
		s.MustExec(rt, "SET autocommit = 0")
		// pin the transaction's snapshot now so the sessions genuinely overlap
		s.MustExec(rt, "START TRANSACTION")
		ss = append(ss, s)
	}
	refused, overlapCommit, dcommits := 0, 0, 0
	var commitsToCheck []string

	commit := func(i int, what string) {
		before := c.snapshot(c.reader, "")
		err := c.run(ss[i], "COMMIT")
		after := c.snapshot(c.reader, "")
		if err != nil {
			if isConstraintRefusal(err) {
				refused++
			}
			if before.key() != after.key() {
				c.failf("%s: COMMIT of %s failed (%v) but the committed state changed\n  before: %s\n  after:  %s", what, ss[i].Name, err, before.key(), after.key())
			}
		} else if dirty[i] {
			for j := range dirty {
				if j != i && dirty[j] {
					overlapCommit++
				}
			}
		}
		dirty[i] = false
		c.checkRoot(c.reader, "", what+": committed working set after COMMIT of "+ss[i].Name, false)
	}

	base := c.snapshot(c.reader, "")
	if rapid.IntRange(0, 3).Draw(rt, "prelude") != 0 {
		name, a, b := c.prelude(base, "pre")
		if name != "" {
			ea := c.run(ss[0], a)
			eb := c.run(ss[1], b)
			if ea == nil {
				dirty[0] = true
			}
			if eb == nil {
				dirty[1] = true
			}
			order := rapid.Permutation([]int{0, 1}).Draw(rt, "pre.order")
			for _, i := range order {
				commit(i, "prelude "+name)
			}
		}
	}
	n := rapid.IntRange(4, 14).Draw(rt, "steps")
	for k := 0; k < n; k++ {
		lb := fmt.Sprintf("t%d", k)
		i := rapid.IntRange(0, ns-1).Draw(rt, lb+".sess")
		switch a := rapid.IntRange(0, 19).Draw(rt, lb+".act"); {
		case a < 13:
			if err := c.run(ss[i], c.genStmt(lb)); err == nil {
				dirty[i] = true
			}
		case a < 17:
			commit(i, fmt.Sprintf("step %d", k))
		case a < 18:
			_ = c.run(ss[i], "ROLLBACK")
			dirty[i] = false
		default:
			// a dolt commit from this session (commits the session's transaction too)
			before := c.snapshot(c.reader, "")
			err := c.run(ss[i], fmt.Sprintf("CALL dolt_commit('-Am', 'dc%d')", k))
			after := c.snapshot(c.reader, "")
			if err != nil {
				if isConstraintRefusal(err) {
					refused++
				}
				if before.key() != after.key() && !strings.Contains(err.Error(), "nothing to commit") {
					c.failf("dolt_commit of %s failed (%v) but the committed state changed\n  before: %s\n  after:  %s", ss[i].Name, err, before.key(), after.key())
				}
			} else {
				dcommits++
				if h, ok := c.reader.Scalar(rt, "SELECT hashof('HEAD')"); ok {
					commitsToCheck = append(commitsToCheck, h)
				}
			}
			dirty[i] = false
			c.checkRoot(c.reader, "", fmt.Sprintf("step %d: committed working set after dolt_commit of %s", k, ss[i].Name), false)
		}
	}
	for _, i := range rapid.Permutation([]int{0, 1, 2}[:ns]).Draw(rt, "final.order") {
		commit(i, "final")
	}
	// a final dolt commit of whatever is in the working set, then every commit made
	if err := c.run(c.reader, "CALL dolt_commit('-Am', 'final')"); err == nil {
		if h, ok := c.reader.Scalar(rt, "SELECT hashof('HEAD')"); ok {
			commitsToCheck = append(commitsToCheck, h)
		}
	}
	for _, h := range commitsToCheck {
		c.checkRoot(c.reader, h, "dolt commit "+h, false)
	}
	cl := []string{fmt.Sprintf("sessions=%d", ns), "fk=" + c.sch.fkAction, "check=" + c24Checks[c.sch.check]}
	if c.sch.uniq2 {
		cl = append(cl, "unique_multi_column")
	}
	if refused > 0 {
		cl = append(cl, "commit_refused_for_constraints")
	}
	if overlapCommit > 0 {
		cl = append(cl, "overlapping_writers_committed")
	}
	if dcommits > 0 {
		cl = append(cl, "dolt_commit_in_schedule")
	}
	rec.Case(strings.Join(c.ops, " ; "), refused > 0, cl...)
}

// ---------------------------------------------------------------------------------------
// part merge

func c24CaseMerge(rt *rapid.T, srv *vsql.Server, admin *vsql.Session, rec *vh.Recorder, falseUniqOpen, resolveCheckOpen bool) {
	db := srv.NewDBName()
	admin.MustExec(rt, "CREATE DATABASE "+db)
	defer admin.Exec("DROP DATABASE " + db)
	c := &c24State{rt: rt, srv: srv, db: db}
	s := c.setup("s")
	defer s.Close()
	c.reader = s
	base := c.snapshot(s, "")
	_ = c.run(s, "CALL dolt_branch('br')")
	name, a, b := "", "", ""
	if rapid.IntRange(0, 4).Draw(rt, "prelude") != 0 {
		name, a, b = c.prelude(base, "pre")
	}
	// constraint DDL on one side only: the other side keeps writing rows that are legal under
	// the definitions it knows
	ddlSide := rapid.SampledFrom([]string{"", "main", "br", "main", "br"}).Draw(rt, "ddl.side")
	ddlKind := ""
	var ddl, counter []string // DDL of the ddl side; statements for the other side aimed at the new constraint
	if ddlSide != "" {
		ddlKind = rapid.SampledFrom([]string{"redefine_check", "redefine_check", "redefine_check", "add_check", "add_check", "add_unique", "not_null"}).Draw(rt, "ddl.kind")
		freeID := func(k int) int { // ids the base does not use, from the top
			used := map[string]bool{}
			for _, r := range base.C {
				used[r[0]] = true
			}
			for i := 9; i >= 0; i-- {
				if !used[strconv.Itoa(i)] {
					if k == 0 {
						return i
					}
					k--
				}
			}
			return 9
		}
		switch ddlKind {
		case "redefine_check", "add_check":
			ne := rapid.IntRange(0, len(c24Checks)-1).Draw(rt, "ddl.expr")
			if ddlKind == "redefine_check" {
				if ne == c.sch.check {
					ne = (ne + 1) % len(c24Checks)
				}
				ddl = []string{"ALTER TABLE c DROP CONSTRAINT ck1", fmt.Sprintf("ALTER TABLE c ADD CONSTRAINT ck1 CHECK (%s)", c24Checks[ne])}
			} else {
				ddl = []string{fmt.Sprintf("ALTER TABLE c ADD CONSTRAINT ck2 CHECK (%s)", c24Checks[ne])}
			}
			// rows legal under the base definition and illegal under the new one: an insert and an update
			var cand [][2]int
			for x := 0; x <= 4; x++ {
				for y := 1; y <= 6; y++ {
					if c.sch.checkOK(strconv.Itoa(x), strconv.Itoa(y)) && !c24EvalExpr(ne, strconv.Itoa(x), strconv.Itoa(y)) {
						cand = append(cand, [2]int{x, y})
					}
				}
			}
			if len(cand) > 0 {
				xy := cand[rapid.IntRange(0, len(cand)-1).Draw(rt, "ddl.xy")]
				counter = append(counter, fmt.Sprintf("INSERT INTO c (id, pid, u, u2, x, y) VALUES (%d, NULL, NULL, 0, %d, %d)", freeID(0), xy[0], xy[1]))
				if len(base.C) > 0 && rapid.IntRange(0, 1).Draw(rt, "ddl.upd") == 0 {
					r := sxSortRows(base.C)[0]
					counter = append(counter, fmt.Sprintf("UPDATE c SET x = %d, y = %d WHERE id = %s", xy[0], xy[1], r[0]))
				}
			}
		case "add_unique":
			col := rapid.SampledFrom([]string{"y", "x, u2"}).Draw(rt, "ddl.ucols")
			ddl = []string{fmt.Sprintf("ALTER TABLE c ADD UNIQUE KEY uy (%s)", col)}
			if len(base.C) > 0 {
				r := sxSortRows(base.C)[0]
				counter = append(counter, fmt.Sprintf("INSERT INTO c (id, pid, u, u2, x, y) VALUES (%d, NULL, NULL, %s, %s, %s)", freeID(0), strings.ReplaceAll(r[3], vsql.Null, "NULL"), r[4], strings.ReplaceAll(r[5], vsql.Null, "NULL")))
			}
		case "not_null":
			col := rapid.SampledFrom([]string{"y", "u", "pid"}).Draw(rt, "ddl.nncol")
			ddl = []string{fmt.Sprintf("ALTER TABLE c MODIFY COLUMN %s INT NOT NULL", col)}
			vals := map[string]string{"pid": "0", "u": "3", "y": "6"}
			vals[col] = "NULL"
			counter = append(counter, fmt.Sprintf("INSERT INTO c (id, pid, u, u2, x, y) VALUES (%d, %s, %s, 1, 0, %s)", freeID(0), vals["pid"], vals["u"], vals["y"]))
		}
	}
	ddlApplied := false
	edit := func(label, first string) {
		if label == ddlSide {
			ok := true
			for _, q := range ddl {
				if err := c.run(s, q); err != nil {
					ok = false
				}
			}
			ddlApplied = ok
		} else if ddlSide != "" {
			for _, q := range counter {
				_ = c.run(s, q)
			}
		}
		if first != "" {
			_ = c.run(s, first)
		}
		for k := 0; k < rapid.IntRange(0, 4).Draw(rt, label+".n"); k++ {
			_ = c.run(s, c.genStmt(fmt.Sprintf("%s.%d", label, k)))
		}
		_ = c.run(s, "CALL dolt_commit('-Am', '"+label+"')")
		if n := c.checkRoot(s, "HEAD", "branch head after "+label, false); n != 0 {
			c.failf("harness: single-session edits produced a violating commit")
		}
	}
	edit("main", a)
	mainHead := c.snapshot(s, "HEAD")
	_ = c.run(s, "CALL dolt_checkout('br')")
	edit("br", b)
	brHead := c.snapshot(s, "HEAD")
	// merge direction and kind
	onto, from := "main", "br"
	if rapid.IntRange(0, 1).Draw(rt, "direction") == 1 {
		onto, from = "br", "main"
	}
	c.ours, c.theirs = mainHead, brHead
	if onto == "br" {
		c.ours, c.theirs = brHead, mainHead
	}
	c.tolerateFalseUniq = falseUniqOpen
	_ = c.run(s, "CALL dolt_checkout('"+onto+"')")
	s.MustExec(rt, "SET @@dolt_force_transaction_commit = 1")
	kind := rapid.SampledFrom([]string{"merge", "merge", "merge", "cherry_pick"}).Draw(rt, "kind")
	var err error
	if kind == "merge" {
		err = c.run(s, "CALL dolt_merge('"+from+"')")
	} else {
		err = c.run(s, "CALL dolt_cherry_pick('"+from+"')")
	}
	cl := []string{"fk=" + c.sch.fkAction, "check=" + c24Checks[c.sch.check], "kind=" + kind}
	if name != "" {
		cl = append(cl, "prelude="+name)
	}
	if c.sch.uniq2 {
		cl = append(cl, "unique_multi_column")
	}
	if ddlSide != "" {
		side := "theirs"
		if ddlSide == onto {
			side = "ours"
		}
		if ddlApplied {
			cl = append(cl, "ddl="+ddlKind, "ddl_on_"+side)
		} else {
			cl = append(cl, "ddl_refused_on_branch")
		}
	}
	if err != nil {
		// refused merge (e.g. nothing to cherry-pick): nothing may have changed
		c.checkRoot(s, "", "after refused "+kind, false)
		rec.Case(strings.Join(c.ops, " ; "), false, append(cl, "merge_refused")...)
		return
	}
	if sc, err := s.Query("SELECT COUNT(*) FROM dolt_schema_conflicts"); err == nil && len(sc.Data) > 0 && sc.Data[0][0] != "0" {
		// a schema conflict leaves the decision to the user: nothing to evaluate yet
		rec.Case(strings.Join(c.ops, " ; "), false, append(cl, "schema_conflict")...)
		return
	}
	if n, _ := s.Scalar(rt, "SELECT COALESCE(SUM(num_conflicts),0) FROM dolt_conflicts"); n != "0" {
		// data conflicts: the rows of the conflicting keys are still being decided by the user;
		// constraints are evaluated once they are resolved
		c.resolvedIDs = map[string]bool{}
		if cr, err := s.Query("SELECT COALESCE(our_id, their_id, base_id) FROM dolt_conflicts_c"); err == nil {
			for _, r := range cr.Data {
				c.resolvedIDs[r[0]] = true
			}
		}
		c.tolerateResolveCheck = resolveCheckOpen
		_ = c.run(s, "CALL dolt_conflicts_resolve('--ours', 'p')")
		_ = c.run(s, "CALL dolt_conflicts_resolve('--ours', 'c')")
		cl = append(cl, "data_conflicts_resolved_ours")
		if n2, _ := s.Scalar(rt, "SELECT COALESCE(SUM(num_conflicts),0) FROM dolt_conflicts"); n2 != "0" {
			rec.Case(strings.Join(c.ops, " ; "), false, append(cl, "data_conflicts_left")...)
			return
		}
		// resolving with ours re-validates nothing by itself: only listed-or-satisfied is required below
	}
	nviol := c.checkRoot(s, "", "working set after "+kind, true)
	_, nlisted := c.listed(s, "")
	if nlisted > 0 {
		cl = append(cl, "violations_listed")
		// a plain commit must be refused while violations exist
		err := c.run(s, "CALL dolt_commit('-Am', 'plain')")
		if err == nil {
			c.failf("dolt_commit without --force succeeded although %d constraint violations are listed", nlisted)
		}
		if err2 := c.run(s, "CALL dolt_commit('--force', '-Am', 'forced')"); err2 == nil {
			c.checkRoot(s, "HEAD", "forced commit", true)
			if _, n2 := c.listed(s, "HEAD"); n2 != nlisted {
				c.failf("the forced commit lists %d violations, the working set listed %d", n2, nlisted)
			}
		}
	} else {
		cl = append(cl, "clean")
		_ = c.run(s, "CALL dolt_commit('-Am', 'after merge')")
		c.checkRoot(s, "HEAD", "HEAD after "+kind, false)
	}
	if c.excluded > 0 {
		rec.Excluded(c.excluded)
		cl = append(cl, "excluded_known_shape")
	}
	rec.Case(strings.Join(c.ops, " ; "), nviol > 0, cl...)
}

// c24PinnedResolveCheck is the reproduction of finding C24-conflicts-resolve-no-check-validation.
func c24PinnedResolveCheck(t *testing.T, srv *vsql.Server, admin *vsql.Session) string {
	db := srv.NewDBName()
	admin.MustExec(t, "CREATE DATABASE "+db)
	defer admin.Exec("DROP DATABASE " + db)
	s := srv.Session(t, "pin", db)
	defer s.Close()
	for _, q := range []string{
		"CREATE TABLE c (id INT PRIMARY KEY, x INT, CONSTRAINT ck1 CHECK (x < 10))",
		"INSERT INTO c VALUES (1,1)",
		"CALL dolt_commit('-Am','base')",
		"CALL dolt_branch('br')",
		"ALTER TABLE c DROP CONSTRAINT ck1",
		"ALTER TABLE c ADD CONSTRAINT ck1 CHECK (x < 3)",
		"UPDATE c SET x = 2 WHERE id = 1",
		"CALL dolt_commit('-Am','main')",
		"CALL dolt_checkout('br')",
		"UPDATE c SET x = 5 WHERE id = 1",
		"CALL dolt_commit('-Am','br')",
		"SET @@dolt_allow_commit_conflicts = 1",
		"CALL dolt_merge('main')",
		"CALL dolt_conflicts_resolve('--ours', 'c')",
	} {
		s.MustExec(t, q)
	}
	x, _ := s.Scalar(t, "SELECT x FROM c WHERE id = 1")
	nv, _ := s.Scalar(t, "SELECT COALESCE(SUM(num_violations),0) FROM dolt_constraint_violations")
	cerr := s.Exec("CALL dolt_commit('-Am','merged')")
	if x == "5" && nv == "0" && cerr == nil {
		return "main redefines ck1 as CHECK (x < 3), br sets x = 5 in the same row; merge main into br, dolt_conflicts_resolve('--ours','c'): the row keeps x = 5 under CHECK (x < 3), no violation is recorded and the merge commit is accepted"
	}
	return ""
}

// c24PinnedFalseUniq is the reproduction of finding C24-merge-false-unique-violation-reused-key.
func c24PinnedFalseUniq(t *testing.T, srv *vsql.Server, admin *vsql.Session) string {
	db := srv.NewDBName()
	admin.MustExec(t, "CREATE DATABASE "+db)
	defer admin.Exec("DROP DATABASE " + db)
	s := srv.Session(t, "pin", db)
	defer s.Close()
	for _, q := range []string{
		"CREATE TABLE c (id INT PRIMARY KEY, u INT, z INT, UNIQUE KEY uu (u))",
		"INSERT INTO c VALUES (0,2,0),(5,1,0)",
		"CALL dolt_commit('-Am','base')",
		"CALL dolt_branch('br')",
		"UPDATE c SET u = 7 WHERE id = 0",
		"INSERT INTO c VALUES (6,2,0)",
		"CALL dolt_commit('-Am','main')",
		"CALL dolt_checkout('br')",
		"UPDATE c SET z = 1 WHERE id = 5",
		"CALL dolt_commit('-Am','br')",
		"SET @@dolt_force_transaction_commit = 1",
		"CALL dolt_merge('main')",
	} {
		s.MustExec(t, q)
	}
	rows := s.MustQuery(t, "SELECT id, u FROM c ORDER BY id")
	viol := s.MustQuery(t, "SELECT violation_type, id, u FROM dolt_constraint_violations_c ORDER BY id")
	if len(viol.Data) > 0 {
		return fmt.Sprintf("main moves row 0 from u=2 to u=7 and inserts row 6 with u=2, br changes another column; merge main into br: rows (id,u) %s have distinct u, yet dolt_constraint_violations_c lists %s", vsql.Show(rows.Ordered()), vsql.Show(viol.Ordered()))
	}
	return ""
}

func TestVerif_C24(t *testing.T) {
	assume := []string{
		"sessions never disable foreign_key_checks / unique checks; @@dolt_force_transaction_commit is set only in the merge part, where violations must then be listed",
		"statements may fail inside their own session (they are the engine's statement-level enforcement); only committed states are evaluated",
		"for a group of rows sharing a unique key at most one member may be unlisted (dolt lists all of them)",
		"merges that end with unresolved data conflicts are not evaluated (rows still undecided); conflicts are resolved with --ours first",
		"CHECK passes when its expression is TRUE or NULL; UNIQUE ignores keys containing NULL",
		"a row a merge would have to store with NULL in a NOT NULL column is expected in dolt_constraint_violations_<t> only (dolt does not keep it in the table); every other listed row must be present in the table with the listed values; violations listed for other rows against such a row (shared unique value) count as real",
		"the constraint set of a root is read from its SHOW CREATE TABLE (names, columns, NOT NULL flags, presence of the FK); a CHECK expression is mapped to the harness' own expression through the text dolt prints for it (calibrated at start); merges that leave a schema conflict are not evaluated",
		"while finding "+c24FindingResolveCheck+" is listed open, an unlisted CHECK violation of a row that was a data conflict resolved by dolt_conflicts_resolve is skipped (counted excluded_known)",
		"while finding "+c24FindingFalseUniq+" is listed open, a falsely listed unique-index violation is skipped (counted excluded_known) when it is the row that the merged-in branch moved away from a unique value or the row that took that value",
	}
	recT := vh.NewRecorder("C24", "txn", "exploration", c24Rule, assume...)
	defer recT.Write(t)
	recM := vh.NewRecorder("C24", "merge", "exploration", c24Rule, assume...)
	defer recM.Write(t)
	srv, stop := sxStart(t, "c24")
	defer stop()
	admin := srv.Session(t, "admin", "")
	c24Calibrate(t, srv, admin)
	vh.Check(t, "txn", 160, 500, func(rt *rapid.T) { c24CaseTxn(rt, srv, admin, recT) })
	openFU := vh.OpenFinding("C24", c24FindingFalseUniq)
	t.Run("pinned_false_unique_violation", func(t *testing.T) {
		if msg := c24PinnedFalseUniq(t, srv, admin); msg != "" {
			if openFU {
				vh.ReportKnown("C24", c24FindingFalseUniq, msg)
				return
			}
			vh.NoteViolation(t.Name(), "", `{"sql":"see c24PinnedFalseUniq","observed":"`+strings.ReplaceAll(msg, `"`, `'`)+`"}`)
			t.Errorf("%s", msg)
		}
	})
	openRC := vh.OpenFinding("C24", c24FindingResolveCheck)
	t.Run("pinned_conflicts_resolve_check", func(t *testing.T) {
		if msg := c24PinnedResolveCheck(t, srv, admin); msg != "" {
			if openRC {
				vh.ReportKnown("C24", c24FindingResolveCheck, msg)
				return
			}
			vh.NoteViolation(t.Name(), "", `{"sql":"see c24PinnedResolveCheck","observed":"`+strings.ReplaceAll(msg, `"`, `'`)+`"}`)
			t.Errorf("%s", msg)
		}
	})
	vh.Check(t, "merge", 160, 500, func(rt *rapid.T) { c24CaseMerge(rt, srv, admin, recM, openFU, openRC) })
}
