package sqlidx

import (
	"os"
	"strings"
	"testing"

	"github.com/dolthub/dolt/go/zzverif/vh"
	"github.com/dolthub/dolt/go/zzverif/vsql"
)

// TestDev_Script is a development aid (never selected by the registry): it runs the
// statements of $VERIF_SQL_FILE (one per line; lines starting with "--" are comments, a
// leading "@name " selects/creates a session) in a fresh database and prints every result.
func TestDev_Script(t *testing.T) {
	fn := os.Getenv("VERIF_SQL_FILE")
	if fn == "" {
		t.Skip("no VERIF_SQL_FILE")
	}
	b, err := os.ReadFile(fn)
	if err != nil {
		t.Fatal(err)
	}
	dir, cleanup := vh.ScratchDir(t, "dev")
	defer cleanup()
	srv, err := vsql.StartServer(dir)
	if err != nil {
		vh.Inconclusive(t, "start: %v", err)
	}
	defer srv.Stop()
	admin := srv.Session(t, "admin", "")
	admin.MustExec(t, "CREATE DATABASE d1")
	sess := map[string]*vsql.Session{}
	get := func(n string) *vsql.Session {
		if s, ok := sess[n]; ok {
			return s
		}
		s := srv.Session(t, n, "d1")
		sess[n] = s
		return s
	}
	for _, line := range strings.Split(string(b), "\n") {
		line = strings.TrimSpace(line)
		if line == "" || strings.HasPrefix(line, "--") {
			continue
		}
		name := "a"
		if strings.HasPrefix(line, "@") {
			sp := strings.IndexByte(line, ' ')
			name, line = line[1:sp], strings.TrimSpace(line[sp+1:])
		}
		r, err := get(name).Query(line)
		if err != nil {
			t.Logf("[%s] %s\n    ERROR %d: %v", name, line, vsql.ErrCode(err), err)
			continue
		}
		var sb strings.Builder
		for _, row := range r.Data {
			sb.WriteString("\n    " + strings.ReplaceAll(strings.Join(row, " | "), vsql.Null, "NULL"))
		}
		t.Logf("[%s] %s\n    cols=%v%s", name, line, r.Cols, sb.String())
	}
}
