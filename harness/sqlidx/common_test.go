package sqlidx

// Shared helpers of the sqlidx suite (C25, C27, C24): schema parsing from SHOW CREATE TABLE,
// SQL literals, the collation fold of the generated alphabet, the in-process reader of
// secondary index maps, and a development script runner.

import (
	"context"
	"fmt"
	"io"
	"os"
	"regexp"
	"sort"
	"strconv"
	"strings"
	"testing"
	"unicode/utf8"

	"github.com/dolthub/dolt/go/libraries/doltcore/doltdb"
	"github.com/dolthub/dolt/go/libraries/doltcore/doltdb/durable"
	"github.com/dolthub/dolt/go/libraries/doltcore/ref"
	"github.com/dolthub/dolt/go/libraries/doltcore/schema"
	"github.com/dolthub/dolt/go/libraries/doltcore/sqle/dsess"
	"github.com/dolthub/dolt/go/store/hash"
	"github.com/dolthub/dolt/go/store/val"
	"github.com/dolthub/go-mysql-server/sql"
	"github.com/dolthub/dolt/go/store/prolly/tree"
	"github.com/dolthub/dolt/go/zzverif/vh"
	"github.com/dolthub/dolt/go/zzverif/vsql"
)

// ---------------------------------------------------------------------------------------
// schema as dolt reports it

type sxCol struct {
	Name    string
	Type    string // lower-case type text, e.g. "varchar(16)"
	IsInt   bool
	IsText  bool // text/blob family (index needs a prefix length)
	MaxLen  int  // varchar(n)/varbinary(n): n, else 0
	Coll    string
	NotNull bool
}

type sxIdxCol struct {
	Name   string
	Prefix int
}

type sxIndex struct {
	Name   string
	Unique bool
	Cols   []sxIdxCol
}

type sxSchema struct {
	Raw     string
	Cols    []sxCol
	PK      []string
	Indexes []sxIndex
}

func (s *sxSchema) col(name string) *sxCol {
	for i := range s.Cols {
		if s.Cols[i].Name == name {
			return &s.Cols[i]
		}
	}
	return nil
}

func (s *sxSchema) colIdx(name string) int {
	for i := range s.Cols {
		if s.Cols[i].Name == name {
			return i
		}
	}
	return -1
}

func (s *sxSchema) isPK(name string) bool {
	for _, p := range s.PK {
		if p == name {
			return true
		}
	}
	return false
}

func (s *sxSchema) colNames() []string {
	out := make([]string, len(s.Cols))
	for i, c := range s.Cols {
		out[i] = c.Name
	}
	return out
}

func (s *sxSchema) indexed(name string) bool {
	for _, ix := range s.Indexes {
		for _, c := range ix.Cols {
			if c.Name == name {
				return true
			}
		}
	}
	return false
}

var sxReColl = regexp.MustCompile(`COLLATE[ =]([A-Za-z0-9_]+)`)
var sxReLen = regexp.MustCompile(`^(?:varchar|char|varbinary|binary)\((\d+)\)`)
var sxReIdxCol = regexp.MustCompile("`([^`]+)`(?:\\((\\d+)\\))?")

// sxParseCreate parses the text of SHOW CREATE TABLE (the grammar dolt prints: one column,
// key or constraint per line).
func sxParseCreate(create string) (*sxSchema, error) {
	s := &sxSchema{Raw: create}
	lines := strings.Split(create, "\n")
	def := "utf8mb4_0900_bin"
	if m := sxReColl.FindStringSubmatch(lines[len(lines)-1]); m != nil {
		def = m[1]
	}
	for _, ln := range lines[1:] {
		ln = strings.TrimSuffix(strings.TrimSpace(ln), ",")
		switch {
		case strings.HasPrefix(ln, "`"):
			end := strings.Index(ln[1:], "`")
			if end < 0 {
				return nil, fmt.Errorf("bad column line %q", ln)
			}
			name := ln[1 : 1+end]
			rest := strings.TrimSpace(ln[2+end:])
			typ := rest
			if sp := strings.IndexByte(rest, ' '); sp >= 0 {
				typ = rest[:sp]
			}
			c := sxCol{Name: name, Type: strings.ToLower(typ), NotNull: strings.Contains(rest, "NOT NULL")}
			lt := c.Type
			switch {
			case strings.HasPrefix(lt, "int"), strings.HasPrefix(lt, "bigint"), strings.HasPrefix(lt, "tinyint"), strings.HasPrefix(lt, "smallint"), strings.HasPrefix(lt, "mediumint"):
				c.IsInt = true
			case strings.Contains(lt, "text"), strings.Contains(lt, "blob"):
				c.IsText = true
			}
			if m := sxReLen.FindStringSubmatch(lt); m != nil {
				c.MaxLen, _ = strconv.Atoi(m[1])
			}
			c.Coll = def
			if m := sxReColl.FindStringSubmatch(rest); m != nil {
				c.Coll = m[1]
			}
			if strings.Contains(lt, "binary") || strings.Contains(lt, "blob") {
				c.Coll = "binary"
			}
			s.Cols = append(s.Cols, c)
		case strings.HasPrefix(ln, "PRIMARY KEY"):
			for _, m := range sxReIdxCol.FindAllStringSubmatch(ln, -1) {
				s.PK = append(s.PK, m[1])
			}
		case strings.HasPrefix(ln, "KEY "), strings.HasPrefix(ln, "UNIQUE KEY "):
			ix := sxIndex{Unique: strings.HasPrefix(ln, "UNIQUE")}
			ms := sxReIdxCol.FindAllStringSubmatch(ln, -1)
			if len(ms) < 2 {
				return nil, fmt.Errorf("bad key line %q", ln)
			}
			ix.Name = ms[0][1]
			for _, m := range ms[1:] {
				ic := sxIdxCol{Name: m[1]}
				if m[2] != "" {
					ic.Prefix, _ = strconv.Atoi(m[2])
				}
				ix.Cols = append(ix.Cols, ic)
			}
			s.Indexes = append(s.Indexes, ix)
		}
	}
	if len(s.Cols) == 0 {
		return nil, fmt.Errorf("no columns parsed from %q", create)
	}
	return s, nil
}

// sxLit renders a wire value as an SQL literal for a column of the given kind.
func sxLit(v string, isInt bool) string {
	if v == vsql.Null {
		return "NULL"
	}
	if isInt {
		return v
	}
	return "'" + strings.ReplaceAll(strings.ReplaceAll(v, `\`, `\\`), "'", "''") + "'"
}

// sxFold maps a string to its equality class under the collations the suite generates, for
// the generated alphabet only (ASCII letters/digits, á, É, CJK): *_bin and binary compare
// bytes; utf8mb4_0900_ai_ci, utf8mb4_general_ci and utf8mb4_unicode_ci ignore case and the
// two generated accents. Generated values never end in a space (PAD SPACE is not exercised).
func sxFold(coll, v string) string {
	if v == vsql.Null {
		return v
	}
	if coll == "binary" || strings.HasSuffix(coll, "_bin") {
		return v
	}
	r := strings.NewReplacer("á", "a", "Á", "a", "é", "e", "É", "e")
	return strings.ToLower(r.Replace(v))
}

// sxTrimBytes is the index prefix rule dolt uses (val.TrimValueToPrefixLength: bytes).
func sxTrimBytes(v string, n int) string {
	if v == vsql.Null || n <= 0 || len(v) <= n {
		return v
	}
	return v[:n]
}

// sxTrimChars is the MySQL prefix rule (characters).
func sxTrimChars(v string, n int) string {
	if v == vsql.Null || n <= 0 {
		return v
	}
	i := 0
	for k := 0; k < n && i < len(v); k++ {
		_, sz := utf8.DecodeRuneInString(v[i:])
		i += sz
	}
	return v[:i]
}

func sxShort(v string) string {
	v = strings.ReplaceAll(v, vsql.Null, "NULL")
	if len(v) > 24 {
		return fmt.Sprintf("%s…(%d)", v[:12], len(v))
	}
	return v
}

func sxShowRow(r []string) string {
	p := make([]string, len(r))
	for i, v := range r {
		p[i] = sxShort(v)
	}
	return "(" + strings.Join(p, ",") + ")"
}

func sxShowRows(rows [][]string) string {
	var p []string
	for i, r := range rows {
		if i >= 30 {
			p = append(p, fmt.Sprintf("…(%d rows)", len(rows)))
			break
		}
		p = append(p, sxShowRow(r))
	}
	return strings.Join(p, " ")
}

func sxSortRows(rows [][]string) [][]string {
	out := append([][]string(nil), rows...)
	sort.Slice(out, func(i, j int) bool { return strings.Join(out[i], "\x1f") < strings.Join(out[j], "\x1f") })
	return out
}

func sxRowsEqual(a, b [][]string) bool {
	if len(a) != len(b) {
		return false
	}
	for i := range a {
		if strings.Join(a[i], "\x1f") != strings.Join(b[i], "\x1f") {
			return false
		}
	}
	return true
}

// ---------------------------------------------------------------------------------------
// in-process access to the stored secondary index maps

type sxInProc struct {
	srv *vsql.Server
}

// sxRootSpec names a root: Kind "working"/"staged" of Branch, or "commit" Hash.
type sxRootSpec struct {
	Kind   string
	Branch string
	Hash   string
}

func (r sxRootSpec) String() string {
	if r.Kind == "commit" {
		return "commit:" + r.Hash
	}
	return r.Kind + ":" + r.Branch
}

func (p *sxInProc) root(db string, spec sxRootSpec) (doltdb.RootValue, context.Context, error) {
	if p.srv.Engine == nil {
		return nil, nil, fmt.Errorf("no engine handle")
	}
	sqlCtx, err := p.srv.Engine.NewLocalContext(context.Background())
	if err != nil {
		return nil, nil, err
	}
	sess := dsess.DSessFromSess(sqlCtx.Session)
	sdb, ok := sess.Provider().BaseDatabase(sqlCtx, db)
	if !ok {
		return nil, nil, fmt.Errorf("database %s not found in provider", db)
	}
	ddb := sdb.DbData().Ddb
	switch spec.Kind {
	case "working", "staged":
		wsRef, err := ref.WorkingSetRefForHead(ref.NewBranchRef(spec.Branch))
		if err != nil {
			return nil, nil, err
		}
		ws, err := ddb.ResolveWorkingSet(sqlCtx, wsRef)
		if err != nil {
			return nil, nil, err
		}
		if spec.Kind == "working" {
			return ws.WorkingRoot(), sqlCtx, nil
		}
		return ws.StagedRoot(), sqlCtx, nil
	case "commit":
		h, ok := hash.MaybeParse(spec.Hash)
		if !ok {
			return nil, nil, fmt.Errorf("bad hash %q", spec.Hash)
		}
		oc, err := ddb.ReadCommit(sqlCtx, h)
		if err != nil {
			return nil, nil, err
		}
		cm, ok := oc.ToCommit()
		if !ok {
			return nil, nil, fmt.Errorf("ghost commit %s", spec.Hash)
		}
		rv, err := cm.GetRootValue(sqlCtx)
		return rv, sqlCtx, err
	}
	return nil, nil, fmt.Errorf("bad root spec %v", spec)
}

// sxStoredIndex is a secondary index map decoded to strings: Cols names the table column of
// every key field (for a keyless table the trailing row-hash field is dropped).
type sxStoredIndex struct {
	Cols    []string
	Entries [][]string
	Keyless bool
}

// sxStoredPrimary is the clustered map of a keyless table decoded to strings: one element per
// stored entry (a distinct row hash) with its column values by name and its cardinality.
type sxStoredPrimary struct {
	Rows  []map[string]string
	Cards []int
}

var errSxUnsupported = fmt.Errorf("unsupported field type")

func sxFmtField(v interface{}) (string, error) {
	switch x := v.(type) {
	case nil:
		return vsql.Null, nil
	case int8, int16, int32, int64, int, uint8, uint16, uint32, uint64, uint:
		return fmt.Sprintf("%d", x), nil
	case string:
		return x, nil
	case []byte:
		return string(x), nil
	}
	return "", errSxUnsupported
}

// readKeylessPrimary decodes the clustered map of keyless table tbl in the given root
// (nil when the table is missing or has a primary key).
func (p *sxInProc) readKeylessPrimary(db string, spec sxRootSpec, tbl string) (*sxStoredPrimary, error) {
	root, ctx, err := p.root(db, spec)
	if err != nil {
		return nil, err
	}
	t, ok, err := root.GetTable(ctx, doltdb.TableName{Name: tbl})
	if err != nil || !ok {
		return nil, err
	}
	sch, err := t.GetSchema(ctx)
	if err != nil {
		return nil, err
	}
	if !schema.IsKeyless(sch) {
		return nil, nil
	}
	idx, err := t.GetRowData(ctx)
	if err != nil {
		return nil, err
	}
	m := durable.MapFromIndex(idx)
	vd := m.ValDesc()
	type colPos struct {
		name string
		pos  int
	}
	var cols []colPos
	for _, c := range sch.GetNonPKCols().GetColumns() {
		if c.Virtual {
			continue
		}
		si, ok := sch.GetNonPKCols().StoredIndexByTag(c.Tag)
		if !ok {
			return nil, fmt.Errorf("column %s has no stored index", c.Name)
		}
		cols = append(cols, colPos{c.Name, si + 1})
	}
	out := &sxStoredPrimary{}
	it, err := m.IterAll(ctx)
	if err != nil {
		return nil, err
	}
	for {
		_, v, err := it.Next(ctx)
		if err == io.EOF {
			break
		}
		if err != nil {
			return nil, err
		}
		row := map[string]string{}
		for _, c := range cols {
			f, err := tree.GetField(ctx, vd, c.pos, v, m.NodeStore())
			if err != nil {
				return nil, err
			}
			if f, err = sql.UnwrapAny(ctx, f); err != nil {
				return nil, err
			}
			if row[c.name], err = sxFmtField(f); err != nil {
				return nil, err
			}
		}
		out.Rows = append(out.Rows, row)
		out.Cards = append(out.Cards, int(val.ReadKeylessCardinality(v)))
	}
	return out, nil
}

// readIndexes decodes every secondary index of table tbl in the given root.
// It returns nil (no error) when the table does not exist in that root.
func (p *sxInProc) readIndexes(db string, spec sxRootSpec, tbl string) (map[string]*sxStoredIndex, error) {
	root, ctx, err := p.root(db, spec)
	if err != nil {
		return nil, err
	}
	t, ok, err := root.GetTable(ctx, doltdb.TableName{Name: tbl})
	if err != nil {
		return nil, err
	}
	if !ok {
		return nil, nil
	}
	sch, err := t.GetSchema(ctx)
	if err != nil {
		return nil, err
	}
	keyless := schema.IsKeyless(sch)
	out := map[string]*sxStoredIndex{}
	for _, def := range sch.Indexes().AllIndexes() {
		idx, err := t.GetIndexRowData(ctx, def.Name())
		if err != nil {
			return nil, fmt.Errorf("index %s: %w", def.Name(), err)
		}
		m := durable.MapFromIndex(idx)
		kd := m.KeyDesc()
		si := &sxStoredIndex{Keyless: keyless}
		for _, tag := range def.AllTags() {
			c, ok := sch.GetAllCols().GetByTag(tag)
			if !ok {
				return nil, fmt.Errorf("index %s: tag %d has no column", def.Name(), tag)
			}
			si.Cols = append(si.Cols, c.Name)
		}
		n := kd.Count()
		if keyless {
			n--
		}
		if n != len(si.Cols) {
			return nil, fmt.Errorf("index %s: key has %d fields, definition has %d columns", def.Name(), n, len(si.Cols))
		}
		it, err := m.IterAll(ctx)
		if err != nil {
			return nil, err
		}
		for {
			k, _, err := it.Next(ctx)
			if err == io.EOF {
				break
			}
			if err != nil {
				return nil, err
			}
			e := make([]string, n)
			for i := 0; i < n; i++ {
				v, err := tree.GetField(ctx, kd, i, k, m.NodeStore())
				if err != nil {
					return nil, err
				}
				if e[i], err = sxFmtField(v); err != nil {
					return nil, err
				}
			}
			si.Entries = append(si.Entries, e)
		}
		out[def.Name()] = si
	}
	return out, nil
}

// ---------------------------------------------------------------------------------------
// server start shared by the checks

func sxStart(t *testing.T, prefix string) (*vsql.Server, func()) {
	dir, cleanup := vh.ScratchDir(t, prefix)
	srv, err := vsql.StartServer(dir)
	if err != nil {
		cleanup()
		vh.Inconclusive(t, "start: %v", err)
	}
	return srv, func() { srv.Stop(); cleanup() }
}

// TestDev_Script is a development aid (never selected by the registry): it runs the
// statements of $VERIF_SQL_FILE (one per line; lines starting with "--" are comments, a
// leading "@name " selects/creates a session) in a fresh database and prints every result.
func TestDev_Script(t *testing.T) {
	fn := os.Getenv("VERIF_SQL_FILE")
	if fn == "" {
		t.Skip("no VERIF_SQL_FILE")
	}
	b, err := os.ReadFile(fn)
	if err != nil {
		t.Fatal(err)
	}
	srv, stop := sxStart(t, "dev")
	defer stop()
	admin := srv.Session(t, "admin", "")
	admin.MustExec(t, "CREATE DATABASE d1")
	sess := map[string]*vsql.Session{}
	get := func(n string) *vsql.Session {
		if s, ok := sess[n]; ok {
			return s
		}
		s := srv.Session(t, n, "d1")
		sess[n] = s
		return s
	}
	inproc := &sxInProc{srv: srv}
	for _, line := range strings.Split(string(b), "\n") {
		line = strings.TrimSpace(line)
		if line == "" || strings.HasPrefix(line, "--") {
			continue
		}
		if strings.HasPrefix(line, "!index ") { // !index <table> : dump stored indexes of main's working root
			f := strings.Fields(line)
			m, err := inproc.readIndexes("d1", sxRootSpec{Kind: "working", Branch: "main"}, f[1])
			if err != nil {
				t.Logf("%s\n    ERROR %v", line, err)
				continue
			}
			var names []string
			for n := range m {
				names = append(names, n)
			}
			sort.Strings(names)
			for _, n := range names {
				t.Logf("%s: %s cols=%v keyless=%v\n    %s", line, n, m[n].Cols, m[n].Keyless, sxShowRows(m[n].Entries))
			}
			continue
		}
		name := "a"
		if strings.HasPrefix(line, "@") {
			sp := strings.IndexByte(line, ' ')
			name, line = line[1:sp], strings.TrimSpace(line[sp+1:])
		}
		r, err := get(name).Query(line)
		if err != nil {
			t.Logf("[%s] %s\n    ERROR %d: %v", name, line, vsql.ErrCode(err), err)
			continue
		}
		var sb strings.Builder
		for _, row := range r.Data {
			sb.WriteString("\n    " + strings.ReplaceAll(strings.Join(row, " | "), vsql.Null, "NULL"))
		}
		t.Logf("[%s] %s\n    cols=%v%s", name, line, r.Cols, sb.String())
	}
}
