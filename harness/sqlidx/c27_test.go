package sqlidx

// C27 — keyless tables behave as multisets.
//
// Part "dml": generated DML with heavy duplication over a keyless table (optionally with a
// secondary index) against a map[row]count model; DELETE/UPDATE … LIMIT are checked by the
// multiplicity they may change (which copies is unobservable).
// Part "merge": two branches edit copies of one base independently; both merge directions are
// compared with the Δ-multiplicity model, including the rows and cardinalities that
// dolt_conflicts_<t> exposes.

import (
	"fmt"
	"sort"
	"strconv"
	"strings"
	"testing"

	"pgregory.net/rapid"

	"github.com/dolthub/dolt/go/zzverif/vh"
	"github.com/dolthub/dolt/go/zzverif/vsql"
)

const c27Rule = "keyless table of 2-4 columns (INT / VARCHAR, NULLs allowed), optional non-unique secondary index, values from a universe of 3-4 per column so rows repeat. [dml] 6-16 statements of {multi-row INSERT with equal rows, INSERT … SELECT from the table itself (whole / filtered / shifted), DELETE and UPDATE by predicate, DELETE … LIMIT n, UPDATE … LIMIT n}; after every statement GROUP BY all columns + COUNT(*), COUNT(*), and lookups by the indexed/first column equal the map[row]count model; LIMIT forms must change exactly min(n, matching) copies among the matching rows. [merge] base of 3-10 rows committed, two branches each apply 1-6 statements, then ours<-theirs and theirs<-ours merges on scratch branches: per distinct row with base/left/right multiplicities b,l,r: l=b -> r; r=b -> l; both changed and l!=r -> conflict row with cardinalities (b,l,r) and the table keeps ours; both changed and l=r -> either that (dolt reports convergent keyless edits as conflicts) or the common value without conflict. Non-trivial: [dml] a row with multiplicity >= 2 was hit by a LIMIT/predicate statement or duplicated by INSERT … SELECT; [merge] a row with base multiplicity >= 2 changed on at least one side; distinct by statement list."

type c27Col struct {
	Name  string
	IsInt bool
}

type c27Table struct {
	cols []c27Col
	m    map[string]int // joined row -> multiplicity
}

func (t *c27Table) clone() *c27Table {
	n := &c27Table{cols: t.cols, m: map[string]int{}}
	for k, v := range t.m {
		n.m[k] = v
	}
	return n
}

func (t *c27Table) keys() []string {
	ks := make([]string, 0, len(t.m))
	for k, v := range t.m {
		if v > 0 {
			ks = append(ks, k)
		}
	}
	sort.Strings(ks)
	return ks
}

func (t *c27Table) total() int {
	n := 0
	for _, v := range t.m {
		n += v
	}
	return n
}

func (t *c27Table) add(row []string, n int) {
	k := strings.Join(row, "\x1f")
	t.m[k] += n
	if t.m[k] <= 0 {
		delete(t.m, k)
	}
}

// grouped renders the model like `SELECT cols, COUNT(*) … GROUP BY cols` sorted.
func (t *c27Table) grouped() []string {
	var out []string
	for _, k := range t.keys() {
		out = append(out, k+"\x1f"+strconv.Itoa(t.m[k]))
	}
	sort.Strings(out)
	return out
}

type c27Cond struct {
	col int
	op  string // "=", ">=", "<>", "isnull", "notnull"
	val string
}

type c27Pred []c27Cond // conjunction; empty = TRUE

func (p c27Pred) sql(cols []c27Col) string {
	if len(p) == 0 {
		return "TRUE"
	}
	var parts []string
	for _, c := range p {
		q := "`" + cols[c.col].Name + "`"
		switch c.op {
		case "isnull":
			parts = append(parts, q+" IS NULL")
		case "notnull":
			parts = append(parts, q+" IS NOT NULL")
		default:
			parts = append(parts, q+" "+c.op+" "+sxLit(c.val, cols[c.col].IsInt))
		}
	}
	return strings.Join(parts, " AND ")
}

// match implements SQL's three-valued WHERE: a comparison with NULL is not true.
func (p c27Pred) match(cols []c27Col, row []string) bool {
	for _, c := range p {
		v := row[c.col]
		switch c.op {
		case "isnull":
			if v != vsql.Null {
				return false
			}
			continue
		case "notnull":
			if v == vsql.Null {
				return false
			}
			continue
		}
		if v == vsql.Null {
			return false
		}
		cmp := 0
		if cols[c.col].IsInt {
			a, _ := strconv.Atoi(v)
			b, _ := strconv.Atoi(c.val)
			switch {
			case a < b:
				cmp = -1
			case a > b:
				cmp = 1
			}
		} else {
			cmp = strings.Compare(v, c.val) // utf8mb4_0900_bin, ASCII values
		}
		switch c.op {
		case "=":
			if cmp != 0 {
				return false
			}
		case ">=":
			if cmp < 0 {
				return false
			}
		case "<>":
			if cmp == 0 {
				return false
			}
		}
	}
	return true
}

type c27State struct {
	rt      *rapid.T
	s       *vsql.Session
	cols    []c27Col
	idxCol  int // column with a secondary index, -1 = none
	ops     []string
	hitDup  bool // a statement changed/duplicated a row of multiplicity >= 2
	limitOp bool
}

var c27Ints = []string{"0", "1", "2", "3"}
var c27Strs = []string{"x", "y", "zz", ""}

func (c *c27State) genVal(col int, label string) string {
	if rapid.IntRange(0, 5).Draw(c.rt, label+".null") == 0 {
		return vsql.Null
	}
	if c.cols[col].IsInt {
		return rapid.SampledFrom(c27Ints[:3]).Draw(c.rt, label)
	}
	return rapid.SampledFrom(c27Strs[:3]).Draw(c.rt, label)
}

func (c *c27State) genRow(label string) []string {
	r := make([]string, len(c.cols))
	for i := range c.cols {
		r[i] = c.genVal(i, fmt.Sprintf("%s.%s", label, c.cols[i].Name))
	}
	return r
}

func (c *c27State) genPred(label string) c27Pred {
	n := rapid.SampledFrom([]int{0, 1, 1, 1, 1, 2}).Draw(c.rt, label+".n")
	var p c27Pred
	for i := 0; i < n; i++ {
		col := rapid.IntRange(0, len(c.cols)-1).Draw(c.rt, fmt.Sprintf("%s.col%d", label, i))
		v := c.genVal(col, fmt.Sprintf("%s.v%d", label, i))
		if v == vsql.Null {
			p = append(p, c27Cond{col: col, op: rapid.SampledFrom([]string{"isnull", "isnull", "notnull"}).Draw(c.rt, fmt.Sprintf("%s.nop%d", label, i))})
			continue
		}
		op := rapid.SampledFrom([]string{"=", "=", "=", ">=", "<>"}).Draw(c.rt, fmt.Sprintf("%s.op%d", label, i))
		p = append(p, c27Cond{col: col, op: op, val: v})
	}
	return p
}

func (c *c27State) lit(row []string) string {
	p := make([]string, len(row))
	for i, v := range row {
		p[i] = sxLit(v, c.cols[i].IsInt)
	}
	return "(" + strings.Join(p, ",") + ")"
}

func (c *c27State) colList() string {
	p := make([]string, len(c.cols))
	for i, col := range c.cols {
		p[i] = "`" + col.Name + "`"
	}
	return strings.Join(p, ",")
}

func (c *c27State) failf(format string, args ...any) {
	c.rt.Fatalf("%s\nstatements:\n  %s", fmt.Sprintf(format, args...), strings.Join(c.ops, "\n  "))
}

func (c *c27State) exec(q string) {
	c.ops = append(c.ops, q)
	if err := c.s.Exec(q); err != nil {
		c.failf("statement failed: %s: %v", q, err)
	}
}

// actual reads the table as a multiset through GROUP BY over all columns.
func (c *c27State) actual(tbl string) *c27Table {
	r, err := c.s.Query(fmt.Sprintf("SELECT %s, COUNT(*) FROM %s GROUP BY %s", c.colList(), tbl, c.colList()))
	if err != nil {
		c.failf("group-by read failed: %v", err)
	}
	t := &c27Table{cols: c.cols, m: map[string]int{}}
	for _, row := range r.Data {
		n, _ := strconv.Atoi(row[len(row)-1])
		k := strings.Join(row[:len(row)-1], "\x1f")
		if _, dup := t.m[k]; dup {
			c.failf("GROUP BY over all columns returned the group %s twice", sxShowRow(row))
		}
		t.m[k] = n
	}
	return t
}

func c27Show(g []string) string {
	var p []string
	for _, r := range g {
		f := strings.Split(r, "\x1f")
		p = append(p, sxShowRow(f[:len(f)-1])+"x"+f[len(f)-1])
	}
	return strings.Join(p, " ")
}

// check compares every read path with the model.
func (c *c27State) check(model *c27Table, tbl, what string) {
	act := c.actual(tbl)
	if !vsql.EqualStrings(act.grouped(), model.grouped()) {
		c.failf("%s: table is not the model multiset\n  dolt:  %s\n  model: %s", what, c27Show(act.grouped()), c27Show(model.grouped()))
	}
	if n, _ := c.s.Scalar(c.rt, "SELECT COUNT(*) FROM "+tbl); n != strconv.Itoa(model.total()) {
		c.failf("%s: COUNT(*) = %s, model has %d rows", what, n, model.total())
	}
	// full scan row count per row (copies are separate rows)
	r := c.s.MustQuery(c.rt, "SELECT * FROM "+tbl)
	scan := &c27Table{cols: c.cols, m: map[string]int{}}
	for _, row := range r.Data {
		scan.add(row, 1)
	}
	if !vsql.EqualStrings(scan.grouped(), model.grouped()) {
		c.failf("%s: full scan is not the model multiset\n  dolt:  %s\n  model: %s", what, c27Show(scan.grouped()), c27Show(model.grouped()))
	}
	// lookups by the indexed column (or the first column): every value of the universe and NULL
	col := c.idxCol
	if col < 0 {
		col = 0
	}
	vals := append([]string{vsql.Null}, c27Ints...)
	if !c.cols[col].IsInt {
		vals = append([]string{vsql.Null}, c27Strs...)
	}
	for _, v := range vals {
		p := c27Pred{{col: col, op: "=", val: v}}
		if v == vsql.Null {
			p = c27Pred{{col: col, op: "isnull"}}
		}
		lr := c.s.MustQuery(c.rt, fmt.Sprintf("SELECT * FROM %s WHERE %s", tbl, p.sql(c.cols)))
		got := &c27Table{cols: c.cols, m: map[string]int{}}
		for _, row := range lr.Data {
			got.add(row, 1)
		}
		want := &c27Table{cols: c.cols, m: map[string]int{}}
		for _, k := range model.keys() {
			row := strings.Split(k, "\x1f")
			if p.match(c.cols, row) {
				want.m[k] = model.m[k]
			}
		}
		if !vsql.EqualStrings(got.grouped(), want.grouped()) {
			c.failf("%s: lookup %s disagrees with the model\n  dolt:  %s\n  model: %s", what, p.sql(c.cols), c27Show(got.grouped()), c27Show(want.grouped()))
		}
		if n, _ := c.s.Scalar(c.rt, fmt.Sprintf("SELECT COUNT(*) FROM %s WHERE %s", tbl, p.sql(c.cols))); n != strconv.Itoa(want.total()) {
			c.failf("%s: COUNT(*) WHERE %s = %s, model %d", what, p.sql(c.cols), n, want.total())
		}
	}
}

// dml applies one generated statement to dolt and to the model (returned updated).
func (c *c27State) dml(model *c27Table, i int) *c27Table {
	rt := c.rt
	lb := fmt.Sprintf("d%d", i)
	kind := rapid.SampledFrom([]string{"insert", "insert", "insert", "inssel", "inssel", "delete", "dellimit", "dellimit", "update", "updlimit", "updlimit"}).Draw(rt, lb+".kind")
	if model.total() > 60 && (kind == "inssel" || kind == "insert") {
		kind = "dellimit"
	}
	next := model.clone()
	switch kind {
	case "insert":
		n := rapid.IntRange(1, 5).Draw(rt, lb+".n")
		var lits []string
		var prev []string
		for j := 0; j < n; j++ {
			row := c.genRow(fmt.Sprintf("%s.r%d", lb, j))
			if prev != nil && rapid.IntRange(0, 1).Draw(rt, fmt.Sprintf("%s.same%d", lb, j)) == 0 {
				row = prev
			}
			prev = row
			lits = append(lits, c.lit(row))
			next.add(row, 1)
		}
		c.exec("INSERT INTO k VALUES " + strings.Join(lits, ","))
	case "inssel":
		p := c.genPred(lb + ".where")
		shift := -1
		if rapid.IntRange(0, 2).Draw(rt, lb+".shift") == 0 {
			for j, col := range c.cols {
				if col.IsInt {
					shift = j
					break
				}
			}
		}
		sel := make([]string, len(c.cols))
		for j, col := range c.cols {
			sel[j] = "`" + col.Name + "`"
			if j == shift {
				sel[j] = "`" + col.Name + "` + 1"
			}
		}
		for _, k := range model.keys() {
			row := strings.Split(k, "\x1f")
			if !p.match(c.cols, row) {
				continue
			}
			if model.m[k] >= 2 {
				c.hitDup = true
			}
			nr := append([]string(nil), row...)
			if shift >= 0 && nr[shift] != vsql.Null {
				v, _ := strconv.Atoi(nr[shift])
				nr[shift] = strconv.Itoa(v + 1)
			}
			next.add(nr, model.m[k])
		}
		c.exec(fmt.Sprintf("INSERT INTO k SELECT %s FROM k WHERE %s", strings.Join(sel, ","), p.sql(c.cols)))
	case "delete":
		p := c.genPred(lb + ".where")
		for _, k := range model.keys() {
			if p.match(c.cols, strings.Split(k, "\x1f")) {
				if model.m[k] >= 2 {
					c.hitDup = true
				}
				delete(next.m, k)
			}
		}
		c.exec("DELETE FROM k WHERE " + p.sql(c.cols))
	case "update":
		p := c.genPred(lb + ".where")
		col := rapid.IntRange(0, len(c.cols)-1).Draw(rt, lb+".col")
		v := c.genVal(col, lb+".v")
		for _, k := range model.keys() {
			row := strings.Split(k, "\x1f")
			if !p.match(c.cols, row) {
				continue
			}
			if model.m[k] >= 2 {
				c.hitDup = true
			}
			nr := append([]string(nil), row...)
			nr[col] = v
			next.add(row, -model.m[k])
			next.add(nr, model.m[k])
		}
		c.exec(fmt.Sprintf("UPDATE k SET `%s` = %s WHERE %s", c.cols[col].Name, sxLit(v, c.cols[col].IsInt), p.sql(c.cols)))
	case "dellimit":
		p := c.genPred(lb + ".where")
		n := rapid.IntRange(1, 4).Draw(rt, lb+".limit")
		matching := 0
		for _, k := range model.keys() {
			if p.match(c.cols, strings.Split(k, "\x1f")) {
				matching += model.m[k]
				if model.m[k] >= 2 {
					c.hitDup = true
				}
			}
		}
		c.exec(fmt.Sprintf("DELETE FROM k WHERE %s LIMIT %d", p.sql(c.cols), n))
		c.limitOp = true
		act := c.actual("k")
		want := n
		if matching < n {
			want = matching
		}
		removed := 0
		for _, k := range model.keys() {
			d := model.m[k] - act.m[k]
			if d < 0 {
				c.failf("DELETE … LIMIT increased the multiplicity of %s from %d to %d", sxShowRow(strings.Split(k, "\x1f")), model.m[k], act.m[k])
			}
			if d > 0 && !p.match(c.cols, strings.Split(k, "\x1f")) {
				c.failf("DELETE … LIMIT removed %d copies of %s, which does not match the predicate", d, sxShowRow(strings.Split(k, "\x1f")))
			}
			removed += d
		}
		for _, k := range act.keys() {
			if _, ok := model.m[k]; !ok {
				c.failf("DELETE … LIMIT created row %s", sxShowRow(strings.Split(k, "\x1f")))
			}
		}
		if removed != want {
			c.failf("DELETE … WHERE %s LIMIT %d removed %d copies; %d match, so exactly %d must go\n  before: %s\n  after:  %s", p.sql(c.cols), n, removed, matching, want, c27Show(model.grouped()), c27Show(act.grouped()))
		}
		next = act
	case "updlimit":
		p := c.genPred(lb + ".where")
		col := rapid.IntRange(0, len(c.cols)-1).Draw(rt, lb+".col")
		v := c.genVal(col, lb+".v")
		n := rapid.IntRange(1, 4).Draw(rt, lb+".limit")
		matching, noop := 0, 0
		for _, k := range model.keys() {
			row := strings.Split(k, "\x1f")
			if p.match(c.cols, row) {
				matching += model.m[k]
				if row[col] == v {
					noop += model.m[k]
				}
				if model.m[k] >= 2 {
					c.hitDup = true
				}
			}
		}
		c.exec(fmt.Sprintf("UPDATE k SET `%s` = %s WHERE %s LIMIT %d", c.cols[col].Name, sxLit(v, c.cols[col].IsInt), p.sql(c.cols), n))
		c.limitOp = true
		act := c.actual("k")
		if act.total() != model.total() {
			c.failf("UPDATE … LIMIT changed the number of rows from %d to %d", model.total(), act.total())
		}
		// A row whose column already holds the new value is a fixed point of the update, so rows
		// that lose copies (column != value) and rows that gain copies (column == value) are
		// disjoint: the lost copies, updated, must be exactly the gained copies.
		allKeys := map[string]bool{}
		for k := range model.m {
			allKeys[k] = true
		}
		for k := range act.m {
			allKeys[k] = true
		}
		var ks []string
		for k := range allKeys {
			ks = append(ks, k)
		}
		sort.Strings(ks)
		net := model.clone()
		lost := 0
		for _, k := range ks {
			d := act.m[k] - model.m[k]
			if d >= 0 {
				continue
			}
			row := strings.Split(k, "\x1f")
			if !p.match(c.cols, row) {
				c.failf("UPDATE … LIMIT changed %d copies of %s, which does not match the predicate", -d, sxShowRow(row))
			}
			nr := append([]string(nil), row...)
			nr[col] = v
			net.add(row, d)
			net.add(nr, -d)
			lost += -d
		}
		if !vsql.EqualStrings(net.grouped(), act.grouped()) {
			c.failf("UPDATE … SET %s = %s WHERE %s LIMIT %d: the copies that disappeared, updated, are not the copies that appeared\n  before: %s\n  after:  %s", c.cols[col].Name, sxShort(v), p.sql(c.cols), n, c27Show(model.grouped()), c27Show(act.grouped()))
		}
		hi := n
		if matching < n {
			hi = matching
		}
		lo := hi - noop
		if lo < 0 {
			lo = 0
		}
		if lost > hi || lost < lo {
			c.failf("UPDATE … WHERE %s LIMIT %d changed %d copies; %d match (%d of them already hold the value), so between %d and %d must change\n  before: %s\n  after:  %s", p.sql(c.cols), n, lost, matching, noop, lo, hi, c27Show(model.grouped()), c27Show(act.grouped()))
		}
		next = act
	}
	return next
}

func (c *c27State) createTable(label string) {
	rt := c.rt
	ncols := rapid.IntRange(2, 4).Draw(rt, label+".ncols")
	names := []string{"a", "b", "c", "d"}
	var defs []string
	for i := 0; i < ncols; i++ {
		isInt := i == 0 || rapid.IntRange(0, 1).Draw(rt, fmt.Sprintf("%s.type%d", label, i)) == 0
		c.cols = append(c.cols, c27Col{Name: names[i], IsInt: isInt})
		if isInt {
			defs = append(defs, names[i]+" INT")
		} else {
			defs = append(defs, names[i]+" VARCHAR(8)")
		}
	}
	c.idxCol = -1
	switch rapid.IntRange(0, 3).Draw(rt, label+".index") {
	case 1:
		c.idxCol = 0
		defs = append(defs, "KEY i0 (a)")
	case 2:
		c.idxCol = 1
		defs = append(defs, "KEY i1 (b)")
	case 3:
		c.idxCol = 0
		defs = append(defs, "KEY i01 (a, b)")
	}
	c.exec("CREATE TABLE k (" + strings.Join(defs, ", ") + ")")
}

func c27CaseDML(rt *rapid.T, srv *vsql.Server, admin *vsql.Session, rec *vh.Recorder) {
	db := srv.NewDBName()
	admin.MustExec(rt, "CREATE DATABASE "+db)
	defer admin.Exec("DROP DATABASE " + db)
	s := srv.Session(rt, "k", db)
	defer s.Close()
	c := &c27State{rt: rt, s: s}
	c.createTable("t")
	model := &c27Table{cols: c.cols, m: map[string]int{}}
	n := rapid.IntRange(6, 16).Draw(rt, "steps")
	for i := 0; i < n; i++ {
		model = c.dml(model, i)
		c.check(model, "k", fmt.Sprintf("after statement %d", i+1))
	}
	cl := []string{fmt.Sprintf("cols=%d", len(c.cols))}
	if c.idxCol >= 0 {
		cl = append(cl, "secondary_index")
	}
	if c.limitOp {
		cl = append(cl, "limit_statement")
	}
	rec.Case(strings.Join(c.ops, " ; "), c.hitDup, cl...)
}

// ---------------------------------------------------------------------------------------
// merge part

type c27Conflict struct {
	row     string // joined row values
	b, l, r int
}

// c27MergeModel computes the expected merged table and conflicts for ours=l, theirs=r.
// must: conflicts that have to be reported (both changed, differently); may: convergent ones.
func c27MergeModel(base, l, r *c27Table) (merged *c27Table, must, may map[string]c27Conflict) {
	merged = &c27Table{cols: base.cols, m: map[string]int{}}
	must, may = map[string]c27Conflict{}, map[string]c27Conflict{}
	keys := map[string]bool{}
	for _, t := range []*c27Table{base, l, r} {
		for k := range t.m {
			keys[k] = true
		}
	}
	for k := range keys {
		b, lv, rv := base.m[k], l.m[k], r.m[k]
		res := lv
		switch {
		case lv == b:
			res = rv
		case rv == b:
			res = lv
		case lv == rv:
			may[k] = c27Conflict{k, b, lv, rv}
		default:
			must[k] = c27Conflict{k, b, lv, rv}
		}
		if res > 0 {
			merged.m[k] = res
		}
	}
	return
}

func (c *c27State) readConflicts() map[string]c27Conflict {
	out := map[string]c27Conflict{}
	n, _ := c.s.Scalar(c.rt, "SELECT COALESCE(SUM(num_conflicts),0) FROM dolt_conflicts WHERE `table` = 'k'")
	if n == "0" {
		return out
	}
	var sel []string
	for _, side := range []string{"base", "our", "their"} {
		for _, col := range c.cols {
			sel = append(sel, "`"+side+"_"+col.Name+"`")
		}
	}
	sel = append(sel, "base_cardinality", "our_cardinality", "their_cardinality")
	r, err := c.s.Query("SELECT " + strings.Join(sel, ",") + " FROM dolt_conflicts_k")
	if err != nil {
		c.failf("cannot read dolt_conflicts_k: %v", err)
	}
	nc := len(c.cols)
	for _, row := range r.Data {
		cards := make([]int, 3)
		for i := 0; i < 3; i++ {
			cards[i], _ = strconv.Atoi(row[3*nc+i])
		}
		// the row's values: from whichever side has copies; all sides that have copies must agree
		key := ""
		for i := 0; i < 3; i++ {
			if cards[i] == 0 {
				continue
			}
			k := strings.Join(row[i*nc:(i+1)*nc], "\x1f")
			if key != "" && k != key {
				c.failf("conflict row shows different values on its sides: %s", sxShowRow(row))
			}
			key = k
		}
		if key == "" {
			c.failf("conflict row with all cardinalities 0: %s", sxShowRow(row))
		}
		if _, dup := out[key]; dup {
			c.failf("two conflict rows for %s", sxShowRow(strings.Split(key, "\x1f")))
		}
		out[key] = c27Conflict{key, cards[0], cards[1], cards[2]}
	}
	if strconv.Itoa(len(out)) != n {
		c.failf("dolt_conflicts says %s conflicts, dolt_conflicts_k has %d rows", n, len(out))
	}
	return out
}

func c27ShowConf(m map[string]c27Conflict) string {
	var ks []string
	for k := range m {
		ks = append(ks, k)
	}
	sort.Strings(ks)
	var p []string
	for _, k := range ks {
		p = append(p, fmt.Sprintf("%s base=%d ours=%d theirs=%d", sxShowRow(strings.Split(k, "\x1f")), m[k].b, m[k].l, m[k].r))
	}
	return strings.Join(p, "; ")
}

func (c *c27State) mergeAndCheck(what, onto, from string, base, ours, theirs *c27Table) (nConf int) {
	c.exec("CALL dolt_checkout('-b', 'm_" + onto + "', '" + onto + "')")
	c.ops = append(c.ops, "CALL dolt_merge('"+from+"')")
	if err := c.s.Exec("CALL dolt_merge('" + from + "')"); err != nil {
		c.failf("%s: merge failed: %v", what, err)
	}
	merged, must, may := c27MergeModel(base, ours, theirs)
	got := c.readConflicts()
	for k, m := range must {
		g, ok := got[k]
		if !ok {
			c.failf("%s: row %s changed multiplicity %d -> ours %d / theirs %d but no conflict is reported\n  conflicts: %s", what, sxShowRow(strings.Split(k, "\x1f")), m.b, m.l, m.r, c27ShowConf(got))
		}
		if g != m {
			c.failf("%s: conflict for %s shows base=%d ours=%d theirs=%d, the branches have base=%d ours=%d theirs=%d", what, sxShowRow(strings.Split(k, "\x1f")), g.b, g.l, g.r, m.b, m.l, m.r)
		}
	}
	for k, g := range got {
		if _, ok := must[k]; ok {
			continue
		}
		m, ok := may[k]
		if !ok {
			c.failf("%s: conflict reported for %s (base=%d ours=%d theirs=%d) although at most one side changed its multiplicity\n  base:   %s\n  ours:   %s\n  theirs: %s", what, sxShowRow(strings.Split(k, "\x1f")), g.b, g.l, g.r, c27Show(base.grouped()), c27Show(ours.grouped()), c27Show(theirs.grouped()))
		}
		if g != m {
			c.failf("%s: convergent conflict for %s shows base=%d ours=%d theirs=%d, the branches have base=%d ours=%d theirs=%d", what, sxShowRow(strings.Split(k, "\x1f")), g.b, g.l, g.r, m.b, m.l, m.r)
		}
	}
	c.check(merged, "k", what)
	return len(got)
}

func c27CaseMerge(rt *rapid.T, srv *vsql.Server, admin *vsql.Session, rec *vh.Recorder) {
	db := srv.NewDBName()
	admin.MustExec(rt, "CREATE DATABASE "+db)
	defer admin.Exec("DROP DATABASE " + db)
	s := srv.Session(rt, "k", db)
	defer s.Close()
	s.MustExec(rt, "SET @@dolt_allow_commit_conflicts = 1")
	c := &c27State{rt: rt, s: s}
	c.createTable("t")
	base := &c27Table{cols: c.cols, m: map[string]int{}}
	// base with duplicates
	nb := rapid.IntRange(2, 6).Draw(rt, "base.n")
	var lits []string
	for i := 0; i < nb; i++ {
		row := c.genRow(fmt.Sprintf("base.r%d", i))
		mult := rapid.IntRange(1, 3).Draw(rt, fmt.Sprintf("base.m%d", i))
		for j := 0; j < mult; j++ {
			lits = append(lits, c.lit(row))
		}
		base.add(row, mult)
	}
	c.exec("INSERT INTO k VALUES " + strings.Join(lits, ","))
	c.exec("CALL dolt_commit('-Am', 'base')")
	c.exec("CALL dolt_branch('br')")
	left := base.clone()
	nl := rapid.IntRange(0, 5).Draw(rt, "left.steps")
	for i := 0; i < nl; i++ {
		left = c.dml(left, 100+i)
	}
	if nl > 0 {
		c.check(left, "k", "main after its edits")
		c.ops = append(c.ops, "CALL dolt_commit('-Am', 'left')")
		_ = c.s.Exec("CALL dolt_commit('-Am', 'left')") // "nothing to commit" when the edits cancel out
	}
	c.exec("CALL dolt_checkout('br')")
	right := base.clone()
	nr := rapid.IntRange(1, 5).Draw(rt, "right.steps")
	for i := 0; i < nr; i++ {
		right = c.dml(right, 200+i)
	}
	c.check(right, "k", "br after its edits")
	c.ops = append(c.ops, "CALL dolt_commit('-Am', 'right')")
	_ = c.s.Exec("CALL dolt_commit('-Am', 'right')")

	n1 := c.mergeAndCheck("merge br into main", "main", "br", base, left, right)
	n2 := c.mergeAndCheck("merge main into br", "br", "main", base, right, left)
	if n1 != n2 {
		c.failf("merging br into main reports %d conflicts, merging main into br reports %d", n1, n2)
	}
	nontrivial := false
	for k, b := range base.m {
		if b >= 2 && (left.m[k] != b || right.m[k] != b) {
			nontrivial = true
		}
	}
	cl := []string{fmt.Sprintf("cols=%d", len(c.cols))}
	if c.idxCol >= 0 {
		cl = append(cl, "secondary_index")
	}
	if n1 > 0 {
		cl = append(cl, "conflicts")
	} else {
		cl = append(cl, "clean_merge")
	}
	_, must, may := c27MergeModel(base, left, right)
	if len(must) > 0 {
		cl = append(cl, "divergent_multiplicity")
	}
	if len(may) > 0 {
		cl = append(cl, "convergent_multiplicity")
	}
	if nl == 0 {
		cl = append(cl, "fast_forward")
	}
	rec.Case(strings.Join(c.ops, " ; "), nontrivial, cl...)
}

func TestVerif_C27(t *testing.T) {
	assume := []string{
		"which copies a LIMIT statement touches is not observable; only the number and the rows they belong to are checked",
		"UPDATE … LIMIT n processes min(n, matching) copies (MySQL counts matched rows, changed or not): between that number minus the copies already holding the value, and that number, must change",
		"when both branches change a row's multiplicity to the same value, dolt reports a conflict (ours kept); the model accepts that or a silent merge to the common value, since the property only requires a conflict for different changes",
		"string columns use the default utf8mb4_0900_bin collation and ASCII values; no schema changes, no unique indexes",
	}
	recD := vh.NewRecorder("C27", "dml", "exploration", c27Rule, assume...)
	defer recD.Write(t)
	recM := vh.NewRecorder("C27", "merge", "exploration", c27Rule, assume...)
	defer recM.Write(t)
	srv, stop := sxStart(t, "c27")
	defer stop()
	admin := srv.Session(t, "admin", "")
	vh.Check(t, "dml", 150, 500, func(rt *rapid.T) { c27CaseDML(rt, srv, admin, recD) })
	vh.Check(t, "merge", 150, 500, func(rt *rapid.T) { c27CaseMerge(rt, srv, admin, recM) })
}
