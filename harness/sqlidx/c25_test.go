package sqlidx

// C25 — secondary indexes always mirror their table.
//
// Generated SQL programs (DML + DDL + version-control procedures) over one keyed or keyless
// table with unique / non-unique / prefix / multi-column / collated-string indexes. The check
// keeps no model of the table: statements may fail (duplicate keys, refused DDL, refused
// merges …) and whatever state dolt ends up in, every secondary index of every addressable
// root must hold exactly one entry per row, computed from that row's values:
//   expected  = projection of the rows returned by the plain full scan `SELECT * FROM t AS OF r`
//   actual(a) = what SQL returns through the index alone (FORCE INDEX full-range scan whose
//               EXPLAIN PLAN shows IndexedTableAccess on that index; point lookups), and
//   actual(b) = the stored secondary prolly map, read in process (root → table → index map).

import (
	"fmt"
	"os"
	"sort"
	"strings"
	"testing"

	"pgregory.net/rapid"

	"github.com/dolthub/dolt/go/zzverif/vh"
	"github.com/dolthub/dolt/go/zzverif/vsql"
)

const c25Rule = "SQL programs of 10-28 statements drawn by rapid over one table (keyed with 1-2 PK columns, or keyless) with 1-4 initial indexes from {non-unique, unique, multi-column, prefix on TEXT/VARCHAR, collated VARCHAR (0900_bin / 0900_ai_ci / general_ci)}: INSERT (plain/IGNORE/REPLACE/ON DUPLICATE KEY UPDATE), UPDATE (incl. of PK and of indexed columns, LIMIT), DELETE, CREATE/DROP/RENAME INDEX, ADD/DROP/MODIFY/RENAME COLUMN, DROP/ADD PRIMARY KEY, dolt_commit/add/checkout -b/checkout/merge (+ conflicts resolve ours/theirs/manual keep|take|delete through dolt_conflicts_t/abort; the index oracle also runs between the resolution and the commit)/cherry_pick/revert/reset hard|soft/stash push|pop; the branch and main first get 0-3 planned edits of the same base rows (modify/modify, add/add, delete/modify, modify/delete; 4 of 5 on an indexed column; keyless: divergent multiplicities of one row) so that the join leaves every kind of data conflict; statements may fail. After every statement the working root (after version-control statements also STAGED), and at the end every commit of every branch and every branch's working set, are checked: for each secondary index the multiset of (index columns, PK) recomputed from the full-scan rows equals (a) the FORCE INDEX full-range scan (plan verified by EXPLAIN PLAN) and index point lookups, and (b) the stored index map decoded in process. Non-trivial: the program contains a successful UPDATE that changed rows and sets an indexed column, a successful schema change of the indexed table, and a successful merge/cherry-pick/revert that changed the table; distinct by the statement list."

const c25Finding = "C25-keyless-prefix-outofband"

// keyless table with a UNIQUE index and other indexes: INSERT … ON DUPLICATE KEY UPDATE (or
// REPLACE) that hits the unique index leaves the entries of the rejected row in the other
// indexes; with two unique indexes REPLACE then panics on its own leftover entry
const c25FindingODKU = "C25-keyless-odku-partial-index-writes"

// ALTER TABLE … DROP/ADD PRIMARY KEY on a table that still has conflict or constraint-violation
// artifacts panics when the transaction commits (the artifact map is keyed by the old primary key)
const c25FindingPKArtifacts = "C25-pk-change-with-artifacts-panic"

// keyless table whose merge base has another column count (a column was dropped/added since):
// DELETE FROM dolt_conflicts_<t> panics (prollyConflictDeleter.putKeylessHash reads the row at
// the wrong offsets)
const c25FindingConfDelete = "C43-keyless-conflicts-delete-schema-change-panic"

// a merge that rebuilds a UNIQUE index leaves out the rows whose key contains NULL
const c25FindingUniqNull = "C25-merge-unique-rebuild-drops-null-keys"

// index prefix lengths cut multi-byte characters (bytes, not characters): lookups through a
// prefix part of a case/accent-insensitive column miss rows
const c25FindingPrefix = "C25-prefix-bytes-multibyte"

var c25Colls = []string{"utf8mb4_0900_bin", "utf8mb4_0900_ai_ci", "utf8mb4_general_ci"}

var c25ShortStrs = []string{"a", "A", "á", "b", "B", "ab", "Ab", "aB", "abc", "abd", "ABC", "e", "É", "日本", "日本語", "日", "z", "", "0"}

func c25TextPool(maxLen int, allowLong bool) []string {
	p := []string{"hello", "help", "hel", "he", "HELLO", "日本語テキスト", "日本人", "日", "", "abc", "abd"}
	if allowLong {
		if maxLen == 0 {
			p = append(p, "abc"+strings.Repeat("x", 2500), "abd"+strings.Repeat("y", 4000), "日本"+strings.Repeat("語", 1200), "hel"+strings.Repeat("z", 2100))
		} else if maxLen >= 200 {
			p = append(p, "abc"+strings.Repeat("x", maxLen-10), "日本"+strings.Repeat("語", maxLen/2))
		}
	}
	return p
}

type c25State struct {
	rt     *rapid.T
	srv    *vsql.Server
	inproc *sxInProc
	s      *vsql.Session
	db     string
	sch    *sxSchema
	ops    []string
	full   []string // unabridged statements, for failure reports
	nName  int

	branches []string
	cur      string

	// the known finding restricts keyless tables to short TEXT/BLOB values
	shortText bool
	excluded  int
	// finding C25-prefix-bytes-multibyte is listed open: skip the affected point lookups
	skipPrefixMB bool
	// finding C25-keyless-odku-partial-index-writes is listed open: no ODKU / REPLACE on keyless tables with a unique index
	noKeylessODKU bool
	// finding C25-merge-unique-rebuild-drops-null-keys is listed open: after a merge-like statement,
	// entries missing from a UNIQUE index are tolerated when their key contains NULL
	tolerateUniqNull bool
	mergeLike        bool
	// finding C25-pk-change-with-artifacts-panic is listed open: no primary key change while artifacts exist
	noPKChangeWithArtifacts bool
	// finding C43-keyless-conflicts-delete-schema-change-panic is listed open
	noKeylessConfDelete bool

	lastRows [][]string
	rawStmt  string // statement of the next "raw" step

	fUpdIdx, fDDL, fVC bool
	classes            map[string]bool
	planCache          map[string]bool
	validatedCommits   map[string]bool
	nValidations       int
}

func (c *c25State) class(s string) { c.classes[s] = true }

// query is Session.Query with an optional trace of every statement (VERIF_C25_TRACE=1).
func (c *c25State) query(q string) (*vsql.Rows, error) {
	r, err := c.s.Query(q)
	if c25Trace {
		if err != nil {
			fmt.Printf("TRACE %s -- ERR %v\n", q, err)
		} else {
			fmt.Printf("TRACE %s -- %d rows\n", q, len(r.Data))
		}
	}
	return r, err
}

var c25Trace = os.Getenv("VERIF_C25_TRACE") != ""

func (c *c25State) name(prefix string) string {
	c.nName++
	return fmt.Sprintf("%s%d", prefix, c.nName)
}

// exec runs a program statement; an error is recorded and tolerated.
func (c *c25State) exec(q string) error {
	_, err := c.query(q)
	c.full = append(c.full, q+";")
	short := q
	if len(short) > 160 {
		short = short[:160] + "…"
	}
	if err != nil {
		c.ops = append(c.ops, fmt.Sprintf("%s -- ERR %d", short, vsql.ErrCode(err)))
		c.full[len(c.full)-1] += fmt.Sprintf(" -- ERR %d", vsql.ErrCode(err))
		if vsql.ErrCode(err) == 0 && (strings.Contains(err.Error(), "connection") || strings.Contains(err.Error(), "EOF")) {
			// the server dropped the connection: a panic in the statement handler. The state it
			// leaves behind cannot be trusted to be one the property speaks about.
			c.fail("the server dropped the connection while executing: %s (%v)", q, err)
		}
	} else {
		c.ops = append(c.ops, short)
	}
	return err
}

func (c *c25State) refreshSchema(asOf string) *sxSchema {
	q := "SHOW CREATE TABLE t"
	if asOf != "" {
		q += " AS OF '" + asOf + "'"
	}
	r, err := c.query(q)
	if err != nil || len(r.Data) == 0 {
		return nil
	}
	sch, err := sxParseCreate(r.Data[0][1])
	if err != nil {
		c.rt.Fatalf("harness: cannot parse schema: %v", err)
	}
	return sch
}

// ---------------------------------------------------------------------------------------
// generators

func (c *c25State) genVal(col *sxCol, label string) string {
	rt := c.rt
	if col.IsInt {
		k := rapid.IntRange(0, 19).Draw(rt, label+".k")
		switch {
		case k < 3 && !col.NotNull:
			return vsql.Null
		case k < 17:
			return fmt.Sprint(rapid.IntRange(0, 5).Draw(rt, label+".v"))
		default:
			return rapid.SampledFrom([]string{"100", "-1", "2147483647", "7"}).Draw(rt, label+".big")
		}
	}
	if rapid.IntRange(0, 9).Draw(rt, label+".null") == 0 && !col.NotNull {
		return vsql.Null
	}
	if col.IsText || col.MaxLen >= 100 {
		allowLong := true
		if c.shortText && len(c.sch.PK) == 0 {
			allowLong = false
		}
		pool := c25TextPool(col.MaxLen, allowLong)
		return rapid.SampledFrom(pool).Draw(rt, label+".t")
	}
	v := rapid.SampledFrom(c25ShortStrs).Draw(rt, label+".s")
	return v
}

func (c *c25State) genPKVal(label string) string {
	return fmt.Sprint(rapid.IntRange(0, 11).Draw(c.rt, label))
}

func (c *c25State) genRow(label string) []string {
	row := make([]string, len(c.sch.Cols))
	for i := range c.sch.Cols {
		col := &c.sch.Cols[i]
		if c.sch.isPK(col.Name) {
			if i == 0 || !col.IsInt {
				if col.IsInt {
					row[i] = c.genPKVal(label + "." + col.Name)
				} else {
					row[i] = c.genVal(col, label+"."+col.Name)
					if row[i] == vsql.Null {
						row[i] = "a"
					}
				}
			} else {
				row[i] = fmt.Sprint(rapid.IntRange(0, 1).Draw(c.rt, label+"."+col.Name))
			}
			continue
		}
		row[i] = c.genVal(col, label+"."+col.Name)
	}
	return row
}

func (c *c25State) rowLit(row []string) string {
	p := make([]string, len(row))
	for i, v := range row {
		p[i] = sxLit(v, c.sch.Cols[i].IsInt)
	}
	return "(" + strings.Join(p, ",") + ")"
}

func (c *c25State) genPred(label string) string {
	rt := c.rt
	k := rapid.IntRange(0, 9).Draw(rt, label+".kind")
	if k == 0 {
		return "TRUE"
	}
	col := &c.sch.Cols[rapid.IntRange(0, len(c.sch.Cols)-1).Draw(rt, label+".col")]
	if k <= 3 && len(c.sch.PK) > 0 {
		col = c.sch.col(c.sch.PK[0])
	}
	var v string
	if c.sch.isPK(col.Name) && col.IsInt {
		v = c.genPKVal(label + ".pk")
	} else {
		v = c.genVal(col, label+".v")
	}
	if len(v) > 300 {
		v = v[:3]
	}
	q := "`" + col.Name + "`"
	if v == vsql.Null {
		return q + " IS NULL"
	}
	switch rapid.IntRange(0, 5).Draw(rt, label+".op") {
	case 0:
		return q + " >= " + sxLit(v, col.IsInt)
	case 1:
		return q + " <> " + sxLit(v, col.IsInt)
	default:
		return q + " = " + sxLit(v, col.IsInt)
	}
}

func (c *c25State) genIndexCols(label string) string {
	rt := c.rt
	n := rapid.IntRange(1, 3).Draw(rt, label+".n")
	perm := rapid.Permutation(c.sch.colNames()).Draw(rt, label+".cols")
	if n > len(perm) {
		n = len(perm)
	}
	var parts []string
	for _, name := range perm[:n] {
		col := c.sch.col(name)
		p := "`" + name + "`"
		switch {
		case col.IsText:
			p += fmt.Sprintf("(%d)", rapid.IntRange(1, 4).Draw(rt, label+".plen"))
		case !col.IsInt && rapid.IntRange(0, 2).Draw(rt, label+".pfx") == 0:
			p += fmt.Sprintf("(%d)", rapid.IntRange(1, 3).Draw(rt, label+".plen"))
		}
		parts = append(parts, p)
	}
	return strings.Join(parts, ",")
}

// ---------------------------------------------------------------------------------------
// program steps

func (c *c25State) other(label string) (string, bool) {
	var o []string
	for _, b := range c.branches {
		if b != c.cur {
			o = append(o, b)
		}
	}
	if len(o) == 0 {
		return "", false
	}
	return rapid.SampledFrom(o).Draw(c.rt, label), true
}

// changedSince reports whether the table content differs from before (false when the table
// no longer exists, e.g. after reverting the commit that created it).
func (c *c25State) changedSince(before [][]string) bool {
	if c.refreshSchema("") == nil {
		return false
	}
	return !sxRowsEqual(sxSortRows(before), sxSortRows(c.fullScan("")))
}

// markResolved runs DELETE FROM dolt_conflicts_t (manual resolution keeping the current rows).
// While finding C43-keyless-conflicts-delete-schema-change-panic is open, a keyless table whose
// conflict table shows a different number of base_ and our_ columns is resolved with --ours
// instead (same outcome: our rows are kept).
func (c *c25State) markResolved() {
	if c.noKeylessConfDelete && c.sch != nil && len(c.sch.PK) == 0 {
		if r, err := c.query("SELECT * FROM dolt_conflicts_t LIMIT 0"); err == nil {
			nb, no := 0, 0
			for _, col := range r.Cols {
				switch {
				case strings.HasPrefix(col, "base_") && col != "base_cardinality":
					nb++
				case strings.HasPrefix(col, "our_") && col != "our_cardinality" && col != "our_diff_type":
					no++
				}
			}
			if nb != no {
				c.excluded++
				c.class("conflicts_delete_excluded_known")
				_ = c.exec("CALL dolt_conflicts_resolve('--ours', 't')")
				return
			}
		}
	}
	_ = c.exec("DELETE FROM dolt_conflicts_t")
}

func (c *c25State) hasUnique() bool {
	for _, ix := range c.sch.Indexes {
		if ix.Unique {
			return true
		}
	}
	return false
}

func (c *c25State) currentBranch() {
	if v, ok := c.s.Scalar(c.rt, "SELECT active_branch()"); ok {
		c.cur = v
	}
}

func (c *c25State) afterMergeLike(label string) {
	rt := c.rt
	// schema conflicts or data conflicts may be pending
	n, _ := c.s.Scalar(rt, "SELECT COALESCE(SUM(num_conflicts),0) FROM dolt_conflicts")
	sc, err := c.query("SELECT COUNT(*) FROM dolt_schema_conflicts")
	nsc := "0"
	if err == nil && len(sc.Data) > 0 {
		nsc = sc.Data[0][0]
	}
	merging, _ := c.s.Scalar(rt, "SELECT is_merging FROM dolt_merge_status")
	if n != "0" || nsc != "0" {
		c.class("conflicts")
		choice := rapid.SampledFrom([]string{"ours", "ours", "theirs", "theirs", "theirs", "manual_keep", "manual_take", "manual_delete", "abort"}).Draw(rt, label+".resolve")
		if nsc != "0" {
			choice = "abort"
		}
		// what kinds of conflict are being resolved (keyed tables: from the conflict table)
		if c.sch != nil && len(c.sch.PK) > 0 {
			pk := c.sch.PK[0]
			if r, err := c.query(fmt.Sprintf("SELECT (base_%s IS NULL), (our_%s IS NULL), (their_%s IS NULL) FROM dolt_conflicts_t", pk, pk, pk)); err == nil {
				for _, row := range r.Data {
					switch {
					case row[0] == "1":
						c.class("conflict_add_add")
					case row[1] == "1":
						c.class("conflict_ours_deleted_theirs_modified")
					case row[2] == "1":
						c.class("conflict_ours_modified_theirs_deleted")
					default:
						c.class("conflict_modify_modify")
					}
				}
			}
		}
		c.class("resolve_" + choice)
		switch choice {
		case "ours":
			_ = c.exec("CALL dolt_conflicts_resolve('--ours', 't')")
		case "theirs":
			_ = c.exec("CALL dolt_conflicts_resolve('--theirs', 't')")
		case "manual_keep":
			c.markResolved()
		case "manual_take":
			// take their value of one column where both sides still have the row, then mark resolved
			if c.sch != nil && len(c.sch.PK) > 0 {
				var cand []string
				for _, col := range c.sch.Cols {
					if !c.sch.isPK(col.Name) {
						cand = append(cand, col.Name)
					}
				}
				if len(cand) > 0 {
					col := rapid.SampledFrom(cand).Draw(rt, label+".takecol")
					pk := c.sch.PK[0]
					_ = c.exec(fmt.Sprintf("UPDATE dolt_conflicts_t SET `our_%s` = `their_%s` WHERE `our_%s` IS NOT NULL AND `their_%s` IS NOT NULL", col, col, pk, pk))
				}
			}
			c.markResolved()
		case "manual_delete":
			// drop our version of every conflicting row, then mark resolved
			if c.sch != nil && len(c.sch.PK) == 1 {
				pk := c.sch.PK[0]
				_ = c.exec(fmt.Sprintf("DELETE FROM t WHERE `%s` IN (SELECT `our_%s` FROM dolt_conflicts_t)", pk, pk))
			}
			c.markResolved()
		default:
			if merging == "1" {
				_ = c.exec("CALL dolt_merge('--abort')")
			} else {
				_ = c.exec("CALL dolt_cherry_pick('--abort')")
			}
			return
		}
		// the resolution itself must leave every index mirroring the table, before any commit
		if !c.validateWorking(false) {
			return
		}
	}
	if rapid.IntRange(0, 3).Draw(rt, label+".commit") != 0 {
		_ = c.exec("CALL dolt_commit('--force', '-Am', '" + c.name("mc") + "')")
	}
}

var c25EditKinds = []string{
	"insert", "insert", "insert", "insert", "insert",
	"update", "update", "update", "update", "update",
	"updatepk", "delete", "delete",
	"createindex", "createindex", "dropindex", "altercol", "altercol", "pktoggle", "renameindex",
	"commit", "add", "stash",
}

var c25VCKinds = []string{"commit", "commit", "add", "branch", "checkout", "checkout", "merge", "merge", "merge", "cherrypick", "cherrypick", "revert", "revert", "reset", "reset", "stash", "stash"}

// step runs one statement of the given kind ("" = drawn from pool) and validates the
// working root afterwards. It returns false when the table no longer exists (a reset or
// revert went back past its creation): the program ends there.
func (c *c25State) step(i int, pool []string, kind string) bool {
	rt := c.rt
	lb := fmt.Sprintf("s%d", i)
	if c.sch == nil {
		return false
	}
	if kind == "" {
		kind = rapid.SampledFrom(pool).Draw(rt, lb+".kind")
	}
	keyless := len(c.sch.PK) == 0
	vc := false
	switch kind {
	case "raw":
		before := c.lastRows
		if err := c.exec(c.rawStmt); err == nil && strings.HasPrefix(c.rawStmt, "UPDATE t SET `") {
			col := c.rawStmt[len("UPDATE t SET `"):]
			if j := strings.IndexByte(col, '`'); j > 0 && c.sch.indexed(col[:j]) && c.changedSince(before) {
				c.fUpdIdx = true
			}
		}
	case "insert":
		n := rapid.IntRange(1, 4).Draw(rt, lb+".n")
		var rows []string
		var first []string
		for j := 0; j < n; j++ {
			r := c.genRow(fmt.Sprintf("%s.r%d", lb, j))
			if j > 0 && keyless && rapid.IntRange(0, 1).Draw(rt, fmt.Sprintf("%s.dup%d", lb, j)) == 0 {
				r = first
			}
			if j == 0 {
				first = r
			}
			rows = append(rows, c.rowLit(r))
		}
		verb := rapid.SampledFrom([]string{"INSERT", "INSERT", "INSERT IGNORE", "REPLACE", "ODKU"}).Draw(rt, lb+".verb")
		tail := ""
		if (verb == "ODKU" || verb == "REPLACE") && keyless && c.noKeylessODKU && c.hasUnique() {
			verb = "INSERT"
			c.excluded++
			c.class("odku_excluded_known")
		}
		if verb == "ODKU" {
			verb = "INSERT"
			col := c.sch.Cols[rapid.IntRange(0, len(c.sch.Cols)-1).Draw(rt, lb+".odku")]
			if c.sch.isPK(col.Name) {
				col = c.sch.Cols[len(c.sch.Cols)-1]
			}
			tail = fmt.Sprintf(" ON DUPLICATE KEY UPDATE `%s` = VALUES(`%s`)", col.Name, col.Name)
		}
		_ = c.exec(verb + " INTO t VALUES " + strings.Join(rows, ",") + tail)
	case "update":
		n := rapid.IntRange(1, 2).Draw(rt, lb+".nset")
		var sets []string
		setsIdx := false
		for j := 0; j < n; j++ {
			col := &c.sch.Cols[rapid.IntRange(0, len(c.sch.Cols)-1).Draw(rt, fmt.Sprintf("%s.col%d", lb, j))]
			if c.sch.isPK(col.Name) {
				col = &c.sch.Cols[len(c.sch.Cols)-1]
				if c.sch.isPK(col.Name) {
					continue
				}
			}
			if c.sch.indexed(col.Name) {
				setsIdx = true
			}
			if col.IsInt && rapid.IntRange(0, 3).Draw(rt, fmt.Sprintf("%s.inc%d", lb, j)) == 0 {
				sets = append(sets, fmt.Sprintf("`%s` = `%s` + 1", col.Name, col.Name))
			} else {
				sets = append(sets, fmt.Sprintf("`%s` = %s", col.Name, sxLit(c.genVal(col, fmt.Sprintf("%s.v%d", lb, j)), col.IsInt)))
			}
		}
		if len(sets) == 0 {
			return true
		}
		q := "UPDATE t SET " + strings.Join(sets, ", ") + " WHERE " + c.genPred(lb+".where")
		if rapid.IntRange(0, 4).Draw(rt, lb+".limit") == 0 {
			q += fmt.Sprintf(" LIMIT %d", rapid.IntRange(1, 3).Draw(rt, lb+".lim"))
		}
		before := c.lastRows
		if err := c.exec(q); err == nil && setsIdx {
			if c.changedSince(before) {
				c.fUpdIdx = true
			}
		}
	case "updatepk":
		if keyless {
			return true
		}
		pk := c.sch.PK[rapid.IntRange(0, len(c.sch.PK)-1).Draw(rt, lb+".which")]
		_ = c.exec(fmt.Sprintf("UPDATE t SET `%s` = `%s` + %d WHERE %s", pk, pk, rapid.IntRange(1, 12).Draw(rt, lb+".delta"), c.genPred(lb+".where")))
	case "delete":
		q := "DELETE FROM t WHERE " + c.genPred(lb+".where")
		limitOdds := 3
		if keyless {
			limitOdds = 1 // single copies of duplicated rows: the keyless index entry must survive
		}
		if rapid.IntRange(0, limitOdds).Draw(rt, lb+".limit") == 0 {
			q += fmt.Sprintf(" LIMIT %d", rapid.IntRange(1, 3).Draw(rt, lb+".lim"))
		}
		_ = c.exec(q)
	case "createindex":
		u := ""
		if rapid.IntRange(0, 3).Draw(rt, lb+".uniq") == 0 {
			u = "UNIQUE "
		}
		if err := c.exec(fmt.Sprintf("CREATE %sINDEX %s ON t (%s)", u, c.name("i"), c.genIndexCols(lb+".ic"))); err == nil {
			c.fDDL = true
		}
	case "dropindex":
		if len(c.sch.Indexes) == 0 {
			return true
		}
		ix := c.sch.Indexes[rapid.IntRange(0, len(c.sch.Indexes)-1).Draw(rt, lb+".ix")]
		if err := c.exec("DROP INDEX `" + ix.Name + "` ON t"); err == nil {
			c.fDDL = true
		}
	case "renameindex":
		if len(c.sch.Indexes) == 0 {
			return true
		}
		ix := c.sch.Indexes[rapid.IntRange(0, len(c.sch.Indexes)-1).Draw(rt, lb+".ix")]
		if err := c.exec("ALTER TABLE t RENAME INDEX `" + ix.Name + "` TO " + c.name("r")); err == nil {
			c.fDDL = true
		}
	case "altercol":
		var q string
		switch rapid.IntRange(0, 5).Draw(rt, lb+".alter") {
		case 0: // add a column, maybe with an index
			nm := c.name("e")
			typ := rapid.SampledFrom([]string{"INT DEFAULT 7", "INT", "VARCHAR(8) COLLATE utf8mb4_0900_ai_ci DEFAULT 'ab'", "BIGINT NOT NULL DEFAULT 3"}).Draw(rt, lb+".type")
			pos := ""
			if rapid.IntRange(0, 2).Draw(rt, lb+".pos") == 0 && len(c.sch.PK) > 0 {
				pos = " AFTER `" + c.sch.Cols[rapid.IntRange(0, len(c.sch.Cols)-1).Draw(rt, lb+".after")].Name + "`"
			}
			q = fmt.Sprintf("ALTER TABLE t ADD COLUMN %s %s%s", nm, typ, pos)
			if rapid.IntRange(0, 1).Draw(rt, lb+".withidx") == 0 {
				q += fmt.Sprintf(", ADD INDEX %s (%s)", c.name("i"), nm)
			}
		case 1: // drop a non-PK column
			var cand []string
			for _, col := range c.sch.Cols {
				if !c.sch.isPK(col.Name) {
					cand = append(cand, col.Name)
				}
			}
			if len(cand) < 2 {
				return true
			}
			q = "ALTER TABLE t DROP COLUMN `" + rapid.SampledFrom(cand).Draw(rt, lb+".drop") + "`"
		case 2, 3: // modify type / length / collation
			col := c.sch.Cols[rapid.IntRange(0, len(c.sch.Cols)-1).Draw(rt, lb+".mod")]
			var typ string
			switch {
			case col.IsInt:
				typ = rapid.SampledFrom([]string{"BIGINT", "INT", "SMALLINT"}).Draw(rt, lb+".ityp")
			case col.IsText:
				typ = rapid.SampledFrom([]string{"VARCHAR(300)", "TEXT", "LONGTEXT"}).Draw(rt, lb+".ttyp")
			default:
				typ = fmt.Sprintf("VARCHAR(%d) COLLATE %s", rapid.SampledFrom([]int{16, 32, 300}).Draw(rt, lb+".len"), rapid.SampledFrom(c25Colls).Draw(rt, lb+".coll"))
				if col.MaxLen >= 100 && rapid.IntRange(0, 1).Draw(rt, lb+".totext") == 0 {
					typ = "TEXT"
				}
			}
			nn := ""
			if col.NotNull {
				nn = " NOT NULL"
			}
			q = fmt.Sprintf("ALTER TABLE t MODIFY COLUMN `%s` %s%s", col.Name, typ, nn)
		default: // rename
			col := c.sch.Cols[rapid.IntRange(0, len(c.sch.Cols)-1).Draw(rt, lb+".ren")]
			q = fmt.Sprintf("ALTER TABLE t RENAME COLUMN `%s` TO %s", col.Name, c.name("n"))
		}
		if c.noPKChangeWithArtifacts && len(c.sch.PK) > 0 {
			touchesPK := false
			for _, pk := range c.sch.PK {
				if strings.Contains(q, "COLUMN `"+pk+"`") {
					touchesPK = true
				}
			}
			if touchesPK {
				nv, _ := c.s.Scalar(rt, "SELECT COALESCE(SUM(num_violations),0) FROM dolt_constraint_violations")
				nc, _ := c.s.Scalar(rt, "SELECT COALESCE(SUM(num_conflicts),0) FROM dolt_conflicts")
				if nv != "0" || nc != "0" {
					c.excluded++
					c.class("pk_change_excluded_known")
					return true
				}
			}
		}
		if err := c.exec(q); err == nil {
			c.fDDL = true
		}
	case "pktoggle":
		if c.noPKChangeWithArtifacts {
			nv, _ := c.s.Scalar(rt, "SELECT COALESCE(SUM(num_violations),0) FROM dolt_constraint_violations")
			nc, _ := c.s.Scalar(rt, "SELECT COALESCE(SUM(num_conflicts),0) FROM dolt_conflicts")
			if nv != "0" || nc != "0" {
				c.excluded++
				c.class("pk_change_excluded_known")
				return true
			}
		}
		var q string
		if keyless {
			var cand []string
			for _, col := range c.sch.Cols {
				if col.IsInt {
					cand = append(cand, col.Name)
				}
			}
			if len(cand) == 0 {
				return true
			}
			q = "ALTER TABLE t ADD PRIMARY KEY (`" + rapid.SampledFrom(cand).Draw(rt, lb+".pkcol") + "`)"
		} else {
			q = "ALTER TABLE t DROP PRIMARY KEY"
		}
		if err := c.exec(q); err == nil {
			c.fDDL = true
			c.class("pk_toggled")
		}
	case "commit":
		vc = true
		_ = c.exec("CALL dolt_commit('-Am', '" + c.name("m") + "')")
	case "add":
		vc = true
		_ = c.exec("CALL dolt_add('-A')")
	case "branch":
		vc = true
		if len(c.branches) >= 3 {
			return true
		}
		b := c.name("b")
		if err := c.exec("CALL dolt_checkout('-b', '" + b + "')"); err == nil {
			c.branches = append(c.branches, b)
		}
	case "checkout":
		vc = true
		o, ok := c.other(lb + ".to")
		if !ok {
			return true
		}
		_ = c.exec("CALL dolt_checkout('" + o + "')")
	case "merge":
		vc = true
		o, ok := c.other(lb + ".from")
		if !ok {
			return true
		}
		flag := rapid.SampledFrom([]string{"", "", "'--no-ff', ", "'--squash', "}).Draw(rt, lb+".flag")
		before := c.lastRows
		c.mergeLike = true
		err := c.exec("CALL dolt_merge(" + flag + "'" + o + "')")
		if err == nil {
			c.afterMergeLike(lb)
			if c.changedSince(before) {
				c.fVC = true
				c.class("merge_changed_table")
			}
		}
	case "cherrypick":
		vc = true
		o, ok := c.other(lb + ".from")
		if !ok {
			return true
		}
		spec := o + rapid.SampledFrom([]string{"", "", "~1"}).Draw(rt, lb+".anc")
		before := c.lastRows
		c.mergeLike = true
		err := c.exec("CALL dolt_cherry_pick('" + spec + "')")
		if err == nil {
			c.afterMergeLike(lb)
			if c.changedSince(before) {
				c.fVC = true
				c.class("cherrypick_changed_table")
			}
		}
	case "revert":
		vc = true
		spec := rapid.SampledFrom([]string{"HEAD", "HEAD", "HEAD~1"}).Draw(rt, lb+".spec")
		before := c.lastRows
		c.mergeLike = true
		if err := c.exec("CALL dolt_revert('" + spec + "')"); err == nil {
			if c.changedSince(before) {
				c.fVC = true
				c.class("revert_changed_table")
			}
		}
	case "reset":
		vc = true
		q := rapid.SampledFrom([]string{"CALL dolt_reset('--hard')", "CALL dolt_reset('--hard', 'HEAD~1')", "CALL dolt_reset('--soft', 'HEAD~1')", "CALL dolt_reset()"}).Draw(rt, lb+".reset")
		if err := c.exec(q); err == nil {
			c.class("reset")
		}
	case "stash":
		vc = true
		if rapid.IntRange(0, 1).Draw(rt, lb+".pushpop") == 0 {
			_ = c.exec("CALL dolt_stash('push', 'st')")
		} else if err := c.exec("CALL dolt_stash('pop', 'st')"); err == nil {
			c.mergeLike = true
			c.class("stash_pop")
		}
	}
	if vc {
		c.currentBranch()
	}
	return c.validateWorking(vc)
}

// validateWorking checks the working root (and STAGED when asked) of the current branch; false
// when the table no longer exists.
func (c *c25State) validateWorking(staged bool) bool {
	c.sch = c.refreshSchema("")
	if c.sch == nil {
		c.class("table_gone")
		return false
	}
	// the stored maps first: a stale entry of a keyless index makes the SQL index scan crash
	// the whole server process instead of returning a wrong result
	c.lastRows = c.fullScan("")
	c.validateInProc(sxRootSpec{Kind: "working", Branch: c.cur}, c.lastRows, c.sch)
	c.validateSQL("", "WORKING")
	if staged {
		if sch := c.refreshSchema("STAGED"); sch != nil {
			c.validateInProc(sxRootSpec{Kind: "staged", Branch: c.cur}, c.fullScan("STAGED"), sch)
		}
		c.validateSQL("STAGED", "STAGED")
	}
	return true
}

// ---------------------------------------------------------------------------------------
// oracle

func (c *c25State) fullScan(asOf string) [][]string {
	q := "SELECT * FROM t"
	if asOf != "" {
		q += " AS OF '" + asOf + "'"
	}
	r, err := c.query(q)
	if err != nil {
		c.rt.Fatalf("full scan failed: %s: %v\nprogram:\n%s", q, err, strings.Join(c.ops, "\n"))
	}
	return r.Data
}

func (c *c25State) fail(format string, args ...any) {
	c.rt.Fatalf("%s\nschema: %s\nprogram:\n  %s", fmt.Sprintf(format, args...), c.curRaw(), strings.Join(c.full, "\n  "))
}

func (c *c25State) curRaw() string {
	if c.sch == nil {
		return "<none>"
	}
	return c.sch.Raw
}

// expectedEntries projects the full-scan rows on cols (trimming nothing: SQL returns the
// whole column value even through a prefix index).
func c25Project(sch *sxSchema, rows [][]string, cols []string) [][]string {
	idx := make([]int, len(cols))
	for i, n := range cols {
		idx[i] = sch.colIdx(n)
	}
	out := make([][]string, len(rows))
	for i, r := range rows {
		e := make([]string, len(cols))
		for j, k := range idx {
			e[j] = r[k]
		}
		out[i] = e
	}
	return out
}

// validateSQL checks every secondary index of t in the root named by asOf ("" = the
// session's working root) through SQL only.
func (c *c25State) validateSQL(asOf, what string) {
	rt := c.rt
	sch := c.sch
	if asOf != "" {
		sch = c.refreshSchema(asOf)
	}
	if sch == nil {
		return
	}
	rows := c.fullScan(asOf)
	if asOf == "" {
		c.lastRows = rows
	}
	c.nValidations++
	asOfSQL := ""
	if asOf != "" {
		asOfSQL = " AS OF '" + asOf + "'"
	}
	for _, ix := range sch.Indexes {
		var sel, ord []string
		seen := map[string]bool{}
		for _, ic := range ix.Cols {
			sel = append(sel, ic.Name)
			ord = append(ord, "`"+ic.Name+"`")
			seen[ic.Name] = true
		}
		for _, p := range sch.PK {
			if !seen[p] {
				sel = append(sel, p)
			}
		}
		qsel := make([]string, len(sel))
		for i, n := range sel {
			qsel[i] = "`" + n + "`"
		}
		q := fmt.Sprintf("SELECT %s FROM t%s FORCE INDEX (`%s`) ORDER BY %s", strings.Join(qsel, ","), asOfSQL, ix.Name, strings.Join(ord, ","))
		// the plan must go through this index (cached per schema text + index)
		pkey := sch.Raw + "\x00" + ix.Name + "\x00" + asOf
		usesIdx, ok := c.planCache[pkey]
		if !ok {
			pr, err := c.query("EXPLAIN PLAN " + q)
			usesIdx = false
			if err == nil {
				var plan []string
				for _, r := range pr.Data {
					plan = append(plan, r[0])
				}
				p := strings.Join(plan, "\n")
				want := make([]string, len(ix.Cols))
				for i, ic := range ix.Cols {
					want[i] = "t." + ic.Name
				}
				usesIdx = strings.Contains(p, "IndexedTableAccess(t)") && strings.Contains(p, "index: ["+strings.Join(want, ",")+"]") && !strings.Contains(p, "Sort")
			}
			c.planCache[pkey] = usesIdx
		}
		if !usesIdx {
			c.class("plan_not_through_index")
		} else {
			c.class("sql_index_scan")
			r, err := c.query(q)
			if err != nil {
				c.fail("%s: index scan through %s failed: %s: %v", what, ix.Name, q, err)
			}
			want := sxSortRows(c25Project(sch, rows, sel))
			got := sxSortRows(r.Data)
			if !sxRowsEqual(want, got) && !c.knownUniqNull(ix.Unique, len(ix.Cols), want, got) {
				c.fail("%s: index %s (%v) does not mirror the table\n query: %s\n through index: %s\n from full scan: %s", what, ix.Name, ix.Cols, q, sxShowRows(got), sxShowRows(want))
			}
		}
		// point lookups through the index: values of up to two existing rows and one absent value
		c.lookups(sch, ix, rows, asOfSQL, what)
	}
	_ = rt
}

func (c *c25State) lookups(sch *sxSchema, ix sxIndex, rows [][]string, asOfSQL, what string) {
	var probes [][]string // values for the index columns
	if len(rows) > 0 {
		probes = append(probes, c25Project(sch, rows[:1], idxColNames(ix))[0])
		if len(rows) > 2 {
			probes = append(probes, c25Project(sch, rows[len(rows)/2:len(rows)/2+1], idxColNames(ix))[0])
		}
	}
	absent := make([]string, len(ix.Cols))
	for i, ic := range ix.Cols {
		if sch.col(ic.Name).IsInt {
			absent[i] = "77"
		} else {
			absent[i] = "qq"
		}
	}
	probes = append(probes, absent)
	for pi, pv := range probes {
		// use a prefix of the index columns (all of them for the first probe, the first column otherwise)
		n := len(ix.Cols)
		if pi > 0 {
			n = 1
		}
		var conds []string
		tooLong := false
		if c.skipPrefixMB && c25PrefixMBAffected(sch, ix.Cols[:n], pv, rows) {
			c.excluded++
			c.class("lookup_excluded_known")
			continue
		}
		for i := 0; i < n; i++ {
			col := sch.col(ix.Cols[i].Name)
			if len(pv[i]) > 8000 {
				tooLong = true
			}
			if pv[i] == vsql.Null {
				conds = append(conds, "`"+col.Name+"` IS NULL")
			} else {
				conds = append(conds, "`"+col.Name+"` = "+sxLit(pv[i], col.IsInt))
			}
		}
		if tooLong {
			continue
		}
		q := fmt.Sprintf("SELECT * FROM t%s FORCE INDEX (`%s`) WHERE %s", asOfSQL, ix.Name, strings.Join(conds, " AND "))
		r, err := c.query(q)
		if err != nil {
			c.fail("%s: lookup through %s failed: %s: %v", what, ix.Name, q, err)
		}
		var want [][]string
		for _, row := range rows {
			match := true
			for i := 0; i < n; i++ {
				col := sch.col(ix.Cols[i].Name)
				v := row[sch.colIdx(col.Name)]
				if pv[i] == vsql.Null {
					match = match && v == vsql.Null
				} else {
					match = match && v != vsql.Null && sxFold(col.Coll, v) == sxFold(col.Coll, pv[i])
				}
			}
			if match {
				want = append(want, row)
			}
		}
		if !sxRowsEqual(sxSortRows(want), sxSortRows(r.Data)) && !c.knownUniqNullLookup(sch, want, r.Data) {
			c.fail("%s: lookup through index %s disagrees with the full scan\n query: %s\n through index: %s\n full-scan filter: %s", what, ix.Name, q, sxShowRows(sxSortRows(r.Data)), sxShowRows(sxSortRows(want)))
		}
		c.class("sql_lookup")
	}
}

// c25Diff returns the multiset differences want-got and got-want.
func c25Diff(want, got [][]string) (missing, extra [][]string) {
	cnt := map[string]int{}
	for _, r := range got {
		cnt[strings.Join(r, "\x1f")]++
	}
	for _, r := range want {
		k := strings.Join(r, "\x1f")
		if cnt[k] > 0 {
			cnt[k]--
		} else {
			missing = append(missing, r)
		}
	}
	cnt = map[string]int{}
	for _, r := range want {
		cnt[strings.Join(r, "\x1f")]++
	}
	for _, r := range got {
		k := strings.Join(r, "\x1f")
		if cnt[k] > 0 {
			cnt[k]--
		} else {
			extra = append(extra, r)
		}
	}
	return
}

// knownUniqNull reports whether a mismatch has exactly the shape of finding
// C25-merge-unique-rebuild-drops-null-keys: nothing extra, and every missing entry has a NULL
// among its first nIdx (indexed) columns, in a unique index, after a merge-like statement.
func (c *c25State) knownUniqNull(unique bool, nIdx int, want, got [][]string) bool {
	if !c.tolerateUniqNull || !c.mergeLike || !unique {
		return false
	}
	missing, extra := c25Diff(want, got)
	if len(extra) > 0 || len(missing) == 0 {
		return false
	}
	for _, m := range missing {
		hasNull := false
		for i := 0; i < nIdx && i < len(m); i++ {
			if m[i] == vsql.Null {
				hasNull = true
			}
		}
		if !hasNull {
			return false
		}
	}
	c.excluded++
	c.class("uniq_null_excluded_known")
	return true
}

func c25NonASCII(v string) bool {
	if v == vsql.Null {
		return false
	}
	for i := 0; i < len(v); i++ {
		if v[i] >= 0x80 {
			return true
		}
	}
	return false
}

// c25PrefixMBAffected is the signature of finding C25-prefix-bytes-multibyte: the lookup
// constrains a non-binary-collated string column that is a prefix-length part of some index
// of the table (dolt may pick any of them), and the probe or the stored values of that column
// contain multi-byte characters.
func c25PrefixMBAffected(sch *sxSchema, used []sxIdxCol, probe []string, rows [][]string) bool {
	for i, u := range used {
		col := sch.col(u.Name)
		if col.IsInt || col.Coll == "binary" || strings.HasSuffix(col.Coll, "_bin") {
			continue
		}
		prefixed := false
		for _, ix := range sch.Indexes {
			for _, ic := range ix.Cols {
				if ic.Name == u.Name && ic.Prefix > 0 {
					prefixed = true
				}
			}
		}
		if !prefixed {
			continue
		}
		if c25NonASCII(probe[i]) {
			return true
		}
		k := sch.colIdx(u.Name)
		for _, r := range rows {
			if c25NonASCII(r[k]) {
				return true
			}
		}
	}
	return false
}

// knownUniqNullLookup: the rows a lookup misses all have a NULL in a column of some unique
// index (dolt may serve the lookup from any index on the column).
func (c *c25State) knownUniqNullLookup(sch *sxSchema, want, got [][]string) bool {
	if !c.tolerateUniqNull || !c.mergeLike {
		return false
	}
	missing, extra := c25Diff(want, got)
	if len(extra) > 0 || len(missing) == 0 {
		return false
	}
	for _, m := range missing {
		hasNull := false
		for _, ix := range sch.Indexes {
			if !ix.Unique {
				continue
			}
			for _, ic := range ix.Cols {
				if m[sch.colIdx(ic.Name)] == vsql.Null {
					hasNull = true
				}
			}
		}
		if !hasNull {
			return false
		}
	}
	c.excluded++
	c.class("uniq_null_excluded_known")
	return true
}

func idxColNames(ix sxIndex) []string {
	out := make([]string, len(ix.Cols))
	for i, c := range ix.Cols {
		out[i] = c.Name
	}
	return out
}

// validateInProc compares the stored index maps of a root with the entries recomputed from
// the given full-scan rows (read through SQL for the same root).
func (c *c25State) validateInProc(spec sxRootSpec, rows [][]string, sch *sxSchema) {
	if sch == nil {
		return
	}
	stored, err := c.inproc.readIndexes(c.db, spec, "t")
	if err == errSxUnsupported {
		c.class("inproc_unsupported_type")
		return
	}
	if err != nil {
		c.fail("%s: cannot read the stored indexes in process: %v", spec, err)
	}
	if stored == nil {
		c.fail("%s: table t visible through SQL but not in the stored root", spec)
	}
	if len(stored) != len(sch.Indexes) {
		var names []string
		for n := range stored {
			names = append(names, n)
		}
		sort.Strings(names)
		c.fail("%s: stored index set %v differs from the schema SQL shows (%d indexes)", spec, names, len(sch.Indexes))
	}
	keyless := len(sch.PK) == 0
	// A keyless table stores one clustered entry (row hash -> cardinality + values) per distinct
	// stored row, and each secondary index holds one entry per clustered entry. Identical rows
	// can live under several hashes (e.g. after a column was dropped by a merge), so the
	// expected index entries are computed from the clustered entries, which in turn must
	// expand (entry x cardinality) to exactly the rows the SQL full scan returned.
	var keylessSrc [][]string
	if keyless {
		prim, err := c.inproc.readKeylessPrimary(c.db, spec, "t")
		if err == errSxUnsupported {
			c.class("inproc_unsupported_type")
			return
		}
		if err != nil || prim == nil {
			c.fail("%s: cannot read the clustered map of the keyless table in process: %v", spec, err)
		}
		var expanded [][]string
		for i, m := range prim.Rows {
			r := make([]string, len(sch.Cols))
			for j, col := range sch.Cols {
				v, ok := m[col.Name]
				if !ok {
					c.fail("%s: stored row has no column %s", spec, col.Name)
				}
				r[j] = v
			}
			keylessSrc = append(keylessSrc, r)
			if prim.Cards[i] < 1 {
				c.fail("%s: stored keyless row %s has cardinality %d", spec, sxShowRow(r), prim.Cards[i])
			}
			for k := 0; k < prim.Cards[i]; k++ {
				expanded = append(expanded, r)
			}
		}
		if !sxRowsEqual(sxSortRows(expanded), sxSortRows(rows)) {
			c.fail("%s: the stored clustered map of the keyless table (entries x cardinality) differs from the SQL full scan\n stored:    %s\n full scan: %s", spec, sxShowRows(sxSortRows(expanded)), sxShowRows(sxSortRows(rows)))
		}
		distinct := map[string]bool{}
		for _, r := range keylessSrc {
			distinct[strings.Join(r, "\x1f")] = true
		}
		if len(distinct) != len(keylessSrc) {
			c.class("keyless_identical_rows_under_several_hashes")
		}
	}
	for _, ix := range sch.Indexes {
		si, ok := stored[ix.Name]
		if !ok {
			c.fail("%s: index %s has no stored map", spec, ix.Name)
		}
		pfx := map[string]int{}
		for _, ic := range ix.Cols {
			pfx[ic.Name] = ic.Prefix
		}
		src := rows
		if keyless {
			src = keylessSrc
		}
		want := c25Project(sch, src, si.Cols)
		for _, e := range want {
			for j, n := range si.Cols {
				if p := pfx[n]; p > 0 {
					e[j] = sxTrimBytes(e[j], p)
				}
			}
		}
		ws, gs := sxSortRows(want), sxSortRows(si.Entries)
		if !sxRowsEqual(ws, gs) {
			// tolerate a character-based prefix rule (MySQL's) if dolt ever adopts it
			alt := c25Project(sch, src, si.Cols)
			for _, e := range alt {
				for j, n := range si.Cols {
					if p := pfx[n]; p > 0 {
						e[j] = sxTrimChars(e[j], p)
					}
				}
			}
			if !sxRowsEqual(sxSortRows(alt), gs) && !c.knownUniqNull(ix.Unique, len(ix.Cols), ws, gs) {
				c.fail("%s: stored index %s %v (key columns %v) does not mirror the table\n stored entries:   %s\n recomputed (rows): %s", spec, ix.Name, ix.Cols, si.Cols, sxShowRows(gs), sxShowRows(ws))
			}
		}
		c.class("inproc_index")
		if keyless {
			c.class("inproc_keyless_index")
		}
	}
}

// finalSweep validates every commit of every branch (SQL + in process) and every branch's
// working and staged roots (in process, rows read through the revision database).
func (c *c25State) finalSweep() {
	rt := c.rt
	br := c.s.MustQuery(rt, "SELECT name FROM dolt_branches ORDER BY name")
	for _, b := range br.Data {
		lg, err := c.query("SELECT commit_hash FROM dolt_log('" + b[0] + "')")
		if err != nil {
			c.fail("dolt_log(%s): %v", b[0], err)
		}
		for _, h := range lg.Data {
			if c.validatedCommits[h[0]] {
				continue
			}
			c.validatedCommits[h[0]] = true
			sch := c.refreshSchema(h[0])
			if sch == nil {
				continue
			}
			c.validateInProc(sxRootSpec{Kind: "commit", Hash: h[0]}, c.fullScan(h[0]), sch)
			c.validateSQL(h[0], "commit "+h[0])
			c.class("commit_validated")
		}
		// the branch's working set, rows through the revision database
		wr, err := c.query(fmt.Sprintf("SELECT * FROM `%s/%s`.t", c.db, b[0]))
		if err != nil {
			continue
		}
		sr, err := c.query(fmt.Sprintf("SHOW CREATE TABLE `%s/%s`.t", c.db, b[0]))
		if err != nil || len(sr.Data) == 0 {
			continue
		}
		sch, err := sxParseCreate(sr.Data[0][1])
		if err != nil {
			rt.Fatalf("harness: %v", err)
		}
		c.validateInProc(sxRootSpec{Kind: "working", Branch: b[0]}, wr.Data, sch)
		c.class("branch_ws_validated")
	}
	// staged root of the current branch in process
	if sch := c.refreshSchema("STAGED"); sch != nil {
		c.validateInProc(sxRootSpec{Kind: "staged", Branch: c.cur}, c.fullScan("STAGED"), sch)
	}
}

// ---------------------------------------------------------------------------------------

func c25Case(rt *rapid.T, srv *vsql.Server, admin *vsql.Session, rec *vh.Recorder, shortText, skipPrefixMB, noKeylessODKU, tolerateUniqNull, noPKChangeWithArtifacts, noKeylessConfDelete bool) {
	db := srv.NewDBName()
	admin.MustExec(rt, "CREATE DATABASE "+db)
	defer admin.Exec("DROP DATABASE " + db)
	s := srv.Session(rt, "p", db)
	s.MustExec(rt, "SET @@dolt_allow_commit_conflicts = 1")
	s.MustExec(rt, "SET @@dolt_force_transaction_commit = 1")
	c := &c25State{rt: rt, srv: srv, inproc: &sxInProc{srv: srv}, s: s, db: db, branches: []string{"main"}, cur: "main",
		shortText: shortText, skipPrefixMB: skipPrefixMB, noKeylessODKU: noKeylessODKU, tolerateUniqNull: tolerateUniqNull, noPKChangeWithArtifacts: noPKChangeWithArtifacts, noKeylessConfDelete: noKeylessConfDelete, classes: map[string]bool{}, planCache: map[string]bool{}, validatedCommits: map[string]bool{}}
	defer func() { c.s.Close() }()

	// schema
	shape := rapid.SampledFrom([]string{"pk", "pk", "pk", "pk2", "keyless", "keyless"}).Draw(rt, "shape")
	coll := rapid.SampledFrom(c25Colls).Draw(rt, "b.coll")
	ctype := rapid.SampledFrom([]string{"TEXT", "TEXT", "VARCHAR(300)", "BLOB"}).Draw(rt, "c.type")
	var cols []string
	switch shape {
	case "pk":
		cols = append(cols, "pk INT NOT NULL")
	case "pk2":
		cols = append(cols, "pk INT NOT NULL", "q INT NOT NULL")
	}
	cols = append(cols, "a INT", fmt.Sprintf("b VARCHAR(16) COLLATE %s", coll), "c "+ctype, "d BIGINT")
	switch shape {
	case "pk":
		cols = append(cols, "PRIMARY KEY (pk)")
	case "pk2":
		cols = append(cols, "PRIMARY KEY (pk, q)")
	}
	cpfx := fmt.Sprintf("c(%d)", rapid.IntRange(1, 4).Draw(rt, "c.pfx"))
	pool := []string{"KEY ia (a)", "UNIQUE KEY ua (a)", "KEY ib (b)", "UNIQUE KEY ub (b)", "KEY iab (a,b)", "KEY iba (b,a)", "KEY ic (" + cpfx + ")",
		"KEY ica (" + cpfx + ",a)", "KEY ibp (b(2))", "KEY id (d)", "UNIQUE KEY uad (a,d)", "KEY idab (d,a,b)", "UNIQUE KEY ubp (b(1), d)"}
	nidx := rapid.IntRange(1, 4).Draw(rt, "nidx")
	perm := rapid.Permutation(pool).Draw(rt, "idx")
	usedNames := map[string]bool{}
	for _, def := range perm {
		if nidx == 0 {
			break
		}
		nm := strings.Fields(def)[len(strings.Fields(def))-2]
		if usedNames[nm] {
			continue
		}
		usedNames[nm] = true
		cols = append(cols, def)
		nidx--
	}
	create := "CREATE TABLE t (" + strings.Join(cols, ", ") + ")"
	if err := c.exec(create); err != nil {
		rt.Fatalf("harness: %s: %v", create, err)
	}
	c.sch = c.refreshSchema("")
	if c.shortText && len(c.sch.PK) == 0 {
		c.excluded = 1
	}
	// seed rows and a first commit so every later commit has the table
	for i := 0; i < rapid.IntRange(0, 3).Draw(rt, "seedStmts"); i++ {
		var rows []string
		for j := 0; j < rapid.IntRange(1, 5).Draw(rt, fmt.Sprintf("seed%d.n", i)); j++ {
			rows = append(rows, c.rowLit(c.genRow(fmt.Sprintf("seed%d.r%d", i, j))))
		}
		_ = c.exec("INSERT IGNORE INTO t VALUES " + strings.Join(rows, ","))
	}
	_ = c.exec("CALL dolt_commit('-Am', 'init')")
	c.validateSQL("", "WORKING")

	// program skeleton: edits on main, a branch with its own edits, more edits on main, a
	// merge-like statement, then a free mix; version-control statements are also sprinkled in
	// the edit phases.
	i := 0
	run := func(n int, pool []string) bool {
		for k := 0; k < n; k++ {
			i++
			if !c.step(i, pool, "") {
				return false
			}
		}
		return true
	}
	one := func(kind string) bool { i++; return c.step(i, nil, kind) }
	mixed := append(append([]string{}, c25EditKinds...), c25VCKinds...)
	raws := func(stmts []string) bool {
		for _, q := range stmts {
			c.rawStmt = q
			if !one("raw") {
				return false
			}
		}
		return true
	}
	var onBranch, onMain []string
	ok := run(rapid.IntRange(1, 5).Draw(rt, "phaseA"), c25EditKinds) && one("commit") && one("branch")
	if ok {
		// edits of the same rows on both sides: every kind of data conflict the merge can leave
		onBranch, onMain = c.conflictPlan("cf")
	}
	ok = ok && raws(onBranch) &&
		run(rapid.IntRange(0, 4).Draw(rt, "phaseB"), c25EditKinds) && one("commit") && one("checkout") &&
		raws(onMain) &&
		run(rapid.IntRange(0, 3).Draw(rt, "phaseC"), c25EditKinds) && one("commit") &&
		one(rapid.SampledFrom([]string{"merge", "merge", "cherrypick"}).Draw(rt, "join")) &&
		run(rapid.IntRange(2, 10).Draw(rt, "phaseD"), mixed)
	_ = ok
	c.finalSweep()

	var cl []string
	for k := range c.classes {
		cl = append(cl, k)
	}
	sort.Strings(cl)
	cl = append(cl, "shape="+shape)
	if c.fUpdIdx {
		cl = append(cl, "update_indexed_col")
	}
	if c.fDDL {
		cl = append(cl, "ddl")
	}
	if c.fVC {
		cl = append(cl, "vc_changed_table")
	}
	rec.Excluded(c.excluded)
	rec.Case(strings.Join(c.ops, " ; "), c.fUpdIdx && c.fDDL && c.fVC, cl...)
}

// c25Pinned is the reproduction of finding C25-keyless-prefix-outofband. It returns "" when the
// index mirrors the table, else a description.
func c25Pinned(t *testing.T, srv *vsql.Server, admin *vsql.Session) string {
	db := srv.NewDBName()
	admin.MustExec(t, "CREATE DATABASE "+db)
	defer admin.Exec("DROP DATABASE " + db)
	s := srv.Session(t, "pin", db)
	defer s.Close()
	s.MustExec(t, "CREATE TABLE t (a INT, c TEXT, KEY ic (c(3)))")
	s.MustExec(t, "INSERT INTO t VALUES (3, REPEAT('abcdefghij', 500))")
	s.MustExec(t, "DELETE FROM t WHERE a = 3")
	st, err := (&sxInProc{srv: srv}).readIndexes(db, sxRootSpec{Kind: "working", Branch: "main"}, "t")
	if err != nil {
		t.Fatalf("pinned: %v", err)
	}
	if n := len(st["ic"].Entries); n != 0 {
		return fmt.Sprintf("keyless table, KEY ic (c(3)) on TEXT, INSERT of a 5000-byte value then DELETE of that row: table is empty, stored index ic still has %d entries %s", n, sxShowRows(st["ic"].Entries))
	}
	return ""
}

// conflictPlan draws 0-3 pairs of statements (one for the branch, one for main) that touch the
// same row of the committed base differently: modify/modify (same column, different values),
// add/add (same new key, different values), delete/modify and modify/delete, preferring indexed
// columns. Keyless tables get divergent changes of one row's multiplicity instead.
func (c *c25State) conflictPlan(label string) (onBranch, onMain []string) {
	rt := c.rt
	n := rapid.SampledFrom([]int{0, 1, 1, 2, 2, 3}).Draw(rt, label+".n")
	if n == 0 || c.sch == nil {
		return
	}
	rows := sxSortRows(c.lastRows)
	var nonPK, indexedNonPK []*sxCol
	for i := range c.sch.Cols {
		col := &c.sch.Cols[i]
		if c.sch.isPK(col.Name) {
			continue
		}
		nonPK = append(nonPK, col)
		if c.sch.indexed(col.Name) {
			indexedNonPK = append(indexedNonPK, col)
		}
	}
	if len(nonPK) == 0 {
		return
	}
	pickCol := func(lb string) *sxCol {
		if len(indexedNonPK) > 0 && rapid.IntRange(0, 4).Draw(rt, lb+".indexed") != 0 {
			return indexedNonPK[rapid.IntRange(0, len(indexedNonPK)-1).Draw(rt, lb+".icol")]
		}
		return nonPK[rapid.IntRange(0, len(nonPK)-1).Draw(rt, lb+".col")]
	}
	twoVals := func(col *sxCol, cur, lb string) (string, string) {
		a := c.genVal(col, lb+".a")
		b := c.genVal(col, lb+".b")
		for k := 0; k < 6 && (a == b || a == cur || b == cur); k++ {
			if col.IsInt {
				a, b = fmt.Sprint(20+k), fmt.Sprint(40+k)
			} else {
				a, b = fmt.Sprintf("m%d", k), fmt.Sprintf("n%d", k)
			}
		}
		return a, b
	}
	keyless := len(c.sch.PK) == 0
	used := map[int]bool{}
	for j := 0; j < n; j++ {
		lb := fmt.Sprintf("%s.%d", label, j)
		kind := rapid.SampledFrom([]string{"modmod", "addadd", "delmod", "delmod", "moddel", "moddel"}).Draw(rt, lb+".kind")
		if keyless {
			// a row of the base gets copies added on one side and removed/added on the other
			if len(rows) == 0 {
				continue
			}
			ri := rapid.IntRange(0, len(rows)-1).Draw(rt, lb+".row")
			if used[ri] {
				continue
			}
			used[ri] = true
			var conds []string
			for i, col := range c.sch.Cols {
				if rows[ri][i] == vsql.Null {
					conds = append(conds, "`"+col.Name+"` IS NULL")
				} else if len(rows[ri][i]) <= 64 {
					conds = append(conds, "`"+col.Name+"` = "+sxLit(rows[ri][i], col.IsInt))
				}
			}
			ins := "INSERT INTO t VALUES " + c.rowLit(rows[ri])
			del := "DELETE FROM t WHERE " + strings.Join(conds, " AND ")
			switch kind {
			case "modmod", "addadd":
				onBranch = append(onBranch, ins)
				onMain = append(onMain, ins+","+c.rowLit(rows[ri]))
			case "delmod":
				onBranch = append(onBranch, del)
				onMain = append(onMain, ins)
			default:
				onBranch = append(onBranch, ins)
				onMain = append(onMain, del)
			}
			continue
		}
		if kind == "addadd" {
			r1 := c.genRow(lb + ".r1")
			r2 := append([]string(nil), r1...)
			pki := c.sch.colIdx(c.sch.PK[0])
			if !c.sch.Cols[pki].IsInt {
				continue
			}
			r1[pki] = fmt.Sprint(12 + j)
			r2[pki] = r1[pki]
			col := pickCol(lb)
			ci := c.sch.colIdx(col.Name)
			r1[ci], r2[ci] = twoVals(col, "", lb)
			onBranch = append(onBranch, "INSERT INTO t VALUES "+c.rowLit(r1))
			onMain = append(onMain, "INSERT INTO t VALUES "+c.rowLit(r2))
			continue
		}
		if len(rows) == 0 {
			continue
		}
		ri := rapid.IntRange(0, len(rows)-1).Draw(rt, lb+".row")
		if used[ri] {
			continue
		}
		used[ri] = true
		var conds []string
		for _, pk := range c.sch.PK {
			i := c.sch.colIdx(pk)
			conds = append(conds, "`"+pk+"` = "+sxLit(rows[ri][i], c.sch.Cols[i].IsInt))
		}
		where := strings.Join(conds, " AND ")
		col := pickCol(lb)
		v1, v2 := twoVals(col, rows[ri][c.sch.colIdx(col.Name)], lb)
		upd := func(v string) string {
			return fmt.Sprintf("UPDATE t SET `%s` = %s WHERE %s", col.Name, sxLit(v, col.IsInt), where)
		}
		del := "DELETE FROM t WHERE " + where
		switch kind {
		case "modmod":
			onBranch = append(onBranch, upd(v1))
			onMain = append(onMain, upd(v2))
		case "delmod":
			onBranch = append(onBranch, del)
			onMain = append(onMain, upd(v2))
		default:
			onBranch = append(onBranch, upd(v1))
			onMain = append(onMain, del)
		}
	}
	return
}

// c25PinnedODKU is the reproduction of finding C25-keyless-odku-partial-index-writes.
func c25PinnedODKU(t *testing.T, srv *vsql.Server, admin *vsql.Session) string {
	db := srv.NewDBName()
	admin.MustExec(t, "CREATE DATABASE "+db)
	defer admin.Exec("DROP DATABASE " + db)
	s := srv.Session(t, "pin", db)
	defer s.Close()
	s.MustExec(t, "CREATE TABLE t (a INT, b INT, c INT, UNIQUE KEY ub (b), KEY ia (a), KEY ic (c), KEY ica (c,a))")
	s.MustExec(t, "INSERT INTO t VALUES (1,1,1)")
	// which indexes keep the rejected row's entries depends on map iteration order inside the
	// table writer: several rejected rows make the reproduction reliable
	for i := 3; i <= 8; i++ {
		s.MustExec(t, fmt.Sprintf("INSERT INTO t VALUES (%d,1,%d) ON DUPLICATE KEY UPDATE c = 9", i, i))
	}
	st, err := (&sxInProc{srv: srv}).readIndexes(db, sxRootSpec{Kind: "working", Branch: "main"}, "t")
	if err != nil {
		t.Fatalf("pinned: %v", err)
	}
	var bad []string
	for _, n := range []string{"ia", "ic", "ica", "ub"} {
		if len(st[n].Entries) != 1 {
			bad = append(bad, fmt.Sprintf("%s=%s", n, sxShowRows(st[n].Entries)))
		}
	}
	if len(bad) > 0 {
		return "keyless table (a,b,c) with UNIQUE (b) and three more indexes, row (1,1,1), then INSERT (i,1,i) ON DUPLICATE KEY UPDATE c = 9 for i = 3..8: table holds one row (1,1,9) but stored indexes hold " + strings.Join(bad, " ")
	}
	return ""
}

// c25PinnedPKArtifacts is the reproduction of finding C25-pk-change-with-artifacts-panic.
func c25PinnedPKArtifacts(t *testing.T, srv *vsql.Server, admin *vsql.Session) string {
	db := srv.NewDBName()
	admin.MustExec(t, "CREATE DATABASE "+db)
	defer admin.Exec("DROP DATABASE " + db)
	s := srv.Session(t, "pin", db)
	defer func() { s.Close() }()
	for _, q := range []string{
		"CREATE TABLE t (pk INT PRIMARY KEY, u INT, UNIQUE KEY uu (u))",
		"INSERT INTO t VALUES (1,1)",
		"CALL dolt_commit('-Am','base')",
		"CALL dolt_branch('b')",
		"INSERT INTO t VALUES (2,5)",
		"CALL dolt_commit('-Am','main')",
		"CALL dolt_checkout('b')",
		"INSERT INTO t VALUES (3,5)",
		"CALL dolt_commit('-Am','b')",
		"CALL dolt_checkout('main')",
		"SET @@dolt_force_transaction_commit = 1",
		"CALL dolt_merge('b')",
		"DELETE FROM t WHERE pk = 3",
	} {
		s.MustExec(t, q)
	}
	err := s.Exec("ALTER TABLE t DROP PRIMARY KEY")
	if err != nil && vsql.ErrCode(err) == 0 {
		return fmt.Sprintf("table with 2 listed unique-index violations (one row since deleted): ALTER TABLE t DROP PRIMARY KEY drops the client connection (%v); server log: index out of range in prolly.multiArtifactTypeItr.Next", err)
	}
	return ""
}

// c25PinnedConfDelete is the reproduction of finding C43-keyless-conflicts-delete-schema-change-panic.
func c25PinnedConfDelete(t *testing.T, srv *vsql.Server, admin *vsql.Session) string {
	db := srv.NewDBName()
	admin.MustExec(t, "CREATE DATABASE "+db)
	defer admin.Exec("DROP DATABASE " + db)
	s := srv.Session(t, "pin", db)
	defer func() { s.Close() }()
	for _, q := range []string{
		"SET @@dolt_allow_commit_conflicts = 1",
		"CREATE TABLE t (a INT, b VARCHAR(16), d BIGINT)",
		"INSERT INTO t VALUES (NULL,'A',NULL)",
		"CALL dolt_commit('-Am','init')",
		"ALTER TABLE t DROP COLUMN a",
		"CALL dolt_commit('-Am','m2')",
		"CALL dolt_checkout('-b','b3')",
		"INSERT INTO t VALUES ('x',1)",
		"CALL dolt_commit('-Am','m5')",
		"CALL dolt_checkout('main')",
		"INSERT INTO t VALUES ('y',2)",
		"CALL dolt_commit('-Am','m6')",
		"CALL dolt_cherry_pick('b3~1')",
	} {
		s.MustExec(t, q)
	}
	err := s.Exec("DELETE FROM dolt_conflicts_t")
	if err != nil && vsql.ErrCode(err) == 0 {
		return fmt.Sprintf("keyless table, cherry-pick of the commit that dropped column a (its parent still has 3 columns): DELETE FROM dolt_conflicts_t drops the client connection (%v); server log: impossible conversion in prollyConflictDeleter.putKeylessHash", err)
	}
	return ""
}

// c25PinnedUniqNull is the reproduction of finding C25-merge-unique-rebuild-drops-null-keys.
func c25PinnedUniqNull(t *testing.T, srv *vsql.Server, admin *vsql.Session) string {
	db := srv.NewDBName()
	admin.MustExec(t, "CREATE DATABASE "+db)
	defer admin.Exec("DROP DATABASE " + db)
	s := srv.Session(t, "pin", db)
	defer s.Close()
	for _, q := range []string{
		"CREATE TABLE t (pk INT PRIMARY KEY, a INT, d INT, UNIQUE KEY ua (a))",
		"INSERT INTO t VALUES (1,NULL,1),(2,NULL,2),(3,30,3)",
		"CALL dolt_commit('-Am','base')",
		"CALL dolt_checkout('-b','b')",
		"ALTER TABLE t RENAME INDEX ua TO ra",
		"UPDATE t SET a = 31 WHERE pk = 3",
		"CALL dolt_commit('-Am','b')",
		"CALL dolt_checkout('main')",
		"CREATE INDEX idd ON t (d)",
		"CALL dolt_commit('-Am','m')",
		"CALL dolt_merge('b')",
	} {
		s.MustExec(t, q)
	}
	st, err := (&sxInProc{srv: srv}).readIndexes(db, sxRootSpec{Kind: "working", Branch: "main"}, "t")
	if err != nil {
		t.Fatalf("pinned: %v", err)
	}
	if st["ra"] == nil || len(st["ra"].Entries) != 3 {
		got := "<no index ra>"
		if st["ra"] != nil {
			got = sxShowRows(st["ra"].Entries)
		}
		return "UNIQUE KEY (a) with rows a = NULL, NULL, 30; branch renames the index and sets 30 -> 31, main adds another index, merge: table has 3 rows, rebuilt unique index holds " + got
	}
	return ""
}

// c25PinnedPrefix is the reproduction of finding C25-prefix-bytes-multibyte.
func c25PinnedPrefix(t *testing.T, srv *vsql.Server, admin *vsql.Session) string {
	db := srv.NewDBName()
	admin.MustExec(t, "CREATE DATABASE "+db)
	defer admin.Exec("DROP DATABASE " + db)
	s := srv.Session(t, "pin", db)
	defer s.Close()
	s.MustExec(t, "CREATE TABLE t (pk INT PRIMARY KEY, b VARCHAR(16) COLLATE utf8mb4_general_ci, KEY ib (b(1)))")
	s.MustExec(t, "INSERT INTO t VALUES (1,'a'),(2,'á'),(3,'A')")
	through := s.MustQuery(t, "SELECT pk FROM t WHERE b = 'a' ORDER BY pk")
	s.MustExec(t, "DROP INDEX ib ON t")
	scan := s.MustQuery(t, "SELECT pk FROM t WHERE b = 'a' ORDER BY pk")
	if !vsql.EqualStrings(through.Ordered(), scan.Ordered()) {
		return fmt.Sprintf("VARCHAR general_ci column with KEY (b(1)), rows 'a','á','A': WHERE b = 'a' returns pk %s with the prefix index and pk %s without it", vsql.Show(through.Ordered()), vsql.Show(scan.Ordered()))
	}
	return ""
}

func TestVerif_C25(t *testing.T) {
	rec := vh.NewRecorder("C25", "programs", "exploration", c25Rule,
		"statements of the generated program may fail; nothing is asserted about their outcome, only that indexes mirror whatever rows the full scan returns",
		"the full scan `SELECT * FROM t [AS OF r]` is trusted as the reading of the primary rows (its plan is a plain Table scan)",
		"index prefix lengths are compared as dolt applies them (bytes); a character-based rule is accepted as well",
		"collation equality classes are modelled only for the generated alphabet (ASCII, á, É, CJK; no trailing spaces)",
		"in-process reading decodes integer and string/byte key fields only (the generator creates no other indexed types)",
		"keyless tables: the stored index must hold one entry per stored clustered entry (row hash); the clustered entries x cardinality must equal the SQL full scan. Identical rows stored under several hashes (seen after a merge that drops a column) are accepted as long as SQL reads agree",
		"while finding "+c25Finding+" is listed open, keyless tables get no out-of-band (long) TEXT/BLOB values; such cases are counted as excluded_known",
		"while finding "+c25FindingODKU+" is listed open, keyless tables with a unique index get no INSERT … ON DUPLICATE KEY UPDATE and no REPLACE (plain INSERT instead; counted as excluded_known)",
		"a connection dropped by the server during a program statement fails the case (it means a panic in the statement handler)",
		"while finding "+c25FindingUniqNull+" is listed open, after a merge/cherry-pick/revert/stash-pop statement a UNIQUE index may miss entries whose indexed columns contain NULL (and only those; nothing extra): such mismatches are skipped and counted as excluded_known",
		"while finding "+c25FindingPKArtifacts+" is listed open, DROP/ADD PRIMARY KEY and MODIFY/RENAME of a primary-key column are not issued while the table has conflict or constraint-violation artifacts (counted as excluded_known)",
		"while finding "+c25FindingConfDelete+" is listed open, conflicts of a keyless table whose conflict table shows different numbers of base_ and our_ columns are marked resolved with --ours instead of DELETE FROM dolt_conflicts_t (counted as excluded_known)",
		"while finding "+c25FindingPrefix+" is listed open, point lookups constraining a non-binary-collated column that is a prefix-length part of some index are skipped when the probe or the column holds multi-byte characters (counted as excluded_known); full-range index scans and the stored-map comparison stay active")
	defer rec.Write(t)
	srv, stop := sxStart(t, "c25")
	defer stop()
	admin := srv.Session(t, "admin", "")
	open := vh.OpenFinding("C25", c25Finding)
	t.Run("pinned_keyless_prefix_outofband", func(t *testing.T) {
		if msg := c25Pinned(t, srv, admin); msg != "" {
			if open {
				vh.ReportKnown("C25", c25Finding, msg)
				return
			}
			vh.NoteViolation(t.Name(), "", `{"sql":["CREATE TABLE t (a INT, c TEXT, KEY ic (c(3)))","INSERT INTO t VALUES (3, REPEAT('abcdefghij', 500))","DELETE FROM t WHERE a = 3"],"observed":"`+strings.ReplaceAll(msg, `"`, `'`)+`"}`)
			t.Errorf("%s", msg)
		}
	})
	openPfx := vh.OpenFinding("C25", c25FindingPrefix)
	t.Run("pinned_prefix_bytes_multibyte", func(t *testing.T) {
		if msg := c25PinnedPrefix(t, srv, admin); msg != "" {
			if openPfx {
				vh.ReportKnown("C25", c25FindingPrefix, msg)
				return
			}
			vh.NoteViolation(t.Name(), "", `{"sql":["CREATE TABLE t (pk INT PRIMARY KEY, b VARCHAR(16) COLLATE utf8mb4_general_ci, KEY ib (b(1)))","INSERT INTO t VALUES (1,'a'),(2,'á'),(3,'A')","SELECT pk FROM t WHERE b = 'a'"],"observed":"`+strings.ReplaceAll(msg, `"`, `'`)+`"}`)
			t.Errorf("%s", msg)
		}
	})
	openODKU := vh.OpenFinding("C25", c25FindingODKU)
	t.Run("pinned_keyless_odku_partial", func(t *testing.T) {
		if msg := c25PinnedODKU(t, srv, admin); msg != "" {
			if openODKU {
				vh.ReportKnown("C25", c25FindingODKU, msg)
				return
			}
			vh.NoteViolation(t.Name(), "", `{"sql":["CREATE TABLE t (a INT, b INT, c INT, UNIQUE KEY ub (b), KEY ia (a), KEY ic (c), KEY ica (c,a))","INSERT INTO t VALUES (1,1,1)","INSERT INTO t VALUES (3,1,3) ON DUPLICATE KEY UPDATE c = 9"],"observed":"`+strings.ReplaceAll(msg, `"`, `'`)+`"}`)
			t.Errorf("%s", msg)
		}
	})
	openUN := vh.OpenFinding("C25", c25FindingUniqNull)
	t.Run("pinned_merge_unique_rebuild_null", func(t *testing.T) {
		if msg := c25PinnedUniqNull(t, srv, admin); msg != "" {
			if openUN {
				vh.ReportKnown("C25", c25FindingUniqNull, msg)
				return
			}
			vh.NoteViolation(t.Name(), "", `{"sql":"see c25PinnedUniqNull","observed":"`+strings.ReplaceAll(msg, `"`, `'`)+`"}`)
			t.Errorf("%s", msg)
		}
	})
	openPKA := vh.OpenFinding("C25", c25FindingPKArtifacts)
	t.Run("pinned_pk_change_with_artifacts", func(t *testing.T) {
		if msg := c25PinnedPKArtifacts(t, srv, admin); msg != "" {
			if openPKA {
				vh.ReportKnown("C25", c25FindingPKArtifacts, msg)
				return
			}
			vh.NoteViolation(t.Name(), "", `{"sql":"see c25PinnedPKArtifacts","observed":"`+strings.ReplaceAll(msg, `"`, `'`)+`"}`)
			t.Errorf("%s", msg)
		}
	})
	openCD := vh.OpenFinding("C43", c25FindingConfDelete)
	t.Run("pinned_keyless_conflicts_delete", func(t *testing.T) {
		if msg := c25PinnedConfDelete(t, srv, admin); msg != "" {
			if openCD {
				vh.ReportKnown("C43", c25FindingConfDelete, msg)
				return
			}
			vh.NoteViolation(t.Name(), "", `{"sql":"see c25PinnedConfDelete","observed":"`+strings.ReplaceAll(msg, `"`, `'`)+`"}`)
			t.Errorf("%s", msg)
		}
	})
	vh.Check(t, "programs", 110, 350, func(rt *rapid.T) { c25Case(rt, srv, admin, rec, open, openPfx, openODKU, openUN, openPKA, openCD) })
}
