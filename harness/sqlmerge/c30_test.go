package sqlmerge

// C30 — the fast tree-level merge agrees with the row-level merge.

import (
	"fmt"
	"strings"
	"testing"

	"pgregory.net/rapid"

	"github.com/dolthub/dolt/go/zzverif/vh"
	"github.com/dolthub/dolt/go/zzverif/vsql"
)

const c30Rule = "twin tables in one database receive the identical generated history on two branches: t_fast (keyed, every value column nullable, no index, no check: eligible for the chunk-level merge in computeProllyTreePatches), t_slow (same plus a non-unique secondary index on a value column) and t_chk (same plus a tautological CHECK), the latter two forced onto the row-by-row three-way differ. Histories are C29's (INSERT/REPLACE/UPDATE/DELETE over shared keys, no schema change); in about a third of the cases the base has 1200-3200 rows and both branches also run wide statements (ranged computed/constant UPDATEs, ranged DELETEs, block INSERTs of 100+ rows) so that whole leaf chunks differ and the patch generator emits range patches. After CALL dolt_merge (both directions in part of the cases): rows, dolt_conflicts_<t> rows and dolt_conflicts counts of the three tables must be identical to each other and to the reference merge (vsql.Merge3); index lookups on t_slow must agree with its rows. In another three eighths of the cases the rows are wide (a 200-500 byte pad column, 300-1500 rows, so the row index of t_fast has 20-150 leaf chunks); the leaf-chunk end keys of t_fast are read in process (srv.Engine -> working set -> row index nodes) and 1-4 adjacent chunk pairs (A, B) are targeted: one branch moves its chunk boundary at the end of A (delete / resize / insert after A's last key) and edits B's last key (update / delete / resize), the other branch edits other rows of B (update / delete / insert) and in half of the targets B's last key as well (collision); both merge directions always run. Non-trivial: both branches changed a run of >= 250 rows with one statement and at least one key was edited differently on both sides, or at least one chunk-boundary target was generated; distinct by (schema, base size/salt, both histories)."

var c30Assumptions = []string{
	"which path a table takes is inferred from canFastMergeProllyTrees' conditions (read from the code, confirmed by a mutation of the fast path that only t_fast notices), not observed directly",
	"MergeStats equality is not compared (dolt_merge does not expose per-table statistics); conflict counts are",
}

func TestVerif_C30(t *testing.T) {
	rec := vh.NewRecorder("C30", "twins", "exploration", c30Rule, c30Assumptions...)
	defer rec.Write(t)
	dir, cleanup := vh.ScratchDir(t, "c30")
	defer cleanup()
	env, err := mNewEnv(t, dir)
	if err != nil {
		vh.Inconclusive(t, "start server: %v", err)
	}
	defer env.srv.Stop()
	vh.Check(t, "twins", 120, 300, func(rt *rapid.T) {
		c30Case(rt, env, rec)
	})
}

func c30Case(rt *rapid.T, env *mEnv, rec *vh.Recorder) {
	b1, b2, b3 := rapid.Bool().Draw(rt, "flavour.1"), rapid.Bool().Draw(rt, "flavour.2"), rapid.Bool().Draw(rt, "flavour.3")
	wideRows := b1 && (b2 || b3) // 3/8: wide rows, edits aimed at leaf-chunk boundaries
	large := !wideRows && !b1 && b2 // 1/4: large base, wide statements
	mode := mergeMode(rapid.IntRange(0, 1).Draw(rt, "mode"))
	twins := []string{"t_fast", "t_slow", "t_chk"}

	var sp mSpec
	var base *mSide
	var baseStmts []string
	var bnd *c30Boundary
	if wideRows {
		bnd, base = c30NewBoundary(rt)
		sp, baseStmts = bnd.sp, bnd.baseSQL
	} else {
		sp = mGenSpec(rt, mSpecOpts{allNullable: true, keyMaxLo: 3, keyMaxHi: 16, onePK: large})
		nBase := 24
		if large {
			sp.KeyMax = rapid.IntRange(1200, 3200).Draw(rt, "large.keymax")
			nBase = sp.KeyMax
		}
		base = mNewSide(sp)
		baseStmts = base.genBaseRows(rt, nBase, sp.KeyMax)
	}
	slow := sp
	if wideRows {
		slow.Index = "c1"
	} else {
		slow.Index = sp.Cols[sp.NPK+rapid.IntRange(0, len(sp.Cols)-sp.NPK-1).Draw(rt, "slow.indexcol")].Name
	}

	c := env.newCase(rt)
	defer c.close()
	se := c.se
	c.checkoutNew(rt, "base", "")
	c.run(rt, sp.create("t_fast"))
	c.run(rt, slow.create("t_slow"))
	c.run(rt, sp.create("t_chk", "CHECK (pk >= 0 OR pk < 0)"))
	for _, st := range baseStmts {
		for _, tb := range twins {
			c.run(rt, mInst(st, tb))
		}
	}
	c.run(rt, "CALL dolt_commit('-A','--allow-empty','-m','base')")

	hop := mHistoryOpts{maxCommits: 3, minOps: 2, maxOps: 7}
	opo := mOpOpts{keyMax: sp.KeyMax, maxRange: 2, wInsert: 3, wUpdate: 6, wDelete: 2}
	if large {
		opo.wide = rapid.IntRange(600, 1400).Draw(rt, "large.wide")
		hop.maxCommits = 2
	}
	ours, theirs := base.clone(), base.clone()
	var oursAimed, theirsAimed []string
	targets, collisions, leaves, height := 0, 0, 0, 0
	if wideRows {
		hop = mHistoryOpts{maxCommits: 1, minOps: 0, maxOps: 3}
		opo.maxRange = 0
		ends, h, err := mLeafEnds(env, c.pfx+"base", "t_fast")
		if err != nil {
			rt.Logf("leaf boundaries of t_fast unavailable: %v", err)
		}
		leaves, height = len(ends), h
		if rapid.Bool().Draw(rt, "aim.shifter_is_ours") {
			oursAimed, theirsAimed, targets, collisions = c30AimAtBoundaries(rt, bnd, ends, ours, theirs)
		} else {
			theirsAimed, oursAimed, targets, collisions = c30AimAtBoundaries(rt, bnd, ends, theirs, ours)
		}
	}
	runAimed := func(stmts []string) {
		for _, st := range stmts {
			for _, tb := range twins {
				c.run(rt, mInst(st, tb))
			}
		}
	}
	c.checkoutNew(rt, "b1", "base")
	runAimed(oursAimed)
	mRunHistory(rt, c, "ours", []*mTrack{{side: ours, tables: twins, op: opo, openWide: large}}, hop)
	if !wideRows {
		opo.hot = ours.touchedKeys()
		if large && len(opo.hot) > 200 {
			opo.hot = opo.hot[:200]
		}
		opo.other = ours
	}
	c.checkoutNew(rt, "b2", "base")
	runAimed(theirsAimed)
	mRunHistory(rt, c, "theirs", []*mTrack{{side: theirs, tables: twins, op: opo, openWide: large}}, hop)

	cols := mNames(sp.Cols)
	n := len(cols)
	idxKind := sp.Cols[base.colIdx(slow.Index)].Kind
	oneWay := func(what, work, from, other string, o, t *mSide) []vsql.Conflict {
		exp, confs := vsql.Merge3(base.T, o.T, t.T)
		flag := mDoMerge(rt, c, mode, work, from, other)
		if (flag != "0") != (len(confs) > 0) {
			rt.Fatalf("%s: dolt_merge conflicts flag %s, model has %d conflicts", what, flag, len(confs))
		}
		// differential first: the twins against each other
		var rows, crows [][]string
		var counts []string
		for _, tb := range twins {
			rows = append(rows, se.MustQuery(rt, mSelect(tb, cols)).Sorted())
			crows = append(crows, se.MustQuery(rt, mConflictQuery(tb, cols, cols, cols)).Sorted())
			cnt, _ := se.Scalar(rt, "SELECT COALESCE(SUM(num_conflicts),0) FROM dolt_conflicts WHERE `table` = '"+tb+"'")
			counts = append(counts, cnt)
		}
		for i := 1; i < len(twins); i++ {
			if !vsql.EqualStrings(rows[0], rows[i]) {
				rt.Fatalf("%s: rows of t_fast and %s differ after the same merge\n t_fast: %s\n %s: %s", what, twins[i], c30Diff(rows[0], rows[i]), twins[i], c30Diff(rows[i], rows[0]))
			}
			if !vsql.EqualStrings(crows[0], crows[i]) {
				rt.Fatalf("%s: conflicts of t_fast and %s differ after the same merge\n only t_fast: %s\n only %s: %s", what, twins[i], c30Diff(crows[0], crows[i]), twins[i], c30Diff(crows[i], crows[0]))
			}
			if counts[0] != counts[i] {
				rt.Fatalf("%s: dolt_conflicts counts differ: t_fast %s, %s %s", what, counts[0], twins[i], counts[i])
			}
		}
		// and all of them against the reference merge
		expConf := mExpectedConflicts(confs, n, n, n)
		for _, tb := range twins {
			idx := ""
			if tb == "t_slow" {
				idx = slow.Index
			}
			mCheckMerged(rt, se, what, tb, cols, exp, expConf, mConflictQuery(tb, cols, cols, cols), idx, idxKind)
		}
		mEndMerge(rt, se, mode, len(confs) > 0)
		return confs
	}
	conf1 := oneWay("merge b2 into b1", "m1", "b1", "b2", ours, theirs)
	both := wideRows || rapid.Bool().Draw(rt, "bothdirections")
	if large {
		both = both && rapid.Bool().Draw(rt, "bothdirections.large")
	}
	if both {
		oneWay("merge b1 into b2", "m2", "b2", "b1", theirs, ours)
	}

	sh := mShape(base.T, ours.T, theirs.T, conf1)
	divergent := sh.cellwise + sh.modModConflict + sh.addAddConflict
	nontrivial := (ours.WideRows >= 250 && theirs.WideRows >= 250 && divergent > 0) || targets > 0
	show := func(ops []string) string {
		var out []string
		for _, o := range ops {
			if len(o) > 160 {
				o = fmt.Sprintf("%s…(%d bytes)", o[:160], len(o))
			}
			out = append(out, o)
		}
		return strings.Join(out, "; ")
	}
	baseDesc := mShow(base.T)
	if large {
		baseDesc = fmt.Sprintf("%d formula rows", len(base.T.Rows))
	}
	if wideRows {
		baseDesc = fmt.Sprintf("%d rows (even keys) with a %d-byte pad, %d leaf chunks, height %d, %d boundary targets", len(base.T.Rows), bnd.padLen, leaves, height, targets)
	}
	desc := fmt.Sprintf("%s; index(t_slow)=%s; base=%s; ours: %s; theirs: %s", sp.create("t_fast"), slow.Index, baseDesc, show(ours.Ops), show(theirs.Ops))
	// the hash must see the full statements
	full := fmt.Sprintf("%s|%s|%s", desc, strings.Join(ours.Ops, ";"), strings.Join(theirs.Ops, ";"))
	cl := c29Classes(sp, sh, mode, len(base.T.Rows))
	if large {
		cl = append(cl, "large_base")
	}
	if wideRows {
		cl = append(cl, "wide_rows", fmt.Sprintf("height=%d", height))
		if targets > 0 {
			cl = append(cl, "aimed_at_chunk_boundaries")
		}
		if collisions > 0 {
			cl = append(cl, "collision_on_chunk_last_key")
		}
		if leaves == 0 {
			cl = append(cl, "leaf_boundaries_unavailable")
		}
	}
	if ours.WideRows >= 250 && theirs.WideRows >= 250 {
		cl = append(cl, "both_sides_changed_chunks")
	}
	if both {
		cl = append(cl, "both_directions")
	}
	if len(conf1) >= 100 {
		cl = append(cl, "conflicts>=100")
	}
	_ = full
	rec.Case(desc+fmt.Sprintf(" #%08x", c30Hash(full)), nontrivial, cl...)
}

func c30Hash(s string) uint32 {
	var h uint32 = 2166136261
	for i := 0; i < len(s); i++ {
		h = (h ^ uint32(s[i])) * 16777619
	}
	return h
}

// c30Diff shows the rows of a that are not in b (both sorted).
func c30Diff(a, b []string) string {
	in := map[string]int{}
	for _, r := range b {
		in[r]++
	}
	var out []string
	for _, r := range a {
		if in[r] > 0 {
			in[r]--
			continue
		}
		out = append(out, r)
	}
	return fmt.Sprintf("%d rows: %s", len(out), c30Abbrev(vsql.Show(out)))
}

// c30Abbrev shortens runs of one repeated character (pad cells) for messages.
func c30Abbrev(s string) string {
	var b strings.Builder
	for i := 0; i < len(s); {
		j := i
		for j < len(s) && s[j] == s[i] {
			j++
		}
		if j-i > 12 {
			fmt.Fprintf(&b, "%c{x%d}", s[i], j-i)
		} else {
			b.WriteString(s[i:j])
		}
		i = j
	}
	return b.String()
}
