package sqlmerge

// C29 — dolt_merge produces the row-level three-way merge.

import (
	"fmt"
	"strings"
	"testing"

	"pgregory.net/rapid"

	"github.com/dolthub/dolt/go/zzverif/vh"
	"github.com/dolthub/dolt/go/zzverif/vsql"
)

const c29Rule = "a generated table (1-2 pk columns, 2-4 value columns of INT/BIGINT/VARCHAR/DECIMAL/DATE, NOT NULL / DEFAULT / secondary index optional) with 0-200 base rows; two branches with 1-3 commits each of INSERT/REPLACE/UPDATE/DELETE statements (point, pk-range, computed) over a shared small key range, the second branch biased towards keys the first one touched; optionally one side also performs one schema change (ADD COLUMN first/middle/last with or without default, DROP COLUMN, MODIFY ... AFTER/FIRST, INT->BIGINT, VARCHAR(16)->VARCHAR(40)) at a drawn point of its history. CALL dolt_merge in both directions (each from fresh branches at the same two heads; conflicts kept either by autocommit=0 or by @@dolt_allow_commit_conflicts): the procedure must not fail, table rows, dolt_conflicts and dolt_conflicts_t rows (base/our/their values and diff types), and secondary-index lookups must equal vsql.Merge3 of the model tables (mapped by column name, defaults filled), and the two directions must agree outside conflicted keys with mirrored conflicts. Non-trivial: the merge has >=1 cell-wise combined row, >=1 conflict and >=1 one-sided delete; distinct by (schema, base rows, both statement histories)."

func TestVerif_C29(t *testing.T) {
	rec := vh.NewRecorder("C29", "merge", "exploration", c29Rule, c29Assumptions...)
	defer rec.Write(t)
	dir, cleanup := vh.ScratchDir(t, "c29")
	defer cleanup()
	env, err := mNewEnv(t, dir)
	if err != nil {
		vh.Inconclusive(t, "start server: %v", err)
	}
	defer env.srv.Stop()
	c29RunPinned(t, env)
	vh.Check(t, "merge", 300, 800, func(rt *rapid.T) {
		c29Case(rt, env, rec)
	})
}

var c29Assumptions = []string{
	"cells are compared as the strings the MySQL wire protocol returns; value domains are chosen so that this rendering is canonical (no floats, no collations other than the default binary one)",
	"primary-key columns are never updated in place and never part of a schema change",
}

// mergeMode says how a conflicted merge is kept inspectable.
type mergeMode int

const (
	modeTxn   mergeMode = iota // SET autocommit = 0, inspect inside the transaction, ROLLBACK
	modeAllow                  // autocommit on, @@dolt_allow_commit_conflicts = 1, dolt_merge('--abort') afterwards
)

func (m mergeMode) String() string {
	if m == modeTxn {
		return "autocommit_off"
	}
	return "allow_commit_conflicts"
}

// mDoMerge creates branch work at from, merges other into it and returns the conflicts flag.
func mDoMerge(rt *rapid.T, c *mCase, mode mergeMode, work, from, other string) (flag string) {
	c.checkoutNew(rt, work, from)
	se := c.se
	if mode == modeTxn {
		c.run(rt, "SET autocommit = 0")
	} else {
		c.run(rt, "SET @@dolt_allow_commit_conflicts = 1")
	}
	rt.Logf("SQL: CALL dolt_merge('%s')", c.pfx+other)
	res, err := se.Query(fmt.Sprintf("CALL dolt_merge('%s')", c.pfx+other))
	if err != nil {
		rt.Fatalf("dolt_merge('%s') into %s failed: %v", other, from, err)
	}
	if len(res.Data) != 1 || len(res.Data[0]) < 3 {
		rt.Fatalf("dolt_merge returned %v", res)
	}
	return res.Data[0][2]
}

func mEndMerge(rt *rapid.T, se *vsql.Session, mode mergeMode, hadConflicts bool) {
	if mode == modeTxn {
		se.MustExec(rt, "ROLLBACK")
		se.MustExec(rt, "SET autocommit = 1")
		return
	}
	if hadConflicts {
		se.MustExec(rt, "CALL dolt_merge('--abort')")
	}
}

// mCheckMerged compares one table after a merge with the model: rows, conflict table, conflict
// count and (when the table has a secondary index on idxCol) index lookups.
func mCheckMerged(rt *rapid.T, se *vsql.Session, what, table string, cols []string, exp *vsql.Table, expConf []string, confQuery string, idxCol string, idxKind mKind) (rows, conf []string) {
	got := se.MustQuery(rt, mSelect(table, cols)).Sorted()
	if !vsql.EqualStrings(got, exp.Sorted()) {
		rt.Fatalf("%s: rows of %s differ from the model\n got: %s\nwant: %s", what, table, vsql.Show(got), vsql.Show(exp.Sorted()))
	}
	if len(expConf) == 0 {
		// without conflicts the conflict table takes all three column sets from the current schema:
		// only its emptiness is compared
		all := se.MustQuery(rt, "SELECT * FROM dolt_conflicts_"+table)
		if len(all.Data) != 0 {
			rt.Fatalf("%s: dolt_conflicts_%s has rows, the model has no conflict\n got: %v", what, table, all)
		}
	} else {
		cres, err := se.Query(confQuery)
		if err != nil {
			rt.Fatalf("%s: %s: %v", what, confQuery, err)
		}
		conf = cres.Sorted()
		if !vsql.EqualStrings(conf, expConf) {
			rt.Fatalf("%s: dolt_conflicts_%s differs from the model\n got: %s\nwant: %s", what, table, vsql.Show(conf), vsql.Show(expConf))
		}
	}
	n, _ := se.Scalar(rt, "SELECT COALESCE(SUM(num_conflicts),0) FROM dolt_conflicts WHERE `table` = '"+table+"'")
	if n != fmt.Sprint(len(expConf)) {
		rt.Fatalf("%s: dolt_conflicts reports %s conflicts for %s, model has %d", what, n, table, len(expConf))
	}
	if idxCol != "" {
		mCheckIndex(rt, se, what, table, cols, exp, idxCol, idxKind)
	}
	return got, conf
}

// mCheckIndex reads the table through equality lookups on the indexed column and compares with
// the model (the lookups are served by the secondary index).
func mCheckIndex(rt *rapid.T, se *vsql.Session, what, table string, cols []string, exp *vsql.Table, idxCol string, kind mKind) {
	ci := -1
	for i, c := range cols {
		if c == idxCol {
			ci = i
		}
	}
	if ci < 0 {
		return
	}
	vals := map[string]bool{mNull: true}
	for _, v := range mDomains[kind] {
		vals[v] = true
	}
	for _, k := range exp.Keys() {
		vals[exp.Rows[k][ci]] = true
	}
	var vs []string
	for v := range vals {
		vs = append(vs, v)
	}
	sortStrings(vs)
	for _, v := range vs {
		q := mSelect(table, cols) + " WHERE " + idxCol + " = " + mLit(v, kind)
		if v == mNull {
			q = mSelect(table, cols) + " WHERE " + idxCol + " IS NULL"
		}
		got := se.MustQuery(rt, q).Sorted()
		var want []string
		for _, k := range exp.Keys() {
			if exp.Rows[k][ci] == v {
				want = append(want, exp.Rows[k].Join())
			}
		}
		sortStrings(want)
		if !vsql.EqualStrings(got, want) {
			rt.Fatalf("%s: index lookup %q disagrees with the merged rows\n got: %s\nwant: %s", what, q, vsql.Show(got), vsql.Show(want))
		}
	}
}

func c29Case(rt *rapid.T, env *mEnv, rec *vh.Recorder) {
	keyHi := 16
	if mOneIn(rt, "widekeys", 3) {
		keyHi = 250
	}
	sp := mGenSpec(rt, mSpecOpts{keyMaxLo: 3, keyMaxHi: keyHi})
	base := mNewSide(sp)
	nBase := rapid.IntRange(0, 200).Draw(rt, "nbase")
	if nBase < 20 {
		nBase = 20 // most key ranges hold fewer keys anyway; an empty base is drawn through keymax/skips
	}
	if mOneIn(rt, "emptybase", 5) {
		nBase = 0
	}
	baseStmts := base.genBaseRows(rt, nBase, sp.KeyMax)
	mode := mergeMode(rapid.IntRange(0, 1).Draw(rt, "mode"))

	c := env.newCase(rt)
	defer c.close()
	se := c.se
	c.checkoutNew(rt, "base", "")
	c.run(rt, sp.create("t"))
	for _, st := range baseStmts {
		c.run(rt, mInst(st, "t"))
	}
	c.run(rt, "CALL dolt_commit('-A','--allow-empty','-m','base')")

	hop := mHistoryOpts{maxCommits: 3, minOps: 2, maxOps: 7}
	opo := mOpOpts{keyMax: sp.KeyMax, maxRange: 2, wInsert: 3, wUpdate: 6, wDelete: 2}
	tables := []string{"t"}

	// optional one-sided schema change
	var sc *mSchemaChange
	oursChanged := false
	if rapid.Bool().Draw(rt, "schemachange") {
		sc = mGenSchemaChange(rt, sp)
		oursChanged = rapid.Bool().Draw(rt, "sc.ours")
	}
	var hookOurs, hookTheirs func(int) []string

	ours := base.clone()
	if sc != nil && oursChanged {
		hookOurs = sc.hook(ours)
	}
	c.checkoutNew(rt, "b1", "base")
	mRunHistory(rt, c, "ours", []*mTrack{{side: ours, tables: tables, op: opo, hook: hookOurs}}, hop)

	theirs := base.clone()
	if sc != nil && !oursChanged {
		hookTheirs = sc.hook(theirs)
	}
	opo.hot = ours.touchedKeys()
	opo.other = ours
	c.checkoutNew(rt, "b2", "base")
	mRunHistory(rt, c, "theirs", []*mTrack{{side: theirs, tables: tables, op: opo, hook: hookTheirs}}, hop)

	merged := ours
	if sc != nil && !oursChanged {
		merged = theirs
	}
	cols := mNames(merged.Cols)
	idxKind := mInt
	if sp.Index != "" {
		idxKind = merged.Cols[merged.colIdx(sp.Index)].Kind
	}

	pkNames := mNames(sp.Cols[:sp.NPK])
	// an incompatible type change is refused only when the other side changed the table as well
	// (a table that is identical to the ancestor on one side is taken from the other side as is)
	refused := false
	if sc != nil && sc.Refused {
		other := theirs
		if !oursChanged {
			other = ours
		}
		refused = !other.T.Equal(base.T)
	}
	oneWay := func(what, work, from, other string, oursS, theirsS *mSide, oursCh bool) (*mExpect, []string, []string, bool) {
		e := mModelMerge(base, oursS, theirsS, sc, oursCh)
		if (c29ShapeLeftSchemaRightDelete(base, oursS, theirsS, sc, oursCh) && vh.OpenFinding("C29", c29FindLeftSchemaRightDelete)) ||
			(c29ShapeByteEqual(base, oursS, theirsS, sc) && vh.OpenFinding("C29", c29FindByteEqual)) ||
			(c29ShapeReorderByteEqual(base, oursS, theirsS, sc, oursCh) && vh.OpenFinding("C29", c29FindReorderByteEqual)) {
			rec.Excluded(1)
			return e, nil, nil, true
		}
		flag := mDoMerge(rt, c, mode, work, from, other)
		if refused {
			// documented schema conflict: reported, listed in dolt_schema_conflicts, data untouched
			if flag != "1" {
				rt.Fatalf("%s: INT->BIGINT on one side must be reported as a (schema) conflict, flag %s", what, flag)
			}
			sres := se.MustQuery(rt, "SELECT table_name FROM dolt_schema_conflicts").Sorted()
			if !vsql.EqualStrings(sres, []string{"t"}) {
				rt.Fatalf("%s: dolt_schema_conflicts lists %v, want [t]", what, sres)
			}
			got := se.MustQuery(rt, mSelect("t", mNames(oursS.Cols))).Sorted()
			if !vsql.EqualStrings(got, oursS.T.Sorted()) {
				rt.Fatalf("%s: refused merge changed the table\n got: %s\nwant: %s", what, vsql.Show(got), mShow(oursS.T))
			}
			mEndMerge(rt, se, mode, true)
			return e, nil, nil, true
		}
		if len(e.Alt) > 0 {
			e.settle(mDoltConflictKeys(rt, se, "t", pkNames))
		}
		if (flag != "0") != (len(e.Confs) > 0) {
			rt.Fatalf("%s: dolt_merge conflicts flag %s, model has %d conflicts", what, flag, len(e.Confs))
		}
		cq := mConflictQuery("t", mNames(base.Cols), cols, mNames(theirsS.Cols))
		rows, crows := mCheckMerged(rt, se, what, "t", cols, e.T, mConflictDisplay(e.Confs, base, theirsS, e.T), cq, sp.Index, idxKind)
		mEndMerge(rt, se, mode, len(e.Confs) > 0)
		return e, rows, crows, false
	}
	e1, rows1, crow1, skip1 := oneWay("merge b2 into b1", "m1", "b1", "b2", ours, theirs, oursChanged)
	_, rows2, crow2, skip2 := oneWay("merge b1 into b2", "m2", "b2", "b1", theirs, ours, sc != nil && !oursChanged)
	exp1, conf1 := e1.T, e1.Confs

	// swap symmetry, stated on dolt's own results
	if !skip1 && !skip2 {
		c29CheckSwap(rt, rows1, rows2, crow1, crow2, conf1, sp.NPK, len(cols), sc == nil)
	}

	sh := c29Shape(base, ours, theirs, conf1, exp1, cols)
	desc := fmt.Sprintf("%s; base=%s; ours: %s; theirs: %s", sp, mShow(base.T), strings.Join(ours.Ops, "; "), strings.Join(theirs.Ops, "; "))
	nontrivial := sh.cellwise > 0 && sh.conflicts > 0 && sh.oneSidedDelete > 0
	cl := c29Classes(sp, sh, mode, len(base.T.Rows))
	if len(e1.Alt) > 0 {
		cl = append(cl, "drop_vs_change_of_dropped_cell")
	}
	if sc != nil {
		cl = append(cl, "one_sided_schema_change", "sc="+sc.Kind)
		if oursChanged {
			cl = append(cl, "sc_on_ours")
		} else {
			cl = append(cl, "sc_on_theirs")
		}
		if sc.Kind == "add" {
			cl = append(cl, "sc_add"+strings.Fields(sc.Pos + " LAST")[0])
			if sc.Col.HasDef {
				cl = append(cl, "sc_add_default")
			}
		}
	} else {
		cl = append(cl, "no_schema_change")
	}
	if refused {
		cl = append(cl, "documented_schema_conflict")
		nontrivial = false
	} else if skip1 || skip2 {
		cl = append(cl, "one_direction_excluded_known")
	}
	rec.Case(desc, nontrivial, cl...)
}

// c29Shape classifies the merge on the columns all three versions share.
func c29Shape(base, ours, theirs *mSide, conf []vsql.Conflict, exp *vsql.Table, merged []string) mMergeShape {
	var common []string
	for _, n := range merged {
		if base.colIdx(n) >= 0 && ours.colIdx(n) >= 0 && theirs.colIdx(n) >= 0 {
			common = append(common, n)
		}
	}
	proj := func(s *mSide) *vsql.Table {
		out := vsql.NewTable(common, s.NPK)
		for _, k := range s.T.Keys() {
			r := make(vsql.Row, len(common))
			for i, n := range common {
				r[i] = s.T.Rows[k][s.colIdx(n)]
			}
			out.Rows[k] = r
		}
		return out
	}
	return mShape(proj(base), proj(ours), proj(theirs), conf)
}

func c29Classes(sp mSpec, sh mMergeShape, mode mergeMode, nbase int) []string {
	cl := []string{"mode=" + mode.String(), fmt.Sprintf("npk=%d", sp.NPK)}
	add := func(name string, n int) {
		if n > 0 {
			cl = append(cl, name)
		}
	}
	add("cellwise", sh.cellwise)
	add("conflict", sh.conflicts)
	add("conflict_mod_mod", sh.modModConflict)
	add("conflict_del_mod", sh.delModConflict)
	add("conflict_add_add", sh.addAddConflict)
	add("one_sided_delete", sh.oneSidedDelete)
	add("convergent", sh.convergent)
	if sh.conflicts == 0 {
		cl = append(cl, "clean_merge")
	}
	if sp.Index != "" {
		cl = append(cl, "secondary_index")
	}
	switch {
	case nbase == 0:
		cl = append(cl, "base=0")
	case nbase <= 20:
		cl = append(cl, "base<=20")
	default:
		cl = append(cl, "base>20")
	}
	return cl
}

// c29CheckSwap: outside the conflicted keys both directions hold the same rows; the conflict
// tables are mirror images (base equal, ours and theirs exchanged).
func c29CheckSwap(rt *rapid.T, rows1, rows2, crow1, crow2 []string, conf []vsql.Conflict, npk, ncols int, mirror bool) {
	isConf := map[string]bool{}
	for _, c := range conf {
		isConf[c.Key] = true
	}
	strip := func(rows []string) []string {
		var out []string
		for _, r := range rows {
			f := strings.Split(r, "\x1f")
			if !isConf[strings.Join(f[:npk], "\x1f")] {
				out = append(out, r)
			}
		}
		return out
	}
	a, b := strip(rows1), strip(rows2)
	if !vsql.EqualStrings(a, b) {
		rt.Fatalf("swapped merge differs outside conflicted keys\n b2 into b1: %s\n b1 into b2: %s", vsql.Show(a), vsql.Show(b))
	}
	if !mirror {
		// different column sets per version: the conflict tables were each compared with the model
		if len(crow1) != len(crow2) {
			rt.Fatalf("swapped merge has %d conflicts, the other direction %d", len(crow2), len(crow1))
		}
		return
	}
	// mirror crow2: base | ours+type | theirs+type  →  base | theirs+type | ours+type
	var mir []string
	for _, r := range crow2 {
		f := strings.Split(r, "\x1f")
		if len(f) != 3*ncols+2 {
			rt.Fatalf("unexpected conflict row width %d", len(f))
		}
		m := append([]string{}, f[:ncols]...)
		m = append(m, f[2*ncols+1:]...)
		m = append(m, f[ncols:2*ncols+1]...)
		mir = append(mir, strings.Join(m, "\x1f"))
	}
	sortStrings(mir)
	if !vsql.EqualStrings(crow1, mir) {
		rt.Fatalf("conflicts of the swapped merge are not mirrored\n b2 into b1: %s\n mirrored b1 into b2: %s", vsql.Show(crow1), vsql.Show(mir))
	}
}
