package sqlmerge

// C43 — conflict tables and conflict resolution are exact.

import (
	"fmt"
	"sort"
	"strings"
	"testing"

	"pgregory.net/rapid"

	"github.com/dolthub/dolt/go/zzverif/vh"
	"github.com/dolthub/dolt/go/zzverif/vsql"
)

const c43Rule = "two flavours, half of the cases each. (a) single merge: 1-3 keyed tables (C29's table generator, small key ranges) with two branch histories biased to touch the same keys (modify/modify, delete/modify, add/add), optionally one ADD COLUMN on one side of one table; CALL dolt_merge with conflicts kept (autocommit=0 or @@dolt_allow_commit_conflicts). (b) accumulating merges: one line of history plus 2-3 feature branches, each cut from the common base (sibling branches: same merge base, different right-hand commits) or from the previous feature's head (different merge bases), merged one after the other into a work branch; conflicted merges are committed with their conflicts (--force), so the conflict tables hold rows of several merges at once, possibly several rows for one key; the model keeps, per conflict row, the base and their version of the merge that produced it and its from_root_ish. In both flavours dolt_conflicts counts and every dolt_conflicts_<t> row (base/our/their values, NULL-filled absent versions, diff types) are compared with the reference merge after every merge and after every later step. Then the conflicted tables are resolved in a drawn order, each by a drawn strategy: dolt_conflicts_resolve --ours / --theirs (per table, or one call for all), manual resolution (per conflict row: keep ours, take theirs, take base or a drawn row written with REPLACE/DELETE on the table or UPDATE dolt_conflicts_<t> SET our_c = their_c, then DELETE FROM dolt_conflicts_<t> by dolt_conflict_id or by key and from_root_ish, possibly leaving some conflicts in place), or left unresolved; after every step all tables, conflict tables (our_* follows the current row), dolt_conflicts and index lookups are compared with the model; a fully resolved state must commit. In flavour (a) the same merge is optionally repeated and resolved in the reverse table order (same result required). Non-trivial: >=1 delete/modify conflict and >=1 conflicted key resolved to a side on which the row is absent, or conflicts of >=2 merges were present at once and went through a resolution step; distinct by (schemas, base rows, histories, resolution plan)."

var c43Assumptions = []string{
	"keyed tables only (keyless conflict tables are cardinality based and are not modelled by vsql.Merge3)",
	"--theirs for a key that is in conflict with several merged branches must leave exactly one of their versions (which one is not specified)",
	"accumulating flavour: merges after the first use dolt_merge('--no-commit') when the table already carries conflicts, because a clean merge commits itself and a commit without --force is refused while conflicts exist (documented)",
	"dolt_conflicts_resolve --theirs on a table whose merged schema differs from their schema may be refused with the documented 'conflict schema's columns are not equal' error (state unchanged) or succeed with their rows mapped by name; both are accepted",
	"cells are compared as wire-protocol strings over canonical value domains",
}

func TestVerif_C43(t *testing.T) {
	rec := vh.NewRecorder("C43", "resolve", "exploration", c43Rule, c43Assumptions...)
	defer rec.Write(t)
	dir, cleanup := vh.ScratchDir(t, "c43")
	defer cleanup()
	env, err := mNewEnv(t, dir)
	if err != nil {
		vh.Inconclusive(t, "start server: %v", err)
	}
	defer env.srv.Stop()
	c43RunPinned(t, env)
	vh.Check(t, "resolve", 220, 700, func(rt *rapid.T) {
		if rapid.Bool().Draw(rt, "accumulate") {
			c43AccumCase(rt, env, rec)
		} else {
			c43Case(rt, env, rec)
		}
	})
}

type c43Tab struct {
	name               string
	sp                 mSpec
	base, ours, theirs *mSide
	sc                 *mSchemaChange
	oursChanged        bool
	merged             *mSide // the side whose columns are the merged columns
	cols               []string
	idxKind            mKind

	cur   *vsql.Table // expected current rows
	confs []c43Entry  // expected remaining conflicts
}

// c43Entry is one unresolved conflict: the key, and the base / their versions of the merge that
// produced it (several merges may have left conflicts in one table). root is the commit hash of
// that merge's right side ("" when not needed: a single merge), as shown in from_root_ish.
type c43Entry struct {
	Key          string
	base, theirs *mSide
	root         string
}

func (tb *c43Tab) entriesOf(confs []vsql.Conflict, base, theirs *mSide, root string) []c43Entry {
	out := make([]c43Entry, 0, len(confs))
	for _, cf := range confs {
		out = append(out, c43Entry{Key: cf.Key, base: base, theirs: theirs, root: root})
	}
	return out
}

func (tb *c43Tab) confQuery() string {
	return mConflictQuery(tb.name, mNames(tb.base.Cols), tb.cols, mNames(tb.theirs.Cols))
}

// expConfRows: base_* from the entry's base table, our_* from the current table row, their_* from
// the entry's right-hand table.
func (tb *c43Tab) expConfRows() []string {
	out := make([]string, 0, len(tb.confs))
	for _, e := range tb.confs {
		d := vsql.Conflict{Key: e.Key}
		if r, ok := e.base.T.Rows[e.Key]; ok {
			d.Base = r
		}
		if r, ok := tb.cur.Rows[e.Key]; ok {
			d.Ours = r
		}
		if r, ok := e.theirs.T.Rows[e.Key]; ok {
			d.Theirs = r
		}
		out = append(out, mConflictRow(d, len(e.base.Cols), len(tb.cur.Cols), len(e.theirs.Cols)))
	}
	sort.Strings(out)
	return out
}

// entryPred addresses one conflict row of dolt_conflicts_<t>.
func (tb *c43Tab) entryPred(e c43Entry) string {
	p := tb.keyPred(e.Key, "c")
	if e.root != "" {
		p += " AND from_root_ish = '" + e.root + "'"
	}
	return p
}

// theirsInMerged maps their version of key k into the merged column set (nil when absent); a
// column they do not have takes its default.
func (tb *c43Tab) inMerged(src *mSide, k string) vsql.Row {
	r, ok := src.T.Rows[k]
	if !ok {
		return nil
	}
	out := make(vsql.Row, len(tb.cols))
	for i, n := range tb.cols {
		if j := src.colIdx(n); j >= 0 {
			out[i] = r[j]
		} else {
			out[i] = tb.merged.Cols[i].implicit()
		}
	}
	return out
}

func (tb *c43Tab) keyPred(k string, prefix string) string {
	parts := strings.Split(k, "\x1f")
	var ps []string
	for i := 0; i < tb.sp.NPK; i++ {
		c := tb.sp.Cols[i]
		col := c.Name
		if prefix != "" {
			col = fmt.Sprintf("COALESCE(base_%s, our_%s, their_%s)", c.Name, c.Name, c.Name)
		}
		ps = append(ps, col+" = "+mLit(parts[i], c.Kind))
	}
	return strings.Join(ps, " AND ")
}

func (tb *c43Tab) writeRow(k string, r vsql.Row) string {
	if r == nil {
		return "DELETE FROM " + tb.name + " WHERE " + tb.keyPred(k, "")
	}
	lits := make([]string, len(r))
	for i, v := range r {
		lits[i] = mLit(v, tb.merged.Cols[i].Kind)
	}
	return fmt.Sprintf("REPLACE INTO %s (%s) VALUES (%s)", tb.name, strings.Join(tb.cols, ","), strings.Join(lits, ","))
}

func (tb *c43Tab) setCur(k string, r vsql.Row) {
	if r == nil {
		delete(tb.cur.Rows, k)
	} else {
		tb.cur.Rows[k] = r.Clone()
	}
}

func (tb *c43Tab) dropConf(e c43Entry) {
	var keep []c43Entry
	for _, c := range tb.confs {
		if c.Key != e.Key || c.root != e.root {
			keep = append(keep, c)
		}
	}
	tb.confs = keep
}

// c43CheckAll compares every table, conflict table and the dolt_conflicts summary with the model.
func c43CheckAll(rt *rapid.T, se *vsql.Session, what string, tabs []*c43Tab) {
	var wantSummary []string
	for _, tb := range tabs {
		mCheckMerged(rt, se, what, tb.name, tb.cols, tb.cur, tb.expConfRows(), tb.confQuery(), tb.sp.Index, tb.idxKind)
		if len(tb.confs) > 0 {
			wantSummary = append(wantSummary, fmt.Sprintf("%s\x1f%d", tb.name, len(tb.confs)))
		}
	}
	got := se.MustQuery(rt, "SELECT `table`, num_conflicts FROM dolt_conflicts WHERE num_conflicts > 0").Sorted()
	sort.Strings(wantSummary)
	if !vsql.EqualStrings(got, wantSummary) {
		rt.Fatalf("%s: dolt_conflicts = %s, model %s", what, vsql.Show(got), vsql.Show(wantSummary))
	}
}

type c43Step struct {
	tab      int
	strategy string // ours | theirs | manual | leave
}

func c43Case(rt *rapid.T, env *mEnv, rec *vh.Recorder) {
	nt := rapid.SampledFrom([]int{1, 2, 2, 2, 3}).Draw(rt, "ntables")
	mode := mergeMode(rapid.IntRange(0, 1).Draw(rt, "mode"))
	var tabs []*c43Tab
	scTab := -1
	if rapid.IntRange(0, 2).Draw(rt, "schemachange") == 0 {
		scTab = rapid.IntRange(0, nt-1).Draw(rt, "sc.table")
	}
	c := env.newCase(rt)
	defer c.close()
	se := c.se
	c.checkoutNew(rt, "base", "")
	for i := 0; i < nt; i++ {
		lb := fmt.Sprintf("t%d", i+1)
		sp := mGenSpec(rt, mSpecOpts{keyMaxLo: 3, keyMaxHi: 10})
		tb := &c43Tab{name: lb, sp: sp, base: mNewSide(sp)}
		c.run(rt, sp.create(lb))
		for _, st := range tb.base.genBaseRows(rt, 24, sp.KeyMax) {
			c.run(rt, mInst(st, lb))
		}
		tabs = append(tabs, tb)
	}
	c.run(rt, "CALL dolt_commit('-A','--allow-empty','-m','base')")

	hop := mHistoryOpts{maxCommits: 2, minOps: 2, maxOps: 8}
	var oursTracks, theirsTracks []*mTrack
	for i, tb := range tabs {
		tb.ours, tb.theirs = tb.base.clone(), tb.base.clone()
		opo := mOpOpts{keyMax: tb.sp.KeyMax, maxRange: 1, wInsert: 3, wUpdate: 5, wDelete: 3}
		to := &mTrack{side: tb.ours, tables: []string{tb.name}, op: opo}
		tt := &mTrack{side: tb.theirs, tables: []string{tb.name}, op: opo}
		if i == scTab {
			tb.sc = mGenSchemaChangeOf(rt, tb.sp, []string{"add"})
			tb.oursChanged = rapid.Bool().Draw(rt, "sc.ours")
			if tb.oursChanged {
				to.hook = tb.sc.hook(tb.ours)
			} else {
				tt.hook = tb.sc.hook(tb.theirs)
			}
		}
		oursTracks, theirsTracks = append(oursTracks, to), append(theirsTracks, tt)
	}
	c.checkoutNew(rt, "b1", "base")
	mRunHistory(rt, c, "ours", oursTracks, hop)
	for i, tb := range tabs {
		theirsTracks[i].op.hot = tb.ours.touchedKeys()
		theirsTracks[i].op.hotPct = 7
		theirsTracks[i].op.other = tb.ours
	}
	c.checkoutNew(rt, "b2", "base")
	mRunHistory(rt, c, "theirs", theirsTracks, hop)

	// expected merge
	delMod, anyConf := 0, 0
	for _, tb := range tabs {
		tb.merged = tb.ours
		if tb.sc != nil && !tb.oursChanged {
			tb.merged = tb.theirs
		}
		tb.cols = mNames(tb.merged.Cols)
		if tb.sp.Index != "" {
			tb.idxKind = tb.merged.Cols[tb.merged.colIdx(tb.sp.Index)].Kind
		}
	}
	expect := func() {
		delMod, anyConf = 0, 0
		for _, tb := range tabs {
			e := mModelMerge(tb.base, tb.ours, tb.theirs, tb.sc, tb.oursChanged)
			tb.cur, tb.confs = e.T, tb.entriesOf(e.Confs, tb.base, tb.theirs, "")
			for _, cf := range e.Confs {
				anyConf++
				if cf.Base != nil && (cf.Ours == nil || cf.Theirs == nil) {
					delMod++
				}
			}
		}
	}
	expect()
	merge := func(work string) {
		flag := mDoMerge(rt, c, mode, work, "b1", "b2")
		if (flag != "0") != (anyConf > 0) {
			rt.Fatalf("dolt_merge conflicts flag %s, model has %d conflicts", flag, anyConf)
		}
	}
	merge("m1")
	c43CheckAll(rt, se, "after merge", tabs)

	// resolution plan
	var conflicted []int
	for i, tb := range tabs {
		if len(tb.confs) > 0 {
			conflicted = append(conflicted, i)
		}
	}
	order := rapid.Permutation(conflicted).Draw(rt, "order")
	var plan []c43Step
	allSame := ""
	for _, ti := range order {
		st := rapid.SampledFrom([]string{"ours", "theirs", "theirs", "manual", "manual", "leave"}).Draw(rt, fmt.Sprintf("strategy.t%d", ti+1))
		plan = append(plan, c43Step{ti, st})
		switch {
		case allSame == "" && (st == "ours" || st == "theirs"):
			allSame = st
		case allSame != st:
			allSame = "-"
		}
	}
	absentChosen, refusals := 0, 0
	var log []string
	runPlan := func(plan []c43Step, oneCall bool) {
		if oneCall {
			st := plan[0].strategy
			log = append(log, "resolve --"+st+" .")
			if c43Resolve(rt, c, tabs, plan, st, ".", &absentChosen) {
				refusals++
			}
			c43CheckAll(rt, se, "after dolt_conflicts_resolve --"+st+" .", tabs)
			return
		}
		for _, stp := range plan {
			tb := tabs[stp.tab]
			switch stp.strategy {
			case "ours", "theirs":
				log = append(log, "resolve --"+stp.strategy+" "+tb.name)
				if c43Resolve(rt, c, tabs, []c43Step{stp}, stp.strategy, tb.name, &absentChosen) {
					refusals++
				}
			case "manual":
				log = append(log, c43Manual(rt, c, tb, &absentChosen)...)
			default:
				log = append(log, "leave "+tb.name)
			}
			c43CheckAll(rt, se, fmt.Sprintf("after %s of %s", stp.strategy, tb.name), tabs)
		}
	}
	oneCall := len(plan) > 1 && allSame != "-" && allSame != "" && rapid.Bool().Draw(rt, "onecall")
	runPlan(plan, oneCall)

	remaining := 0
	for _, tb := range tabs {
		remaining += len(tb.confs)
	}
	// the reverse order must give the same tables (only automatic strategies: manual steps draw)
	reversed := false
	auto := len(plan) > 1
	for _, stp := range plan {
		if stp.strategy == "manual" {
			auto = false
		}
	}
	if auto && !oneCall && mode == modeTxn && rapid.Bool().Draw(rt, "reverse") {
		reversed = true
		var first [][]string
		for _, tb := range tabs {
			first = append(first, se.MustQuery(rt, mSelect(tb.name, tb.cols)).Sorted())
		}
		mEndMerge(rt, se, mode, true)
		expect()
		merge("m2")
		var rev []c43Step
		for i := len(plan) - 1; i >= 0; i-- {
			rev = append(rev, plan[i])
		}
		dummy := 0
		save := absentChosen
		absentChosen = dummy
		runPlan(rev, false)
		absentChosen = save
		for i, tb := range tabs {
			got := se.MustQuery(rt, mSelect(tb.name, tb.cols)).Sorted()
			if !vsql.EqualStrings(got, first[i]) {
				rt.Fatalf("resolving in reverse table order changed %s\n first: %s\n reverse: %s", tb.name, vsql.Show(first[i]), vsql.Show(got))
			}
		}
	}
	if remaining == 0 {
		// a fully resolved merge commits, and the commit keeps the resolved data
		if err := se.Exec("CALL dolt_commit('-A','--allow-empty','-m','resolved merge')"); err != nil {
			rt.Fatalf("commit of the fully resolved merge failed: %v", err)
		}
		c43CheckAll(rt, se, "after committing the resolved merge", tabs)
		if mode == modeTxn {
			se.MustExec(rt, "SET autocommit = 1")
		}
	} else {
		mEndMerge(rt, se, mode, true)
	}

	var parts []string
	for _, tb := range tabs {
		parts = append(parts, fmt.Sprintf("%s; base=%s; ours: %s; theirs: %s", tb.sp.create(tb.name), mShow(tb.base.T), strings.Join(tb.ours.Ops, "; "), strings.Join(tb.theirs.Ops, "; ")))
	}
	desc := strings.Join(parts, " || ") + " || plan: " + strings.Join(log, "; ")
	cl := []string{"flavour=single_merge", "mode=" + mode.String(), fmt.Sprintf("tables=%d", nt), fmt.Sprintf("conflicted_tables=%d", len(conflicted))}
	for _, stp := range plan {
		cl = append(cl, "strategy="+stp.strategy)
	}
	if oneCall {
		cl = append(cl, "resolve_all_in_one_call")
	}
	if reversed {
		cl = append(cl, "reverse_order_repeat")
	}
	if delMod > 0 {
		cl = append(cl, "delete_modify_conflict")
	}
	if absentChosen > 0 {
		cl = append(cl, "chosen_side_absent")
	}
	if scTab >= 0 {
		cl = append(cl, "one_sided_add_column")
	}
	if refusals > 0 {
		cl = append(cl, "resolve_theirs_refused_schema")
	}
	if anyConf == 0 {
		cl = append(cl, "no_conflict")
	}
	if remaining > 0 {
		cl = append(cl, "conflicts_left_unresolved")
	} else if anyConf > 0 {
		cl = append(cl, "fully_resolved_and_committed")
	}
	rec.Case(desc, delMod > 0 && absentChosen > 0, cl...)
}

// c43Resolve runs dolt_conflicts_resolve --ours/--theirs for the tables of steps (arg = one table
// name or "." for all) and updates the model.
func c43Resolve(rt *rapid.T, c *mCase, tabs []*c43Tab, steps []c43Step, strategy, arg string, absent *int) (refused bool) {
	q := fmt.Sprintf("CALL dolt_conflicts_resolve('--%s','%s')", strategy, arg)
	rt.Logf("SQL: %s", q)
	err := c.se.Exec(q)
	schemaDiffers := false
	for _, stp := range steps {
		if tabs[stp.tab].sc != nil {
			schemaDiffers = true
		}
	}
	if err != nil {
		if strategy == "theirs" && schemaDiffers && strings.Contains(err.Error(), "conflict schema's columns are not equal") {
			return true // documented refusal: nothing changes (verified by the caller's full comparison)
		}
		rt.Fatalf("%s failed: %v", q, err)
	}
	for _, stp := range steps {
		tb := tabs[stp.tab]
		perKey := map[string][]c43Entry{}
		var keys []string
		for _, e := range tb.confs {
			if len(perKey[e.Key]) == 0 {
				keys = append(keys, e.Key)
			}
			perKey[e.Key] = append(perKey[e.Key], e)
		}
		for _, k := range keys {
			es := perKey[k]
			if strategy != "theirs" {
				if _, ok := tb.cur.Rows[k]; !ok {
					*absent++
				}
				continue
			}
			if len(es) == 1 {
				r := tb.inMerged(es[0].theirs, k)
				if r == nil {
					*absent++
				}
				tb.setCur(k, r)
				continue
			}
			// the key is in conflict with several merged branches: "theirs" is one of their
			// versions (which one is not specified); the row must be exactly one of them
			got := c.se.MustQuery(rt, mSelect(tb.name, tb.cols)+" WHERE "+tb.keyPred(k, "")).Sorted()
			matched := false
			for _, e := range es {
				r := tb.inMerged(e.theirs, k)
				if (r == nil && len(got) == 0) || (r != nil && len(got) == 1 && got[0] == r.Join()) {
					tb.setCur(k, r)
					matched = true
					break
				}
			}
			if !matched {
				rt.Fatalf("%s: key %q of %s holds %s, none of the %d merged branches' versions", q, k, tb.name, vsql.Show(got), len(es))
			}
		}
		tb.confs = nil
	}
	return false
}

// c43Manual resolves the conflicts of one table by hand; returns the log of what was done.
func c43Manual(rt *rapid.T, c *mCase, tb *c43Tab, absent *int) []string {
	var log []string
	se := c.se
	entries := append([]c43Entry(nil), tb.confs...)
	for i, e := range entries {
		k := e.Key
		lb := fmt.Sprintf("manual.%s.%d", tb.name, i)
		action := rapid.SampledFrom([]string{"keep_ours", "take_theirs", "take_theirs", "take_base", "custom", "update_conflict_table"}).Draw(rt, lb+".action")
		_, oursThere := tb.cur.Rows[k]
		theirRow := tb.inMerged(e.theirs, k)
		switch action {
		case "keep_ours":
			if !oursThere {
				*absent++
			}
		case "take_theirs":
			if theirRow == nil {
				*absent++
			}
			c.run(rt, tb.writeRow(k, theirRow))
			tb.setCur(k, theirRow)
		case "take_base":
			r := tb.inMerged(e.base, k)
			if r == nil {
				*absent++
			}
			c.run(rt, tb.writeRow(k, r))
			tb.setCur(k, r)
		case "custom":
			r := make(vsql.Row, len(tb.cols))
			copy(r, strings.Split(k, "\x1f"))
			for j := tb.sp.NPK; j < len(r); j++ {
				r[j] = tb.merged.Cols[j].genVal(rt, fmt.Sprintf("%s.v%d", lb, j))
			}
			c.run(rt, tb.writeRow(k, r))
			tb.setCur(k, r)
		case "update_conflict_table":
			// UPDATE on the conflict table writes our_* through to the table
			var cands []int
			if oursThere && theirRow != nil {
				for j := tb.sp.NPK; j < len(tb.cols); j++ {
					if e.theirs.colIdx(tb.cols[j]) >= 0 && !(theirRow[j] == mNull && tb.merged.Cols[j].NotNull) {
						cands = append(cands, j)
					}
				}
			}
			if len(cands) == 0 {
				action = "keep_ours"
				if !oursThere {
					*absent++
				}
				break
			}
			j := cands[rapid.IntRange(0, len(cands)-1).Draw(rt, lb+".col")]
			c.run(rt, fmt.Sprintf("UPDATE dolt_conflicts_%s SET our_%s = their_%s WHERE %s", tb.name, tb.cols[j], tb.cols[j], tb.entryPred(e)))
			r := tb.cur.Rows[k].Clone()
			r[j] = theirRow[j]
			tb.setCur(k, r)
		}
		log = append(log, fmt.Sprintf("%s[%s] %s", tb.name, strings.ReplaceAll(k, "\x1f", ","), action))
		// mark resolved (or leave the conflict in place)
		switch rapid.IntRange(0, 3).Draw(rt, lb+".clear") {
		case 0:
			log = append(log, "keep conflict")
		case 1:
			id, ok := se.Scalar(rt, fmt.Sprintf("SELECT dolt_conflict_id FROM dolt_conflicts_%s WHERE %s", tb.name, tb.entryPred(e)))
			if !ok {
				rt.Fatalf("conflict of %s key %q not listed any more", tb.name, k)
			}
			c.run(rt, fmt.Sprintf("DELETE FROM dolt_conflicts_%s WHERE dolt_conflict_id = '%s'", tb.name, id))
			tb.dropConf(e)
		default:
			c.run(rt, fmt.Sprintf("DELETE FROM dolt_conflicts_%s WHERE %s", tb.name, tb.entryPred(e)))
			tb.dropConf(e)
		}
	}
	if len(tb.confs) > 0 && rapid.Bool().Draw(rt, "manual."+tb.name+".clearall") {
		c.run(rt, "DELETE FROM dolt_conflicts_"+tb.name)
		tb.confs = nil
		log = append(log, "delete all conflicts of "+tb.name)
	}
	return log
}

// c43AccumCase: conflicts accumulate over several merges before they are resolved. One line of
// history (ours) and 2-3 feature branches, each cut either from the common base (siblings: same
// merge base, different right-hand commits) or from the previous feature's head (different merge
// bases), are merged one after the other into a work branch; conflicted merges are committed with
// their conflicts (@@dolt_allow_commit_conflicts, --force) so that the conflict table holds rows of
// several merges at once, each with the base / their version of its own merge. Compared with the
// model after every merge, then resolved like a single merge.
func c43AccumCase(rt *rapid.T, env *mEnv, rec *vh.Recorder) {
	nt := rapid.SampledFrom([]int{1, 1, 2}).Draw(rt, "ntables")
	nf := rapid.SampledFrom([]int{2, 2, 3}).Draw(rt, "nfeatures")
	mode := mergeMode(rapid.IntRange(0, 1).Draw(rt, "mode"))
	c := env.newCase(rt)
	defer c.close()
	se := c.se
	c.checkoutNew(rt, "base", "")
	var tabs []*c43Tab
	for i := 0; i < nt; i++ {
		lb := fmt.Sprintf("t%d", i+1)
		sp := mGenSpec(rt, mSpecOpts{keyMaxLo: 3, keyMaxHi: 10})
		tb := &c43Tab{name: lb, sp: sp, base: mNewSide(sp)}
		c.run(rt, sp.create(lb))
		for _, st := range tb.base.genBaseRows(rt, 24, sp.KeyMax) {
			c.run(rt, mInst(st, lb))
		}
		tabs = append(tabs, tb)
	}
	c.run(rt, "CALL dolt_commit('-A','--allow-empty','-m','base')")

	hop := mHistoryOpts{maxCommits: 2, minOps: 2, maxOps: 7}
	newOpts := func(tb *c43Tab) mOpOpts {
		return mOpOpts{keyMax: tb.sp.KeyMax, maxRange: 1, wInsert: 3, wUpdate: 5, wDelete: 3}
	}
	var tracks []*mTrack
	hot := make([]map[string]bool, nt)
	for i, tb := range tabs {
		tb.ours = tb.base.clone()
		tb.merged = tb.ours
		tb.cols = mNames(tb.ours.Cols)
		if tb.sp.Index != "" {
			tb.idxKind = tb.ours.Cols[tb.ours.colIdx(tb.sp.Index)].Kind
		}
		tracks = append(tracks, &mTrack{side: tb.ours, tables: []string{tb.name}, op: newOpts(tb)})
		hot[i] = map[string]bool{}
	}
	c.checkoutNew(rt, "b1", "base")
	mRunHistory(rt, c, "ours", tracks, hop)
	for i, tb := range tabs {
		for k := range tb.ours.Touched {
			hot[i][k] = true
		}
	}

	// feature branches
	type feature struct {
		name    string
		stacked bool     // cut from the previous feature's head instead of the common base
		start   []*mSide // per table: the table at the branch point (= the merge base's table)
		sides   []*mSide
		root    string
	}
	var feats []*feature
	for fi := 0; fi < nf; fi++ {
		f := &feature{name: fmt.Sprintf("f%d", fi+1)}
		from := "base"
		if fi > 0 && rapid.IntRange(0, 2).Draw(rt, fmt.Sprintf("f%d.stacked", fi+1)) == 2 {
			f.stacked = true
			from = feats[fi-1].name
		}
		var ftracks []*mTrack
		for i, tb := range tabs {
			start := tb.base
			if f.stacked {
				start = feats[fi-1].sides[i]
			}
			side := start.clone()
			f.start, f.sides = append(f.start, start), append(f.sides, side)
			opo := newOpts(tb)
			ks := make([]string, 0, len(hot[i]))
			for k := range hot[i] {
				ks = append(ks, k)
			}
			sort.Strings(ks)
			opo.hot, opo.hotPct, opo.other = ks, 7, tb.ours
			ftracks = append(ftracks, &mTrack{side: side, tables: []string{tb.name}, op: opo})
		}
		c.checkoutNew(rt, f.name, from)
		mRunHistory(rt, c, f.name, ftracks, hop)
		for i := range tabs {
			for k := range f.sides[i].Touched {
				hot[i][k] = true
			}
		}
		f.root, _ = se.Scalar(rt, fmt.Sprintf("SELECT hashof('%s')", c.pfx+f.name))
		feats = append(feats, f)
	}
	for i, tb := range tabs {
		tb.theirs = feats[0].sides[i] // column set of "theirs" (no schema changes here)
		tb.cur = tb.ours.T.Clone()
	}

	// merge them in sequence
	c.checkoutNew(rt, "m1", "b1")
	if mode == modeTxn {
		c.run(rt, "SET autocommit = 0")
	}
	c.run(rt, "SET @@dolt_allow_commit_conflicts = 1")
	merging := func() bool {
		v, ok := se.Scalar(rt, "SELECT is_merging FROM dolt_merge_status")
		return ok && (v == "1" || v == "true")
	}
	delMod, anyConf, maxRoots, siblingsTogether := 0, 0, 0, false
	for fi, f := range feats {
		old := 0
		newConf := 0
		for i, tb := range tabs {
			old += len(tb.confs)
			exp, confs := vsql.Merge3(f.start[i].T, tb.cur, f.sides[i].T)
			tb.cur = exp
			tb.confs = append(tb.confs, tb.entriesOf(confs, f.start[i], f.sides[i], f.root)...)
			newConf += len(confs)
			for _, cf := range confs {
				anyConf++
				if cf.Base != nil && (cf.Ours == nil || cf.Theirs == nil) {
					delMod++
				}
			}
		}
		q := fmt.Sprintf("CALL dolt_merge('%s')", c.pfx+f.name)
		if old > 0 {
			// a clean merge commits itself, and a commit without --force is refused while a table
			// still carries conflicts ("the table(s) .. are in conflict"): merge without committing,
			// the harness commits with --force below
			q = fmt.Sprintf("CALL dolt_merge('--no-commit','%s')", c.pfx+f.name)
		}
		rt.Logf("SQL: %s", q)
		res, err := se.Query(q)
		if err != nil {
			rt.Fatalf("%s (merge %d of %d) failed: %v", q, fi+1, nf, err)
		}
		flag := res.Data[0][2]
		if old == 0 && (flag != "0") != (newConf > 0) {
			rt.Fatalf("%s: conflicts flag %s, model has %d new conflicts", q, flag, newConf)
		}
		if newConf > 0 && flag == "0" {
			rt.Fatalf("%s: conflicts flag 0, model has %d new conflicts", q, newConf)
		}
		c43CheckAll(rt, se, fmt.Sprintf("after merge %d (%s)", fi+1, f.name), tabs)
		for _, tb := range tabs {
			roots := map[string]bool{}
			sib := map[*mSide]map[string]bool{}
			for _, e := range tb.confs {
				roots[e.root] = true
				if sib[e.base] == nil {
					sib[e.base] = map[string]bool{}
				}
				sib[e.base][e.root] = true
			}
			if len(roots) > maxRoots {
				maxRoots = len(roots)
			}
			for _, m := range sib {
				if len(m) > 1 {
					siblingsTogether = true
				}
			}
		}
		if fi < nf-1 || rapid.Bool().Draw(rt, "commit_last_merge") {
			if merging() {
				c.run(rt, fmt.Sprintf("CALL dolt_commit('-a','--force','--allow-empty','-m','merge %s, conflicts kept')", f.name))
				c43CheckAll(rt, se, fmt.Sprintf("after committing merge %d with its conflicts", fi+1), tabs)
			}
		}
	}

	// resolution
	var conflicted []int
	for i, tb := range tabs {
		if len(tb.confs) > 0 {
			conflicted = append(conflicted, i)
		}
	}
	order := rapid.Permutation(conflicted).Draw(rt, "order")
	absentChosen := 0
	var log []string
	var strategies []string
	for _, ti := range order {
		tb := tabs[ti]
		st := rapid.SampledFrom([]string{"ours", "theirs", "manual", "manual", "manual", "leave"}).Draw(rt, fmt.Sprintf("strategy.t%d", ti+1))
		if st == "theirs" && c43ShapeRepeatedKeyStaleIndex(tb) && vh.OpenFinding("C43", c43FindRepeatedKeyStaleIndex) {
			rec.Excluded(1)
			st = "leave"
		}
		strategies = append(strategies, st)
		switch st {
		case "ours", "theirs":
			log = append(log, "resolve --"+st+" "+tb.name)
			c43Resolve(rt, c, tabs, []c43Step{{ti, st}}, st, tb.name, &absentChosen)
		case "manual":
			log = append(log, c43Manual(rt, c, tb, &absentChosen)...)
		default:
			log = append(log, "leave "+tb.name)
		}
		c43CheckAll(rt, se, fmt.Sprintf("after %s of %s", st, tb.name), tabs)
	}
	remaining := 0
	for _, tb := range tabs {
		remaining += len(tb.confs)
	}
	if remaining == 0 {
		if err := se.Exec("CALL dolt_commit('-A','--allow-empty','-m','resolved')"); err != nil {
			rt.Fatalf("commit after resolving every conflict failed: %v", err)
		}
		c43CheckAll(rt, se, "after committing the resolved state", tabs)
	} else if mode == modeAllow && merging() {
		c.run(rt, "CALL dolt_merge('--abort')")
	}

	var parts []string
	for i, tb := range tabs {
		p := fmt.Sprintf("%s; base=%s; ours: %s", tb.sp.create(tb.name), mShow(tb.base.T), strings.Join(tb.ours.Ops, "; "))
		for _, f := range feats {
			from := "base"
			if f.stacked {
				from = "previous feature"
			}
			p += fmt.Sprintf("; %s (from %s): %s", f.name, from, strings.Join(f.sides[i].Ops, "; "))
		}
		parts = append(parts, p)
	}
	desc := "accumulate: " + strings.Join(parts, " || ") + " || plan: " + strings.Join(log, "; ")
	cl := []string{"flavour=accumulate", "mode=" + mode.String(), fmt.Sprintf("tables=%d", nt), fmt.Sprintf("features=%d", nf), fmt.Sprintf("conflicted_tables=%d", len(conflicted)), fmt.Sprintf("merges_with_conflicts_at_once=%d", maxRoots)}
	for _, st := range strategies {
		cl = append(cl, "strategy="+st)
	}
	for _, f := range feats {
		if f.stacked {
			cl = append(cl, "stacked_feature")
		}
	}
	if siblingsTogether {
		cl = append(cl, "sibling_merges_conflicts_at_once")
	}
	if delMod > 0 {
		cl = append(cl, "delete_modify_conflict")
	}
	if absentChosen > 0 {
		cl = append(cl, "chosen_side_absent")
	}
	if anyConf == 0 {
		cl = append(cl, "no_conflict")
	}
	if remaining > 0 {
		cl = append(cl, "conflicts_left_unresolved")
	} else if anyConf > 0 {
		cl = append(cl, "fully_resolved_and_committed")
	}
	rec.Case(desc, (delMod > 0 && absentChosen > 0) || (maxRoots >= 2 && len(strategies) > 0), cl...)
}
